// C17 harness: Raft membership changes interleaved with pin/unpin.
//
// Two suites in one binary (flag -suite):
//
//	consensus  real raft.NewConsensus peers on loopback libp2p hosts (1-4 peers)
//	cluster    full Cluster peers through the root package (thorough tier)
//
// One line per observation point, carrying the whole script so far:
//
//	C17 <tier c|k> r=<commit retries> rp=<repinning 0|1> init=<bootstrap peerset> <op> <op> ... => lead=<i> m<i>=<peerset>;<pinset>;<flags> ...
//
// op tokens (fields separated by '@', the last field of most ops is the outcome ok|err):
//
//	start@j                    create peer j in staging mode (not yet a member)
//	add@i@j@res                Consensus.AddPeer(j) issued at peer i
//	rm@i@j@res                 Consensus.RmPeer(j) issued at peer i
//	pin@i@<pin>@res            Consensus.LogPin issued at peer i
//	unpin@i@<cid>@res          Consensus.LogUnpin issued at peer i
//	ready@j@<lvs>@<pinset>     peer j signalled Ready(): leader known / voter / applied==last bits and its pinset at that instant
//	nonvoter@i@j@res           (hook) leader i adds j as a non-voting server
//	sync@j@res                 Consensus.WaitForSync at j with a short deadline (ok | err)
//	stop@j  restart@j          shut the peer down / bring it up again on its data folder
//	clean@j@<gone>             shut down + Consensus.Clean at j; gone=1 iff the data folder no longer holds raft.db
//
// cluster suite ops are listed in cluster.go.
package main

import (
	"bufio"
	"context"
	"fmt"
	"os"
	"path/filepath"
	"sort"
	"strconv"
	"strings"
	"sync"
	"sync/atomic"
	"time"

	"github.com/ipfs/ipfs-cluster/api"
	"github.com/ipfs/ipfs-cluster/consensus/raft"
	"github.com/ipfs/ipfs-cluster/datastore/inmem"

	libp2p "github.com/libp2p/go-libp2p"
	crypto "github.com/libp2p/go-libp2p-core/crypto"
	host "github.com/libp2p/go-libp2p-core/host"
	peer "github.com/libp2p/go-libp2p-core/peer"
	peerstore "github.com/libp2p/go-libp2p-core/peerstore"
	rpc "github.com/libp2p/go-libp2p-gorpc"

	"verifharness/common"
)

const universe = 5 // peer indexes 0..4 (index 4 is never started: the "absent" peer)

var errInconclusive = fmt.Errorf("inconclusive")

// ---------------------------------------------------------------- consensus-level world

type consSvc struct{ n *cnode }

// fault injection (suite fault): the next forwarded requests this node receives are answered as its plan says,
// 'f' = fail without executing, 'l' = execute, then report a failure (the answer is lost).
var errInjected = fmt.Errorf("injected: forwarded request failed")

// gate returns what to do with a forwarded request: 0 pass, 'f' fail before, 'l' fail after executing.
func (s *consSvc) gate(ctx context.Context) byte {
	f := s.n.faults
	if f == nil {
		return 0
	}
	f.mu.Lock()
	defer f.mu.Unlock()
	if from, err := rpc.GetRequestSender(ctx); err != nil || from != f.caller {
		return 0 // a forward on behalf of somebody else (a deposed leader passing the request on)
	}
	k := f.fwdSeen
	f.fwdSeen++
	if k < len(f.plan) {
		return f.plan[k]
	}
	return 0
}

// faults: the plan applies to whoever leads (forwards are counted wherever they arrive).
type faults struct {
	mu      sync.Mutex
	plan    string
	caller  peer.ID // only this peer's forwards are counted and faulted
	fwdSeen int
}

func (s *consSvc) run(ctx context.Context, f func() error) error {
	switch s.gate(ctx) {
	case 'f':
		return errInjected
	case 'l':
		f()
		return errInjected
	}
	return f()
}

func (s *consSvc) LogPin(ctx context.Context, in *api.Pin, out *struct{}) error {
	return s.run(ctx, func() error { return s.n.cc.LogPin(ctx, in) })
}
func (s *consSvc) LogUnpin(ctx context.Context, in *api.Pin, out *struct{}) error {
	return s.run(ctx, func() error { return s.n.cc.LogUnpin(ctx, in) })
}
func (s *consSvc) AddPeer(ctx context.Context, in peer.ID, out *struct{}) error {
	return s.run(ctx, func() error { return s.n.cc.AddPeer(ctx, in) })
}
func (s *consSvc) RmPeer(ctx context.Context, in peer.ID, out *struct{}) error {
	return s.run(ctx, func() error { return s.n.cc.RmPeer(ctx, in) })
}

type trackerSvc struct{}

func (trackerSvc) Track(ctx context.Context, in *api.Pin, out *struct{}) error   { return nil }
func (trackerSvc) Untrack(ctx context.Context, in *api.Pin, out *struct{}) error { return nil }

type cnode struct {
	idx    int
	priv   crypto.PrivKey
	id     peer.ID
	h      host.Host
	cc     *raft.Consensus
	folder string
	up     bool
	ready  chan string   // what the peer looked like at the instant Ready() fired: "<lvs>@<pinset>"
	stop   chan struct{} // closed when the instance is shut down

	faults *faults // shared by the peers of a world (suite fault)
	gater  *blockGater
}

type cworld struct {
	snapshots   bool // snapshot_interval / snapshot_threshold low: peers snapshot within a second of any new entry
	rotate      int
	slash       bool
	dir         string
	slowCatchUp bool // one entry per AppendEntries: a joiner needs many round trips to catch up
	fast        bool // suites fault / conc: short heartbeat (a failed forward sleeps 2 heartbeats)
	retries     int
	nodes       []*cnode
	byID        map[peer.ID]int
}

const rpcProto = "/verif/c17/rpc"

func newCWorld(dir string, retries int) (*cworld, error) {
	w := &cworld{dir: dir, retries: retries, rotate: 2, byID: map[peer.ID]int{}}
	for i := 0; i < universe; i++ {
		priv, _, err := crypto.GenerateKeyPair(crypto.Ed25519, 0)
		if err != nil {
			return nil, err
		}
		id, err := peer.IDFromPrivateKey(priv)
		if err != nil {
			return nil, err
		}
		w.nodes = append(w.nodes, &cnode{idx: i, priv: priv, id: id, folder: filepath.Join(dir, fmt.Sprintf("raft-%d", i))})
		w.byID[id] = i
	}
	return w, nil
}

func (w *cworld) raftCfg(n *cnode, init []int) *raft.Config {
	cfg := &raft.Config{}
	cfg.Default()
	cfg.DataFolder = n.folder
	if w.slash {
		cfg.DataFolder = n.folder + "/"
	}
	cfg.WaitForLeaderTimeout = 20 * time.Second
	cfg.NetworkTimeout = 10 * time.Second
	cfg.CommitRetries = w.retries
	cfg.CommitRetryDelay = 50 * time.Millisecond
	cfg.BackupsRotate = w.rotate
	cfg.RaftConfig.HeartbeatTimeout = 700 * time.Millisecond
	cfg.RaftConfig.ElectionTimeout = 1000 * time.Millisecond
	cfg.RaftConfig.LeaderLeaseTimeout = 500 * time.Millisecond
	cfg.RaftConfig.CommitTimeout = 50 * time.Millisecond
	if w.fast {
		cfg.WaitForLeaderTimeout = 8 * time.Second
		cfg.RaftConfig.HeartbeatTimeout = 400 * time.Millisecond
		cfg.RaftConfig.ElectionTimeout = 400 * time.Millisecond
		cfg.RaftConfig.LeaderLeaseTimeout = 300 * time.Millisecond
		cfg.RaftConfig.CommitTimeout = 20 * time.Millisecond
	}
	if w.slowCatchUp {
		cfg.RaftConfig.MaxAppendEntries = 1
	}
	if w.snapshots {
		cfg.RaftConfig.SnapshotInterval = 300 * time.Millisecond
		cfg.RaftConfig.SnapshotThreshold = 1
	}
	for _, i := range init {
		if i != n.idx {
			cfg.InitPeerset = append(cfg.InitPeerset, w.nodes[i].id)
		}
	}
	return cfg
}

// ensureHost creates the libp2p host of a node (kept across restarts) and
// makes every host know every other host's address.
func (w *cworld) ensureHost(n *cnode) error {
	if n.h != nil {
		return nil
	}
	n.gater = &blockGater{}
	h, err := libp2p.New(context.Background(), libp2p.Identity(n.priv), libp2p.ListenAddrStrings("/ip4/127.0.0.1/tcp/0"),
		libp2p.ConnectionGater(n.gater))
	if err != nil {
		return err
	}
	n.h = h
	for _, o := range w.nodes {
		if o.h != nil && o != n {
			o.h.Peerstore().AddAddrs(n.id, n.h.Addrs(), peerstore.PermanentAddrTTL)
			n.h.Peerstore().AddAddrs(o.id, o.h.Addrs(), peerstore.PermanentAddrTTL)
		}
	}
	return nil
}

// refreshAddrs re-adds all addresses (the raft wrapper clears the addresses of departed peers).
func (w *cworld) refreshAddrs() {
	for _, n := range w.nodes {
		if n.h == nil {
			continue
		}
		for _, o := range w.nodes {
			if o.h != nil && o != n {
				n.h.Peerstore().AddAddrs(o.id, o.h.Addrs(), peerstore.PermanentAddrTTL)
			}
		}
	}
}

func (w *cworld) startNode(n *cnode, staging bool, init []int) error {
	if err := w.ensureHost(n); err != nil {
		return err
	}
	cc, err := raft.NewConsensus(n.h, w.raftCfg(n, init), inmem.New(), staging)
	if err != nil {
		return err
	}
	n.cc = cc
	srv := rpc.NewServer(n.h, rpcProto)
	if err := srv.RegisterName("Consensus", &consSvc{n}); err != nil {
		return err
	}
	if err := srv.RegisterName("PinTracker", trackerSvc{}); err != nil {
		return err
	}
	n.ready = make(chan string, 1)
	n.stop = make(chan struct{})
	go func(cc *raft.Consensus, ready chan string, stop chan struct{}) {
		select {
		case <-cc.Ready(context.Background()):
			info, err := cc.VerifRaftInfo()
			pins, ok := pinsetOf(cc)
			if err != nil || !ok {
				ready <- "err"
				return
			}
			b := func(x bool) string {
				if x {
					return "1"
				}
				return "0"
			}
			ready <- fmt.Sprintf("%s%s%s@%s", b(info.Leader != ""), b(info.Voter), b(info.Applied == info.Last), pins)
		case <-stop:
		}
	}(cc, n.ready, n.stop)
	cc.SetClient(rpc.NewClientWithServer(n.h, rpcProto, srv))
	n.up = true
	return nil
}

func (w *cworld) stopNode(n *cnode) {
	if n.cc != nil && n.up {
		close(n.stop)
		n.cc.Shutdown(context.Background())
	}
	n.up = false
}

func (w *cworld) close() {
	for _, n := range w.nodes {
		w.stopNode(n)
	}
	for _, n := range w.nodes {
		if n.h != nil {
			n.h.Close()
		}
	}
	os.RemoveAll(w.dir)
}

// within runs f with a deadline; false = did not return in time.
func within(d time.Duration, f func()) bool {
	done := make(chan struct{})
	go func() {
		defer func() {
			recover()
			close(done)
		}()
		f()
	}()
	select {
	case <-done:
		return true
	case <-time.After(d):
		return false
	}
}

func resTok(err error) string {
	if err != nil {
		return "err"
	}
	return "ok"
}

func (w *cworld) peersTok(n *cnode) (string, bool) {
	ps, err := n.cc.Peers(context.Background())
	if err != nil {
		return "", false
	}
	idx := make([]int, 0, len(ps))
	for _, p := range ps {
		i, ok := w.byID[p]
		if !ok {
			i = 99
		}
		idx = append(idx, i)
	}
	sort.Ints(idx)
	return common.Ints(idx), true
}

func pinsetOf(cc *raft.Consensus) (string, bool) {
	st, err := cc.State(context.Background())
	if err != nil {
		return "", false
	}
	l, err := st.List(context.Background())
	if err != nil {
		return "", false
	}
	return common.PinsetTok(l), true
}

// leader finds the up node that considers itself leader and member.
func (w *cworld) leader() *cnode {
	for _, n := range w.nodes {
		if !n.up {
			continue
		}
		info, err := n.cc.VerifRaftInfo()
		if err == nil && info.Member && info.Leader == peer.Encode(n.id) {
			return n
		}
	}
	return nil
}

// converge waits until a leader exists and every up member of the leader's
// configuration has applied the leader's last index; departed-but-running
// peers are given a short grace period to learn of their removal.
func (w *cworld) converge(max time.Duration) (*cnode, bool) {
	deadline := time.Now().Add(max)
	stable := 0
	var graceEnd time.Time
	for time.Now().Before(deadline) {
		time.Sleep(60 * time.Millisecond)
		l := w.leader()
		if l == nil {
			stable = 0
			continue
		}
		li, err := l.cc.VerifRaftInfo()
		if err != nil || li.Applied != li.Last {
			stable = 0
			continue
		}
		ok := true
		lagging := false
		for _, n := range w.nodes {
			if !n.up || n == l {
				continue
			}
			ni, err := n.cc.VerifRaftInfo()
			if err != nil {
				ok = false
				break
			}
			member := false
			for _, s := range li.Servers {
				if s == peer.Encode(n.id) {
					member = true
				}
			}
			if member {
				if ni.Applied != li.Last || ni.Last != li.Last || ni.Leader != peer.Encode(l.id) {
					ok = false
					break
				}
			} else if ni.Member && ni.Last > 0 {
				// removed peer that has not seen its removal yet
				lagging = true
			}
		}
		if !ok {
			stable = 0
			continue
		}
		if lagging {
			if graceEnd.IsZero() {
				graceEnd = time.Now().Add(4 * time.Second)
			}
			if time.Now().Before(graceEnd) {
				continue
			}
		}
		stable++
		if stable >= 2 {
			return l, true
		}
	}
	return nil, false
}

func (w *cworld) observe(l *cnode) (string, bool) {
	parts := []string{fmt.Sprintf("lead=%d", l.idx)}
	for _, n := range w.nodes {
		if !n.up {
			continue
		}
		ps, ok1 := w.peersTok(n)
		pins, ok2 := pinsetOf(n.cc)
		info, err := n.cc.VerifRaftInfo()
		if !ok1 || !ok2 || err != nil {
			return "", false
		}
		nv := make([]int, 0)
		for _, s := range info.Nonvoter {
			if p, err := peer.Decode(s); err == nil {
				nv = append(nv, w.byID[p])
			}
		}
		sort.Ints(nv)
		parts = append(parts, fmt.Sprintf("m%d=%s;%s;nv=%s", n.idx, ps, pins, common.Ints(nv)))
	}
	return strings.Join(parts, " "), true
}

// ---------------------------------------------------------------- script execution (consensus suite)

type cscript struct {
	retries int
	init    []int
	rotate  int      // backups_rotate of every peer (0 = default 2)
	slash   bool     // data_folder is configured with a trailing slash
	ops     []string // without outcomes
}

func (s cscript) rot() int {
	if s.rotate <= 0 {
		return 2
	}
	return s.rotate
}

func (s cscript) tail() string {
	ts := 0
	if s.slash {
		ts = 1
	}
	return fmt.Sprintf("br=%d ts=%d", s.rot(), ts)
}

func (s cscript) head() string {
	return fmt.Sprintf("C17 c r=%d rp=1 init=%s %s", s.retries, common.Ints(s.init), s.tail())
}

// dataGone: the Raft data folder holds no database and no snapshot any more.
func dataGone(folder string) bool {
	if _, err := os.Stat(filepath.Join(folder, "raft.db")); err == nil {
		return false
	}
	if l, err := os.ReadDir(filepath.Join(folder, "snapshots")); err == nil && len(l) > 0 {
		return false
	}
	return true
}

// waitSnapshot waits until the data folder holds a finished snapshot.
func waitSnapshot(folder string, max time.Duration) bool {
	deadline := time.Now().Add(max)
	for time.Now().Before(deadline) {
		if l, err := os.ReadDir(filepath.Join(folder, "snapshots")); err == nil {
			for _, e := range l {
				if !strings.HasSuffix(e.Name(), ".tmp") {
					return true
				}
			}
		}
		time.Sleep(100 * time.Millisecond)
	}
	return false
}

// countBackups counts the rotated copies <folder>.old.<i> next to the data folder.
func countBackups(folder string) int {
	n := 0
	for i := 0; i < 12; i++ {
		if _, err := os.Stat(fmt.Sprintf("%s.old.%d", folder, i)); err == nil {
			n++
		}
	}
	return n
}

const opTimeout = 90 * time.Second

// runConsScript executes the script on fresh peers and prints one line per observation point.
func runConsScript(out *common.Out, mu *sync.Mutex, scratch string, tag string, s cscript) {
	emit := func(format string, a ...interface{}) {
		mu.Lock()
		out.Line(format, a...)
		mu.Unlock()
	}
	w, err := newCWorld(filepath.Join(scratch, tag), s.retries)
	if err != nil {
		emit("# inconclusive setup %v", err)
		return
	}
	defer w.close()
	os.RemoveAll(w.dir)
	w.rotate, w.slash = s.rot(), s.slash
	for _, op := range s.ops {
		if strings.HasPrefix(op, "bulk@") {
			w.slowCatchUp = true
		}
		if strings.HasPrefix(op, "snap@") {
			w.snapshots = true
		}
	}
	for _, i := range s.init {
		if err := w.ensureHost(w.nodes[i]); err != nil {
			emit("# inconclusive host %v", err)
			return
		}
	}
	for _, i := range s.init {
		if err := w.startNode(w.nodes[i], false, s.init); err != nil {
			emit("# inconclusive start %v", err)
			return
		}
	}
	for _, i := range s.init {
		n := w.nodes[i]
		if !within(60*time.Second, func() { <-n.ready }) {
			emit("# inconclusive initial-ready-timeout %s", s.head())
			return
		}
	}
	done := []string{}
	line := func() bool {
		anyUp := false
		for _, n := range w.nodes {
			anyUp = anyUp || n.up
		}
		if !anyUp {
			return true // nobody is running: nothing to observe until a restart
		}
		l, ok := w.converge(45 * time.Second)
		if !ok {
			emit("# inconclusive no-convergence %s %s", s.head(), strings.Join(done, " "))
			return false
		}
		obs, ok := w.observe(l)
		if !ok {
			emit("# inconclusive observe %s %s", s.head(), strings.Join(done, " "))
			return false
		}
		emit("%s %s => %s", s.head(), strings.Join(done, " "), obs)
		return true
	}
	if !line() {
		return
	}
	for _, op := range s.ops {
		tok, ok := w.exec(op)
		if !ok {
			emit("# inconclusive op-timeout %s %s %s", s.head(), strings.Join(done, " "), op)
			return
		}
		if tok == "" {
			continue // not executable in this state: dropped
		}
		done = append(done, tok)
		if !line() {
			return
		}
	}
}

// validPinArg accepts only canonical pin tokens (without origins: see K01) and cid indexes of the naming table.
func validPinArg(kind, arg string) bool {
	if kind == "unpin" {
		v := atoi(arg)
		return v >= 0 && v < common.PinUniverse
	}
	f := strings.Split(arg, "/")
	if len(f) != 14 || atoi(f[0]) < 0 || atoi(f[0]) >= common.PinUniverse || f[11] != "-" {
		return false
	}
	return common.PinTok(common.PinOf(arg)) == arg
}

func atoi(s string) int {
	v, err := strconv.Atoi(s)
	if err != nil {
		return -1
	}
	return v
}

func (w *cworld) node(s string) *cnode {
	i := atoi(s)
	if i < 0 || i >= len(w.nodes) {
		return nil
	}
	return w.nodes[i]
}

// exec performs one op (outcome fields of the input token are ignored) and
// returns the token with the observed outcome. ok=false: timed out.
func (w *cworld) exec(op string) (string, bool) {
	f := strings.Split(op, "@")
	ctx := context.Background()
	role := func(n *cnode) string {
		if l := w.leader(); l == n {
			return "L"
		}
		return "F"
	}
	switch f[0] {
	case "start":
		if len(f) < 2 {
			return "", true
		}
		n := w.node(f[1])
		if n == nil || n.up || n.idx == universe-1 {
			return "", true
		}
		if _, err := os.Stat(filepath.Join(n.folder, "raft.db")); err == nil {
			return "", true // has state: use restart
		}
		if err := w.startNode(n, true, nil); err != nil {
			return "", false
		}
		w.refreshAddrs()
		return "start@" + f[1], true
	case "add", "rm", "nonvoter":
		if len(f) < 3 {
			return "", true
		}
		at, p := w.node(f[1]), w.node(f[2])
		if f[1] == "L" {
			at = w.leader()
			if at != nil {
				f[1] = strconv.Itoa(at.idx)
			}
		}
		if at == nil || p == nil || !at.up {
			return "", true
		}
		w.refreshAddrs()
		r := role(at)
		var err error
		ok := within(opTimeout, func() {
			switch f[0] {
			case "add":
				err = at.cc.AddPeer(ctx, p.id)
			case "rm":
				err = at.cc.RmPeer(ctx, p.id)
			default:
				err = at.cc.VerifAddNonvoter(p.id)
			}
		})
		if !ok {
			return "", false
		}
		if f[0] == "nonvoter" {
			// a direct Raft call without the wrapper's retry loop: an error does not tell whether the entry
			// was committed (leadership may move meanwhile); report what happened to the configuration
			res := "err"
			for i := 0; i < 60 && res == "err"; i++ {
				if l := w.leader(); l != nil {
					if info, e := l.cc.VerifRaftInfo(); e == nil {
						for _, s := range info.Nonvoter {
							if s == peer.Encode(p.id) {
								res = "ok"
							}
						}
					}
				}
				if res == "err" {
					if err == nil {
						time.Sleep(100 * time.Millisecond)
					} else if i > 30 {
						break
					} else {
						time.Sleep(100 * time.Millisecond)
					}
				}
			}
			return fmt.Sprintf("%s@%s@%s@%s@%s", f[0], f[1], f[2], res, r), true
		}
		return fmt.Sprintf("%s@%s@%s@%s@%s", f[0], f[1], f[2], resTok(err), r), true
	case "pin", "unpin":
		if len(f) < 3 {
			return "", true
		}
		at := w.node(f[1])
		if at == nil || !at.up || !validPinArg(f[0], f[2]) {
			return "", true
		}
		r := role(at)
		var err error
		ok := within(opTimeout, func() {
			if f[0] == "pin" {
				err = at.cc.LogPin(ctx, common.PinOf(f[2]))
			} else {
				err = at.cc.LogUnpin(ctx, api.PinCid(common.CidN(atoi(f[2]))))
			}
		})
		if !ok {
			return "", false
		}
		return fmt.Sprintf("%s@%s@%s@%s@%s", f[0], f[1], f[2], resTok(err), r), true
	case "bulk":
		// a long log: n identical-per-cid pins logged concurrently (marker only: the driver ignores it, the
		// script re-asserts the same five pins right after)
		if len(f) < 3 {
			return "", true
		}
		at, n := w.node(f[1]), atoi(f[2])
		if at == nil || !at.up || n <= 0 || n > 5000 {
			return "", true
		}
		var wg sync.WaitGroup
		var failed int32
		work := make(chan int, n)
		for k := 0; k < n; k++ {
			work <- k
		}
		close(work)
		okAll := within(opTimeout, func() {
			for g := 0; g < 16; g++ {
				wg.Add(1)
				go func() {
					defer wg.Done()
					for k := range work {
						if err := at.cc.LogPin(ctx, common.PinOf(fmt.Sprintf(bulkShape, k%5))); err != nil {
							atomic.AddInt32(&failed, 1)
						}
					}
				}()
			}
			wg.Wait()
		})
		if !okAll || failed > 0 {
			return "", false
		}
		toks := []string{fmt.Sprintf("bulk@%s@%d", f[1], n)}
		for c := 0; c < 5; c++ {
			toks = append(toks, fmt.Sprintf("pin@%s@%s@ok@%s", f[1], fmt.Sprintf(bulkShape, c), role(at)))
		}
		return strings.Join(toks, " "), true
	case "ready":
		if len(f) < 2 {
			return "", true
		}
		n := w.node(f[1])
		if n == nil || !n.up {
			return "", true
		}
		snap := ""
		if !within(60*time.Second, func() { snap = <-n.ready }) || snap == "err" {
			return "", false
		}
		return fmt.Sprintf("ready@%s@%s", f[1], snap), true
	case "sync":
		if len(f) < 2 {
			return "", true
		}
		n := w.node(f[1])
		if n == nil || !n.up {
			return "", true
		}
		var err error
		c2, cancel := context.WithTimeout(ctx, 2500*time.Millisecond)
		defer cancel()
		if !within(opTimeout, func() { err = n.cc.WaitForSync(c2) }) {
			return "", false
		}
		if err != nil {
			return "sync@" + f[1] + "@err", true
		}
		info, e2 := n.cc.VerifRaftInfo()
		if e2 != nil {
			return "", false
		}
		if !info.Voter {
			return "sync@" + f[1] + "@ok-novote", true
		}
		return "sync@" + f[1] + "@ok", true
	case "stop":
		n := w.node(f[1])
		if n == nil || !n.up {
			return "", true
		}
		if !within(opTimeout, func() { w.stopNode(n) }) {
			return "", false
		}
		return "stop@" + f[1], true
	case "restart":
		n := w.node(f[1])
		if n == nil {
			return "", true
		}
		if _, err := os.Stat(filepath.Join(n.folder, "raft.db")); err != nil {
			return "", true
		}
		if n.up {
			if !within(opTimeout, func() { w.stopNode(n) }) {
				return "", false
			}
		}
		if err := w.startNode(n, false, nil); err != nil {
			return "", false
		}
		w.refreshAddrs()
		return "restart@" + f[1], true
	case "snap":
		// marker (ignored by the driver): wait until peer j holds a snapshot in its data folder
		n := w.node(f[1])
		if n == nil || !n.up {
			return "", true
		}
		if !waitSnapshot(n.folder, 20*time.Second) {
			return "", false
		}
		return "snap@" + f[1], true
	case "clean":
		n := w.node(f[1])
		if n == nil || n.cc == nil {
			return "", true
		}
		var err error
		if !within(opTimeout, func() {
			w.stopNode(n)
			err = n.cc.Clean(ctx)
		}) {
			return "", false
		}
		gone := "1"
		if !dataGone(n.folder) {
			gone = "0"
		}
		if err != nil {
			gone = "e"
		}
		return fmt.Sprintf("clean@%s@%s@%d", f[1], gone, countBackups(n.folder)), true
	}
	return "", true
}

// ---------------------------------------------------------------- generators

const bulkShape = "%d/d/-1:-1/5/r/-1/0/-/z/-/-/-/-/-"

var pinShapes = []string{
	"%d/d/-1:-1/0/r/-1/0/-/z/-/-/-/-/-",
	"%d/d/1:2/3/r/-1/0/1,2/z/-/-/-/-/-",
	"%d/d/2:3/1/d/0/0/0,1,2/f1/1:2/-/-/-/-",
	"%d/d/1:1/2/r/-1/0/3/z/2:1,3:4/-/-/-/-",
	"%d/d/-1:-1/4/d/0/0/-/f2/-/-/-/-/-",
	"%d/d/1:3/0/r/-1/0/0,2/z/-/-/-/-/-",
}

type genState struct {
	members map[int]bool // expected voters/servers (generator bookkeeping only)
	started map[int]bool // running instances
	hasData map[int]bool
	nonvote map[int]bool
	maxPeer int
}

func genConsScript(r *common.Rng, tier string) cscript {
	s := cscript{retries: []int{1, 1, 0, 2}[r.Intn(4)]}
	maxPeer := 3
	if tier == "thorough" {
		maxPeer = 4
	}
	switch r.Intn(8) {
	case 0, 1:
		s.init = []int{0, 1}
	case 2, 3:
		s.init = []int{0, 1, 2}
	default:
		s.init = []int{0}
	}
	s.rotate = 1 + r.Intn(3)
	if r.Chance(1, 8) {
		// the same peer, on the same data folder, is added and removed more often than backups_rotate:
		// every removal must leave its folder empty (snapshots are forced so that Clean goes through the backup rotation)
		s.init = []int{0}
		s.rotate = 1 + r.Intn(2)
		s.slash = r.Chance(1, 3)
		rounds := s.rotate + 2
		for k := 0; k < rounds; k++ {
			s.ops = append(s.ops, "start@1", "add@0@1", "ready@1",
				fmt.Sprintf("pin@0@%s", fmt.Sprintf(pinShapes[r.Intn(len(pinShapes))], r.Intn(5))), "snap@1")
			if r.Chance(1, 3) {
				s.ops = append(s.ops, "rm@1@1")
			} else {
				s.ops = append(s.ops, "rm@0@1")
			}
			s.ops = append(s.ops, "clean@1")
		}
		return s
	}
	if r.Chance(1, 10) {
		// a joiner that has a long log to catch up with, one entry per round trip
		s.init = []int{0}
		n := 300 + 100*r.Intn(4)
		s.ops = append(s.ops, fmt.Sprintf("bulk@0@%d", n))
		for c := 0; c < 5; c++ {
			s.ops = append(s.ops, fmt.Sprintf("pin@0@%s", fmt.Sprintf(pinShapes[1+r.Intn(3)], c)))
		}
		s.ops = append(s.ops, "start@1", "add@0@1", "ready@1")
		if r.Bool() {
			s.ops = append(s.ops, "rm@1@0", "clean@0")
		}
		return s
	}
	g := &genState{members: map[int]bool{}, started: map[int]bool{}, hasData: map[int]bool{}, nonvote: map[int]bool{}, maxPeer: maxPeer}
	for _, i := range s.init {
		g.members[i], g.started[i], g.hasData[i] = true, true, true
	}
	steps := r.Range(4, 9)
	if tier == "thorough" {
		steps = r.Range(5, 14)
	}
	pick := func(m map[int]bool) int {
		var l []int
		for k, v := range m {
			if v {
				l = append(l, k)
			}
		}
		sort.Ints(l)
		if len(l) == 0 {
			return -1
		}
		return l[r.Intn(len(l))]
	}
	liveMembers := func() map[int]bool {
		m := map[int]bool{}
		for k, v := range g.members {
			if v && g.started[k] && !g.nonvote[k] {
				m[k] = true
			}
		}
		return m
	}
	addOp := func(op string) { s.ops = append(s.ops, op) }
	for len(s.ops) < steps {
		at := pick(liveMembers())
		if at < 0 {
			break
		}
		nm := len(liveMembers())
		switch c := r.Intn(100); {
		case c < 26: // pin
			addOp(fmt.Sprintf("pin@%d@%s", at, fmt.Sprintf(pinShapes[r.Intn(len(pinShapes))], r.Intn(5))))
		case c < 36: // unpin (present or absent)
			addOp(fmt.Sprintf("unpin@%d@%d", at, r.Intn(5)))
		case c < 58: // grow: start a new peer and add it
			j := -1
			for k := 0; k < maxPeer; k++ {
				if !g.started[k] && !g.members[k] && !g.hasData[k] {
					j = k
					break
				}
			}
			if j < 0 {
				continue
			}
			addOp(fmt.Sprintf("start@%d", j))
			if r.Chance(1, 8) {
				// the staging peer is first made a non-voter through the hook
				addOp(fmt.Sprintf("nonvoter@L@%d", j))
				addOp(fmt.Sprintf("sync@%d", j))
				g.started[j], g.members[j], g.nonvote[j], g.hasData[j] = true, true, true, true
				if r.Bool() {
					addOp(fmt.Sprintf("add@%d@%d", at, j)) // present (as non-voter): no-op
				}
				addOp(fmt.Sprintf("rm@%d@%d", at, j))
				addOp(fmt.Sprintf("clean@%d", j))
				g.started[j], g.members[j], g.nonvote[j], g.hasData[j] = false, false, false, false
				continue
			}
			addOp(fmt.Sprintf("add@%d@%d", at, j))
			addOp(fmt.Sprintf("ready@%d", j))
			g.started[j], g.members[j], g.hasData[j] = true, true, true
		case c < 66: // add a present peer
			addOp(fmt.Sprintf("add@%d@%d", at, pick(liveMembers())))
		case c < 74: // remove an absent peer (never started, or already removed)
			j := universe - 1
			if r.Bool() {
				for k := 0; k < maxPeer; k++ {
					if !g.members[k] {
						j = k
					}
				}
			}
			addOp(fmt.Sprintf("rm@%d@%d", at, j))
		case c < 92: // remove a member (possibly the leader, possibly oneself, possibly the last one)
			j := pick(liveMembers())
			if r.Chance(1, 3) {
				j = at
			}
			addOp(fmt.Sprintf("rm@%d@%d", at, j))
			if nm > 1 {
				g.members[j] = false
				if r.Chance(2, 3) {
					addOp(fmt.Sprintf("clean@%d", j))
					g.started[j], g.hasData[j] = false, false
				} else {
					addOp(fmt.Sprintf("stop@%d", j))
					g.started[j] = false
				}
			}
		default: // restart a member (only when the others keep a quorum or it is alone)
			j := pick(liveMembers())
			addOp(fmt.Sprintf("restart@%d", j))
		}
	}
	return s
}

func parseScript(f []string) (cscript, string, bool) {
	// f: tokens after "C17"
	var s cscript
	if len(f) < 4 {
		return s, "", false
	}
	tier := f[0]
	if !strings.HasPrefix(f[1], "r=") || !strings.HasPrefix(f[2], "rp=") || !strings.HasPrefix(f[3], "init=") {
		return s, "", false
	}
	s.retries = atoi(f[1][2:])
	if s.retries < 0 || s.retries > 3 {
		return s, "", false
	}
	for _, x := range strings.Split(f[3][5:], ",") {
		v := atoi(x)
		if v < 0 || v >= universe-1 {
			return s, "", false
		}
		s.init = append(s.init, v)
	}
	for _, t := range f[4:] {
		if t == "=>" {
			break
		}
		if strings.HasPrefix(t, "br=") {
			s.rotate = atoi(t[3:])
			if s.rotate < 1 || s.rotate > 6 {
				return s, "", false
			}
			continue
		}
		if strings.HasPrefix(t, "ts=") {
			s.slash = t == "ts=1"
			continue
		}
		s.ops = append(s.ops, t)
	}
	return s, tier + " " + f[2], true
}

func main() {
	a := common.ParseArgs()
	out := common.NewOut()
	defer out.Flush()
	scratch := os.Getenv("VERIF_SCRATCH")
	if scratch == "" {
		scratch = filepath.Join(os.TempDir(), "verif-C17")
	}
	suite := a.Extra["suite"]
	if suite == "" {
		suite = "consensus"
	}
	scratch = filepath.Join(scratch, suite)
	os.RemoveAll(scratch)
	os.MkdirAll(scratch, 0700)
	defer os.RemoveAll(scratch)
	var mu sync.Mutex

	par := 6
	if v := atoi(a.Extra["par"]); v > 0 {
		par = v
	}
	if a.Extra["stdin"] != "" {
		// recorded scripts are independent of each other: run them side by side like the generated ones
		sc := bufio.NewScanner(os.Stdin)
		sc.Buffer(make([]byte, 1<<20), 1<<24)
		k := 0
		var wg sync.WaitGroup
		sem := make(chan struct{}, par)
		launch := func(f func()) {
			wg.Add(1)
			sem <- struct{}{}
			go func() {
				defer wg.Done()
				defer func() { <-sem }()
				f()
			}()
		}
		for sc.Scan() {
			f := strings.Fields(sc.Text())
			if len(f) == 0 || strings.HasPrefix(f[0], "#") {
				continue
			}
			if f[0] != "C17" {
				mu.Lock()
				out.Line("# skipped malformed-input")
				mu.Unlock()
				continue
			}
			if len(f) > 1 && f[1] == "j" {
				if js, ok := parseJoin(f[2:]); ok && suite == "join" {
					k++
					tag := fmt.Sprintf("in%d", k)
					launch(func() { runJoinScript(out, &mu, scratch, tag, js) })
				} else if !ok {
					mu.Lock()
					out.Line("# skipped malformed-input")
					mu.Unlock()
				}
				continue
			}
			if len(f) > 1 && f[1] == "d" {
				if ds, ok := parseDepart(f[2:]); ok && suite == "depart" {
					k++
					tag := fmt.Sprintf("in%d", k)
					launch(func() { runDepartScript(out, &mu, scratch, tag, ds) })
				} else if !ok {
					mu.Lock()
					out.Line("# skipped malformed-input")
					mu.Unlock()
				}
				continue
			}
			s, hd, ok := parseScript(f[1:])
			if !ok {
				mu.Lock()
				out.Line("# skipped malformed-input")
				mu.Unlock()
				continue
			}
			k++
			tag := fmt.Sprintf("in%d", k)
			switch {
			case strings.HasPrefix(hd, "k"):
				if suite == "cluster" {
					repin := strings.HasSuffix(hd, "rp=1")
					launch(func() { runClusterScript(out, &mu, scratch, tag, s, repin) })
				}
			case strings.HasPrefix(hd, "f"):
				if suite == "fault" {
					launch(func() { runFaultScript(out, &mu, scratch, tag, s) })
				}
			case strings.HasPrefix(hd, "x"):
				if suite == "conc" {
					launch(func() { runConcScript(out, &mu, scratch, tag, s) })
				}
			default:
				if suite == "consensus" {
					launch(func() { runConsScript(out, &mu, scratch, tag, s) })
				}
			}
		}
		wg.Wait()
		return
	}

	n := a.N
	if n < 0 {
		n = 30
	}
	root := common.NewRng(common.Seed())
	var wg sync.WaitGroup
	sem := make(chan struct{}, par)
	for k := 0; k < n; k++ {
		if a.Only >= 0 && k != a.Only {
			continue
		}
		r := root.Fork(uint64(k))
		wg.Add(1)
		sem <- struct{}{}
		go func(k int, r *common.Rng) {
			defer wg.Done()
			defer func() { <-sem }()
			if suite == "cluster" {
				s, repin := genClusterScript(r, a.Tier)
				runClusterScript(out, &mu, scratch, fmt.Sprintf("s%d", k), s, repin)
			} else if suite == "depart" {
				runDepartScript(out, &mu, scratch, fmt.Sprintf("s%d", k), genDepartScript(r, k))
			} else if suite == "join" {
				runJoinScript(out, &mu, scratch, fmt.Sprintf("s%d", k), genJoinScript(r, k))
			} else if suite == "conc" {
				runConcScript(out, &mu, scratch, fmt.Sprintf("s%d", k), genConcScript(r, k, a.Tier))
			} else if suite == "fault" {
				runFaultScript(out, &mu, scratch, fmt.Sprintf("s%d", k), genFaultScript(r, k, a.Tier))
			} else {
				runConsScript(out, &mu, scratch, fmt.Sprintf("s%d", k), genConsScript(r, a.Tier))
			}
		}(k, r)
	}
	wg.Wait()
}
