package main

// Suite fault: AddPeer / RmPeer on real raft.Consensus peers while the forward to the leader, or the
// leader-side Raft call, fails.
//
//	C17 f r=<commit retries> rp=1 init=<peers> <step> ... => lead=<i> m<i>=<peerset>;<pinset>;nv=<..> ...
//
// steps:
//
//	fadd@<at>@<j>@<plan>@l<lead>@<res>@<fwd>@<loc>@<has>    Consensus.AddPeer(j) issued at peer <at>
//	frm@<at>@<j>@<plan>@l<lead>@<res>@<fwd>@<loc>@<has>     Consensus.RmPeer(j)
//	pin@<at>@<pin>@ok@<role>                                  a pin in between (no faults)
//
// plan = one letter per attempt, in order ("-" = no fault): f = the attempt fails without effect (a forwarded
// request is refused by the leader's RPC endpoint before it is executed; at the leader: the Raft call fails),
// l = a forwarded request is executed by the leader but the answer is an error (lost reply), x (first letter only,
// call issued at the leader) = the caller hands the leadership over between looking up the leader and calling Raft:
// its Raft call fails with ErrNotLeader, later attempts are forwarded to the new leader (<lead> names the new
// leader then), p (the whole plan, call issued at the leader, every server running) = partition: the leader is cut
// off from all other peers (connection gaters, connections closed) right before the call; the others elect <lead>;
// then the network is healed. Attempts beyond the plan are healthy. lead = who led when the step was issued; res = ok|err; fwd = forwarded requests the
// leader's endpoint received during the call; loc = Raft calls (raftWrapper.AddPeer / RemovePeer) made by the
// caller itself; has = all|none|mixed: which of the other running peers report j after the step (everybody
// caught up). Peer 3 is a server that never runs (only its identity is added), 4 is never added, 9 is the
// empty peer ID (hashicorp/raft refuses a configuration with an empty server ID: every leader-side attempt fails).
//
// In generated scripts <at> is a role: L = the leader, F / G = the first / second follower by index.

import (
	"context"
	"fmt"
	"path/filepath"
	"runtime"

	"github.com/libp2p/go-libp2p-core/control"
	"github.com/libp2p/go-libp2p-core/network"
	ma "github.com/multiformats/go-multiaddr"

	"sort"
	"strconv"
	"strings"
	"sync"
	"time"

	peer "github.com/libp2p/go-libp2p-core/peer"
	"go.opencensus.io/trace"

	"verifharness/common"
)

const nullPeer = 9

// spanCounter counts, per trace, the spans of the leader-side Raft calls: the caller's context carries a
// sampled root span, raftWrapper.AddPeer / RemovePeer start child spans of it.
type spanCounter struct {
	mu sync.Mutex
	n  map[trace.TraceID]int
}

// goid: the id of the running goroutine (a call made at the leader runs redirectToLeader and the Raft call in the
// caller's goroutine: that is how a span is attributed to the call under test).
func goid() uint64 {
	var b [64]byte
	n := runtime.Stack(b[:], false)
	f := strings.Fields(string(b[:n]))
	if len(f) < 2 {
		return 0
	}
	id, _ := strconv.ParseUint(f[1], 10, 64)
	return id
}

// armed: goroutine id -> what to do when its next redirectToLeader span ends (that is: when redirectToLeader
// returned "you are the leader", right before the Raft call)
var armedMu sync.Mutex
var armed = map[uint64]func(){}

func (s *spanCounter) ExportSpan(sd *trace.SpanData) {
	if sd.Name == "consensus/redirectToLeader" {
		armedMu.Lock()
		id := goid()
		f := armed[id]
		delete(armed, id)
		armedMu.Unlock()
		if f != nil {
			f()
		}
		return
	}
	if sd.Name != "consensus/raft/AddPeer" && sd.Name != "consensus/RemovePeer" {
		return
	}
	s.mu.Lock()
	if _, ok := s.n[sd.TraceID]; ok {
		s.n[sd.TraceID]++
	}
	s.mu.Unlock()
}

var spans = &spanCounter{n: map[trace.TraceID]int{}}
var spansOnce sync.Once

func countedCtx() (context.Context, func() int) {
	spansOnce.Do(func() {
		// every span is exported (redirectToLeader starts root spans from the component's own context)
		trace.ApplyConfig(trace.Config{DefaultSampler: trace.AlwaysSample()})
		trace.RegisterExporter(spans)
	})
	ctx, sp := trace.StartSpan(context.Background(), "c17/call", trace.WithSampler(trace.AlwaysSample()))
	id := sp.SpanContext().TraceID
	spans.mu.Lock()
	spans.n[id] = 0
	spans.mu.Unlock()
	return ctx, func() int {
		sp.End()
		spans.mu.Lock()
		defer spans.mu.Unlock()
		v := spans.n[id]
		delete(spans.n, id)
		return v
	}
}

// blockGater refuses connections from / to the peers on its list: how a partition is made.
type blockGater struct {
	mu      sync.RWMutex
	blocked map[peer.ID]bool
}

func (g *blockGater) set(ps ...peer.ID) {
	g.mu.Lock()
	g.blocked = map[peer.ID]bool{}
	for _, p := range ps {
		g.blocked[p] = true
	}
	g.mu.Unlock()
}
func (g *blockGater) ok(p peer.ID) bool {
	g.mu.RLock()
	defer g.mu.RUnlock()
	return !g.blocked[p]
}
func (g *blockGater) InterceptPeerDial(p peer.ID) bool                 { return g.ok(p) }
func (g *blockGater) InterceptAddrDial(p peer.ID, _ ma.Multiaddr) bool { return g.ok(p) }
func (g *blockGater) InterceptAccept(network.ConnMultiaddrs) bool      { return true }
func (g *blockGater) InterceptSecured(_ network.Direction, p peer.ID, _ network.ConnMultiaddrs) bool {
	return g.ok(p)
}
func (g *blockGater) InterceptUpgraded(network.Conn) (bool, control.DisconnectReason) { return true, 0 }

// isolate cuts n off from every other host; heal undoes it.
func (w *cworld) isolate(n *cnode) {
	var others []peer.ID
	for _, o := range w.nodes {
		if o != n && o.h != nil {
			others = append(others, o.id)
			o.gater.set(n.id)
		}
	}
	n.gater.set(others...)
	for _, p := range others {
		n.h.Network().ClosePeer(p)
	}
}

func (w *cworld) heal() {
	for _, o := range w.nodes {
		if o.gater != nil {
			o.gater.set()
		}
	}
	w.refreshAddrs()
	for _, a := range w.nodes {
		for _, b := range w.nodes {
			if a != b && a.h != nil && b.h != nil && a.up && b.up {
				a.h.Connect(context.Background(), peer.AddrInfo{ID: b.id, Addrs: b.h.Addrs()})
			}
		}
	}
}

// electedWithout waits until the running peers other than n agree on a leader other than n.
func (w *cworld) electedWithout(n *cnode, max time.Duration) *cnode {
	deadline := time.Now().Add(max)
	for time.Now().Before(deadline) {
		var lead string
		agree := true
		for _, o := range w.nodes {
			if !o.up || o == n {
				continue
			}
			info, err := o.cc.VerifRaftInfo()
			if err != nil || info.Leader == "" || info.Leader == peer.Encode(n.id) || (lead != "" && lead != info.Leader) {
				agree = false
				break
			}
			lead = info.Leader
		}
		if agree && lead != "" {
			for _, o := range w.nodes {
				if peer.Encode(o.id) == lead && o.up {
					return o
				}
			}
		}
		time.Sleep(50 * time.Millisecond)
	}
	return nil
}

func (w *cworld) pid(j int) (peer.ID, bool) {
	if j == nullPeer {
		return peer.ID(""), true
	}
	if j < 0 || j >= len(w.nodes) {
		return "", false
	}
	return w.nodes[j].id, true
}

// followers: running peers other than the leader, by index.
func (w *cworld) followers(l *cnode) []*cnode {
	var fs []*cnode
	for _, n := range w.nodes {
		if n.up && n != l {
			fs = append(fs, n)
		}
	}
	return fs
}

// resolve maps the <at> field (role letter, or index + original leader when a recorded line is replayed) to a peer.
func (w *cworld) resolve(at string, origLead int, l *cnode) *cnode {
	fs := w.followers(l)
	rank := -1
	switch at {
	case "L":
		return l
	case "F":
		rank = 0
	case "G":
		rank = 1
	default:
		i := atoi(at)
		if i < 0 || i >= len(w.nodes) {
			return nil
		}
		if origLead < 0 {
			return w.nodes[i]
		}
		if i == origLead {
			return l
		}
		rank = 0
		for k := 0; k < i; k++ {
			if k != origLead && w.nodes[k].up {
				rank++
			}
		}
	}
	if len(fs) == 0 {
		return nil
	}
	if rank >= len(fs) {
		rank = len(fs) - 1
	}
	return fs[rank]
}

func validPlan(p string) bool {
	if p == "-" {
		return true
	}
	if len(p) == 0 || len(p) > 12 {
		return false
	}
	if p == "p" {
		return true
	}
	for i, c := range p {
		if c != 'f' && c != 'l' && !(c == 'x' && i == 0) {
			return false
		}
	}
	return true
}

// hasTok: which running peers other than j list j among their peers.
func (w *cworld) hasTok(j int) (string, bool) {
	pid, _ := w.pid(j)
	yes, no := 0, 0
	for _, n := range w.nodes {
		if !n.up || n.idx == j {
			continue
		}
		ps, err := n.cc.Peers(context.Background())
		if err != nil {
			return "", false
		}
		found := false
		for _, p := range ps {
			if p == pid {
				found = true
			}
		}
		if found {
			yes++
		} else {
			no++
		}
	}
	switch {
	case no == 0:
		return "all", true
	case yes == 0:
		return "none", true
	}
	return "mixed", true
}

// execFault performs one fadd / frm step. Returns the token without its <has> field, the subject peer, ok=false: inconclusive.
func (w *cworld) execFault(op string) (string, int, bool) {
	f := strings.Split(op, "@")
	if len(f) < 4 || !validPlan(f[3]) {
		return "", 0, true
	}
	j := atoi(f[2])
	pid, okj := w.pid(j)
	if !okj {
		return "", 0, true
	}
	l := w.leader()
	if l == nil {
		if _, ok := w.converge(30 * time.Second); !ok {
			return "", 0, false
		}
		if l = w.leader(); l == nil {
			return "", 0, false
		}
	}
	origLead := -1
	if len(f) > 4 && strings.HasPrefix(f[4], "l") {
		origLead = atoi(f[4][1:])
	}
	at := w.resolve(f[1], origLead, l)
	plan := f[3]
	xfer := strings.HasPrefix(plan, "x")
	part := plan == "p"
	if xfer || part {
		at = l // only the leader can lose the leadership in mid-call
	}
	if part {
		// every server of the configuration must be running (the others need a quorum among themselves)
		info, e := l.cc.VerifRaftInfo()
		nup := 0
		for _, n := range w.nodes {
			if n.up {
				nup++
			}
		}
		if e != nil || len(info.Servers) != nup || nup < 3 || j == nullPeer || j == l.idx {
			return "", 0, true
		}
		if f[0] == "frm" && (j < 0 || j >= len(w.nodes) || !w.nodes[j].up) {
			return "", 0, true
		}
	}
	if at == nil || !at.up {
		return "", 0, true
	}
	// never ask for a change after which the running servers are no quorum (the call would block until the harness gives up)
	if info, e := l.cc.VerifRaftInfo(); e == nil && j != nullPeer {
		servers, live := len(info.Servers), 0
		member := false
		for _, sid := range info.Servers {
			if pp, e2 := peer.Decode(sid); e2 == nil {
				if k, ok := w.byID[pp]; ok && w.nodes[k].up {
					live++
				}
				if pp == pid {
					member = true
				}
			}
		}
		if f[0] == "frm" && member {
			servers--
			if j < len(w.nodes) && w.nodes[j].up {
				live--
			}
		} else if f[0] == "fadd" && !member {
			servers++
		}
		if 2*live <= servers {
			return "", 0, true
		}
	}
	if xfer && (j == nullPeer || j == l.idx || len(w.followers(l)) == 0) {
		return "", 0, true
	}
	if j == nullPeer {
		// only meaningful at the leader (the model takes a forwarded attempt to be a healthy one)
		if at != l || f[0] != "fadd" {
			return "", 0, true
		}
		plan = "fffffffff"
	}
	w.refreshAddrs()
	fl := l.faults
	fl.mu.Lock()
	fl.plan, fl.fwdSeen, fl.caller = "", 0, at.id
	if plan != "-" && at != l {
		fl.plan = plan
	}
	if xfer {
		fl.plan = plan[1:] // what the new leader's endpoint does to the forwards that follow
	}
	fl.mu.Unlock()
	if part {
		fl.plan = ""
	}
	if at == l && j != nullPeer && !xfer && !part {
		plan = "-" // nothing is forwarded: no fault is injected
	}
	ctx, done := countedCtx()
	var err error
	var newLead *cnode
	xferOK := true
	healed := make(chan struct{})
	if part {
		w.isolate(l)
		go func() {
			// keep the partition until the others have elected; then heal
			newLead = w.electedWithout(l, 30*time.Second)
			w.heal()
			close(healed)
		}()
	}
	ok := within(opTimeout, func() {
		if xfer {
			armedMu.Lock()
			armed[goid()] = func() {
				if e := l.cc.VerifLeadershipTransfer(); e != nil {
					xferOK = false
					return
				}
				for i := 0; i < 100; i++ {
					if n := w.leader(); n != nil && n != l {
						newLead = n
						return
					}
					time.Sleep(20 * time.Millisecond)
				}
				xferOK = false
			}
			armedMu.Unlock()
		}
		if f[0] == "fadd" {
			err = at.cc.AddPeer(ctx, pid)
		} else {
			err = at.cc.RmPeer(ctx, pid)
		}
	})
	loc := done()
	fl.mu.Lock()
	seen := fl.fwdSeen
	fl.plan = ""
	fl.mu.Unlock()
	if !ok {
		if part {
			<-healed
		}
		return "", 0, false
	}
	if part {
		<-healed
		if newLead == nil {
			return "", 0, false // nobody was elected in time
		}
		if _, ok := w.converge(45 * time.Second); !ok {
			return "", 0, false
		}
		// <lead> = whom the others elected while the caller was cut off (the one its retries were forwarded to)
		return fmt.Sprintf("%s@%d@%d@%s@l%d@%s@%d@%d", f[0], at.idx, j, plan, newLead.idx, resTok(err), seen, loc), j, true
	}
	if xfer {
		if !xferOK || newLead == nil || w.leader() != newLead {
			return "", 0, false
		}
		return fmt.Sprintf("%s@%d@%d@%s@l%d@%s@%d@%d", f[0], at.idx, j, plan, newLead.idx, resTok(err), seen, loc), j, true
	}
	if j != l.idx {
		if l2 := w.leader(); l2 != l {
			return "", 0, false // leadership moved during the step: the fault plan was not applied as written
		}
	}
	return fmt.Sprintf("%s@%d@%d@%s@l%d@%s@%d@%d", f[0], at.idx, j, plan, l.idx, resTok(err), seen, loc), j, true
}

func faultHead(s cscript) string {
	return fmt.Sprintf("C17 f r=%d rp=1 init=%s", s.retries, common.Ints(s.init))
}

func runFaultScript(out *common.Out, mu *sync.Mutex, scratch string, tag string, s cscript) {
	emit := func(format string, a ...interface{}) {
		mu.Lock()
		out.Line(format, a...)
		mu.Unlock()
	}
	w, err := newCWorld(filepath.Join(scratch, tag), s.retries)
	if err != nil {
		emit("# inconclusive setup %v", err)
		return
	}
	defer w.close()
	w.fast = true
	fl := &faults{}
	for _, n := range w.nodes {
		n.faults = fl
	}
	for _, i := range s.init {
		if err := w.ensureHost(w.nodes[i]); err != nil {
			emit("# inconclusive host %v", err)
			return
		}
	}
	// the never-running server needs an address book entry only
	for _, i := range s.init {
		if err := w.startNode(w.nodes[i], false, s.init); err != nil {
			emit("# inconclusive start %v", err)
			return
		}
	}
	for _, i := range s.init {
		n := w.nodes[i]
		if !within(60*time.Second, func() { <-n.ready }) {
			emit("# inconclusive initial-ready-timeout %s", faultHead(s))
			return
		}
	}
	done := []string{}
	observe := func() (string, bool) {
		l, ok := w.converge(45 * time.Second)
		if !ok {
			emit("# inconclusive no-convergence %s %s", faultHead(s), strings.Join(done, " "))
			return "", false
		}
		obs, ok := w.observe(l)
		if !ok {
			emit("# inconclusive observe %s %s", faultHead(s), strings.Join(done, " "))
			return "", false
		}
		return obs, true
	}
	for _, op := range s.ops {
		var tok string
		if strings.HasPrefix(op, "frmrole@") {
			// frmrole@<at>@<who>@<plan>: the subject is a running peer named by its role
			f := strings.Split(op, "@")
			l := w.leader()
			if l == nil || len(f) < 4 || len(s.init) < 3 {
				continue
			}
			who := w.resolve(f[2], -1, l)
			if who == nil {
				continue
			}
			op = fmt.Sprintf("frm@%s@%d@%s", f[1], who.idx, f[3])
		}
		if strings.HasPrefix(op, "fadd@") || strings.HasPrefix(op, "frm@") {
			t, j, ok := w.execFault(op)
			if !ok {
				emit("# inconclusive fault-step %s %s %s", faultHead(s), strings.Join(done, " "), op)
				return
			}
			if t == "" {
				continue
			}
			obs, ok := observe()
			if !ok {
				return
			}
			has, ok := w.hasTok(j)
			if !ok {
				emit("# inconclusive observe %s", faultHead(s))
				return
			}
			// the same instant as the observation: read once more and insist that nothing moved
			obs2, ok2 := observe()
			if !ok2 {
				return
			}
			if stripLead(obs2) != stripLead(obs) {
				emit("# inconclusive unstable-observation %s %s %s", faultHead(s), strings.Join(done, " "), op)
				return
			}
			tok = t + "@" + has
			done = append(done, tok)
			emit("%s %s => %s", faultHead(s), strings.Join(done, " "), obs2)
			// a running peer that has been removed (nobody lists it any more) takes no further part: the model's callers
			// and observers are servers of the configuration
			if j >= 0 && j < len(w.nodes) && w.nodes[j].up && has == "none" {
				if !within(opTimeout, func() { w.stopNode(w.nodes[j]) }) {
					emit("# inconclusive stop-removed %s %s", faultHead(s), strings.Join(done, " "))
					return
				}
			}
			continue
		}
		if strings.HasPrefix(op, "pin@") {
			f := strings.Split(op, "@")
			if l := w.leader(); l != nil && len(f) >= 3 {
				if n := w.resolve(f[1], -1, l); n != nil {
					f[1] = strconv.Itoa(n.idx)
				}
			}
			t, ok := w.exec(strings.Join(f[:3], "@"))
			if !ok || strings.Contains(t, "@err@") {
				emit("# inconclusive pin-step %s %s %s", faultHead(s), strings.Join(done, " "), op)
				return
			}
			if t == "" {
				continue
			}
			done = append(done, t)
			obs, ok := observe()
			if !ok {
				return
			}
			emit("%s %s => %s", faultHead(s), strings.Join(done, " "), obs)
		}
	}
}

func stripLead(obs string) string {
	f := strings.Fields(obs)
	var r []string
	for _, t := range f {
		if !strings.HasPrefix(t, "lead=") {
			r = append(r, t)
		}
	}
	sort.Strings(r)
	return strings.Join(r, " ")
}

// genFaultScript: commit_retries 0..2; over the scripts every (method, place, fault kind) meets the boundary
// numbers of failing attempts 0, 1, retries, retries+1 and "all".
func genFaultScript(r *common.Rng, k int, tier string) cscript {
	s := cscript{retries: k % 3}
	s.init = []int{0, 1, 2}
	if k%7 == 6 {
		s.init = []int{0, 1}
	}
	bounds := []int{0, 1, s.retries, s.retries + 1, 9}
	plan := func(i int) string {
		n := bounds[(k/3+i)%5]
		if r.Chance(1, 5) {
			n = bounds[r.Intn(5)]
		}
		if n == 0 {
			return "-"
		}
		c := "f"
		if (k+i)%2 == 1 {
			c = "l"
		}
		p := strings.Repeat(c, n)
		if n >= 2 && n < 9 && r.Chance(1, 3) {
			// mixed: a lost reply among refused forwards
			b := []byte(p)
			b[r.Intn(n)] = "fl"[r.Intn(2)]
			p = string(b)
		}
		return p
	}
	where := func() string {
		switch r.Intn(6) {
		case 0:
			return "L"
		case 1:
			return "G"
		}
		return "F"
	}
	ghost := false
	if len(s.init) == 3 && k%4 == 1 {
		// the leader is partitioned away right before it is asked to add / remove a peer
		if r.Bool() {
			s.ops = append(s.ops, "fadd@L@3@p")
			ghost = true // possibly
		} else {
			s.ops = append(s.ops, "frmrole@L@F@p")
		}
	}
	steps := 6
	if tier == "thorough" {
		steps = 9
	}
	for i := 0; i < steps; i++ {
		switch c := r.Intn(100); {
		case c < 34:
			if ghost {
				s.ops = append(s.ops, fmt.Sprintf("frm@%s@3@%s", where(), plan(i)))
			} else {
				s.ops = append(s.ops, fmt.Sprintf("fadd@%s@3@%s", where(), plan(i)))
			}
			// whether it took effect is only known at run time: the next step is chosen for either case
			ghost = !ghost
		case c < 46:
			s.ops = append(s.ops, fmt.Sprintf("fadd@%s@3@%s", where(), plan(i))) // present or absent, whatever the last step left
			ghost = true
		case c < 58:
			s.ops = append(s.ops, fmt.Sprintf("frm@%s@3@%s", where(), plan(i)))
			ghost = false
		case c < 68:
			s.ops = append(s.ops, fmt.Sprintf("fadd@%s@%d@%s", where(), r.Intn(len(s.init)), plan(i))) // present
		case c < 78:
			s.ops = append(s.ops, fmt.Sprintf("frm@%s@4@%s", where(), plan(i))) // absent
		case c < 82:
			s.ops = append(s.ops, fmt.Sprintf("fadd@L@%d@-", nullPeer))
		case c < 90:
			// the leader loses the leadership in mid-call; the forwards that follow meet 0, 1 or all failures
			rest := []string{"", "", "f", "l", strings.Repeat("f", 9)}[r.Intn(5)]
			if ghost {
				s.ops = append(s.ops, fmt.Sprintf("frm@L@3@x%s", rest))
			} else {
				s.ops = append(s.ops, fmt.Sprintf("fadd@L@3@x%s", rest))
			}
			ghost = !ghost
		default:
			s.ops = append(s.ops, fmt.Sprintf("pin@%s@%s", where(), fmt.Sprintf(pinShapes[r.Intn(len(pinShapes))], r.Intn(5))))
		}
	}
	// last: a running peer is removed through a faulty forward (a follower, the leader, oneself)
	if r.Chance(1, 2) {
		who := []string{"F", "L", "G"}[r.Intn(3)]
		at := where()
		s.ops = append(s.ops, fmt.Sprintf("frmrole@%s@%s@%s", at, who, plan(steps)))
	}
	return s
}
