package main

// Departure suite of the C17 harness (case kind `d`): ONE observed full Cluster peer (index 1) of a three-peer
// cluster is taken through a history of the events of the Lean departure machine (Model/C17Depart.lean `DEv`):
//
//	w            a pin is logged at peer 0 (the observed peer's consensus writes its folder)
//	rmo          another member (peer 0) calls Cluster.PeerRemove(observed); the harness does NOT wait for the
//	             observed peer's watchPeers round (the call is placed early in the observed peer's watch period)
//	self@<res>   the observed peer calls Cluster.PeerRemove(itself)
//	tick         the observed peer is given its next watchPeers round (peer_watch_interval = 3 s in these worlds)
//	stop@<p><r>  the operator calls Cluster.Shutdown on the observed peer (leave_on_shutdown = lv of the script);
//	             r = what its RmPeer(self) returned when it tried to leave (0 also when it did not try)
//	restart@<b>  a new Cluster on the observed peer's identity and folders; b = it reported ready
//
// Output: st=<Done() closed> mem=<peer 0 lists it> data=<raft.db or a snapshot in its data folder> left=<RmPeer(self) seen>.

import (
	"context"
	"fmt"
	"path/filepath"
	"strings"
	"sync"
	"time"

	ipfscluster "github.com/ipfs/ipfs-cluster"

	"verifharness/common"
)

const departWatch = 3 * time.Second

type dscript struct {
	leave  bool
	rotate int
	evs    []string
}

func (s dscript) head() string {
	lv := 0
	if s.leave {
		lv = 1
	}
	return fmt.Sprintf("C17 d lv=%d br=%d", lv, s.rotate)
}

func parseDepart(f []string) (dscript, bool) {
	// f: tokens after "C17 d"
	var s dscript
	if len(f) < 2 || !strings.HasPrefix(f[0], "lv=") || !strings.HasPrefix(f[1], "br=") {
		return s, false
	}
	s.leave = f[0] == "lv=1"
	s.rotate = atoi(f[1][3:])
	if s.rotate < 1 || s.rotate > 6 {
		return s, false
	}
	for _, t := range f[2:] {
		if t == "=>" {
			break
		}
		s.evs = append(s.evs, strings.SplitN(t, "@", 2)[0])
	}
	return s, len(s.evs) <= 12
}

var departTemplates = [][]string{
	{"w", "rmo", "tick"},
	{"w", "rmo", "stop"}, // removed by another member, stopped before its watch round (was K17a)
	{"w", "self", "tick"},
	{"rmo", "w", "stop"},
	{"stop", "restart", "rmo", "tick"},
	{"w", "stop", "rmo"}, // removed while down (and not started again)
	{"rmo", "tick", "stop"},
	{"w", "stop", "restart", "w", "stop"},
	{"w", "rmo", "w", "tick"},
	{"self", "w", "tick"},
	{"stop", "restart", "self", "tick"},
}

// The one situation in which the unchanged code still keeps the data of a removed peer (known finding K17b: started
// again after a removal while down) is exercised by corpus/C17/depart.txt only: generated histories avoid it, so that
// the extended search of ./check cannot report it in place of a new defect. The former K17a situation (removed by another
// member, stopped by the operator before its watch round) is repaired (/repo 3277283) and IS generated again: a revert
// fails there with an ordinary propfail.
func avoidKnown(leave bool, evs []string) []string {
	running, member := true, true
	var out []string
	for _, e := range evs {
		switch e {
		case "rmo":
			member = false
		case "self":
			if !running || !member {
				continue
			}
			member = false
		case "tick":
			if !running {
				continue
			}
			if !member {
				running = false
			}
		case "stop":
			if !running {
				continue
			}
			if leave {
				member = false
			}
			running = false
		case "restart":
			if running || !member {
				continue
			}
			running = true
		}
		out = append(out, e)
	}
	return out
}

func genDepartScript(r *common.Rng, k int) dscript {
	s := dscript{leave: r.Chance(1, 3), rotate: 1 + r.Intn(3)}
	if k < len(departTemplates) || r.Chance(1, 2) {
		s.evs = append(s.evs, departTemplates[(k+r.Intn(2)*r.Intn(len(departTemplates)))%len(departTemplates)]...)
	} else {
		kinds := []string{"w", "rmo", "self", "tick", "stop", "restart", "stop", "rmo", "tick"}
		n := r.Range(2, 6)
		for i := 0; i < n; i++ {
			s.evs = append(s.evs, kinds[r.Intn(len(kinds))])
		}
	}
	s.evs = avoidKnown(s.leave, s.evs)
	return s
}

func runDepartScript(out *common.Out, mu *sync.Mutex, scratch, tag string, s dscript) {
	emit := func(format string, a ...interface{}) {
		mu.Lock()
		out.Line(format, a...)
		mu.Unlock()
	}
	head := s.head()
	w, err := newKWorld(filepath.Join(scratch, tag), 1, false)
	if err != nil {
		emit("# inconclusive setup %v", err)
		return
	}
	w.rotate = s.rotate
	w.watch = departWatch
	defer w.close()
	ipfscluster.ReadyTimeout = 15 * time.Second
	ctx := context.Background()
	n0, obs := w.nodes[0], w.nodes[1]
	if err := w.startNode(n0, false); err != nil {
		emit("# inconclusive start %v", err)
		return
	}
	if !within(60*time.Second, func() { <-n0.cl.Ready() }) {
		emit("# inconclusive initial-ready-timeout %s", head)
		return
	}
	for _, j := range []string{"1", "2"} {
		if tok, ok := w.exec("join@" + j + "@0"); !ok || !strings.Contains(tok, "@ok@") {
			emit("# inconclusive depart-join %s %s", head, tok)
			return
		}
	}
	if _, ok := w.converge(45 * time.Second); !ok {
		emit("# inconclusive no-convergence %s", head)
		return
	}
	obs.cfg.LeaveOnShutdown = s.leave
	started := obs.started
	running, member, left := true, true, false
	pinN := 0
	done := []string{}
	isDone := func() bool {
		select {
		case <-obs.cl.Done():
			return true
		default:
			return false
		}
	}
	// wait until the observed peer's watch period has just begun: what follows fits before its next round
	align := func() {
		if !running {
			return
		}
		for {
			ph := time.Since(started) % departWatch
			if ph > departWatch/10 && ph < departWatch*4/10 {
				return
			}
			time.Sleep(50 * time.Millisecond)
		}
	}
	for _, ev := range s.evs {
		switch ev {
		case "w":
			pinN++
			p := common.PinOf(fmt.Sprintf(clusterPinShapes[0], pinN%5))
			var err error
			if !within(opTimeout, func() { _, err = n0.cl.Pin(ctx, p.Cid, p.PinOptions) }) || err != nil {
				emit("# inconclusive depart-pin %s %s %v", head, strings.Join(done, " "), err)
				return
			}
			if _, ok := w.converge(45 * time.Second); !ok {
				emit("# inconclusive no-convergence %s %s", head, strings.Join(done, " "))
				return
			}
			done = append(done, "w")
		case "rmo":
			align()
			var err error
			if !within(opTimeout, func() { err = n0.cl.PeerRemove(ctx, obs.ident.ID) }) || err != nil {
				emit("# inconclusive depart-rmo %s %s %v", head, strings.Join(done, " "), err)
				return
			}
			member = false
			done = append(done, "rmo")
		case "self":
			if !running || !member {
				continue
			}
			align()
			var err error
			if !within(opTimeout, func() { err = obs.cl.PeerRemove(ctx, obs.ident.ID) }) {
				emit("# inconclusive depart-self %s %s", head, strings.Join(done, " "))
				return
			}
			if err == nil {
				member = false
			}
			done = append(done, "self@"+resTok(err))
		case "tick":
			if !running {
				continue
			}
			ph := time.Since(started) % departWatch
			time.Sleep(departWatch - ph + 400*time.Millisecond)
			if !member {
				within(40*time.Second, func() { <-obs.cl.Done() })
			}
			if isDone() {
				running = false
				w.setDown(obs)
			}
			done = append(done, "tick@1")
		case "stop":
			if !running {
				continue
			}
			obs.rec.begin()
			c := obs.cl
			ok := within(opTimeout, func() { c.Shutdown(ctx) })
			calls := obs.rec.end()
			if !ok {
				emit("# inconclusive depart-stop %s %s", head, strings.Join(done, " "))
				return
			}
			r := "0"
			for _, cl := range calls {
				if strings.HasPrefix(cl, "R") {
					left = true
					if strings.HasSuffix(cl, ":ok") {
						r = "1"
						member = false
					}
				}
			}
			running = false
			w.setDown(obs)
			done = append(done, "stop@1"+r)
		case "restart":
			if running || dataGone(filepath.Join(obs.dir, "raft")) {
				continue
			}
			if err := w.startNode(obs, false); err != nil {
				emit("# inconclusive depart-restart %s %s %v", head, strings.Join(done, " "), err)
				return
			}
			w.shareAddrs()
			obs.cfg.LeaveOnShutdown = s.leave
			started = obs.started
			ready := false
			c := obs.cl
			if !within(60*time.Second, func() {
				select {
				case <-c.Ready():
					ready = true
				case <-c.Done():
				}
			}) {
				emit("# inconclusive depart-restart-wait %s %s", head, strings.Join(done, " "))
				return
			}
			if ready {
				running = true
				done = append(done, "restart@1")
			} else {
				w.setDown(obs)
				done = append(done, "restart@0")
			}
		}
	}
	if len(done) == 0 {
		return
	}
	b := func(v bool) int {
		if v {
			return 1
		}
		return 0
	}
	// the observed peer is looked at right after the last event (a later watch round is not part of the history)
	stNow, dataNow := b(isDone()), b(!dataGone(filepath.Join(obs.dir, "raft")))
	// the others settle (the observed peer is not waited for when it is no member)
	if !running {
		w.setDown(obs)
	}
	if _, ok := w.converge(45 * time.Second); !ok {
		emit("# inconclusive no-convergence %s %s", head, strings.Join(done, " "))
		return
	}
	ps, ok := w.peersTok(n0)
	if !ok {
		emit("# inconclusive observe %s %s", head, strings.Join(done, " "))
		return
	}
	mem := 0
	for _, x := range strings.Split(ps, ",") {
		if x == "1" {
			mem = 1
		}
	}
	emit("%s %s => st=%d mem=%d data=%d left=%d", head, strings.Join(done, " "), stNow, mem, dataNow, b(left))
}
