package main

// Suite conc: membership changes interleaved with pins issued CONCURRENTLY from different members.
//
//	C17 x r=<commit retries> rp=1 init=0,1,2 <phase> <phase> ... => lead=<i> m<i>=<peerset>;<pinset>;nv=<..> ...
//
// phase = <op>+<op>+...: the ops are started together (one goroutine each, released by a barrier); when all
// have returned and everybody caught up (a sync point) the peers are observed. ops as in the consensus suite:
// add@i@j@res, rm@i@j@res, pin@i@<pin>@res, unpin@i@<cid>@res. Within a phase at most one membership change and
// distinct cids. In generated scripts <i> (and the subject of a removal) may be a role: L leader, F / G followers.
//
// Script kind `burst` (thorough tier): `burst@i@n` = n pins logged from peer i by 8 goroutines WHILE a staging peer is
// started, added and waited for; the joiner's pinset at the instant Ready() fired is compared with what was
// acknowledged before the join was issued (at least that) and with everything issued (at most that).

import (
	"fmt"
	"path/filepath"
	"strconv"
	"strings"
	"sync"
	"time"

	"verifharness/common"
)

func concHead(s cscript) string {
	return fmt.Sprintf("C17 x r=%d rp=1 init=%s", s.retries, common.Ints(s.init))
}

func runConcScript(out *common.Out, mu *sync.Mutex, scratch string, tag string, s cscript) {
	emit := func(format string, a ...interface{}) {
		mu.Lock()
		out.Line(format, a...)
		mu.Unlock()
	}
	w, err := newCWorld(filepath.Join(scratch, tag), s.retries)
	if err != nil {
		emit("# inconclusive setup %v", err)
		return
	}
	defer w.close()
	w.fast = true
	for _, i := range s.init {
		if err := w.ensureHost(w.nodes[i]); err != nil {
			emit("# inconclusive host %v", err)
			return
		}
	}
	for _, i := range s.init {
		if err := w.startNode(w.nodes[i], false, s.init); err != nil {
			emit("# inconclusive start %v", err)
			return
		}
	}
	for _, i := range s.init {
		n := w.nodes[i]
		if !within(60*time.Second, func() { <-n.ready }) {
			emit("# inconclusive initial-ready-timeout %s", concHead(s))
			return
		}
	}
	done := []string{}
	for _, ph := range s.ops {
		l := w.leader()
		if l == nil {
			if _, ok := w.converge(30 * time.Second); !ok {
				emit("# inconclusive no-leader %s %s", concHead(s), strings.Join(done, " "))
				return
			}
			l = w.leader()
			if l == nil {
				emit("# inconclusive no-leader %s %s", concHead(s), strings.Join(done, " "))
				return
			}
		}
		var ops []string
		for _, op := range strings.Split(ph, "+") {
			f := strings.Split(op, "@")
			if len(f) < 3 {
				continue
			}
			if n := w.resolve(f[1], -1, l); n != nil {
				f[1] = strconv.Itoa(n.idx)
			} else {
				continue
			}
			if (f[0] == "rm" || f[0] == "add") && (f[2] == "L" || f[2] == "F" || f[2] == "G") {
				n := w.resolve(f[2], -1, l)
				if n == nil {
					continue
				}
				f[2] = strconv.Itoa(n.idx)
			}
			ops = append(ops, strings.Join(f[:3], "@"))
		}
		if len(ops) == 0 {
			continue
		}
		w.refreshAddrs()
		toks := make([]string, len(ops))
		oks := make([]bool, len(ops))
		var wg sync.WaitGroup
		gate := make(chan struct{})
		for i, op := range ops {
			wg.Add(1)
			go func(i int, op string) {
				defer wg.Done()
				<-gate
				toks[i], oks[i] = w.exec(op)
			}(i, op)
		}
		close(gate)
		wg.Wait()
		var got []string
		for i := range ops {
			if !oks[i] {
				emit("# inconclusive op-timeout %s %s %s", concHead(s), strings.Join(done, " "), ph)
				return
			}
			if toks[i] != "" {
				got = append(got, toks[i])
			}
		}
		if len(got) == 0 {
			continue
		}
		done = append(done, strings.Join(got, "+"))
		lead, ok := w.converge(45 * time.Second)
		if !ok {
			emit("# inconclusive no-convergence %s %s", concHead(s), strings.Join(done, " "))
			return
		}
		obs, ok := w.observe(lead)
		if !ok {
			emit("# inconclusive observe %s %s", concHead(s), strings.Join(done, " "))
			return
		}
		emit("%s %s => %s", concHead(s), strings.Join(done, " "), obs)
	}
}

func genConcScript(r *common.Rng, k int, tier string) cscript {
	s := cscript{retries: []int{1, 2, 0, 1}[k%4], init: []int{0, 1, 2}}
	where := func() string { return []string{"L", "F", "G", "F", "G"}[r.Intn(5)] }
	phases := 4
	if tier == "thorough" {
		phases = 6
	}
	ghost := false
	for p := 0; p < phases; p++ {
		var ops []string
		last := p == phases-1
		switch c := r.Intn(100); {
		case last && c < 60:
			// a running peer — a follower, the leader, the caller itself — is removed while pins are in flight
			who := []string{"L", "F", "G"}[r.Intn(3)]
			at := where()
			if r.Chance(1, 3) {
				at = who
			}
			ops = append(ops, fmt.Sprintf("rm@%s@%s", at, who))
		case c < 45:
			if ghost {
				ops = append(ops, fmt.Sprintf("rm@%s@3", where()))
			} else {
				ops = append(ops, fmt.Sprintf("add@%s@3", where()))
			}
			ghost = !ghost
		case c < 60:
			ops = append(ops, fmt.Sprintf("add@%s@%d", where(), r.Intn(3))) // present
		case c < 75:
			ops = append(ops, fmt.Sprintf("rm@%s@4", where())) // absent
		}
		npins := r.Range(1, 3)
		cids := []int{0, 1, 2, 3, 4}
		for i := 0; i < npins; i++ {
			ci := r.Intn(len(cids))
			c := cids[ci]
			cids = append(cids[:ci], cids[ci+1:]...)
			if r.Chance(1, 4) {
				ops = append(ops, fmt.Sprintf("unpin@%s@%d", where(), c))
			} else {
				ops = append(ops, fmt.Sprintf("pin@%s@%s", where(), fmt.Sprintf(pinShapes[r.Intn(len(pinShapes))], c)))
			}
		}
		// the membership change is not always the first goroutine started
		if len(ops) > 1 && r.Bool() {
			ops[0], ops[len(ops)-1] = ops[len(ops)-1], ops[0]
		}
		s.ops = append(s.ops, strings.Join(ops, "+"))
	}
	return s
}
