package main

// Suite join: a peer joins WHILE a burst of pins is being logged (joiner readiness, WaitForSync).
//
//	C17 j r=<r> rp=1 init=<peers> joiner=3 pre=<k0> burst=<n> shape=<pin with # for the cid> at=<i> via=<i>
//	      acked=<a> add=<res> ready=<lvs>@<pinset> => lead=<i> m<i>=<peerset>;<pinset>;nv=<..> ...
//
// k0 pins (cids 0..k0-1) are logged at peer <at> one after the other; then n more (cids k0..k0+n-1) are logged one
// after the other by one goroutine while another one starts staging peer 3, calls AddPeer(3) at peer <via> — <a> burst
// pins had been acknowledged at that instant — and waits for its Ready(). ready = the leader / voter / applied==last
// bits and the pinset of the joiner at the instant Ready() fired (read by the watcher goroutine of startNode).
// Peers replicate one entry per AppendEntries so that the joiner needs many round trips to catch up.

import (
	"context"
	"fmt"
	"path/filepath"
	"strings"
	"sync"
	"sync/atomic"
	"time"

	"verifharness/common"
)

const joinShape = "#/d/-1:-1/0/r/-1/0/-/z/-/-/-/-/-"

type jscript struct {
	retries    int
	init       []int
	pre, burst int
	at, via    int
}

func (s jscript) head() string {
	return fmt.Sprintf("C17 j r=%d rp=1 init=%s joiner=3 pre=%d burst=%d shape=%s at=%d via=%d",
		s.retries, common.Ints(s.init), s.pre, s.burst, joinShape, s.at, s.via)
}

func parseJoin(f []string) (jscript, bool) {
	var s jscript
	s.at, s.via = -1, -1
	for _, t := range f {
		if t == "=>" {
			break
		}
		kv := strings.SplitN(t, "=", 2)
		if len(kv) != 2 {
			continue
		}
		switch kv[0] {
		case "r":
			s.retries = atoi(kv[1])
		case "init":
			for _, x := range strings.Split(kv[1], ",") {
				s.init = append(s.init, atoi(x))
			}
		case "pre":
			s.pre = atoi(kv[1])
		case "burst":
			s.burst = atoi(kv[1])
		case "at":
			s.at = atoi(kv[1])
		case "via":
			s.via = atoi(kv[1])
		}
	}
	ok := s.retries >= 0 && s.retries <= 3 && len(s.init) >= 1 && len(s.init) <= 3 && s.pre >= 0 && s.burst >= 1 && s.pre+s.burst <= common.PinUniverse
	for _, i := range s.init {
		if i < 0 || i > 2 {
			ok = false
		}
	}
	has := func(x int) bool {
		for _, i := range s.init {
			if i == x {
				return true
			}
		}
		return false
	}
	return s, ok && has(s.at) && has(s.via)
}

func runJoinScript(out *common.Out, mu *sync.Mutex, scratch string, tag string, s jscript) {
	emit := func(format string, a ...interface{}) {
		mu.Lock()
		out.Line(format, a...)
		mu.Unlock()
	}
	w, err := newCWorld(filepath.Join(scratch, tag), s.retries)
	if err != nil {
		emit("# inconclusive setup %v", err)
		return
	}
	defer w.close()
	w.fast = true
	w.slowCatchUp = true
	for _, i := range s.init {
		if err := w.ensureHost(w.nodes[i]); err != nil {
			emit("# inconclusive host %v", err)
			return
		}
	}
	for _, i := range s.init {
		if err := w.startNode(w.nodes[i], false, s.init); err != nil {
			emit("# inconclusive start %v", err)
			return
		}
	}
	for _, i := range s.init {
		n := w.nodes[i]
		if !within(60*time.Second, func() { <-n.ready }) {
			emit("# inconclusive initial-ready-timeout %s", s.head())
			return
		}
	}
	ctx := context.Background()
	at, via, joiner := w.nodes[s.at], w.nodes[s.via], w.nodes[3]
	pin := func(c int) error {
		return at.cc.LogPin(ctx, common.PinOf(strings.Replace(joinShape, "#", fmt.Sprint(c), 1)))
	}
	for c := 0; c < s.pre; c++ {
		var e error
		if !within(opTimeout, func() { e = pin(c) }) || e != nil {
			emit("# inconclusive pre-pin %s", s.head())
			return
		}
	}
	var acked int32
	var burstErr, joinErr error
	var ackedAtJoin int32
	var addErr error
	ready := ""
	var wg sync.WaitGroup
	wg.Add(2)
	go func() {
		defer wg.Done()
		for c := s.pre; c < s.pre+s.burst; c++ {
			if e := pin(c); e != nil {
				burstErr = e
				return
			}
			atomic.AddInt32(&acked, 1)
		}
	}()
	go func() {
		defer wg.Done()
		// let part of the burst through first
		for i := 0; i < 400 && int(atomic.LoadInt32(&acked)) < s.burst/3; i++ {
			time.Sleep(5 * time.Millisecond)
		}
		if e := w.startNode(joiner, true, nil); e != nil {
			joinErr = e
			return
		}
		w.refreshAddrs()
		ackedAtJoin = atomic.LoadInt32(&acked)
		addErr = via.cc.AddPeer(ctx, joiner.id)
		if addErr != nil {
			return
		}
		select {
		case ready = <-joiner.ready:
		case <-time.After(60 * time.Second):
			joinErr = fmt.Errorf("joiner not ready")
		}
	}()
	if !within(3*opTimeout, wg.Wait) || burstErr != nil || joinErr != nil || ready == "err" {
		emit("# inconclusive join %s burst=%v join=%v", s.head(), burstErr, joinErr)
		return
	}
	if addErr != nil {
		ready = "000@-"
	}
	l, ok := w.converge(45 * time.Second)
	if !ok {
		emit("# inconclusive no-convergence %s", s.head())
		return
	}
	obs, ok := w.observe(l)
	if !ok {
		emit("# inconclusive observe %s", s.head())
		return
	}
	emit("%s acked=%d add=%s ready=%s => %s", s.head(), ackedAtJoin, resTok(addErr), ready, obs)
}

func genJoinScript(r *common.Rng, k int) jscript {
	s := jscript{retries: k % 3}
	switch k % 3 {
	case 0:
		s.init = []int{0}
	case 1:
		s.init = []int{0, 1}
	default:
		s.init = []int{0, 1, 2}
	}
	s.pre = r.Range(4, 20)
	s.burst = r.Range(16, 40)
	s.at = s.init[r.Intn(len(s.init))]
	s.via = s.init[r.Intn(len(s.init))]
	return s
}
