package main

import (
	"sync"

	"verifharness/common"
)

func genClusterScript(r *common.Rng, tier string) (cscript, bool) { return cscript{init: []int{0}}, true }

func runClusterScript(out *common.Out, mu *sync.Mutex, scratch, tag string, s cscript, repin bool) {}
