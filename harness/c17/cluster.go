package main

// Full-cluster suite of the C17 harness: real ipfscluster.Cluster peers (real libp2p host, RPC
// server, Raft consensus, stateless tracker, descendalloc) with an in-process metrics exchange and
// a table IPFS connector. Additional op tokens:
//
//	join@j@via@res@<pinset>    new peer j (staging) calls Cluster.Join(via); pinset = Pins() of j when Ready() fired
//	padd@j@via@res@<pinset>    new peer j (staging) is added with Cluster.PeerAdd(j) called at via
//	prm@i@p@res@<calls>        Cluster.PeerRemove(p) at peer i; calls = what peer i asked of its consensus meanwhile:
//	                           P<pin> (LogPin) and R<p> (RmPeer), ';'-separated
//	leave@j@res                peer j shuts down with leave_on_shutdown; res = what its RmPeer(self) returned
//	restart@j                  Shutdown (without leaving) and a new Cluster on the same identity and folders
//	pin@i@<pin>@res  unpin@i@<cid>@res   Cluster.Pin / Cluster.Unpin at peer i (the pin token is what was logged)
//
// Observation tokens: m<i>=... for every running peer, x<j>=<done><gone> for every peer that left or was
// removed while running (Done() closed within the deadline / raft.db no longer in its data folder).

import (
	"context"
	"fmt"
	"os"
	"path/filepath"
	"sort"
	"strconv"
	"strings"
	"sync"
	"time"

	ipfscluster "github.com/ipfs/ipfs-cluster"
	"github.com/ipfs/ipfs-cluster/allocator/descendalloc"
	"github.com/ipfs/ipfs-cluster/api"
	"github.com/ipfs/ipfs-cluster/config"
	"github.com/ipfs/ipfs-cluster/consensus/raft"
	"github.com/ipfs/ipfs-cluster/datastore/inmem"
	"github.com/ipfs/ipfs-cluster/monitor/metrics"
	"github.com/ipfs/ipfs-cluster/observations"
	"github.com/ipfs/ipfs-cluster/pintracker/stateless"
	"github.com/ipfs/ipfs-cluster/state"

	crypto "github.com/libp2p/go-libp2p-core/crypto"
	host "github.com/libp2p/go-libp2p-core/host"
	peer "github.com/libp2p/go-libp2p-core/peer"
	peerstore "github.com/libp2p/go-libp2p-core/peerstore"
	rpc "github.com/libp2p/go-libp2p-gorpc"
	dual "github.com/libp2p/go-libp2p-kad-dht/dual"
	ma "github.com/multiformats/go-multiaddr"

	"verifharness/common"
)

// ---- recording consensus decorator

type recCons struct {
	*raft.Consensus
	w   *kworld
	mu  sync.Mutex
	on  bool
	log []string
}

func (r *recCons) rec(s string) {
	r.mu.Lock()
	if r.on {
		r.log = append(r.log, s)
	}
	r.mu.Unlock()
}
func (r *recCons) begin() {
	r.mu.Lock()
	r.on, r.log = true, nil
	r.mu.Unlock()
}
func (r *recCons) end() []string {
	r.mu.Lock()
	defer r.mu.Unlock()
	r.on = false
	return append([]string{}, r.log...)
}
func (r *recCons) LogPin(ctx context.Context, p *api.Pin) error {
	err := r.Consensus.LogPin(ctx, p)
	if err == nil {
		r.rec("P" + r.w.pinTok(p))
	}
	return err
}
func (r *recCons) RmPeer(ctx context.Context, p peer.ID) error {
	err := r.Consensus.RmPeer(ctx, p)
	r.rec(fmt.Sprintf("R%d:%s", r.w.byID[p], resTok(err)))
	return err
}

// ---- in-process metrics exchange standing in for pubsubmon

type worldMon struct {
	w     *kworld
	self  *knode
	store *metrics.Store
	ch    chan *api.Alert
}

func (m *worldMon) SetClient(*rpc.Client)          {}
func (m *worldMon) Shutdown(context.Context) error { return nil }
func (m *worldMon) LogMetric(ctx context.Context, mt *api.Metric) error {
	m.store.Add(mt)
	return nil
}
func (m *worldMon) PublishMetric(ctx context.Context, mt *api.Metric) error {
	for _, n := range m.w.snapshot() {
		cp := *mt
		n.mon.store.Add(&cp)
	}
	return nil
}
func (m *worldMon) LatestMetrics(ctx context.Context, name string) []*api.Metric {
	l := m.store.LatestValid(name)
	rc := m.self.rec
	if rc == nil {
		return l
	}
	ps, err := rc.Peers(ctx)
	if err != nil {
		return l
	}
	return metrics.PeersetFilter(l, ps)
}
func (m *worldMon) MetricNames(ctx context.Context) []string { return m.store.MetricNames() }
func (m *worldMon) Alerts() <-chan *api.Alert                { return m.ch }

type spaceInformer struct{ n *knode }

func (i *spaceInformer) SetClient(*rpc.Client)          {}
func (i *spaceInformer) Shutdown(context.Context) error { return nil }
func (i *spaceInformer) Name() string                   { return "freespace" }
func (i *spaceInformer) GetMetric(context.Context) *api.Metric {
	m := &api.Metric{Name: "freespace", Value: strconv.Itoa(1000 - i.n.idx), Valid: true}
	m.SetTTL(10 * time.Minute)
	return m
}

// ---- world

type knode struct {
	idx     int
	ident   *config.Identity
	dir     string
	cfg     *ipfscluster.Config
	raftCfg *raft.Config
	h       host.Host
	dht     *dual.DHT
	rec     *recCons
	cl      *ipfscluster.Cluster
	mon     *worldMon
	up      bool
	left    bool        // departed (removed while running, or left): reported as x<j>
	ready   chan string // the peer's pinset at the instant Ready() fired
	started time.Time   // when its current Cluster was created (its watchPeers ticker starts then)
}

type kworld struct {
	snaps   bool
	rotate  int
	slash   bool
	dir     string
	retries int
	repin   bool
	watch   time.Duration // peer_watch_interval (0 = 500 ms)
	secret  []byte
	mu      sync.Mutex
	nodes   []*knode
	byID    map[peer.ID]int
}

func (w *kworld) snapshot() []*knode {
	w.mu.Lock()
	defer w.mu.Unlock()
	var l []*knode
	for _, n := range w.nodes {
		if n.up && n.mon != nil {
			l = append(l, n)
		}
	}
	return l
}

// pinTok renders a pin with its allocations named by member index.
func (w *kworld) pinTok(p *api.Pin) string {
	cp := *p
	cp.Allocations = nil
	for _, a := range p.Allocations {
		i, ok := w.byID[a]
		if !ok {
			i = 63
		}
		cp.Allocations = append(cp.Allocations, common.PeerN(i))
	}
	return common.PinTok(&cp)
}

func (w *kworld) pinsetTok(l []*api.Pin) string {
	if len(l) == 0 {
		return "-"
	}
	cp := append([]*api.Pin{}, l...)
	sort.Slice(cp, func(i, j int) bool {
		return common.CidIndex(cp[i].Cid, common.PinUniverse) < common.CidIndex(cp[j].Cid, common.PinUniverse)
	})
	s := make([]string, len(cp))
	for i, p := range cp {
		s[i] = w.pinTok(p)
	}
	return strings.Join(s, "|")
}

func newKWorld(dir string, retries int, repin bool) (*kworld, error) {
	w := &kworld{dir: dir, retries: retries, repin: repin, byID: map[peer.ID]int{}, secret: make([]byte, 32)}
	for i := range w.secret {
		w.secret[i] = byte(7*i + 3)
	}
	for i := 0; i < universe; i++ {
		priv, _, err := crypto.GenerateKeyPair(crypto.Ed25519, 0)
		if err != nil {
			return nil, err
		}
		id, err := peer.IDFromPrivateKey(priv)
		if err != nil {
			return nil, err
		}
		n := &knode{idx: i, ident: &config.Identity{ID: id, PrivateKey: priv}, dir: filepath.Join(dir, fmt.Sprintf("peer-%d", i))}
		w.nodes = append(w.nodes, n)
		w.byID[id] = i
	}
	return w, nil
}

func (w *kworld) ensureHost(n *knode) error {
	if n.h != nil {
		return nil
	}
	cfg := &ipfscluster.Config{}
	if err := cfg.Default(); err != nil {
		return err
	}
	listen, _ := ma.NewMultiaddr("/ip4/127.0.0.1/tcp/0")
	cfg.ListenAddr = []ma.Multiaddr{listen}
	cfg.Secret = w.secret
	cfg.Peername = fmt.Sprintf("peer_%d", n.idx)
	cfg.LeaveOnShutdown = false
	cfg.StateSyncInterval = time.Minute
	cfg.PinRecoverInterval = time.Minute
	cfg.ReplicationFactorMin = -1
	cfg.ReplicationFactorMax = -1
	cfg.MonitorPingInterval = time.Second
	cfg.PeerWatchInterval = 500 * time.Millisecond
	if w.watch > 0 {
		cfg.PeerWatchInterval = w.watch
	}
	cfg.DisableRepinning = !w.repin
	cfg.MDNSInterval = 0
	cfg.SetBaseDir(n.dir)
	n.cfg = cfg
	os.MkdirAll(n.dir, 0700)
	h, _, d, err := ipfscluster.NewClusterHost(context.Background(), n.ident, cfg, inmem.New())
	if err != nil {
		return err
	}
	n.h, n.dht = h, d
	w.shareAddrs()
	return nil
}

func (w *kworld) shareAddrs() {
	for _, n := range w.nodes {
		if n.h == nil {
			continue
		}
		for _, o := range w.nodes {
			if o.h != nil && o != n {
				n.h.Peerstore().AddAddrs(o.ident.ID, o.h.Addrs(), peerstore.PermanentAddrTTL)
			}
		}
	}
}

func (w *kworld) addr(n *knode) ma.Multiaddr {
	a, _ := ma.NewMultiaddr(fmt.Sprintf("%s/p2p/%s", n.h.Addrs()[0], peer.Encode(n.ident.ID)))
	return a
}

func (w *kworld) startNode(n *knode, staging bool) error {
	if err := w.ensureHost(n); err != nil {
		return err
	}
	rc := &raft.Config{}
	rc.Default()
	rc.DataFolder = filepath.Join(n.dir, "raft")
	if w.slash {
		rc.DataFolder += "/"
	}
	rc.WaitForLeaderTimeout = 20 * time.Second
	rc.NetworkTimeout = 10 * time.Second
	rc.CommitRetries = w.retries
	rc.CommitRetryDelay = 50 * time.Millisecond
	rc.BackupsRotate = w.rotate
	if w.snaps {
		rc.RaftConfig.SnapshotInterval = 300 * time.Millisecond
		rc.RaftConfig.SnapshotThreshold = 1
	}
	rc.RaftConfig.HeartbeatTimeout = 700 * time.Millisecond
	rc.RaftConfig.ElectionTimeout = 1000 * time.Millisecond
	rc.RaftConfig.LeaderLeaseTimeout = 500 * time.Millisecond
	rc.RaftConfig.CommitTimeout = 50 * time.Millisecond
	n.raftCfg = rc
	n.cfg.LeaveOnShutdown = false
	store := inmem.New()
	cc, err := raft.NewConsensus(n.h, rc, store, staging)
	if err != nil {
		return err
	}
	n.rec = &recCons{Consensus: cc, w: w}
	n.mon = &worldMon{w: w, self: n, store: metrics.NewStore(), ch: make(chan *api.Alert)}
	tcfg := &stateless.Config{}
	tcfg.Default()
	tracker := stateless.New(tcfg, n.ident.ID, n.cfg.Peername, func(ctx context.Context) (state.ReadOnly, error) { return n.rec.State(ctx) })
	tracer, err := observations.SetupTracing(&observations.TracingConfig{})
	if err != nil {
		return err
	}
	w.mu.Lock()
	n.up = true
	n.left = false
	w.mu.Unlock()
	n.started = time.Now()
	cl, err := ipfscluster.NewCluster(context.Background(), n.h, n.dht, n.cfg, store, n.rec, nil,
		common.NewFakeIPFS(), tracker, n.mon, descendalloc.NewAllocator(), []ipfscluster.Informer{&spaceInformer{n}}, tracer)
	if err != nil {
		w.mu.Lock()
		n.up = false
		w.mu.Unlock()
		return err
	}
	n.cl = cl
	n.ready = make(chan string, 1)
	go func(cl *ipfscluster.Cluster, ready chan string) {
		select {
		case <-cl.Ready():
			pins, err := cl.Pins(context.Background())
			if err != nil {
				ready <- "err"
				return
			}
			ready <- w.pinsetTok(pins)
		case <-cl.Done():
		}
	}(cl, n.ready)
	return nil
}

func (w *kworld) setDown(n *knode) {
	w.mu.Lock()
	n.up = false
	w.mu.Unlock()
}

func (w *kworld) close() {
	for _, n := range w.nodes {
		if n.cl != nil {
			c := n.cl
			within(60*time.Second, func() { c.Shutdown(context.Background()) })
		}
	}
	for _, n := range w.nodes {
		if n.dht != nil {
			n.dht.Close()
		}
		if n.h != nil {
			n.h.Close()
		}
	}
	os.RemoveAll(w.dir)
}

// injectMetrics gives every running peer a fresh metric of every running peer (what the metric broadcast
// reaches anyway after a monitor round).
func (w *kworld) injectMetrics() {
	ns := w.snapshot()
	for _, n := range ns {
		for _, o := range ns {
			for _, name := range []string{"freespace", "ping"} {
				m := &api.Metric{Name: name, Peer: o.ident.ID, Value: strconv.Itoa(1000 - o.idx), Valid: true}
				m.SetTTL(10 * time.Minute)
				n.mon.store.Add(m)
			}
		}
	}
}

func (w *kworld) peersTok(n *knode) (string, bool) {
	ps, err := n.rec.Peers(context.Background())
	if err != nil {
		return "", false
	}
	idx := make([]int, 0, len(ps))
	for _, p := range ps {
		i, ok := w.byID[p]
		if !ok {
			i = 99
		}
		idx = append(idx, i)
	}
	sort.Ints(idx)
	return common.Ints(idx), true
}

func (w *kworld) leader() *knode {
	for _, n := range w.snapshot() {
		info, err := n.rec.VerifRaftInfo()
		if err == nil && info.Member && info.Leader == peer.Encode(n.ident.ID) {
			return n
		}
	}
	return nil
}

func (w *kworld) converge(max time.Duration) (*knode, bool) {
	deadline := time.Now().Add(max)
	stable := 0
	for time.Now().Before(deadline) {
		time.Sleep(80 * time.Millisecond)
		l := w.leader()
		if l == nil {
			stable = 0
			continue
		}
		li, err := l.rec.VerifRaftInfo()
		if err != nil || li.Applied != li.Last {
			stable = 0
			continue
		}
		ok := true
		for _, n := range w.snapshot() {
			if n == l {
				continue
			}
			ni, err := n.rec.VerifRaftInfo()
			if err != nil {
				ok = false
				break
			}
			member := false
			for _, s := range li.Servers {
				if s == peer.Encode(n.ident.ID) {
					member = true
				}
			}
			if member && (ni.Applied != li.Last || ni.Last != li.Last || ni.Leader != peer.Encode(l.ident.ID)) {
				ok = false
				break
			}
		}
		if !ok {
			stable = 0
			continue
		}
		stable++
		if stable >= 2 {
			return l, true
		}
	}
	return nil, false
}

func (w *kworld) observe(l *knode) (string, bool) {
	parts := []string{fmt.Sprintf("lead=%d", l.idx)}
	for _, n := range w.snapshot() {
		ps, ok1 := w.peersTok(n)
		st, err := n.rec.State(context.Background())
		if err != nil || !ok1 {
			return "", false
		}
		pl, err := st.List(context.Background())
		if err != nil {
			return "", false
		}
		parts = append(parts, fmt.Sprintf("m%d=%s;%s;nv=-", n.idx, ps, w.pinsetTok(pl)))
	}
	for _, n := range w.nodes {
		if !n.left || n.cl == nil {
			continue
		}
		done := "0"
		select {
		case <-n.cl.Done():
			done = "1"
		default:
		}
		gone := "1"
		if !dataGone(filepath.Join(n.dir, "raft")) {
			gone = "0"
		}
		parts = append(parts, fmt.Sprintf("x%d=%s%s", n.idx, done, gone))
	}
	return strings.Join(parts, " "), true
}

func (w *kworld) knode(s string) *knode {
	i := atoi(s)
	if i < 0 || i >= len(w.nodes) {
		return nil
	}
	return w.nodes[i]
}

// waitDone waits for a departed peer to stop itself.
func (w *kworld) waitDone(n *knode) {
	select {
	case <-n.cl.Done():
	case <-time.After(40 * time.Second):
	}
	w.setDown(n)
	n.left = true
}

func (w *kworld) exec(op string) (string, bool) {
	f := strings.Split(op, "@")
	ctx := context.Background()
	switch f[0] {
	case "join", "padd":
		if len(f) < 3 {
			return "", true
		}
		j, via := w.knode(f[1]), w.knode(f[2])
		if j == nil || via == nil || j.up || !via.up || j.idx == universe-1 {
			return "", true
		}
		if _, err := os.Stat(filepath.Join(j.dir, "raft", "raft.db")); err == nil {
			return "", true // still has Raft state: not a fresh joiner
		}
		if err := w.startNode(j, true); err != nil {
			return "", false
		}
		w.shareAddrs()
		w.injectMetrics()
		var err error
		ok := within(opTimeout, func() {
			if f[0] == "join" {
				err = j.cl.Join(ctx, w.addr(via))
			} else {
				_, err = via.cl.PeerAdd(ctx, j.ident.ID)
			}
		})
		if !ok {
			return "", false
		}
		if err != nil {
			c := j.cl
			within(60*time.Second, func() { c.Shutdown(ctx) })
			w.setDown(j)
			return fmt.Sprintf("%s@%s@%s@err@-", f[0], f[1], f[2]), true
		}
		snap := ""
		if !within(60*time.Second, func() { snap = <-j.ready }) || snap == "err" {
			return "", false
		}
		return fmt.Sprintf("%s@%s@%s@ok@%s", f[0], f[1], f[2], snap), true
	case "snap":
		if len(f) < 2 {
			return "", true
		}
		j := w.knode(f[1])
		if j == nil || !j.up {
			return "", true
		}
		if !waitSnapshot(filepath.Join(j.dir, "raft"), 20*time.Second) {
			return "", false
		}
		return "snap@" + f[1], true
	case "prm":
		if len(f) < 3 {
			return "", true
		}
		at, p := w.knode(f[1]), w.knode(f[2])
		if at == nil || p == nil || !at.up {
			return "", true
		}
		w.injectMetrics()
		wasUp := p.up
		at.rec.begin()
		var err error
		ok := within(opTimeout, func() { err = at.cl.PeerRemove(ctx, p.ident.ID) })
		calls := at.rec.end()
		if !ok {
			return "", false
		}
		for i, c := range calls {
			if strings.HasPrefix(c, "R") {
				calls[i] = strings.SplitN(c, ":", 2)[0]
			}
		}
		ct := "-"
		if len(calls) > 0 {
			ct = strings.Join(calls, ";")
		}
		if err == nil && wasUp {
			w.waitDone(p)
		}
		return fmt.Sprintf("prm@%s@%s@%s@%s", f[1], f[2], resTok(err), ct), true
	case "leave":
		if len(f) < 2 {
			return "", true
		}
		j := w.knode(f[1])
		if j == nil || !j.up {
			return "", true
		}
		j.cfg.LeaveOnShutdown = true
		j.rec.begin()
		ok := within(opTimeout, func() { j.cl.Shutdown(ctx) })
		calls := j.rec.end()
		if !ok {
			return "", false
		}
		res := ""
		for _, c := range calls {
			if strings.HasPrefix(c, "R") {
				res = strings.SplitN(c, ":", 2)[1]
			}
		}
		if res == "" {
			return "", false // never tried to leave: infrastructure
		}
		w.waitDone(j)
		return fmt.Sprintf("leave@%s@%s", f[1], res), true
	case "restart":
		if len(f) < 2 {
			return "", true
		}
		j := w.knode(f[1])
		if j == nil || j.cl == nil {
			return "", true
		}
		if j.up {
			c := j.cl
			if !within(opTimeout, func() { c.Shutdown(ctx) }) {
				return "", false
			}
			w.setDown(j)
		}
		if err := w.startNode(j, false); err != nil {
			return "", false
		}
		w.shareAddrs()
		if !within(60*time.Second, func() { <-j.cl.Ready() }) {
			return "", false
		}
		return "restart@" + f[1], true
	case "pin":
		if len(f) < 3 {
			return "", true
		}
		at := w.knode(f[1])
		if at == nil || !at.up || !validPinArg("pin", f[2]) {
			return "", true
		}
		w.injectMetrics()
		want := common.PinOf(f[2])
		var err error
		var got *api.Pin
		if !within(opTimeout, func() { got, err = at.cl.Pin(ctx, want.Cid, want.PinOptions) }) {
			return "", false
		}
		if err != nil {
			return fmt.Sprintf("pin@%s@%s@err", f[1], f[2]), true
		}
		return fmt.Sprintf("pin@%s@%s@ok", f[1], w.pinTok(got)), true
	case "unpin":
		if len(f) < 3 {
			return "", true
		}
		at := w.knode(f[1])
		if at == nil || !at.up || !validPinArg("unpin", f[2]) {
			return "", true
		}
		var err error
		if !within(opTimeout, func() { _, err = at.cl.Unpin(ctx, common.CidN(atoi(f[2]))) }) {
			return "", false
		}
		return fmt.Sprintf("unpin@%s@%s@%s", f[1], f[2], resTok(err)), true
	}
	return "", true
}

func runClusterScript(out *common.Out, mu *sync.Mutex, scratch, tag string, s cscript, repin bool) {
	emit := func(format string, a ...interface{}) {
		mu.Lock()
		out.Line(format, a...)
		mu.Unlock()
	}
	rp := 0
	if repin {
		rp = 1
	}
	head := fmt.Sprintf("C17 k r=%d rp=%d init=0 %s", s.retries, rp, s.tail())
	w, err := newKWorld(filepath.Join(scratch, tag), s.retries, repin)
	if w != nil {
		w.rotate, w.slash = s.rot(), s.slash
		for _, op := range s.ops {
			if strings.HasPrefix(op, "snap@") {
				w.snaps = true
			}
		}
	}
	if err != nil {
		emit("# inconclusive setup %v", err)
		return
	}
	os.RemoveAll(w.dir)
	defer w.close()
	ipfscluster.ReadyTimeout = 90 * time.Second
	n0 := w.nodes[0]
	if err := w.startNode(n0, false); err != nil {
		emit("# inconclusive start %v", err)
		return
	}
	if !within(60*time.Second, func() { <-n0.cl.Ready() }) {
		emit("# inconclusive initial-ready-timeout %s", head)
		return
	}
	done := []string{}
	line := func() bool {
		if len(w.snapshot()) == 0 {
			return true // nobody is running: nothing to observe until a restart
		}
		l, ok := w.converge(45 * time.Second)
		if !ok {
			emit("# inconclusive no-convergence %s %s", head, strings.Join(done, " "))
			return false
		}
		obs, ok := w.observe(l)
		if !ok {
			emit("# inconclusive observe %s %s", head, strings.Join(done, " "))
			return false
		}
		emit("%s %s => %s", head, strings.Join(done, " "), obs)
		return true
	}
	if !line() {
		return
	}
	for _, op := range s.ops {
		tok, ok := w.exec(op)
		if !ok {
			emit("# inconclusive op-timeout %s %s %s", head, strings.Join(done, " "), op)
			return
		}
		if tok == "" {
			continue
		}
		done = append(done, tok)
		if !line() {
			return
		}
	}
}

var clusterPinShapes = []string{
	"%d/d/-1:-1/0/r/-1/0/-/z/-/-/-/-/-",
	"%d/d/1:1/3/r/-1/0/-/z/-/-/-/-/-",
	"%d/d/1:2/1/r/-1/0/-/z/1:2/-/-/-/-",
	"%d/d/2:2/2/d/0/0/-/z/-/-/-/-/-",
	"%d/d/-1:-1/4/d/0/0/-/f2/-/-/-/-/-",
}

func genClusterScript(r *common.Rng, tier string) (cscript, bool) {
	s := cscript{retries: []int{1, 2, 1, 0}[r.Intn(4)], init: []int{0}}
	repin := r.Chance(3, 4)
	s.rotate = 1 + r.Intn(3)
	if r.Chance(1, 8) {
		// the same peer joins and is removed more often than backups_rotate (snapshots forced)
		s.rotate = 1 + r.Intn(2)
		s.slash = r.Chance(1, 3)
		for k := 0; k < s.rotate+2; k++ {
			s.ops = append(s.ops, "join@1@0", fmt.Sprintf("pin@0@%s", fmt.Sprintf(clusterPinShapes[0], r.Intn(5))), "snap@1")
			switch r.Intn(3) {
			case 0:
				s.ops = append(s.ops, "prm@1@1")
			case 1:
				s.ops = append(s.ops, "leave@1")
			default:
				s.ops = append(s.ops, "prm@0@1")
			}
		}
		return s, repin
	}
	members := map[int]bool{0: true}
	hasData := map[int]bool{0: true}
	pick := func() int {
		var l []int
		for k, v := range members {
			if v {
				l = append(l, k)
			}
		}
		sort.Ints(l)
		return l[r.Intn(len(l))]
	}
	steps := r.Range(5, 11)
	for len(s.ops) < steps {
		nm := 0
		for _, v := range members {
			if v {
				nm++
			}
		}
		if nm == 0 {
			break
		}
		at := pick()
		c := r.Intn(100)
		if nm == 1 && c >= 60 && c < 91 && r.Chance(2, 3) {
			c = 40 // a one-peer cluster mostly grows first
		}
		switch {
		case c < 24:
			s.ops = append(s.ops, fmt.Sprintf("pin@%d@%s", at, fmt.Sprintf(clusterPinShapes[r.Intn(len(clusterPinShapes))], r.Intn(5))))
		case c < 31:
			s.ops = append(s.ops, fmt.Sprintf("unpin@%d@%d", at, r.Intn(5)))
		case c < 60:
			j := -1
			for k := 0; k < 4; k++ {
				if !members[k] && !hasData[k] {
					j = k
					break
				}
			}
			if j < 0 {
				continue
			}
			kind := "join"
			if r.Chance(1, 4) {
				kind = "padd"
			}
			s.ops = append(s.ops, fmt.Sprintf("%s@%d@%d", kind, j, at))
			members[j], hasData[j] = true, true
		case c < 84:
			p := pick()
			if r.Chance(1, 3) {
				p = at
			}
			if r.Chance(1, 10) {
				p = universe - 1 // an absent peer
			}
			s.ops = append(s.ops, fmt.Sprintf("prm@%d@%d", at, p))
			if nm > 1 && members[p] {
				members[p], hasData[p] = false, false
			}
		case c < 91:
			j := pick()
			s.ops = append(s.ops, fmt.Sprintf("leave@%d", j))
			if nm > 1 {
				members[j], hasData[j] = false, false
			} else {
				// the last peer cannot leave (and keeps its data); it is down now: bring it back
				s.ops = append(s.ops, fmt.Sprintf("restart@%d", j))
			}
		default:
			s.ops = append(s.ops, fmt.Sprintf("restart@%d", pick()))
		}
	}
	return s, repin
}
