// C09 harness: drives the real metrics.Store / metrics.Checker (suite "history"),
// the real pubsubmon.Monitor (suite "monitor") and the real publish loops of
// cluster.go against a recording monitor (suite "cadence"), and prints one case
// line per case (format: lean/Driver/C09.lean).
//
//	C09 h cap=<c> max=<a> orc=<T|F|R> ps=<peerset> <op>... => <obs>...
//	C09 cad <inf|ping> <ttl ms> <error pattern> => pubs=<n> late=<l>
//
// Suites "timed" (timed.go: metrics expiring on the real clock), "watch"
// (watch.go: the real Checker.Watch loop, lines `C09 w ... iv=<ms> ...`) and
// "recv" (recv.go: metrics received through real pubsub) add the tokens
// a<n>.<p>.<v>@<E>, +<d> and w<variant>.<n>.<p>.<v><k|@E>.
package main

import (
	"bufio"
	"context"
	"errors"
	"fmt"
	"math"
	"os"
	"sort"
	"strconv"
	"strings"
	"sync"
	"time"

	ipfscluster "github.com/ipfs/ipfs-cluster"
	"github.com/ipfs/ipfs-cluster/api"
	"github.com/ipfs/ipfs-cluster/monitor/metrics"
	"github.com/ipfs/ipfs-cluster/monitor/pubsubmon"

	libp2p "github.com/libp2p/go-libp2p"
	peer "github.com/libp2p/go-libp2p-core/peer"
	pubsub "github.com/libp2p/go-libp2p-pubsub"

	"verifharness/common"
)

const maxPeerIdx = 12
const maxNameIdx = 6

// In the recv suite the zero metric (Name "", Peer "") is reported under these indices.
const zeroNameIdx = 7
const zeroPeerIdx = 13

var peerIdx = map[peer.ID]int{}

func init() {
	for i := 0; i < maxPeerIdx; i++ {
		peerIdx[common.PeerN(i)] = i
	}
}

type peerset struct {
	kind byte // 'n' no PeersFunc, 'e' PeersFunc fails, 'k' known
	l    []int
}

func (p peerset) String() string {
	if p.kind == 'k' {
		return common.Ints(p.l)
	}
	return string(p.kind)
}

type op struct {
	kind  byte // a r x s q t k, + (the nominal clock advances), w (arrival through pubsub, suite recv)
	n, p  int
	valid bool
	ek    byte   // f fresh (+3h), m fresh (max int64), e expired (-3h), z expired (Expire = 0), @ expires at model time exp
	exp   int    // ek == '@': absolute expiry, model milliseconds (a case starts at 1000)
	d     int    // kind '+': milliseconds
	vr    string // kind 'w': payload variant
	ps    peerset
	list  []int
}

func (o op) vk() string {
	v := 0
	if o.valid {
		v = 1
	}
	if o.ek == '@' {
		return fmt.Sprintf("%d@%d", v, o.exp)
	}
	return fmt.Sprintf("%d%c", v, o.ek)
}

func (o op) String() string {
	switch o.kind {
	case 'a':
		return fmt.Sprintf("a%d.%d.%s", o.n, o.p, o.vk())
	case 'w':
		return fmt.Sprintf("w%s.%d.%d.%s", o.vr, o.n, o.p, o.vk())
	case '+':
		return fmt.Sprintf("+%d", o.d)
	case 'r':
		return fmt.Sprintf("r%d", o.p)
	case 'x':
		return fmt.Sprintf("x%d.%d", o.n, o.p)
	case 's':
		return "s" + o.ps.String()
	case 'q':
		return fmt.Sprintf("q%d", o.n)
	case 't':
		return "t"
	case 'k':
		return "k" + common.Ints(o.list)
	}
	return "?"
}

type tcase struct {
	cap int
	orc byte // T F R
	ps0 peerset
	iv  int // > 0: a line of kind w (suite watch), the check interval in milliseconds
	ops []op
}

func (c tcase) input() string {
	var b strings.Builder
	if c.iv > 0 {
		fmt.Fprintf(&b, "C09 w cap=%d max=%d orc=%c ps=%s iv=%d", c.cap, metrics.MaxAlertThreshold, c.orc, c.ps0, c.iv)
	} else {
		fmt.Fprintf(&b, "C09 h cap=%d max=%d orc=%c ps=%s", c.cap, metrics.MaxAlertThreshold, c.orc, c.ps0)
	}
	for _, o := range c.ops {
		b.WriteByte(' ')
		b.WriteString(o.String())
	}
	return b.String()
}

// plain: a history without clock or pubsub tokens (what the history and monitor suites run).
func (c tcase) plain() bool {
	for _, o := range c.ops {
		if o.kind == '+' || o.kind == 'w' || o.ek == '@' {
			return false
		}
	}
	return c.iv == 0
}

// ---------------------------------------------------------------- generation

func genPeerset(r *common.Rng, nPeers int, dups bool) peerset {
	switch x := r.Intn(10); {
	case x < 2:
		return peerset{kind: 'n'}
	case x < 3:
		return peerset{kind: 'e'}
	}
	var l []int
	dens := []int{20, 50, 80, 100}[r.Intn(4)]
	for i := 0; i <= nPeers; i++ { // nPeers itself never sends metrics
		if r.Chance(dens, 100) {
			l = append(l, i)
		}
	}
	if dups && len(l) > 0 && r.Chance(1, 6) { // a peer listed twice
		l = append(l, l[r.Intn(len(l))])
	}
	for i := len(l) - 1; i > 0; i-- {
		j := r.Intn(i + 1)
		l[i], l[j] = l[j], l[i]
	}
	return peerset{kind: 'k', l: l}
}

// gen makes one history. monitorOnly restricts it to what the pubsubmon
// Monitor exposes publicly (arrivals, peerset changes, LatestMetrics).
func gen(r *common.Rng, tier string, monitorOnly bool) tcase {
	var c tcase
	c.orc = "TTTTFFFFRR"[r.Intn(10)]
	c.cap = 25
	if r.Chance(2, 5) {
		c.cap = []int{1, 2, 3, 5, 6, 7, 9}[r.Intn(7)]
	}
	nNames := r.Range(1, 3)
	nPeers := r.Range(1, 6)
	c.ps0 = genPeerset(r, nPeers, c.orc != 'R')
	length := r.Range(4, 70)
	if r.Chance(1, 6) {
		length = r.Range(120, 320) // long enough to wrap a 25-slot window on the hot key
	}
	if r.Chance(1, 8) {
		length = r.Range(0, 6)
	}
	hotN, hotP := r.Intn(nNames), r.Intn(nPeers)
	hot := r.Range(0, 70)      // % of arrivals/removals aimed at the hot key
	pExpired := r.Range(0, 70) // % of arrivals born expired
	pInvalid := r.Range(0, 30) // % of arrivals not valid
	stormy := r.Chance(1, 3)   // many checks
	switch r.Intn(16) {        // degenerate streams
	case 0:
		pExpired = 100
	case 1:
		pInvalid = 100
	case 2:
		pExpired, pInvalid = 0, 0
	}
	key := func() (int, int) {
		if r.Chance(hot, 100) {
			return hotN, hotP
		}
		return r.Intn(nNames), r.Intn(nPeers)
	}
	for len(c.ops) < length {
		x := r.Intn(100)
		var o op
		switch {
		case x < 50:
			o.kind = 'a'
			o.n, o.p = key()
			o.valid = !r.Chance(pInvalid, 100)
			if r.Chance(pExpired, 100) {
				o.ek = "eeez"[r.Intn(4)]
			} else {
				o.ek = "fffm"[r.Intn(4)]
			}
		case x < 62:
			o.kind = 'q'
			o.n = r.Intn(nNames)
			if r.Chance(1, 20) {
				o.n = nNames // a name nobody publishes
			}
		case x < 68:
			o.kind = 's'
			o.ps = genPeerset(r, nPeers, c.orc != 'R')
		case monitorOnly:
			continue
		case x < 80 || (stormy && x < 92):
			o.kind = 't'
		case x < 86 || (stormy && x < 96):
			o.kind = 'k'
			n := r.Intn(nPeers + 2)
			for i := 0; i < n; i++ {
				o.list = append(o.list, r.Intn(nPeers+1))
			}
			if c.orc == 'R' { // the oracle is read per (check, name, peer): visit each pair once
				seen := map[int]bool{}
				var l []int
				for _, p := range o.list {
					if !seen[p] {
						seen[p] = true
						l = append(l, p)
					}
				}
				o.list = l
			}
		case x < 93:
			o.kind = 'r'
			_, o.p = key()
		default:
			o.kind = 'x'
			o.n, o.p = key()
		}
		c.ops = append(c.ops, o)
	}
	return c
}

// ---------------------------------------------------------------- parsing (corpus / replay)

func parseInts(s string) ([]int, bool) {
	if s == "-" {
		return nil, true
	}
	var l []int
	for _, x := range strings.Split(s, ",") {
		v, err := strconv.Atoi(x)
		if err != nil || v < 0 || v >= maxPeerIdx {
			return nil, false
		}
		l = append(l, v)
	}
	return l, true
}

func parsePeerset(s string) (peerset, bool) {
	if s == "n" || s == "e" {
		return peerset{kind: s[0]}, true
	}
	l, ok := parseInts(s)
	return peerset{kind: 'k', l: l}, ok
}

func parseOp(s string) (op, bool) {
	if s == "" {
		return op{}, false
	}
	o := op{kind: s[0]}
	body := s[1:]
	num := func(x string, lim int) (int, bool) {
		v, err := strconv.Atoi(x)
		return v, err == nil && v >= 0 && v < lim
	}
	// <v><f|m|e|z> or <v>@<E>
	vk := func(x string) bool {
		if len(x) < 2 || !strings.ContainsRune("01", rune(x[0])) {
			return false
		}
		o.valid, o.ek = x[0] == '1', x[1]
		if o.ek == '@' {
			var ok bool
			o.exp, ok = num(x[2:], 10000000)
			return ok
		}
		return len(x) == 2 && strings.ContainsRune("fmez", rune(o.ek))
	}
	var ok, ok2 bool
	switch o.kind {
	case 'a':
		f := strings.Split(body, ".")
		if len(f) != 3 || !vk(f[2]) {
			return o, false
		}
		o.n, ok = num(f[0], maxNameIdx)
		o.p, ok2 = num(f[1], maxPeerIdx)
		return o, ok && ok2
	case 'w':
		f := strings.Split(body, ".")
		if len(f) != 4 || !vk(f[3]) || !knownVariant(f[0]) {
			return o, false
		}
		o.vr = f[0]
		if zeroVariant(o.vr) {
			o.n, o.p = zeroNameIdx, zeroPeerIdx
			return o, f[1] == strconv.Itoa(zeroNameIdx) && f[2] == strconv.Itoa(zeroPeerIdx) && f[3] == "0z"
		}
		o.n, ok = num(f[1], maxNameIdx)
		o.p, ok2 = num(f[2], maxPeerIdx)
		return o, ok && ok2
	case '+':
		o.d, ok = num(body, 1000000)
		return o, ok
	case 'r':
		o.p, ok = num(body, maxPeerIdx)
		return o, ok
	case 'x':
		f := strings.Split(body, ".")
		if len(f) != 2 {
			return o, false
		}
		o.n, ok = num(f[0], maxNameIdx)
		o.p, ok2 = num(f[1], maxPeerIdx)
		return o, ok && ok2
	case 's':
		o.ps, ok = parsePeerset(body)
		return o, ok
	case 'q':
		o.n, ok = num(body, maxNameIdx)
		return o, ok
	case 't':
		return o, body == ""
	case 'k':
		o.list, ok = parseInts(body)
		return o, ok
	}
	return o, false
}

func kv(key, s string) (string, bool) {
	if strings.HasPrefix(s, key+"=") {
		return s[len(key)+1:], true
	}
	return "", false
}

func parseCase(line string) (tcase, bool) {
	f := strings.Fields(line)
	if len(f) < 6 || f[0] != "C09" || (f[1] != "h" && f[1] != "w") {
		return tcase{}, false
	}
	var c tcase
	capS, ok1 := kv("cap", f[2])
	_, ok2 := kv("max", f[3])
	orcS, ok3 := kv("orc", f[4])
	psS, ok4 := kv("ps", f[5])
	if !(ok1 && ok2 && ok3 && ok4) || len(orcS) != 1 || !strings.Contains("TFR", orcS) {
		return c, false
	}
	v, err := strconv.Atoi(capS)
	if err != nil || v <= 0 || v > 1000 {
		return c, false
	}
	c.cap, c.orc = v, orcS[0]
	var ok bool
	if c.ps0, ok = parsePeerset(psS); !ok {
		return c, false
	}
	rest := f[6:]
	if f[1] == "w" { // kind w carries the check interval after ps=
		if len(rest) == 0 {
			return c, false
		}
		ivS, ok5 := kv("iv", rest[0])
		iv, err := strconv.Atoi(ivS)
		if !ok5 || err != nil || iv < 10 || iv > 10000 || iv%2 != 0 {
			return c, false
		}
		c.iv, rest = iv, rest[1:]
	}
	for _, w := range rest {
		if w == "=>" {
			break
		}
		o, ok := parseOp(w)
		if !ok {
			return c, false
		}
		c.ops = append(c.ops, o)
	}
	return c, true
}

// ---------------------------------------------------------------- execution

func pids(l []int) []peer.ID {
	out := make([]peer.ID, len(l))
	for i, v := range l {
		out[i] = common.PeerN(v)
	}
	return out
}

var t0 = time.Now()

// mkMetric: base is the real instant of model time 1000 (only '@' expiries use it).
func mkMetric(name string, o op, idx int, base time.Time) *api.Metric {
	m := &api.Metric{Name: name, Peer: common.PeerN(o.p), Value: strconv.Itoa(idx), Valid: o.valid}
	switch o.ek {
	case '@':
		m.Expire = base.Add(time.Duration(o.exp-1000) * time.Millisecond).UnixNano()
	case 'f':
		m.Expire = t0.Add(3 * time.Hour).UnixNano()
	case 'm':
		m.Expire = math.MaxInt64
	case 'e':
		m.Expire = t0.Add(-3 * time.Hour).UnixNano()
	case 'z':
		m.Expire = 0
	}
	return m
}

// showMetrics: (peer:id) sorted by index, and whether the result came ordered by peer ID.
func showMetrics(res []*api.Metric) string {
	sorted := 1
	for i := 0; i+1 < len(res); i++ {
		if res[i].Peer > res[i+1].Peer {
			sorted = 0
		}
	}
	type pi struct{ p, id int }
	l := make([]pi, len(res))
	for i, m := range res {
		id, err := strconv.Atoi(m.Value)
		if err != nil {
			id = 999999
		}
		p, ok := peerIdx[m.Peer]
		if !ok {
			p = 999999
		}
		l[i] = pi{p, id}
	}
	sort.Slice(l, func(i, j int) bool {
		if l[i].p != l[j].p {
			return l[i].p < l[j].p
		}
		return l[i].id < l[j].id
	})
	s := make([]string, len(l))
	for i, x := range l {
		s[i] = fmt.Sprintf("%d:%d", x.p, x.id)
	}
	if len(s) == 0 {
		return fmt.Sprintf("q=-;%d", sorted)
	}
	return fmt.Sprintf("q=%s;%d", strings.Join(s, ","), sorted)
}

func threshold(orc byte) float64 {
	switch orc {
	case 'T':
		return -2 // phi() returns -1, a value >= 0 or +Inf: always at or above
	case 'F':
		return math.NaN() // no value is >= NaN
	}
	return pubsubmon.DefaultFailureThreshold
}

func mname(n int) string { return fmt.Sprintf("m%d", n) }

// runHistory executes a history on a fresh Store + Checker.
func runHistory(c tcase) (res string) {
	ctx := context.Background()
	oldCap := metrics.DefaultWindowCap
	metrics.DefaultWindowCap = c.cap
	defer func() { metrics.DefaultWindowCap = oldCap }()
	store := metrics.NewStore()
	checker := metrics.NewChecker(ctx, store, threshold(c.orc))
	ps := c.ps0
	var out []string
	defer func() {
		if r := recover(); r != nil {
			res = strings.Join(append(out, "panic"), " ")
		}
	}()
	// universe of (name, peer) the case can touch
	nN, nP := 1, 1
	for _, o := range c.ops {
		if o.kind == 'a' || o.kind == 'x' {
			if o.n+1 > nN {
				nN = o.n + 1
			}
		}
		if o.kind == 'a' || o.kind == 'x' || o.kind == 'r' {
			if o.p+1 > nP {
				nP = o.p + 1
			}
		}
	}
	check := func(f func() error) {
		had := make([]bool, nN*nP)
		for n := 0; n < nN; n++ {
			for p := 0; p < nP; p++ {
				had[n*nP+p] = store.PeerLatest(mname(n), common.PeerN(p)) != nil
			}
		}
		err := f()
		var alerts []string
		for {
			select {
			case a := <-checker.Alerts():
				n, e1 := strconv.Atoi(strings.TrimPrefix(a.Name, "m"))
				p, ok := peerIdx[a.Peer]
				if e1 != nil || !ok {
					n, p = 999999, 999999
				}
				id := "x"
				if a.Value != "" {
					id = a.Value
				}
				alerts = append(alerts, fmt.Sprintf("%06d.%06d.%s", n, p, id))
				continue
			default:
			}
			break
		}
		sort.Strings(alerts)
		for i, a := range alerts {
			f := strings.SplitN(a, ".", 3)
			n, _ := strconv.Atoi(f[0])
			p, _ := strconv.Atoi(f[1])
			alerts[i] = fmt.Sprintf("%d.%d.%s", n, p, f[2])
		}
		var forgot []string
		for n := 0; n < nN; n++ {
			for p := 0; p < nP; p++ {
				if had[n*nP+p] && store.PeerLatest(mname(n), common.PeerN(p)) == nil {
					forgot = append(forgot, fmt.Sprintf("%d.%d", n, p))
				}
			}
		}
		a, fg := "-", "-"
		if len(alerts) > 0 {
			a = strings.Join(alerts, ",")
		}
		if len(forgot) > 0 {
			fg = strings.Join(forgot, ",")
		}
		tok := fmt.Sprintf("c=%s;%s", a, fg)
		if err != nil {
			tok += ";err"
		}
		out = append(out, tok)
	}
	for idx, o := range c.ops {
		switch o.kind {
		case 'a':
			store.Add(mkMetric(mname(o.n), o, idx, t0))
		case 'r':
			store.RemovePeer(common.PeerN(o.p))
		case 'x':
			store.RemovePeerMetrics(common.PeerN(o.p), mname(o.n))
		case 's':
			ps = o.ps
		case 'q':
			// what pubsubmon.Monitor.LatestMetrics composes (the monitor suite runs the real one)
			latest := store.LatestValid(mname(o.n))
			switch ps.kind {
			case 'n':
			case 'e':
				latest = []*api.Metric{}
			default:
				latest = metrics.PeersetFilter(latest, pids(ps.l))
			}
			out = append(out, showMetrics(latest))
		case 't':
			// the dispatch of Checker.Watch on a tick
			switch ps.kind {
			case 'n':
				check(checker.CheckAll)
			case 'e':
				check(func() error { return nil })
			default:
				l := pids(ps.l)
				check(func() error { return checker.CheckPeers(l) })
			}
		case 'k':
			l := pids(o.list)
			check(func() error { return checker.CheckPeers(l) })
		}
	}
	return strings.Join(out, " ")
}

// ---- monitor suite: the real pubsubmon.Monitor through its public API

type monitors struct {
	noPeers   *pubsubmon.Monitor // built with a nil PeersFunc
	withPeers *pubsubmon.Monitor
	cur       peerset
	serial    int
}

func newMonitors() (*monitors, error) {
	ctx := context.Background()
	ms := &monitors{}
	mk := func(pf pubsubmon.PeersFunc) (*pubsubmon.Monitor, error) {
		h, err := libp2p.New(ctx, libp2p.ListenAddrStrings("/ip4/127.0.0.1/tcp/0"))
		if err != nil {
			return nil, err
		}
		psub, err := pubsub.NewGossipSub(ctx, h)
		if err != nil {
			return nil, err
		}
		cfg := &pubsubmon.Config{}
		cfg.Default()
		return pubsubmon.New(ctx, cfg, psub, pf)
	}
	var err error
	if ms.noPeers, err = mk(nil); err != nil {
		return nil, err
	}
	ms.withPeers, err = mk(func(context.Context) ([]peer.ID, error) {
		if ms.cur.kind == 'e' {
			return nil, errors.New("no peerset")
		}
		return pids(ms.cur.l), nil
	})
	return ms, err
}

// runMonitor executes the arrivals / peerset changes / queries of a history on
// the two process-wide monitors (metric names are made unique per case).
func (ms *monitors) run(c tcase) (res string, ok bool) {
	ctx := context.Background()
	oldCap := metrics.DefaultWindowCap
	metrics.DefaultWindowCap = c.cap
	defer func() { metrics.DefaultWindowCap = oldCap }()
	ms.serial++
	name := func(n int) string { return fmt.Sprintf("case%d-m%d", ms.serial, n) }
	ms.cur = c.ps0
	var out []string
	defer func() {
		if r := recover(); r != nil {
			res, ok = strings.Join(append(out, "panic"), " "), true
		}
	}()
	for idx, o := range c.ops {
		switch o.kind {
		case 'a':
			if err := ms.noPeers.LogMetric(ctx, mkMetric(name(o.n), o, idx, t0)); err != nil {
				return "", false
			}
			if err := ms.withPeers.LogMetric(ctx, mkMetric(name(o.n), o, idx, t0)); err != nil {
				return "", false
			}
		case 's':
			ms.cur = o.ps
		case 'q':
			if ms.cur.kind == 'n' {
				out = append(out, showMetrics(ms.noPeers.LatestMetrics(ctx, name(o.n))))
			} else {
				out = append(out, showMetrics(ms.withPeers.LatestMetrics(ctx, name(o.n))))
			}
		default:
			return "", false // not expressible through the monitor's public API
		}
	}
	return strings.Join(out, " "), true
}

// ---- cadence suite: the real publish loops against a recording monitor

type cadCase struct {
	kind string // inf | ping
	ttl  int    // milliseconds
	errs string // n: none; p<k>: every k-th publish fails; b: publishes 3,4,5 fail; i<k>: the informer's k-th RPC fails
}

func (c cadCase) input() string { return fmt.Sprintf("C09 cad %s %d %s", c.kind, c.ttl, c.errs) }

func (c cadCase) fails(n int) bool {
	switch {
	case c.errs == "b":
		return n >= 3 && n <= 5
	case strings.HasPrefix(c.errs, "p"):
		k, _ := strconv.Atoi(c.errs[1:])
		return k > 0 && n%k == 0
	}
	return false
}

const cadPubs = 8

// runCadenceOnce returns the number of late publishes among the first cadPubs,
// and whether the machine was too loaded for the measurement to mean anything.
func runCadenceOnce(c cadCase) (late int, overloaded bool, ok bool) {
	ctx, cancel := context.WithCancel(context.Background())
	defer cancel()
	ttl := time.Duration(c.ttl) * time.Millisecond
	mon := common.NewStoreMonitor()
	reached := make(chan struct{})
	mon.PubErr = func(n int) error {
		if n == cadPubs {
			close(reached)
		}
		if c.fails(n) {
			return errors.New("publish failed")
		}
		return nil
	}
	inf := &common.NamedInformer{N: "cadence", M: func() *api.Metric {
		m := &api.Metric{Name: "cadence", Valid: true}
		m.SetTTL(ttl)
		return m
	}}
	cl := ipfscluster.VerifNewCluster(ctx, ipfscluster.VerifComponents{
		ID:        common.PeerN(0),
		Config:    &ipfscluster.Config{MonitorPingInterval: ttl / 2},
		Monitor:   mon,
		Informers: []ipfscluster.Informer{inf},
	})
	defer cl.VerifCancel()
	// scheduler-latency probe
	var maxOver time.Duration
	probeDone := make(chan struct{})
	go func() {
		defer close(probeDone)
		for ctx.Err() == nil {
			s := time.Now()
			time.Sleep(time.Millisecond)
			if d := time.Since(s) - time.Millisecond; d > maxOver {
				maxOver = d
			}
		}
	}()
	var wg sync.WaitGroup
	wg.Add(1)
	go func() {
		defer wg.Done()
		defer func() { recover() }()
		if c.kind == "ping" {
			cl.VerifPushPingMetrics(ctx)
		} else {
			cl.VerifPushInformerMetrics(ctx, inf)
		}
	}()
	select {
	case <-reached:
	case <-time.After(time.Duration(cadPubs)*ttl*2 + 5*time.Second):
		cancel()
		wg.Wait()
		<-probeDone
		return 0, true, false
	}
	cancel()
	wg.Wait()
	<-probeDone
	if len(mon.Published) < cadPubs {
		return 0, false, false
	}
	// Attempt j (1-based) is late when it does not come before the expiry
	// of the metric of the previous attempt, or - the previous attempt
	// having failed - before the expiry of the last metric that was
	// delivered, as long as at most one failed attempt lies in between
	// ("TTL/4 after an error" covers one failure).
	for j := 2; j <= cadPubs; j++ {
		tj := mon.PubTimes[j-1]
		isLate := !tj.Before(time.Unix(0, mon.Published[j-2].Expire))
		if c.fails(j-1) && j >= 3 && !c.fails(j-2) &&
			!tj.Before(time.Unix(0, mon.Published[j-3].Expire)) {
			isLate = true
		}
		if isLate {
			late++
		}
	}
	return late, maxOver > ttl/8, true
}

func runCadence(c cadCase, out *common.Out) {
	for attempt := 0; attempt < 3; attempt++ {
		once := runCadenceOnce
		if strings.HasPrefix(c.errs, "i") {
			once = runCadenceInfErrOnce // round 8c: real disk informer, k-th RepoStat fails (cadinf.go)
		}
		late, overloaded, ok := once(c)
		if ok && late == 0 {
			out.Line("%s => pubs=%d late=0", c.input(), cadPubs)
			return
		}
		if attempt == 2 {
			if !ok || overloaded {
				out.Line("# inconclusive %s (machine too loaded for millisecond timers)", c.input())
			} else {
				out.Line("%s => pubs=%d late=%d", c.input(), cadPubs, late)
			}
		}
	}
}

func cadCaseN(r *common.Rng) cadCase {
	c := cadCase{kind: "inf", ttl: []int{40, 60, 100, 160}[r.Intn(4)], errs: "n"}
	if r.Chance(2, 5) {
		c.kind = "ping"
	}
	if c.kind == "inf" {
		c.errs = []string{"n", "n", "p2", "p3", "b", "p1", "i3", "i4", "i6"}[r.Intn(9)]
	} else {
		c.errs = []string{"n", "p2", "p1"}[r.Intn(3)]
	}
	return c
}

func parseCad(line string) (cadCase, bool) {
	f := strings.Fields(line)
	if len(f) < 5 || f[0] != "C09" || f[1] != "cad" || (f[2] != "inf" && f[2] != "ping") {
		return cadCase{}, false
	}
	ttl, err := strconv.Atoi(f[3])
	if err != nil || ttl < 8 || ttl > 5000 {
		return cadCase{}, false
	}
	e := f[4]
	if strings.HasPrefix(e, "i") && (f[2] != "inf" || len(e) < 2) {
		return cadCase{}, false
	}
	if !(e == "n" || e == "b" || ((strings.HasPrefix(e, "p") || strings.HasPrefix(e, "i")) && len(e) > 1)) {
		return cadCase{}, false
	}
	return cadCase{kind: f[2], ttl: ttl, errs: e}, true
}

// ---------------------------------------------------------------- main

func main() {
	a := common.ParseArgs()
	suite := a.Extra["suite"]
	if suite == "" {
		suite = "history"
	}
	out := common.NewOut()
	defer out.Flush()

	switch suite {
	case "timed":
		runTimedSuite(a, out)
		return
	case "watch":
		runWatchSuite(a, out)
		return
	case "recv":
		runRecvSuite(a, out)
		return
	case "chan":
		runChanSuite(a, out)
		return
	case "glue":
		runGlueSuite(a, out)
		return
	}

	var ms *monitors
	if suite == "monitor" {
		var err error
		if ms, err = newMonitors(); err != nil {
			out.Line("# inconclusive monitor suite: could not build a libp2p host + pubsub in this sandbox")
			fmt.Fprintln(os.Stderr, err)
			return
		}
	}
	runCase := func(c tcase) {
		if !c.plain() {
			return // lines of the timed / watch / recv suites
		}
		if suite == "monitor" {
			if res, ok := ms.run(c); ok {
				out.Line("%s => %s", c.input(), res)
			}
			return
		}
		out.Line("%s => %s", c.input(), runHistory(c))
	}

	if a.Extra["stdin"] != "" {
		sc := bufio.NewScanner(os.Stdin)
		sc.Buffer(make([]byte, 1<<20), 1<<24)
		for sc.Scan() {
			if suite == "cadence" {
				if c, ok := parseCad(sc.Text()); ok {
					runCadence(c, out)
				}
				continue
			}
			if c, ok := parseCase(sc.Text()); ok {
				runCase(c)
			}
		}
		return
	}
	total := a.N
	if total < 0 {
		total = 1000
	}
	root := common.NewRng(common.Seed())
	for k := 0; k < total; k++ {
		if a.Only >= 0 && k != a.Only {
			continue
		}
		r := root.Fork(uint64(k))
		switch suite {
		case "cadence":
			runCadence(cadCaseN(r), out)
		case "monitor":
			runCase(gen(r, a.Tier, true))
		default:
			runCase(gen(r, a.Tier, false))
		}
	}
}
