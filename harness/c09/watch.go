// Suite "watch": the real Checker.Watch loop on the real clock.
//
//	C09 w cap=25 max=<M> orc=<T|F> ps=<ps> iv=<ms> <op>... => <event>...
//
// Watch(ctx, peersF, iv) is started at model time 1000 (= real `base`), so its
// ticks fall at model times 1000 + j*iv. Every scripted operation and every
// expiry sits in the middle of an interval, the last `+d` says how long the
// case runs. Events: A<n>.<p>.<id|x>/<j> an alert raised by tick j,
// G<n>.<p>/<j> the key (n, p) forgotten by tick j; `-` when there is none.
// A run counts only when every timestamp is where the schedule wants it with
// 5 ms to spare (see runWatchOnce); otherwise it is repeated (3 attempts),
// then `# inconclusive watch <input>`.
package main

import (
	"context"
	"errors"
	"fmt"
	"math"
	"os"
	"sort"
	"strconv"
	"strings"
	"sync"
	"sync/atomic"
	"time"

	"github.com/ipfs/ipfs-cluster/api"
	"github.com/ipfs/ipfs-cluster/monitor/metrics"

	peer "github.com/libp2p/go-libp2p-core/peer"

	"verifharness/common"
)

// watchCaseOK: the line respects the grid of the suite.
func watchCaseOK(c tcase) bool {
	if c.iv <= 0 || c.iv%2 != 0 || c.cap != 25 || (c.orc != 'T' && c.orc != 'F') {
		return false
	}
	if len(c.ops) == 0 || c.ops[len(c.ops)-1].kind != '+' {
		return false
	}
	mid := func(t int) bool { return t >= 1000 && (t-1000)%c.iv == c.iv/2 }
	T := 1000
	for _, o := range c.ops {
		switch o.kind {
		case '+':
			T += o.d
			continue
		case 'a', 'r', 'x':
		case 's':
			if c.ps0.kind == 'n' || o.ps.kind == 'n' {
				return false
			}
		default:
			return false
		}
		if T != 1000 && !mid(T) {
			return false
		}
		if o.kind == 'a' && o.ek == '@' && !mid(o.exp) {
			return false
		}
	}
	return mid(T) && T-1000 <= 64*c.iv
}

type watchEvent struct {
	kind byte // A G
	n, p int
	id   string
	at   time.Time
}

var watchDebug = os.Getenv("VERIF_C09_DEBUG") != ""

func runWatchOnce(c tcase) (out string, clean bool) {
	var why []string
	defer func() {
		if watchDebug && !clean {
			fmt.Fprintf(os.Stderr, "c09 watch: unclean (%s): %s\n", strings.Join(why, "; "), c.input())
		}
	}()
	iv := time.Duration(c.iv) * time.Millisecond
	slack := iv/2 - cleanMargin
	store := metrics.NewStore()
	checker := metrics.NewChecker(context.Background(), store, threshold(c.orc))

	nN, nP := 1, 1
	for _, o := range c.ops {
		if o.kind == 'a' || o.kind == 'x' {
			if o.n+1 > nN {
				nN = o.n + 1
			}
		}
		if o.kind == 'a' || o.kind == 'x' || o.kind == 'r' {
			if o.p+1 > nP {
				nP = o.p + 1
			}
		}
	}
	has := func(i int) bool { return store.PeerLatest(mname(i/nP), common.PeerN(i%nP)) != nil }

	var mu sync.Mutex // the scripted peerset, `had`, and the script's own operations
	cur := c.ps0
	had := make([]bool, nN*nP)
	var tickTimes []time.Time
	var events []watchEvent // the forgets (under mu), the alerts are added at the end

	var peersF func(context.Context) ([]peer.ID, error)
	if c.ps0.kind != 'n' {
		peersF = func(context.Context) ([]peer.ID, error) {
			now := time.Now()
			mu.Lock()
			defer mu.Unlock()
			tickTimes = append(tickTimes, now)
			if cur.kind == 'e' {
				return nil, errors.New("no peerset")
			}
			return pids(cur.l), nil
		}
	}

	stop := make(chan struct{})
	var aux sync.WaitGroup
	// scheduler-latency probe
	var maxOver time.Duration
	aux.Add(1)
	go func() {
		defer aux.Done()
		for {
			select {
			case <-stop:
				return
			default:
			}
			s := time.Now()
			time.Sleep(time.Millisecond)
			if d := time.Since(s) - time.Millisecond; d > maxOver {
				maxOver = d
			}
		}
	}()
	// alerts
	var alerts []*api.Alert
	aux.Add(1)
	go func() {
		defer aux.Done()
		for {
			select {
			case a := <-checker.Alerts():
				alerts = append(alerts, a)
			case <-stop:
				for {
					select {
					case a := <-checker.Alerts():
						alerts = append(alerts, a)
						continue
					default:
					}
					return
				}
			}
		}
	}()
	// sampler: a key that disappears without the script having removed it was forgotten by a tick
	aux.Add(1)
	go func() {
		defer aux.Done()
		for {
			mu.Lock()
			for i := range had {
				now := has(i)
				if had[i] && !now {
					events = append(events, watchEvent{kind: 'G', n: i / nP, p: i % nP, at: time.Now()})
				}
				had[i] = now
			}
			mu.Unlock()
			select {
			case <-stop:
				return
			default:
			}
			time.Sleep(time.Millisecond)
		}
	}()

	ctx, cancel := context.WithCancel(context.Background())
	var wg sync.WaitGroup
	wg.Add(1)
	base := time.Now()
	go func() {
		defer wg.Done()
		checker.Watch(ctx, peersF, iv)
	}()

	clean = true
	panicked := false
	T := 1000
	func() {
		defer func() {
			if r := recover(); r != nil {
				panicked = true
			}
		}()
		for idx, o := range c.ops {
			if o.kind == '+' {
				T += o.d
				continue
			}
			nominal := modelInstant(base, T)
			sleepUntil(nominal)
			mu.Lock()
			ts := time.Now()
			switch o.kind {
			case 'a':
				store.Add(mkMetric(mname(o.n), o, idx, base))
			case 'r':
				store.RemovePeer(common.PeerN(o.p))
			case 'x':
				store.RemovePeerMetrics(common.PeerN(o.p), mname(o.n))
			case 's':
				cur = o.ps
			}
			for i := range had {
				had[i] = has(i)
			}
			te := time.Now()
			mu.Unlock()
			if !ts.After(nominal.Add(-slack)) || !te.Before(nominal.Add(slack)) {
				clean = false
				why = append(why, fmt.Sprintf("op %d ran %v..%v after its time", idx, ts.Sub(nominal), te.Sub(nominal)))
			}
		}
	}()
	// the case ends mid-interval; give the last tick as long as possible (up to 8 ms before the
	// tick that is no longer part of the case) before stopping the loop
	sleepUntil(modelInstant(base, T).Add(iv/2 - 8*time.Millisecond))
	cancel()
	wg.Wait()
	close(stop)
	aux.Wait()
	if panicked {
		return "panic", true
	}

	nTicks := (T - 1000) / c.iv
	tickOf := func(at time.Time) (int, bool) {
		off := at.Sub(base)
		j := int(math.Round(float64(off) / float64(iv)))
		d := off - time.Duration(j)*iv
		return j, j >= 1 && j <= nTicks && d >= 0 && d <= slack
	}
	if maxOver > slack {
		clean = false
		why = append(why, fmt.Sprintf("probe overslept %v", maxOver))
	}
	// The times at which Watch called peersF are NOT a cleanliness criterion: how often and when the
	// real loop asks for the peerset is behaviour of the code under test (a Watch that asks once and
	// reuses the list must show up as wrong alerts, not as an "unclean" run). Machine stalls are
	// caught by the probe above and by the window test on every alert / forgetting below.
	_ = tickTimes
	for _, a := range alerts {
		n, err := strconv.Atoi(strings.TrimPrefix(a.Name, "m"))
		p, ok := peerIdx[a.Peer]
		if err != nil || !ok {
			n, p = 999999, 999999
		}
		id := "x"
		if a.Value != "" {
			id = a.Value
		}
		events = append(events, watchEvent{kind: 'A', n: n, p: p, id: id, at: a.TriggeredAt})
	}
	type ev struct {
		watchEvent
		j int
	}
	evs := make([]ev, len(events))
	for i, e := range events {
		j, ok := tickOf(e.at)
		if !ok {
			clean = false
			why = append(why, fmt.Sprintf("event %c came %v after the start", e.kind, e.at.Sub(base)))
		}
		evs[i] = ev{e, j}
	}
	sort.SliceStable(evs, func(a, b int) bool {
		x, y := evs[a], evs[b]
		switch {
		case x.j != y.j:
			return x.j < y.j
		case x.n != y.n:
			return x.n < y.n
		case x.p != y.p:
			return x.p < y.p
		case x.kind != y.kind:
			return x.kind < y.kind
		}
		return x.id < y.id
	})
	var toks []string
	for _, e := range evs {
		if e.kind == 'A' {
			toks = append(toks, fmt.Sprintf("A%d.%d.%s/%d", e.n, e.p, e.id, e.j))
		} else {
			toks = append(toks, fmt.Sprintf("G%d.%d/%d", e.n, e.p, e.j))
		}
	}
	if len(toks) == 0 {
		return "-", clean
	}
	return strings.Join(toks, " "), clean
}

// watchLine prints a case only when two clean runs gave the same events: a tick that the Go
// runtime delivered late or dropped while the rest of the process ran on time is invisible to the
// per-run cleanliness tests (nothing happens, nothing is late), so a single run is never trusted.
func watchLine(c tcase, st *suiteStats) string {
	seen := map[string]int{}
	cleanRuns := 0
	for attempt := 0; attempt < 6 && cleanRuns < 4; attempt++ {
		atomic.AddInt64(&st.runs, 1)
		res, clean := runWatchOnce(c)
		if !clean {
			atomic.AddInt64(&st.unclean, 1)
			continue
		}
		cleanRuns++
		seen[res]++
		if seen[res] == 2 {
			if len(seen) > 1 {
				// two runs agreed but a third differed: timing is not trustworthy for this case
				break
			}
			return c.input() + " => " + res
		}
	}
	atomic.AddInt64(&st.inconclusive, 1)
	return "# inconclusive watch " + c.input()
}

func runWatchSuite(a common.Args, out *common.Out) {
	start := time.Now()
	var cases []tcase
	if a.Extra["stdin"] != "" {
		cases = stdinCases(true, watchCaseOK)
	} else {
		total := a.N
		if total < 0 {
			total = 40
			if a.Tier == "thorough" {
				total = 400
			}
		}
		root := common.NewRng(common.Seed())
		for k := 0; k < total; k++ {
			if a.Only >= 0 && k != a.Only {
				continue
			}
			c := genWatch(root.Fork(uint64(k)), a.Tier)
			if !watchCaseOK(c) {
				panic("genWatch made a case off the grid: " + c.input())
			}
			cases = append(cases, c)
		}
	}
	st := &suiteStats{}
	runParallel(cases, 32, out, func(c tcase) string { return watchLine(c, st) })
	st.report("watch", len(cases), start)
}

// ---------------------------------------------------------------- generation

// wgen builds a watch case on the grid: T is 1000 or the middle of an interval.
type wgen struct {
	r              *common.Rng
	iv             int
	T              int
	ops            []op
	nNames, nPeers int
}

// by advances the clock by k intervals (from 1000: to the middle of interval k-1).
func (g *wgen) by(k int) {
	d := k * g.iv
	if g.T == 1000 {
		d -= g.iv / 2
	}
	g.T += d
	if n := len(g.ops); n > 0 && g.ops[n-1].kind == '+' {
		g.ops[n-1].d += d
		return
	}
	g.ops = append(g.ops, op{kind: '+', d: d})
}

// expiryAfter: the model time at which a metric arriving now with a TTL of k
// intervals (k - 1/2 when arriving at 1000) expires: the first tick that sees
// it expired is tick number tickAfter(k).
func (g *wgen) expiryAfter(k int) int {
	if g.T == 1000 {
		return 1000 + k*g.iv - g.iv/2
	}
	return g.T + k*g.iv
}

func (g *wgen) arr(n, p, k int) {
	g.ops = append(g.ops, op{kind: 'a', n: n, p: p, valid: !g.r.Chance(1, 8), ek: '@', exp: g.expiryAfter(k)})
}

// expired: a metric that is already expired when it arrives.
func (g *wgen) expired(n, p int) {
	o := op{kind: 'a', n: n, p: p, valid: !g.r.Chance(1, 8), ek: "ez"[g.r.Intn(2)]}
	if back := g.r.Range(1, 3); g.r.Bool() && g.T-back*g.iv >= 1000+g.iv/2 {
		o.ek, o.exp = '@', g.T-back*g.iv
	}
	g.ops = append(g.ops, o)
}

func (g *wgen) set(ps peerset) { g.ops = append(g.ops, op{kind: 's', ps: ps}) }
func (g *wgen) remove(n, p int) {
	if g.r.Chance(1, 3) {
		g.ops = append(g.ops, op{kind: 'x', n: n, p: p})
	} else {
		g.ops = append(g.ops, op{kind: 'r', p: p})
	}
}

// known: a peerset that has the peers of `with`, not those of `without`.
func (g *wgen) known(with []int, without []int) peerset {
	var l []int
	for p := 0; p <= g.nPeers; p++ {
		in := g.r.Chance(3, 4)
		for _, w := range with {
			if w == p {
				in = true
			}
		}
		for _, w := range without {
			if w == p {
				in = false
			}
		}
		if in {
			l = append(l, p)
		}
	}
	for i := len(l) - 1; i > 0; i-- {
		j := g.r.Intn(i + 1)
		l[i], l[j] = l[j], l[i]
	}
	return peerset{kind: 'k', l: l}
}

// noise: something happening to another key.
func (g *wgen) noise(n, p int) {
	if g.nNames*g.nPeers == 1 || !g.r.Chance(1, 2) {
		return
	}
	n2, p2 := g.r.Intn(g.nNames), g.r.Intn(g.nPeers)
	if n2 == n && p2 == p {
		return
	}
	switch g.r.Intn(6) {
	case 0:
		g.expired(n2, p2)
	case 1:
		g.ops = append(g.ops, op{kind: 'a', n: n2, p: p2, valid: true, ek: "fm"[g.r.Intn(2)]})
	default:
		g.arr(n2, p2, g.r.Range(1, 4))
	}
}

func genWatch(r *common.Rng, tier string) tcase {
	for {
		c := tcase{cap: 25, orc: "TF"[r.Intn(2)], iv: 50}
		if tier == "thorough" && r.Bool() {
			c.iv = 40
		}
		g := &wgen{r: r, iv: c.iv, T: 1000, nNames: r.Range(1, 2), nPeers: r.Range(1, 3)}
		n, p := r.Intn(g.nNames), r.Intn(g.nPeers)
		c.ps0 = g.known([]int{p}, nil)
		if r.Chance(1, 6) {
			c.ps0 = peerset{kind: 'n'}
		}
		if r.Chance(1, 4) { // nothing happens before the first tick
			g.by(r.Range(1, 2))
		}
		switch shape := r.Intn(10); shape {
		case 0, 1: // a metric, then silence: alert at the first tick after the expiry, forgotten at the next
			k := r.Range(1, 4)
			g.arr(n, p, k)
			g.noise(n, p)
			if k > 1 && r.Bool() {
				g.by(1)
				g.noise(n, p)
				k--
			}
			g.by(k + r.Range(3, 4))
		case 2: // renewals keep it silent
			k := r.Range(2, 3)
			g.arr(n, p, k)
			for i := r.Range(1, 4); i > 0; i-- {
				g.by(r.Range(1, k-1))
				g.arr(n, p, k)
			}
			g.noise(n, p)
			g.by(k + r.Range(1, 3))
		case 3: // failure, recovery, second failure
			g.arr(n, p, 1)
			g.by(r.Range(2, 4)) // 2: alerted, 3+: alerted and forgotten
			k := r.Range(1, 2)
			g.arr(n, p, k)
			g.noise(n, p)
			g.by(k + r.Range(1, 3))
		case 4: // no peerset in the rounds after the expiry
			if c.ps0.kind == 'n' {
				c.ps0 = g.known([]int{p}, nil)
			}
			k := r.Range(1, 2)
			g.arr(n, p, k)
			if r.Bool() {
				g.by(k) // at the very instant of the expiry
				g.set(peerset{kind: 'e'})
			} else {
				g.set(peerset{kind: 'e'})
				g.by(k)
			}
			g.by(r.Range(1, 3))
			g.set(g.known([]int{p}, nil))
			g.by(r.Range(1, 3))
		case 5: // a peer outside the peerset is not checked until it joins
			c.ps0 = g.known(nil, []int{p})
			if r.Chance(1, 5) {
				c.ps0 = peerset{kind: 'e'}
			}
			g.arr(n, p, 1)
			g.noise(n, p)
			g.by(r.Range(2, 4))
			g.set(g.known([]int{p}, nil))
			g.by(r.Range(1, 3))
			if r.Bool() {
				g.set(g.known(nil, []int{p}))
				g.by(2)
			}
		case 6: // the peer is removed before its metric expires
			k := r.Range(2, 3)
			g.arr(n, p, k)
			if g.nNames > 1 && r.Bool() {
				g.arr(1-n, p, k)
			}
			g.by(r.Range(1, k-1))
			g.remove(n, p)
			g.by(k + 2)
		case 7: // CheckAll: every key, whatever the peerset
			c.ps0 = peerset{kind: 'n'}
			for nn := 0; nn < g.nNames; nn++ {
				for pp := 0; pp < g.nPeers; pp++ {
					switch r.Intn(5) {
					case 0:
					case 1:
						g.expired(nn, pp)
					default:
						g.arr(nn, pp, r.Range(1, 4))
					}
				}
			}
			g.arr(n, p, r.Range(1, 3))
			g.by(r.Range(4, 7))
		case 8: // enough samples for the accrual branch
			for i := r.Range(6, 8); i > 0; i-- {
				g.arr(n, p, 2)
			}
			g.by(r.Range(4, 5))
		default: // soup
			for steps := r.Range(2, 6); steps > 0; steps-- {
				for i := r.Range(1, 2); i > 0; i-- {
					n2, p2 := r.Intn(g.nNames), r.Intn(g.nPeers)
					switch x := r.Intn(20); {
					case x < 9:
						g.arr(n2, p2, r.Range(1, 3))
					case x < 12:
						g.expired(n2, p2)
					case x < 13:
						g.ops = append(g.ops, op{kind: 'a', n: n2, p: p2, valid: true, ek: 'f'})
					case x < 16:
						g.remove(n2, p2)
					default:
						if c.ps0.kind != 'n' {
							if r.Chance(1, 4) {
								g.set(peerset{kind: 'e'})
							} else {
								g.set(g.known(nil, nil))
							}
						}
					}
				}
				g.by(r.Range(1, 3))
			}
		}
		if c.ps0.kind == 'n' { // no peerset changes under CheckAll
			ops := g.ops[:0]
			for _, o := range g.ops {
				if o.kind != 's' {
					ops = append(ops, o)
				}
			}
			g.ops = ops
		}
		if r.Chance(1, 3) || g.T == 1000 || g.ops[len(g.ops)-1].kind != '+' {
			g.by(r.Range(1, 2))
		}
		// merge advances that became adjacent
		var ops []op
		for _, o := range g.ops {
			if n := len(ops); o.kind == '+' && n > 0 && ops[n-1].kind == '+' {
				ops[n-1].d += o.d
				continue
			}
			ops = append(ops, o)
		}
		c.ops = ops
		if g.T-1000 > 16*c.iv {
			continue
		}
		return c
	}
}
