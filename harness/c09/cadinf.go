package main

// Round 8c: the composed run of "one failed informer RPC" on the real loop.
//
// `C09 cad inf <ttl> i<k>`: the real `disk.Informer` (freespace) behind a gorpc client whose
// IPFSConnector fails on the k-th `RepoStat` call only, driven by the real
// `Cluster.pushInformerMetrics`, publishing through the real `pubsubmon.Monitor.PublishMetric`
// (wrapped only to record the instant of each call, a copy of the metric and whether the metric
// was `Discard()` at the call - such a metric is dropped by PublishMetric with a nil error and
// never reaches the other peers). When no libp2p host can be built in the sandbox the wrapper
// does what PublishMetric does with such a metric itself (`if m.Discard() { return nil }`).

import (
	"context"
	"errors"
	"strconv"
	"sync"
	"time"

	ipfscluster "github.com/ipfs/ipfs-cluster"
	"github.com/ipfs/ipfs-cluster/api"
	"github.com/ipfs/ipfs-cluster/informer/disk"
	"github.com/ipfs/ipfs-cluster/monitor/pubsubmon"

	rpc "github.com/libp2p/go-libp2p-gorpc"

	"verifharness/common"
)

// cadIPFS fails on the k-th RepoStat call only.
type cadIPFS struct {
	mu    sync.Mutex
	calls int
	k     int
}

func (g *cadIPFS) RepoStat(ctx context.Context, in struct{}, out *api.IPFSRepoStat) error {
	g.mu.Lock()
	defer g.mu.Unlock()
	g.calls++
	if g.calls == g.k {
		return errors.New("ipfs daemon did not answer")
	}
	*out = api.IPFSRepoStat{RepoSize: 10, StorageMax: 100}
	return nil
}

// cadMon records every PublishMetric call and hands the metric to the real monitor.
type cadMon struct {
	*common.StoreMonitor
	real    *pubsubmon.Monitor
	mu      sync.Mutex
	dropped []bool // Discard() at the call: PublishMetric drops it, nil error
	errs    []bool
	reached chan struct{}
}

func (m *cadMon) PublishMetric(ctx context.Context, mt *api.Metric) error {
	m.mu.Lock()
	cp := *mt
	m.Published = append(m.Published, &cp)
	m.PubTimes = append(m.PubTimes, time.Now())
	m.dropped = append(m.dropped, mt.Discard())
	n := len(m.Published)
	m.mu.Unlock()
	var err error
	if m.real != nil {
		err = m.real.PublishMetric(ctx, mt)
	} else if mt.Discard() {
		err = nil // pubsubmon.PublishMetric: "discarding invalid metric", return nil
	}
	m.mu.Lock()
	m.errs = append(m.errs, err != nil)
	m.mu.Unlock()
	if n == cadPubs {
		close(m.reached)
	}
	return err
}

var (
	cadGlueOnce sync.Once
	cadGlue     *glueEnv
)

func runCadenceInfErrOnce(c cadCase) (late int, overloaded bool, ok bool) {
	k, err := strconv.Atoi(c.errs[1:])
	if err != nil || k < 1 {
		return 0, false, false
	}
	ctx, cancel := context.WithCancel(context.Background())
	defer cancel()
	ttl := time.Duration(c.ttl) * time.Millisecond

	ipfs := &cadIPFS{k: k}
	server := rpc.NewServer(nil, "cad")
	if err := server.RegisterName("IPFSConnector", ipfs); err != nil {
		return 0, false, false
	}
	client := rpc.NewClientWithServer(nil, "cad", server)
	cfg := &disk.Config{}
	cfg.Default()
	cfg.MetricTTL = ttl
	cfg.MetricType = disk.MetricFreeSpace
	inf, err := disk.NewInformer(cfg)
	if err != nil {
		return 0, false, false
	}
	inf.SetClient(client)

	cadGlueOnce.Do(func() {
		if g, err := newGlueEnv(); err == nil {
			cadGlue = g
		}
	})
	mon := &cadMon{StoreMonitor: common.NewStoreMonitor(), reached: make(chan struct{})}
	if cadGlue != nil {
		mon.real = cadGlue.mon
	}
	cl := ipfscluster.VerifNewCluster(ctx, ipfscluster.VerifComponents{
		ID:        common.PeerN(0),
		Config:    &ipfscluster.Config{MonitorPingInterval: ttl / 2},
		Monitor:   mon,
		Informers: []ipfscluster.Informer{inf},
	})
	defer cl.VerifCancel()
	var maxOver time.Duration
	probeDone := make(chan struct{})
	go func() {
		defer close(probeDone)
		for ctx.Err() == nil {
			s := time.Now()
			time.Sleep(time.Millisecond)
			if d := time.Since(s) - time.Millisecond; d > maxOver {
				maxOver = d
			}
		}
	}()
	var wg sync.WaitGroup
	wg.Add(1)
	go func() {
		defer wg.Done()
		defer func() { recover() }()
		cl.VerifPushInformerMetrics(ctx, inf)
	}()
	select {
	case <-mon.reached:
	case <-time.After(time.Duration(cadPubs)*ttl*2 + 5*time.Second):
		cancel()
		wg.Wait()
		<-probeDone
		return 0, true, false
	}
	cancel()
	wg.Wait()
	<-probeDone
	mon.mu.Lock()
	defer mon.mu.Unlock()
	if len(mon.Published) < cadPubs || len(mon.errs) < cadPubs {
		return 0, false, false
	}
	// the scenario must be the one the line names: call k (and only it) produced a dropped
	// metric, no publish error anywhere
	for j := 1; j <= cadPubs; j++ {
		if mon.dropped[j-1] != (j == k) || mon.errs[j-1] {
			return 0, false, false
		}
	}
	// same lateness rule as runCadenceOnce, "attempt failed" = the metric was not delivered
	und := func(j int) bool { return mon.dropped[j-1] || mon.errs[j-1] }
	for j := 2; j <= cadPubs; j++ {
		tj := mon.PubTimes[j-1]
		isLate := !tj.Before(time.Unix(0, mon.Published[j-2].Expire))
		if und(j-1) && j >= 3 && !und(j-2) &&
			!tj.Before(time.Unix(0, mon.Published[j-3].Expire)) {
			isLate = true
		}
		if isLate {
			late++
		}
	}
	return late, maxOver > ttl/8, true
}
