// Suite "timed": histories whose metrics expire while the case runs, on the
// real metrics.Store + metrics.Checker and the real clock.
//
// Model time is integer milliseconds; a case starts at model time 1000, which
// is the real instant `base`. `a<n>.<p>.<v>@<E>` is an arrival whose Expire is
// base + (E-1000) ms; `+<d>` advances the nominal clock: the harness sleeps
// until base + (T-1000) ms before the next operation. A case line is printed
// only when the real timestamps taken around every observing operation (q, t,
// k) confirm the nominal order against every expiry with 5 ms to spare;
// otherwise the case is run again (3 attempts) and then reported as
// `# inconclusive timed <input>`.
//
// The executor of this file (execHistory) is shared with the recv suite.
package main

import (
	"bufio"
	"context"
	"fmt"
	"os"
	"sort"
	"strconv"
	"strings"
	"sync"
	"sync/atomic"
	"time"

	"github.com/ipfs/ipfs-cluster/api"
	"github.com/ipfs/ipfs-cluster/monitor/metrics"

	peer "github.com/libp2p/go-libp2p-core/peer"

	"verifharness/common"
)

const cleanMargin = 5 * time.Millisecond

func sleepUntil(t time.Time) {
	if d := time.Until(t); d > 0 {
		time.Sleep(d)
	}
}

func modelInstant(base time.Time, ms int) time.Time {
	return base.Add(time.Duration(ms-1000) * time.Millisecond)
}

// ---------------------------------------------------------------- shared executor

// henv is what a history is executed on.
type henv struct {
	store   *metrics.Store
	checker *metrics.Checker
	name    func(n int) string                      // metric name of index n (n != zeroNameIdx)
	query   func(n int, ps peerset) []*api.Metric   // the q operation
	setPS   func(ps peerset)                        // told about ps0 and every s operation (may be nil)
	arrive  func(m *api.Metric)                     // the a operation
	recv    func(o op, idx int, m *api.Metric) bool // the w operation; false: could not be carried out
	touched func(name string, p peer.ID, zero bool) // every key the case may have created (may be nil)
}

type hrun struct {
	out   string
	ok    bool // the run was carried out
	clean bool // the real timestamps confirm the nominal order
}

func keyName(e *henv, n int) string {
	if n == zeroNameIdx {
		return ""
	}
	return e.name(n)
}

func keyPeer(p int) peer.ID {
	if p == zeroPeerIdx {
		return peer.ID("")
	}
	return common.PeerN(p)
}

// execHistory runs the operations of c against e. It is runHistory plus the
// clock (+d, @E), the w operation and the zero key.
func execHistory(c tcase, e *henv) (res hrun) {
	var out []string
	res.ok = true
	defer func() {
		if r := recover(); r != nil {
			res.out, res.clean = strings.Join(append(out, "panic"), " "), true
		}
	}()
	// universe of (name, peer) the case can touch
	nN, nP, hasZero := 1, 1, false
	var exps []int
	for _, o := range c.ops {
		if o.kind == 'w' && zeroVariant(o.vr) {
			hasZero = true
			continue
		}
		if o.kind == 'a' || o.kind == 'x' || o.kind == 'w' {
			if o.n+1 > nN {
				nN = o.n + 1
			}
		}
		if o.kind == 'a' || o.kind == 'x' || o.kind == 'r' || o.kind == 'w' {
			if o.p+1 > nP {
				nP = o.p + 1
			}
		}
		if (o.kind == 'a' || o.kind == 'w') && o.ek == '@' {
			exps = append(exps, o.exp)
		}
	}
	type key struct{ n, p int }
	var keys []key
	nameIdx := map[string]int{"": zeroNameIdx}
	for n := 0; n < nN; n++ {
		nameIdx[e.name(n)] = n
		for p := 0; p < nP; p++ {
			keys = append(keys, key{n, p})
		}
	}
	if hasZero {
		keys = append(keys, key{zeroNameIdx, zeroPeerIdx})
	}
	if e.touched != nil {
		for _, k := range keys {
			e.touched(keyName(e, k.n), keyPeer(k.p), k.n == zeroNameIdx)
		}
	}
	has := func(k key) bool { return e.store.PeerLatest(keyName(e, k.n), keyPeer(k.p)) != nil }

	check := func(f func() error) {
		had := make([]bool, len(keys))
		for i, k := range keys {
			had[i] = has(k)
		}
		err := f()
		var alerts []string
		for {
			select {
			case a := <-e.checker.Alerts():
				n, ok1 := nameIdx[a.Name]
				p, ok2 := peerIdx[a.Peer]
				if a.Peer == "" {
					p, ok2 = zeroPeerIdx, true
				}
				if !ok1 || !ok2 {
					n, p = 999999, 999999
				}
				id := "x"
				if a.Value != "" {
					id = a.Value
				}
				alerts = append(alerts, fmt.Sprintf("%06d.%06d.%s", n, p, id))
				continue
			default:
			}
			break
		}
		sort.Strings(alerts)
		for i, a := range alerts {
			f := strings.SplitN(a, ".", 3)
			n, _ := strconv.Atoi(f[0])
			p, _ := strconv.Atoi(f[1])
			alerts[i] = fmt.Sprintf("%d.%d.%s", n, p, f[2])
		}
		var forgot []string
		for i, k := range keys {
			if had[i] && !has(k) {
				forgot = append(forgot, fmt.Sprintf("%d.%d", k.n, k.p))
			}
		}
		a, fg := "-", "-"
		if len(alerts) > 0 {
			a = strings.Join(alerts, ",")
		}
		if len(forgot) > 0 {
			fg = strings.Join(forgot, ",")
		}
		tok := fmt.Sprintf("c=%s;%s", a, fg)
		if err != nil {
			tok += ";err"
		}
		out = append(out, tok)
	}

	type obs struct {
		T      int
		ts, te time.Time
	}
	var observed []obs
	ps := c.ps0
	if e.setPS != nil {
		e.setPS(ps)
	}
	base := time.Now()
	T := 1000
	for idx, o := range c.ops {
		if o.kind == '+' {
			T += o.d
			continue
		}
		sleepUntil(modelInstant(base, T))
		ts := time.Now()
		switch o.kind {
		case 'a':
			e.arrive(mkMetric(e.name(o.n), o, idx, base))
		case 'w':
			if e.recv == nil {
				return hrun{}
			}
			var m *api.Metric
			if zeroVariant(o.vr) {
				m = &api.Metric{}
			} else {
				m = mkMetric(e.name(o.n), o, idx, base)
			}
			if !e.recv(o, idx, m) {
				return hrun{}
			}
		case 'r':
			e.store.RemovePeer(common.PeerN(o.p))
		case 'x':
			e.store.RemovePeerMetrics(common.PeerN(o.p), e.name(o.n))
		case 's':
			ps = o.ps
			if e.setPS != nil {
				e.setPS(ps)
			}
		case 'q':
			out = append(out, showMetrics(e.query(o.n, ps)))
		case 't':
			// the dispatch of Checker.Watch on a tick
			switch ps.kind {
			case 'n':
				check(e.checker.CheckAll)
			case 'e':
				check(func() error { return nil })
			default:
				l := pids(ps.l)
				check(func() error { return e.checker.CheckPeers(l) })
			}
		case 'k':
			l := pids(o.list)
			check(func() error { return e.checker.CheckPeers(l) })
		}
		if o.kind == 'q' || o.kind == 't' || o.kind == 'k' {
			observed = append(observed, obs{T, ts, time.Now()})
		}
	}
	res.clean = true
	for _, ob := range observed {
		for _, E := range exps {
			realE := modelInstant(base, E)
			switch {
			case ob.T == E:
				res.clean = false
			case ob.T < E && !ob.te.Before(realE.Add(-cleanMargin)):
				res.clean = false
			case ob.T > E && !ob.ts.After(realE.Add(cleanMargin)):
				res.clean = false
			}
		}
	}
	res.out = strings.Join(out, " ")
	return res
}

// storeQuery: what pubsubmon.Monitor.LatestMetrics composes.
func storeQuery(store *metrics.Store, name func(int) string) func(int, peerset) []*api.Metric {
	return func(n int, ps peerset) []*api.Metric {
		latest := store.LatestValid(name(n))
		switch ps.kind {
		case 'n':
		case 'e':
			latest = []*api.Metric{}
		default:
			latest = metrics.PeersetFilter(latest, pids(ps.l))
		}
		return latest
	}
}

// ---------------------------------------------------------------- the timed suite

func runTimedOnce(c tcase) hrun {
	store := metrics.NewStore() // windows of metrics.DefaultWindowCap (25): cases run in parallel, the global stays
	checker := metrics.NewChecker(context.Background(), store, threshold(c.orc))
	return execHistory(c, &henv{
		store:   store,
		checker: checker,
		name:    mname,
		query:   storeQuery(store, mname),
		arrive:  store.Add,
	})
}

type suiteStats struct {
	runs, unclean, inconclusive int64
}

func (s *suiteStats) report(suite string, cases int, t0 time.Time) {
	fmt.Fprintf(os.Stderr, "c09 %s: %d cases, %d runs, %d unclean runs, %d inconclusive cases, %.1fs\n",
		suite, cases, s.runs, s.unclean, s.inconclusive, time.Since(t0).Seconds())
}

func timedLine(c tcase, st *suiteStats) string {
	for attempt := 0; attempt < 3; attempt++ {
		atomic.AddInt64(&st.runs, 1)
		r := runTimedOnce(c)
		if r.ok && r.clean {
			return c.input() + " => " + r.out
		}
		atomic.AddInt64(&st.unclean, 1)
	}
	atomic.AddInt64(&st.inconclusive, 1)
	return "# inconclusive timed " + c.input()
}

// runParallel runs f on every case, at most par at a time, and prints the
// lines in case order.
func runParallel(cases []tcase, par int, out *common.Out, f func(tcase) string) {
	lines := make([]string, len(cases))
	for lo := 0; lo < len(cases); lo += par {
		hi := lo + par
		if hi > len(cases) {
			hi = len(cases)
		}
		var wg sync.WaitGroup
		for i := lo; i < hi; i++ {
			wg.Add(1)
			go func(i int) {
				defer wg.Done()
				lines[i] = f(cases[i])
			}(i)
		}
		wg.Wait()
		for i := lo; i < hi; i++ {
			out.Line("%s", lines[i])
		}
		out.Flush()
	}
}

// stdinCases parses the case lines of the wanted kind from stdin.
func stdinCases(watch bool, okCase func(tcase) bool) []tcase {
	var cases []tcase
	sc := bufio.NewScanner(os.Stdin)
	sc.Buffer(make([]byte, 1<<20), 1<<24)
	for sc.Scan() {
		if c, ok := parseCase(sc.Text()); ok && (c.iv > 0) == watch && okCase(c) {
			cases = append(cases, c)
		}
	}
	return cases
}

func timedCaseOK(c tcase) bool {
	if c.cap != 25 || (c.orc != 'T' && c.orc != 'F') {
		return false
	}
	for _, o := range c.ops {
		if o.kind == 'w' {
			return false
		}
	}
	return true
}

func runTimedSuite(a common.Args, out *common.Out) {
	start := time.Now()
	var cases []tcase
	if a.Extra["stdin"] != "" {
		cases = stdinCases(false, timedCaseOK)
	} else {
		total := a.N
		if total < 0 {
			total = 100
			if a.Tier == "thorough" {
				total = 1500
			}
		}
		root := common.NewRng(common.Seed())
		for k := 0; k < total; k++ {
			if a.Only >= 0 && k != a.Only {
				continue
			}
			cases = append(cases, genTimed(root.Fork(uint64(k))))
		}
	}
	st := &suiteStats{}
	runParallel(cases, 32, out, func(c tcase) string { return timedLine(c, st) })
	st.report("timed", len(cases), start)
}

// ---------------------------------------------------------------- generation

// tgen builds the operations of a timed case. While building, the expiry of a
// timed arrival is kept relative to its arrival (rel); finish() turns it into
// the absolute model time once the advances are final.
type tgen struct {
	r              *common.Rng
	ops            []op
	rel            []int
	nNames, nPeers int
}

func (g *tgen) add(o op, rel int) {
	g.ops = append(g.ops, o)
	g.rel = append(g.rel, rel)
}
func (g *tgen) adv(d int) { g.add(op{kind: '+', d: d}, 0) }
func (g *tgen) arr(n, p int, valid bool, rel int) {
	g.add(op{kind: 'a', n: n, p: p, valid: valid, ek: '@'}, rel)
}
func (g *tgen) legacy(n, p int, valid bool, ek byte) {
	g.add(op{kind: 'a', n: n, p: p, valid: valid, ek: ek}, 0)
}
func (g *tgen) q(n int) { g.add(op{kind: 'q', n: n}, 0) }
func (g *tgen) tick()   { g.add(op{kind: 't'}, 0) }
func (g *tgen) k(l ...int) {
	g.add(op{kind: 'k', list: append([]int(nil), l...)}, 0)
}
func (g *tgen) ttl() int { return g.r.Range(150, 400) }

// past: an advance that goes beyond an expiry `left` ms away.
func (g *tgen) past(left int) { g.adv(left + g.r.Range(70, 160)) }

// checkOp: a check that looks at the given peers (k, or sometimes the Watch dispatch).
func (g *tgen) checkOp(l ...int) {
	if g.r.Chance(1, 4) {
		g.tick()
		return
	}
	if g.r.Chance(1, 5) && g.nPeers > len(l) { // and a peer that is not concerned
		l = append(append([]int(nil), l...), g.r.Intn(g.nPeers+1))
	}
	g.k(l...)
}

func (g *tgen) randList() []int {
	n := g.r.Range(1, g.nPeers+1)
	if g.r.Chance(1, 12) {
		n = 0
	}
	var l []int
	if g.r.Chance(1, 2) { // all senders
		for p := 0; p < g.nPeers; p++ {
			l = append(l, p)
		}
		return l
	}
	for i := 0; i < n; i++ {
		l = append(l, g.r.Intn(g.nPeers+1))
	}
	return l
}

func timedPeerset(r *common.Rng, nPeers int) peerset {
	switch x := r.Intn(12); {
	case x < 1:
		return peerset{kind: 'n'}
	case x < 2:
		return peerset{kind: 'e'}
	}
	var l []int
	for i := 0; i <= nPeers; i++ { // nPeers itself never sends metrics
		pr := 85
		if i == nPeers {
			pr = 30
		}
		if r.Chance(pr, 100) {
			l = append(l, i)
		}
	}
	if len(l) > 0 && r.Chance(1, 8) { // a peer listed twice
		l = append(l, l[r.Intn(len(l))])
	}
	for i := len(l) - 1; i > 0; i-- {
		j := r.Intn(i + 1)
		l[i], l[j] = l[j], l[i]
	}
	return peerset{kind: 'k', l: l}
}

func (g *tgen) randOp() {
	r := g.r
	n, p := r.Intn(g.nNames), r.Intn(g.nPeers)
	switch x := r.Intn(100); {
	case x < 34:
		valid := !r.Chance(1, 10)
		switch y := r.Intn(20); {
		case y < 2:
			g.arr(n, p, valid, -r.Range(60, 500)) // arrives expired
		case y < 3:
			g.legacy(n, p, valid, 'e')
		case y < 4:
			g.legacy(n, p, valid, 'z')
		case y < 5:
			g.legacy(n, p, valid, "fm"[r.Intn(2)])
		default:
			g.arr(n, p, valid, g.ttl())
		}
	case x < 54:
		g.adv(r.Range(70, 260))
	case x < 66:
		g.q(n)
	case x < 74:
		g.tick()
	case x < 87:
		g.k(g.randList()...)
	case x < 91:
		g.add(op{kind: 'r', p: p}, 0)
	case x < 95:
		g.add(op{kind: 'x', n: n, p: p}, 0)
	default:
		g.add(op{kind: 's', ps: timedPeerset(r, g.nPeers)}, 0)
	}
}

// shape appends one of the scenarios the suite is about.
func (g *tgen) shape(which int) {
	r := g.r
	n, p := r.Intn(g.nNames), r.Intn(g.nPeers)
	switch which {
	case 0: // fresh, seen, silent; expired, gone, alert, forgotten, silent
		ttl := g.ttl()
		g.arr(n, p, true, ttl)
		g.q(n)
		g.checkOp(p)
		g.past(ttl)
		g.q(n)
		g.checkOp(p)
		g.checkOp(p)
		g.checkOp(p)
	case 1: // failure, recovery, second failure
		ttl := r.Range(150, 300)
		g.arr(n, p, true, ttl)
		g.past(ttl)
		g.checkOp(p)
		ttl = r.Range(150, 300)
		g.arr(n, p, true, ttl) // the renewal
		g.checkOp(p)
		if r.Bool() {
			g.q(n)
		}
		g.past(ttl)
		g.checkOp(p)
		g.checkOp(p)
		if r.Bool() {
			g.checkOp(p)
		}
	case 2: // the peer leaves before its metric expires
		ttl := g.ttl()
		g.arr(n, p, true, ttl)
		if g.nNames > 1 && r.Bool() {
			g.arr(1-n, p, true, ttl+r.Range(0, 90))
		}
		if r.Chance(1, 4) {
			g.add(op{kind: 'x', n: n, p: p}, 0)
		} else {
			g.add(op{kind: 'r', p: p}, 0)
		}
		g.past(ttl + 90)
		g.checkOp(p)
		g.q(n)
		g.checkOp(p)
	case 3: // enough samples for the accrual branch, then expiry
		ttl := r.Range(150, 260)
		cnt := r.Range(6, 8)
		split := r.Intn(cnt + 3) // an advance inside the burst (or not)
		for i := 0; i < cnt; i++ {
			if i > 0 && i == split {
				g.adv(70)
			}
			g.arr(n, p, true, ttl)
		}
		g.past(ttl)
		g.checkOp(p)
		g.checkOp(p)
		if r.Bool() {
			g.q(n)
		}
	case 4: // two peers expiring between successive checks
		p2 := (p + 1) % g.nPeers
		ttlA := r.Range(150, 230)
		ttlB := ttlA + r.Range(150, 260)
		g.arr(n, p, true, ttlA)
		g.arr(n, p2, true, ttlB)
		g.checkOp(p, p2)
		d := ttlA + r.Range(65, ttlB-ttlA-65)
		g.adv(d)
		g.checkOp(p, p2)
		if r.Bool() {
			g.q(n)
		}
		g.past(ttlB - d)
		g.checkOp(p, p2)
		g.checkOp(p, p2)
	}
}

// finish enforces the 60 ms distance between observing operations and
// expiries by growing advances (or TTLs), and makes the expiries absolute.
func (g *tgen) finish() bool {
	for iter := 0; iter < 300; iter++ {
		times := make([]int, len(g.ops))
		T := 1000
		for i, o := range g.ops {
			if o.kind == '+' {
				T += o.d
			}
			times[i] = T
		}
		if T-1000 > 1600 {
			return false
		}
		clash := false
	scan:
		for i, o := range g.ops {
			if o.kind != 'q' && o.kind != 't' && o.kind != 'k' {
				continue
			}
			for j, a := range g.ops {
				if a.kind != 'a' || a.ek != '@' {
					continue
				}
				d := times[i] - (times[j] + g.rel[j])
				if d >= 60 || d <= -60 {
					continue
				}
				clash = true
				lo, hi := i, j
				if lo > hi {
					lo, hi = hi, lo
				}
				bumped := false
				for k := hi; k > lo; k-- {
					if g.ops[k].kind == '+' {
						g.ops[k].d += 130
						bumped = true
						break
					}
				}
				if !bumped {
					if g.rel[j] > 0 {
						g.rel[j] += 130
					} else {
						g.rel[j] -= 130
					}
				}
				break scan
			}
		}
		if !clash {
			for j := range g.ops {
				if g.ops[j].kind == 'a' && g.ops[j].ek == '@' {
					g.ops[j].exp = times[j] + g.rel[j]
					if g.ops[j].exp < 1 {
						return false
					}
				}
			}
			return true
		}
	}
	return false
}

func genTimed(r *common.Rng) tcase {
	for {
		c := tcase{cap: 25, orc: "TF"[r.Intn(2)]}
		g := &tgen{r: r, nNames: r.Range(1, 2), nPeers: r.Range(1, 3)}
		which := r.Intn(8)
		if which == 4 && g.nPeers < 2 {
			g.nPeers = 2
		}
		c.ps0 = timedPeerset(r, g.nPeers)
		if which < 5 {
			for i := r.Intn(3); i > 0; i-- {
				g.randOp()
			}
			g.shape(which)
			for i := r.Intn(4); i > 0 && len(g.ops) < 14; i-- {
				g.randOp()
			}
		} else {
			length := r.Range(5, 14)
			for len(g.ops) < length {
				g.randOp()
			}
		}
		if len(g.ops) > 14 || !g.finish() {
			continue
		}
		c.ops = g.ops
		return c
	}
}
