// Suite "chan" (round 8): the alert channel of metrics.Checker seen by a consumer
// that does NOT receive after every check. Real metrics.Store + metrics.Checker,
// one metric name, AlertChannelCap lowered to 1..4 (it is a package variable read
// by NewChecker) or left at the shipped value (cap=256 lines of the corpus).
//
//	C09 ch cap=<c> max=<a> <op>... => <obs>...
//	  op   e<p> arrival for peer p, expired an hour ago | f<p> arrival, fresh for an hour
//	       k<p,p,..> CheckPeers(list) - nothing is received | d<n> the consumer receives up to n alerts
//	  obs  k=<0|1 ErrAlertChannelFull>;<peer:stamp of what the store still holds,.. | ->
//	       d=<peer:stamp,..|->       (stamp = position of the arrival + 1)
//	       last token: d=... everything still in the channel at the end of the case
package main

import (
	"bufio"
	"context"
	"fmt"
	"os"
	"strconv"
	"strings"
	"time"

	"verifharness/common"

	"github.com/ipfs/ipfs-cluster/api"
	"github.com/ipfs/ipfs-cluster/monitor/metrics"
	peer "github.com/libp2p/go-libp2p-core/peer"
)

const chanMetric = "chm"

type chOp struct {
	kind  byte
	p     int
	peers []int
}

type chCase struct {
	cap int
	ops []chOp
}

func (c chCase) input() string {
	var b strings.Builder
	fmt.Fprintf(&b, "C09 ch cap=%d max=%d", c.cap, metrics.MaxAlertThreshold)
	for _, o := range c.ops {
		switch o.kind {
		case 'e', 'f', 'd':
			fmt.Fprintf(&b, " %c%d", o.kind, o.p)
		case 'k':
			s := make([]string, len(o.peers))
			for i, p := range o.peers {
				s[i] = strconv.Itoa(p)
			}
			if len(s) == 0 {
				s = []string{"-"}
			}
			fmt.Fprintf(&b, " k%s", strings.Join(s, ","))
		}
	}
	return b.String()
}

func parseChan(line string) (chCase, bool) {
	if i := strings.Index(line, "=>"); i >= 0 {
		line = line[:i]
	}
	f := strings.Fields(line)
	if len(f) >= 1 && f[0] == "C09" {
		f = f[1:]
	}
	if len(f) < 3 || f[0] != "ch" || !strings.HasPrefix(f[1], "cap=") {
		return chCase{}, false
	}
	c := chCase{}
	var err error
	if c.cap, err = strconv.Atoi(f[1][4:]); err != nil || c.cap <= 0 {
		return chCase{}, false
	}
	for _, w := range f[3:] {
		if len(w) < 1 {
			return chCase{}, false
		}
		o := chOp{kind: w[0]}
		switch w[0] {
		case 'e', 'f', 'd':
			if o.p, err = strconv.Atoi(w[1:]); err != nil {
				return chCase{}, false
			}
		case 'k':
			if len(w) > 1 && w != "k-" {
				for _, s := range strings.Split(w[1:], ",") {
					p, err := strconv.Atoi(s)
					if err != nil {
						return chCase{}, false
					}
					o.peers = append(o.peers, p)
				}
			}
		default:
			return chCase{}, false
		}
		c.ops = append(c.ops, o)
	}
	return c, true
}

func genChan(r *common.Rng) chCase {
	c := chCase{cap: r.Range(1, 4)}
	nPeers := r.Range(1, 6)
	arr := make([]int, nPeers)
	n := r.Range(4, 16)
	for i := 0; i < n; i++ {
		switch x := r.Intn(10); {
		case x < 4:
			p := r.Intn(nPeers)
			if arr[p] >= 5 { // below accrualMetricsNum: failed() is decided by expiry alone
				continue
			}
			arr[p]++
			k := byte('e')
			if r.Chance(1, 4) {
				k = 'f'
			}
			c.ops = append(c.ops, chOp{kind: k, p: p})
		case x < 8:
			var l []int
			for p := 0; p < nPeers; p++ {
				if r.Chance(4, 5) {
					l = append(l, p)
				}
			}
			if r.Chance(1, 4) { // another visiting order
				for i, j := 0, len(l)-1; i < j; i, j = i+1, j-1 {
					l[i], l[j] = l[j], l[i]
				}
			}
			c.ops = append(c.ops, chOp{kind: 'k', peers: l})
		default:
			c.ops = append(c.ops, chOp{kind: 'd', p: r.Range(0, 3)})
		}
	}
	return c
}

type chKey struct {
	p  int
	at int64
}

func runChan(c chCase) (res string) {
	defer func() {
		if e := recover(); e != nil {
			res = fmt.Sprintf("panic:%v", strings.ReplaceAll(fmt.Sprint(e), " ", "_"))
		}
	}()
	old := metrics.AlertChannelCap
	metrics.AlertChannelCap = c.cap
	defer func() { metrics.AlertChannelCap = old }()

	ctx, cancel := context.WithCancel(context.Background())
	defer cancel()
	store := metrics.NewStore()
	checker := metrics.NewChecker(ctx, store, 3.0)

	maxP := 0
	for _, o := range c.ops {
		if (o.kind == 'e' || o.kind == 'f') && o.p > maxP {
			maxP = o.p
		}
		for _, p := range o.peers {
			if p > maxP {
				maxP = p
			}
		}
	}
	stamp := map[chKey]int{}
	showAlerts := func(l []*api.Alert) string {
		if len(l) == 0 {
			return "-"
		}
		s := make([]string, len(l))
		for i, a := range l {
			p := common.PeerIndex(a.Peer, maxP+1)
			st, ok := stamp[chKey{p, a.ReceivedAt}]
			if !ok || a.Name != chanMetric {
				s[i] = fmt.Sprintf("%d:x", p)
				continue
			}
			s[i] = fmt.Sprintf("%d:%d", p, st)
		}
		return strings.Join(s, ",")
	}
	recv := func(n int) []*api.Alert {
		var l []*api.Alert
		for n < 0 || len(l) < n {
			select {
			case a := <-checker.Alerts():
				l = append(l, a)
				continue
			default:
			}
			break
		}
		return l
	}
	var obs []string
	for i, o := range c.ops {
		switch o.kind {
		case 'e', 'f':
			exp := time.Now().Add(-time.Hour)
			if o.kind == 'f' {
				exp = time.Now().Add(time.Hour)
			}
			m := &api.Metric{Name: chanMetric, Peer: common.PeerN(o.p), Value: "1", Valid: true, Expire: exp.UnixNano()}
			store.Add(m)
			stamp[chKey{o.p, m.ReceivedAt}] = i + 1
			for t := time.Now().UnixNano(); time.Now().UnixNano() == t; {
			} // the next arrival gets another ReceivedAt
		case 'k':
			l := make([]peer.ID, len(o.peers))
			for j, p := range o.peers {
				l[j] = common.PeerN(p)
			}
			err := checker.CheckPeers(l)
			e := 0
			if err != nil {
				if err != metrics.ErrAlertChannelFull {
					return "error:" + strings.ReplaceAll(err.Error(), " ", "_")
				}
				e = 1
			}
			var held []string
			for p := 0; p <= maxP; p++ {
				if m := store.PeerLatest(chanMetric, common.PeerN(p)); m != nil {
					st, ok := stamp[chKey{p, m.ReceivedAt}]
					if !ok {
						held = append(held, fmt.Sprintf("%d:x", p))
						continue
					}
					held = append(held, fmt.Sprintf("%d:%d", p, st))
				}
			}
			h := "-"
			if len(held) > 0 {
				h = strings.Join(held, ",")
			}
			obs = append(obs, fmt.Sprintf("k=%d;%s", e, h))
		case 'd':
			obs = append(obs, "d="+showAlerts(recv(o.p)))
		}
	}
	obs = append(obs, "d="+showAlerts(recv(-1)))
	return strings.Join(obs, " ")
}

func runChanSuite(a common.Args, out *common.Out) {
	if a.Extra["stdin"] != "" {
		sc := bufio.NewScanner(os.Stdin)
		sc.Buffer(make([]byte, 1<<20), 1<<24)
		for sc.Scan() {
			if c, ok := parseChan(sc.Text()); ok {
				out.Line("%s => %s", c.input(), runChan(c))
			}
		}
		return
	}
	total := a.N
	if total < 0 {
		total = 300
	}
	root := common.NewRng(common.Seed())
	for k := 0; k < total; k++ {
		if a.Only >= 0 && k != a.Only {
			continue
		}
		c := genChan(root.Fork(uint64(k)))
		out.Line("%s => %s", c.input(), runChan(c))
	}
}
