// Suite "glue" (round 8b): the code that BUILDS and PUBLISHES a metric.
//
//	C09 g inf <df|ds|np> <nc|err|ok> <a> <b> <ttl ms> => valid=<0|1> value=<n|-> exp=<zero|in|off> named=<0|1> pub=<dropped|sent|error>
//	  the real informer (disk freespace / disk reposize / numpin) with no RPC client, a failing IPFSConnector or one answering
//	  RepoSize=a StorageMax=b (numpin: a pins); the metric GetMetric built; then the real pubsubmon.Monitor.PublishMetric
//	  (peer set as sendInformerMetric does) and whether the message came back on the monitor's own subscription.
//	  exp=in: Expire lies between (call start + TTL) and (call end + TTL).
//	C09 g met <valid 0|1> <offset ms | ttl<d ms> | abs0 | absmax | absmin> => exp=<0|1> disc=<0|1> neg=<0|1>
//	  the real api.Metric with Expire = now + offset (or SetTTL(d), or an absolute extreme): Expired(), Discard(), GetTTL() < 0.
package main

import (
	"bufio"
	"context"
	"errors"
	"fmt"
	"math"
	"os"
	"strconv"
	"strings"
	"sync"
	"time"

	"github.com/ipfs/ipfs-cluster/api"
	"github.com/ipfs/ipfs-cluster/informer/disk"
	"github.com/ipfs/ipfs-cluster/informer/numpin"
	"github.com/ipfs/ipfs-cluster/monitor/pubsubmon"
	"github.com/ipfs/ipfs-cluster/test"

	libp2p "github.com/libp2p/go-libp2p"
	peer "github.com/libp2p/go-libp2p-core/peer"
	rpc "github.com/libp2p/go-libp2p-gorpc"
	pubsub "github.com/libp2p/go-libp2p-pubsub"

	"verifharness/common"
)

type glueIPFS struct {
	mu   sync.Mutex
	fail bool
	a, b uint64
}

func (g *glueIPFS) RepoStat(ctx context.Context, in struct{}, out *api.IPFSRepoStat) error {
	g.mu.Lock()
	defer g.mu.Unlock()
	if g.fail {
		return errors.New("ipfs daemon not reachable")
	}
	*out = api.IPFSRepoStat{RepoSize: g.a, StorageMax: g.b}
	return nil
}

func (g *glueIPFS) PinLs(ctx context.Context, in string, out *map[string]api.IPFSPinStatus) error {
	g.mu.Lock()
	defer g.mu.Unlock()
	if g.fail {
		return errors.New("ipfs daemon not reachable")
	}
	m := make(map[string]api.IPFSPinStatus)
	for i := uint64(0); i < g.a; i++ {
		m[fmt.Sprintf("pin-%d", i)] = api.IPFSPinStatusRecursive
	}
	*out = m
	return nil
}

type glueEnv struct {
	ipfs   *glueIPFS
	client *rpc.Client
	mon    *pubsubmon.Monitor
	serial int
}

func newGlueEnv() (*glueEnv, error) {
	ctx := context.Background()
	g := &glueEnv{ipfs: &glueIPFS{}}
	server := rpc.NewServer(nil, "glue")
	if err := server.RegisterName("IPFSConnector", g.ipfs); err != nil {
		return nil, err
	}
	g.client = rpc.NewClientWithServer(nil, "glue", server)
	h, err := libp2p.New(ctx, libp2p.ListenAddrStrings("/ip4/127.0.0.1/tcp/0"))
	if err != nil {
		return nil, err
	}
	psub, err := pubsub.NewGossipSub(ctx, h)
	if err != nil {
		return nil, err
	}
	cfg := &pubsubmon.Config{}
	cfg.Default()
	// a failing PeersFunc: every Watch round is skipped, nothing is alerted or forgotten behind our back
	g.mon, err = pubsubmon.New(ctx, cfg, psub, func(context.Context) ([]peer.ID, error) { return nil, errors.New("none") })
	if err != nil {
		return nil, err
	}
	g.mon.SetClient(g.client) // starts logFromPubsub: the monitor receives what it publishes itself
	return g, nil
}

type glueCase struct {
	kind string // inf | met
	f    []string
}

func (c glueCase) input() string { return "C09 g " + c.kind + " " + strings.Join(c.f, " ") }

func parseGlue(line string) (glueCase, bool) {
	if i := strings.Index(line, "=>"); i >= 0 {
		line = line[:i]
	}
	w := strings.Fields(line)
	if len(w) < 4 || w[0] != "C09" || w[1] != "g" {
		return glueCase{}, false
	}
	if (w[2] == "inf" && len(w) == 8) || (w[2] == "met" && len(w) == 5) {
		return glueCase{kind: w[2], f: w[3:]}, true
	}
	return glueCase{}, false
}

func genGlue(r *common.Rng) glueCase {
	if r.Chance(1, 3) {
		offs := []string{"-3600000", "-1000", "-1", "1000", "60000", "3600000", "ttl-5000", "ttl-1", "ttl2000", "ttl60000", "abs0", "absmax", "absmin"}
		return glueCase{kind: "met", f: []string{strconv.Itoa(r.Intn(2)), offs[r.Intn(len(offs))]}}
	}
	inf := []string{"df", "ds", "np"}[r.Intn(3)]
	rp := []string{"nc", "err", "ok", "ok", "ok"}[r.Intn(5)]
	val := func() uint64 {
		switch r.Intn(6) {
		case 0:
			return 0
		case 1:
			return math.MaxUint64
		case 2:
			return 1 << 63
		default:
			return uint64(r.Intn(1000000))
		}
	}
	a, b := val(), val()
	if r.Chance(1, 6) {
		b = a
	}
	if inf == "np" {
		a, b = uint64(r.Intn(40)), 0
	}
	ttl := []int{2000, 30000, 5000, 600000}[r.Intn(4)]
	return glueCase{kind: "inf", f: []string{inf, rp, strconv.FormatUint(a, 10), strconv.FormatUint(b, 10), strconv.Itoa(ttl)}}
}

func b01(b bool) string {
	if b {
		return "1"
	}
	return "0"
}

func (g *glueEnv) runMet(c glueCase) string {
	m := &api.Metric{Name: "x", Valid: c.f[0] == "1"}
	switch o := c.f[1]; {
	case o == "abs0":
		m.Expire = 0
	case o == "absmax":
		m.Expire = math.MaxInt64
	case o == "absmin":
		m.Expire = math.MinInt64
	case strings.HasPrefix(o, "ttl"):
		d, err := strconv.Atoi(o[3:])
		if err != nil {
			return "bad"
		}
		m.SetTTL(time.Duration(d) * time.Millisecond)
	default:
		d, err := strconv.Atoi(o)
		if err != nil {
			return "bad"
		}
		m.Expire = time.Now().Add(time.Duration(d) * time.Millisecond).UnixNano()
	}
	return fmt.Sprintf("exp=%s disc=%s neg=%s", b01(m.Expired()), b01(m.Discard()), b01(m.GetTTL() < 0))
}

type informer interface {
	GetMetric(context.Context) *api.Metric
	SetClient(*rpc.Client)
}

func (g *glueEnv) runInf(c glueCase) (res string) {
	defer func() {
		if r := recover(); r != nil {
			res = fmt.Sprintf("panic=%v", r)
		}
	}()
	ctx := context.Background()
	a, _ := strconv.ParseUint(c.f[2], 10, 64)
	b, _ := strconv.ParseUint(c.f[3], 10, 64)
	ttlms, _ := strconv.Atoi(c.f[4])
	ttl := time.Duration(ttlms) * time.Millisecond
	var inf informer
	switch c.f[0] {
	case "df", "ds":
		cfg := &disk.Config{}
		cfg.Default()
		cfg.MetricTTL = ttl
		cfg.MetricType = disk.MetricFreeSpace
		if c.f[0] == "ds" {
			cfg.MetricType = disk.MetricRepoSize
		}
		i, err := disk.NewInformer(cfg)
		if err != nil {
			return "bad-config"
		}
		inf = i
	default:
		cfg := &numpin.Config{}
		cfg.Default()
		cfg.MetricTTL = ttl
		i, err := numpin.NewInformer(cfg)
		if err != nil {
			return "bad-config"
		}
		inf = i
	}
	g.ipfs.mu.Lock()
	g.ipfs.fail, g.ipfs.a, g.ipfs.b = c.f[1] == "err", a, b
	g.ipfs.mu.Unlock()
	if c.f[1] != "nc" {
		inf.SetClient(g.client)
	}
	before := time.Now()
	m := inf.GetMetric(ctx)
	after := time.Now()
	exp := "off"
	switch {
	case m.Expire == 0:
		exp = "zero"
	case m.Expire >= before.Add(ttl).UnixNano() && m.Expire <= after.Add(ttl).UnixNano():
		exp = "in"
	}
	value := m.Value
	if value == "" {
		value = "-"
	}
	named := m.Name != ""
	// sendInformerMetric: metric.Peer = c.id; PublishMetric. Then a valid marker; pubsub delivers a
	// publisher's own messages promptly; the marker bounds the wait (see the grace period below).
	g.serial++
	name := fmt.Sprintf("glue-%d", g.serial)
	pm := *m
	pm.Name = name
	pm.Peer = test.PeerID1
	pub := "dropped"
	if err := g.mon.PublishMetric(ctx, &pm); err != nil {
		pub = "error"
	}
	mk := &api.Metric{Name: name + "-marker", Peer: test.PeerID1, Valid: true}
	mk.SetTTL(time.Hour)
	if err := g.mon.PublishMetric(ctx, mk); err != nil {
		return "# inconclusive marker not published"
	}
	st := g.mon.VerifStore()
	deadline := time.Now().Add(5 * time.Second)
	for st.PeerLatest(name+"-marker", test.PeerID1) == nil {
		if time.Now().After(deadline) {
			return "# inconclusive marker not received"
		}
		time.Sleep(time.Millisecond)
	}
	// pubsub validates messages concurrently: the marker may overtake the metric by a moment. Only after the
	// marker AND a grace period without the metric is it counted as not sent.
	grace := time.Now().Add(400 * time.Millisecond)
	for st.PeerLatest(name, test.PeerID1) == nil && time.Now().Before(grace) {
		time.Sleep(time.Millisecond)
	}
	if st.PeerLatest(name, test.PeerID1) != nil && pub == "dropped" {
		pub = "sent"
	}
	st.RemovePeerMetrics(test.PeerID1, name)
	st.RemovePeerMetrics(test.PeerID1, name+"-marker")
	return fmt.Sprintf("valid=%s value=%s exp=%s named=%s pub=%s", b01(m.Valid), value, exp, b01(named), pub)
}

func (g *glueEnv) line(c glueCase, out *common.Out) {
	var res string
	if c.kind == "met" {
		res = g.runMet(c)
	} else {
		res = g.runInf(c)
	}
	if strings.HasPrefix(res, "#") {
		out.Line("%s %s", res, c.input())
		return
	}
	out.Line("%s => %s", c.input(), res)
}

func runGlueSuite(a common.Args, out *common.Out) {
	g, err := newGlueEnv()
	if err != nil {
		out.Line("# inconclusive glue suite: could not build a libp2p host + pubsub in this sandbox")
		fmt.Fprintln(os.Stderr, err)
		return
	}
	if a.Extra["stdin"] != "" {
		sc := bufio.NewScanner(os.Stdin)
		for sc.Scan() {
			if c, ok := parseGlue(sc.Text()); ok {
				g.line(c, out)
			}
		}
		return
	}
	total := a.N
	if total < 0 {
		total = 200
	}
	root := common.NewRng(common.Seed())
	for k := 0; k < total; k++ {
		if a.Only >= 0 && k != a.Only {
			continue
		}
		g.line(genGlue(root.Fork(uint64(k))), out)
	}
}
