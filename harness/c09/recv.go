// Suite "recv": real pubsubmon.Monitors fed through real pubsub.
//
// Line kind h (as the history suite). `w<variant>.<n>.<p>.<v><k|@E>` publishes
// a payload (see encodeVariant) on the monitors' topic from a raw publisher
// host and waits until the monitors have processed it; a, q go through the
// monitor's public API, t, k, r, x through its checker and store (hook
// VerifChecker / VerifStore).
//
// There are four monitors, each on its own libp2p host, GossipSub and topic
// (with / without a PeersFunc, times two thresholds), and one raw publisher
// host R connected to all of them. A case runs on one monitor; the four
// monitors work through their cases at the same time.
//
// pubsubmon.Config.Validate refuses a threshold <= 0 but lets NaN through, so
// there are two pairs of monitors: orc=F cases run on monitors built with
// FailureThreshold = NaN (no phi is >= NaN); orc=T cases run on monitors with
// the default threshold and never give a key 6 samples, so that the accrual
// branch (the only reader of the threshold) is never taken.
package main

import (
	"bytes"
	"context"
	"errors"
	"fmt"
	"math"
	"os"
	"sort"
	"strconv"
	"strings"
	"sync"
	"sync/atomic"
	"time"

	"github.com/ipfs/ipfs-cluster/api"
	"github.com/ipfs/ipfs-cluster/monitor/pubsubmon"

	logging "github.com/ipfs/go-log/v2"
	libp2p "github.com/libp2p/go-libp2p"
	host "github.com/libp2p/go-libp2p-core/host"
	peer "github.com/libp2p/go-libp2p-core/peer"
	pubsub "github.com/libp2p/go-libp2p-pubsub"
	gocodec "github.com/ugorji/go/codec"

	"verifharness/common"
)

// ---------------------------------------------------------------- payloads

var recvHandle = &gocodec.MsgpackHandle{}

var fixedVariants = map[string]bool{
	"ok": true, "fu": true, "ex": true, "xx": true, "ar": true,
	"em": true, "ju": true, "st": true,
	"tn": true, "tp": true, "tv": true, "te": true, "td": true, "tt": true,
	"bp": true, "ni": true, "ma": true, "a0": true,
}

func knownVariant(s string) bool {
	if fixedVariants[s] {
		return true
	}
	if len(s) < 3 || len(s) > 4 || s[:2] != "tr" {
		return false
	}
	v, err := strconv.Atoi(s[2:])
	return err == nil && v >= 0 && v <= 99 && strconv.Itoa(v) == s[2:]
}

func zeroVariant(s string) bool { return s == "ni" || s == "ma" || s == "a0" }

func msgpackEnc(v interface{}) []byte {
	var b bytes.Buffer
	if err := gocodec.NewEncoder(&b, recvHandle).Encode(v); err != nil {
		panic(err)
	}
	return b.Bytes()
}

// encodeVariant: the bytes published for metric m.
func encodeVariant(variant string, m *api.Metric) []byte {
	asMap := func() map[string]interface{} {
		return map[string]interface{}{"n": m.Name, "p": []byte(m.Peer), "v": m.Value, "e": m.Expire, "d": m.Valid, "t": int64(0)}
	}
	switch variant {
	case "ok":
		return msgpackEnc(m)
	case "fu":
		c := *m
		c.ReceivedAt = time.Now().Add(time.Hour).UnixNano()
		return msgpackEnc(&c)
	case "ex":
		mp := asMap()
		mp["zz"] = "extra"
		return msgpackEnc(mp)
	case "xx":
		return append(msgpackEnc(m), 0xff, 0x01)
	case "ar":
		return msgpackEnc([]interface{}{m.Name, []byte(m.Peer), m.Value, m.Expire, m.Valid, int64(0)})
	case "em":
		return []byte{}
	case "ju":
		return []byte{0xc1, 0x01, 0x02}
	case "st":
		return msgpackEnc("hello")
	case "tn", "tp", "tv":
		mp := asMap()
		mp[variant[1:]] = 17
		return msgpackEnc(mp)
	case "te", "td", "tt":
		mp := asMap()
		mp[variant[1:]] = "str"
		return msgpackEnc(mp)
	case "bp":
		mp := asMap()
		mp["p"] = []byte("notapeer")
		return msgpackEnc(mp)
	case "ni":
		return []byte{0xc0}
	case "ma":
		return []byte{0x80}
	case "a0":
		return []byte{0x90}
	}
	if strings.HasPrefix(variant, "tr") {
		pp, _ := strconv.Atoi(variant[2:])
		full := msgpackEnc(m)
		return full[:len(full)*pp/100]
	}
	panic("unknown variant " + variant)
}

// ---------------------------------------------------------------- the monitors

const markerPeer = 11

// recvLane: one monitor on its own libp2p host, and the raw publisher's handle
// on that monitor's topic. The cases of a lane run one after the other.
type recvLane struct {
	mon   *pubsubmon.Monitor
	h     host.Host
	topic *pubsub.Topic

	mu  sync.Mutex
	cur peerset // the scripted peerset (lanes with a PeersFunc)

	st    suiteStats
	stats map[string][2]int // variant -> (stored, not stored)
	leaks int
}

func (ln *recvLane) setPS(ps peerset) {
	ln.mu.Lock()
	ln.cur = ps
	ln.mu.Unlock()
}

type recvNet struct {
	withPeers map[byte]*recvLane // by oracle: monitor A, scripted PeersFunc
	noPeers   map[byte]*recvLane // monitor B, nil PeersFunc
	all       []*recvLane
	serial    int64
}

func (nt *recvNet) lane(c tcase) *recvLane {
	if c.ps0.kind == 'n' {
		return nt.noPeers[c.orc]
	}
	return nt.withPeers[c.orc]
}

func newRecvNet() (*recvNet, error) {
	ctx := context.Background()
	if os.Getenv("VERIF_C09_DEBUG") == "" {
		logging.SetLogLevel("monitor", "fatal") // every refused payload is logged as an error
	}
	nt := &recvNet{withPeers: map[byte]*recvLane{}, noPeers: map[byte]*recvLane{}}
	rh, err := libp2p.New(ctx, libp2p.ListenAddrStrings("/ip4/127.0.0.1/tcp/0"))
	if err != nil {
		return nil, err
	}
	// flood publish: R sends to every peer of a topic, not to a sample of them
	rps, err := pubsub.NewGossipSub(ctx, rh, pubsub.WithFloodPublish(true))
	if err != nil {
		return nil, err
	}
	// Every monitor gets a topic of its own (pubsubmon.PubsubTopic is read by
	// New), so that the four lanes can work at the same time without seeing
	// each other's metrics.
	topic0 := pubsubmon.PubsubTopic
	defer func() { pubsubmon.PubsubTopic = topic0 }()
	mk := func(th float64, scripted bool) (*recvLane, error) {
		ln := &recvLane{stats: map[string][2]int{}}
		var pf pubsubmon.PeersFunc
		if scripted {
			pf = func(context.Context) ([]peer.ID, error) {
				ln.mu.Lock()
				defer ln.mu.Unlock()
				if ln.cur.kind == 'e' {
					return nil, errors.New("no peerset")
				}
				return pids(ln.cur.l), nil
			}
		}
		var err error
		if ln.h, err = libp2p.New(ctx, libp2p.ListenAddrStrings("/ip4/127.0.0.1/tcp/0")); err != nil {
			return nil, err
		}
		psub, err := pubsub.NewGossipSub(ctx, ln.h)
		if err != nil {
			return nil, err
		}
		cfg := &pubsubmon.Config{}
		cfg.Default()
		cfg.CheckInterval = time.Hour
		cfg.FailureThreshold = th
		pubsubmon.PubsubTopic = fmt.Sprintf("%s.%d", topic0, len(nt.all))
		if ln.mon, err = pubsubmon.New(ctx, cfg, psub, pf); err != nil {
			return nil, err
		}
		ln.mon.SetClient(nil) // starts logFromPubsub (and Watch, which will not tick for an hour)
		if ln.topic, err = rps.Join(pubsubmon.PubsubTopic); err != nil {
			return nil, err
		}
		if err := rh.Connect(ctx, peer.AddrInfo{ID: ln.h.ID(), Addrs: ln.h.Addrs()}); err != nil {
			return nil, err
		}
		nt.all = append(nt.all, ln)
		return ln, nil
	}
	for _, orc := range []byte{'T', 'F'} {
		th := pubsubmon.DefaultFailureThreshold
		if orc == 'F' {
			th = math.NaN()
		}
		if nt.withPeers[orc], err = mk(th, true); err != nil {
			return nil, err
		}
		if nt.noPeers[orc], err = mk(th, false); err != nil {
			return nil, err
		}
	}
	return nt, nil
}

var errNoMesh = errors.New("pubsub mesh did not form")

// waitMesh: R sees every monitor on its topic, and a first message gets through.
func (nt *recvNet) waitMesh() error {
	deadline := time.Now().Add(20 * time.Second)
	for _, ln := range nt.all {
		for len(ln.topic.ListPeers()) < 1 {
			if time.Now().After(deadline) {
				return errNoMesh
			}
			time.Sleep(10 * time.Millisecond)
		}
		for round := 0; !ln.marker("warmup-marker", round, 300*time.Millisecond); round++ {
			if time.Now().After(deadline) {
				return errNoMesh
			}
		}
		ln.mon.VerifStore().RemovePeerMetrics(common.PeerN(markerPeer), "warmup-marker")
	}
	return nil
}

// marker publishes a well-formed marker metric and waits until the monitor shows it.
func (ln *recvLane) marker(name string, idx int, timeout time.Duration) bool {
	val := strconv.Itoa(idx)
	m := &api.Metric{Name: name, Peer: common.PeerN(markerPeer), Value: val, Valid: true, Expire: time.Now().Add(3 * time.Hour).UnixNano()}
	if err := ln.topic.Publish(context.Background(), msgpackEnc(m)); err != nil {
		return false
	}
	deadline := time.Now().Add(timeout)
	for {
		if l := ln.mon.VerifStore().PeerLatest(name, common.PeerN(markerPeer)); l != nil && l.Value == val {
			return true
		}
		if time.Now().After(deadline) {
			return false
		}
		time.Sleep(200 * time.Microsecond)
	}
}

// ---------------------------------------------------------------- running a case

func (nt *recvNet) runOnce(c tcase) hrun {
	ctx := context.Background()
	serial := atomic.AddInt64(&nt.serial, 1)
	name := func(n int) string { return fmt.Sprintf("case%d-m%d", serial, n) }
	markerName := fmt.Sprintf("case%d-marker", serial)
	ln := nt.lane(c)
	mon, store := ln.mon, ln.mon.VerifStore()
	type key struct {
		name string
		p    peer.ID
	}
	var keys []key
	defer func() {
		// leave the monitor as it was found
		for _, k := range keys {
			store.RemovePeerMetrics(k.p, k.name)
		}
		store.RemovePeerMetrics(common.PeerN(markerPeer), markerName)
		for drained := false; !drained; {
			select {
			case <-mon.Alerts():
			default:
				drained = true
			}
		}
		if left := store.AllMetrics(); len(left) > 0 {
			ln.leaks++
			for _, m := range left {
				fmt.Fprintf(os.Stderr, "c09 recv: case %d (%s) left the key (%q, %q) behind\n", serial, c.input(), m.Name, string(m.Peer))
				store.RemovePeerMetrics(m.Peer, m.Name)
			}
		}
	}()
	return execHistory(c, &henv{
		store:   store,
		checker: mon.VerifChecker(),
		name:    name,
		query:   func(n int, _ peerset) []*api.Metric { return mon.LatestMetrics(ctx, name(n)) },
		setPS:   ln.setPS,
		arrive: func(m *api.Metric) {
			if err := mon.LogMetric(ctx, m); err != nil {
				panic(err)
			}
		},
		touched: func(n string, p peer.ID, _ bool) { keys = append(keys, key{n, p}) },
		recv: func(o op, idx int, m *api.Metric) bool {
			var before int64
			if l := store.PeerLatest(m.Name, m.Peer); l != nil {
				before = l.ReceivedAt
			}
			if err := ln.topic.Publish(ctx, encodeVariant(o.vr, m)); err != nil {
				return false
			}
			if !ln.marker(markerName, idx, 5*time.Second) {
				return false
			}
			time.Sleep(15 * time.Millisecond) // the validation workers of pubsub may have reordered the two
			vr := o.vr
			if strings.HasPrefix(vr, "tr") {
				vr = "tr"
			}
			s := ln.stats[vr]
			if l := store.PeerLatest(m.Name, m.Peer); l != nil && l.ReceivedAt != before && l.Value == m.Value {
				s[0]++
			} else {
				s[1]++
			}
			ln.stats[vr] = s
			return true
		},
	})
}

// samplesOK: an orc=T case must stay below 6 samples per key (see the head of the file).
func samplesOK(c tcase) bool {
	if c.orc == 'F' {
		return true
	}
	cnt := map[[2]int]int{}
	for _, o := range c.ops {
		if o.kind != 'a' && o.kind != 'w' {
			continue
		}
		k := [2]int{o.n, o.p}
		if o.kind == 'w' && zeroVariant(o.vr) {
			k = [2]int{zeroNameIdx, zeroPeerIdx}
		}
		if cnt[k]++; cnt[k] >= 6 {
			return false
		}
	}
	return true
}

func recvCaseOK(c tcase) bool {
	if c.cap != 25 || (c.orc != 'T' && c.orc != 'F') {
		return false
	}
	for _, o := range c.ops {
		if o.kind == 's' && (c.ps0.kind == 'n') != (o.ps.kind == 'n') {
			return false
		}
	}
	return true
}

// line runs the case twice (fresh names); a third run decides when the two differ.
func (nt *recvNet) line(c tcase) string {
	st := &nt.lane(c).st
	if !samplesOK(c) {
		st.inconclusive++
		return "# inconclusive recv " + c.input() + " (orc=T with 6 samples on a key cannot be run on a real monitor)"
	}
	var outs []string
	for attempt := 0; attempt < 3; attempt++ {
		st.runs++
		r := nt.runOnce(c)
		if !r.ok || !r.clean {
			st.unclean++
			continue
		}
		for _, o := range outs {
			if o == r.out {
				return c.input() + " => " + r.out
			}
		}
		if len(outs) > 0 {
			st.unclean++ // two runs disagreed
			fmt.Fprintf(os.Stderr, "c09 recv: two runs disagree: %s => %s | %s\n", c.input(), outs[len(outs)-1], r.out)
		}
		outs = append(outs, r.out)
	}
	st.inconclusive++
	return "# inconclusive recv " + c.input()
}

func runRecvSuite(a common.Args, out *common.Out) {
	start := time.Now()
	nt, err := newRecvNet()
	if err != nil {
		out.Line("# inconclusive recv suite: could not build the libp2p hosts + pubsub in this sandbox")
		fmt.Fprintln(os.Stderr, err)
		return
	}
	if err := nt.waitMesh(); err != nil {
		out.Line("# inconclusive recv suite: pubsub mesh did not form")
		return
	}
	fmt.Fprintf(os.Stderr, "c09 recv: mesh ready after %.1fs\n", time.Since(start).Seconds())
	var cases []tcase
	if a.Extra["stdin"] != "" {
		cases = stdinCases(false, recvCaseOK)
	} else {
		total := a.N
		if total < 0 {
			total = 150
			if a.Tier == "thorough" {
				total = 1500
			}
		}
		root := common.NewRng(common.Seed())
		for k := 0; k < total; k++ {
			if a.Only >= 0 && k != a.Only {
				continue
			}
			cases = append(cases, genRecv(root.Fork(uint64(k))))
		}
	}
	// each monitor works through its cases in order; the lines come out in case order
	lines := make([]string, len(cases))
	done := make([]chan struct{}, len(cases))
	for i := range done {
		done[i] = make(chan struct{})
	}
	for _, ln := range nt.all {
		go func(ln *recvLane) {
			for i, c := range cases {
				if nt.lane(c) == ln {
					lines[i] = nt.line(c)
					close(done[i])
				}
			}
		}(ln)
	}
	for i := range cases {
		<-done[i]
		out.Line("%s", lines[i])
		if i%16 == 15 {
			out.Flush()
		}
	}
	st := &suiteStats{}
	stats := map[string][2]int{}
	leaks := 0
	for _, ln := range nt.all {
		st.runs += ln.st.runs
		st.unclean += ln.st.unclean
		st.inconclusive += ln.st.inconclusive
		leaks += ln.leaks
		for v, s := range ln.stats {
			stats[v] = [2]int{stats[v][0] + s[0], stats[v][1] + s[1]}
		}
	}
	st.report("recv", len(cases), start)
	var vs []string
	for v := range stats {
		vs = append(vs, v)
	}
	sort.Strings(vs)
	var b strings.Builder
	for _, v := range vs {
		fmt.Fprintf(&b, " %s=%d/%d", v, stats[v][0], stats[v][1])
	}
	fmt.Fprintf(os.Stderr, "c09 recv: payloads stored/not stored by variant:%s\n", b.String())
	if leaks > 0 {
		fmt.Fprintf(os.Stderr, "c09 recv: %d times a case left keys outside its universe in a store\n", leaks)
	}
}

// ---------------------------------------------------------------- generation

func recvVariant(r *common.Rng) string {
	x := r.Intn(100)
	switch {
	case x < 40:
		return "ok"
	case x < 60:
		return []string{"fu", "ex", "xx", "ar"}[(x-40)/5]
	case x < 66:
		return "tr" + strconv.Itoa(r.Intn(100))
	case x < 96:
		return []string{"em", "ju", "st", "tn", "tp", "tv", "te", "td", "tt", "bp"}[(x-66)/3]
	}
	return []string{"ni", "ma", "a0"}[r.Intn(3)]
}

func genRecv(r *common.Rng) tcase {
	c := tcase{cap: 25, orc: "TF"[r.Intn(2)]}
	nNames, nPeers := r.Range(1, 2), r.Range(1, 3)
	senders := nPeers // peers 0..nPeers-1 are members of some peersets; sometimes one more peer sends and is a member of none
	if r.Chance(1, 3) {
		senders++
	}
	known := func() peerset {
		var l []int
		for p := 0; p < nPeers; p++ {
			if r.Chance(4, 5) {
				l = append(l, p)
			}
		}
		if r.Chance(1, 6) {
			l = append(l, senders+1) // a member that never sends
		}
		for i := len(l) - 1; i > 0; i-- {
			j := r.Intn(i + 1)
			l[i], l[j] = l[j], l[i]
		}
		return peerset{kind: 'k', l: l}
	}
	switch x := r.Intn(20); {
	case x < 5:
		c.ps0 = peerset{kind: 'n'}
	case x < 7:
		c.ps0 = peerset{kind: 'e'}
	default:
		c.ps0 = known()
	}
	cur := c.ps0
	cnt := map[[2]int]int{}
	room := func(n, p int) bool { return c.orc == 'F' || cnt[[2]int{n, p}] < 4 } // the last arrival of the case is the 5th at most
	hotN, hotP := r.Intn(nNames), r.Intn(senders)
	hot := r.Range(0, 60)
	if c.orc == 'F' && r.Chance(1, 3) {
		hot = 90 // let a key reach the accrual branch
	}
	vk := func(o *op) {
		o.valid = !r.Chance(15, 100)
		if r.Chance(30, 100) {
			o.ek = "eez"[r.Intn(3)]
		} else {
			o.ek = "ffffm"[r.Intn(5)]
		}
	}
	arrival := func() (op, bool) {
		o := op{kind: 'w'}
		if r.Chance(15, 100) {
			o.kind = 'a'
		} else {
			o.vr = recvVariant(r)
		}
		if o.kind == 'w' && zeroVariant(o.vr) {
			o.n, o.p, o.ek = zeroNameIdx, zeroPeerIdx, 'z'
			if !room(o.n, o.p) {
				return o, false
			}
			cnt[[2]int{o.n, o.p}]++
			return o, true
		}
		o.n, o.p = r.Intn(nNames), r.Intn(senders)
		if r.Chance(hot, 100) {
			o.n, o.p = hotN, hotP
		}
		vk(&o)
		if !room(o.n, o.p) {
			return o, false
		}
		cnt[[2]int{o.n, o.p}]++
		return o, true
	}
	length := r.Range(4, 20) - 3 // the body; up to three more operations close the case
	if length < 2 {
		length = 2
	}
	if r.Chance(1, 12) { // a metric that expires while the case runs
		n, p := r.Intn(nNames), r.Intn(nPeers)
		ttl := r.Range(400, 600)
		cnt[[2]int{n, p}]++
		c.ops = append(c.ops,
			op{kind: 'w', vr: []string{"ok", "ok", "ar", "xx"}[r.Intn(4)], n: n, p: p, valid: true, ek: '@', exp: 1000 + ttl},
			op{kind: 'q', n: n}, op{kind: 'k', list: []int{p}},
			op{kind: '+', d: ttl + r.Range(150, 250)},
			op{kind: 'q', n: n}, op{kind: 'k', list: []int{p}})
		if r.Bool() {
			c.ops = append(c.ops, op{kind: 't'})
		}
	}
	sinceQ := 0
	for len(c.ops) < length {
		x := r.Intn(100)
		var o op
		switch {
		case x < 50 && sinceQ < 4:
			var ok bool
			if o, ok = arrival(); !ok {
				continue
			}
			sinceQ++
		case x < 72:
			o = op{kind: 'q', n: r.Intn(nNames)}
			sinceQ = 0
		case x < 80:
			o = op{kind: 't'}
		case x < 88:
			o = op{kind: 'k'}
			for i := r.Range(0, senders); i > 0; i-- {
				o.list = append(o.list, r.Intn(senders+1))
			}
		case x < 95:
			if c.ps0.kind == 'n' {
				continue
			}
			o = op{kind: 's', ps: known()}
			if r.Chance(1, 5) {
				o.ps = peerset{kind: 'e'}
			}
			cur = o.ps
		case x < 97:
			o = op{kind: 'r', p: r.Intn(senders)}
		default:
			o = op{kind: 'x', n: r.Intn(nNames), p: r.Intn(senders)}
		}
		c.ops = append(c.ops, o)
	}
	// the monitor still works: a well-formed fresh valid metric of a member is seen
	n, p := r.Intn(nNames), r.Intn(nPeers)
	for try := 0; try < 8 && !room(n, p); try++ {
		n, p = r.Intn(nNames), r.Intn(nPeers)
	}
	member := cur.kind == 'n'
	if cur.kind == 'k' {
		for _, x := range cur.l {
			if x == p {
				member = true
			}
		}
	}
	if !member {
		ps := known()
		ps.l = append(ps.l, p)
		c.ops = append(c.ops, op{kind: 's', ps: ps})
	}
	c.ops = append(c.ops, op{kind: 'w', vr: "ok", n: n, p: p, valid: true, ek: 'f'}, op{kind: 'q', n: n})
	return c
}
