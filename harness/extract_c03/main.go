// extract_c03 regenerates lean/ClusterVerif/Gen/C03.lean from /repo/allocate.go
// and /repo/cluster_config.go: the decision skeleton of allocate() and
// obtainAllocations() (order of the classification cases, the definitions of
// needed / wanted, the guards and what each returns) and of
// isReplicationFactorValid, as normalised source strings. Its standard output
// is the Lean file; Props/C03.lean compares the strings with the skeleton the
// model was written from.
package main

import (
	"bytes"
	"fmt"
	"go/ast"
	"go/parser"
	"go/printer"
	"go/token"
	"os"
	"path/filepath"
	"regexp"
	"strings"
)

var fset = token.NewFileSet()

var strLit = regexp.MustCompile(`"(\\.|[^"\\])*"`)

// src prints a node on one line; string literals (log and error texts) are
// reduced to S so that rewording a message does not break the tie.
func src(n ast.Node) string {
	var b bytes.Buffer
	printer.Fprint(&b, fset, n)
	return strLit.ReplaceAllString(strings.Join(strings.Fields(b.String()), " "), "S")
}

func fail(msg string) {
	fmt.Fprintln(os.Stderr, "extract_c03:", msg)
	os.Exit(1)
}

func funcDecl(f *ast.File, name string) *ast.FuncDecl {
	for _, d := range f.Decls {
		if fd, ok := d.(*ast.FuncDecl); ok && fd.Name.Name == name {
			return fd
		}
	}
	fail("function not found: " + name)
	return nil
}

func isLog(s ast.Stmt) bool {
	es, ok := s.(*ast.ExprStmt)
	if !ok {
		return false
	}
	call, ok := es.X.(*ast.CallExpr)
	if !ok {
		return false
	}
	sel, ok := call.Fun.(*ast.SelectorExpr)
	if !ok {
		return false
	}
	id, ok := sel.X.(*ast.Ident)
	return ok && id.Name == "logger"
}

// lastReturn gives the normalised return statement ending a block; for a
// block that does not return, its statements (logging left out).
func lastReturn(b *ast.BlockStmt) string {
	if len(b.List) == 0 {
		return "{}"
	}
	if r, ok := b.List[len(b.List)-1].(*ast.ReturnStmt); ok {
		return src(r)
	}
	var l []string
	for _, s := range b.List {
		if !isLog(s) {
			l = append(l, src(s))
		}
	}
	return "{ " + strings.Join(l, "; ") + " }"
}

// skeleton lists, in order, the top-level statements of a function body that
// decide its result: definitions `x := e` of the named variables, every
// `if cond { ... return r }` as "if cond => r", and the final return.
func skeleton(fd *ast.FuncDecl, vars map[string]bool) []string {
	var out []string
	for _, s := range fd.Body.List {
		switch st := s.(type) {
		case *ast.AssignStmt:
			if len(st.Lhs) == 1 {
				if id, ok := st.Lhs[0].(*ast.Ident); ok && vars[id.Name] {
					out = append(out, src(st))
				}
			}
		case *ast.IfStmt:
			head := "if "
			if st.Init != nil {
				head += src(st.Init) + "; "
			}
			out = append(out, head+src(st.Cond)+" => "+lastReturn(st.Body))
			if st.Else != nil {
				out = append(out, "else "+src(st.Else))
			}
		case *ast.ReturnStmt:
			out = append(out, src(st))
		}
	}
	return out
}

func lean(s string) string {
	return `"` + strings.ReplaceAll(strings.ReplaceAll(s, `\`, `\\`), `"`, `\"`) + `"`
}

func leanList(name, doc string, l []string) string {
	var b strings.Builder
	fmt.Fprintf(&b, "/-- %s -/\ndef %s : List String := [\n", doc, name)
	for i, s := range l {
		sep := ","
		if i == len(l)-1 {
			sep = ""
		}
		fmt.Fprintf(&b, "  %s%s\n", lean(s), sep)
	}
	b.WriteString("]\n\n")
	return b.String()
}

func main() {
	repo := os.Getenv("VERIF_REPO")
	if repo == "" {
		repo = "/repo"
	}
	parse := func(name string) *ast.File {
		f, err := parser.ParseFile(fset, filepath.Join(repo, name), nil, 0)
		if err != nil {
			fail(err.Error())
		}
		return f
	}
	allocF, cfgF := parse("allocate.go"), parse("cluster_config.go")

	// allocate(): early exits, then the classification switch inside `for _, m := range metrics`
	alloc := funcDecl(allocF, "allocate")
	var cases []string
	early := skeleton(alloc, map[string]bool{"metrics": true, "currentAllocs": true})
	for _, s := range alloc.Body.List {
		switch st := s.(type) {
		case *ast.RangeStmt:
			if src(st.X) != "metrics" {
				continue
			}
			for _, bs := range st.Body.List {
				sw, ok := bs.(*ast.SwitchStmt)
				if !ok {
					if !isLog(bs) {
						fail("unexpected statement in the metrics loop: " + src(bs))
					}
					continue
				}
				if sw.Tag != nil || sw.Init != nil {
					fail("classification switch has a tag or init")
				}
				for _, c := range sw.Body.List {
					cc := c.(*ast.CaseClause)
					cond := "default"
					if len(cc.List) > 0 {
						var parts []string
						for _, e := range cc.List {
							parts = append(parts, src(e))
						}
						cond = strings.Join(parts, " , ")
					}
					var body []string
					for _, b := range cc.Body {
						body = append(body, src(b))
					}
					cases = append(cases, cond+" => "+strings.Join(body, "; "))
				}
			}
		}
	}
	if len(cases) == 0 {
		fail("classification switch not found in allocate()")
	}

	obtain := funcDecl(allocF, "obtainAllocations")
	oSk := skeleton(obtain, map[string]bool{"nCurrentValid": true, "nCandidatesValid": true, "needed": true, "wanted": true,
		"allocationsToUse": true})

	valid := funcDecl(cfgF, "isReplicationFactorValid")
	vSk := skeleton(valid, map[string]bool{})

	// the shipped allocators and the numeric sorter they share: small enough to take whole
	whole := func(f *ast.File, recv, name string) []string {
		for _, d := range f.Decls {
			fd, ok := d.(*ast.FuncDecl)
			if !ok || fd.Name.Name != name {
				continue
			}
			if recv != "" && (fd.Recv == nil || len(fd.Recv.List) != 1 || src(fd.Recv.List[0].Type) != recv) {
				continue
			}
			var l []string
			for _, st := range fd.Body.List {
				if !isLog(st) {
					l = append(l, src(st))
				}
			}
			return l
		}
		fail("function not found: " + recv + "." + name)
		return nil
	}
	ascF := parse("allocator/ascendalloc/ascendalloc.go")
	descF := parse("allocator/descendalloc/descendalloc.go")
	sortF := parse("allocator/util/metricsorter.go")

	var b strings.Builder
	b.WriteString("/- GENERATED by harness/extract_c03 from allocate.go and cluster_config.go; do not edit. -/\nnamespace CV.C03.Gen\n\n")
	b.WriteString(leanList("allocateSkeleton", "allocate(): guards, where the metrics come from, and how the result of obtainAllocations is returned", early))
	b.WriteString(leanList("classification", "allocate(): the cases, in order, that sort each valid metric into blacklisted / current / priority / candidate", cases))
	b.WriteString(leanList("obtainSkeleton", "obtainAllocations(): definitions, guards (with what they return) and the final return, in order", oSk))
	b.WriteString(leanList("validSkeleton", "isReplicationFactorValid(): guards and results, in order", vSk))
	b.WriteString(leanList("ascendAllocate", "ascendalloc.Allocate, whole", whole(ascF, "AscendAllocator", "Allocate")))
	b.WriteString(leanList("descendAllocate", "descendalloc.Allocate, whole", whole(descF, "DescendAllocator", "Allocate")))
	b.WriteString(leanList("sortNumeric", "util.SortNumeric, whole", whole(sortF, "", "SortNumeric")))
	b.WriteString(leanList("sorterLess", "metricSorter.Less, whole", whole(sortF, "metricSorter", "Less")))
	b.WriteString("end CV.C03.Gen\n")
	fmt.Print(b.String())
}
