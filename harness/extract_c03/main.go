// extract_c03 regenerates lean/ClusterVerif/Gen/C03.lean from /repo/allocate.go
// and /repo/cluster_config.go: the decision skeleton of allocate() and
// obtainAllocations() (order of the classification cases, the definitions of
// needed / wanted, the guards and what each returns) and of
// isReplicationFactorValid, as normalised source strings. Its standard output
// is the Lean file; Props/C03.lean compares the strings with the skeleton the
// model was written from.
package main

import (
	"bytes"
	"fmt"
	"go/ast"
	"go/parser"
	"go/printer"
	"go/token"
	"os"
	"path/filepath"
	"regexp"
	"strings"
)

var fset = token.NewFileSet()

var strLit = regexp.MustCompile(`"(\\.|[^"\\])*"`)

// src prints a node on one line; string literals (log and error texts) are
// reduced to S so that rewording a message does not break the tie.
func src(n ast.Node) string {
	var b bytes.Buffer
	printer.Fprint(&b, fset, n)
	return strLit.ReplaceAllString(strings.Join(strings.Fields(b.String()), " "), "S")
}

func fail(msg string) {
	fmt.Fprintln(os.Stderr, "extract_c03:", msg)
	os.Exit(1)
}

func funcDecl(f *ast.File, name string) *ast.FuncDecl {
	for _, d := range f.Decls {
		if fd, ok := d.(*ast.FuncDecl); ok && fd.Name.Name == name {
			return fd
		}
	}
	fail("function not found: " + name)
	return nil
}

func funcDeclRecv(f *ast.File, recv, name string) *ast.FuncDecl {
	for _, d := range f.Decls {
		if fd, ok := d.(*ast.FuncDecl); ok && fd.Name.Name == name && fd.Recv != nil && len(fd.Recv.List) == 1 && src(fd.Recv.List[0].Type) == recv {
			return fd
		}
	}
	fail("method not found: " + recv + "." + name)
	return nil
}

func isLog(s ast.Stmt) bool {
	es, ok := s.(*ast.ExprStmt)
	if !ok {
		return false
	}
	call, ok := es.X.(*ast.CallExpr)
	if !ok {
		return false
	}
	sel, ok := call.Fun.(*ast.SelectorExpr)
	if !ok {
		return false
	}
	id, ok := sel.X.(*ast.Ident)
	return ok && id.Name == "logger"
}

// lastReturn gives the normalised return statement ending a block; for a
// block that does not return, its statements (logging left out).
func lastReturn(b *ast.BlockStmt) string {
	if len(b.List) == 0 {
		return "{}"
	}
	if r, ok := b.List[len(b.List)-1].(*ast.ReturnStmt); ok {
		return src(r)
	}
	var l []string
	for _, s := range b.List {
		if !isLog(s) {
			l = append(l, src(s))
		}
	}
	return "{ " + strings.Join(l, "; ") + " }"
}

// skeleton lists, in order, the top-level statements of a function body that
// decide its result: definitions `x := e` of the named variables, every
// `if cond { ... return r }` as "if cond => r", and the final return.
func skeleton(fd *ast.FuncDecl, vars map[string]bool) []string {
	var out []string
	for _, s := range fd.Body.List {
		switch st := s.(type) {
		case *ast.AssignStmt:
			if len(st.Lhs) == 1 {
				if id, ok := st.Lhs[0].(*ast.Ident); ok && vars[id.Name] {
					out = append(out, src(st))
				}
			}
		case *ast.IfStmt:
			head := "if "
			if st.Init != nil {
				head += src(st.Init) + "; "
			}
			out = append(out, head+src(st.Cond)+" => "+lastReturn(st.Body))
			if st.Else != nil {
				out = append(out, "else "+src(st.Else))
			}
		case *ast.ReturnStmt:
			out = append(out, src(st))
		}
	}
	return out
}


var whichOf = map[string]string{"blacklist": ".blacklist", "currentAllocs": ".current", "prioritylist": ".priority"}
var destOf = map[string]string{"currentMetrics": ".current", "priorityMetrics": ".priority", "candidatesMetrics": ".candidate"}

// guardOf recognises `containsPeer(<list>, m.Peer)`.
func guardOf(e ast.Expr) string {
	call, ok := e.(*ast.CallExpr)
	if !ok || src(call.Fun) != "containsPeer" || len(call.Args) != 2 || src(call.Args[1]) != "m.Peer" {
		return ".other"
	}
	if w, ok := whichOf[src(call.Args[0])]; ok {
		return "(.inList " + w + ")"
	}
	return ".other"
}

// destOfBody recognises `continue` and `<group>Metrics[m.Peer] = m`.
func destOfBody(body []ast.Stmt) string {
	var l []ast.Stmt
	for _, b := range body {
		if !isLog(b) {
			l = append(l, b)
		}
	}
	if len(l) != 1 {
		return ".other"
	}
	switch st := l[0].(type) {
	case *ast.BranchStmt:
		if st.Tok == token.CONTINUE && st.Label == nil {
			return ".skip"
		}
	case *ast.AssignStmt:
		if len(st.Lhs) == 1 && len(st.Rhs) == 1 && st.Tok == token.ASSIGN && src(st.Rhs[0]) == "m" {
			if ix, ok := st.Lhs[0].(*ast.IndexExpr); ok && src(ix.Index) == "m.Peer" {
				if d, ok := destOf[src(ix.X)]; ok {
					return d
				}
			}
		}
	}
	return ".other"
}

// classification gives the lines of the loop that files each metric (for the text tie) and its shape as a
// Lean `Classifier`: a tag-less switch of containsPeer guards, or a lookup map filled list by list before the
// loop (`for _, p := range <list> { dest[p] = <group> }`, later fills overwrite), or unknown.
func classification(alloc *ast.FuncDecl) ([]string, string) {
	var lines []string
	shape := "Classifier.unknown"
	type fill struct{ m, which, dest string }
	var fills []fill
	for _, s := range alloc.Body.List {
		st, ok := s.(*ast.RangeStmt)
		if !ok {
			continue
		}
		if src(st.X) != "metrics" {
			// a fill loop of a lookup map?
			if w, ok := whichOf[src(st.X)]; ok && st.Value != nil && len(st.Body.List) == 1 {
				if as, ok := st.Body.List[0].(*ast.AssignStmt); ok && len(as.Lhs) == 1 && len(as.Rhs) == 1 {
					if ix, ok := as.Lhs[0].(*ast.IndexExpr); ok && src(ix.Index) == src(st.Value) {
						d := ".other"
						if src(as.Rhs[0]) == "nil" {
							d = ".skip"
						} else if x, ok := destOf[src(as.Rhs[0])]; ok {
							d = x
						}
						fills = append(fills, fill{src(ix.X), w, d})
						lines = append(lines, "fill "+src(st.X)+" => "+src(as))
					}
				}
			}
			continue
		}
		var body []ast.Stmt
		for _, bs := range st.Body.List {
			if !isLog(bs) {
				body = append(body, bs)
			}
		}
		if len(body) == 1 {
			if sw, ok := body[0].(*ast.SwitchStmt); ok && sw.Tag == nil && sw.Init == nil {
				var cs []string
				for _, c := range sw.Body.List {
					cc := c.(*ast.CaseClause)
					cond, g := "default", ".default"
					if len(cc.List) > 0 {
						var parts []string
						for _, e := range cc.List {
							parts = append(parts, src(e))
						}
						cond = strings.Join(parts, " , ")
						g = ".other"
						if len(cc.List) == 1 {
							g = guardOf(cc.List[0])
						}
					}
					var bl []string
					for _, b := range cc.Body {
						bl = append(bl, src(b))
					}
					lines = append(lines, cond+" => "+strings.Join(bl, "; "))
					cs = append(cs, "("+g+", "+destOfBody(cc.Body)+")")
				}
				shape = "Classifier.switch [" + strings.Join(cs, ", ") + "]"
				continue
			}
		}
		// not a plain switch: print the body; recognise the lookup-map form
		for _, bs := range body {
			lines = append(lines, src(bs))
		}
		if len(body) == 2 && len(fills) > 0 {
			as, ok1 := body[0].(*ast.AssignStmt)
			sw, ok2 := body[1].(*ast.SwitchStmt)
			if ok1 && ok2 && len(as.Lhs) == 2 && len(as.Rhs) == 1 && sw.Tag == nil && sw.Init == nil && len(sw.Body.List) == 2 {
				d, listed := src(as.Lhs[0]), src(as.Lhs[1])
				same := true
				for _, f := range fills {
					if src(as.Rhs[0]) != f.m+"[m.Peer]" {
						same = false
					}
				}
				c0, c1 := sw.Body.List[0].(*ast.CaseClause), sw.Body.List[1].(*ast.CaseClause)
				if same && len(c0.List) == 1 && src(c0.List[0]) == "!"+listed && destOfBody(c0.Body) == ".candidate" &&
					len(c1.List) == 1 && src(c1.List[0]) == d+" != nil" && len(c1.Body) == 1 && src(c1.Body[0]) == d+"[m.Peer] = m" {
					var fs []string
					for _, f := range fills {
						fs = append(fs, "("+f.which+", "+f.dest+")")
					}
					shape = "Classifier.lookup [" + strings.Join(fs, ", ") + "] .candidate"
				}
			}
		}
	}
	return lines, shape
}

var cmpOf = map[token.Token][2]string{token.LSS: {".lt", ".gt"}, token.GTR: {".gt", ".lt"}, token.LEQ: {".le", ".ge"}, token.GEQ: {".ge", ".le"}}

// cmpExpr recognises `x OP y` (or `y OP x`, flipped).
func cmpExpr(e ast.Expr) string {
	b, ok := e.(*ast.BinaryExpr)
	if !ok {
		return ".other"
	}
	c, ok := cmpOf[b.Op]
	if !ok {
		return ".other"
	}
	switch src(b.X) + " " + src(b.Y) {
	case "x y":
		return c[0]
	case "y x":
		return c[1]
	}
	return ".other"
}

// sortShape reads SortNumeric's loop (which guards skip a metric, how the value is parsed) and Less (the comparison per direction).
func sortShape(sortFn, less *ast.FuncDecl) string {
	skipD, skipU, base, bits := "false", "false", "0", "0"
	for _, s := range sortFn.Body.List {
		rs, ok := s.(*ast.RangeStmt)
		if !ok || src(rs.X) != "candidates" {
			continue
		}
		parsed := false
		for _, b := range rs.Body.List {
			switch st := b.(type) {
			case *ast.IfStmt:
				cont := len(st.Body.List) == 1 && src(st.Body.List[0]) == "continue" && st.Else == nil && st.Init == nil
				if cont && src(st.Cond) == src(rs.Value)+".Discard()" && !parsed {
					skipD = "true"
				}
				if cont && src(st.Cond) == "err != nil" && parsed {
					skipU = "true"
				}
			case *ast.AssignStmt:
				if len(st.Rhs) == 1 {
					if c, ok := st.Rhs[0].(*ast.CallExpr); ok && src(c.Fun) == "strconv.ParseUint" && len(c.Args) == 3 &&
						src(c.Args[0]) == src(rs.Value)+".Value" && src(st.Lhs[0]) == "val" {
						base, bits, parsed = src(c.Args[1]), src(c.Args[2]), true
					}
				}
			}
		}
	}
	fwd, rev := ".other", ".other"
	defs := map[string]string{}
	for _, s := range less.Body.List {
		switch st := s.(type) {
		case *ast.AssignStmt:
			if len(st.Lhs) == 1 && len(st.Rhs) == 1 {
				defs[src(st.Lhs[0])] = src(st.Rhs[0])
			}
		case *ast.IfStmt:
			if src(st.Cond) == "s.reverse" && len(st.Body.List) == 1 && st.Else == nil {
				if r, ok := st.Body.List[0].(*ast.ReturnStmt); ok && len(r.Results) == 1 {
					rev = cmpExpr(r.Results[0])
				}
			}
		case *ast.ReturnStmt:
			if len(st.Results) == 1 {
				fwd = cmpExpr(st.Results[0])
			}
		}
	}
	if defs["peeri"] != "s.peers[i]" || defs["peerj"] != "s.peers[j]" || defs["x"] != "s.m[peeri]" || defs["y"] != "s.m[peerj]" {
		fwd, rev = ".other", ".other"
	}
	return fmt.Sprintf("{ skipDiscarded := %s, skipUnparsable := %s, base := %s, bits := %s, forward := %s, reverse := %s }",
		skipD, skipU, base, bits, fwd, rev)
}

// ---- round 8: semantic shapes of the shipped allocators, of the allocator call in obtainAllocations and of repinFromPeer ----

// paramNames lists a function's parameter names in order.
func paramNames(fd *ast.FuncDecl) []string {
	var l []string
	for _, f := range fd.Type.Params.List {
		for _, n := range f.Names {
			l = append(l, n.Name)
		}
	}
	return l
}

var grpByPos = []string{".current", ".candidates", ".priority"}

// allocShape reads `Allocate(ctx, c, current, candidates, priority)`: every statement must be
// `v := util.SortNumeric(<map parameter>, true|false)` or the final `return append(a, b...), nil` /
// `return append(append(a, b...), c...), nil` over such values. The map parameters are resolved BY POSITION in the
// signature (what the PinAllocator interface fixes), not by name. Anything else: AllocShape.unknown.
func allocShape(fd *ast.FuncDecl) string {
	ps := paramNames(fd)
	if len(ps) != 5 {
		return "AllocShape.unknown"
	}
	grp := map[string]string{}
	for k := 0; k < 3; k++ {
		if ps[2+k] != "_" {
			grp[ps[2+k]] = grpByPos[k]
		}
	}
	sortCall := func(e ast.Expr) (string, bool) {
		c, ok := e.(*ast.CallExpr)
		if !ok || src(c.Fun) != "util.SortNumeric" || len(c.Args) != 2 {
			return "", false
		}
		id, ok := c.Args[0].(*ast.Ident)
		if !ok || grp[id.Name] == "" {
			return "", false
		}
		rev := src(c.Args[1])
		if rev != "true" && rev != "false" {
			return "", false
		}
		return fmt.Sprintf("{ grp := %s, reverse := %s }", grp[id.Name], rev), true
	}
	vals := map[string][]string{}
	var value func(e ast.Expr) ([]string, bool)
	value = func(e ast.Expr) ([]string, bool) {
		if id, ok := e.(*ast.Ident); ok {
			v, ok := vals[id.Name]
			return v, ok
		}
		if s, ok := sortCall(e); ok {
			return []string{s}, true
		}
		if c, ok := e.(*ast.CallExpr); ok && src(c.Fun) == "append" && len(c.Args) == 2 && c.Ellipsis.IsValid() {
			a, ok1 := value(c.Args[0])
			b, ok2 := value(c.Args[1])
			if ok1 && ok2 {
				return append(append([]string{}, a...), b...), true
			}
		}
		return nil, false
	}
	for k, st := range fd.Body.List {
		if isLog(st) {
			continue
		}
		switch s := st.(type) {
		case *ast.AssignStmt:
			if len(s.Lhs) != 1 || len(s.Rhs) != 1 {
				return "AllocShape.unknown"
			}
			id, ok := s.Lhs[0].(*ast.Ident)
			v, ok2 := value(s.Rhs[0])
			if !ok || !ok2 || grp[id.Name] != "" {
				return "AllocShape.unknown"
			}
			vals[id.Name] = v
		case *ast.ReturnStmt:
			if k != len(fd.Body.List)-1 || len(s.Results) != 2 || src(s.Results[1]) != "nil" {
				return "AllocShape.unknown"
			}
			v, ok := value(s.Results[0])
			if !ok {
				return "AllocShape.unknown"
			}
			return "AllocShape.concat [" + strings.Join(v, ", ") + "]"
		default:
			return "AllocShape.unknown"
		}
	}
	return "AllocShape.unknown"
}

// allocatorCallGroups reads the `c.allocator.Allocate(ctx, hash, A, B, C)` call of obtainAllocations: which of
// obtainAllocations' own metric-map parameters (by position: 5th current, 6th candidates, 7th priority; the local
// `currentValidMetrics` is the filtered current map) is handed to which allocator parameter.
func allocatorCallGroups(obtain *ast.FuncDecl) string {
	ps := paramNames(obtain)
	if len(ps) != 7 {
		return "[]"
	}
	grp := map[string]string{ps[4]: ".current", ps[5]: ".candidates", ps[6]: ".priority"}
	// a local map filled only from the current-metrics parameter stands for it
	ast.Inspect(obtain, func(n ast.Node) bool {
		if r, ok := n.(*ast.RangeStmt); ok && src(r.X) == ps[4] {
			ast.Inspect(r.Body, func(m ast.Node) bool {
				if a, ok := m.(*ast.AssignStmt); ok && len(a.Lhs) == 1 {
					if ix, ok := a.Lhs[0].(*ast.IndexExpr); ok {
						if id, ok := ix.X.(*ast.Ident); ok && grp[id.Name] == "" {
							grp[id.Name] = ".current"
						}
					}
				}
				return true
			})
		}
		return true
	})
	var out []string
	n := 0
	ast.Inspect(obtain, func(nd ast.Node) bool {
		if c, ok := nd.(*ast.CallExpr); ok && src(c.Fun) == "c.allocator.Allocate" {
			n++
			if len(c.Args) != 5 {
				return true
			}
			for _, a := range c.Args[2:] {
				id, ok := a.(*ast.Ident)
				if !ok || grp[id.Name] == "" {
					out = nil
					return true
				}
				out = append(out, grp[id.Name])
			}
		}
		return true
	})
	if n != 1 {
		return "[]"
	}
	return "[" + strings.Join(out, ", ") + "]"
}

// repinShape reads repinFromPeer(ctx, p, pin): are the pin's allocations cleared before the call, and is the blacklist
// handed to c.pin exactly the one-element list of the failed peer (2nd parameter, by position); and vacatePeer's loop
// guard (re-pin only pins allocated to the peer).
func repinShape(repin, vacate *ast.FuncDecl) string {
	ps := paramNames(repin)
	if len(ps) != 3 {
		return "{ clearsAllocations := false, blacklistFailed := false, pinsGivenPin := false, vacateGuard := false }"
	}
	failed, pin := ps[1], ps[2]
	clears, bl, given, calls := false, false, false, 0
	for _, st := range repin.Body.List {
		if a, ok := st.(*ast.AssignStmt); ok && len(a.Lhs) == 1 && len(a.Rhs) == 1 && calls == 0 {
			if src(a.Lhs[0]) == pin+".Allocations" && (src(a.Rhs[0]) == "nil" || src(a.Rhs[0]) == "[]peer.ID{}") {
				clears = true
			}
		}
		ast.Inspect(st, func(n ast.Node) bool {
			if c, ok := n.(*ast.CallExpr); ok && src(c.Fun) == "c.pin" && len(c.Args) == 3 {
				calls++
				given = src(c.Args[1]) == pin
				bl = src(c.Args[2]) == "[]peer.ID{"+failed+"}"
			}
			return true
		})
	}
	if calls != 1 {
		clears, bl, given = false, false, false
	}
	vps := paramNames(vacate)
	guard := false
	if len(vps) == 2 {
		ast.Inspect(vacate, func(n ast.Node) bool {
			if r, ok := n.(*ast.RangeStmt); ok && len(r.Body.List) == 1 {
				if ifs, ok := r.Body.List[0].(*ast.IfStmt); ok && ifs.Else == nil && ifs.Init == nil && len(ifs.Body.List) == 1 {
					v := src(r.Value)
					if src(ifs.Cond) == "containsPeer("+v+".Allocations, "+vps[1]+")" &&
						src(ifs.Body.List[0]) == "c.repinFromPeer(ctx, "+vps[1]+", "+v+")" {
						guard = true
					}
				}
			}
			return true
		})
	}
	return fmt.Sprintf("{ clearsAllocations := %v, blacklistFailed := %v, pinsGivenPin := %v, vacateGuard := %v }", clears, bl, given, guard)
}

// ---- round 8b: BlockAllocate as a structure, daemon wiring ----

var bargOf = map[string]string{"ctx": ".ctx", "in.Cid": ".cid", "existing": ".existing", "nil": ".nilPin",
	"in.ReplicationFactorMin": ".rmin", "in.ReplicationFactorMax": ".rmax", "[]peer.ID{}": ".emptyPeers", "in.UserAllocations": ".ualloc"}

var informerIdx = regexp.MustCompile(`^(rpcapi\.)?c\.informers\[(\d+)\]\.Name\(\)$`)

func metricSrc(e ast.Expr) string {
	t := src(e)
	if t == "pingMetricName" {
		return ".ping"
	}
	if m := informerIdx.FindStringSubmatch(t); m != nil {
		return "(.informer " + m[2] + ")"
	}
	return ".other"
}

// blockShape reads ClusterRPCAPI.BlockAllocate statement by statement (fail-closed: any statement it does not expect
// makes noOtherStatements false and the interpretation `none`).
func blockShape(fd *ast.FuncDecl) string {
	var st []ast.Stmt
	for _, s := range fd.Body.List {
		if !isLog(s) {
			st = append(st, s)
		}
	}
	prologue, evField, evMetric, copies, args, returns, nothingElse := false, ".other", ".other", false, []string{}, false, len(st) == 10
	if len(st) >= 5 {
		prologue = src(st[0]) == "if rpcapi.c.config.FollowerMode { return errFollowerMode }" &&
			src(st[1]) == "existing, err := rpcapi.c.PinGet(ctx, in.Cid)" &&
			src(st[2]) == "if err != nil && err != state.ErrNotFound { return err }" &&
			src(st[3]) == "err = rpcapi.c.setupPin(ctx, in, existing)" &&
			src(st[4]) == "if err != nil { return err }"
	}
	for _, s := range st {
		ifs, ok := s.(*ast.IfStmt)
		if !ok || ifs.Init != nil || ifs.Else != nil {
			continue
		}
		be, ok := ifs.Cond.(*ast.BinaryExpr)
		if !ok || be.Op != token.LSS || src(be.Y) != "0" {
			continue
		}
		if f, ok := bargOf[src(be.X)]; ok {
			evField = f
		}
		b := ifs.Body.List
		if len(b) == 5 {
			if a, ok := b[0].(*ast.AssignStmt); ok && len(a.Lhs) == 1 && src(a.Lhs[0]) == "metrics" && len(a.Rhs) == 1 {
				if c, ok := a.Rhs[0].(*ast.CallExpr); ok && src(c.Fun) == "rpcapi.c.monitor.LatestMetrics" && len(c.Args) == 2 {
					evMetric = metricSrc(c.Args[1])
				}
			}
			copies = src(b[1]) == "peers := make([]peer.ID, len(metrics))" &&
				src(b[2]) == "for i, m := range metrics { peers[i] = m.Peer }" &&
				src(b[3]) == "*out = peers" && src(b[4]) == "return nil"
		}
	}
	ncalls := 0
	for k, s := range st {
		a, ok := s.(*ast.AssignStmt)
		if !ok || len(a.Rhs) != 1 {
			continue
		}
		c, ok := a.Rhs[0].(*ast.CallExpr)
		if !ok || src(c.Fun) != "rpcapi.c.allocate" {
			continue
		}
		ncalls++
		args = nil
		for _, x := range c.Args {
			if v, ok := bargOf[src(x)]; ok {
				args = append(args, v)
			} else {
				args = append(args, ".other")
			}
		}
		returns = len(a.Lhs) == 2 && src(a.Lhs[0]) == "allocs" && src(a.Lhs[1]) == "err" && k+3 == len(st)-1 &&
			src(st[k+1]) == "if err != nil { return err }" && src(st[k+2]) == "*out = allocs" && src(st[k+3]) == "return nil"
	}
	if ncalls != 1 {
		nothingElse = false
	}
	return fmt.Sprintf("{ prologue := %v, everywhereField := %s, everywhereMetric := %s, everywhereCopiesPeers := %v,\n    allocArgs := [%s], returnsAllocs := %v, noOtherStatements := %v }",
		prologue, evField, evMetric, copies, strings.Join(args, ", "), returns, nothingElse)
}

var informerPkg = map[string]string{"disk": ".disk", "numpin": ".numpin"}
var allocPkg = map[string]string{"ascendalloc": ".ascend", "descendalloc": ".descend"}

// wiring reads createCluster (daemon.go), the metric allocate() asks for, and the disk informer's default / GetMetric arms.
func wiring(create, alloc *ast.FuncDecl, diskCfg *ast.File, diskGet *ast.FuncDecl) string {
	built := map[string]string{} // local variable -> kind
	infBuilt, allocBuilt := ".other", ".other"
	ast.Inspect(create, func(n ast.Node) bool {
		a, ok := n.(*ast.AssignStmt)
		if !ok || len(a.Rhs) != 1 || len(a.Lhs) < 1 {
			return true
		}
		c, ok := a.Rhs[0].(*ast.CallExpr)
		if !ok {
			return true
		}
		sel, ok := c.Fun.(*ast.SelectorExpr)
		if !ok {
			return true
		}
		switch sel.Sel.Name {
		case "NewInformer":
			if k, ok := informerPkg[src(sel.X)]; ok {
				built[src(a.Lhs[0])] = k
				infBuilt = k
			}
		case "NewAllocator":
			if k, ok := allocPkg[src(sel.X)]; ok {
				built[src(a.Lhs[0])] = k
				allocBuilt = k
			}
		}
		return true
	})
	infArg, allocArg := []string{}, ".other"
	ast.Inspect(create, func(n ast.Node) bool {
		c, ok := n.(*ast.CallExpr)
		if !ok || src(c.Fun) != "ipfscluster.NewCluster" {
			return true
		}
		// NewCluster(ctx, host, dht, cfg, datastore, consensus, apis, ipfs, tracker, monitor, allocator, informers, tracer)
		if len(c.Args) != 13 {
			return true
		}
		if k, ok := built[src(c.Args[10])]; ok && strings.HasPrefix(k, ".") && (k == ".ascend" || k == ".descend") {
			allocArg = k
		}
		if cl, ok := c.Args[11].(*ast.CompositeLit); ok && src(cl.Type) == "[]ipfscluster.Informer" {
			for _, e := range cl.Elts {
				if k, ok := built[src(e)]; ok && (k == ".disk" || k == ".numpin") {
					infArg = append(infArg, k)
				} else {
					infArg = append(infArg, ".other")
				}
			}
		}
		return true
	})
	metric := ".other"
	ast.Inspect(alloc, func(n ast.Node) bool {
		if c, ok := n.(*ast.CallExpr); ok && src(c.Fun) == "c.monitor.LatestMetrics" && len(c.Args) == 2 {
			metric = metricSrc(c.Args[1])
		}
		return true
	})
	dflt := ".other"
	for _, d := range diskCfg.Decls {
		g, ok := d.(*ast.GenDecl)
		if !ok || g.Tok != token.CONST {
			continue
		}
		for _, sp := range g.Specs {
			v := sp.(*ast.ValueSpec)
			for i, nm := range v.Names {
				if nm.Name == "DefaultMetricType" && i < len(v.Values) {
					switch src(v.Values[i]) {
					case "MetricFreeSpace":
						dflt = ".freespace"
					case "MetricRepoSize":
						dflt = ".reposize"
					}
				}
			}
		}
	}
	free, repo := false, false
	ast.Inspect(diskGet, func(n ast.Node) bool {
		cc, ok := n.(*ast.CaseClause)
		if !ok || len(cc.List) != 1 {
			return true
		}
		var body []string
		for _, s := range cc.Body {
			body = append(body, src(s))
		}
		switch src(cc.List[0]) {
		case "MetricFreeSpace":
			free = strings.Join(body, " ; ") == "size := repoStat.RepoSize ; total := repoStat.StorageMax ; if size < total { metric = total - size } else { metric = 0 }"
		case "MetricRepoSize":
			repo = strings.Join(body, " ; ") == "metric = repoStat.RepoSize"
		}
		return true
	})
	return fmt.Sprintf("{ informerBuilt := %s, allocatorBuilt := %s, informersArg := [%s], allocatorArg := %s,\n    allocateMetric := %s, diskDefault := %s, diskFreeIsTotalMinusSize := %v, diskRepoIsSize := %v }",
		infBuilt, allocBuilt, strings.Join(infArg, ", "), allocArg, metric, dflt, free, repo)
}

// daemonLines: the source text of the statements of createCluster that mention informers or allocators
func daemonLines(fd *ast.FuncDecl) []string {
	var l []string
	for _, st := range fd.Body.List {
		t := src(st)
		if strings.Contains(t, "NewInformer") || strings.Contains(t, "NewAllocator") || strings.Contains(t, "NewCluster") {
			l = append(l, t)
		}
	}
	return l
}

func lean(s string) string {
	return `"` + strings.ReplaceAll(strings.ReplaceAll(s, `\`, `\\`), `"`, `\"`) + `"`
}

func leanList(name, doc string, l []string) string {
	var b strings.Builder
	fmt.Fprintf(&b, "/-- %s -/\ndef %s : List String := [\n", doc, name)
	for i, s := range l {
		sep := ","
		if i == len(l)-1 {
			sep = ""
		}
		fmt.Fprintf(&b, "  %s%s\n", lean(s), sep)
	}
	b.WriteString("]\n\n")
	return b.String()
}

func main() {
	repo := os.Getenv("VERIF_REPO")
	if repo == "" {
		repo = "/repo"
	}
	parse := func(name string) *ast.File {
		f, err := parser.ParseFile(fset, filepath.Join(repo, name), nil, 0)
		if err != nil {
			fail(err.Error())
		}
		return f
	}
	allocF, cfgF := parse("allocate.go"), parse("cluster_config.go")

	// allocate(): early exits, then the classification of each metric inside `for _, m := range metrics`
	alloc := funcDecl(allocF, "allocate")
	early := skeleton(alloc, map[string]bool{"metrics": true, "currentAllocs": true})
	cases, classifier := classification(alloc)
	if len(cases) == 0 {
		fail("classification loop not found in allocate()")
	}
	var calls []string
	ast.Inspect(alloc, func(n ast.Node) bool {
		if c, ok := n.(*ast.CallExpr); ok && strings.HasSuffix(src(c.Fun), "obtainAllocations") {
			calls = append(calls, src(c))
		}
		return true
	})

	obtain := funcDecl(allocF, "obtainAllocations")
	oSk := skeleton(obtain, map[string]bool{"nCurrentValid": true, "nCandidatesValid": true, "needed": true, "wanted": true,
		"allocationsToUse": true})

	valid := funcDecl(cfgF, "isReplicationFactorValid")
	vSk := skeleton(valid, map[string]bool{})

	// the shipped allocators and the numeric sorter they share: small enough to take whole
	whole := func(f *ast.File, recv, name string) []string {
		for _, d := range f.Decls {
			fd, ok := d.(*ast.FuncDecl)
			if !ok || fd.Name.Name != name {
				continue
			}
			if recv != "" && (fd.Recv == nil || len(fd.Recv.List) != 1 || src(fd.Recv.List[0].Type) != recv) {
				continue
			}
			var l []string
			for _, st := range fd.Body.List {
				if !isLog(st) {
					l = append(l, src(st))
				}
			}
			return l
		}
		fail("function not found: " + recv + "." + name)
		return nil
	}
	ascF := parse("allocator/ascendalloc/ascendalloc.go")
	descF := parse("allocator/descendalloc/descendalloc.go")
	sortF := parse("allocator/util/metricsorter.go")

	var b strings.Builder
	b.WriteString("/- GENERATED by harness/extract_c03 from allocate.go, cluster_config.go, the allocators, monitor/metrics, pubsubmon, api/types.go, rpc_api.go, cluster.go; do not edit. -/\nimport ClusterVerif.Model.C03Pipeline\nimport ClusterVerif.Model.C03Alloc\nimport ClusterVerif.Model.C03Wiring\nnamespace CV.C03.Gen\n\n")
	b.WriteString(leanList("allocateSkeleton", "allocate(): guards, where the metrics come from, and how the result of obtainAllocations is returned", early))
	b.WriteString(leanList("classification", "allocate(): the cases, in order, that sort each valid metric into blacklisted / current / priority / candidate", cases))
	b.WriteString(leanList("obtainSkeleton", "obtainAllocations(): definitions, guards (with what they return) and the final return, in order", oSk))
	b.WriteString(leanList("validSkeleton", "isReplicationFactorValid(): guards and results, in order", vSk))
	b.WriteString(leanList("ascendAllocate", "ascendalloc.Allocate, whole", whole(ascF, "AscendAllocator", "Allocate")))
	b.WriteString(leanList("descendAllocate", "descendalloc.Allocate, whole", whole(descF, "DescendAllocator", "Allocate")))
	b.WriteString(leanList("sortNumeric", "util.SortNumeric, whole", whole(sortF, "", "SortNumeric")))
	b.WriteString(leanList("sorterLess", "metricSorter.Less, whole", whole(sortF, "metricSorter", "Less")))
	b.WriteString("/-- the shape of the classification loop (first true guard wins / last fill wins) -/\ndef classifier : Classifier := " + classifier + "\n\n")
	b.WriteString("/-- the shape of SortNumeric's loop and of metricSorter.Less -/\ndef sortShape : SortShape := " + sortShape(funcDecl(sortF, "SortNumeric"), funcDeclRecv(sortF, "metricSorter", "Less")) + "\n\n")
	b.WriteString(leanList("obtainCall", "allocate(): which group goes to which parameter of obtainAllocations", calls))
	storeF, utilF, monF, winF, typesF := parse("monitor/metrics/store.go"), parse("monitor/metrics/util.go"), parse("monitor/pubsubmon/pubsubmon.go"), parse("monitor/metrics/window.go"), parse("api/types.go")
	rpcF, clusterF := parse("rpc_api.go"), parse("cluster.go")
	b.WriteString(leanList("storeAdd", "metrics.Store.Add, whole", whole(storeF, "*Store", "Add")))
	b.WriteString(leanList("storeLatestValid", "metrics.Store.LatestValid, whole", whole(storeF, "*Store", "LatestValid")))
	b.WriteString(leanList("peersetFilter", "metrics.PeersetFilter, whole", whole(utilF, "", "PeersetFilter")))
	b.WriteString(leanList("monLatestMetrics", "pubsubmon.Monitor.LatestMetrics, whole (tracing left in)", whole(monF, "*Monitor", "LatestMetrics")))
	b.WriteString(leanList("windowAdd", "metrics.Window.Add, whole", whole(winF, "*Window", "Add")))
	b.WriteString(leanList("windowLatest", "metrics.Window.Latest, whole", whole(winF, "*Window", "Latest")))
	b.WriteString(leanList("metricDiscard", "api.Metric.Discard, whole", whole(typesF, "*Metric", "Discard")))
	b.WriteString(leanList("metricExpired", "api.Metric.Expired, whole", whole(typesF, "*Metric", "Expired")))
	b.WriteString(leanList("blockAllocate", "ClusterRPCAPI.BlockAllocate, whole", whole(rpcF, "*ClusterRPCAPI", "BlockAllocate")))
	var pinCalls []string
	ast.Inspect(funcDeclRecv(clusterF, "*Cluster", "pin"), func(n ast.Node) bool {
		if c, ok := n.(*ast.CallExpr); ok && src(c.Fun) == "c.allocate" {
			pinCalls = append(pinCalls, src(c))
		}
		return true
	})
	b.WriteString(leanList("pinAllocateCall", "Cluster.pin(): the arguments of its allocate() call", pinCalls))
	b.WriteString("/-- ascendalloc.Allocate as a structure: which map parameter (by position) is sorted in which direction, concatenated in which order -/\ndef ascShape : AllocShape := " + allocShape(funcDeclRecv(ascF, "AscendAllocator", "Allocate")) + "\n\n")
	b.WriteString("/-- descendalloc.Allocate as a structure -/\ndef descShape : AllocShape := " + allocShape(funcDeclRecv(descF, "DescendAllocator", "Allocate")) + "\n\n")
	b.WriteString("/-- obtainAllocations(): which of its metric maps goes to which parameter of allocator.Allocate -/\ndef allocatorCallGroups : List Grp := " + allocatorCallGroups(obtain) + "\n\n")
	b.WriteString("/-- repinFromPeer / vacatePeer: how the re-pin request is prepared -/\ndef repinShape : RepinShape := " + repinShape(funcDeclRecv(clusterF, "*Cluster", "repinFromPeer"), funcDeclRecv(clusterF, "*Cluster", "vacatePeer")) + "\n\n")
	b.WriteString("/-- ClusterRPCAPI.BlockAllocate as a structure: prologue, everywhere arm, the arguments of its allocate() call -/\ndef blockShape : BlockShape :=\n  " + blockShape(funcDeclRecv(rpcF, "*ClusterRPCAPI", "BlockAllocate")) + "\n\n")
	daemonF, diskCfgF, diskF := parse("cmd/ipfs-cluster-service/daemon.go"), parse("informer/disk/config.go"), parse("informer/disk/disk.go")
	b.WriteString("/-- createCluster (daemon.go): informer and allocator built and handed to NewCluster; the metric allocate() asks the monitor for; the disk informer's default metric and arms -/\ndef wiring : Wiring :=\n  " + wiring(funcDecl(daemonF, "createCluster"), alloc, diskCfgF, funcDeclRecv(diskF, "*Informer", "GetMetric")) + "\n\n")
	b.WriteString(leanList("daemonWiringSource", "createCluster: the statements that build the informer / allocator and the NewCluster call", daemonLines(funcDecl(daemonF, "createCluster"))))
	b.WriteString("end CV.C03.Gen\n")
	fmt.Print(b.String())
}
