// extract_c17: go/ast translator for property C17. Prints (stdout = the generated Lean file) a flat
// "skeleton" of each anchored function: its control structure and the calls it makes, in source order.
//
//	if:<cond> ... [else ...] end     for:<cond> ... end      sel ... case:<comm> ... end
//	call:<callee name>               go:<callee name>        set:<lhs>=<rhs> (assignments to fields)
//	ret:<r1,r2>   with every result normalised to nil | err | true | false | E (any other expression)
//
// Logging, tracing, locking, context and formatting calls are dropped. Theorems in Props/C17.lean
// re-check by `decide` the guard and ordering facts the model relies on.
package main

import (
	"bytes"
	"fmt"
	"go/ast"
	"go/parser"
	"go/printer"
	"go/token"
	"os"
	"path/filepath"
	"regexp"
	"strings"
)

type target struct {
	file, recv, name, lean string
}

var targets = []target{
	{"consensus/raft/raft.go", "raftWrapper", "AddPeer", "rwAddPeer"},
	{"consensus/raft/raft.go", "raftWrapper", "RemovePeer", "rwRemovePeer"},
	{"consensus/raft/raft.go", "raftWrapper", "Peers", "rwPeers"},
	{"consensus/raft/raft.go", "raftWrapper", "WaitForVoter", "waitForVoter"},
	{"consensus/raft/raft.go", "raftWrapper", "WaitForUpdates", "waitForUpdates"},
	{"consensus/raft/raft.go", "", "isVoter", "isVoter"},
	{"consensus/raft/consensus.go", "Consensus", "WaitForSync", "waitForSync"},
	{"consensus/raft/consensus.go", "Consensus", "finishBootstrap", "finishBootstrap"},
	{"consensus/raft/consensus.go", "Consensus", "AddPeer", "consAddPeer"},
	{"consensus/raft/consensus.go", "Consensus", "RmPeer", "consRmPeer"},
	{"consensus/raft/consensus.go", "Consensus", "redirectToLeader", "redirectToLeader"},
	{"consensus/raft/consensus.go", "Consensus", "Clean", "consClean"},
	{"cluster.go", "Cluster", "PeerRemove", "peerRemove"},
	{"cluster.go", "Cluster", "vacatePeer", "vacatePeer"},
	{"cluster.go", "Cluster", "watchPeers", "watchPeers"},
	{"cluster.go", "Cluster", "Shutdown", "clusterShutdown"},
	{"cluster.go", "Cluster", "PeerAdd", "peerAdd"},
}

var boringRecv = map[string]bool{"logger": true, "span": true, "trace": true, "errors": true, "fmt": true,
	"time": true, "context": true, "peer": true, "tag": true, "sort": true, "os": true, "filepath": true}
var boringName = map[string]bool{"Lock": true, "Unlock": true, "RLock": true, "RUnlock": true, "Done": true,
	"Err": true, "End": true, "Stop": true, "NewTicker": true, "Pretty": true, "len": true, "append": true,
	"make": true, "string": true, "cancel": true, "Error": true, "NewContext": true, "close": true}

var fset = token.NewFileSet()

func src(n ast.Node) string {
	var b bytes.Buffer
	printer.Fprint(&b, fset, n)
	return strings.Join(strings.Fields(b.String()), " ")
}

type walker struct{ ev []string }

func (w *walker) emit(s string) { w.ev = append(w.ev, s) }

func calleeName(c *ast.CallExpr) (recv, name string) {
	switch f := c.Fun.(type) {
	case *ast.SelectorExpr:
		if id, ok := f.X.(*ast.Ident); ok {
			recv = id.Name
		}
		return recv, f.Sel.Name
	case *ast.Ident:
		return "", f.Name
	}
	return "", ""
}

// calls emits the interesting calls inside an expression, innermost first (evaluation order).
func (w *walker) calls(n ast.Node, prefix string) {
	if n == nil {
		return
	}
	var found []string
	ast.Inspect(n, func(x ast.Node) bool {
		if _, ok := x.(*ast.FuncLit); ok {
			return false
		}
		if c, ok := x.(*ast.CallExpr); ok {
			r, nm := calleeName(c)
			if nm != "" && !boringRecv[r] && !boringName[nm] {
				found = append(found, nm)
			}
		}
		return true
	})
	for i := len(found) - 1; i >= 0; i-- {
		w.emit(prefix + found[i])
	}
}

func normResult(e ast.Expr) string {
	switch s := src(e); s {
	case "nil", "err", "true", "false":
		return s
	}
	return "E"
}

func (w *walker) block(b *ast.BlockStmt) {
	if b == nil {
		return
	}
	for _, s := range b.List {
		w.stmt(s)
	}
}

func (w *walker) stmt(s ast.Stmt) {
	switch x := s.(type) {
	case *ast.ExprStmt:
		w.calls(x.X, "call:")
	case *ast.AssignStmt:
		for _, r := range x.Rhs {
			w.calls(r, "call:")
		}
		for i, l := range x.Lhs {
			if _, ok := l.(*ast.SelectorExpr); ok && i < len(x.Rhs) {
				w.emit("set:" + src(l) + "=" + src(x.Rhs[i]))
			}
		}
	case *ast.DeclStmt:
		w.calls(x, "call:")
	case *ast.IfStmt:
		if x.Init != nil {
			w.stmt(x.Init)
		}
		w.calls(x.Cond, "call:")
		w.emit("if:" + src(x.Cond))
		w.block(x.Body)
		if x.Else != nil {
			w.emit("else")
			switch e := x.Else.(type) {
			case *ast.BlockStmt:
				w.block(e)
			default:
				w.stmt(e)
			}
		}
		w.emit("end")
	case *ast.ForStmt:
		if x.Init != nil {
			w.stmt(x.Init)
		}
		c := ""
		if x.Cond != nil {
			c = src(x.Cond)
		}
		w.emit("for:" + c)
		w.block(x.Body)
		w.emit("end")
	case *ast.RangeStmt:
		w.calls(x.X, "call:")
		w.emit("for:range " + src(x.X))
		w.block(x.Body)
		w.emit("end")
	case *ast.SelectStmt:
		w.emit("sel")
		for _, c := range x.Body.List {
			cc := c.(*ast.CommClause)
			if cc.Comm == nil {
				w.emit("case:default")
			} else {
				w.emit("case:" + src(cc.Comm))
			}
			for _, s2 := range cc.Body {
				w.stmt(s2)
			}
		}
		w.emit("end")
	case *ast.SwitchStmt:
		w.emit("sw")
		for _, c := range x.Body.List {
			cc := c.(*ast.CaseClause)
			for _, s2 := range cc.Body {
				w.stmt(s2)
			}
		}
		w.emit("end")
	case *ast.ReturnStmt:
		for _, r := range x.Results {
			w.calls(r, "call:")
		}
		rs := make([]string, len(x.Results))
		for i, r := range x.Results {
			rs[i] = normResult(r)
		}
		w.emit("ret:" + strings.Join(rs, ","))
	case *ast.GoStmt:
		w.calls(x.Call, "go:")
	case *ast.DeferStmt:
		// deferred unlock/cancel/span.End carry no ordering fact used here
	case *ast.BlockStmt:
		w.block(x)
	case *ast.LabeledStmt:
		w.stmt(x.Stmt)
	case *ast.BranchStmt:
		w.emit("br:" + x.Tok.String())
	case *ast.SendStmt:
		w.emit("send:" + src(x.Chan))
	case *ast.IncDecStmt, *ast.EmptyStmt:
	}
}

func recvName(fd *ast.FuncDecl) string {
	if fd.Recv == nil || len(fd.Recv.List) == 0 {
		return ""
	}
	t := fd.Recv.List[0].Type
	if st, ok := t.(*ast.StarExpr); ok {
		t = st.X
	}
	if id, ok := t.(*ast.Ident); ok {
		return id.Name
	}
	return ""
}

func leanStr(s string) string {
	s = strings.ReplaceAll(s, "\\", "\\\\")
	s = strings.ReplaceAll(s, "\"", "\\\"")
	return "\"" + s + "\""
}

func main() {
	repo := os.Getenv("VERIF_REPO")
	if repo == "" {
		repo = "/repo"
	}
	files := map[string]*ast.File{}
	var out bytes.Buffer
	out.WriteString("/-! GENERATED by harness/extract_c17 from the repository sources (go/ast). Do not edit.\n")
	out.WriteString("Skeletons of the functions anchored by property C17: control structure and calls in source order. -/\n")
	out.WriteString("namespace CV.C17.Gen\n\n")
	for _, t := range targets {
		f, ok := files[t.file]
		if !ok {
			var err error
			f, err = parser.ParseFile(fset, filepath.Join(repo, t.file), nil, 0)
			if err != nil {
				fmt.Fprintln(os.Stderr, err)
				os.Exit(1)
			}
			files[t.file] = f
		}
		var w walker
		found := false
		for _, d := range f.Decls {
			fd, ok := d.(*ast.FuncDecl)
			if !ok || fd.Name.Name != t.name || recvName(fd) != t.recv {
				continue
			}
			found = true
			w.block(fd.Body)
		}
		if !found {
			w.emit("missing")
		}
		fmt.Fprintf(&out, "/-- %s: (%s) %s -/\ndef %s : List String := [\n", t.file, t.recv, t.name, t.lean)
		for i, e := range w.ev {
			sep := ","
			if i == len(w.ev)-1 {
				sep = ""
			}
			fmt.Fprintf(&out, "  %s%s\n", leanStr(e), sep)
		}
		out.WriteString("]\n\n")
	}
	emitShutdownSites(&out, repo, files)
	emitShutdownEffects(&out, repo, files)
	out.WriteString("end CV.C17.Gen\n")
	os.Stdout.Write(out.Bytes())
}

// ---- semantic structure: where Cluster.Shutdown is started from inside cluster.go
//
// Every mention of `c.Shutdown` (called, spawned, deferred or taken as a value) in any function of cluster.go, with
// the conditions that enclose it (if conditions, negated for else arms; `case:<comm>` for select / switch arms;
// `func` for function literals), and whether an assignment `c.removed = true` / `c.readyB = true` DOMINATES it (an
// earlier statement of the same or of an enclosing block). The Lean model (`Model/C17Depart.lean`) classifies and
// interprets the sites; a site it does not know is a failed obligation.

type siteRec struct {
	fn            string
	path          []string
	flagged, rset bool
}

type siteWalker struct {
	fn    string
	sites []siteRec
}

func isSelfShutdown(n ast.Node) bool {
	se, ok := n.(*ast.SelectorExpr)
	if !ok || se.Sel.Name != "Shutdown" {
		return false
	}
	id, ok := se.X.(*ast.Ident)
	return ok && id.Name == "c"
}

func (w *siteWalker) scan(n ast.Node, path []string, fl, rs bool) {
	if n == nil {
		return
	}
	ast.Inspect(n, func(x ast.Node) bool {
		if fl, ok := x.(*ast.FuncLit); ok {
			w.stmts(fl.Body.List, append(append([]string{}, path...), "func"), false, false)
			return false
		}
		if isSelfShutdown(x) {
			w.sites = append(w.sites, siteRec{w.fn, append([]string{}, path...), fl, rs})
		}
		return true
	})
}

func fieldSetTrue(s ast.Stmt, field string) bool {
	a, ok := s.(*ast.AssignStmt)
	if !ok {
		return false
	}
	for i, l := range a.Lhs {
		if i < len(a.Rhs) && src(l) == "c."+field && src(a.Rhs[i]) == "true" {
			return true
		}
	}
	return false
}

func (w *siteWalker) stmts(l []ast.Stmt, path []string, fl, rs bool) {
	for _, s := range l {
		w.stmt(s, path, fl, rs)
		if fieldSetTrue(s, "removed") {
			fl = true
		}
		if fieldSetTrue(s, "readyB") {
			rs = true
		}
	}
}

func (w *siteWalker) stmt(s ast.Stmt, path []string, fl, rs bool) {
	with := func(c string) []string { return append(append([]string{}, path...), c) }
	switch x := s.(type) {
	case *ast.BlockStmt:
		w.stmts(x.List, path, fl, rs)
	case *ast.LabeledStmt:
		w.stmt(x.Stmt, path, fl, rs)
	case *ast.IfStmt:
		if x.Init != nil {
			w.stmt(x.Init, path, fl, rs)
		}
		w.scan(x.Cond, path, fl, rs)
		w.stmts(x.Body.List, with(src(x.Cond)), fl, rs)
		if x.Else != nil {
			w.stmt(x.Else, with("!("+src(x.Cond)+")"), fl, rs)
		}
	case *ast.ForStmt:
		if x.Init != nil {
			w.stmt(x.Init, path, fl, rs)
		}
		w.scan(x.Cond, path, fl, rs)
		if x.Post != nil {
			w.stmt(x.Post, path, fl, rs)
		}
		w.stmts(x.Body.List, path, fl, rs)
	case *ast.RangeStmt:
		w.scan(x.X, path, fl, rs)
		w.stmts(x.Body.List, path, fl, rs)
	case *ast.SelectStmt:
		for _, c := range x.Body.List {
			cc := c.(*ast.CommClause)
			lab := "case:default"
			if cc.Comm != nil {
				lab = "case:" + src(cc.Comm)
				w.stmt(cc.Comm, path, fl, rs)
			}
			w.stmts(cc.Body, with(lab), fl, rs)
		}
	case *ast.SwitchStmt:
		if x.Init != nil {
			w.stmt(x.Init, path, fl, rs)
		}
		w.scan(x.Tag, path, fl, rs)
		for _, c := range x.Body.List {
			cc := c.(*ast.CaseClause)
			lab := "case:default"
			if len(cc.List) > 0 {
				ls := make([]string, len(cc.List))
				for i, e := range cc.List {
					ls[i] = src(e)
					w.scan(e, path, fl, rs)
				}
				lab = "case:" + strings.Join(ls, ",")
			}
			w.stmts(cc.Body, with(lab), fl, rs)
		}
	case *ast.TypeSwitchStmt:
		for _, c := range x.Body.List {
			cc := c.(*ast.CaseClause)
			w.stmts(cc.Body, with("case:type"), fl, rs)
		}
	default:
		w.scan(s, path, fl, rs)
	}
}

func emitShutdownSites(out *bytes.Buffer, repo string, files map[string]*ast.File) {
	f, ok := files["cluster.go"]
	if !ok {
		var err error
		f, err = parser.ParseFile(fset, filepath.Join(repo, "cluster.go"), nil, 0)
		if err != nil {
			fmt.Fprintln(os.Stderr, err)
			os.Exit(1)
		}
	}
	var all []siteRec
	for _, d := range f.Decls {
		fd, ok := d.(*ast.FuncDecl)
		if !ok || fd.Body == nil {
			continue
		}
		w := &siteWalker{fn: fd.Name.Name}
		w.stmts(fd.Body.List, nil, false, false)
		all = append(all, w.sites...)
	}
	out.WriteString("/-- cluster.go: every place that starts `c.Shutdown` on the peer itself: (function, enclosing conditions outermost\n")
	out.WriteString("    first, `c.removed = true` dominates it, `c.readyB = true` dominates it) -/\n")
	out.WriteString("def shutdownSites : List (String × List String × Bool × Bool) := [\n")
	for i, s := range all {
		ps := make([]string, len(s.path))
		for k, p := range s.path {
			ps[k] = leanStr(p)
		}
		sep := ","
		if i == len(all)-1 {
			sep = ""
		}
		fmt.Fprintf(out, "  (%s, [%s], %v, %v)%s\n", leanStr(s.fn), strings.Join(ps, ", "), s.flagged, s.rset, sep)
	}
	out.WriteString("]\n\n")
}

// ---- semantic structure: what Cluster.Shutdown does, under which guards
//
// The tracked effects of `(*Cluster).Shutdown` in source order, each with the ATOMS of the conditions enclosing it
// (conjunctions are split; an else arm contributes `!(<cond>)`; `err` is qualified by the call whose result it holds:
// `err@Peers == nil`). Tracked: the single read of `c.readyB, c.removed` ("read"), `removed = true` ("setRemoved"),
// `c.consensus.RmPeer` ("rmSelf"), `con.Shutdown` / `c.consensus.Shutdown` ("consShutdown"), `c.consensus.Clean`
// ("clean"), `close(c.doneCh)` ("done"), every `return` ("return"). The Lean model (`Model/C17Shutdown.lean`)
// INTERPRETS this list; an atom it does not know is a failed obligation.

type effRec struct {
	eff  string
	path []string
}

type effWalker struct{ effs []effRec }

var errWord = regexp.MustCompile(`\berr\b`)

func splitAnd(e ast.Expr, lastErr string) []string {
	if p, ok := e.(*ast.ParenExpr); ok {
		return splitAnd(p.X, lastErr)
	}
	if b, ok := e.(*ast.BinaryExpr); ok && b.Op == token.LAND {
		return append(splitAnd(b.X, lastErr), splitAnd(b.Y, lastErr)...)
	}
	c := src(e)
	if lastErr != "" {
		c = errWord.ReplaceAllString(c, "err@"+lastErr)
	}
	return []string{c}
}

// errSource: the statement assigns `err` from a call: the callee's name
func errSource(s ast.Stmt) string {
	a, ok := s.(*ast.AssignStmt)
	if !ok || len(a.Rhs) != 1 {
		return ""
	}
	call, ok := a.Rhs[0].(*ast.CallExpr)
	if !ok {
		return ""
	}
	for _, l := range a.Lhs {
		if id, ok := l.(*ast.Ident); ok && id.Name == "err" {
			if se, ok := call.Fun.(*ast.SelectorExpr); ok {
				return se.Sel.Name
			}
			return src(call.Fun)
		}
	}
	return ""
}

func (w *effWalker) simple(s ast.Stmt, path []string) {
	add := func(e string) { w.effs = append(w.effs, effRec{e, append([]string{}, path...)}) }
	if a, ok := s.(*ast.AssignStmt); ok {
		l, r := make([]string, len(a.Lhs)), make([]string, len(a.Rhs))
		for i, x := range a.Lhs {
			l[i] = src(x)
		}
		for i, x := range a.Rhs {
			r[i] = src(x)
		}
		ls, rs := strings.Join(l, ","), strings.Join(r, ",")
		if ls == "ready,removed" && rs == "c.readyB,c.removed" {
			add("read")
		} else if ls == "removed" && rs == "true" {
			add("setRemoved")
		} else if ls == "removed" || ls == "ready" || strings.HasPrefix(ls, "ready,") || strings.HasSuffix(ls, ",removed") {
			add("unknown:" + ls + "=" + rs) // the locals are written in a way the model does not know
		}
	}
	if _, ok := s.(*ast.ReturnStmt); ok {
		add("return")
		return
	}
	ast.Inspect(s, func(x ast.Node) bool {
		if _, ok := x.(*ast.FuncLit); ok {
			return false
		}
		c, ok := x.(*ast.CallExpr)
		if !ok {
			return true
		}
		switch f := src(c.Fun); {
		case strings.HasSuffix(f, ".RmPeer"):
			add("rmSelf")
		case f == "con.Shutdown" || f == "c.consensus.Shutdown":
			add("consShutdown")
		case strings.HasSuffix(f, ".Clean"):
			add("clean")
		case f == "close" && len(c.Args) == 1 && src(c.Args[0]) == "c.doneCh":
			add("done")
		}
		return true
	})
}

func (w *effWalker) stmts(l []ast.Stmt, path []string, lastErr string) {
	for _, s := range l {
		lastErr = w.stmt(s, path, lastErr)
	}
}

func (w *effWalker) stmt(s ast.Stmt, path []string, lastErr string) string {
	switch x := s.(type) {
	case *ast.BlockStmt:
		w.stmts(x.List, path, lastErr)
	case *ast.IfStmt:
		inner := lastErr
		if x.Init != nil {
			inner = w.stmt(x.Init, path, lastErr)
		}
		atoms := splitAnd(x.Cond, inner)
		w.stmts(x.Body.List, append(append([]string{}, path...), atoms...), inner)
		if x.Else != nil {
			neg := "!(" + strings.Join(atoms, " && ") + ")"
			w.stmt(x.Else, append(append([]string{}, path...), neg), inner)
		}
	case *ast.ForStmt:
		w.stmts(x.Body.List, append(append([]string{}, path...), "loop"), lastErr)
	case *ast.RangeStmt:
		w.stmts(x.Body.List, append(append([]string{}, path...), "loop"), lastErr)
	case *ast.SelectStmt, *ast.SwitchStmt, *ast.TypeSwitchStmt, *ast.GoStmt, *ast.DeferStmt, *ast.LabeledStmt:
		before := len(w.effs)
		w.simple(s, path)
		if len(w.effs) > before {
			// a tracked effect inside a construct the translator does not open
			w.effs = append(w.effs, effRec{"unknown:construct", append([]string{}, path...)})
		}
	default:
		w.simple(s, path)
		if e := errSource(s); e != "" {
			return e
		}
	}
	return lastErr
}

func emitShutdownEffects(out *bytes.Buffer, repo string, files map[string]*ast.File) {
	f := files["cluster.go"]
	if f == nil {
		var err error
		f, err = parser.ParseFile(fset, filepath.Join(repo, "cluster.go"), nil, 0)
		if err != nil {
			fmt.Fprintln(os.Stderr, err)
			os.Exit(1)
		}
	}
	w := &effWalker{}
	found := false
	for _, d := range f.Decls {
		fd, ok := d.(*ast.FuncDecl)
		if !ok || fd.Body == nil || fd.Name.Name != "Shutdown" || recvName(fd) != "Cluster" {
			continue
		}
		found = true
		w.stmts(fd.Body.List, nil, "")
	}
	if !found {
		w.effs = append(w.effs, effRec{"unknown:missing", nil})
	}
	out.WriteString("/-- cluster.go `(*Cluster).Shutdown`: tracked effects in source order with the atoms of their enclosing conditions -/\n")
	out.WriteString("def shutdownEffects : List (String × List String) := [\n")
	for i, e := range w.effs {
		ps := make([]string, len(e.path))
		for k, p := range e.path {
			ps[k] = leanStr(p)
		}
		sep := ","
		if i == len(w.effs)-1 {
			sep = ""
		}
		fmt.Fprintf(out, "  (%s, [%s])%s\n", leanStr(e.eff), strings.Join(ps, ", "), sep)
	}
	out.WriteString("]\n\n")
}
