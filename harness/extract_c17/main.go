// extract_c17: go/ast translator for property C17. Prints (stdout = the generated Lean file) a flat
// "skeleton" of each anchored function: its control structure and the calls it makes, in source order.
//
//	if:<cond> ... [else ...] end     for:<cond> ... end      sel ... case:<comm> ... end
//	call:<callee name>               go:<callee name>        set:<lhs>=<rhs> (assignments to fields)
//	ret:<r1,r2>   with every result normalised to nil | err | true | false | E (any other expression)
//
// Logging, tracing, locking, context and formatting calls are dropped. Theorems in Props/C17.lean
// re-check by `decide` the guard and ordering facts the model relies on.
package main

import (
	"bytes"
	"fmt"
	"go/ast"
	"go/parser"
	"go/printer"
	"go/token"
	"os"
	"path/filepath"
	"strings"
)

type target struct {
	file, recv, name, lean string
}

var targets = []target{
	{"consensus/raft/raft.go", "raftWrapper", "AddPeer", "rwAddPeer"},
	{"consensus/raft/raft.go", "raftWrapper", "RemovePeer", "rwRemovePeer"},
	{"consensus/raft/raft.go", "raftWrapper", "Peers", "rwPeers"},
	{"consensus/raft/raft.go", "raftWrapper", "WaitForVoter", "waitForVoter"},
	{"consensus/raft/raft.go", "raftWrapper", "WaitForUpdates", "waitForUpdates"},
	{"consensus/raft/raft.go", "", "isVoter", "isVoter"},
	{"consensus/raft/consensus.go", "Consensus", "WaitForSync", "waitForSync"},
	{"consensus/raft/consensus.go", "Consensus", "finishBootstrap", "finishBootstrap"},
	{"consensus/raft/consensus.go", "Consensus", "AddPeer", "consAddPeer"},
	{"consensus/raft/consensus.go", "Consensus", "RmPeer", "consRmPeer"},
	{"consensus/raft/consensus.go", "Consensus", "redirectToLeader", "redirectToLeader"},
	{"consensus/raft/consensus.go", "Consensus", "Clean", "consClean"},
	{"cluster.go", "Cluster", "PeerRemove", "peerRemove"},
	{"cluster.go", "Cluster", "vacatePeer", "vacatePeer"},
	{"cluster.go", "Cluster", "watchPeers", "watchPeers"},
	{"cluster.go", "Cluster", "Shutdown", "clusterShutdown"},
	{"cluster.go", "Cluster", "PeerAdd", "peerAdd"},
}

var boringRecv = map[string]bool{"logger": true, "span": true, "trace": true, "errors": true, "fmt": true,
	"time": true, "context": true, "peer": true, "tag": true, "sort": true, "os": true, "filepath": true}
var boringName = map[string]bool{"Lock": true, "Unlock": true, "RLock": true, "RUnlock": true, "Done": true,
	"Err": true, "End": true, "Stop": true, "NewTicker": true, "Pretty": true, "len": true, "append": true,
	"make": true, "string": true, "cancel": true, "Error": true, "NewContext": true, "close": true}

var fset = token.NewFileSet()

func src(n ast.Node) string {
	var b bytes.Buffer
	printer.Fprint(&b, fset, n)
	return strings.Join(strings.Fields(b.String()), " ")
}

type walker struct{ ev []string }

func (w *walker) emit(s string) { w.ev = append(w.ev, s) }

func calleeName(c *ast.CallExpr) (recv, name string) {
	switch f := c.Fun.(type) {
	case *ast.SelectorExpr:
		if id, ok := f.X.(*ast.Ident); ok {
			recv = id.Name
		}
		return recv, f.Sel.Name
	case *ast.Ident:
		return "", f.Name
	}
	return "", ""
}

// calls emits the interesting calls inside an expression, innermost first (evaluation order).
func (w *walker) calls(n ast.Node, prefix string) {
	if n == nil {
		return
	}
	var found []string
	ast.Inspect(n, func(x ast.Node) bool {
		if _, ok := x.(*ast.FuncLit); ok {
			return false
		}
		if c, ok := x.(*ast.CallExpr); ok {
			r, nm := calleeName(c)
			if nm != "" && !boringRecv[r] && !boringName[nm] {
				found = append(found, nm)
			}
		}
		return true
	})
	for i := len(found) - 1; i >= 0; i-- {
		w.emit(prefix + found[i])
	}
}

func normResult(e ast.Expr) string {
	switch s := src(e); s {
	case "nil", "err", "true", "false":
		return s
	}
	return "E"
}

func (w *walker) block(b *ast.BlockStmt) {
	if b == nil {
		return
	}
	for _, s := range b.List {
		w.stmt(s)
	}
}

func (w *walker) stmt(s ast.Stmt) {
	switch x := s.(type) {
	case *ast.ExprStmt:
		w.calls(x.X, "call:")
	case *ast.AssignStmt:
		for _, r := range x.Rhs {
			w.calls(r, "call:")
		}
		for i, l := range x.Lhs {
			if _, ok := l.(*ast.SelectorExpr); ok && i < len(x.Rhs) {
				w.emit("set:" + src(l) + "=" + src(x.Rhs[i]))
			}
		}
	case *ast.DeclStmt:
		w.calls(x, "call:")
	case *ast.IfStmt:
		if x.Init != nil {
			w.stmt(x.Init)
		}
		w.calls(x.Cond, "call:")
		w.emit("if:" + src(x.Cond))
		w.block(x.Body)
		if x.Else != nil {
			w.emit("else")
			switch e := x.Else.(type) {
			case *ast.BlockStmt:
				w.block(e)
			default:
				w.stmt(e)
			}
		}
		w.emit("end")
	case *ast.ForStmt:
		if x.Init != nil {
			w.stmt(x.Init)
		}
		c := ""
		if x.Cond != nil {
			c = src(x.Cond)
		}
		w.emit("for:" + c)
		w.block(x.Body)
		w.emit("end")
	case *ast.RangeStmt:
		w.calls(x.X, "call:")
		w.emit("for:range " + src(x.X))
		w.block(x.Body)
		w.emit("end")
	case *ast.SelectStmt:
		w.emit("sel")
		for _, c := range x.Body.List {
			cc := c.(*ast.CommClause)
			if cc.Comm == nil {
				w.emit("case:default")
			} else {
				w.emit("case:" + src(cc.Comm))
			}
			for _, s2 := range cc.Body {
				w.stmt(s2)
			}
		}
		w.emit("end")
	case *ast.SwitchStmt:
		w.emit("sw")
		for _, c := range x.Body.List {
			cc := c.(*ast.CaseClause)
			for _, s2 := range cc.Body {
				w.stmt(s2)
			}
		}
		w.emit("end")
	case *ast.ReturnStmt:
		for _, r := range x.Results {
			w.calls(r, "call:")
		}
		rs := make([]string, len(x.Results))
		for i, r := range x.Results {
			rs[i] = normResult(r)
		}
		w.emit("ret:" + strings.Join(rs, ","))
	case *ast.GoStmt:
		w.calls(x.Call, "go:")
	case *ast.DeferStmt:
		// deferred unlock/cancel/span.End carry no ordering fact used here
	case *ast.BlockStmt:
		w.block(x)
	case *ast.LabeledStmt:
		w.stmt(x.Stmt)
	case *ast.BranchStmt:
		w.emit("br:" + x.Tok.String())
	case *ast.SendStmt:
		w.emit("send:" + src(x.Chan))
	case *ast.IncDecStmt, *ast.EmptyStmt:
	}
}

func recvName(fd *ast.FuncDecl) string {
	if fd.Recv == nil || len(fd.Recv.List) == 0 {
		return ""
	}
	t := fd.Recv.List[0].Type
	if st, ok := t.(*ast.StarExpr); ok {
		t = st.X
	}
	if id, ok := t.(*ast.Ident); ok {
		return id.Name
	}
	return ""
}

func leanStr(s string) string {
	s = strings.ReplaceAll(s, "\\", "\\\\")
	s = strings.ReplaceAll(s, "\"", "\\\"")
	return "\"" + s + "\""
}

func main() {
	repo := os.Getenv("VERIF_REPO")
	if repo == "" {
		repo = "/repo"
	}
	files := map[string]*ast.File{}
	var out bytes.Buffer
	out.WriteString("/-! GENERATED by harness/extract_c17 from the repository sources (go/ast). Do not edit.\n")
	out.WriteString("Skeletons of the functions anchored by property C17: control structure and calls in source order. -/\n")
	out.WriteString("namespace CV.C17.Gen\n\n")
	for _, t := range targets {
		f, ok := files[t.file]
		if !ok {
			var err error
			f, err = parser.ParseFile(fset, filepath.Join(repo, t.file), nil, 0)
			if err != nil {
				fmt.Fprintln(os.Stderr, err)
				os.Exit(1)
			}
			files[t.file] = f
		}
		var w walker
		found := false
		for _, d := range f.Decls {
			fd, ok := d.(*ast.FuncDecl)
			if !ok || fd.Name.Name != t.name || recvName(fd) != t.recv {
				continue
			}
			found = true
			w.block(fd.Body)
		}
		if !found {
			w.emit("missing")
		}
		fmt.Fprintf(&out, "/-- %s: (%s) %s -/\ndef %s : List String := [\n", t.file, t.recv, t.name, t.lean)
		for i, e := range w.ev {
			sep := ","
			if i == len(w.ev)-1 {
				sep = ""
			}
			fmt.Fprintf(&out, "  %s%s\n", leanStr(e), sep)
		}
		out.WriteString("]\n\n")
	}
	out.WriteString("end CV.C17.Gen\n")
	os.Stdout.Write(out.Bytes())
}
