package main

// Suite `snaps` (round 8b): a Raft data folder whose snapshots/ directory holds SEVERAL snapshots and leftovers.
//
//   C14 snaps <items> <op> => pre=<f> meta=<t.i|-> off=<f> nmeta=<t.i|-> cnt=<k> old0=<f> old0cnt=<k> err=<0|1>
//
//   <items> `none` = no data folder, `-` = a data folder with an empty snapshots/ directory, else a comma list in CREATION
//           order of  T.I.C  (a real hashicorp/raft file snapshot with term T, index I, pinset {CidN(C)}; C = 0 the empty
//           pinset),  t  (a `<big term>-<big index>-<ms>.tmp` directory with valid metadata and state: an interrupted
//           snapshot),  m  (a directory `99-99-<ms>` whose meta.json is not JSON),  f  (a plain file).
//   <op>    o (read only) | c (CleanupRaft) | s<C> (SnapshotSave of {CidN(C)})
//   <f>     `-` absent, `e` no readable snapshot, `0` the empty pinset, `<n>` the pinset {CidN(n)}, `?` does not load
//   meta/nmeta: term.index of `FileSnapshotStore.List()[0]` before / after; cnt/old0cnt: snapshots List shows (retain 100).
//
// Everything is written and read with the REAL FileSnapshotStore / raft.LastStateRaw / OfflineState / CleanupRaft / SnapshotSave.

import (
	"bytes"
	"context"
	"crypto/rand"
	"fmt"
	"io/ioutil"
	"os"
	"path/filepath"
	"strconv"
	"strings"
	"time"

	hraft "github.com/hashicorp/raft"
	crypto "github.com/libp2p/go-libp2p-core/crypto"
	peer "github.com/libp2p/go-libp2p-core/peer"
	"github.com/ipfs/ipfs-cluster/consensus/raft"
	p2praft "github.com/libp2p/go-libp2p-raft"

	"verifharness/common"
)

type snapItem struct {
	kind           string // s t m f
	term, index, c int
	bad            bool // round 8c: state.bin no longer matches the CRC in meta.json (`T.I.Cd`)
}

type snapsCase struct {
	absent bool
	items  []snapItem
	op     string
}

func (c snapsCase) input() string {
	it := "-"
	if c.absent {
		it = "none"
	} else if len(c.items) > 0 {
		var w []string
		for _, x := range c.items {
			if x.kind == "s" {
				d := ""
				if x.bad {
					d = "d"
				}
				w = append(w, fmt.Sprintf("%d.%d.%d%s", x.term, x.index, x.c, d))
			} else {
				w = append(w, x.kind)
			}
		}
		it = strings.Join(w, ",")
	}
	return fmt.Sprintf("C14 snaps %s %s", it, c.op)
}

func parseSnapsCase(f []string) (snapsCase, bool) {
	var c snapsCase
	if len(f) != 2 {
		return c, false
	}
	switch f[0] {
	case "none":
		c.absent = true
	case "-":
	default:
		for _, w := range strings.Split(f[0], ",") {
			if w == "t" || w == "m" || w == "f" {
				c.items = append(c.items, snapItem{kind: w})
				continue
			}
			bad := strings.HasSuffix(w, "d")
			p := strings.Split(strings.TrimSuffix(w, "d"), ".")
			if len(p) != 3 {
				return c, false
			}
			var v [3]int
			for i := range p {
				n, err := strconv.Atoi(p[i])
				if err != nil || n < 0 {
					return c, false
				}
				v[i] = n
			}
			if v[0] < 1 || v[0] > 90 || v[1] < 1 || v[1] > 9000 || v[2] >= len(cidTab) {
				return c, false
			}
			// round 8c: two snapshots of one (term, index) are allowed (the id = creation millisecond decides)
			c.items = append(c.items, snapItem{"s", v[0], v[1], v[2], bad})
		}
	}
	c.op = f[1]
	if c.op == "o" || c.op == "c" {
		return c, true
	}
	if c.op == "b" { // round 8c: start a real peer on the folder (needs at least one listed snapshot)
		for _, it := range c.items {
			if it.kind == "s" {
				return c, true
			}
		}
		return c, false
	}
	if strings.HasPrefix(c.op, "s") || strings.HasPrefix(c.op, "i") {
		n, err := strconv.Atoi(c.op[1:])
		return c, err == nil && n >= 0 && n < len(cidTab)
	}
	return c, false
}

// snapConf is the server configuration written into the snapshots of the case being set up (op `b` needs the
// identity of the peer that will be started as the single voter; the cases run one at a time)
var snapConf hraft.Configuration

func writeFileSnapshot(folder string, term, index, c int) (string, error) {
	store, err := hraft.NewFileSnapshotStoreWithLogger(folder, 100, nil)
	if err != nil {
		return "", err
	}
	_, tr := hraft.NewInmemTransport("")
	sink, err := store.Create(1, uint64(index), uint64(term), snapConf, 1, tr)
	if err != nil {
		return "", err
	}
	if err := p2praft.EncodeSnapshot(tagState(c), sink); err != nil {
		sink.Cancel()
		return "", err
	}
	return sink.ID(), sink.Close()
}

func listMeta(folder string) (string, int) {
	if _, err := os.Stat(filepath.Join(folder, "snapshots")); err != nil {
		return "-", 0
	}
	store, err := hraft.NewFileSnapshotStoreWithLogger(folder, 100, nil)
	if err != nil {
		return "?", 0
	}
	l, err := store.List()
	if err != nil {
		return "?", 0
	}
	if len(l) == 0 {
		return "-", 0
	}
	return fmt.Sprintf("%d.%d", l[0].Term, l[0].Index), len(l)
}

func runSnaps(c snapsCase) string {
	base := scratch("snaps")
	defer os.RemoveAll(base)
	folder := filepath.Join(base, "raft")
	snapConf = hraft.Configuration{}
	var bootKey crypto.PrivKey
	if c.op == "b" {
		priv, pub, err := crypto.GenerateEd25519Key(rand.Reader)
		if err != nil {
			fatal("snaps setup: %v", err)
		}
		id, _ := peer.IDFromPublicKey(pub)
		bootKey = priv
		sid := hraft.ServerID(peer.Encode(id))
		snapConf = hraft.Configuration{Servers: []hraft.Server{{Suffrage: hraft.Voter, ID: sid, Address: hraft.ServerAddress(sid)}}}
	}
	if !c.absent {
		os.MkdirAll(filepath.Join(folder, "snapshots"), 0755)
		for _, it := range c.items {
			switch it.kind {
			case "s":
				id, err := writeFileSnapshot(folder, it.term, it.index, it.c)
				if err != nil {
					fatal("snaps setup: %v", err)
				}
				if it.bad { // same length, one byte changed: FileSnapshotStore.Open reports "CRC mismatch"
					sp := filepath.Join(folder, "snapshots", id, "state.bin")
					b, err := ioutil.ReadFile(sp)
					if err != nil {
						fatal("snaps setup: state.bin of %s: %v", id, err)
					}
					if len(b) == 0 {
						b = []byte{0x5a}
					} else {
						b[len(b)/2] ^= 0x5a
					}
					if err := ioutil.WriteFile(sp, b, 0644); err != nil {
						fatal("snaps setup: %v", err)
					}
				}
			case "t":
				// an interrupted snapshot: complete content, the final rename did not happen
				id, err := writeFileSnapshot(folder, 95, 9500, 1)
				if err != nil {
					fatal("snaps setup: %v", err)
				}
				p := filepath.Join(folder, "snapshots", id)
				if err := os.Rename(p, p+".tmp"); err != nil {
					fatal("snaps setup: %v", err)
				}
			case "m":
				id, err := writeFileSnapshot(folder, 99, 9900, 1)
				if err != nil {
					fatal("snaps setup: %v", err)
				}
				ioutil.WriteFile(filepath.Join(folder, "snapshots", id, "meta.json"), []byte("{not json"), 0644)
			case "f":
				ioutil.WriteFile(filepath.Join(folder, "snapshots", "98-9800-1600000000000"), []byte("x"), 0644)
			}
			time.Sleep(2 * time.Millisecond) // ids carry the creation time in ms
		}
	}
	pre := observeFolder(folder)
	meta, _ := listMeta(folder)
	failed := 0
	started := ""
	switch {
	case c.op == "b":
		// the REAL consensus component started on the folder as its single voter: what it serves once ready
		started = "?"
		if sp, err := bootPeer(bootKey, folder); err == nil {
			if st, err := sp.cc.State(context.Background()); err == nil {
				if l, err := listPins(st); err == nil {
					if len(l) == 0 {
						started = "0"
					} else if len(l) == 1 && l[0].cid >= 1 {
						started = strconv.Itoa(l[0].cid)
					}
				}
			}
			sp.stop()
		}
		return fmt.Sprintf("pre=%s meta=%s start=%s", pre, meta, started)
	case c.op == "c":
		if err := safely(func() error { return raft.CleanupRaft(raftCfg(folder, 3)) }); err != nil {
			failed = 1
		}
	case c.op[0] == 'i':
		// round 8c: `state import` of {CidN(n)} with the REAL raft state manager (Clean, then SnapshotSave)
		n, _ := strconv.Atoi(c.op[1:])
		_, pub, err := crypto.GenerateEd25519Key(rand.Reader)
		if err != nil {
			fatal("snaps setup: %v", err)
		}
		id, _ := peer.IDFromPublicKey(pub)
		var cids []int
		if n > 0 {
			cids = []int{n}
		}
		exp := exportOfCids(cids, id)
		m := startManager(base, id)
		if err := safely(func() error { return m.ImportState(bytes.NewReader(exp)) }); err != nil {
			failed = 1
		}
	case c.op[0] == 's':
		n, _ := strconv.Atoi(c.op[1:])
		if err := safely(func() error { return raft.SnapshotSave(raftCfg(folder, 3), tagState(n), pids) }); err != nil {
			failed = 1
		}
	}
	off := observeFolder(folder)
	nmeta, cnt := listMeta(folder)
	old0 := observeFolder(folder + ".old.0")
	_, old0cnt := listMeta(folder + ".old.0")
	return fmt.Sprintf("pre=%s meta=%s off=%s nmeta=%s cnt=%d old0=%s old0cnt=%d err=%d", pre, meta, off, nmeta, cnt, old0, old0cnt, failed)
}

func genSnapsCase(r *common.Rng, k, total int) snapsCase {
	var c snapsCase
	terms := []int{1, 2, 9, 10, 11}            // 9 / 10: numeric order differs from name order
	idxs := []int{2, 5, 9, 10, 11, 99, 100, 1000} // same
	switch r.Intn(12) {
	case 0:
		c.absent = true
	case 1: // empty folder
	default:
		n := 1 + r.Intn(6)
		seen := map[[2]int]bool{}
		var keys [][2]int
		for i := 0; i < n; i++ {
			switch x := r.Intn(12); {
			case x == 0:
				c.items = append(c.items, snapItem{kind: "t"})
			case x == 1:
				c.items = append(c.items, snapItem{kind: "m"})
			case x == 2:
				c.items = append(c.items, snapItem{kind: "f"})
			default:
				t, ix := terms[r.Intn(len(terms))], idxs[r.Intn(len(idxs))]
				if r.Intn(3) == 0 && len(keys) > 0 { // same term as an earlier one, or same index
					key := keys[r.Intn(len(keys))]
					if r.Intn(2) == 0 {
						t = key[0]
					} else {
						ix = key[1]
					}
				}
				if seen[[2]int{t, ix}] {
					continue
				}
				seen[[2]int{t, ix}] = true
				keys = append(keys, [2]int{t, ix})
				c.items = append(c.items, snapItem{"s", t, ix, r.Intn(9), false})
			}
		}
	}
	// round 8c: a damaged snapshot (half of the time the newest one) and/or a second snapshot of an existing (term, index)
	var sn []int
	for i, it := range c.items {
		if it.kind == "s" {
			sn = append(sn, i)
		}
	}
	if len(sn) > 0 {
		mode := r.Intn(10)
		if mode == 0 || mode == 1 { // tie: created LAST or somewhere in between
			src := c.items[sn[r.Intn(len(sn))]]
			dup := snapItem{"s", src.term, src.index, (src.c + 1 + r.Intn(7)) % 9, false}
			if r.Intn(2) == 0 {
				c.items = append(c.items, dup)
			} else {
				at := r.Intn(len(c.items) + 1)
				c.items = append(c.items[:at], append([]snapItem{dup}, c.items[at:]...)...)
			}
		}
		if mode == 1 || mode == 2 || mode == 3 {
			best := -1
			for i, it := range c.items {
				if it.kind != "s" {
					continue
				}
				if best < 0 || it.term > c.items[best].term || (it.term == c.items[best].term && it.index >= c.items[best].index) {
					best = i
				}
			}
			if r.Intn(2) == 0 {
				c.items[best].bad = true
			} else {
				var all []int
				for i, it := range c.items {
					if it.kind == "s" {
						all = append(all, i)
					}
				}
				c.items[all[r.Intn(len(all))]].bad = true
				if r.Intn(3) == 0 {
					c.items[all[r.Intn(len(all))]].bad = true
				}
			}
		}
	}
	if len(sn) > 0 && r.Intn(40) == 0 {
		c.op = "b"
		return c
	}
	switch x := r.Intn(10); {
	case x < 2:
		c.op = "o"
	case x < 4:
		c.op = "c"
	case x < 6:
		c.op = fmt.Sprintf("i%d", r.Intn(9))
	default:
		c.op = fmt.Sprintf("s%d", r.Intn(9))
	}
	return c
}
