package main

import (
	"bytes"
	"context"
	"fmt"
	"os"
	"path/filepath"
	"runtime/debug"
	"sort"
	"strconv"
	"strings"
	"time"

	ipfscluster "github.com/ipfs/ipfs-cluster"
	"github.com/ipfs/ipfs-cluster/api"
	"github.com/ipfs/ipfs-cluster/cmdutils"
	"github.com/ipfs/ipfs-cluster/config"
	"github.com/ipfs/ipfs-cluster/consensus/crdt"
	"github.com/ipfs/ipfs-cluster/consensus/raft"
	"github.com/ipfs/ipfs-cluster/datastore/badger"
	"github.com/ipfs/ipfs-cluster/datastore/inmem"
	"github.com/ipfs/ipfs-cluster/datastore/leveldb"
	"github.com/ipfs/ipfs-cluster/state"
	"github.com/ipfs/ipfs-cluster/state/dsstate"

	cid "github.com/ipfs/go-cid"
	ds "github.com/ipfs/go-datastore"
	dssync "github.com/ipfs/go-datastore/sync"
	libp2p "github.com/libp2p/go-libp2p"
	peer "github.com/libp2p/go-libp2p-core/peer"
	rpc "github.com/libp2p/go-libp2p-gorpc"
	ma "github.com/multiformats/go-multiaddr"

	"verifharness/common"
)

// mpin is a pin over table indices (the Lean `Pin`).
type mpin struct {
	cid     int
	ptype   uint64
	allocs  []int
	depth   int64
	ref     int // -1 none
	rmin    int64
	rmax    int64
	name    int
	mode    int
	shard   uint64
	ualloc  []int
	expire  uint64
	meta    [][2]int // sorted by key
	pupdate int      // -1 none
	origins []int
}

func (p mpin) String() string {
	ms := "-"
	if len(p.meta) > 0 {
		l := make([]string, len(p.meta))
		for i, kv := range p.meta {
			l[i] = fmt.Sprintf("%d=%d", kv[0], kv[1])
		}
		ms = strings.Join(l, ".")
	}
	return strings.Join([]string{strconv.Itoa(p.cid), strconv.FormatUint(p.ptype, 10), ints(p.allocs, "."),
		strconv.FormatInt(p.depth, 10), optInt(p.ref), strconv.FormatInt(p.rmin, 10), strconv.FormatInt(p.rmax, 10),
		strconv.Itoa(p.name), strconv.Itoa(p.mode), strconv.FormatUint(p.shard, 10), ints(p.ualloc, "."),
		strconv.FormatUint(p.expire, 10), ms, optInt(p.pupdate), ints(p.origins, ".")}, ":")
}

func showPins(l []mpin) string {
	if len(l) == 0 {
		return "-"
	}
	s := make([]string, len(l))
	for i, p := range l {
		s[i] = p.String()
	}
	return strings.Join(s, "/")
}

func parsePin(s string) (mpin, bool) {
	f := strings.Split(s, ":")
	if len(f) != 15 {
		return mpin{}, false
	}
	var p mpin
	var err error
	bad := false
	chk := func(e error) {
		if e != nil {
			bad = true
		}
	}
	p.cid, err = strconv.Atoi(f[0])
	chk(err)
	p.ptype, err = strconv.ParseUint(f[1], 10, 64)
	chk(err)
	p.allocs = parseIntList(f[2], ".")
	p.depth, err = strconv.ParseInt(f[3], 10, 64)
	chk(err)
	p.ref = parseOptInt(f[4])
	p.rmin, err = strconv.ParseInt(f[5], 10, 64)
	chk(err)
	p.rmax, err = strconv.ParseInt(f[6], 10, 64)
	chk(err)
	p.name, err = strconv.Atoi(f[7])
	chk(err)
	p.mode, err = strconv.Atoi(f[8])
	chk(err)
	p.shard, err = strconv.ParseUint(f[9], 10, 64)
	chk(err)
	p.ualloc = parseIntList(f[10], ".")
	p.expire, err = strconv.ParseUint(f[11], 10, 64)
	chk(err)
	if f[12] != "-" {
		for _, kv := range strings.Split(f[12], ".") {
			x := strings.Split(kv, "=")
			if len(x) != 2 {
				return p, false
			}
			k, e1 := strconv.Atoi(x[0])
			v, e2 := strconv.Atoi(x[1])
			chk(e1)
			chk(e2)
			p.meta = append(p.meta, [2]int{k, v})
		}
	}
	p.pupdate = parseOptInt(f[13])
	p.origins = parseIntList(f[14], ".")
	if bad || p.cid < 0 || p.cid >= nCids || p.ref >= nCids || p.pupdate >= nCids || p.name >= len(nameTab) {
		return p, false
	}
	for _, a := range append(append([]int{}, p.allocs...), p.ualloc...) {
		if a < 0 || a >= nPeers {
			return p, false
		}
	}
	for _, o := range p.origins {
		if o < 0 || o >= len(pinAddrs) {
			return p, false
		}
	}
	for _, kv := range p.meta {
		if kv[0] < 0 || kv[0] >= len(nameTab) || kv[1] < 0 || kv[1] >= len(nameTab) {
			return p, false
		}
	}
	return p, true
}

func parsePins(s string) ([]mpin, bool) {
	if s == "-" {
		return nil, true
	}
	var l []mpin
	for _, x := range strings.Split(s, "/") {
		p, ok := parsePin(x)
		if !ok {
			return nil, false
		}
		l = append(l, p)
	}
	return l, true
}

// toAPI builds the real api.Pin.
func (p mpin) toAPI() *api.Pin {
	pin := &api.Pin{}
	pin.Cid = cidTab[p.cid]
	pin.Type = api.PinType(p.ptype)
	pin.Allocations = []peer.ID{}
	for _, a := range p.allocs {
		pin.Allocations = append(pin.Allocations, peerTab[a])
	}
	pin.MaxDepth = api.PinDepth(p.depth)
	if p.ref >= 0 {
		c := cidTab[p.ref]
		pin.Reference = &c
	}
	pin.ReplicationFactorMin = int(p.rmin)
	pin.ReplicationFactorMax = int(p.rmax)
	pin.Name = nameTab[p.name]
	pin.Mode = api.PinMode(p.mode)
	pin.ShardSize = p.shard
	for _, a := range p.ualloc {
		pin.UserAllocations = append(pin.UserAllocations, peerTab[a])
	}
	if p.expire != 0 {
		pin.ExpireAt = time.Unix(int64(p.expire), 0)
	}
	if len(p.meta) > 0 {
		pin.Metadata = map[string]string{}
		for _, kv := range p.meta {
			pin.Metadata[nameTab[kv[0]]] = nameTab[kv[1]]
		}
	}
	if p.pupdate >= 0 {
		pin.PinUpdate = cidTab[p.pupdate]
	}
	for _, o := range p.origins {
		pin.Origins = append(pin.Origins, pinAddrs[o])
	}
	return pin
}

var unixZero = time.Unix(0, 0)

// fromAPI maps a real pin back to indices (unknownIdx for anything not in the tables).
func fromAPI(pin *api.Pin) mpin {
	var p mpin
	p.cid = cidIndex(pin.Cid)
	p.ptype = uint64(pin.Type)
	for _, a := range pin.Allocations {
		p.allocs = append(p.allocs, peerIndex(a))
	}
	p.depth = int64(pin.MaxDepth)
	p.ref = -1
	if pin.Reference != nil {
		p.ref = cidIndex(*pin.Reference)
	}
	p.rmin = int64(pin.ReplicationFactorMin)
	p.rmax = int64(pin.ReplicationFactorMax)
	p.name = nameIndex(pin.Name)
	p.mode = int(pin.Mode)
	p.shard = pin.ShardSize
	for _, a := range pin.UserAllocations {
		p.ualloc = append(p.ualloc, peerIndex(a))
	}
	if !(pin.ExpireAt.IsZero() || pin.ExpireAt.Equal(unixZero)) {
		p.expire = uint64(pin.ExpireAt.Unix())
		if pin.ExpireAt.Nanosecond() != 0 {
			p.expire = unknownIdx // the generator never asks for sub-second expiry
		}
	}
	for k, v := range pin.Metadata {
		p.meta = append(p.meta, [2]int{nameIndex(k), nameIndex(v)})
	}
	sort.Slice(p.meta, func(i, j int) bool {
		if p.meta[i][0] != p.meta[j][0] {
			return p.meta[i][0] < p.meta[j][0]
		}
		return p.meta[i][1] < p.meta[j][1]
	})
	p.pupdate = -1
	if pin.PinUpdate.Defined() {
		p.pupdate = cidIndex(pin.PinUpdate)
	}
	for _, o := range pin.Origins {
		if o == nil {
			p.origins = append(p.origins, unknownIdx)
			continue
		}
		if i, ok := pinAddrI[string(o.Bytes())]; ok {
			p.origins = append(p.origins, i)
		} else {
			p.origins = append(p.origins, unknownIdx)
		}
	}
	return p
}

// listState prints a state's pinset canonically (sorted by cid index, then by the whole token).
func listPins(st state.ReadOnly) ([]mpin, error) {
	pins, err := st.List(context.Background())
	if err != nil {
		return nil, err
	}
	l := make([]mpin, 0, len(pins))
	for _, p := range pins {
		m := fromAPI(p)
		// the listed pin must also be reachable by key
		got, err := st.Get(context.Background(), p.Cid)
		has, err2 := st.Has(context.Background(), p.Cid)
		if err != nil || err2 != nil || !has || got == nil || fromAPI(got).String() != m.String() {
			m.cid = unknownIdx
		}
		l = append(l, m)
	}
	sort.SliceStable(l, func(i, j int) bool {
		if l[i].cid != l[j].cid {
			return l[i].cid < l[j].cid
		}
		return l[i].String() < l[j].String()
	})
	return l, nil
}

func rt(ok bool, st state.ReadOnly) string {
	l, err := listPins(st)
	if err != nil {
		return "err;?"
	}
	if ok {
		return "ok;" + showPins(l)
	}
	return "err;" + showPins(l)
}

type pinsCase struct {
	damage int
	gen    []mpin
	prior  []mpin
	expc   bool // also run the crdt chain
	badger bool // … with the badger-backed crdt state manager instead of the leveldb one
	start  bool // also start a raft peer on the snapshot
}

func (c pinsCase) input() string {
	// the route selection is part of the input so that a replay runs the same routes
	d := c.damage
	if c.expc {
		d += 100
	}
	if c.badger {
		d += 100 // 200: crdt chain over badger
	}
	if c.start {
		d += 1000
	}
	return fmt.Sprintf("C14 pins %d %s %s", d, showPins(c.gen), showPins(c.prior))
}

func parsePinsCase(f []string) (pinsCase, bool) {
	if len(f) != 3 {
		return pinsCase{}, false
	}
	d, err := strconv.Atoi(f[0])
	if err != nil {
		return pinsCase{}, false
	}
	var c pinsCase
	if d >= 1000 {
		c.start = true
		d -= 1000
	}
	if d >= 200 {
		c.expc, c.badger = true, true
		d -= 200
	}
	if d >= 100 {
		c.expc = true
		d -= 100
	}
	c.damage = d
	var ok1, ok2 bool
	c.gen, ok1 = parsePins(f[1])
	c.prior, ok2 = parsePins(f[2])
	return c, ok1 && ok2
}

func newMemState(pins []mpin, dstore ds.Datastore, ns string) (*dsstate.State, error) {
	st, err := dsstate.New(dstore, ns, nil)
	if err != nil {
		return nil, err
	}
	for _, p := range pins {
		if err := st.Add(context.Background(), p.toAPI()); err != nil {
			return nil, err
		}
	}
	return st, nil
}

func raftCfg(folder string, keep int) *raft.Config {
	cfg := &raft.Config{}
	cfg.Default()
	cfg.DataFolder = folder
	cfg.BackupsRotate = keep
	return cfg
}

func raftManager(dir string) (cmdutils.StateManager, *raft.Config, error) {
	rc := raftCfg(filepath.Join(dir, "raft"), 3)
	cc := &crdt.Config{}
	cc.Default()
	cl := &ipfscluster.Config{}
	cl.BaseDir = dir
	cfgs := &cmdutils.Configs{Raft: rc, Crdt: cc, Cluster: cl}
	m, err := cmdutils.NewStateManager("raft", "", &config.Identity{ID: peerTab[0]}, cfgs)
	return m, rc, err
}

// crdt state manager over a badger datastore in <dir>/badger
func crdtManagerBadger(dir string) (cmdutils.StateManager, error) {
	rc := raftCfg(filepath.Join(dir, "raft"), 3)
	cc := &crdt.Config{}
	cc.Default()
	bc := &badger.Config{}
	bc.Default()
	bc.BaseDir = dir
	cl := &ipfscluster.Config{}
	cl.BaseDir = dir
	cfgs := &cmdutils.Configs{Raft: rc, Crdt: cc, Cluster: cl, Badger: bc}
	return cmdutils.NewStateManager("crdt", "badger", &config.Identity{ID: peerTab[0]}, cfgs)
}

func crdtManager(dir string) (cmdutils.StateManager, error) {
	rc := raftCfg(filepath.Join(dir, "raft"), 3)
	cc := &crdt.Config{}
	cc.Default()
	lc := &leveldb.Config{}
	lc.Default()
	lc.BaseDir = dir
	cl := &ipfscluster.Config{}
	cl.BaseDir = dir
	cfgs := &cmdutils.Configs{Raft: rc, Crdt: cc, Cluster: cl, LevelDB: lc}
	bc := cfgs // badger config is only dereferenced for its key
	_ = bc
	return cmdutils.NewStateManager("crdt", "leveldb", &config.Identity{ID: peerTab[0]}, cfgs)
}

// damageStream cuts or garbles an export stream.
func damageStream(kind int, b []byte) []byte {
	switch kind {
	case 1: // a document that never ends
		return append(append([]byte{}, b...), []byte("{\"cid\":")...)
	case 2: // garbage in front
		return append([]byte("not json\n"), b...)
	case 3: // cut in the middle; an opened document follows so that a cut on a document boundary is an error too
		return append(append([]byte{}, b[:len(b)/2]...), []byte("{")...)
	// 4-7 only reshape the stream: it still is the same sequence of JSON documents
	case 4: // no newline after the last document
		return bytes.TrimRight(b, "\n")
	case 5: // white space in front of, between and after the documents
		return append([]byte(" \n\t\r\n"), bytes.ReplaceAll(b, []byte("\n"), []byte("\n \t\n\n"))...)
	case 6: // all documents on one line, nothing between them
		return bytes.ReplaceAll(b, []byte("\n"), nil)
	case 7: // CRLF line ends
		return bytes.ReplaceAll(b, []byte("\n"), []byte("\r\n"))
	case 8: // two exports of the same state, one after the other
		return append(append([]byte{}, b...), b...)
	case 9: // a record without "cid" at the end
		return append(append([]byte{}, b...), []byte("{\"name\":\"simple\",\"type\":2,\"max_depth\":-1}\n")...)
	case 10: // complete documents, then a line that is not JSON
		return append(append([]byte{}, b...), []byte("garbage\n")...)
	case 11: // the first document once more at the end (a duplicate cid, same content)
		if i := bytes.IndexByte(b, '\n'); i >= 0 {
			return append(append([]byte{}, b...), b[:i+1]...)
		}
	case 12: // a CHANGED copy (another name) of the first document in front: the later, original document must win
		if i := bytes.IndexByte(b, '\n'); i >= 0 {
			first := bytes.Replace(b[:i+1], []byte("\"name\":\""), []byte("\"name\":\"changed "), 1)
			return append(append([]byte{}, first...), b...)
		}
	}
	return b
}

func safely(f func() error) (err error) {
	defer func() {
		if r := recover(); r != nil {
			err = fmt.Errorf("panic: %v\n%s", r, debug.Stack())
		}
		if err != nil {
			fmt.Fprintln(os.Stderr, "c14 pins: step failed:", err)
		}
	}()
	return f()
}

func managerList(m cmdutils.StateManager, ok bool) string {
	store, err := m.GetStore()
	if err != nil {
		return "err;?"
	}
	defer store.Close()
	st, err := m.GetOfflineState(store)
	if err != nil {
		return "err;?"
	}
	return rt(ok, st)
}

var pids = []peer.ID{common.PeerN(0)}

var otherNsKey = ds.NewKey("/verifother/key")

// comment lines to print after the current case line
var comments []string

func runPins(c pinsCase) string {
	ctx := context.Background()
	dir := scratch("pins")
	defer os.RemoveAll(dir)
	res := map[string]string{"crdt": "-", "oth": "-", "exp": "-", "expc": "-", "mar": "-", "marx": "-", "snap": "-", "start": "-"}

	src, err := newMemState(c.gen, dssync.MutexWrap(ds.NewMapDatastore()), "/src")
	if err != nil {
		return "src=? adderr"
	}
	srcList, err := listPins(src)
	if err != nil {
		return "src=? listerr"
	}

	// (c) Marshal -> Unmarshal onto a state holding `prior`
	func() {
		var buf bytes.Buffer
		tgt, err := newMemState(c.prior, dssync.MutexWrap(ds.NewMapDatastore()), "/tgt")
		if err != nil {
			res["mar"] = "err;?"
			return
		}
		err = safely(func() error {
			if err := src.Marshal(&buf); err != nil {
				return err
			}
			return tgt.Unmarshal(&buf)
		})
		res["mar"] = rt(err == nil, tgt)
	}()

	// (c') a cut Marshal stream: Unmarshal must still have emptied the target first
	if c.damage >= 1 && c.damage <= 3 {
		func() {
			var buf bytes.Buffer
			tgt, err := newMemState(c.prior, dssync.MutexWrap(ds.NewMapDatastore()), "/tgt")
			if err != nil {
				res["marx"] = "err;?"
				return
			}
			err = safely(func() error {
				if err := src.Marshal(&buf); err != nil {
					return err
				}
				b := buf.Bytes()
				return tgt.Unmarshal(bytes.NewReader(b[:len(b)/2]))
			})
			res["marx"] = rt(err == nil, tgt)
		}()
	}

	// (b) SnapshotSave -> OfflineState onto a store holding `prior`
	cfgA := raftCfg(filepath.Join(dir, "A", "raft"), 3)
	func() {
		store := inmem.New()
		if _, err := newMemState(c.prior, store, cfgA.DatastoreNamespace); err != nil {
			res["snap"] = "err;?"
			return
		}
		var st state.State
		err := safely(func() error {
			if err := raft.SnapshotSave(cfgA, src, pids); err != nil {
				return err
			}
			var e error
			st, e = raft.OfflineState(cfgA, store)
			return e
		})
		if err != nil || st == nil {
			res["snap"] = "err;-"
			return
		}
		res["snap"] = rt(true, st)
	}()

	// (a) raft state manager export -> raft state manager import over `prior`
	var exported []byte
	exportOK := false
	func() {
		mgrA, _, err := raftManager(filepath.Join(dir, "A"))
		if err != nil {
			res["exp"] = "err;?"
			return
		}
		mgrB, cfgB, err := raftManager(filepath.Join(dir, "B"))
		if err != nil {
			res["exp"] = "err;?"
			return
		}
		if len(c.prior) > 0 {
			pst, err := newMemState(c.prior, inmem.New(), cfgB.DatastoreNamespace)
			if err != nil || raft.SnapshotSave(cfgB, pst, pids) != nil {
				res["exp"] = "err;?"
				return
			}
		}
		var buf bytes.Buffer
		if err := safely(func() error { return mgrA.ExportState(&buf) }); err != nil {
			res["exp"] = managerList(mgrB, false)
			return
		}
		exported = buf.Bytes()
		exportOK = true
		err = safely(func() error { return mgrB.ImportState(bytes.NewReader(damageStream(c.damage, exported))) })
		res["exp"] = managerList(mgrB, err == nil)
	}()

	// (a') … -> crdt state manager import over `prior` -> crdt export -> raft import into an empty folder
	if c.expc {
		func() {
			mk := crdtManager
			if c.badger {
				mk = crdtManagerBadger
			}
			mgrC, err := mk(filepath.Join(dir, "C"))
			if err != nil {
				res["expc"] = "err;?"
				return
			}
			if len(c.prior) > 0 {
				err := func() error {
					store, err := mgrC.GetStore()
					if err != nil {
						return err
					}
					defer store.Close()
					// a key OUTSIDE the crdt namespace of the shared datastore: crdt.Clean must leave it
					if err := store.Put(otherNsKey, []byte("kept")); err != nil {
						return err
					}
					st, err := mgrC.GetOfflineState(store)
					if err != nil {
						return err
					}
					for _, p := range c.prior {
						if err := st.Add(ctx, p.toAPI()); err != nil {
							return err
						}
					}
					return st.(state.BatchingState).Commit(ctx)
				}()
				if err != nil {
					res["expc"] = "err;?"
					return
				}
			}
			if !exportOK {
				res["expc"] = managerList(mgrC, false)
				return
			}
			err = safely(func() error { return mgrC.ImportState(bytes.NewReader(damageStream(c.damage, exported))) })
			// what crdt.OfflineState reads from the crdt namespace right after the import
			res["crdt"] = managerList(mgrC, err == nil)
			if len(c.prior) > 0 {
				res["oth"] = "0"
				if store, e := mgrC.GetStore(); e != nil {
					res["oth"] = "?"
				} else {
					if has, e := store.Has(otherNsKey); e == nil && has {
						res["oth"] = "1"
					}
					store.Close()
				}
			}
			if err != nil {
				res["expc"] = managerList(mgrC, false)
				return
			}
			var buf2 bytes.Buffer
			if err := safely(func() error { return mgrC.ExportState(&buf2) }); err != nil {
				res["expc"] = "err;-"
				return
			}
			mgrD, _, err := raftManager(filepath.Join(dir, "D"))
			if err != nil {
				res["expc"] = "err;?"
				return
			}
			err = safely(func() error { return mgrD.ImportState(&buf2) })
			res["expc"] = managerList(mgrD, err == nil)
		}()
	}

	// (b') start a Raft peer on a folder holding the snapshot
	if c.start {
		res["start"] = startOnSnapshot(filepath.Join(dir, "S", "raft"), src)
		if res["start"] == "-" {
			comments = append(comments, "# inconclusive start: no Raft leader within the timeout (3 attempts)")
		}
	}

	return fmt.Sprintf("src=%s exp=%s expc=%s mar=%s snap=%s start=%s marx=%s crdt=%s oth=%s", showPins(srcList),
		res["exp"], res["expc"], res["mar"], res["snap"], res["start"], res["marx"], res["crdt"], res["oth"])
}

// startOnSnapshot saves the state as a snapshot for a single-peer cluster and starts the
// real Raft consensus component on that folder; returns what its State() lists.
func startOnSnapshot(folder string, src state.State) string {
	ctx := context.Background()
	for attempt := 0; attempt < 3; attempt++ {
		os.RemoveAll(filepath.Dir(folder))
		h, err := libp2p.New(ctx, libp2p.ListenAddrStrings("/ip4/127.0.0.1/tcp/0"))
		if err != nil {
			continue
		}
		cfg := raftCfg(folder, 3)
		r := func() string {
			defer h.Close()
			if err := raft.SnapshotSave(cfg, src, []peer.ID{h.ID()}); err != nil {
				return "err;-"
			}
			cc, err := raft.NewConsensus(h, cfg, inmem.New(), false)
			if err != nil {
				return ""
			}
			defer cc.Shutdown(ctx)
			cc.SetClient(rpc.NewClientWithServer(h, "verif", rpc.NewServer(h, "verif")))
			select {
			case <-cc.Ready(ctx):
			case <-time.After(30 * time.Second):
				return ""
			}
			st, err := cc.State(ctx)
			if err != nil {
				return ""
			}
			return rt(true, st)
		}()
		if r != "" {
			return r
		}
	}
	return "-" // infrastructure (no leader in time): not run
}

var _ = cid.Undef
var _ ma.Multiaddr

// ---------------------------------------------------------------------------
// generator

func subset(r *common.Rng, n, pct int) []int {
	var l []int
	for i := 0; i < n; i++ {
		if r.Chance(pct, 100) {
			l = append(l, i)
		}
	}
	for i := len(l) - 1; i > 0; i-- {
		j := r.Intn(i + 1)
		l[i], l[j] = l[j], l[i]
	}
	return l
}

const maxJSONTime = 253402300799

func genPin(r *common.Rng, cidx int, wild bool) mpin {
	var p mpin
	p.cid = cidx
	p.ptype = []uint64{2, 2, 2, 4, 8, 16}[r.Intn(6)]
	p.allocs = subset(r, 6, []int{0, 30, 60}[r.Intn(3)])
	p.depth = []int64{-1, -1, -1, 0, 0, 1, 2}[r.Intn(7)]
	p.ref = -1
	if r.Chance(1, 3) {
		p.ref = r.Intn(nCids)
	}
	switch r.Intn(4) {
	case 0:
		p.rmin, p.rmax = -1, -1
	case 1:
		p.rmin, p.rmax = 0, 0
	default:
		p.rmin = int64(r.Range(1, 3))
		p.rmax = p.rmin + int64(r.Intn(3))
	}
	if r.Chance(1, 3) {
		p.name = r.Intn(len(nameTab))
	}
	p.mode = 0
	if p.depth == 0 {
		p.mode = 1
	}
	p.shard = []uint64{0, 0, 0, 1, 1 << 20, 18446744073709551615}[r.Intn(6)]
	p.expire = []uint64{0, 0, 0, 1, 1600000000, 4102444800, maxJSONTime}[r.Intn(7)]
	nm := []int{0, 0, 1, 2, 4}[r.Intn(5)]
	keys := subset(r, len(nameTab), 100)
	if nm > len(keys) {
		nm = len(keys)
	}
	keys = keys[:nm]
	sort.Ints(keys)
	for _, k := range keys {
		p.meta = append(p.meta, [2]int{k, r.Intn(len(nameTab))})
	}
	p.pupdate = -1
	if r.Chance(1, 5) {
		p.pupdate = r.Intn(nCids)
	}
	if r.Chance(1, 25) {
		p.origins = subset(r, len(pinAddrs), 40)
	}
	if r.Chance(1, 6) {
		p.ualloc = subset(r, 6, 40)
	}
	if r.Chance(1, 8) {
		p.mode = 1 - p.mode // inconsistent with the depth: the state derives it from the depth
	}
	if wild { // not well-formed in one way
		switch r.Intn(6) {
		case 0:
			p.ptype = []uint64{0, 1, 6, 32, 31}[r.Intn(5)]
		case 1:
			p.depth = []int64{2147483648, -2147483649, 4294967296}[r.Intn(3)]
		case 2:
			p.rmin = 8589934593
		case 3:
			p.rmax = -4294967297
		case 4:
			p.expire = maxJSONTime + 1 + uint64(r.Intn(3))*1000000
		case 5:
			p.ptype = 3
		}
	}
	return p
}

func genPinset(r *common.Rng, n int, cidSpace int, wildPct int) []mpin {
	var l []mpin
	for i := 0; i < n; i++ {
		l = append(l, genPin(r, r.Intn(cidSpace), r.Chance(wildPct, 100)))
	}
	return l
}

func genPinsCase(r *common.Rng, k, total int, tier string) pinsCase {
	var c pinsCase
	sizes := []int{0, 1, 2, 3, 5, 8, 13}
	if k > total/2 {
		sizes = append(sizes, 21, 40)
	}
	n := sizes[r.Intn(len(sizes))]
	// a small cid space makes re-adds (replace) and overlap with the prior content likely
	space := []int{4, 12, nCids}[r.Intn(3)]
	wild := []int{0, 0, 0, 3}[r.Intn(4)]
	c.gen = genPinset(r, n, space, wild)
	if r.Chance(2, 3) {
		c.prior = genPinset(r, []int{1, 2, 4, 9}[r.Intn(4)], space, 0)
		for i := range c.prior {
			c.prior[i].origins = nil
		}
	}
	if r.Chance(1, 10) {
		c.damage = []int{1, 2, 3, 10}[r.Intn(4)]
	} else if r.Chance(1, 4) {
		c.damage = []int{4, 5, 6, 7, 8, 9, 11, 12}[r.Intn(8)]
	}
	c.expc = k%4 == 1
	c.badger = k%8 == 5
	startEvery := 97
	if tier == "thorough" {
		startEvery = 61
	}
	c.start = k%startEvery == 5
	return c
}
