package main

// Crash points. The REAL functions (raft.CleanupRaft, raft.SnapshotSave, the raft state manager's
// ImportState, pstoremgr.SavePeerstore) run in a child process (this binary, `-child …`) under
// `strace -e inject=<set>:signal=KILL:when=K`: the child is killed on entering its K-th system call of
// the set (mkdir/rename/unlink family for the folder operations; openat/write on the peerstore
// file), i.e. after exactly K-1 of them were carried out. For K = 1, 2, … until the child
// survives, the parent reads the directory back (observeDirs: every folder through the real
// LastStateRaw/OfflineState), then restarts the same operation uninterrupted on the crashed
// directory and reads it again.
//
//   C14 crash <keep> <m> <data> <olds> <op> => <st>><rr> <st>><rr> … <st>>.      op = c | s<n> | i<n> | x<n>
//   C14 pscrash <old lines> <new pinfos> => kill=<loaded>|<loaded>|… cut=<bad>.<bare>.<full>.<mismatch>
//
// (consecutive equal observations are collapsed; the last one is the run that was not killed).

import (
	"bytes"
	"context"
	"fmt"
	"io"
	"os"
	"os/exec"
	"path/filepath"
	"runtime"
	"strconv"
	"strings"
	"sync"

	ipfscluster "github.com/ipfs/ipfs-cluster"
	"github.com/ipfs/ipfs-cluster/cmdutils"
	"github.com/ipfs/ipfs-cluster/config"
	"github.com/ipfs/ipfs-cluster/consensus/crdt"
	"github.com/ipfs/ipfs-cluster/consensus/raft"
	"github.com/ipfs/ipfs-cluster/pstoremgr"
	peer "github.com/libp2p/go-libp2p-core/peer"
	ma "github.com/multiformats/go-multiaddr"

	"verifharness/common"
)

const maxKill = 400

type crashCase struct {
	keep int
	m    int
	data string
	olds []string
	op   string
}

func (c crashCase) input() string {
	return fmt.Sprintf("C14 crash %d %d %s %s %s", c.keep, c.m, c.data, strings.Join(c.olds, ","), c.op)
}

func parseCrashCase(f []string) (crashCase, bool) {
	if len(f) != 5 {
		return crashCase{}, false
	}
	var c crashCase
	var e1, e2 error
	c.keep, e1 = strconv.Atoi(f[0])
	c.m, e2 = strconv.Atoi(f[1])
	if e1 != nil || e2 != nil || c.keep < 1 || c.m < 1 || c.m > 20 {
		return c, false
	}
	c.data = f[2]
	c.olds = strings.Split(f[3], ",")
	if !validFolderTok(c.data) || len(c.olds) != c.m {
		return c, false
	}
	for _, o := range c.olds {
		if !validFolderTok(o) {
			return c, false
		}
	}
	c.op = f[4]
	if c.op != "c" {
		if len(c.op) < 2 || !strings.ContainsRune("six", rune(c.op[0])) {
			return c, false
		}
		n, err := strconv.Atoi(c.op[1:])
		if err != nil || n < 0 || n >= nCids {
			return c, false
		}
	}
	return c, true
}

// raft state manager over <base>/raft with the given retention
func raftManagerKeep(base string, keep int) cmdutils.StateManager {
	rc := raftCfg(filepath.Join(base, "raft"), keep)
	cc := &crdt.Config{}
	cc.Default()
	cl := &ipfscluster.Config{}
	cl.BaseDir = filepath.Join(base, "x")
	cfgs := &cmdutils.Configs{Raft: rc, Crdt: cc, Cluster: cl}
	m, err := cmdutils.NewStateManager("raft", "", &config.Identity{ID: peerTab[0]}, cfgs)
	if err != nil {
		fatal("raft manager: %v", err)
	}
	return m
}

// the export stream of the pinset {CidN(n)} (n = 0: the empty pinset), optionally followed by garbage
func exportOfTag(n int, garbage bool) []byte {
	var b bytes.Buffer
	dir := scratch("crash-exp")
	defer os.RemoveAll(dir)
	if err := raft.SnapshotSave(raftCfg(filepath.Join(dir, "raft"), 1), tagState(n), pids); err != nil {
		fatal("export setup: %v", err)
	}
	if err := raftManagerKeep(dir, 1).ExportState(&b); err != nil {
		fatal("export: %v", err)
	}
	if garbage {
		b.WriteString("{\"cid\":")
	}
	return b.Bytes()
}

// doFolderOp runs one real operation on <base>/raft (used by the child and for the restart)
func doFolderOp(base string, keep int, op string, stream []byte) error {
	cfg := raftCfg(filepath.Join(base, "raft"), keep)
	switch op[0] {
	case 'c':
		return raft.CleanupRaft(cfg)
	case 's':
		n, _ := strconv.Atoi(op[1:])
		return raft.SnapshotSave(cfg, tagState(n), pids)
	case 'i', 'x':
		return raftManagerKeep(base, keep).ImportState(bytes.NewReader(stream))
	}
	return fmt.Errorf("unknown op %s", op)
}

func copyTree(src, dst string) error {
	return filepath.Walk(src, func(p string, fi os.FileInfo, err error) error {
		if err != nil {
			return err
		}
		rel, _ := filepath.Rel(src, p)
		t := filepath.Join(dst, rel)
		if fi.IsDir() {
			return os.MkdirAll(t, 0700)
		}
		b, err := os.ReadFile(p)
		if err != nil {
			return err
		}
		return os.WriteFile(t, b, fi.Mode())
	})
}

var selfExe string

// runKilled starts the child under strace with the K-th call of `set` fatal; reports whether the
// child survived (exit 0) and whether the run is usable at all.
func runKilled(set string, pathFilter string, seccomp bool, k int, childArgs ...string) (survived bool, ok bool) {
	if selfExe == "" {
		selfExe, _ = os.Executable()
	}
	args := []string{"-f", "-qq", "-o", "/dev/null"}
	if pathFilter != "" {
		for _, p := range strings.Split(pathFilter, ",") {
			args = append(args, "-P", p)
		}
	}
	if seccomp {
		args = append(args, "--seccomp-bpf")
	}
	args = append(args, "-e", "trace="+set, "-e", fmt.Sprintf("inject=%s:signal=KILL:when=%d", set, k), selfExe)
	args = append(args, childArgs...)
	cmd := exec.Command("strace", args...)
	var eb bytes.Buffer
	cmd.Stderr = &eb
	cmd.Stdout = io.Discard
	err := cmd.Run()
	if err == nil {
		return true, true
	}
	if ee, isExit := err.(*exec.ExitError); isExit {
		// strace kills itself with the tracee's signal, or exits 128+9
		if !ee.Exited() || ee.ExitCode() == 137 {
			return false, true
		}
	}
	fmt.Fprintf(os.Stderr, "c14 crash: child failed: %v %s\n", err, eb.String())
	return false, false
}

type crashObs struct {
	st, rr       string
	survived, ok bool
}

// the three system calls Go's os.MkdirAll / os.Rename / os.RemoveAll make on linux; strace counts
// `when=` per system call, so each gets its own series of kills
var fsCalls = []string{"mkdirat", "unlinkat", "renameat"}

func runCrash(c crashCase) string {
	root := scratch("crash")
	defer os.RemoveAll(root)
	tmpl := filepath.Join(root, "tmpl")
	os.MkdirAll(filepath.Join(tmpl, "x"), 0700)
	data := filepath.Join(tmpl, "raft")
	if err := makeFolder(data, c.data); err != nil {
		return "# inconclusive setup " + c.input()
	}
	for i, o := range c.olds {
		if err := makeFolder(fmt.Sprintf("%s.old.%d", data, i), o); err != nil {
			return "# inconclusive setup " + c.input()
		}
	}
	var stream []byte
	streamFile := filepath.Join(root, "stream")
	if c.op[0] == 'i' || c.op[0] == 'x' {
		n, _ := strconv.Atoi(c.op[1:])
		stream = exportOfTag(n, c.op[0] == 'x')
	}
	os.WriteFile(streamFile, stream, 0600)
	probe := func(call string, k int) (o crashObs) {
		work := filepath.Join(root, fmt.Sprintf("w-%s-%d", call, k))
		defer os.RemoveAll(work)
		if err := copyTree(tmpl, work); err != nil {
			return
		}
		o.survived, o.ok = runKilled(call, "", false, k, "-child", c.op, "-base", work, "-keep", strconv.Itoa(c.keep), "-stream", streamFile)
		if !o.ok {
			return
		}
		o.st = observeDirs(work, "raft", c.m)
		if o.survived {
			return
		}
		// restart: the same operation again, uninterrupted, in this process
		o.rr = "panic"
		func() {
			defer func() { recover() }()
			doFolderOp(work, c.keep, c.op, stream)
			o.rr = observeDirs(work, "raft", c.m)
		}()
		return
	}
	var out []string
	seen := map[string]bool{}
	final := ""
	const batch = 8
	for _, call := range fsCalls {
		done := false
		for k0 := 1; !done; k0 += batch {
			if k0 > maxKill {
				return "# inconclusive too-many-steps " + c.input()
			}
			res := make([]crashObs, batch)
			var wg sync.WaitGroup
			for j := 0; j < batch; j++ {
				wg.Add(1)
				go func(j int) {
					defer wg.Done()
					res[j] = probe(call, k0+j)
				}(j)
			}
			wg.Wait()
			for _, o := range res {
				if !o.ok {
					return "# inconclusive strace " + c.input()
				}
				if o.survived {
					if final != "" && final != o.st {
						out = append(out, o.st+">.") // two uninterrupted runs differ: the driver reports it
					}
					final = o.st
					done = true
					break
				}
				pt := o.st + ">" + o.rr
				if !seen[pt] {
					seen[pt] = true
					out = append(out, pt)
				}
			}
		}
	}
	out = append(out, final+">.")
	return strings.Join(out, " ")
}

// childMain runs one operation and exits (0 also when the operation reports an error: only a kill counts)
func childMain(a common.Args) {
	runtime.LockOSThread()
	initTables()
	op := a.Extra["child"]
	switch op {
	case "psave":
		pinfos, _ := parsePinfoToks(a.Extra["pinfos"])
		pm := pstoremgr.New(context.Background(), nil, a.Extra["file"])
		pm.SavePeerstore(pinfos)
	default:
		keep, _ := strconv.Atoi(a.Extra["keep"])
		stream, _ := os.ReadFile(a.Extra["stream"])
		doFolderOp(a.Extra["base"], keep, op, stream)
	}
	os.Exit(0)
}

// ---- peerstore

type psCrashCase struct {
	old []string // line tokens f<a>p<p>
	new string   // pinfos token  p:a.a/p:a
}

func (c psCrashCase) input() string {
	return fmt.Sprintf("C14 pscrash %s %s", joinOr(c.old, ","), c.new)
}

func parsePinfoToks(s string) ([]peer.AddrInfo, bool) {
	var out []peer.AddrInfo
	if s == "-" || s == "" {
		return out, true
	}
	for _, e := range strings.Split(s, "/") {
		h := strings.Split(e, ":")
		if len(h) != 2 {
			return nil, false
		}
		p, err := strconv.Atoi(h[0])
		if err != nil || p < 0 || p >= nPs {
			return nil, false
		}
		pi := peer.AddrInfo{ID: psTab[p]}
		if h[1] != "-" {
			for _, at := range strings.Split(h[1], ".") {
				ai, err := strconv.Atoi(at)
				if err != nil || ai < 0 || ai >= len(psAddrs) {
					return nil, false
				}
				pi.Addrs = append(pi.Addrs, psAddrs[ai])
			}
		}
		out = append(out, pi)
	}
	return out, true
}

func parsePsCrashCase(f []string) (psCrashCase, bool) {
	if len(f) != 2 {
		return psCrashCase{}, false
	}
	var c psCrashCase
	if f[0] != "-" {
		c.old = strings.Split(f[0], ",")
	}
	for _, t := range c.old {
		if _, ok := lineText(t); !ok || !strings.HasPrefix(t, "f") {
			return c, false
		}
	}
	c.new = f[1]
	_, ok := parsePinfoToks(c.new)
	return c, ok
}

func loadedTokens(path string) string {
	pm := pstoremgr.New(context.Background(), nil, path)
	var toks []string
	for _, a := range pm.LoadPeerstore() {
		toks = append(toks, addrToken(a))
	}
	return joinOr(toks, ",")
}

func runPsCrash(c psCrashCase) string {
	root := scratch("pscrash")
	defer os.RemoveAll(root)
	path := filepath.Join(root, "peerstore")
	var ob bytes.Buffer
	for _, t := range c.old {
		s, _ := lineText(t)
		ob.WriteString(s + "\n")
	}
	var kills []string
	seen := map[string]bool{}
	pinfos, _ := parsePinfoToks(c.new)
	rerunOK := 1
	for _, call := range []string{"openat", "write", "renameat"} {
		done := false
		for k := 1; k <= maxKill; k++ {
			os.Remove(path + ".tmp")
			os.WriteFile(path, ob.Bytes(), 0600)
			survived, ok := runKilled(call, path+","+path+".tmp", false, k, "-child", "psave", "-file", path, "-pinfos", c.new)
			if !ok {
				return "# inconclusive strace " + c.input()
			}
			if survived {
				done = true
				break
			}
			l := loadedTokens(path)
			// restart: save again, uninterrupted
			pstoremgr.New(context.Background(), nil, path).SavePeerstore(pinfos)
			if _, err := os.Stat(path + ".tmp"); err == nil {
				rerunOK = 0
			}
			pt := l + ">" + loadedTokens(path)
			if !seen[pt] {
				seen[pt] = true
				kills = append(kills, pt)
			}
		}
		if !done {
			return "# inconclusive too-many-steps " + c.input()
		}
	}
	stray := 0
	if _, err := os.Stat(path + ".tmp"); err == nil {
		stray = 1
	}
	kills = append(kills, loadedTokens(path)+">.") // the run that was not killed
	// byte-level cuts of the complete new file (a write that was carried out only in part)
	full, _ := os.ReadFile(path)
	lines := strings.Split(strings.TrimSuffix(string(full), "\n"), "\n")
	if len(full) == 0 {
		lines = nil
	}
	nbad, nbare, nfull, nmis := 0, 0, 0, 0
	for b := 0; b <= len(full); b++ {
		os.WriteFile(path, full[:b], 0600)
		// whole lines contained in the cut (a complete text without its "\n" is a whole line)
		var whole []string
		off := 0
		tail := ""
		for _, ln := range lines {
			if off+len(ln) <= b {
				whole = append(whole, ln)
				off += len(ln) + 1
			} else {
				if off < b {
					tail = ln[:b-off]
				}
				break
			}
		}
		var exp []string
		for _, w := range whole {
			exp = append(exp, lineToken(w))
		}
		tailLoads := false
		if tail != "" && tail[0] == '/' {
			if m, err := ma.NewMultiaddr(tail); err == nil {
				tailLoads = true
				if _, err := peer.AddrInfoFromP2pAddr(m); err == nil {
					nfull++
				} else {
					nbare++
				}
			}
		}
		if tail != "" && !tailLoads {
			nbad++
		}
		pm := pstoremgr.New(context.Background(), nil, path)
		got := pm.LoadPeerstore()
		wantLen := len(whole)
		if tailLoads {
			wantLen++
		}
		if len(got) != wantLen {
			nmis++
			continue
		}
		for i := range whole {
			if addrToken(got[i]) != exp[i] {
				nmis++
				break
			}
		}
	}
	return fmt.Sprintf("kill=%s rerun=%d stray=%d cut=%d.%d.%d.%d", strings.Join(kills, "|"), rerunOK, stray, nbad, nbare, nfull, nmis)
}

// ---- generators

func genCrashCase(r *common.Rng, k, total int) crashCase {
	var c crashCase
	c.keep = []int{1, 2, 2, 3, 3, 4}[r.Intn(6)]
	c.m = c.keep + 2
	tag := 1
	next := func() string {
		t := tag
		tag++
		return strconv.Itoa(t)
	}
	c.olds = make([]string, c.m)
	shape := r.Intn(4) // none / partial run / full window / gaps and outside
	for i := range c.olds {
		c.olds[i] = "-"
		switch shape {
		case 1:
			if i < c.keep-1 || (c.keep == 1 && i == 0 && r.Chance(1, 2)) {
				c.olds[i] = next()
			}
		case 2:
			if i < c.keep {
				c.olds[i] = next()
			}
		case 3:
			if r.Chance(2, 3) {
				c.olds[i] = next()
				if r.Chance(1, 8) {
					c.olds[i] = "e"
				}
			}
		}
	}
	switch r.Intn(8) {
	case 0:
		c.data = "-"
	case 1:
		c.data = "e"
	default:
		c.data = next()
	}
	switch r.Intn(6) {
	case 0, 1:
		c.op = "c"
	case 2, 3:
		c.op = "s" + next()
	case 4:
		c.op = "i" + next()
	default:
		c.op = "x" + next()
	}
	return c
}

func genPsCrashCase(r *common.Rng, k, total int) psCrashCase {
	var c psCrashCase
	nold := r.Intn(4)
	for i := 0; i < nold; i++ {
		c.old = append(c.old, fmt.Sprintf("f%dp%d", r.Intn(len(psAddrs)), 1+r.Intn(nPs-1)))
	}
	nnew := r.Intn(4)
	var es []string
	used := map[int]bool{}
	for i := 0; i < nnew; i++ {
		p := 1 + r.Intn(nPs-1)
		if used[p] {
			continue
		}
		used[p] = true
		as := pick(r, 0, len(psAddrs), r.Range(1, 3))
		es = append(es, fmt.Sprintf("%d:%s", p, ints(as, ".")))
	}
	c.new = joinOr(es, "/")
	return c
}
