package main

// Suite `start`: a Raft data folder as (snapshots, log), built by a REAL single-node Raft peer, then
// `state import` (the real cmdutils raft state manager) onto it, the offline read, and the STARTED peer.
//
//   C14 start <ops> <end> <act> <imp> => built=<cids> pre=<snapidx|->:<lastidx> preoff=<cids> off=<cids>
//                                        post=<snapidx|->:<lastidx> old0=<cids|none> start=<cids|?>
//
//   <ops>  `-` or a comma list of p<n> (LogPin of CidN(n)), u<n> (LogUnpin), S (graceful shutdown — which takes a
//          snapshot — and start again); `none` = no peer ever ran (no data folder)
//   <end>  k = the peer is killed (the folder is copied while it runs: log, and no snapshot newer than the last S)
//          g = graceful shutdown (snapshot on shutdown)
//   <act>  i = import <imp> then start;  r = start again without import
//   <imp>  the imported pinset (cids; `e` = the empty pinset)
//
// cids lists are sorted, `e` = empty.

import (
	"bytes"
	"context"
	"crypto/rand"
	"fmt"
	"os"
	"path/filepath"
	"sort"
	"strconv"
	"strings"
	"sync"
	"sync/atomic"
	"time"

	ipfscluster "github.com/ipfs/ipfs-cluster"
	"github.com/ipfs/ipfs-cluster/api"
	"github.com/ipfs/ipfs-cluster/cmdutils"
	"github.com/ipfs/ipfs-cluster/config"
	"github.com/ipfs/ipfs-cluster/consensus/crdt"
	"github.com/ipfs/ipfs-cluster/consensus/raft"
	"github.com/ipfs/ipfs-cluster/datastore/inmem"
	"github.com/ipfs/ipfs-cluster/state"
	"github.com/ipfs/ipfs-cluster/state/dsstate"

	hraft "github.com/hashicorp/raft"
	raftboltdb "github.com/hashicorp/raft-boltdb"
	libp2p "github.com/libp2p/go-libp2p"
	crypto "github.com/libp2p/go-libp2p-core/crypto"
	peer "github.com/libp2p/go-libp2p-core/peer"
	rpc "github.com/libp2p/go-libp2p-gorpc"

	"verifharness/common"
)

type startCase struct {
	ops []string // p<n> u<n> S ; nil with none=true: no folder
	nof bool
	end string // k | g
	act string // i | r
	imp []int
}

func showCids(l []int) string {
	if len(l) == 0 {
		return "e"
	}
	s := append([]int(nil), l...)
	sort.Ints(s)
	return ints(s, ",")
}

func parseCids(s string) ([]int, bool) {
	if s == "e" {
		return nil, true
	}
	var out []int
	for _, w := range strings.Split(s, ",") {
		n, err := strconv.Atoi(w)
		if err != nil || n <= 0 || n >= len(cidTab) {
			return nil, false
		}
		out = append(out, n)
	}
	return out, true
}

func (c startCase) input() string {
	ops := "-"
	if c.nof {
		ops = "none"
	} else if len(c.ops) > 0 {
		ops = strings.Join(c.ops, ",")
	}
	return fmt.Sprintf("C14 start %s %s %s %s", ops, c.end, c.act, showCids(c.imp))
}

func parseStartCase(f []string) (startCase, bool) {
	var c startCase
	if len(f) != 4 {
		return c, false
	}
	switch f[0] {
	case "none":
		c.nof = true
	case "-":
	default:
		for _, w := range strings.Split(f[0], ",") {
			if w == "S" {
				c.ops = append(c.ops, w)
				continue
			}
			if len(w) < 2 || (w[0] != 'p' && w[0] != 'u') {
				return c, false
			}
			n, err := strconv.Atoi(w[1:])
			if err != nil || n <= 0 || n >= len(cidTab) {
				return c, false
			}
			c.ops = append(c.ops, w)
		}
	}
	if (f[1] != "k" && f[1] != "g") || (f[2] != "i" && f[2] != "r") {
		return c, false
	}
	c.end, c.act = f[1], f[2]
	var ok bool
	c.imp, ok = parseCids(f[3])
	return c, ok
}

func startRaftCfg(folder string) *raft.Config {
	cfg := raftCfg(folder, 3)
	// a single voter elects itself; short timeouts keep a start well under a second
	cfg.RaftConfig.HeartbeatTimeout = 200 * time.Millisecond
	cfg.RaftConfig.ElectionTimeout = 200 * time.Millisecond
	cfg.RaftConfig.LeaderLeaseTimeout = 200 * time.Millisecond
	cfg.RaftConfig.CommitTimeout = 20 * time.Millisecond
	return cfg
}

type startedPeer struct {
	cc   *raft.Consensus
	stop func()
}

// bootPeer starts the real Raft consensus component (single peer, identity priv) on the folder
func bootPeer(priv crypto.PrivKey, folder string) (*startedPeer, error) {
	ctx := context.Background()
	h, err := libp2p.New(ctx, libp2p.Identity(priv), libp2p.ListenAddrStrings("/ip4/127.0.0.1/tcp/0"))
	if err != nil {
		return nil, err
	}
	cc, err := raft.NewConsensus(h, startRaftCfg(folder), inmem.New(), false)
	if err != nil {
		h.Close()
		return nil, err
	}
	cc.SetClient(rpc.NewClientWithServer(h, "verif", rpc.NewServer(h, "verif")))
	sp := &startedPeer{cc: cc, stop: func() { cc.Shutdown(ctx); h.Close() }}
	select {
	case <-cc.Ready(ctx):
	case <-time.After(30 * time.Second):
		sp.stop()
		return nil, fmt.Errorf("not ready in 30s")
	}
	return sp, nil
}

func cidsOf(st state.ReadOnly) (string, error) {
	l, err := listPins(st)
	if err != nil {
		return "", err
	}
	var out []int
	for _, p := range l {
		out = append(out, p.cid)
	}
	return showCids(out), nil
}

// folderIdx reads <newest snapshot index|->:<last log index> of a data folder that no peer has open
func folderIdx(folder string) string {
	snap := "-"
	if _, err := os.Stat(filepath.Join(folder, "snapshots")); err == nil {
		if ss, err := hraft.NewFileSnapshotStoreWithLogger(folder, 5, nil); err == nil {
			if l, err := ss.List(); err == nil && len(l) > 0 {
				snap = strconv.FormatUint(l[0].Index, 10)
			}
		}
	}
	last := uint64(0)
	if _, err := os.Stat(filepath.Join(folder, "raft.db")); err == nil {
		if b, err := raftboltdb.NewBoltStore(filepath.Join(folder, "raft.db")); err == nil {
			last, _ = b.LastIndex()
			b.Close()
		} else {
			return snap + ":?"
		}
	}
	return fmt.Sprintf("%s:%d", snap, last)
}

func offlineCids(folder string) string {
	if _, err := os.Stat(folder); err != nil {
		return "none"
	}
	st, err := raft.OfflineState(raftCfg(folder, 3), inmem.New())
	if err != nil {
		return "?"
	}
	s, err := cidsOf(st)
	if err != nil {
		return "?"
	}
	return s
}

func startManager(base string, id peer.ID) cmdutils.StateManager {
	rc := raftCfg(filepath.Join(base, "raft"), 3)
	cc := &crdt.Config{}
	cc.Default()
	cl := &ipfscluster.Config{}
	cl.BaseDir = base
	cfgs := &cmdutils.Configs{Raft: rc, Crdt: cc, Cluster: cl}
	m, err := cmdutils.NewStateManager("raft", "", &config.Identity{ID: id}, cfgs)
	if err != nil {
		fatal("raft manager: %v", err)
	}
	return m
}

// exportOfCids: the real export stream of the pinset
func exportOfCids(cids []int, id peer.ID) []byte {
	dir := scratchU("start-exp")
	defer os.RemoveAll(dir)
	st, _ := dsstate.New(inmem.New(), "/imp", nil)
	for _, n := range cids {
		st.Add(context.Background(), api.PinCid(cidTab[n]))
	}
	if err := raft.SnapshotSave(raftCfg(filepath.Join(dir, "raft"), 1), st, []peer.ID{id}); err != nil {
		fatal("export setup: %v", err)
	}
	var b bytes.Buffer
	if err := startManager(dir, id).ExportState(&b); err != nil {
		fatal("export: %v", err)
	}
	return b.Bytes()
}

// The start cases spend their time waiting (elections, shutdowns): they run `startWorkers` at a time, each in its own
// scratch directories; the lines are printed in case order.
const startWorkers = 4

var startMu sync.Mutex
var startSeq uint64

func scratchU(name string) string {
	return scratch(fmt.Sprintf("%s-%d", name, atomic.AddUint64(&startSeq, 1)))
}

func runStartBatch(cs []startCase, out *common.Out) {
	if len(cs) == 0 {
		return
	}
	res := make([]string, len(cs))
	var wg sync.WaitGroup
	next := int64(-1)
	for w := 0; w < startWorkers; w++ {
		wg.Add(1)
		go func() {
			defer wg.Done()
			for {
				i := int(atomic.AddInt64(&next, 1))
				if i >= len(cs) {
					return
				}
				res[i] = runStart(cs[i])
			}
		}()
	}
	wg.Wait()
	for i, c := range cs {
		out.Line("%s => %s", c.input(), res[i])
	}
}

func runStart(c startCase) string {
	for attempt := 0; attempt < 3; attempt++ {
		if r, ok := runStartOnce(c); ok {
			return r
		}
	}
	startMu.Lock()
	comments = append(comments, "# inconclusive start: no leader in time")
	startMu.Unlock()
	return "built=? pre=-:0 preoff=? off=? post=-:0 old0=? start=?"
}

func runStartOnce(c startCase) (string, bool) {
	ctx := context.Background()
	priv, pub, err := crypto.GenerateEd25519Key(rand.Reader)
	if err != nil {
		return "", false
	}
	id, _ := peer.IDFromPublicKey(pub)
	live := scratchU("start-live")
	base := scratchU("start-base")
	defer os.RemoveAll(live)
	defer os.RemoveAll(base)
	liveFolder := filepath.Join(live, "raft")
	folder := filepath.Join(base, "raft")

	built := "e"
	if !c.nof {
		sp, err := bootPeer(priv, liveFolder)
		if err != nil {
			return "", false
		}
		for _, op := range c.ops {
			if op == "S" {
				sp.stop()
				if sp, err = bootPeer(priv, liveFolder); err != nil {
					return "", false
				}
				continue
			}
			n, _ := strconv.Atoi(op[1:])
			if op[0] == 'p' {
				err = sp.cc.LogPin(ctx, api.PinCid(cidTab[n]))
			} else {
				err = sp.cc.LogUnpin(ctx, api.PinCid(cidTab[n]))
			}
			if err != nil {
				sp.stop()
				return "", false
			}
		}
		st, err := sp.cc.State(ctx)
		if err == nil {
			built, err = cidsOf(st)
		}
		if err != nil {
			sp.stop()
			return "", false
		}
		if c.end == "k" {
			// the peer dies here: what is on disk now is what the next start finds
			err = copyTree(liveFolder, folder)
			sp.stop()
			if err != nil {
				return "", false
			}
		} else {
			sp.stop()
			if err := os.Rename(liveFolder, folder); err != nil {
				return "", false
			}
		}
	}
	pre := folderIdx(folder)
	preoff := offlineCids(folder)
	if preoff == "none" {
		preoff = "e"
	}

	off, old0 := "-", "-"
	if c.act == "i" {
		m := startManager(base, id)
		if err := safely(func() error { return m.ImportState(bytes.NewReader(exportOfCids(c.imp, id))) }); err != nil {
			off = "err"
		} else {
			off = offlineCids(folder)
		}
		old0 = offlineCids(folder + ".old.0")
	}
	post := folderIdx(folder)

	sp, err := bootPeer(priv, folder)
	if err != nil {
		return "", false
	}
	started := "?"
	if st, err := sp.cc.State(ctx); err == nil {
		if s, err := cidsOf(st); err == nil {
			started = s
		}
	}
	sp.stop()
	return fmt.Sprintf("built=%s pre=%s preoff=%s off=%s post=%s old0=%s start=%s", built, pre, preoff, off, post, old0, started), true
}

func genStartCase(r *common.Rng, k, total int) startCase {
	var c startCase
	c.end = "k"
	if r.Intn(4) == 0 {
		c.end = "g"
	}
	c.act = "i"
	if r.Intn(5) == 0 {
		c.act = "r"
	}
	space := 2 + r.Intn(6)
	switch r.Intn(8) {
	case 0:
		c.nof = true
		c.end = "g"
	case 1: // a peer that ran and committed nothing
	default:
		n := 1 + r.Intn(6)
		for i := 0; i < n; i++ {
			switch x := r.Intn(10); {
			case x < 6:
				c.ops = append(c.ops, fmt.Sprintf("p%d", 1+r.Intn(space)))
			case x < 8:
				c.ops = append(c.ops, fmt.Sprintf("u%d", 1+r.Intn(space)))
			default:
				c.ops = append(c.ops, "S")
			}
		}
	}
	seen := map[int]bool{}
	for i, n := 0, r.Intn(4); i < n; i++ {
		x := 1 + r.Intn(space+2)
		if !seen[x] {
			seen[x] = true
			c.imp = append(c.imp, x)
		}
	}
	sort.Ints(c.imp)
	return c
}
