package main

import (
	"crypto/sha256"
	"fmt"
	"os"
	"sort"
	"strconv"
	"strings"

	cid "github.com/ipfs/go-cid"
	crypto "github.com/libp2p/go-libp2p-core/crypto"
	peer "github.com/libp2p/go-libp2p-core/peer"
	ma "github.com/multiformats/go-multiaddr"
	madns "github.com/multiformats/go-multiaddr-dns"

	"verifharness/common"
)

// Naming tables: the Lean side sees only the indices.

const (
	nCids  = 96 // CidN(i): both CID versions, raw and dag-pb
	nPeers = 12 // allocation peers (sha2-256 peer IDs)
	nPs    = 24 // peerstore peers: even = ed25519 identity IDs, odd = sha2-256 IDs
	// unknown value marker
	unknownIdx = 9999
)

var (
	cidTab   []cid.Cid
	cidIdx   = map[string]int{}
	peerTab  []peer.ID
	peerIdx  = map[peer.ID]int{}
	psKeys   []crypto.PrivKey
	psTab    []peer.ID
	psIdx    = map[peer.ID]int{}
	nameTab  []string
	nameIdx  = map[string]int{}
	pinAddrs []ma.Multiaddr // origins
	pinAddrI = map[string]int{}
	psAddrs  []ma.Multiaddr // transport addresses of the peerstore suite, sorted by String()
	psAddrI  = map[string]int{}
	// lines that start with '/' and do not parse
	slashBad = []string{"/", "/ip4/999.1.1.1/tcp/1", "/notaproto/x", "/ip4/1.2.3.4/tcp", "/ip4/1.2.3.4/tcp/99999",
		"/p2p/notapeerid", "//", "/ip4/1.2.3.4/tcp/1 ", "/ip4/1.2.3.4/tcp/1/p2p/", "/dns4//tcp/x", "/ip4/1.2.3.4\r/tcp/1", "/\r"}
	// lines that do not start with '/'
	noSlash = []string{"# comment", " /ip4/1.2.3.4/tcp/1", "garbage", "ip4/1.2.3.4/tcp/1", "\t", "{\"json\":true}", " ", "\\"}
)

const dnsCount = 4

type detRand struct {
	seed []byte
	ctr  int
}

func (d *detRand) Read(p []byte) (int, error) {
	for i := range p {
		h := sha256.Sum256(append(d.seed, []byte(strconv.Itoa(d.ctr))...))
		p[i] = h[0]
		d.ctr++
	}
	return len(p), nil
}

func fatal(format string, a ...interface{}) {
	fmt.Fprintf(os.Stderr, "c14 tables: "+format+"\n", a...)
	os.Exit(3)
}

func initTables() {
	for i := 0; i < nCids; i++ {
		c := common.CidN(i)
		cidTab = append(cidTab, c)
		cidIdx[c.KeyString()] = i
	}
	for i := 0; i < nPeers; i++ {
		p := common.PeerN(i)
		peerTab = append(peerTab, p)
		peerIdx[p] = i
	}
	for i := 0; i < nPs; i++ {
		priv, _, err := crypto.GenerateEd25519Key(&detRand{seed: []byte(fmt.Sprintf("verif-ps-%d", i))})
		if err != nil {
			fatal("key: %v", err)
		}
		psKeys = append(psKeys, priv)
		var p peer.ID
		if i%2 == 0 {
			p, err = peer.IDFromPrivateKey(priv)
			if err != nil {
				fatal("id: %v", err)
			}
		} else {
			p = common.PeerN(100 + i)
		}
		psTab = append(psTab, p)
		psIdx[p] = i
	}
	nameTab = []string{"", "simple", "with space", "üñí☃ 名前", "q\"uote\\back", "<html>&amp;'", "new\nline\ttab\r",
		"\x00nul\x01", strings.Repeat("long-", 200), "{\"json\":[1,2]}", "/slash/../", "  ", "  ", "null", "0", "é"}
	for i, n := range nameTab {
		nameIdx[n] = i
	}
	for i, s := range []string{"/ip4/1.2.3.4/tcp/4001", "/ip6/::1/udp/4001/quic", "/dns4/origin.example.org/tcp/443",
		"/ip4/10.1.1.1/tcp/1/p2p/" + peer.Encode(common.PeerN(50)), "/dnsaddr/bootstrap.example.org", "/ip4/255.255.255.255/udp/65535"} {
		m, err := ma.NewMultiaddr(s)
		if err != nil {
			fatal("origin table %q: %v", s, err)
		}
		pinAddrs = append(pinAddrs, m)
		pinAddrI[string(m.Bytes())] = i
	}
	var as []ma.Multiaddr
	for _, s := range []string{"/dns/d.example.org/tcp/443", "/dns4/a.example.org/tcp/9096", "/dns4/b.example.org/tcp/9096/ws",
		"/dns6/c.example.org/udp/9096/quic", "/ip4/10.0.0.1/tcp/9096", "/ip4/10.0.0.2/tcp/9096", "/ip4/127.0.0.1/tcp/1234",
		"/ip4/127.0.0.1/udp/1234/quic", "/ip4/192.168.1.5/tcp/9096/ws", "/ip6/::1/tcp/9096", "/ip6/fe80::1/tcp/9096",
		"/ip6/2001:db8::1/tcp/9096"} {
		m, err := ma.NewMultiaddr(s)
		if err != nil {
			fatal("address table %q: %v", s, err)
		}
		as = append(as, m)
	}
	sort.Slice(as, func(i, j int) bool { return as[i].String() < as[j].String() })
	for i, m := range as {
		if madns.Matches(m) != (i < dnsCount) {
			fatal("address table: %s at index %d breaks the dns-first layout", m, i)
		}
		back, err := ma.NewMultiaddr(m.String())
		if err != nil || !back.Equal(m) {
			fatal("address table: %s does not survive String/parse", m)
		}
		psAddrs = append(psAddrs, m)
		psAddrI[m.String()] = i
	}
	if m, err := ma.NewMultiaddr(longAddr); err != nil || m.String() != longAddr || !madns.Matches(m) {
		fatal("long address does not parse")
	}
	if _, err := ma.NewMultiaddr(longLine); err == nil {
		fatal("long garbage line parses")
	}
	for _, s := range slashBad {
		if _, err := ma.NewMultiaddr(s); err == nil || s[0] != '/' {
			fatal("slashBad table: %q parses", s)
		}
		if _, err := ma.NewMultiaddr(s + "\r"); err == nil {
			fatal("slashBad table: %q parses with a trailing CR", s)
		}
	}
	// a stray "\r" left on a line (the code strips only one) spoils every table address
	for i, m := range psAddrs {
		if _, err := ma.NewMultiaddr(m.String() + "\r"); err == nil {
			fatal("address table: %d parses with a trailing CR", i)
		}
		if _, err := ma.NewMultiaddr(m.String() + "/p2p/" + peer.Encode(psTab[i%nPs]) + "\r"); err == nil {
			fatal("address table: %d with peer id parses with a trailing CR", i)
		}
	}
	if _, err := ma.NewMultiaddr(longAddr + "\r"); err == nil {
		fatal("long address parses with a trailing CR")
	}
	for _, s := range noSlash {
		if len(s) > 0 && s[0] == '/' {
			fatal("noSlash table: %q", s)
		}
	}
}

func cidIndex(c cid.Cid) int {
	if i, ok := cidIdx[c.KeyString()]; ok {
		return i
	}
	return unknownIdx
}

func peerIndex(p peer.ID) int {
	if i, ok := peerIdx[p]; ok {
		return i
	}
	return unknownIdx
}

func nameIndex(s string) int {
	if i, ok := nameIdx[s]; ok {
		return i
	}
	return unknownIdx
}

func ints(l []int, sep string) string {
	if len(l) == 0 {
		return "-"
	}
	s := make([]string, len(l))
	for i, v := range l {
		s[i] = strconv.Itoa(v)
	}
	return strings.Join(s, sep)
}

func parseIntList(s, sep string) []int {
	if s == "-" || s == "" {
		return nil
	}
	var l []int
	for _, x := range strings.Split(s, sep) {
		v, err := strconv.Atoi(x)
		if err != nil {
			v = unknownIdx
		}
		l = append(l, v)
	}
	return l
}

func optInt(v int) string {
	if v < 0 {
		return "-"
	}
	return strconv.Itoa(v)
}

func parseOptInt(s string) int {
	if s == "-" {
		return -1
	}
	v, err := strconv.Atoi(s)
	if err != nil {
		return -1
	}
	return v
}
