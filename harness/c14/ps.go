package main

import (
	"bufio"
	"context"
	"fmt"
	"os"
	"path/filepath"
	"sort"
	"strconv"
	"strings"

	"github.com/ipfs/ipfs-cluster/pstoremgr"

	libp2p "github.com/libp2p/go-libp2p"
	host "github.com/libp2p/go-libp2p-core/host"
	peer "github.com/libp2p/go-libp2p-core/peer"
	peerstore "github.com/libp2p/go-libp2p-core/peerstore"
	ma "github.com/multiformats/go-multiaddr"

	"verifharness/common"
)

type known struct {
	id    int
	prio  int // -1 none
	addrs []int
}

type psCase struct {
	self  int
	known []known
	peers []int
}

func (c psCase) input() string {
	ks := "-"
	if len(c.known) > 0 {
		l := make([]string, len(c.known))
		for i, k := range c.known {
			l[i] = fmt.Sprintf("%d:%s:%s", k.id, optInt(k.prio), ints(k.addrs, "."))
		}
		ks = strings.Join(l, "/")
	}
	return fmt.Sprintf("C14 ps %d %s %s", c.self, ks, ints(c.peers, ","))
}

func parsePsCase(f []string) (psCase, bool) {
	if len(f) != 3 {
		return psCase{}, false
	}
	var c psCase
	var err error
	c.self, err = strconv.Atoi(f[0])
	if err != nil || c.self < 0 || c.self >= nPs || c.self%2 != 0 {
		return c, false
	}
	seen := map[int]bool{}
	if f[1] != "-" {
		for _, ks := range strings.Split(f[1], "/") {
			x := strings.Split(ks, ":")
			if len(x) != 3 {
				return c, false
			}
			id, err := strconv.Atoi(x[0])
			if err != nil || id < 0 || id >= nPs || seen[id] {
				return c, false
			}
			seen[id] = true
			k := known{id: id, prio: parseOptInt(x[1]), addrs: parseIntList(x[2], ".")}
			as := map[int]bool{}
			for _, a := range k.addrs {
				if a < 0 || a >= len(psAddrs) || as[a] {
					return c, false
				}
				as[a] = true
			}
			c.known = append(c.known, k)
		}
	}
	c.peers = parseIntList(f[2], ",")
	ps := map[int]bool{}
	for _, p := range c.peers {
		if p < 0 || p >= nPs || ps[p] {
			return c, false
		}
		ps[p] = true
	}
	return c, true
}

// newHost makes a real libp2p host with the table identity `self` (an ed25519 key).
func newHost(self int) (host.Host, error) {
	return libp2p.New(context.Background(), libp2p.Identity(psKeys[self]), libp2p.NoListenAddrs)
}

func lineToken(s string) string {
	if s == "" {
		return "E"
	}
	if s == longLine {
		return "L"
	}
	for i, b := range slashBad {
		if s == b {
			return "x" + strconv.Itoa(i)
		}
	}
	for i, b := range noSlash {
		if s == b {
			return "n" + strconv.Itoa(i)
		}
	}
	if i, ok := psAddrI[s]; ok {
		return "b" + strconv.Itoa(i)
	}
	if k := strings.LastIndex(s, "/p2p/"); k >= 0 && s[:k] == longAddr {
		if pid, err := peer.Decode(s[k+5:]); err == nil {
			if p, ok := psIdx[pid]; ok {
				return fmt.Sprintf("f%dp%d", longAddrIdx, p)
			}
		}
	}
	if k := strings.LastIndex(s, "/p2p/"); k >= 0 {
		a, okA := psAddrI[s[:k]]
		pid, err := peer.Decode(s[k+5:])
		if okA && err == nil {
			if p, ok := psIdx[pid]; ok {
				return fmt.Sprintf("f%dp%d", a, p)
			}
		}
	}
	return "n" + strconv.Itoa(unknownIdx)
}

func addrToken(a ma.Multiaddr) string {
	if a == nil {
		return "nil"
	}
	return lineToken(a.String())
}

func joinOr(l []string, sep string) string {
	if len(l) == 0 {
		return "-"
	}
	return strings.Join(l, sep)
}

func showPinfos(pinfos []peer.AddrInfo, sortAddrs bool) string {
	var l []string
	for _, pi := range pinfos {
		id := unknownIdx
		if i, ok := psIdx[pi.ID]; ok {
			id = i
		}
		var as []int
		for _, a := range pi.Addrs {
			if i, ok := psAddrI[a.String()]; ok {
				as = append(as, i)
			} else {
				as = append(as, unknownIdx)
			}
		}
		if sortAddrs {
			sort.Ints(as)
		}
		l = append(l, fmt.Sprintf("%d:%s", id, ints(as, ".")))
	}
	return joinOr(l, "/")
}

func readLines(path string) []string {
	f, err := os.Open(path)
	if err != nil {
		return nil
	}
	defer f.Close()
	var l []string
	sc := bufio.NewScanner(f)
	sc.Buffer(make([]byte, 1<<20), 1<<24)
	for sc.Scan() {
		l = append(l, sc.Text())
	}
	return l
}

// afterImport starts a fresh host with identity `self` on the file and reports what it loads,
// the priority order it ends up with and the addresses it holds.
func afterImport(self int, path string) (loaded, order, after string, panicked bool) {
	loaded, order, after = "-", "-", "-"
	h, err := newHost(self)
	if err != nil {
		return "?", "?", "?", false
	}
	defer h.Close()
	defer func() {
		if r := recover(); r != nil {
			panicked = true
		}
	}()
	pm := pstoremgr.New(context.Background(), h, path)
	var toks []string
	for _, a := range pm.LoadPeerstore() {
		toks = append(toks, addrToken(a))
	}
	loaded = joinOr(toks, ",")
	pm.ImportPeersFromPeerstore(false, peerstore.PermanentAddrTTL)
	all := make([]peer.ID, nPs)
	copy(all, psTab)
	pinfos := pm.PeerInfos(all)
	var ids []int
	for _, pi := range pinfos {
		if i, ok := psIdx[pi.ID]; ok {
			ids = append(ids, i)
		} else {
			ids = append(ids, unknownIdx)
		}
	}
	order = ints(ids, ",")
	// addresses straight from the peerstore (PeerInfos filters DNS): sorted by peer index
	var full []peer.AddrInfo
	for i := 0; i < nPs; i++ {
		if psTab[i] == h.ID() {
			continue
		}
		as := h.Peerstore().Addrs(psTab[i])
		if len(as) > 0 {
			full = append(full, peer.AddrInfo{ID: psTab[i], Addrs: as})
		}
	}
	after = showPinfos(full, true)
	return
}

func runPs(c psCase) string {
	dir := scratch("ps")
	defer os.RemoveAll(dir)
	path := filepath.Join(dir, "peerstore")
	h, err := newHost(c.self)
	if err != nil {
		return "# inconclusive host " + c.input()
	}
	pm := pstoremgr.New(context.Background(), h, path)
	for _, k := range c.known {
		var as []ma.Multiaddr
		for _, a := range k.addrs {
			as = append(as, psAddrs[a])
		}
		h.Peerstore().AddAddrs(psTab[k.id], as, peerstore.PermanentAddrTTL)
		if k.prio >= 0 {
			pm.SetPriority(psTab[k.id], k.prio)
		}
	}
	var peers []peer.ID
	for _, p := range c.peers {
		peers = append(peers, psTab[p])
	}
	if peers == nil {
		peers = []peer.ID{}
	}
	panicked := false
	var pinfos []peer.AddrInfo
	func() {
		defer func() {
			if r := recover(); r != nil {
				panicked = true
			}
		}()
		pinfos = pm.PeerInfos(peers)
		pm.SavePeerstore(pinfos)
	}()
	h.Close()
	var ftoks []string
	for _, l := range readLines(path) {
		ftoks = append(ftoks, lineToken(l))
	}
	loaded, order, after, p2 := afterImport(c.self, path)
	pn := 0
	if panicked || p2 {
		pn = 1
	}
	return fmt.Sprintf("pinfos=%s file=%s loaded=%s order=%s after=%s panic=%d", showPinfos(pinfos, false),
		joinOr(ftoks, ","), loaded, order, after, pn)
}

// ---- hand-written files

type fileCase struct {
	self  int
	lines []string // tokens, each with an optional line-end suffix ~r ("\r\n") or ~rr ("\r\r\n")
	nonl  bool     // the last line is not terminated by "\n"
	bom   bool     // the file starts with a UTF-8 byte order mark
}

func (c fileCase) shape() string {
	s := "nl"
	if c.nonl {
		s = "nonl"
	}
	if c.bom {
		if c.nonl {
			return "bom-nonl"
		}
		return "bom"
	}
	return s
}

func (c fileCase) input() string {
	return fmt.Sprintf("C14 psfile %d %s %s", c.self, joinOr(c.lines, ","), c.shape())
}

// splitLineTok separates the line-end suffix of a line token.
func splitLineTok(tok string) (string, int, bool) {
	if i := strings.Index(tok, "~"); i >= 0 {
		switch tok[i+1:] {
		case "r":
			return tok[:i], 1, true
		case "rr":
			return tok[:i], 2, true
		}
		return tok, 0, false
	}
	return tok, 0, true
}

// a line of exactly 64 KiB that starts like an address
var longLine = "/ip4/" + strings.Repeat("1", 64*1024-5)

// address index 99 (psfile lines only): a VALID transport address whose text is longer than 64 KiB
const longAddrIdx = 99

var longAddr = "/dns4/" + strings.Repeat("a", 70000) + ".example.org/tcp/9096"

func lineText(tok string) (string, bool) {
	if tok == "E" {
		return "", true
	}
	if tok == "L" {
		return longLine, true
	}
	if len(tok) < 2 {
		return "", false
	}
	switch tok[0] {
	case 'x', 'n', 'b':
		n, err := strconv.Atoi(tok[1:])
		if err != nil || n < 0 {
			return "", false
		}
		switch {
		case tok[0] == 'x' && n < len(slashBad):
			return slashBad[n], true
		case tok[0] == 'n' && n < len(noSlash):
			return noSlash[n], true
		case tok[0] == 'b' && n < len(psAddrs):
			return psAddrs[n].String(), true
		}
		return "", false
	case 'f':
		x := strings.Split(tok[1:], "p")
		if len(x) != 2 {
			return "", false
		}
		a, e1 := strconv.Atoi(x[0])
		p, e2 := strconv.Atoi(x[1])
		if e1 == nil && e2 == nil && a == longAddrIdx && p >= 0 && p < nPs {
			return longAddr + "/p2p/" + peer.Encode(psTab[p]), true
		}
		if e1 != nil || e2 != nil || a < 0 || a >= len(psAddrs) || p < 0 || p >= nPs {
			return "", false
		}
		return psAddrs[a].String() + "/p2p/" + peer.Encode(psTab[p]), true
	}
	return "", false
}

func parseFileCase(f []string) (fileCase, bool) {
	if len(f) != 2 && len(f) != 3 {
		return fileCase{}, false
	}
	var c fileCase
	if len(f) == 3 {
		switch f[2] {
		case "nl":
		case "nonl":
			c.nonl = true
		case "bom":
			c.bom = true
		case "bom-nonl":
			c.bom, c.nonl = true, true
		default:
			return c, false
		}
	}
	var err error
	c.self, err = strconv.Atoi(f[0])
	if err != nil || c.self < 0 || c.self >= nPs || c.self%2 != 0 {
		return c, false
	}
	if f[1] != "-" {
		c.lines = strings.Split(f[1], ",")
	}
	for _, l := range c.lines {
		t, _, ok := splitLineTok(l)
		if !ok {
			return c, false
		}
		if _, ok := lineText(t); !ok {
			return c, false
		}
	}
	return c, true
}

func runFile(c fileCase) string {
	dir := scratch("psfile")
	defer os.RemoveAll(dir)
	path := filepath.Join(dir, "peerstore")
	var sb strings.Builder
	if c.bom {
		sb.WriteString("\xef\xbb\xbf")
	}
	for i, l := range c.lines {
		tok, cr, _ := splitLineTok(l)
		t, _ := lineText(tok)
		sb.WriteString(t)
		sb.WriteString(strings.Repeat("\r", cr))
		if !(c.nonl && i == len(c.lines)-1) {
			sb.WriteString("\n")
		}
	}
	if err := os.WriteFile(path, []byte(sb.String()), 0600); err != nil {
		return "# inconclusive write " + c.input()
	}
	loaded, order, _, panicked := afterImport(c.self, path)
	pn := 0
	if panicked {
		pn = 1
	}
	return fmt.Sprintf("loaded=%s order=%s panic=%d", loaded, order, pn)
}

// ---- generators

func genPsCase(r *common.Rng, k, total int) psCase {
	var c psCase
	c.self = 2 * r.Intn(nPs/2)
	np := r.Intn(7)
	if k > total/2 {
		np = r.Intn(12)
	}
	ids := subset(r, nPs, 100)[:np]
	if r.Chance(1, 4) && !containsInt(ids, c.self) {
		ids = append(ids, c.self) // our own addresses are in the peerstore too
	}
	prioStyle := r.Intn(4) // 0: none tagged, 1: distinct, 2: many ties, 3: mixed
	for _, id := range ids {
		kn := known{id: id, prio: -1}
		switch prioStyle {
		case 1:
			kn.prio = r.Intn(1000)
		case 2:
			kn.prio = r.Intn(2)
		case 3:
			if r.Bool() {
				kn.prio = []int{0, 1, 5, 9999}[r.Intn(4)]
			}
		}
		switch r.Intn(5) {
		case 0: // none
		case 1: // ip only
			kn.addrs = pick(r, dnsCount, len(psAddrs), r.Range(1, 4))
		case 2: // dns only
			kn.addrs = pick(r, 0, dnsCount, r.Range(1, 3))
		default: // both
			kn.addrs = append(pick(r, 0, dnsCount, r.Range(0, 2)), pick(r, dnsCount, len(psAddrs), r.Range(1, 3))...)
		}
		c.known = append(c.known, kn)
	}
	// the peers asked for: the known ones (mostly), some unknown ones, maybe ourselves
	for _, id := range subset(r, nPs, 100) {
		isKnown := containsInt(ids, id)
		if (isKnown && r.Chance(9, 10)) || (!isKnown && r.Chance(1, 10)) {
			c.peers = append(c.peers, id)
		}
	}
	return c
}

func containsInt(l []int, v int) bool {
	for _, x := range l {
		if x == v {
			return true
		}
	}
	return false
}

// pick returns n distinct values of [lo,hi) in random order.
func pick(r *common.Rng, lo, hi, n int) []int {
	var l []int
	for i := lo; i < hi; i++ {
		l = append(l, i)
	}
	for i := len(l) - 1; i > 0; i-- {
		j := r.Intn(i + 1)
		l[i], l[j] = l[j], l[i]
	}
	if n > len(l) {
		n = len(l)
	}
	return l[:n]
}

func genFileCase(r *common.Rng, k, total int) fileCase {
	var c fileCase
	c.self = 2 * r.Intn(nPs/2)
	n := r.Intn(10)
	if k > total/2 {
		n = r.Intn(30)
	}
	badPct := []int{0, 20, 50}[r.Intn(3)]
	interleave := r.Chance(1, 5)
	longAt := -1
	if r.Chance(1, 25) {
		longAt = r.Intn(n + 1)
	}
	var peers []int
	for len(c.lines) < n {
		if len(c.lines) >= longAt && longAt >= 0 {
			c.lines = append(c.lines, "L")
			longAt = -1
		}
		if r.Chance(badPct, 100) {
			switch r.Intn(4) {
			case 0:
				c.lines = append(c.lines, "x"+strconv.Itoa(r.Intn(len(slashBad))))
			case 1:
				c.lines = append(c.lines, "n"+strconv.Itoa(r.Intn(len(noSlash))))
			case 2:
				c.lines = append(c.lines, "E")
			default:
				c.lines = append(c.lines, "b"+strconv.Itoa(r.Intn(len(psAddrs))))
			}
			continue
		}
		p := r.Intn(nPs)
		if interleave && len(peers) > 0 && r.Bool() {
			p = peers[r.Intn(len(peers))]
		} else if containsInt(peers, p) {
			continue
		}
		peers = append(peers, p)
		if r.Chance(1, 40) {
			c.lines = append(c.lines, fmt.Sprintf("f%dp%d", longAddrIdx, p))
		}
		for _, a := range pick(r, 0, len(psAddrs), r.Range(1, 3)) {
			c.lines = append(c.lines, fmt.Sprintf("f%dp%d", a, p))
			if r.Chance(badPct, 200) {
				c.lines = append(c.lines, "x"+strconv.Itoa(r.Intn(len(slashBad))))
			}
		}
	}
	// the shape of the file: line ends, final newline, byte order mark
	switch r.Intn(8) {
	case 0, 1, 2, 3: // unix
	case 4: // dos
		for i := range c.lines {
			c.lines[i] += "~r"
		}
	default: // mixed, with an occasional doubled "\r"
		for i := range c.lines {
			switch x := r.Intn(20); {
			case x < 8:
				c.lines[i] += "~r"
			case x == 8:
				c.lines[i] += "~rr"
			}
		}
	}
	c.nonl = r.Chance(2, 5)
	c.bom = r.Chance(1, 20)
	if c.nonl && r.Chance(1, 3) { // a last line of a chosen kind
		last := []string{"E", "L", "x1", "n0", "b4", fmt.Sprintf("f%dp%d", longAddrIdx, r.Intn(nPs)), fmt.Sprintf("f5p%d~r", r.Intn(nPs))}
		c.lines = append(c.lines, last[r.Intn(len(last))])
	}
	return c
}
