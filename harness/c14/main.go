// C14 harness: drives the real state round trips (dsstate Marshal/Unmarshal,
// raft.SnapshotSave/OfflineState, the cmdutils raft and crdt state managers'
// ExportState/ImportState), the real raft.CleanupRaft rotation in scratch
// directories, and the real pstoremgr with libp2p hosts. One case line per case:
//
//   C14 pins <damage> <gen> <prior> => src=<pins> exp=<rt> expc=<rt> mar=<rt> snap=<rt> start=<rt>
//   C14 rot <keep> <m> <data> <olds> <ops> => <st> <st> ...
//   C14 ps <self> <known> <peers> => pinfos=.. file=.. loaded=.. order=.. after=.. panic=0|1
//   C14 psfile <self> <lines> => loaded=.. order=.. panic=0|1
//   C14 start <ops> <end> <act> <imp> => built=.. pre=.. preoff=.. off=.. post=.. old0=.. start=..   (start.go)
//
// Suites are selected with `-suite pins|rot|ps` (ps emits both ps and psfile lines).
// Everything real values are mapped back to indices of the tables in tables.go.
package main

import (
	"bufio"
	"fmt"
	"os"
	"path/filepath"
	"strings"

	"verifharness/common"
)

var scratchRoot string

func scratch(name string) string {
	d := filepath.Join(scratchRoot, name)
	os.RemoveAll(d)
	if err := os.MkdirAll(d, 0700); err != nil {
		fmt.Fprintln(os.Stderr, "scratch:", err)
		os.Exit(3)
	}
	return d
}

// a result that starts with "# " is a comment line (e.g. "# inconclusive strace …": the kill probe timed out on a loaded
// machine), not a case: it is counted as inconclusive instead of breaking the tie with an unparsable case line
func emitCase(out *common.Out, in, res string) {
	if strings.HasPrefix(res, "# ") {
		out.Line("%s", res)
		return
	}
	out.Line("%s => %s", in, res)
}

func main() {
	a := common.ParseArgs()
	if a.Extra["child"] != "" {
		childMain(a) // one real operation, to be killed by the parent (crash.go)
		return
	}
	scratchRoot = os.Getenv("VERIF_SCRATCH")
	if scratchRoot == "" {
		fmt.Fprintln(os.Stderr, "VERIF_SCRATCH is not set")
		os.Exit(3)
	}
	scratchRoot = filepath.Join(scratchRoot, fmt.Sprintf("run-%d", os.Getpid()))
	os.MkdirAll(scratchRoot, 0700)
	defer os.RemoveAll(scratchRoot)
	initTables()

	suite := a.Extra["suite"]
	var startBatch []startCase
	out := common.NewOut()
	defer out.Flush()
	flushComments := func() {
		for _, c := range comments {
			out.Line("%s", c)
		}
		comments = nil
	}

	if a.Extra["stdin"] != "" {
		sc := bufio.NewScanner(os.Stdin)
		sc.Buffer(make([]byte, 1<<20), 1<<26)
		for sc.Scan() {
			f := strings.Fields(sc.Text())
			if len(f) < 2 || f[0] != "C14" {
				continue
			}
			// keep only the input part
			for i, w := range f {
				if w == "=>" {
					f = f[:i]
					break
				}
			}
			switch f[1] {
			case "pins":
				if suite == "pins" {
					if c, ok := parsePinsCase(f[2:]); ok {
						out.Line("%s => %s", c.input(), runPins(c))
						flushComments()
					}
				}
			case "rot":
				if suite == "rot" {
					if c, ok := parseRotCase(f[2:]); ok {
						out.Line("%s => %s", c.input(), runRot(c))
					}
				}
			case "ps":
				if suite == "ps" {
					if c, ok := parsePsCase(f[2:]); ok {
						out.Line("%s => %s", c.input(), runPs(c))
					}
				}
			case "crash":
				if suite == "crash" {
					if c, ok := parseCrashCase(f[2:]); ok {
						emitCase(out, c.input(), runCrash(c))
					}
				}
			case "pscrash":
				if suite == "crash" {
					if c, ok := parsePsCrashCase(f[2:]); ok {
						emitCase(out, c.input(), runPsCrash(c))
					}
				}
			case "start":
				if suite == "start" {
					if c, ok := parseStartCase(f[2:]); ok {
						startBatch = append(startBatch, c)
					}
				}
			case "snaps":
				if suite == "snaps" {
					if c, ok := parseSnapsCase(f[2:]); ok {
						out.Line("%s => %s", c.input(), runSnaps(c))
					}
				}
			case "psfile":
				if suite == "ps" {
					if c, ok := parseFileCase(f[2:]); ok {
						out.Line("%s => %s", c.input(), runFile(c))
					}
				}
			}
		}
		runStartBatch(startBatch, out)
		flushComments()
		return
	}

	defer func() { runStartBatch(startBatch, out); flushComments() }()
	total := a.N
	if total < 0 {
		total = 100
	}
	root := common.NewRng(common.Seed())
	for k := 0; k < total; k++ {
		if a.Only >= 0 && k != a.Only {
			continue
		}
		r := root.Fork(uint64(k))
		switch suite {
		case "pins":
			c := genPinsCase(r, k, total, a.Tier)
			out.Line("%s => %s", c.input(), runPins(c))
			flushComments()
		case "rot":
			c := genRotCase(r, k, total)
			out.Line("%s => %s", c.input(), runRot(c))
		case "ps":
			if k%2 == 0 {
				c := genPsCase(r, k, total)
				out.Line("%s => %s", c.input(), runPs(c))
			} else {
				c := genFileCase(r, k, total)
				out.Line("%s => %s", c.input(), runFile(c))
			}
		case "start":
			startBatch = append(startBatch, genStartCase(r, k, total))
		case "snaps":
			c := genSnapsCase(r, k, total)
			out.Line("%s => %s", c.input(), runSnaps(c))
		case "crash":
			if k%4 == 3 {
				c := genPsCrashCase(r, k, total)
				emitCase(out, c.input(), runPsCrash(c))
			} else {
				c := genCrashCase(r, k, total)
				emitCase(out, c.input(), runCrash(c))
			}
		default:
			fmt.Fprintln(os.Stderr, "unknown -suite", suite)
			os.Exit(3)
		}
	}
}
