package main

import (
	"context"
	"fmt"
	"os"
	"path/filepath"
	"strconv"
	"strings"

	"github.com/ipfs/ipfs-cluster/api"
	"github.com/ipfs/ipfs-cluster/consensus/raft"
	"github.com/ipfs/ipfs-cluster/datastore/inmem"
	"github.com/ipfs/ipfs-cluster/state/dsstate"

	"verifharness/common"
)

// folder content: "-" absent, "e" a folder without snapshot, "<n>" a folder whose newest
// snapshot holds the pinset {CidN(n)} (n >= 1).
// how the configuration spells the data folder (relative to the scratch base directory)
var folderNames = []string{"raft", "raft/", "my raft.d", "r\u00e4ft-\u6570\u636e %d", "raft.old.0", "x/../raft", "raft//"}

type rotCase struct {
	keep int
	name int // index into folderNames (encoded in the case line as 100*name + m)
	m    int
	data string
	olds []string
	ops  []string // c | s<n> | m | k<n>
}

func (c rotCase) input() string {
	ops := "-"
	if len(c.ops) > 0 {
		ops = strings.Join(c.ops, ",")
	}
	return fmt.Sprintf("C14 rot %d %d %s %s %s", c.keep, 100*c.name+c.m, c.data, strings.Join(c.olds, ","), ops)
}

func validFolderTok(s string) bool {
	if s == "-" || s == "e" {
		return true
	}
	n, err := strconv.Atoi(s)
	return err == nil && n >= 0 && n < nCids // 0: a snapshot of the empty pinset
}

func parseRotCase(f []string) (rotCase, bool) {
	if len(f) != 5 {
		return rotCase{}, false
	}
	var c rotCase
	var e1, e2 error
	c.keep, e1 = strconv.Atoi(f[0])
	c.m, e2 = strconv.Atoi(f[1])
	if e1 != nil || e2 != nil || c.keep < 0 || c.m < 0 {
		return c, false
	}
	c.name, c.m = c.m/100, c.m%100
	if c.m < 1 || c.m > 40 || c.name >= len(folderNames) {
		return c, false
	}
	c.data = f[2]
	c.olds = strings.Split(f[3], ",")
	if !validFolderTok(c.data) || len(c.olds) != c.m {
		return c, false
	}
	for _, o := range c.olds {
		if !validFolderTok(o) {
			return c, false
		}
	}
	if f[4] != "-" {
		c.ops = strings.Split(f[4], ",")
	}
	for _, o := range c.ops {
		switch {
		case o == "c" || o == "m":
		case len(o) > 1 && (o[0] == 's' || o[0] == 'k'):
			n, err := strconv.Atoi(o[1:])
			if err != nil || n < 0 || (o[0] == 's' && n >= nCids) {
				return c, false
			}
		default:
			return c, false
		}
	}
	return c, true
}

func tagState(n int) *dsstate.State {
	st, _ := dsstate.New(inmem.New(), "/tag", nil)
	if n > 0 { // tag 0 is the empty pinset
		st.Add(context.Background(), api.PinCid(cidTab[n]))
	}
	return st
}

func makeFolder(path, content string) error {
	switch content {
	case "-":
		return nil
	case "e":
		return os.MkdirAll(path, 0700)
	}
	n, _ := strconv.Atoi(content)
	return raft.SnapshotSave(raftCfg(path, 1), tagState(n), pids)
}

// observeFolder reads a folder back: is there a snapshot and which pinset does it hold.
func observeFolder(path string) string {
	fi, err := os.Stat(path)
	if os.IsNotExist(err) {
		return "-"
	}
	if err != nil || !fi.IsDir() {
		return "?"
	}
	cfg := raftCfg(path, 1)
	r, found, err := raft.LastStateRaw(cfg)
	if err != nil {
		return "?"
	}
	if !found {
		return "e"
	}
	if c, ok := r.(interface{ Close() error }); ok {
		c.Close()
	}
	st, err := raft.OfflineState(cfg, inmem.New())
	if err != nil {
		return "?"
	}
	pins, err := st.List(context.Background())
	if err == nil && len(pins) == 0 {
		return "0"
	}
	if err != nil || len(pins) != 1 {
		return "?"
	}
	i := cidIndex(pins[0].Cid)
	if i == unknownIdx || i < 1 {
		return "?"
	}
	return strconv.Itoa(i)
}

func observeDirs(base, folder string, m int) string {
	data := filepath.Join(base, folder)
	olds := make([]string, m)
	known := map[string]bool{folder: true, "x": true}
	for i := 0; i < m; i++ {
		olds[i] = observeFolder(fmt.Sprintf("%s.old.%d", data, i))
		known[fmt.Sprintf("%s.old.%d", folder, i)] = true
	}
	d := observeFolder(data)
	extra := 0
	ents, err := os.ReadDir(base)
	if err != nil {
		extra = 1
	}
	for _, e := range ents {
		if !known[e.Name()] {
			extra = 1
		}
	}
	return fmt.Sprintf("%s;%s;%d", d, strings.Join(olds, ","), extra)
}

func runRot(c rotCase) string {
	base := scratch("rot")
	defer os.RemoveAll(base)
	os.MkdirAll(filepath.Join(base, "x"), 0700)
	// the configured spelling (not cleaned) and the folder it names
	spelled := base + "/" + folderNames[c.name]
	folder := filepath.Base(filepath.Clean(spelled))
	data := filepath.Join(base, folder)
	if err := makeFolder(data, c.data); err != nil {
		return "# inconclusive setup " + c.input()
	}
	for i, o := range c.olds {
		if err := makeFolder(fmt.Sprintf("%s.old.%d", data, i), o); err != nil {
			return "# inconclusive setup " + c.input()
		}
	}
	cfg := raftCfg(spelled, c.keep)
	var out []string
	for _, op := range c.ops {
		panicked := false
		func() {
			defer func() {
				if r := recover(); r != nil {
					panicked = true
				}
			}()
			switch {
			case op == "c":
				raft.CleanupRaft(cfg)
			case op == "m":
				if _, err := os.Stat(data); os.IsNotExist(err) {
					os.MkdirAll(data, 0700)
				}
			case op[0] == 's':
				n, _ := strconv.Atoi(op[1:])
				raft.SnapshotSave(cfg, tagState(n), pids)
			case op[0] == 'k':
				n, _ := strconv.Atoi(op[1:])
				cfg.BackupsRotate = n
			}
		}()
		if panicked {
			out = append(out, "panic")
			break
		}
		out = append(out, observeDirs(base, folder, c.m))
	}
	return strings.Join(out, " ")
}

func genRotCase(r *common.Rng, k, total int) rotCase {
	var c rotCase
	c.keep = []int{1, 1, 2, 2, 3, 3, 4, 5, 6}[r.Intn(9)]
	if r.Chance(1, 3) {
		c.name = r.Intn(len(folderNames))
	}
	nops := r.Range(1, 8)
	if k > total/2 {
		nops = r.Range(3, 14)
	}
	tag := 1
	next := func() string {
		t := tag
		tag++
		return strconv.Itoa(t)
	}
	// pre-existing folders: none / an unbroken run / gaps / some outside the window
	shape := r.Intn(5)
	pre := 0
	switch shape {
	case 0:
		pre = 0
	case 1:
		pre = r.Intn(c.keep + 1)
	default:
		pre = c.keep + r.Intn(3)
	}
	maxKeep := c.keep
	// operations
	for i := 0; i < nops; i++ {
		switch x := r.Intn(20); {
		case x < 8:
			c.ops = append(c.ops, "c")
		case x < 15:
			c.ops = append(c.ops, "s"+next())
		case x < 16:
			c.ops = append(c.ops, "s0") // a snapshot of the empty pinset
		case x < 18:
			c.ops = append(c.ops, "m")
		default:
			nk := r.Range(1, 6)
			if nk > maxKeep {
				maxKeep = nk
			}
			c.ops = append(c.ops, "k"+strconv.Itoa(nk))
		}
	}
	c.m = maxKeep + 2
	if pre+1 > c.m {
		c.m = pre + 1
	}
	c.olds = make([]string, c.m)
	for i := range c.olds {
		c.olds[i] = "-"
		if i < pre {
			switch {
			case shape >= 3 && r.Chance(1, 3):
				// gap
			case r.Chance(1, 8):
				c.olds[i] = "e"
			default:
				c.olds[i] = next()
			}
		}
	}
	switch r.Intn(4) {
	case 0:
		c.data = "-"
	case 1:
		c.data = "e"
	default:
		c.data = next()
	}
	return c
}
