// C05 harness: drives the real stateless pin tracker (pintracker/stateless +
// pintracker/optracker) against a GATED fake IPFS daemon behind an in-process
// gorpc "IPFSConnector" service, with the shared pinset a real dsstate.
//
// Every Pin/Unpin call parks at the daemon; the script decides which parked
// call is applied / answered next and how. After each scripted action the
// harness waits for a stable point (every other goroutine blocked, daemon
// counters unchanged) and records what can be observed from outside.
//
//	C05 q=<cap> w=<workers> n=<cids> <act> ... => <obs> | ret=<..> <obs> | ...
//
// acts: t:<pin> (pinset records pin, then Track)  u:<c> (pinset drops c, then Untrack)
//
//	r:<c> Recover  R RecoverAll  e:<c> daemon applies the parked call for c
//	k:<c> daemon applies (if not yet) and answers nil  x:<c> daemon answers an error
//	(eP/eU, kP/kU, xP/xU address the oldest parked Pin / Unpin call of that cid)
//	G a concurrent RecoverAll reads the pinset now; Rs is the rest of it (it works on that listing)
//	l:<c> daemon loses the pin  F:1 / F:0 the daemon's reads (PinLsCid, PinLs) fail from now on / work again
//
// pin = c.k.m.t  k: h here(+1 other) e everywhere g cluster-dag here r remote z remote(no allocations)
//
//	m meta 0 api.PinCid ; m: r|d ; t: option variant 0..9
package main

import (
	"bufio"
	"context"
	"errors"
	"fmt"
	"os"
	"runtime"
	"sort"
	"strconv"
	"strings"
	"sync"
	"time"

	"github.com/ipfs/ipfs-cluster/api"
	"github.com/ipfs/ipfs-cluster/pintracker/stateless"
	"github.com/ipfs/ipfs-cluster/state"

	rpc "github.com/libp2p/go-libp2p-gorpc"

	"verifharness/common"
)

const maxCids = 6

var kindLetters = []string{"0", "h", "e", "g", "r", "z", "m"}

func kindIndex(k string) int {
	for i, l := range kindLetters {
		if l == k {
			return i
		}
	}
	return -1
}

// mkPin builds the real pin a token stands for.
func mkPin(c int, k string, m string, t int) *api.Pin {
	if k == "0" {
		return api.PinCid(common.CidN(c))
	}
	depth := -1
	if m == "d" {
		depth = 0
	}
	meta, exp := "-", "z"
	switch t % 3 {
	case 1:
		meta = fmt.Sprintf("1:%d", t+1)
	case 2:
		exp = "f1"
	}
	typ, rf, allocs, ref := "d", "2:2", "0,1", "-"
	switch k {
	case "h":
	case "e":
		rf, allocs = "-1:-1", "-"
	case "g":
		typ, rf, allocs = "c", "1:1", "0"
	case "r":
		allocs = "1,2"
	case "z":
		rf, allocs = "1:1", "-"
	case "m":
		typ, rf, allocs, ref = "m", "0:0", "-", "9"
	}
	tok := fmt.Sprintf("%d/%s/%s/%d/%s/%d/0/%s/%s/%s/-/-/%s/-", c, typ, rf, t+1, m, depth, allocs, exp, meta, ref)
	return common.PinOf(tok)
}

var decodeTable = map[string]string{}

func initDecode() {
	for c := 0; c < maxCids; c++ {
		for _, k := range kindLetters {
			for _, m := range []string{"r", "d"} {
				for t := 0; t < 10; t++ {
					if k == "0" && (m != "r" || t != 0) {
						continue
					}
					decodeTable[common.PinTok(mkPin(c, k, m, t))] = fmt.Sprintf("%d.%s.%s.%d", c, k, m, t)
				}
			}
		}
	}
}

// tokOf names a real pin; pins outside the naming table get an unparsable token on purpose.
func tokOf(p *api.Pin) string {
	if s, ok := decodeTable[common.PinTok(p)]; ok {
		return s
	}
	return fmt.Sprintf("%d.?", common.CidIndex(p.Cid, maxCids))
}

func parsePinTok(s string) (c int, k, m string, t int, ok bool) {
	f := strings.Split(s, ".")
	if len(f) != 4 {
		return
	}
	c, e1 := strconv.Atoi(f[0])
	t, e2 := strconv.Atoi(f[3])
	if e1 != nil || e2 != nil || c < 0 || c >= maxCids || t < 0 || t > 9 || kindIndex(f[1]) < 0 || (f[2] != "r" && f[2] != "d") {
		return
	}
	return c, f[1], f[2], t, true
}

// ---------------------------------------------------------------- daemon

type pcall struct {
	seq  int
	kind byte // 'P' | 'U'
	cid  int
	pin  *api.Pin
	ctx  context.Context
	rel  chan bool // true = answer an error
	eff  bool
}

type dentry struct {
	mode string
	tag  int
	tok  string
}

type daemon struct {
	mu         sync.Mutex
	pins       map[int]dentry
	parked     []*pcall
	seq        int
	arrivals   int
	departures int
	failed     map[int]bool
	lsDown     bool // scripted fault: PinLsCid / PinLs answer an error
}

var errDaemon = errors.New("daemon failure (scripted)")

func (d *daemon) park(ctx context.Context, kind byte, in *api.Pin) error {
	pc := &pcall{kind: kind, cid: common.CidIndex(in.Cid, maxCids), pin: in, ctx: ctx, rel: make(chan bool, 1)}
	d.mu.Lock()
	d.seq++
	pc.seq = d.seq
	d.parked = append(d.parked, pc)
	d.arrivals++
	d.mu.Unlock()
	select {
	case bad := <-pc.rel:
		d.mu.Lock()
		d.departures++
		d.mu.Unlock()
		if bad {
			return errDaemon
		}
		return nil
	case <-ctx.Done():
		// a cancelled request never takes effect afterwards
		d.mu.Lock()
		d.remove(pc)
		d.departures++
		d.mu.Unlock()
		return ctx.Err()
	}
}

func (d *daemon) remove(pc *pcall) {
	for i, x := range d.parked {
		if x == pc {
			d.parked = append(d.parked[:i:i], d.parked[i+1:]...)
			return
		}
	}
}

// Pin / Unpin / PinLsCid / PinLs: the IPFSConnector RPC surface the tracker uses.
func (d *daemon) Pin(ctx context.Context, in *api.Pin, out *struct{}) error {
	return d.park(ctx, 'P', in)
}
func (d *daemon) Unpin(ctx context.Context, in *api.Pin, out *struct{}) error {
	return d.park(ctx, 'U', in)
}
func (d *daemon) PinLsCid(ctx context.Context, in *api.Pin, out *api.IPFSPinStatus) error {
	d.mu.Lock()
	defer d.mu.Unlock()
	if d.lsDown {
		return errDaemon
	}
	*out = api.IPFSPinStatusUnpinned
	e, ok := d.pins[common.CidIndex(in.Cid, maxCids)]
	// like ipfshttp: pin/ls?arg=<cid>&type=<the pin's own mode>
	if ok && e.mode == modeLetter(in.MaxDepth.ToPinMode()) {
		if e.mode == "d" {
			*out = api.IPFSPinStatusDirect
		} else {
			*out = api.IPFSPinStatusRecursive
		}
	}
	return nil
}
func (d *daemon) PinLs(ctx context.Context, in string, out *map[string]api.IPFSPinStatus) error {
	d.mu.Lock()
	defer d.mu.Unlock()
	if d.lsDown {
		return errDaemon
	}
	m := map[string]api.IPFSPinStatus{}
	for c, e := range d.pins {
		if e.mode == "r" && (in == "recursive" || in == "all" || in == "") {
			m[common.CidN(c).String()] = api.IPFSPinStatusRecursive
		}
		if e.mode == "d" && (in == "direct" || in == "all" || in == "") {
			m[common.CidN(c).String()] = api.IPFSPinStatusDirect
		}
	}
	*out = m
	return nil
}

func modeLetter(m api.PinMode) string {
	if m == api.PinModeDirect {
		return "d"
	}
	return "r"
}

// oldest live parked call for cid c, of kind sel ('P' / 'U') when sel != 0 (caller holds mu)
func (d *daemon) callFor(c int, sel byte) *pcall {
	for _, pc := range d.parked {
		if pc.cid == c && pc.ctx.Err() == nil && (sel == 0 || pc.kind == sel) {
			return pc
		}
	}
	return nil
}

// splitDaemonAct splits e|k|x[P|U] into the action letter and the call-kind selector.
func splitDaemonAct(t string) (string, byte, bool) {
	if len(t) == 1 && strings.Contains("ekx", t) {
		return t, 0, true
	}
	if len(t) == 2 && strings.Contains("ekx", t[:1]) && (t[1] == 'P' || t[1] == 'U') {
		return t[:1], t[1], true
	}
	return "", 0, false
}

func (d *daemon) applyEffect(pc *pcall) {
	if pc.eff {
		return
	}
	pc.eff = true
	if pc.kind == 'P' {
		tok := tokOf(pc.pin)
		tag := 999
		if _, k, _, t, ok := parsePinTok(tok); ok {
			tag = 10*kindIndex(k) + t
		}
		d.pins[pc.cid] = dentry{mode: modeLetter(pc.pin.MaxDepth.ToPinMode()), tag: tag, tok: tok}
	} else {
		delete(d.pins, pc.cid)
	}
}

// ---------------------------------------------------------------- one schedule

type apiRet struct {
	err   error
	infos []*api.PinInfo
	pan   interface{}
}

type world struct {
	cap, workers, n int
	spt             *stateless.Tracker
	d               *daemon
	cons            *common.FakeConsensus
	ctx             context.Context
	late            []chan apiRet // Track calls that had not returned at their stable point
	lateBad         bool
	settleFail      bool
	settleWait      time.Duration
	jitter          int // scheduler yields between a released answer and a racing instruction
	// a concurrent RecoverAll that has read the pinset (st.List) and is descheduled: action G takes the
	// listing, the next R is the rest of that RecoverAll (its getState().List() answers with it)
	stale      []*api.Pin
	staleArmed bool
	inR        bool
}

// staleState is the shared pinset as one RecoverAll sees it: List() may have happened earlier.
type staleState struct {
	state.ReadOnly
	w *world
}

func (s staleState) List(ctx context.Context) ([]*api.Pin, error) {
	if s.w.inR && s.w.staleArmed {
		s.w.staleArmed = false
		return s.w.stale, nil
	}
	return s.ReadOnly.List(ctx)
}

func newWorld(cap, workers, n int) *world {
	w := &world{cap: cap, workers: workers, n: n, ctx: context.Background()}
	w.cons = common.NewFakeConsensus()
	cfg := &stateless.Config{}
	cfg.Default()
	cfg.MaxPinQueueSize = cap
	cfg.ConcurrentPins = workers
	w.d = &daemon{pins: map[int]dentry{}, failed: map[int]bool{}}
	server := rpc.NewServer(nil, "c05")
	if err := server.RegisterName("IPFSConnector", w.d); err != nil {
		panic(err)
	}
	client := rpc.NewClientWithServer(nil, "c05", server)
	w.spt = stateless.New(cfg, common.PeerN(0), "self", func(ctx context.Context) (state.ReadOnly, error) {
		return staleState{ReadOnly: w.cons.St, w: w}, nil
	})
	w.spt.SetClient(client)
	return w
}

func (w *world) close() {
	w.spt.Shutdown(w.ctx)
	// parked calls leave through their cancelled contexts
	deadline := time.Now().Add(2 * time.Second)
	for time.Now().Before(deadline) {
		w.d.mu.Lock()
		n := len(w.d.parked)
		w.d.mu.Unlock()
		if n == 0 {
			break
		}
		time.Sleep(200 * time.Microsecond)
	}
}

// othersBlocked: every goroutine but the caller is blocked (not running, not runnable, not sleeping).
var stackBuf = make([]byte, 1<<20)

func othersBlocked() bool {
	n := runtime.Stack(stackBuf, true)
	s := string(stackBuf[:n])
	running := 0
	for _, blk := range strings.Split(s, "\n\n") {
		if !strings.HasPrefix(blk, "goroutine ") {
			continue
		}
		i := strings.IndexByte(blk, '[')
		j := strings.IndexByte(blk, ']')
		if i < 0 || j < i {
			continue
		}
		st := blk[i+1 : j]
		if k := strings.IndexByte(st, ','); k >= 0 {
			st = st[:k]
		}
		switch {
		case st == "running":
			running++
		case st == "runnable" || st == "sleep" || strings.HasPrefix(st, "GC ") || st == "copystack" || st == "preempted":
			return false
		}
	}
	return running <= 1
}

func (w *world) signature() [4]int {
	w.d.mu.Lock()
	defer w.d.mu.Unlock()
	last := 0
	if len(w.d.parked) > 0 {
		last = w.d.parked[len(w.d.parked)-1].seq
	}
	return [4]int{w.d.arrivals, w.d.departures, len(w.d.parked), last}
}

// settle waits for a stable point.
func (w *world) settle() {
	t0 := time.Now()
	deadline := t0.Add(w.settleWait)
	var last [4]int
	stable := 0
	for {
		runtime.Gosched()
		if othersBlocked() {
			sig := w.signature()
			if stable > 0 && sig == last {
				stable++
			} else {
				stable = 1
				last = sig
			}
			if stable >= 3 {
				return
			}
		} else {
			stable = 0
		}
		if time.Now().After(deadline) {
			w.settleFail = true
			return
		}
		if stable == 0 {
			time.Sleep(20 * time.Microsecond)
		}
	}
}

func (w *world) call(f func() apiRet) chan apiRet {
	ch := make(chan apiRet, 1)
	go func() {
		var r apiRet
		defer func() {
			if p := recover(); p != nil {
				r.pan = p
			}
			ch <- r
		}()
		r = f()
	}()
	return ch
}

func retCode(r apiRet) string {
	switch {
	case r.pan != nil:
		return "o"
	case r.err == nil:
		return "n"
	case errors.Is(r.err, stateless.ErrFullQueue):
		return "f"
	}
	return "o"
}

var statusCode = map[api.TrackerStatus]string{
	api.TrackerStatusPinned: "pd", api.TrackerStatusPinning: "pg", api.TrackerStatusPinQueued: "pq",
	api.TrackerStatusPinError: "pe", api.TrackerStatusUnpinned: "ud", api.TrackerStatusUnpinning: "ug",
	api.TrackerStatusUnpinQueued: "uq", api.TrackerStatusUnpinError: "ue", api.TrackerStatusRemote: "rm",
	api.TrackerStatusSharded: "sh", api.TrackerStatusUnexpectedlyUnpinned: "uu",
	api.TrackerStatusClusterError: "ce", api.TrackerStatusUndefined: "un",
}

func code(st api.TrackerStatus) string {
	if s, ok := statusCode[st]; ok {
		return s
	}
	return "??"
}

func (w *world) infosTok(l []*api.PinInfo) string {
	if len(l) == 0 {
		return "-"
	}
	s := make([]string, len(l))
	for i, pi := range l {
		if pi == nil {
			s[i] = "nil"
			continue
		}
		s[i] = fmt.Sprintf("%d.%s", common.CidIndex(pi.Cid, maxCids), code(pi.Status))
	}
	return strings.Join(s, ",")
}

// release applies a daemon-side action to the oldest live parked call for cid c (no waiting).
func (w *world) release(kind string, sel byte, c int) {
	w.d.mu.Lock()
	defer w.d.mu.Unlock()
	pc := w.d.callFor(c, sel)
	if pc == nil {
		return
	}
	switch kind {
	case "e":
		w.d.applyEffect(pc)
	case "k":
		w.d.applyEffect(pc)
		w.d.remove(pc)
		pc.rel <- false
	case "x":
		if pc.kind == 'U' {
			w.d.failed[c] = true
		}
		w.d.remove(pc)
		pc.rel <- true
	}
}

// act performs one scripted action and returns its ret= token.
func (w *world) act(a string) (string, bool) {
	if i := strings.IndexByte(a, '&'); i >= 0 {
		// the daemon's answer races with an instruction: release, do not wait, instruct
		d, ins := a[:i], a[i+1:]
		f := strings.SplitN(d, ":", 2)
		if len(f) != 2 {
			return "", false
		}
		dact, dsel, dok := splitDaemonAct(f[0])
		if !dok || dact == "e" {
			return "", false
		}
		c, err := strconv.Atoi(f[1])
		if err != nil || c < 0 || c >= w.n {
			return "", false
		}
		if !(strings.HasPrefix(ins, "t:") || strings.HasPrefix(ins, "u:") || strings.HasPrefix(ins, "r:")) {
			return "", false
		}
		if !w.validInstr(ins) {
			return "", false
		}
		w.release(dact, dsel, c)
		for k := 0; k < w.jitter; k++ {
			runtime.Gosched()
		}
		return w.act(ins)
	}
	if a == "G" {
		l, err := w.cons.St.List(w.ctx)
		if err != nil {
			panic(err)
		}
		w.stale, w.staleArmed = l, true
		w.settle()
		return "ret=-", true
	}
	if a == "R" || a == "Rs" {
		if a == "Rs" {
			w.inR = true
			defer func() { w.inR, w.staleArmed = false, false }()
		}
		ch := w.call(func() apiRet {
			l, err := w.spt.RecoverAll(w.ctx)
			return apiRet{err: err, infos: l}
		})
		w.settle()
		select {
		case r := <-ch:
			return "ret=" + retCode(r) + ":" + w.infosTok(r.infos), true
		default:
			return "ret=p:-", true
		}
	}
	f := strings.SplitN(a, ":", 2)
	if len(f) != 2 {
		return "", false
	}
	switch f[0] {
	case "F": // the daemon's reads (PinLsCid / PinLs) fail from now on (1) / work again (0)
		if f[1] != "0" && f[1] != "1" {
			return "", false
		}
		w.d.mu.Lock()
		w.d.lsDown = f[1] == "1"
		w.d.mu.Unlock()
		w.settle()
		return "ret=-", true
	case "t":
		c, k, m, t, ok := parsePinTok(f[1])
		if !ok || c >= w.n || k == "0" {
			return "", false
		}
		pin := mkPin(c, k, m, t)
		if err := w.cons.St.Add(w.ctx, pin); err != nil {
			panic(err)
		}
		if k == "h" || k == "e" || k == "g" {
			w.d.mu.Lock()
			delete(w.d.failed, c)
			w.d.mu.Unlock()
		}
		ch := w.call(func() apiRet { return apiRet{err: w.spt.Track(w.ctx, pin)} })
		w.settle()
		select {
		case r := <-ch:
			return "ret=" + retCode(r), true
		default:
			w.late = append(w.late, ch)
			return "ret=p", true
		}
	case "u", "r", "e", "k", "x", "l", "eP", "kP", "xP", "eU", "kU", "xU":
		c, err := strconv.Atoi(f[1])
		if err != nil || c < 0 || c >= w.n {
			return "", false
		}
		switch f[0] {
		case "u":
			if err := w.cons.St.Rm(w.ctx, common.CidN(c)); err != nil {
				panic(err)
			}
			w.d.mu.Lock()
			delete(w.d.failed, c)
			w.d.mu.Unlock()
			ch := w.call(func() apiRet { return apiRet{err: w.spt.Untrack(w.ctx, common.CidN(c))} })
			w.settle()
			select {
			case r := <-ch:
				return "ret=" + retCode(r), true
			default:
				return "ret=p", true
			}
		case "r":
			ch := w.call(func() apiRet {
				pi, err := w.spt.Recover(w.ctx, common.CidN(c))
				return apiRet{err: err, infos: []*api.PinInfo{pi}}
			})
			w.settle()
			select {
			case r := <-ch:
				return "ret=" + retCode(r) + ":" + w.infosTok(r.infos), true
			default:
				return "ret=p:-", true
			}
		case "e", "k", "x", "eP", "kP", "xP", "eU", "kU", "xU":
			dact, dsel, _ := splitDaemonAct(f[0])
			w.release(dact, dsel, c)
			w.settle()
			return "ret=-", true
		case "l":
			w.d.mu.Lock()
			delete(w.d.pins, c)
			w.d.mu.Unlock()
			w.settle()
			return "ret=-", true
		}
	}
	return "", false
}

// validInstr checks an instruction token without executing it.
func (w *world) validInstr(a string) bool {
	f := strings.SplitN(a, ":", 2)
	if len(f) != 2 {
		return false
	}
	if f[0] == "t" {
		c, k, _, _, ok := parsePinTok(f[1])
		return ok && c < w.n && k != "0"
	}
	c, err := strconv.Atoi(f[1])
	return err == nil && c >= 0 && c < w.n
}

func (w *world) collectLate() {
	keep := w.late[:0]
	for _, ch := range w.late {
		select {
		case r := <-ch:
			if r.err != nil || r.pan != nil {
				w.lateBad = true
			}
		default:
			keep = append(keep, ch)
		}
	}
	w.late = keep
}

func (w *world) obs() string {
	w.collectLate()
	n := w.n
	sts := make([]string, n)
	for c := 0; c < n; c++ {
		func() {
			defer func() {
				if p := recover(); p != nil {
					sts[c] = "??"
				}
			}()
			sts[c] = code(w.spt.Status(w.ctx, common.CidN(c)).Status)
		}()
	}
	all := make([]string, n)
	for c := range all {
		all[c] = "-"
	}
	func() {
		defer func() { recover() }()
		for _, pi := range w.spt.StatusAll(w.ctx, api.TrackerStatusUndefined) {
			idx := common.CidIndex(pi.Cid, maxCids)
			if idx < 0 || idx >= n {
				continue
			}
			if all[idx] != "-" {
				all[idx] = "??" // listed twice
				continue
			}
			all[idx] = code(pi.Status)
		}
	}()
	dm := make([]string, n)
	sh := make([]string, n)
	fl := make([]string, n)
	w.d.mu.Lock()
	for c := 0; c < n; c++ {
		dm[c] = "-"
		if e, ok := w.d.pins[c]; ok {
			dm[c] = fmt.Sprintf("%s.%d", e.mode, e.tag)
		}
		fl[c] = "0"
		if w.d.failed[c] {
			fl[c] = "1"
		}
	}
	lsd := "0"
	if w.d.lsDown {
		lsd = "1"
	}
	var calls []*pcall
	for _, pc := range w.d.parked {
		if pc.ctx.Err() == nil {
			calls = append(calls, pc)
		}
	}
	w.d.mu.Unlock()
	sort.SliceStable(calls, func(i, j int) bool {
		if calls[i].cid != calls[j].cid {
			return calls[i].cid < calls[j].cid
		}
		return calls[i].kind < calls[j].kind
	})
	ps := make([]string, len(calls))
	for i, pc := range calls {
		if pc.kind == 'P' {
			ps[i] = "P." + tokOf(pc.pin)
		} else {
			ps[i] = fmt.Sprintf("U.%d", pc.cid)
		}
	}
	pt := "-"
	if len(ps) > 0 {
		pt = strings.Join(ps, ";")
	}
	for c := 0; c < n; c++ {
		sh[c] = "-"
		if p, err := w.cons.St.Get(w.ctx, common.CidN(c)); err == nil {
			sh[c] = tokOf(p)
		}
	}
	g := strconv.Itoa(len(w.late))
	if w.lateBad {
		g += "!"
	}
	return fmt.Sprintf("s=%s a=%s d=%s h=%s f=%s p=%s g=%s L=%s", strings.Join(sts, ","), strings.Join(all, ","),
		strings.Join(dm, ","), strings.Join(sh, ","), strings.Join(fl, ","), pt, g, lsd)
}

// ---------------------------------------------------------------- generation

type gen struct {
	r            *common.Rng
	w            *world
	shared       map[int]string // cid -> pin token last tracked
	draining     int
	profile      int // 0 mixed, 1 burst (queue pressure), 2 churn on one cid, 3 faulty daemon, 4 recover rounds, 5 noise, 6 requeue
	tailQ        []string // the closing actions of a schedule (drain, recover round, drain)
	tailBudget   int
	script       []string // actions decided in advance (profile 6 prefix), emitted before anything else
	scripted     bool
	hot          int // the cid the churn profile insists on
	lsFaults     int // percent chance per step that the daemon's reads start failing
	lsDown       bool
	overlap      int // percent chance per step that a RecoverAll overlapping the following actions starts
	stalePending bool
}

func (g *gen) parkedCids() []int {
	g.w.d.mu.Lock()
	defer g.w.d.mu.Unlock()
	seen := map[int]bool{}
	var l []int
	for _, pc := range g.w.d.parked {
		if pc.ctx.Err() == nil && !seen[pc.cid] {
			seen[pc.cid] = true
			l = append(l, pc.cid)
		}
	}
	sort.Ints(l)
	return l
}

// sel chooses which parked call for cid c a daemon action addresses: "" = the oldest; "P" / "U" = the oldest
// Pin / Unpin call. Several live calls for one cid (a request that outlived the operation that cancelled it)
// are addressed individually, so that the later request can be answered before the earlier one.
func (g *gen) sel(c int) string {
	g.w.d.mu.Lock()
	var kinds []byte
	for _, pc := range g.w.d.parked {
		if pc.cid == c && pc.ctx.Err() == nil {
			kinds = append(kinds, pc.kind)
		}
	}
	g.w.d.mu.Unlock()
	r := g.r
	switch {
	case len(kinds) >= 2:
		return string(kinds[r.Intn(len(kinds))])
	case len(kinds) == 1:
		x := r.Intn(20)
		if x < 6 {
			return string(kinds[0])
		}
		if x == 6 { // the other kind: nothing to answer
			if kinds[0] == 'P' {
				return "U"
			}
			return "P"
		}
	}
	return ""
}

func (g *gen) pinTok(c int) string {
	r := g.r
	ks := []string{"h", "h", "h", "h", "h", "e", "e", "g", "r", "r", "r", "z", "m"}
	if g.profile == 1 {
		ks = []string{"h", "h", "e", "g"} // burst: everything wants a queue slot
	}
	k := ks[r.Intn(len(ks))]
	// a meta entry stays meta most of the time and data stays data
	if cur, ok := g.shared[c]; ok && r.Chance(9, 10) {
		_, ck, _, _, _ := parsePinTok(cur)
		if (ck == "m") != (k == "m") {
			if ck == "m" {
				k = "m"
			} else {
				k = "h"
			}
		}
	}
	m := "r"
	if r.Chance(2, 5) {
		m = "d"
	}
	t := r.Intn(3)
	if cur, ok := g.shared[c]; ok && r.Chance(1, 6) {
		return cur // identical re-track
	}
	return fmt.Sprintf("%d.%s.%s.%d", c, k, m, t)
}

func (g *gen) pickCid() int {
	if g.profile == 2 && g.r.Chance(3, 4) {
		return g.hot
	}
	return g.r.Intn(g.w.n)
}

func (g *gen) instr() string {
	r := g.r
	x := r.Intn(100)
	switch {
	case x < 55:
		c := g.pickCid()
		tok := g.pinTok(c)
		g.shared[c] = tok
		return "t:" + tok
	case x < 80:
		c := g.pickCid()
		delete(g.shared, c)
		return fmt.Sprintf("u:%d", c)
	default:
		return fmt.Sprintf("r:%d", g.pickCid())
	}
}

// requeueScript (profile 6): instructions for a cid the daemon ALREADY pins, issued while every pin worker is busy
// with another cid, so that the new operation waits in the channel: first some cids are pinned and answered, then
// `workers` other cids are tracked and left parked, then a pinned cid is re-tracked (queued behind them; with a
// full channel: ErrFullQueue) and untracked / re-tracked again while still queued; the busy calls are answered
// afterwards. What the daemon holds for such a cid comes from an EARLIER operation: only the operation that the
// last instruction queues can correct it.
func (g *gen) requeueScript() []string {
	r := g.r
	n, wk := g.w.n, g.w.workers
	if n < 2 {
		return nil
	}
	nb := wk // cids that keep the workers busy
	if nb > n-1 {
		nb = n - 1
	}
	perm := make([]int, n)
	for i := range perm {
		perm[i] = i
	}
	for i := n - 1; i > 0; i-- {
		j := r.Intn(i + 1)
		perm[i], perm[j] = perm[j], perm[i]
	}
	busy, rest := perm[:nb], perm[nb:]
	var out []string
	tok := func(c int) string {
		m := "r"
		if r.Chance(1, 3) {
			m = "d"
		}
		k := []string{"h", "h", "e", "g"}[r.Intn(4)]
		return fmt.Sprintf("%d.%s.%s.%d", c, k, m, r.Intn(3))
	}
	track := func(c int) {
		t := tok(c)
		if cur, ok := g.shared[c]; ok && r.Chance(1, 2) {
			t = cur
		}
		g.shared[c] = t
		out = append(out, "t:"+t)
	}
	for _, c := range rest { // pinned at the daemon, nothing left in the table
		if r.Chance(4, 5) {
			track(c)
			out = append(out, fmt.Sprintf("k:%d", c))
		}
	}
	for _, c := range busy {
		track(c)
	}
	for _, c := range rest {
		for j, m := 0, r.Range(1, 3); j < m; j++ {
			if j%2 == 0 {
				track(c)
			}
			if j%2 == 1 || r.Chance(2, 3) {
				delete(g.shared, c)
				out = append(out, fmt.Sprintf("u:%d", c))
			}
		}
	}
	if r.Chance(1, 2) {
		for _, c := range busy {
			out = append(out, fmt.Sprintf("k:%d", c))
		}
	}
	return out
}

func (g *gen) next() string {
	r := g.r
	n := g.w.n
	if g.profile == 6 && !g.scripted {
		g.scripted = true
		g.script = g.requeueScript()
	}
	if len(g.script) > 0 {
		a := g.script[0]
		g.script = g.script[1:]
		return a
	}
	parked := g.parkedCids()
	g.w.jitter = r.Intn(4)
	// a RecoverAll that overlaps other instructions: it reads the pinset (G), instructions and daemon answers follow,
	// then the rest of it runs (Rs)
	if g.stalePending {
		if r.Intn(4) == 0 {
			g.stalePending = false
			return "Rs"
		}
	} else if g.overlap > 0 && r.Intn(100) < g.overlap {
		g.stalePending = true
		return "G"
	}
	// daemon read failures (PinLsCid / PinLs): short outages that contain recover rounds and instructions
	if g.lsDown {
		switch x := r.Intn(10); {
		case x < 3:
			g.lsDown = false
			return "F:0"
		case x < 6:
			if r.Chance(2, 3) {
				return "R"
			}
			return fmt.Sprintf("r:%d", r.Intn(n))
		}
	} else if g.lsFaults > 0 && r.Intn(100) < g.lsFaults {
		g.lsDown = true
		return "F:1"
	}
	if g.draining > 0 {
		if len(parked) == 0 {
			g.draining = 0
			if r.Chance(1, 2) {
				g.draining = 1
				if r.Chance(2, 3) {
					return "R"
				}
				return fmt.Sprintf("r:%d", r.Intn(n))
			}
		} else {
			c := parked[r.Intn(len(parked))]
			return fmt.Sprintf("k%s:%d", g.sel(c), c)
		}
	}
	if g.profile == 5 {
		// noise: actions drawn without looking at the state (answers for calls that do not exist, repeated
		// effects, recover / untrack of cids never tracked, races without a parked call)
		c := r.Intn(n)
		switch r.Intn(12) {
		case 0, 1:
			return fmt.Sprintf("k:%d", c)
		case 2:
			return fmt.Sprintf("x:%d", c)
		case 3, 4:
			return fmt.Sprintf("e:%d", c)
		case 5:
			return fmt.Sprintf("l:%d", c)
		case 6:
			return fmt.Sprintf("r:%d", c)
		case 7:
			return "R"
		case 8:
			return fmt.Sprintf("k:%d&%s", c, g.instr())
		case 9:
			return fmt.Sprintf("x:%d&u:%d", c, r.Intn(n))
		default:
			return g.instr()
		}
	}
	// weights: instruction / recover / lose / drain / daemon action
	wInstr, wRec, wLose, wDrain := 42, 13, 3, 6
	switch g.profile {
	case 1:
		wInstr, wRec, wLose, wDrain = 70, 6, 1, 3
	case 2:
		wInstr, wRec, wLose, wDrain = 55, 8, 2, 4
	case 3:
		wInstr, wRec, wLose, wDrain = 35, 15, 6, 4
	case 4:
		wInstr, wRec, wLose, wDrain = 30, 25, 5, 12
	}
	x := r.Intn(100)
	switch {
	case x < wInstr:
		ins := g.instr()
		if strings.HasPrefix(ins, "r:") {
			ins = g.instr()
		}
		return ins
	case x < wInstr+wRec:
		if r.Chance(1, 2) {
			return "R"
		}
		return fmt.Sprintf("r:%d", g.pickCid())
	case x < wInstr+wRec+wLose:
		return fmt.Sprintf("l:%d", r.Intn(n))
	case x < wInstr+wRec+wLose+wDrain:
		g.draining = 1
		fallthrough
	default:
		if len(parked) == 0 {
			if r.Chance(1, 5) {
				return fmt.Sprintf("k:%d", r.Intn(n)) // nothing parked: a no-op
			}
			return g.instr()
		}
		c := parked[r.Intn(len(parked))]
		if g.profile == 2 && r.Chance(1, 2) {
			for _, pc := range parked {
				if pc == g.hot {
					c = pc
				}
			}
		}
		sl := g.sel(c)
		y := r.Intn(20)
		fault := 4
		if g.profile == 3 {
			fault = 8
		}
		switch {
		case y < 3: // the answer races with an instruction, mostly on the same cid
			d := "k"
			if r.Chance(1, 4) {
				d = "x"
			}
			save := g.hot
			savep := g.profile
			if r.Chance(3, 4) {
				g.hot, g.profile = c, 2
			}
			ins := g.instr()
			g.hot, g.profile = save, savep
			return fmt.Sprintf("%s%s:%d&%s", d, sl, c, ins)
		case y < 3+fault:
			return fmt.Sprintf("x%s:%d", sl, c)
		case y < 5+fault:
			return fmt.Sprintf("e%s:%d", sl, c)
		default:
			return fmt.Sprintf("k%s:%d", sl, c)
		}
	}
}

// tailActs is called after the last action so far: it queues the next closing action and returns how many it queued.
// *phase 2: drain before the recover round, 1: drain after it, 0: finished.
func (g *gen) tailActs(phase *int) int {
	r := g.r
	if g.tailBudget == 0 {
		g.tailBudget = 24
	}
	if g.tailBudget <= 1 {
		*phase = 0
		return 0
	}
	g.tailBudget--
	if g.lsDown {
		g.lsDown = false
		g.tailQ = append(g.tailQ, "F:0")
		return 1
	}
	if g.stalePending {
		g.stalePending = false
		g.tailQ = append(g.tailQ, "Rs")
		return 1
	}
	if parked := g.parkedCids(); len(parked) > 0 {
		c := parked[r.Intn(len(parked))]
		d := "k"
		if *phase == 2 && r.Chance(1, 8) {
			d = "x"
		}
		g.tailQ = append(g.tailQ, fmt.Sprintf("%s%s:%d", d, g.sel(c), c))
		return 1
	}
	*phase--
	if *phase == 1 {
		g.tailQ = append(g.tailQ, "R")
		return 1
	}
	return 0
}

// runSchedule executes a schedule; acts == nil means generate `length` actions with r.
func runSchedule(cap, workers, n int, acts []string, r *common.Rng, length int, wait time.Duration) (string, bool) {
	w := newWorld(cap, workers, n)
	w.settleWait = wait
	defer w.close()
	w.settle()
	var groups []string
	groups = append(groups, w.obs())
	var done []string
	g := &gen{r: r, w: w, shared: map[int]string{}}
	if r != nil {
		g.profile = []int{0, 0, 0, 1, 1, 2, 2, 3, 4, 4, 5, 6, 6}[r.Intn(13)]
		g.hot = r.Intn(n)
		g.lsFaults = []int{0, 0, 2, 4, 10}[r.Intn(5)]
		g.overlap = []int{0, 0, 0, 0, 3, 6}[r.Intn(6)]
		if g.profile == 3 {
			g.lsFaults += 6
		}
	}
	total := len(acts)
	tail := 0
	if acts == nil {
		total = length
		if length > 3 && r.Chance(3, 4) {
			tail = 2
		}
	}
	for i := 0; i < total; i++ {
		var a string
		if acts != nil {
			a = acts[i]
		} else if len(g.tailQ) > 0 {
			a = g.tailQ[0]
			g.tailQ = g.tailQ[1:]
		} else {
			a = g.next()
		}
		ret, ok := w.act(a)
		if !ok {
			return "malformed act " + a, false
		}
		done = append(done, a)
		groups = append(groups, ret+" "+w.obs())
		if w.settleFail {
			return "no stable point after " + a, false
		}
		// generated schedules mostly stop with calls still parked, where the first two sentences of the property say
		// nothing: most of them get a tail that answers every parked call (nil, sometimes an error) until nothing is
		// parked — a quiescent point, judged by `quiescent_match_or_error` — then a RecoverAll and the same again
		// (`recover_heals`).
		if acts == nil && i == total-1 && tail > 0 {
			total += g.tailActs(&tail)
		}
	}
	return fmt.Sprintf("C05 q=%d w=%d n=%d %s => %s", cap, workers, n, strings.Join(done, " "), strings.Join(groups, " | ")), true
}

func parseHead(f []string) (cap, workers, n int, ok bool) {
	if len(f) < 3 {
		return
	}
	get := func(s, key string) int {
		if !strings.HasPrefix(s, key+"=") {
			return -1
		}
		v, err := strconv.Atoi(s[len(key)+1:])
		if err != nil {
			return -1
		}
		return v
	}
	cap, workers, n = get(f[0], "q"), get(f[1], "w"), get(f[2], "n")
	ok = cap >= 1 && cap <= 64 && workers >= 1 && workers <= 8 && n >= 1 && n <= maxCids
	return
}

func main() {
	args := common.ParseArgs()
	initDecode()
	out := common.NewOut()
	defer out.Flush()
	wait := 3 * time.Second

	if args.Extra["stdin"] == "1" {
		sc := bufio.NewScanner(os.Stdin)
		sc.Buffer(make([]byte, 1<<20), 1<<24)
		for sc.Scan() {
			line := strings.TrimSpace(sc.Text())
			if line == "" || strings.HasPrefix(line, "#") {
				continue
			}
			if i := strings.Index(line, " => "); i >= 0 {
				line = line[:i]
			}
			f := strings.Fields(line)
			if len(f) > 0 && f[0] == "C05" {
				f = f[1:]
			}
			cap, workers, n, ok := parseHead(f)
			if !ok {
				out.Line("C05 %s => malformed", strings.Join(f, " "))
				continue
			}
			acts := f[3:]
			if acts == nil {
				acts = []string{}
			}
			emit(out, cap, workers, n, acts, nil, 0, wait)
		}
		return
	}

	n := args.N
	if n < 0 {
		n = 100
	}
	root := common.NewRng(common.Seed())
	for k := 0; k < n; k++ {
		if args.Only >= 0 && k != args.Only {
			continue
		}
		r := root.Fork(uint64(k))
		caps := []int{1, 1, 1, 2, 2, 3}
		cap := caps[r.Intn(len(caps))]
		workers := r.Range(1, 3)
		nc := r.Range(3, 4)
		length := r.Range(6, 22)
		if args.Tier == "thorough" {
			length = r.Range(6, 40)
		}
		if k%16 == 0 {
			length = r.Range(0, 3) // boundary: empty and tiny schedules
		}
		emit(out, cap, workers, nc, nil, r, length, wait)
	}
}

// emit runs a schedule; when no stable point is reached it is re-run (twice) before being
// reported as inconclusive.
func emit(out *common.Out, cap, workers, n int, acts []string, r *common.Rng, length int, wait time.Duration) {
	for attempt := 0; attempt < 3; attempt++ {
		var rr *common.Rng
		if r != nil {
			cp := *r
			rr = &cp
		}
		line, ok := runSchedule(cap, workers, n, acts, rr, length, wait)
		if ok {
			out.Line("%s", line)
			return
		}
		if strings.HasPrefix(line, "malformed") {
			out.Line("C05 q=%d w=%d n=%d %s => malformed", cap, workers, n, strings.Join(acts, " "))
			return
		}
		if attempt == 2 {
			out.Line("# inconclusive C05 q=%d w=%d n=%d: %s", cap, workers, n, line)
		}
	}
}
