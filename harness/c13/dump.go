package main

// Structure dump of a delivered DAG, for the comparison with the Lean model of the
// importer (Model/C13Import.lean). Decoding the blocks (protobuf, unixfs) is done
// here; what the structure must be is decided by the model.
//
//   leaf   r<len>#id | f<len>#id | w<len>#id   raw block | unixfs File with data | unixfs Raw with data
//   inner  (kid,kid,...)[blocksize,...]#id      unixfs File with links (links in encoded order)
//   link   l<target>#id
//   dir    {name=node,name=node}#id             links in encoded order
//   ?      block not delivered      !<why>      block that is none of the above
//
// id = number of the block in the stream handed to the DAG service (by first appearance),
// 999999 when it was never handed over. The id follows the node's children, so the ids
// read left to right are the post-order of the DAG.

import (
	"context"
	"fmt"
	"regexp"
	"strings"

	cid "github.com/ipfs/go-cid"
	dag "github.com/ipfs/go-merkledag"
	unixfs "github.com/ipfs/go-unixfs"
)

const dumpLimit = 400000

type dumper struct {
	ctx   context.Context
	ds    *mapDAG
	nm    *namer
	files []string
	size  int
}

var idRe = regexp.MustCompile(`#\d+`)

func (d *dumper) node(c cid.Cid, inFile bool) string {
	if d.size > dumpLimit {
		return "?"
	}
	id := d.nm.ref(c)
	n, err := d.ds.Get(d.ctx, c)
	if err != nil {
		return "?"
	}
	out := d.render(n, id, inFile)
	d.size += 8
	return out
}

func (d *dumper) render(n interface{}, id int, inFile bool) string {
	switch nd := n.(type) {
	case *dag.RawNode:
		s := fmt.Sprintf("r%d#%d", len(nd.RawData()), id)
		if !inFile {
			d.files = append(d.files, idRe.ReplaceAllString(s, ""))
		}
		return s
	case *dag.ProtoNode:
		fsn, err := unixfs.FSNodeFromBytes(nd.Data())
		if err != nil {
			return fmt.Sprintf("!notunixfs#%d", id)
		}
		switch fsn.Type() {
		case unixfs.TDirectory:
			if inFile {
				return fmt.Sprintf("!dirinfile#%d", id)
			}
			parts := make([]string, len(nd.Links()))
			for i, l := range nd.Links() {
				parts[i] = l.Name + "=" + d.node(l.Cid, false)
			}
			return "{" + strings.Join(parts, ",") + "}#" + fmt.Sprint(id)
		case unixfs.TSymlink:
			if inFile || len(nd.Links()) != 0 {
				return fmt.Sprintf("!symlink#%d", id)
			}
			return fmt.Sprintf("l%s#%d", string(fsn.Data()), id)
		case unixfs.TFile, unixfs.TRaw:
			var s string
			if len(nd.Links()) == 0 {
				tag := "f"
				if fsn.Type() == unixfs.TRaw {
					tag = "w"
				}
				if fsn.NumChildren() != 0 || fsn.FileSize() != uint64(len(fsn.Data())) {
					return fmt.Sprintf("!leafsizes#%d", id)
				}
				s = fmt.Sprintf("%s%d#%d", tag, len(fsn.Data()), id)
			} else {
				if fsn.Type() != unixfs.TFile || len(fsn.Data()) != 0 || fsn.NumChildren() != len(nd.Links()) {
					return fmt.Sprintf("!inner#%d", id)
				}
				kids := make([]string, len(nd.Links()))
				sizes := make([]string, len(nd.Links()))
				var sum uint64
				for i, l := range nd.Links() {
					if l.Name != "" {
						return fmt.Sprintf("!namedlink#%d", id)
					}
					kids[i] = d.node(l.Cid, true)
					sizes[i] = fmt.Sprint(fsn.BlockSize(i))
					sum += fsn.BlockSize(i)
				}
				if sum != fsn.FileSize() {
					return fmt.Sprintf("!filesize#%d", id)
				}
				s = "(" + strings.Join(kids, ",") + ")[" + strings.Join(sizes, ",") + "]#" + fmt.Sprint(id)
			}
			if !inFile {
				d.files = append(d.files, idRe.ReplaceAllString(s, ""))
			}
			return s
		}
		return fmt.Sprintf("!type%d#%d", fsn.Type(), id)
	}
	return fmt.Sprintf("!codec#%d", id)
}

// dumpDAG renders the DAG under root as found in the delivered blocks: the whole DAG
// with stream ids, and the shape of every file DAG in it (ids stripped).
func dumpDAG(ctx context.Context, ds *mapDAG, root cid.Cid, nm *namer) (dagTok, filesTok string) {
	defer func() {
		if r := recover(); r != nil {
			dagTok, filesTok = "!panic", "-"
		}
	}()
	d := &dumper{ctx: ctx, ds: ds, nm: nm}
	s := d.node(root, false)
	if d.size > dumpLimit || len(s) > dumpLimit {
		return "big", "-"
	}
	f := "-"
	if len(d.files) > 0 {
		f = strings.Join(d.files, ";")
	}
	return s, f
}
