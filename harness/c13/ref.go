package main

// The reference side of the content checks: a map-backed DAG service, an
// importer assembled directly from the go-unixfs / go-merkledag library
// primitives (chunker, balanced/trickle layout, basic directories) - it does
// not share code with adder/ipfsadd - and the read-back of a file tree from a
// set of delivered blocks.

import (
	"bytes"
	"context"
	"errors"
	"fmt"
	"io"
	"strings"

	blocks "github.com/ipfs/go-block-format"
	cid "github.com/ipfs/go-cid"
	chunker "github.com/ipfs/go-ipfs-chunker"
	ipld "github.com/ipfs/go-ipld-format"
	dag "github.com/ipfs/go-merkledag"
	unixfs "github.com/ipfs/go-unixfs"
	balanced "github.com/ipfs/go-unixfs/importer/balanced"
	ihelper "github.com/ipfs/go-unixfs/importer/helpers"
	trickle "github.com/ipfs/go-unixfs/importer/trickle"
	uio "github.com/ipfs/go-unixfs/io"
	car "github.com/ipld/go-car"
	multihash "github.com/multiformats/go-multihash"
)

// mapDAG is an ipld.DAGService over a map of raw blocks.
type mapDAG struct {
	m      map[string][]byte
	verify bool // check that data hashes to the cid on every read
}

func newMapDAG() *mapDAG { return &mapDAG{m: map[string][]byte{}} }

func (d *mapDAG) Add(ctx context.Context, n ipld.Node) error {
	d.m[n.Cid().KeyString()] = n.RawData()
	return nil
}
func (d *mapDAG) AddMany(ctx context.Context, ns []ipld.Node) error {
	for _, n := range ns {
		d.Add(ctx, n)
	}
	return nil
}
func (d *mapDAG) Get(ctx context.Context, c cid.Cid) (ipld.Node, error) {
	data, ok := d.m[c.KeyString()]
	if !ok {
		return nil, ipld.ErrNotFound
	}
	if d.verify {
		c2, err := c.Prefix().Sum(data)
		if err != nil || !c2.Equals(c) {
			return nil, errors.New("block data does not hash to its cid")
		}
	}
	b, err := blocks.NewBlockWithCid(data, c)
	if err != nil {
		return nil, err
	}
	return ipld.Decode(b)
}
func (d *mapDAG) GetMany(ctx context.Context, cs []cid.Cid) <-chan *ipld.NodeOption {
	out := make(chan *ipld.NodeOption, len(cs))
	for _, c := range cs {
		n, err := d.Get(ctx, c)
		out <- &ipld.NodeOption{Node: n, Err: err}
	}
	close(out)
	return out
}
func (d *mapDAG) Remove(ctx context.Context, c cid.Cid) error { delete(d.m, c.KeyString()); return nil }
func (d *mapDAG) RemoveMany(ctx context.Context, cs []cid.Cid) error {
	for _, c := range cs {
		d.Remove(ctx, c)
	}
	return nil
}

type importParams struct {
	chunker string
	trickle bool
	raw     bool
	cidv    int
	hash    string
}

func (p importParams) builder() (cid.Builder, error) {
	prefix, err := dag.PrefixForCidVersion(p.cidv)
	if err != nil {
		return nil, err
	}
	code, ok := multihash.Names[strings.ToLower(p.hash)]
	if !ok {
		return nil, errors.New("unknown hash")
	}
	prefix.MhType = code
	prefix.MhLength = -1
	return &prefix, nil
}

type refImporter struct {
	ctx context.Context
	ds  *mapDAG
	p   importParams
	b   cid.Builder
}

func (ri *refImporter) node(t *tnode) (ipld.Node, error) {
	switch t.kind {
	case 'f', 'z':
		spl, err := chunker.FromString(bytes.NewReader(t.content()), ri.p.chunker)
		if err != nil {
			return nil, err
		}
		params := ihelper.DagBuilderParams{Dagserv: ri.ds, RawLeaves: ri.p.raw, Maxlinks: ihelper.DefaultLinksPerBlock, CidBuilder: ri.b}
		db, err := params.New(spl)
		if err != nil {
			return nil, err
		}
		if ri.p.trickle {
			return trickle.Layout(db)
		}
		return balanced.Layout(db)
	case 'l':
		data, err := unixfs.SymlinkData(t.target)
		if err != nil {
			return nil, err
		}
		n := dag.NodeWithData(data)
		n.SetCidBuilder(ri.b)
		return n, ri.ds.Add(ri.ctx, n)
	}
	d := uio.NewDirectory(ri.ds)
	d.SetCidBuilder(ri.b)
	for i, name := range t.names {
		k, err := ri.node(t.kids[i])
		if err != nil {
			return nil, err
		}
		if err := d.AddChild(ri.ctx, name, k); err != nil {
			return nil, err
		}
	}
	n, err := d.GetNode()
	if err != nil {
		return nil, err
	}
	return n, ri.ds.Add(ri.ctx, n)
}

// refImport computes the root the standard importer gives for the visible
// tree: the single top-level entry itself, or a directory of the top-level
// entries when wrapping. It returns the tree node that the root stands for.
func refImport(ctx context.Context, top *tnode, wrap bool, p importParams) (root cid.Cid, ds *mapDAG, what *tnode, err error) {
	defer func() {
		if r := recover(); r != nil {
			err = fmt.Errorf("panic: %v", r)
		}
	}()
	b, err := p.builder()
	if err != nil {
		return cid.Undef, nil, nil, err
	}
	ri := &refImporter{ctx: ctx, ds: newMapDAG(), p: p, b: b}
	// the standard importer works inside an MFS root, an empty directory made with the same CID builder
	// (a builder that cannot make dag-pb CIDs, CIDv0 with another hash than sha2-256, fails right there)
	mfsRoot := unixfs.EmptyDirNode()
	mfsRoot.SetCidBuilder(b)
	_ = mfsRoot.Cid()
	what = top
	if !wrap {
		if len(top.kids) != 1 {
			return cid.Undef, nil, nil, errors.New("unsupported: several top-level entries without wrapping")
		}
		what = top.kids[0]
	}
	n, err := ri.node(what)
	if err != nil {
		return cid.Undef, nil, nil, err
	}
	return n.Cid(), ri.ds, what, nil
}

// closure walks the links from root over the delivered blocks.
func closure(ctx context.Context, ds *mapDAG, root cid.Cid) (ok bool, visited int) {
	seen := map[string]bool{}
	stack := []cid.Cid{root}
	ok = true
	for len(stack) > 0 {
		c := stack[len(stack)-1]
		stack = stack[:len(stack)-1]
		if seen[c.KeyString()] {
			continue
		}
		seen[c.KeyString()] = true
		n, err := ds.Get(ctx, c)
		if err != nil {
			ok = false
			continue
		}
		visited++
		for _, l := range n.Links() {
			stack = append(stack, l.Cid)
		}
	}
	return ok, visited
}

// readback compares what the delivered blocks under c spell with the tree.
func readback(ctx context.Context, ds *mapDAG, c cid.Cid, t *tnode) (ok bool) {
	defer func() {
		if r := recover(); r != nil {
			ok = false
		}
	}()
	n, err := ds.Get(ctx, c)
	if err != nil {
		return false
	}
	switch t.kind {
	case 'f', 'z':
		r, err := uio.NewDagReader(ctx, n, ds)
		if err != nil {
			return false
		}
		got, err := io.ReadAll(r)
		if err != nil {
			return false
		}
		return bytes.Equal(got, t.content())
	case 'l':
		fsn, err := unixfs.ExtractFSNode(n)
		if err != nil {
			return false
		}
		return fsn.Type() == unixfs.TSymlink && string(fsn.Data()) == t.target
	}
	d, err := uio.NewDirectoryFromNode(ds, n)
	if err != nil {
		return false
	}
	links, err := d.Links(ctx)
	if err != nil || len(links) != len(t.names) {
		return false
	}
	byName := map[string]cid.Cid{}
	for _, l := range links {
		byName[l.Name] = l.Cid
	}
	for i, name := range t.names {
		kc, found := byName[name]
		if !found || !readback(ctx, ds, kc, t.kids[i]) {
			return false
		}
	}
	return true
}

// makeCar serialises the DAG under root.
func makeCar(ctx context.Context, ds *mapDAG, roots []cid.Cid) ([]byte, error) {
	var buf bytes.Buffer
	err := car.WriteCar(ctx, ds, roots, &buf)
	return buf.Bytes(), err
}
