// C13 harness: adds generated file trees through the real adders
// (adder.Adder over single.DAGService / sharding.DAGService, Cluster.AddFile,
// adderutils.AddMultipartHTTPHandler) against five recording destination
// daemons reached over real libp2p streams, and prints one case line per add:
//
//   C13 mode= local= route= src= fmt= opts= allocs= afail= pfail= faults= chunker= layout= raw= cidv= hash= wrap= hidden= tree=
//     => res= stream= failed= lost= fin= log= nodes= cl= rb= rp= ri= referr= req= dag= files=
//
// Everything after "=>" is observed: the block stream handed to the DAG
// service (id:rawsize, ids by first appearance), the ordered log of
// BlockAllocate calls, BlockPut rounds (per destination outcome) and Pin
// calls, the decoded shard / cluster-DAG nodes that were delivered, and the
// content checks computed here (closure under links, byte-exact read-back,
// root equality without/with sharding and with the library importer).
package main

import (
	"errors"
	"io"
	"bytes"
	"io/ioutil"
	"bufio"
	"context"
	"fmt"
	"mime/multipart"
	"net/http/httptest"
	"os"
	"path/filepath"
	"sort"
	"strconv"
	"strings"
	"time"

	ipfscluster "github.com/ipfs/ipfs-cluster"
	"github.com/ipfs/ipfs-cluster/adder"
	"github.com/ipfs/ipfs-cluster/adder/adderutils"
	"github.com/ipfs/ipfs-cluster/adder/sharding"
	"github.com/ipfs/ipfs-cluster/adder/single"
	"github.com/ipfs/ipfs-cluster/api"

	cid "github.com/ipfs/go-cid"
	files "github.com/ipfs/go-ipfs-files"
	cbor "github.com/ipfs/go-ipld-cbor"
	ipld "github.com/ipfs/go-ipld-format"
	blocks "github.com/ipfs/go-block-format"
	merkledag "github.com/ipfs/go-merkledag"
	unixfs "github.com/ipfs/go-unixfs"

	"verifharness/common"
)

const metaBase = 1000000
const unknownID = 999999
const finIdx = 1 << 30

type tcase struct {
	mode   string // shard | single
	local  bool
	route  string // direct | cluster | handler
	src    string // mem | mp | disk
	format string // unixfs | def | car | bad
	opts   string
	allocs [][]int
	afail  []int
	pfail  []int
	faults []fault
	ip     importParams
	layout string // balanced | trickle | def
	wrap   bool
	hidden bool
	tree   string
	inj    string // fault injected into the front end: ce<k> cancel before the k-th entry is asked for, cb<k> cancel at the k-th block, tr<pm> multipart body cut at pm/1000
}

func b01(b bool) string {
	if b {
		return "1"
	}
	return "0"
}

func allocsTok(a [][]int) string {
	if len(a) == 0 {
		return "-"
	}
	parts := make([]string, len(a))
	for i, l := range a {
		parts[i] = common.Ints(l)
	}
	return strings.Join(parts, ";")
}

func faultsTok(fs []fault) string {
	if len(fs) == 0 {
		return "-"
	}
	parts := make([]string, len(fs))
	for i, f := range fs {
		parts[i] = fmt.Sprintf("%d:%d:%d:%c", f.peer, f.from, f.count, f.kind)
	}
	return strings.Join(parts, ";")
}

func (c tcase) input() string {
	ch := c.ip.chunker
	if ch == "" {
		ch = "def"
	}
	injTok := ""
	if c.inj != "" {
		injTok = " inj=" + c.inj
	}
	return fmt.Sprintf("C13 mode=%s local=%s route=%s src=%s fmt=%s opts=%s allocs=%s afail=%s pfail=%s faults=%s chunker=%s layout=%s raw=%s cidv=%d hash=%s wrap=%s hidden=%s tree=%s%s",
		c.mode, b01(c.local), c.route, c.src, c.format, c.opts, allocsTok(c.allocs), common.Ints(c.afail), common.Ints(c.pfail),
		faultsTok(c.faults), ch, c.layout, b01(c.ip.raw), c.ip.cidv, c.ip.hash, b01(c.wrap), b01(c.hidden), c.tree, injTok)
}

func parseIntList(s string) ([]int, bool) {
	if s == "-" || s == "" {
		return nil, true
	}
	var l []int
	for _, x := range strings.Split(s, ",") {
		v, err := strconv.Atoi(x)
		if err != nil {
			return nil, false
		}
		l = append(l, v)
	}
	return l, true
}

func parseCase(line string) (tcase, bool) {
	f := strings.Fields(line)
	var c tcase
	if len(f) < 2 || f[0] != "C13" {
		return c, false
	}
	kv := map[string]string{}
	for _, t := range f[1:] {
		if t == "=>" {
			break
		}
		i := strings.IndexByte(t, '=')
		if i < 0 {
			return c, false
		}
		kv[t[:i]] = t[i+1:]
	}
	need := []string{"mode", "local", "route", "src", "fmt", "opts", "allocs", "afail", "pfail", "faults", "chunker", "layout", "raw", "cidv", "hash", "wrap", "hidden", "tree"}
	for _, k := range need {
		if _, ok := kv[k]; !ok {
			return c, false
		}
	}
	c.mode, c.local, c.route, c.src, c.format, c.opts = kv["mode"], kv["local"] == "1", kv["route"], kv["src"], kv["fmt"], kv["opts"]
	if kv["allocs"] != "-" {
		for _, p := range strings.Split(kv["allocs"], ";") {
			l, ok := parseIntList(p)
			if !ok {
				return c, false
			}
			c.allocs = append(c.allocs, l)
		}
	}
	var ok bool
	if c.afail, ok = parseIntList(kv["afail"]); !ok {
		return c, false
	}
	if c.pfail, ok = parseIntList(kv["pfail"]); !ok {
		return c, false
	}
	if kv["faults"] != "-" {
		for _, p := range strings.Split(kv["faults"], ";") {
			q := strings.Split(p, ":")
			if len(q) != 4 || len(q[3]) != 1 {
				return c, false
			}
			var ft fault
			var e1, e2, e3 error
			ft.peer, e1 = strconv.Atoi(q[0])
			ft.from, e2 = strconv.Atoi(q[1])
			ft.count, e3 = strconv.Atoi(q[2])
			ft.kind = q[3][0]
			if e1 != nil || e2 != nil || e3 != nil || (ft.kind != 'i' && ft.kind != 'r') || ft.peer < 0 || ft.peer >= nPeers {
				return c, false
			}
			c.faults = append(c.faults, ft)
		}
	}
	c.ip.chunker = kv["chunker"]
	if c.ip.chunker == "def" {
		c.ip.chunker = ""
	}
	c.layout = kv["layout"]
	c.ip.trickle = c.layout == "trickle"
	c.ip.raw = kv["raw"] == "1"
	c.ip.cidv, _ = strconv.Atoi(kv["cidv"])
	c.ip.hash = kv["hash"]
	c.wrap, c.hidden = kv["wrap"] == "1", kv["hidden"] == "1"
	c.tree = kv["tree"]
	c.inj = kv["inj"]
	if c.inj == "-" {
		c.inj = ""
	}
	if c.inj != "" {
		if k, _, ok := injOf(c.inj); !ok || c.route != "direct" || c.src == "syn" || (k == "ce" && c.src != "mem") {
			return c, false
		}
	}
	if c.src == "syn" {
		blks, ok := synBlocks(c.tree)
		if !ok || !strings.HasPrefix(c.tree, "syn:") {
			return c, false
		}
		if w, ok := synRoot(c.tree); !ok || w >= len(blks) {
			return c, false
		}
		return c, true
	}
	if _, ok := parseTree(c.tree); !ok {
		return c, false
	}
	return c, true
}

// ---- the recording wrapper around the DAG service under test ----

type blkrec struct {
	c    cid.Cid
	size int
	dir  bool // a directory node with entries (emitted when go-mfs flushes, in map order)
}

type recDAG struct {
	inner  adder.ClusterDAGService
	st     *caseState
	stream []blkrec
	failed []int
	fin    cid.Cid
	finned bool
	// injected cancellation: the request's context is cancelled when the cancelAt-th block arrives (before it is passed on)
	cancelAt int
	cancel   context.CancelFunc
}

// multipartBroken reads a request body with mime/multipart alone: true when reading the parts and their bodies ends with
// an error other than io.EOF. (A body cut inside a part's header block reads as a clean end of parts: mime/multipart answers
// io.EOF there, and nothing downstream can tell that upload from a complete one.)
func multipartBroken(body []byte, boundary string) bool {
	r := multipart.NewReader(bytes.NewReader(body), boundary)
	for {
		p, err := r.NextPart()
		if err == io.EOF {
			return false
		}
		if err != nil {
			return true
		}
		if _, err := ioutil.ReadAll(p); err != nil {
			return true
		}
	}
}

// injOf splits an injection token: kind "ce" / "cb" / "tr" and its number.
func injOf(s string) (kind string, n int, ok bool) {
	if len(s) < 3 {
		return "", 0, false
	}
	kind = s[:2]
	n, err := strconv.Atoi(s[2:])
	if err != nil || n < 0 || (kind != "ce" && kind != "cb" && kind != "tr") || (kind == "tr" && n > 1000) {
		return "", 0, false
	}
	return kind, n, true
}

// cancelDir cancels the request's context when the at-th entry of the directory is asked for.
type cancelDir struct {
	files.Directory
	at     int
	cancel context.CancelFunc
}

func (d *cancelDir) Entries() files.DirIterator {
	return &cancelIt{DirIterator: d.Directory.Entries(), d: d}
}

type cancelIt struct {
	files.DirIterator
	d *cancelDir
	i int
}

func (it *cancelIt) Next() bool {
	if it.i == it.d.at {
		it.d.cancel()
	}
	it.i++
	return it.DirIterator.Next()
}

func (r *recDAG) Add(ctx context.Context, n ipld.Node) error {
	r.st.mu.Lock()
	r.st.addIdx = len(r.stream)
	r.st.mu.Unlock()
	isDir := false
	if pn, ok := n.(*merkledag.ProtoNode); ok && len(pn.Links()) > 0 {
		if fsn, err := unixfs.FSNodeFromBytes(pn.Data()); err == nil && fsn.Type() == unixfs.TDirectory {
			isDir = true
		}
	}
	r.stream = append(r.stream, blkrec{n.Cid(), len(n.RawData()), isDir})
	if r.cancel != nil && len(r.stream)-1 == r.cancelAt {
		r.cancel()
	}
	defer func() {
		if p := recover(); p != nil {
			r.failed = append(r.failed, len(r.stream)-1)
			panic(p)
		}
	}()
	err := r.inner.Add(ctx, n)
	if err != nil {
		r.failed = append(r.failed, len(r.stream)-1)
	}
	return err
}
func (r *recDAG) AddMany(ctx context.Context, ns []ipld.Node) error {
	for _, n := range ns {
		if err := r.Add(ctx, n); err != nil {
			return err
		}
	}
	return nil
}
func (r *recDAG) Get(ctx context.Context, c cid.Cid) (ipld.Node, error) { return r.inner.Get(ctx, c) }
func (r *recDAG) GetMany(ctx context.Context, cs []cid.Cid) <-chan *ipld.NodeOption {
	return r.inner.GetMany(ctx, cs)
}
func (r *recDAG) Remove(ctx context.Context, c cid.Cid) error { return r.inner.Remove(ctx, c) }
func (r *recDAG) RemoveMany(ctx context.Context, cs []cid.Cid) error {
	return r.inner.RemoveMany(ctx, cs)
}
func (r *recDAG) Finalize(ctx context.Context, root cid.Cid) (cid.Cid, error) {
	r.st.mu.Lock()
	r.st.addIdx = finIdx
	r.st.mu.Unlock()
	r.fin, r.finned = root, true
	return r.inner.Finalize(ctx, root)
}

// ---- one add ----

type addResult struct {
	broken bool   // inj=tr: the standard library's multipart reader reports the cut body as broken (not as a clean end of parts)
	res    string // ok | err | panic
	root   cid.Cid
	rec    *recDAG
	st     *caseState
}

func (c tcase) params() *api.AddParams {
	p := api.DefaultAddParams()
	o := common.OptsOf(c.opts)
	// user allocations name our hosts, not the shared naming table
	f := strings.Split(c.opts, "/")
	o.UserAllocations = nil
	if len(f) >= 9 {
		if l, ok := parseIntList(f[8]); ok && l != nil {
			o.UserAllocations = nw.peerIDs(l)
		}
	}
	p.PinOptions = o
	p.Local = c.local
	p.Wrap = c.wrap
	p.Hidden = c.hidden
	p.Shard = c.mode == "shard"
	switch c.format {
	case "def":
		p.Format = ""
	default:
		p.Format = c.format
	}
	switch c.layout {
	case "def":
		p.Layout = ""
	default:
		p.Layout = c.layout
	}
	p.Chunker = c.ip.chunker
	p.RawLeaves = c.ip.raw
	p.CidVersion = c.ip.cidv
	p.HashFun = c.ip.hash
	p.StreamChannels = len(c.tree)%2 == 0
	return p
}

// inputDir builds the request: the top-level entries as a directory.
func (c tcase) inputDir(top *tnode, carData []byte, scratch string) (files.Directory, error) {
	if c.format == "car" {
		return files.NewSliceDirectory([]files.DirEntry{files.FileEntry("x.car", files.NewBytesFile(carData))}), nil
	}
	if c.src == "disk" {
		if err := os.RemoveAll(scratch); err != nil {
			return nil, err
		}
		if err := os.MkdirAll(scratch, 0o755); err != nil {
			return nil, err
		}
		var ents []files.DirEntry
		for _, i := range top.sorted() {
			p := filepath.Join(scratch, top.names[i])
			if err := top.kids[i].writeDisk(p); err != nil {
				return nil, err
			}
			st, err := os.Lstat(p)
			if err != nil {
				return nil, err
			}
			sf, err := files.NewSerialFile(p, c.hidden, st)
			if err != nil {
				return nil, err
			}
			ents = append(ents, files.FileEntry(top.names[i], sf))
		}
		return files.NewSliceDirectory(ents), nil
	}
	vis := top.visible(c.hidden, true)
	var ents []files.DirEntry
	for _, i := range vis.sorted() {
		ents = append(ents, files.FileEntry(vis.names[i], vis.kids[i].memNode()))
	}
	return files.NewSliceDirectory(ents), nil
}

// runAdd performs the add over the given route with fresh fakes.
func runAdd(ctx context.Context, c tcase, route string, top *tnode, carData []byte, allocs [][]int, afail, pfail []int, faults []fault) (ar addResult) {
	st := newCaseState(allocs, afail, pfail, faults)
	nw.setState(st)
	ar.st = st
	defer nw.setState(nil)
	params := c.params()
	scratch := filepath.Join(os.Getenv("VERIF_SCRATCH"), "c13tree")
	if os.Getenv("VERIF_SCRATCH") == "" {
		scratch = filepath.Join(os.TempDir(), "verif-c13-tree")
	}
	dir, err := c.inputDir(top, carData, scratch)
	if err != nil {
		st.infra = "input: " + err.Error()
		ar.res = "err"
		return
	}
	defer dir.Close()
	defer func() {
		if r := recover(); r != nil {
			fmt.Fprintf(os.Stderr, "panic in add: %v\n", r)
			ar.res = "panic"
		}
	}()
	var root cid.Cid
	injKind, injN, _ := injOf(c.inj)
	var cancelReq context.CancelFunc
	if injKind == "ce" || injKind == "cb" {
		ctx, cancelReq = context.WithCancel(ctx)
		defer cancelReq()
	}
	useMultipart := c.src != "mem" || route != "direct" || injKind == "tr"
	if injKind == "ce" {
		useMultipart = false
		dir = &cancelDir{Directory: dir, at: injN, cancel: cancelReq}
	}
	var mpr *multipart.Reader
	if useMultipart {
		mfr := files.NewMultiFileReader(dir, true)
		if injKind == "tr" {
			// a broken upload: the request body ends early (at least the closing boundary is damaged)
			body, rerr := ioutil.ReadAll(mfr)
			if rerr != nil {
				st.infra = "multipart: " + rerr.Error()
				ar.res = "err"
				return
			}
			cut := len(body) * injN / 1000
			if cut > len(body)-8 {
				cut = len(body) - 8
			}
			if cut < 0 {
				cut = 0
			}
			mpr = multipart.NewReader(bytes.NewReader(body[:cut]), mfr.Boundary())
			ar.broken = multipartBroken(body[:cut], mfr.Boundary())
		} else {
			mpr = multipart.NewReader(mfr, mfr.Boundary())
		}
	}
	switch route {
	case "direct":
		var inner adder.ClusterDAGService
		if params.Shard {
			inner = sharding.New(nw.client, params.PinOptions, nil)
		} else {
			inner = single.New(nw.client, params.PinOptions, params.Local)
		}
		ar.rec = &recDAG{inner: inner, st: st}
		if injKind == "cb" {
			ar.rec.cancelAt, ar.rec.cancel = injN, cancelReq
		}
		a := adder.New(ar.rec, params, nil)
		if useMultipart {
			root, err = a.FromMultipart(ctx, mpr)
		} else {
			root, err = a.FromFiles(ctx, dir)
		}
	case "cluster":
		cl := ipfscluster.VerifNewCluster(ctx, ipfscluster.VerifComponents{ID: nw.hosts[0].ID(), Config: &ipfscluster.Config{}, RPCClient: nw.client})
		defer cl.VerifCancel()
		root, err = cl.AddFile(mpr, params)
	case "handler":
		w := httptest.NewRecorder()
		root, err = adderutils.AddMultipartHTTPHandler(ctx, nw.client, params, mpr, w, nil)
	default:
		st.infra = "unknown route"
		ar.res = "err"
		return
	}
	if injKind == "cb" || injKind == "ce" {
		// calls abandoned by the caller may still be on their way: let them land in this case's record
		time.Sleep(200 * time.Millisecond)
	}
	if err != nil {
		ar.res = "err"
		return
	}
	ar.res = "ok"
	ar.root = root
	return
}

// ---- canonical rendering ----

type namer struct {
	ids    map[string]int
	next   int
	nextM  int
	metas  []cid.Cid
}

func newNamer() *namer { return &namer{ids: map[string]int{}, next: 1} }

func (n *namer) data(c cid.Cid) int {
	if !c.Defined() {
		return 0
	}
	if v, ok := n.ids[c.KeyString()]; ok {
		return v
	}
	n.ids[c.KeyString()] = n.next
	n.next++
	return n.next - 1
}

// put names a block seen in a BlockPut: a known block, or a new cbor node
// (shard / cluster-DAG node) named by order of first delivery attempt.
func (n *namer) put(c cid.Cid) int {
	if v, ok := n.ids[c.KeyString()]; ok {
		return v
	}
	if c.Prefix().Codec == cid.DagCBOR {
		id := metaBase + n.nextM
		n.nextM++
		n.ids[c.KeyString()] = id
		n.metas = append(n.metas, c)
		return id
	}
	return unknownID
}

func (n *namer) ref(c cid.Cid) int {
	if !c.Defined() {
		return 0
	}
	if v, ok := n.ids[c.KeyString()]; ok {
		return v
	}
	return unknownID
}

func nameTok(s string) string {
	idx := func(b string) int {
		if b == "" {
			return 0
		}
		v, err := strconv.Atoi(strings.TrimPrefix(b, "name-"))
		if err != nil || v <= 0 || v >= 900 || !strings.HasPrefix(b, "name-") {
			return -1
		}
		return v
	}
	if v := idx(s); v >= 0 {
		return strconv.Itoa(v)
	}
	if strings.HasSuffix(s, "-clusterDAG") {
		if v := idx(strings.TrimSuffix(s, "-clusterDAG")); v >= 0 {
			return strconv.Itoa(1000 + v)
		}
	}
	if i := strings.LastIndex(s, "-shard-"); i >= 0 {
		k, err := strconv.Atoi(s[i+len("-shard-"):])
		if v := idx(s[:i]); err == nil && k >= 0 && v >= 0 {
			return strconv.Itoa((k+2)*1000 + v)
		}
	}
	return "999"
}

func peersTok(l []peer_ID) string {
	idx := make([]int, len(l))
	for i, p := range l {
		idx[i] = nw.peerIndex(p)
	}
	return common.Ints(idx)
}

func metaTok(m map[string]string) string {
	if len(m) == 0 {
		return "-"
	}
	num := func(s, prefix string) int {
		if s == "" {
			return 0
		}
		v, err := strconv.Atoi(strings.TrimPrefix(s, prefix))
		if err != nil {
			return 999
		}
		return v
	}
	type kvp struct{ k, v int }
	var l []kvp
	for k, v := range m {
		l = append(l, kvp{num(k, "key-"), num(v, "val-")})
	}
	sort.Slice(l, func(i, j int) bool {
		if l[i].k != l[j].k {
			return l[i].k < l[j].k
		}
		return l[i].v < l[j].v
	})
	parts := make([]string, len(l))
	for i, e := range l {
		parts[i] = fmt.Sprintf("%d:%d", e.k, e.v)
	}
	return strings.Join(parts, ",")
}

func (n *namer) pinTok(p *api.Pin) string {
	typ := "b"
	switch p.Type {
	case api.DataType:
		typ = "d"
	case api.MetaType:
		typ = "m"
	case api.ClusterDAGType:
		typ = "c"
	case api.ShardType:
		typ = "s"
	}
	mode := "r"
	if p.Mode == api.PinModeDirect {
		mode = "d"
	}
	ref := "-"
	if p.Reference != nil && p.Reference.Defined() {
		ref = strconv.Itoa(n.ref(*p.Reference))
	}
	upd := "-"
	if p.PinUpdate.Defined() {
		upd = strconv.Itoa(common.CidIndex(p.PinUpdate, common.PinUniverse))
	}
	orig := make([]int, len(p.Origins))
	for i, o := range p.Origins {
		orig[i] = 999
		for k := 0; k < common.PinUniverse; k++ {
			if common.OriginN(k).Equal(o) {
				orig[i] = k
				break
			}
		}
	}
	return strings.Join([]string{
		strconv.Itoa(n.ref(p.Cid)), typ,
		fmt.Sprintf("%d:%d", p.ReplicationFactorMin, p.ReplicationFactorMax),
		nameTok(p.Name), mode, strconv.Itoa(int(p.MaxDepth)),
		strconv.FormatUint(p.ShardSize, 10), peersTok(p.Allocations), common.ExpireTok(p.ExpireAt),
		metaTok(p.Metadata), upd, common.Ints(orig), ref, peersTok(p.UserAllocations),
	}, "/")
}

type attempt struct {
	peer int
	oc   byte
}

// logTok renders the ordered event log. BlockPuts of one block issued
// together (one BlockAdder.Add) form a round; within a round the order of
// arrival at the destinations is not meaningful, so it is sorted by peer.
func (n *namer) logTok(evs []event, useIdx bool) string {
	var parts []string
	var cur []attempt
	curID, curIdx := -1, -2
	flush := func() {
		if curID < 0 {
			return
		}
		sort.Slice(cur, func(i, j int) bool { return cur[i].peer < cur[j].peer })
		s := make([]string, len(cur))
		for i, a := range cur {
			s[i] = fmt.Sprintf("%d%c", a.peer, a.oc)
		}
		parts = append(parts, fmt.Sprintf("b%d:%s", curID, strings.Join(s, ",")))
		cur, curID, curIdx = nil, -1, -2
	}
	for _, e := range evs {
		switch e.kind {
		case evPut:
			id := n.put(e.c)
			idx := e.addIdx
			if !useIdx {
				idx = -1
			}
			same := curID == id && curIdx == idx
			if same {
				for _, a := range cur {
					if a.peer == e.peer {
						same = false
					}
				}
			}
			if !same {
				flush()
				curID, curIdx = id, idx
			}
			cur = append(cur, attempt{e.peer, e.outcome})
		case evAlloc:
			flush()
			parts = append(parts, "a"+string(e.outcome))
		case evPin:
			flush()
			parts = append(parts, "p"+n.pinTok(e.pin)+string(e.outcome))
		}
	}
	flush()
	if len(parts) == 0 {
		return "-"
	}
	return strings.Join(parts, ";")
}

// routeSig is what two adds of the same input over different entry points
// must have in common although go-mfs flushes directories in map order (so
// the block order, and with it the shard composition, may differ): the
// blocks every destination was handed, the allocation and pin calls by kind,
// and the root / meta / cluster-DAG entries up to the CIDs of cbor nodes.
func (n *namer) routeSig(st *caseState) string {
	perPeer := map[int]map[int]bool{}
	var pins []string
	nalloc, nshard := 0, 0
	for _, e := range st.events {
		switch e.kind {
		case evAlloc:
			nalloc++
		case evPut:
			id := n.put(e.c)
			if id >= metaBase {
				continue
			}
			if perPeer[e.peer] == nil {
				perPeer[e.peer] = map[int]bool{}
			}
			perPeer[e.peer][id] = true
		case evPin:
			cp := *e.pin
			switch cp.Type {
			case api.ShardType:
				nshard++
				continue
			case api.ClusterDAGType:
				cp.Cid = cid.Undef
			default:
				cp.Reference = nil
			}
			pins = append(pins, n.pinTok(&cp)+string(e.outcome))
		}
	}
	var parts []string
	if nshard > 0 {
		// which destination gets a block depends on the shard it falls into
		all := map[int]bool{}
		for _, m := range perPeer {
			for id := range m {
				all[id] = true
			}
		}
		perPeer = map[int]map[int]bool{0: all}
	}
	for p := 0; p < nPeers; p++ {
		var ids []int
		for id := range perPeer[p] {
			ids = append(ids, id)
		}
		sort.Ints(ids)
		parts = append(parts, fmt.Sprintf("%d:%s", p, common.Ints(ids)))
	}
	shardy := "noshards"
	if nshard > 0 {
		shardy = "shards"
	} else {
		shardy += fmt.Sprintf("-allocs%d", nalloc)
	}
	return strings.Join(parts, ";") + "|" + strings.Join(pins, ";") + "|" + shardy
}

// nodesTok decodes the delivered cbor nodes: links "0".."n-1" in order.
func (n *namer) nodesTok(st *caseState) string {
	var parts []string
	for i, c := range n.metas {
		id := metaBase + i
		data, ok := st.stored[c.KeyString()]
		if !ok {
			continue
		}
		b, err := blocks.NewBlockWithCid(data, c)
		if err != nil {
			parts = append(parts, fmt.Sprintf("%d:!", id))
			continue
		}
		nd, err := cbor.DecodeBlock(b)
		if err != nil {
			parts = append(parts, fmt.Sprintf("%d:!", id))
			continue
		}
		total := len(nd.Links())
		links := make([]int, 0, total)
		bad := false
		for k := 0; k < total; k++ {
			l, _, err := nd.ResolveLink([]string{strconv.Itoa(k)})
			if err != nil {
				bad = true
				break
			}
			links = append(links, n.ref(l.Cid))
		}
		if bad {
			parts = append(parts, fmt.Sprintf("%d:!", id))
			continue
		}
		parts = append(parts, fmt.Sprintf("%d:%s", id, common.Ints(links)))
	}
	if len(parts) == 0 {
		return "-"
	}
	return strings.Join(parts, ";")
}

// lostTok lists the Adds whose error the caller did not act upon (it went on
// adding or finalized): position and kind - f when the block is the first link
// of a file node of the reference DAG (the child that go-unixfs'
// balanced.Layout re-parents with `newRoot.AddChild(root, fileSize, db)`,
// dropping the error), x otherwise.
func lostTok(ctx context.Context, rec *recDAG, ref *mapDAG) string {
	var parts []string
	var firsts map[string]bool
	for _, i := range rec.failed {
		if i == len(rec.stream)-1 && !rec.finned {
			continue
		}
		if firsts == nil {
			firsts = map[string]bool{}
			if ref != nil {
				for k := range ref.m {
					c, err := cid.Cast([]byte(k))
					if err != nil || c.Prefix().Codec != cid.DagProtobuf {
						continue
					}
					nd, err := ref.Get(ctx, c)
					if err != nil || len(nd.Links()) == 0 {
						continue
					}
					fsn, err := unixfs.ExtractFSNode(nd)
					if err != nil || fsn.Type() != unixfs.TFile {
						continue
					}
					firsts[nd.Links()[0].Cid.KeyString()] = true
				}
			}
		}
		kind := "x"
		if firsts[rec.stream[i].c.KeyString()] {
			kind = "f"
		}
		parts = append(parts, strconv.Itoa(i)+kind)
	}
	if len(parts) == 0 {
		return "-"
	}
	return strings.Join(parts, ",")
}

func tri(known bool, v bool) string {
	if !known {
		return "na"
	}
	return b01(v)
}

// runSyn feeds a synthetic stream of raw blocks straight into the DAG service
// (Add for every block, then Finalize with the last block as root), the
// calling contract of adder.FromFiles.
func runSyn(ctx context.Context, c tcase, allocs [][]int, afail, pfail []int, faults []fault) (ar addResult) {
	st := newCaseState(allocs, afail, pfail, faults)
	nw.setState(st)
	ar.st = st
	defer nw.setState(nil)
	params := c.params()
	blks, _ := synBlocks(c.tree)
	var inner adder.ClusterDAGService
	if params.Shard {
		inner = sharding.New(nw.client, params.PinOptions, nil)
	} else {
		inner = single.New(nw.client, params.PinOptions, params.Local)
	}
	ar.rec = &recDAG{inner: inner, st: st}
	defer func() {
		if r := recover(); r != nil {
			fmt.Fprintf(os.Stderr, "panic in add: %v\n", r)
			ar.res = "panic"
		}
	}()
	last := cid.Undef
	want, _ := synRoot(c.tree)
	if want == -2 {
		last = merkledag.NewRawNode([]byte("a root that is not in the stream")).Cid()
	}
	for _, b := range blks {
		data := make([]byte, b[1])
		data[0], data[1], data[2], data[3] = byte(b[0]>>24), byte(b[0]>>16), byte(b[0]>>8), byte(b[0])
		nd := merkledag.NewRawNode(data)
		if want == -1 || want == b[0] {
			last = nd.Cid()
		}
		if err := ar.rec.Add(ctx, nd); err != nil {
			ar.res = "err"
			return
		}
	}
	root, err := ar.rec.Finalize(ctx, last)
	if err != nil {
		ar.res = "err"
		return
	}
	ar.res, ar.root = "ok", root
	return
}

func runSynCase(ctx context.Context, c tcase) string {
	main := runSyn(ctx, c, c.allocs, c.afail, c.pfail, c.faults)
	nm := newNamer()
	rec := main.rec
	streamParts := make([]string, len(rec.stream))
	for i, b := range rec.stream {
		streamParts[i] = fmt.Sprintf("%d:%d", nm.data(b.c), b.size)
	}
	streamTok := "-"
	if len(streamParts) > 0 {
		streamTok = strings.Join(streamParts, ",")
	}
	finTok := "-"
	if rec.finned {
		finTok = strconv.Itoa(nm.data(rec.fin))
	}
	resTok := main.res
	if main.res == "ok" {
		resTok = "ok:" + strconv.Itoa(nm.data(main.root))
	}
	success := main.res == "ok"
	var clOK, rpOK bool
	rpKnown := false
	rootInStream := false
	for _, b := range rec.stream {
		if b.c.Equals(main.root) {
			rootInStream = true
		}
	}
	if success && main.root.Defined() {
		del := &mapDAG{m: main.st.stored, verify: true}
		clOK, _ = closure(ctx, del, main.root)
		alt := c
		if c.mode == "shard" {
			alt.mode = "single"
		} else {
			alt.mode = "shard"
			alt.opts = "1:1/0/r/1099511627776/z/-/-/-/-"
		}
		alt.local = false
		ar := runSyn(ctx, alt, [][]int{{1}}, nil, nil, nil)
		if ar.res == "ok" {
			rpKnown, rpOK = true, ar.root.Equals(main.root)
		}
	}
	return fmt.Sprintf("res=%s stream=%s failed=%s lost=- fin=%s log=%s nodes=%s cl=%s rb=na rp=%s ri=na referr=0 req=na",
		resTok, streamTok, common.Ints(rec.failed), finTok, nm.logTok(main.st.events, true), nm.nodesTok(main.st),
		tri(success && main.root.Defined() && rootInStream, clOK), tri(success && rpKnown, rpOK))
}

// run executes one case and renders its output part.
func run(ctx context.Context, c tcase) string {
	if c.src == "syn" {
		return runSynCase(ctx, c)
	}
	top, ok := parseTree(c.tree)
	if !ok {
		return "bad-tree"
	}
	vis := top.visible(c.hidden, true)
	// reference: the library importer on the visible tree
	refRoot, refDS, what, refErr := refImport(ctx, vis, c.wrap, c.ip)
	var carData []byte
	if c.format == "car" {
		if refErr != nil {
			return "# inconclusive car-source " + c.input()
		}
		var err error
		carData, err = makeCar(ctx, refDS, []cid.Cid{refRoot})
		if err != nil {
			return "# inconclusive car-write " + c.input()
		}
	}
	importerFails := refErr != nil
	switch c.format {
	case "bad":
		importerFails = true
	case "car":
		importerFails = c.wrap // a CAR upload cannot be wrapped
	}

	main := runAdd(ctx, c, "direct", top, carData, c.allocs, c.afail, c.pfail, c.faults)
	if main.st.infra != "" {
		return "# inconclusive " + main.st.infra + " " + c.input()
	}
	nm := newNamer()
	rec := main.rec
	streamParts := make([]string, len(rec.stream))
	for i, b := range rec.stream {
		streamParts[i] = fmt.Sprintf("%d:%d", nm.data(b.c), b.size)
	}
	streamTok := "-"
	if len(streamParts) > 0 {
		streamTok = strings.Join(streamParts, ",")
	}
	if refErr == nil {
		nm.data(refRoot)
	}
	finTok := "-"
	if rec.finned {
		finTok = strconv.Itoa(nm.data(rec.fin))
	}
	resTok := main.res
	if main.res == "ok" {
		resTok = "ok:" + strconv.Itoa(nm.data(main.root))
	}
	logTok := nm.logTok(main.st.events, true)
	nodesTok := nm.nodesTok(main.st)

	// content checks on what was delivered
	success := main.res == "ok"
	var clOK, rbOK, rpOK, riOK bool
	rpKnown := false
	dagTok, filesTok := "-", "-"
	if success {
		del := &mapDAG{m: main.st.stored, verify: true}
		clOK, _ = closure(ctx, del, main.root)
		dagTok, filesTok = dumpDAG(ctx, del, main.root, nm)
		if refErr == nil {
			rbOK = readback(ctx, del, main.root, what)
			riOK = main.root.Equals(refRoot)
		}
		if k, _, _ := injOf(c.inj); k == "tr" && !main.broken {
			// the cut upload reads as a complete, shorter one: the tree on the case line is not what was sent
			refErr = errors.New("input is a prefix of the tree")
		}
		// the same add the other way round (sharded <-> not sharded), no faults
		if k, _, _ := injOf(c.inj); k != "tr" {
			alt := c
			if c.mode == "shard" {
				alt.mode = "single"
			} else {
				alt.mode = "shard"
				alt.opts = "1:1/0/r/1099511627776/z/-/-/-/-"
			}
			alt.local = false
			alt.inj = ""
			ar := runAdd(ctx, alt, "direct", top, carData, [][]int{{1}}, nil, nil, nil)
			if ar.res == "ok" {
				rpKnown = true
				rpOK = ar.root.Equals(main.root)
			}
		}
	}

	// the same case through Cluster.AddFile / the HTTP handler must show the same behaviour
	reqTok := "na"
	twinLine := ""
	if c.route != "direct" {
		twin := runAdd(ctx, c, c.route, top, carData, c.allocs, c.afail, c.pfail, c.faults)
		if twin.st.infra != "" {
			return "# inconclusive " + twin.st.infra + " " + c.input()
		}
		same := twin.res == main.res && (twin.res != "ok" || twin.root.Equals(main.root)) &&
			nm.routeSig(twin.st) == nm.routeSig(main.st)
		reqTok = b01(same)
		// what that entry point delivered and pinned is held to the property in its own right
		// (a second case line; the block stream is the one recorded on the direct route)
		tres := twin.res
		tfin := "-"
		tsucc := twin.res == "ok"
		var tcl, trb, tri bool
		if tsucc {
			tres = "ok:" + strconv.Itoa(nm.data(twin.root))
			tfin = strconv.Itoa(nm.data(twin.root))
			del := &mapDAG{m: twin.st.stored, verify: true}
			tcl, _ = closure(ctx, del, twin.root)
			if refErr == nil {
				trb = readback(ctx, del, twin.root, what)
				tri = twin.root.Equals(refRoot)
			}
		}
		tlog := nm.logTok(twin.st.events, false)
		// failed / lost: as recorded on the direct route for the same input (the entry points hide the DAG service)
		twinLine = fmt.Sprintf("\nres=%s stream=%s failed=%s lost=%s fin=%s log=%s nodes=%s cl=%s rb=%s rp=na ri=%s referr=%s req=na twin=1",
			tres, streamTok, common.Ints(rec.failed), lostTok(ctx, rec, refDS), tfin, tlog, nm.nodesTok(twin.st), tri3(tsucc, tcl), tri3(tsucc && refErr == nil, trb),
			tri3(tsucc && refErr == nil, tri), b01(importerFails))
	}

	return fmt.Sprintf("res=%s stream=%s failed=%s lost=%s fin=%s log=%s nodes=%s cl=%s rb=%s rp=%s ri=%s referr=%s req=%s dag=%s files=%s nent=%d broken=%s",
		resTok, streamTok, common.Ints(rec.failed), lostTok(ctx, rec, refDS), finTok, logTok, nodesTok,
		tri(success, clOK), tri(success && refErr == nil, rbOK), tri(success && rpKnown, rpOK), tri(success && refErr == nil, riOK),
		b01(importerFails), reqTok, dagTok, filesTok, len(vis.names), b01(main.broken)) + twinLine
}

func tri3(known bool, v bool) string { return tri(known, v) }

func emit(ctx context.Context, out *common.Out, c tcase) {
	if !ensureConnected(ctx) {
		out.Line("# inconclusive hosts-not-connected %s", c.input())
		return
	}
	r := run(ctx, c)
	if strings.HasPrefix(r, "#") {
		out.Line("%s", r)
		return
	}
	for _, l := range strings.Split(r, "\n") {
		out.Line("%s => %s", c.input(), l)
	}
}

func ensureConnected(ctx context.Context) bool {
	for i := 1; i < nPeers; i++ {
		if len(nw.hosts[0].Network().ConnsToPeer(nw.hosts[i].ID())) > 0 {
			continue
		}
		cctx, cancel := context.WithTimeout(ctx, 20*time.Second)
		err := nw.hosts[0].Connect(cctx, peerInfo(i))
		cancel()
		if err != nil {
			return false
		}
	}
	return true
}

var suiteName = "trees"

func main() {
	a := common.ParseArgs()
	if a.Extra["suite"] != "" {
		suiteName = a.Extra["suite"]
	}
	ctx := context.Background()
	var err error
	nw, err = setupNet(ctx)
	out := common.NewOut()
	defer out.Flush()
	if err != nil {
		out.Line("# inconclusive network-setup %v", err)
		return
	}
	if a.Extra["stdin"] != "" {
		sc := bufio.NewScanner(os.Stdin)
		sc.Buffer(make([]byte, 1<<20), 1<<26)
		for sc.Scan() {
			if c, ok := parseCase(sc.Text()); ok {
				emit(ctx, out, c)
			} else if strings.TrimSpace(sc.Text()) != "" {
				out.Line("%s => unparsable", strings.TrimSpace(strings.Split(sc.Text(), "=>")[0]))
			}
		}
		return
	}
	total := a.N
	if total < 0 {
		total = 60
	}
	base := common.NewRng(common.Seed())
	for k := 0; k < total; k++ {
		if a.Only >= 0 && k != a.Only {
			continue
		}
		c := gen(ctx, base.Fork(uint64(k)), k, total, a.Tier)
		emit(ctx, out, c)
		out.Flush()
	}
}
