package main

// Destination daemons and the cluster services the adders talk to.
//
// Five real libp2p hosts on loopback (peer 0 is the adding peer). Every host
// serves a recording "IPFSConnector" (BlockPut); host 0 also serves the
// recording "Cluster" service (BlockAllocate, Pin). gorpc decides by peer ID
// whether a call is local (peer 0, or destination "") or goes over a stream,
// so every BlockPut is attributed to the destination it was addressed to.

import (
	"context"
	"errors"
	"fmt"
	"sync"
	"time"

	"github.com/ipfs/ipfs-cluster/api"

	cid "github.com/ipfs/go-cid"
	libp2p "github.com/libp2p/go-libp2p"
	host "github.com/libp2p/go-libp2p-core/host"
	peer "github.com/libp2p/go-libp2p-core/peer"
	protocol "github.com/libp2p/go-libp2p-core/protocol"
	rpc "github.com/libp2p/go-libp2p-gorpc"
)

const nPeers = 5
const rpcProto = protocol.ID("/verif/c13/rpc/1")

// event kinds of the per-case log
const (
	evAlloc = iota
	evPut
	evPin
)

type event struct {
	kind    int
	addIdx  int // index of the DAGService.Add call in progress (-1 unknown, finIdx during Finalize)
	peer    int
	c       cid.Cid
	outcome byte // puts: o|i|r ; alloc/pin: + | -
	pin     *api.Pin
}

type fault struct {
	peer, from, count int
	kind              byte // 'i' ipfs (non-RPC) error, 'r' RPC error
}

// caseState is what the fakes record for the add in progress.
type caseState struct {
	mu      sync.Mutex
	allocs  [][]int
	afail   map[int]bool
	pfail   map[int]bool
	faults  []fault
	cnt     [nPeers]int // BlockPut attempts received per peer
	nAlloc  int
	nPin    int
	addIdx  int
	events  []event
	stored  map[string][]byte // cid key -> data, blocks stored OK on some destination
	infra   string            // infrastructure trouble (not the code's)
	closing [nPeers]bool
}

func newCaseState(allocs [][]int, afail, pfail []int, faults []fault) *caseState {
	st := &caseState{allocs: allocs, afail: map[int]bool{}, pfail: map[int]bool{}, faults: faults,
		addIdx: -1, stored: map[string][]byte{}}
	for _, k := range afail {
		st.afail[k] = true
	}
	for _, k := range pfail {
		st.pfail[k] = true
	}
	return st
}

type netT struct {
	hosts   []host.Host
	servers []*rpc.Server
	client  *rpc.Client
	rpcErr  error // a genuine gorpc client error value, returned by the local fake to simulate an RPC failure
	mu      sync.Mutex
	cur     *caseState
}

var nw *netT

func (n *netT) state() *caseState {
	n.mu.Lock()
	defer n.mu.Unlock()
	return n.cur
}

func (n *netT) setState(st *caseState) {
	n.mu.Lock()
	n.cur = st
	n.mu.Unlock()
}

func (n *netT) peerIndex(p peer.ID) int {
	if p == "" {
		return 0
	}
	for i, h := range n.hosts {
		if h.ID() == p {
			return i
		}
	}
	return 99
}

func (n *netT) peerIDs(l []int) []peer.ID {
	out := make([]peer.ID, len(l))
	for i, v := range l {
		if v >= 0 && v < len(n.hosts) {
			out[i] = n.hosts[v].ID()
		} else {
			out[i] = peer.ID(fmt.Sprintf("unknown-%d", v))
		}
	}
	return out
}

type ipfsFake struct {
	idx int
}

// BlockPut records the attempt and answers according to the fault script.
func (f *ipfsFake) BlockPut(ctx context.Context, in *api.NodeWithMeta, out *struct{}) error {
	st := nw.state()
	if st == nil {
		return errors.New("no case")
	}
	st.mu.Lock()
	j := st.cnt[f.idx]
	st.cnt[f.idx]++
	oc := byte('o')
	for _, ft := range st.faults {
		if ft.peer == f.idx && j >= ft.from && j < ft.from+ft.count {
			oc = ft.kind
			break
		}
	}
	st.events = append(st.events, event{kind: evPut, addIdx: st.addIdx, peer: f.idx, c: in.Cid, outcome: oc})
	if oc == 'o' {
		if _, ok := st.stored[in.Cid.KeyString()]; !ok {
			st.stored[in.Cid.KeyString()] = append([]byte{}, in.Data...)
		}
	}
	st.mu.Unlock()
	switch oc {
	case 'i':
		return errors.New("ipfs block put failed")
	case 'r':
		if f.idx == 0 {
			return nw.rpcErr // local calls hand the service error to the caller unchanged
		}
		// A remote service error always travels as a non-RPC error; to make the
		// caller see an RPC (stream) error, drop the connection under the call
		// (from the caller's side, so that no stale connection is left for the
		// next call to this peer, which re-dials).
		nw.hosts[0].Network().ClosePeer(nw.hosts[f.idx].ID())
		return errors.New("connection dropped")
	}
	return nil
}

type clusterFake struct{}

// BlockAllocate answers from the allocation script (cyclically).
func (f *clusterFake) BlockAllocate(ctx context.Context, in *api.Pin, out *[]peer.ID) error {
	st := nw.state()
	if st == nil {
		return errors.New("no case")
	}
	st.mu.Lock()
	defer st.mu.Unlock()
	k := st.nAlloc
	st.nAlloc++
	if st.afail[k] {
		st.events = append(st.events, event{kind: evAlloc, addIdx: st.addIdx, outcome: '-'})
		return errors.New("allocation failed")
	}
	st.events = append(st.events, event{kind: evAlloc, addIdx: st.addIdx, outcome: '+'})
	var l []int
	if len(st.allocs) > 0 {
		l = st.allocs[k%len(st.allocs)]
	}
	*out = nw.peerIDs(l)
	return nil
}

// Pin records the pin request.
func (f *clusterFake) Pin(ctx context.Context, in *api.Pin, out *api.Pin) error {
	st := nw.state()
	if st == nil {
		return errors.New("no case")
	}
	st.mu.Lock()
	defer st.mu.Unlock()
	k := st.nPin
	st.nPin++
	cp := *in
	if in.Reference != nil {
		r := *in.Reference
		cp.Reference = &r
	}
	cp.Allocations = append([]peer.ID{}, in.Allocations...)
	if st.pfail[k] {
		st.events = append(st.events, event{kind: evPin, addIdx: st.addIdx, outcome: '-', pin: &cp})
		return errors.New("pin failed")
	}
	st.events = append(st.events, event{kind: evPin, addIdx: st.addIdx, outcome: '+', pin: &cp})
	*out = *in
	return nil
}

func setupNet(ctx context.Context) (*netT, error) {
	n := &netT{}
	for i := 0; i < nPeers; i++ {
		h, err := libp2p.New(ctx, libp2p.ListenAddrStrings("/ip4/127.0.0.1/tcp/0"))
		if err != nil {
			return nil, err
		}
		n.hosts = append(n.hosts, h)
		s := rpc.NewServer(h, rpcProto)
		if err := s.RegisterName("IPFSConnector", &ipfsFake{idx: i}); err != nil {
			return nil, err
		}
		if i == 0 {
			if err := s.RegisterName("Cluster", &clusterFake{}); err != nil {
				return nil, err
			}
		}
		n.servers = append(n.servers, s)
	}
	for i := 1; i < nPeers; i++ {
		ai := peer.AddrInfo{ID: n.hosts[i].ID(), Addrs: n.hosts[i].Addrs()}
		n.hosts[0].Peerstore().AddAddrs(ai.ID, ai.Addrs, time.Hour*24)
		cctx, cancel := context.WithTimeout(ctx, 30*time.Second)
		err := n.hosts[0].Connect(cctx, ai)
		cancel()
		if err != nil {
			return nil, err
		}
	}
	n.client = rpc.NewClientWithServer(n.hosts[0], rpcProto, n.servers[0])
	// a real gorpc client error: a client without server asked for a local call
	n.rpcErr = rpc.NewClient(nil, rpcProto).Call("", "X", "Y", struct{}{}, &struct{}{})
	if n.rpcErr == nil || !rpc.IsRPCError(n.rpcErr) {
		return nil, errors.New("could not obtain an RPC error value")
	}
	return n, nil
}
