package main

// File-tree descriptions: a compact token that the harness can print, parse
// back and materialise (in memory, as a multipart stream, or on disk).
//
//   entries := name=node[,name=node...]
//   node    := f<size>s<seed>     pseudo-random bytes (same size+seed => same bytes)
//            | z<size>            zero bytes (repeating chunks)
//            | l<target>          symbolic link
//            | d[entries]         directory ("d[]" empty)

import (
	"fmt"
	"os"
	"path/filepath"
	"sort"
	"strconv"
	"strings"

	files "github.com/ipfs/go-ipfs-files"

	"verifharness/common"
)

type tnode struct {
	kind   byte // f z l d
	size   int
	seed   int
	target string
	names  []string
	kids   []*tnode
}

func (t *tnode) String() string {
	switch t.kind {
	case 'f':
		return fmt.Sprintf("f%ds%d", t.size, t.seed)
	case 'z':
		return fmt.Sprintf("z%d", t.size)
	case 'l':
		return "l" + t.target
	}
	return "d[" + entriesString(t.names, t.kids) + "]"
}

func entriesString(names []string, kids []*tnode) string {
	parts := make([]string, len(names))
	for i := range names {
		parts[i] = names[i] + "=" + kids[i].String()
	}
	return strings.Join(parts, ",")
}

type parser struct {
	s   string
	pos int
	err bool
}

func (p *parser) peek() byte {
	if p.pos < len(p.s) {
		return p.s[p.pos]
	}
	return 0
}

func (p *parser) number() int {
	st := p.pos
	for p.pos < len(p.s) && p.s[p.pos] >= '0' && p.s[p.pos] <= '9' {
		p.pos++
	}
	if st == p.pos {
		p.err = true
		return 0
	}
	v, e := strconv.Atoi(p.s[st:p.pos])
	if e != nil {
		p.err = true
	}
	return v
}

func nameChar(c byte) bool {
	return (c >= 'a' && c <= 'z') || (c >= 'A' && c <= 'Z') || (c >= '0' && c <= '9') || c == '.' || c == '_'
}

func (p *parser) name() string {
	st := p.pos
	for p.pos < len(p.s) && nameChar(p.s[p.pos]) {
		p.pos++
	}
	if st == p.pos {
		p.err = true
	}
	return p.s[st:p.pos]
}

func (p *parser) entries(end byte) ([]string, []*tnode) {
	var names []string
	var kids []*tnode
	if p.peek() == end {
		return names, kids
	}
	for !p.err {
		n := p.name()
		if p.peek() != '=' {
			p.err = true
			break
		}
		p.pos++
		k := p.node()
		names = append(names, n)
		kids = append(kids, k)
		if p.peek() == ',' {
			p.pos++
			continue
		}
		break
	}
	return names, kids
}

func (p *parser) node() *tnode {
	c := p.peek()
	p.pos++
	switch c {
	case 'f':
		t := &tnode{kind: 'f'}
		t.size = p.number()
		if p.peek() == 's' {
			p.pos++
			t.seed = p.number()
		}
		return t
	case 'z':
		return &tnode{kind: 'z', size: p.number()}
	case 'l':
		return &tnode{kind: 'l', target: p.name()}
	case 'd':
		if p.peek() != '[' {
			p.err = true
			return &tnode{kind: 'd'}
		}
		p.pos++
		t := &tnode{kind: 'd'}
		t.names, t.kids = p.entries(']')
		if p.peek() != ']' {
			p.err = true
		}
		p.pos++
		return t
	}
	p.err = true
	return &tnode{kind: 'd'}
}

// parseTree reads the top-level entry list.
func parseTree(s string) (*tnode, bool) {
	p := &parser{s: s}
	t := &tnode{kind: 'd'}
	if s != "-" {
		t.names, t.kids = p.entries(0)
	}
	if p.err || (s != "-" && p.pos != len(s)) {
		return nil, false
	}
	seen := map[string]bool{}
	var chk func(*tnode) bool
	chk = func(n *tnode) bool {
		if n.size > 64<<20 {
			return false
		}
		if n.kind != 'd' {
			return true
		}
		local := map[string]bool{}
		for i, nm := range n.names {
			if local[nm] || nm == "." || nm == ".." {
				return false
			}
			local[nm] = true
			if !chk(n.kids[i]) {
				return false
			}
		}
		return true
	}
	_ = seen
	if !chk(t) {
		return nil, false
	}
	return t, true
}

func (t *tnode) content() []byte {
	b := make([]byte, t.size)
	if t.kind == 'f' {
		r := common.NewRng(uint64(t.seed)*1000003 + uint64(t.size))
		i := 0
		for i+8 <= len(b) {
			v := r.Next()
			b[i], b[i+1], b[i+2], b[i+3] = byte(v), byte(v>>8), byte(v>>16), byte(v>>24)
			b[i+4], b[i+5], b[i+6], b[i+7] = byte(v>>32), byte(v>>40), byte(v>>48), byte(v>>56)
			i += 8
		}
		for i < len(b) {
			b[i] = byte(r.Next())
			i++
		}
	}
	return b
}

// visible applies the hidden-files rule of the command line client: entries
// whose name starts with a dot are left out unless hidden files were asked
// for. It applies below the top-level entries.
func (t *tnode) visible(hidden bool, top bool) *tnode {
	if t.kind != 'd' {
		return t
	}
	out := &tnode{kind: 'd'}
	for i, n := range t.names {
		if !top && !hidden && strings.HasPrefix(n, ".") {
			continue
		}
		out.names = append(out.names, n)
		out.kids = append(out.kids, t.kids[i].visible(hidden, false))
	}
	return out
}

// sorted returns the entry indices in name order.
func (t *tnode) sorted() []int {
	idx := make([]int, len(t.names))
	for i := range idx {
		idx[i] = i
	}
	sort.Slice(idx, func(a, b int) bool { return t.names[idx[a]] < t.names[idx[b]] })
	return idx
}

// memNode materialises the tree in memory.
func (t *tnode) memNode() files.Node {
	switch t.kind {
	case 'f', 'z':
		return files.NewBytesFile(t.content())
	case 'l':
		return files.NewLinkFile(t.target, nil)
	}
	var ents []files.DirEntry
	for _, i := range t.sorted() {
		ents = append(ents, files.FileEntry(t.names[i], t.kids[i].memNode()))
	}
	return files.NewSliceDirectory(ents)
}

// writeDisk materialises the tree under dir.
func (t *tnode) writeDisk(path string) error {
	switch t.kind {
	case 'f', 'z':
		return os.WriteFile(path, t.content(), 0o644)
	case 'l':
		return os.Symlink(t.target, path)
	}
	if err := os.MkdirAll(path, 0o755); err != nil {
		return err
	}
	for i, n := range t.names {
		if err := t.kids[i].writeDisk(filepath.Join(path, n)); err != nil {
			return err
		}
	}
	return nil
}

func (t *tnode) countFiles() (nfiles int, bytes int) {
	switch t.kind {
	case 'f', 'z':
		return 1, t.size
	case 'l':
		return 1, 0
	}
	for _, k := range t.kids {
		a, b := k.countFiles()
		nfiles += a
		bytes += b
	}
	return
}

// ---- generation ----

var fileNames = []string{"a", "b", "c", "data", "e1", "f.txt", "g_2", "h", "k9", "m", "n.bin", "p", "q", "r", "s", "t", "u", "v", "w", "x"}
var hiddenNames = []string{".h", ".git", ".x1"}

func pickName(r *common.Rng, used map[string]bool, allowHidden bool) string {
	for tries := 0; tries < 50; tries++ {
		var n string
		if allowHidden && r.Chance(1, 6) {
			n = hiddenNames[r.Intn(len(hiddenNames))]
		} else {
			n = fileNames[r.Intn(len(fileNames))]
			if r.Chance(1, 4) {
				n += strconv.Itoa(r.Intn(30))
			}
		}
		if !used[n] {
			used[n] = true
			return n
		}
	}
	n := "n" + strconv.Itoa(len(used)+1000)
	used[n] = true
	return n
}

// genSize draws a file size around the boundaries that matter: empty, one
// byte, around the chunk size and its multiples, around the shard limit.
func genSize(r *common.Rng, chunk int, limit int, maxSize int) int {
	var s int
	switch r.Intn(12) {
	case 0:
		s = 0
	case 1:
		s = 1
	case 2:
		s = chunk + r.Range(-2, 2)
	case 3:
		s = chunk*r.Range(2, 4) + r.Range(-1, 1)
	case 4:
		s = limit + r.Range(-40, 40)
	case 5:
		s = limit/2 + r.Range(-20, 20)
	case 6:
		s = chunk*r.Range(5, 12) + r.Intn(chunk+1)
	default:
		s = r.Intn(3*chunk + 2)
	}
	if s < 0 {
		s = 0
	}
	if s > maxSize {
		s = maxSize
	}
	return s
}

func genFile(r *common.Rng, chunk, limit, maxSize int) *tnode {
	switch r.Intn(14) {
	case 0:
		return &tnode{kind: 'l', target: fileNames[r.Intn(len(fileNames))]}
	case 1, 2:
		return &tnode{kind: 'z', size: genSize(r, chunk, limit, maxSize)}
	}
	// few seeds: equal files (hence repeated blocks) are common
	return &tnode{kind: 'f', size: genSize(r, chunk, limit, maxSize), seed: r.Intn(4)}
}

func genDir(r *common.Rng, depth int, chunk, limit, maxSize int, budget *int) *tnode {
	t := &tnode{kind: 'd'}
	n := r.Intn(5)
	if depth == 0 {
		n = r.Range(1, 6)
	}
	used := map[string]bool{}
	for i := 0; i < n && *budget > 0; i++ {
		*budget--
		name := pickName(r, used, depth > 0 || true)
		if depth < 3 && r.Chance(1, 4) {
			t.names = append(t.names, name)
			t.kids = append(t.kids, genDir(r, depth+1, chunk, limit, maxSize, budget))
		} else {
			t.names = append(t.names, name)
			t.kids = append(t.kids, genFile(r, chunk, limit, maxSize))
		}
	}
	return t
}
