package main

// Case generators: mostly valid, structured inputs with the boundaries the
// property names (empty files, sizes around chunk and shard limits, nested
// directories, many small files, repeated content), every import parameter,
// scripted allocations and fault sequences; a few malformed ones.

import (
	"context"
	"fmt"
	"strconv"
	"strings"

	peer "github.com/libp2p/go-libp2p-core/peer"

	"verifharness/common"
)

type peer_ID = peer.ID

func peerInfo(i int) peer.AddrInfo {
	return peer.AddrInfo{ID: nw.hosts[i].ID(), Addrs: nw.hosts[i].Addrs()}
}

var smallChunkers = []struct {
	s     string
	chunk int
}{
	{"size-64", 64}, {"size-256", 256}, {"size-1000", 1000}, {"size-4096", 4096}, {"size-100", 100},
	{"rabin-16-32-64", 32}, {"rabin-64-128-256", 128}, {"rabin-512", 512},
}
var bigChunkers = []struct {
	s     string
	chunk int
}{
	{"size-262144", 262144}, {"", 262144}, {"default", 262144}, {"rabin", 262144}, {"buzhash", 262144}, {"size-65536", 65536},
}
var badChunkers = []string{"size-0", "foo", "size-abc", "size-2000000", "rabin-10-20-30", "rabin-1-2"}
var hashes = []string{"sha2-256", "sha2-256", "sha2-256", "sha2-512", "blake2b-256", "sha3-256"}

func genSubset(r *common.Rng, lo, hi int) []int {
	n := r.Range(lo, hi)
	perm := []int{0, 1, 2, 3, 4}
	for i := len(perm) - 1; i > 0; i-- {
		j := r.Intn(i + 1)
		perm[i], perm[j] = perm[j], perm[i]
	}
	return append([]int{}, perm[:n]...)
}

func genAllocs(r *common.Rng) [][]int {
	if r.Chance(1, 6) {
		return [][]int{genSubset(r, 2, 3)} // one list of several destinations (the mixed-fault shape needs it)
	}
	switch r.Intn(10) {
	case 0:
		return [][]int{{0}}
	case 1:
		return [][]int{{1}}
	case 2:
		return [][]int{{0, 1, 2, 3, 4}}
	}
	n := r.Range(1, 4)
	out := make([][]int, n)
	for i := range out {
		out[i] = genSubset(r, 1, 3)
	}
	return out
}

func genOpts(r *common.Rng, shard uint64, allocated int) string {
	rmin, rmax := 1, r.Range(1, 3)
	switch r.Intn(12) {
	case 0:
		rmin, rmax = -1, -1
	case 1:
		rmin, rmax = 0, 0
	case 2:
		rmin, rmax = 2, 3
	}
	name := r.Intn(4)
	mode := "r"
	if r.Chance(1, 8) {
		mode = "d"
	}
	exp := "z"
	if r.Chance(1, 4) {
		exp = "f" + strconv.Itoa(r.Intn(3))
	}
	meta := "-"
	if r.Chance(1, 3) {
		meta = fmt.Sprintf("%d:%d", r.Range(1, 3), r.Range(0, 3))
		if r.Bool() {
			meta += fmt.Sprintf(",%d:%d", r.Range(4, 6), r.Range(1, 3))
		}
	}
	origins := "-"
	if r.Chance(1, 5) {
		origins = strconv.Itoa(r.Range(1, 5))
	}
	ualloc := "-"
	if r.Chance(1, 6) {
		ualloc = common.Ints(genSubset(r, 1, 2))
	}
	return fmt.Sprintf("%d:%d/%d/%s/%d/%s/%s/-/%s/%s", rmin, rmax, name, mode, shard, exp, meta, origins, ualloc)
}

// genFaults scripts failures of BlockPut (per destination: from its j-th
// received put, for count puts, as an IPFS error or as an RPC error), of
// BlockAllocate calls and of Pin calls.
func genFaults(r *common.Rng, c *tcase, nblocks int) {
	// mixed kinds on one block: every destination of the (single) allocation list refuses the same put,
	// one with an RPC error and the others with IPFS errors - at the first block of the add or at a later one
	if len(c.allocs) == 1 && len(c.allocs[0]) >= 2 && !c.local && r.Chance(1, 3) {
		j := 0
		if r.Bool() {
			j = r.Intn(nblocks + 1)
		}
		dests := c.allocs[0]
		rpcAt := r.Intn(len(dests))
		for i, p := range dests {
			kind := byte('i')
			if i == rpcAt || (len(dests) > 2 && r.Chance(1, 4)) {
				kind = 'r'
			}
			c.faults = append(c.faults, fault{peer: p, from: j, count: 1, kind: kind})
		}
		return
	}
	if r.Chance(11, 20) {
		return
	}
	nf := r.Range(1, 2)
	for i := 0; i < nf; i++ {
		var p int
		if len(c.allocs) > 0 {
			l := c.allocs[r.Intn(len(c.allocs))]
			if len(l) > 0 {
				p = l[r.Intn(len(l))]
			}
		}
		if r.Chance(1, 8) || c.local {
			p = 0
		}
		dup := false
		for _, f := range c.faults {
			if f.peer == p {
				dup = true
			}
		}
		if dup {
			continue
		}
		ft := fault{peer: p, from: r.Intn(nblocks + 3), kind: 'i'}
		if r.Bool() {
			ft.kind = 'r'
		}
		switch r.Intn(3) {
		case 0:
			ft.count = 1
		case 1:
			ft.count = r.Range(1, 4)
		default:
			ft.count = 1000000
		}
		c.faults = append(c.faults, ft)
	}
	if r.Chance(1, 8) {
		c.afail = []int{r.Intn(3)}
	}
	if r.Chance(1, 6) {
		c.pfail = []int{r.Intn(4)}
	}
}

// probe adds the tree once without faults to learn the block sizes, so that
// shard limits can be put exactly at and next to block boundaries. Only the
// part of the stream whose order is fixed (everything before go-mfs flushes
// the first directory with entries) is used for boundaries, so that the
// generated input is the same on every run.
func probe(ctx context.Context, c tcase) (prefix []int, total, max int) {
	top, ok := parseTree(c.tree)
	if !ok {
		return nil, 0, 0
	}
	p := c
	p.mode, p.local, p.src, p.format = "single", false, "mem", "unixfs"
	p.opts = "1:1/0/r/0/z/-/-/-/-"
	ar := runAdd(ctx, p, "direct", top, nil, [][]int{{0}}, nil, nil, nil)
	if ar.rec == nil {
		return nil, 0, 0
	}
	seen := map[string]bool{}
	inPrefix := true
	for _, b := range ar.rec.stream {
		if b.dir {
			inPrefix = false
		}
		if !seen[b.c.KeyString()] {
			seen[b.c.KeyString()] = true
			total += b.size
			if b.size > max {
				max = b.size
			}
			if inPrefix {
				prefix = append(prefix, b.size)
			}
		}
	}
	return
}

// pickLimit chooses a shard size limit for a stream of block sizes.
func pickLimit(r *common.Rng, sizes []int, total, max int) uint64 {
	switch r.Intn(20) {
	case 0:
		return uint64(total + 1 + r.Intn(50)) // one shard
	case 1:
		return uint64(total) // everything but the last block fits one shard
	case 2:
		if max > 0 {
			return uint64(max - r.Intn(2)) // some block can never fit
		}
		return 0
	case 3:
		return uint64(max + 1)
	case 4, 5, 6, 7, 8, 9, 10:
		// exactly at a boundary of a run of blocks, or one off
		if len(sizes) > 0 {
			i := r.Intn(len(sizes))
			if r.Bool() {
				i = 0
			}
			j := i + r.Intn(len(sizes)-i)
			s := 0
			for k := i; k <= j; k++ {
				s += sizes[k]
			}
			v := s + r.Range(-1, 1)
			if v <= max && r.Chance(9, 10) {
				v = max + 1 + r.Intn(3)
			}
			return uint64(v)
		}
		return 1
	}
	parts := r.Range(2, 6)
	v := total/parts + r.Intn(max+2)
	if v < max+1 {
		v = max + 1 + r.Intn(20)
	}
	return uint64(v)
}

func gen(ctx context.Context, r *common.Rng, k, total int, tier string) tcase {
	if suiteName == "stream" {
		return genStream(r, k, total, tier)
	}
	var c tcase
	c.route, c.src, c.format, c.layout = "direct", "mem", "unixfs", "balanced"
	c.mode = "shard"
	if r.Chance(2, 5) {
		c.mode = "single"
	}
	// import parameters
	chunk := 0
	big := (tier == "thorough" && r.Chance(1, 4)) || (tier != "thorough" && r.Chance(1, 12))
	if big {
		ch := bigChunkers[r.Intn(len(bigChunkers))]
		c.ip.chunker, chunk = ch.s, ch.chunk
	} else {
		ch := smallChunkers[r.Intn(len(smallChunkers))]
		c.ip.chunker, chunk = ch.s, ch.chunk
	}
	switch r.Intn(5) {
	case 0:
		c.layout = "trickle"
	case 1:
		c.layout = "def"
	}
	c.ip.trickle = c.layout == "trickle"
	c.ip.raw = r.Bool()
	c.ip.cidv = r.Intn(2)
	c.ip.hash = "sha2-256"
	if c.ip.cidv == 1 {
		c.ip.hash = hashes[r.Intn(len(hashes))]
	}
	c.wrap = r.Chance(1, 3)
	c.hidden = r.Bool()
	switch r.Intn(12) {
	case 0, 1:
		c.src = "mp"
	case 2:
		c.src = "disk"
	}
	switch r.Intn(14) {
	case 0:
		c.route = "cluster"
	case 1:
		c.route = "handler"
	}
	switch r.Intn(16) {
	case 0:
		c.format = "def"
	case 1:
		c.format = "car"
	}
	c.local = c.mode == "single" && r.Chance(1, 6)

	// the tree
	maxSize := 3*chunk + 64
	if big {
		maxSize = 700000
	}
	limitGuess := 4 * chunk
	var top *tnode
	budget := 14
	if big {
		budget = 5
	}
	switch r.Intn(10) {
	case 0: // a single file
		top = &tnode{kind: 'd', names: []string{"file"}, kids: []*tnode{genFile(r, chunk, limitGuess, maxSize)}}
	case 1: // a file deep enough for a second layer of the layout (more than 174 chunks)
		sz := chunk*r.Range(170, 200) + r.Intn(chunk)
		if sz > 2<<20 {
			sz = 2 << 20
		}
		top = &tnode{kind: 'd', names: []string{"deep"}, kids: []*tnode{{kind: 'f', size: sz, seed: r.Intn(3)}}}
	case 2: // many tiny files
		d := &tnode{kind: 'd'}
		n := r.Range(20, 80)
		for i := 0; i < n; i++ {
			d.names = append(d.names, fmt.Sprintf("t%d", i))
			d.kids = append(d.kids, &tnode{kind: 'f', size: r.Range(0, 2), seed: r.Intn(6)})
		}
		top = &tnode{kind: 'd', names: []string{"many"}, kids: []*tnode{d}}
	default:
		d := genDir(r, 0, chunk, limitGuess, maxSize, &budget)
		top = &tnode{kind: 'd', names: []string{"tree"}, kids: []*tnode{d}}
		if c.wrap && r.Bool() {
			top.names = append(top.names, "other")
			top.kids = append(top.kids, genFile(r, chunk, limitGuess, maxSize))
		}
	}
	manyFiles := tier == "thorough" && k%150 == 77
	if manyFiles {
		// more files in one directory than links fit one shard node
		d := &tnode{kind: 'd'}
		n := 6000 + r.Intn(40)
		for i := 0; i < n; i++ {
			d.names = append(d.names, fmt.Sprintf("t%d", i))
			d.kids = append(d.kids, &tnode{kind: 'f', size: r.Range(1, 3), seed: i})
		}
		top = &tnode{kind: 'd', names: []string{"many"}, kids: []*tnode{d}}
		c.mode, c.local, c.format, c.src, c.route = "shard", false, "unixfs", "mem", "direct"
	}
	c.tree = entriesString(top.names, top.kids)

	// malformed / refused inputs
	mal := r.Intn(40)
	if c.format == "car" {
		mal = 99
	}
	switch mal {
	case 0:
		c.ip.chunker = badChunkers[r.Intn(len(badChunkers))]
	case 1:
		c.format = "bad"
	case 2:
		c.ip.hash = "nosuchhash"
	case 3:
		c.ip.cidv, c.ip.hash = 0, "sha2-512" // CIDv0 cannot carry it
	}

	c.allocs = genAllocs(r)
	if manyFiles {
		c.opts = genOpts(r, uint64(1<<22), 0)
		return c
	}
	sizes, totalSize, maxSize2 := probe(ctx, c)
	limit := uint64(1 << 30)
	if c.mode == "shard" {
		limit = pickLimit(r, sizes, totalSize, maxSize2)
	} else if r.Bool() {
		limit = uint64(r.Intn(100000))
	}
	c.opts = genOpts(r, limit, 0)
	if c.route == "direct" {
		genFaults(r, &c, len(sizes))
	}
	// faults of the front end: a cancelled request, a broken upload (drawn last: the rest of the case is as without them)
	if c.route == "direct" && (c.format == "unixfs" || c.format == "def") && mal > 3 && r.Chance(1, 6) {
		kind := r.Intn(3)
		if kind == 2 && strings.HasPrefix(c.ip.chunker, "rabin") {
			// a part body that ends early makes the rabin splitter (whyrusleeping/chunker) spin for ever: see notes, Round 8b
			kind = 1
		}
		switch kind {
		case 0:
			// cancel when the k-th top-level entry is asked for (k = number of entries: after the last one, before Finalize)
			c.src = "mem"
			c.inj = fmt.Sprintf("ce%d", r.Intn(len(top.names)+1))
		case 1:
			// cancel when the k-th block reaches the DAG service
			if len(sizes) > 0 {
				c.inj = fmt.Sprintf("cb%d", r.Intn(len(sizes)))
			}
		default:
			// the multipart body ends early
			pm := []int{0, 500, 900, 990, 1000}[r.Intn(5)]
			if r.Bool() {
				pm = r.Intn(1000)
			}
			c.src = "mp"
			c.inj = fmt.Sprintf("tr%d", pm)
		}
	}
	return c
}

// ---- synthetic block streams (suite "stream") ----

// stream spec: comma separated  <count>*<size> (count new distinct raw blocks)  |  r<i> (the i-th distinct block again)
func genStream(r *common.Rng, k, total int, tier string) tcase {
	var c tcase
	c.route, c.src, c.format, c.layout = "direct", "syn", "unixfs", "balanced"
	c.ip = importParams{chunker: "", hash: "sha2-256"}
	c.mode = "shard"
	if r.Chance(1, 4) {
		c.mode = "single"
	}
	var parts []string
	var sizes []int
	nruns := r.Range(1, 6)
	if r.Chance(1, 25) {
		nruns = 0
	}
	for i := 0; i < nruns; i++ {
		if len(sizes) > 0 && r.Chance(1, 5) {
			parts = append(parts, "r"+strconv.Itoa(r.Intn(len(sizes))))
			continue
		}
		cnt := r.Range(1, 6)
		if r.Chance(1, 6) {
			cnt = r.Range(10, 60)
		}
		sz := 4 + r.Intn(60)
		switch r.Intn(6) {
		case 0:
			sz = 4
		case 1:
			sz = 1000 + r.Intn(3000)
		}
		parts = append(parts, fmt.Sprintf("%d*%d", cnt, sz))
		for j := 0; j < cnt; j++ {
			sizes = append(sizes, sz)
		}
	}
	// the indirect-node case: more links in one shard than fit one node
	if tier == "thorough" && k%40 == 7 {
		n := []int{5983, 5984, 5985, 6100, 11968, 11969}[r.Intn(6)]
		parts = []string{fmt.Sprintf("%d*4", n)}
		sizes = make([]int, n)
		for j := range sizes {
			sizes[j] = 4
		}
		c.mode = "shard"
	}
	c.tree = "syn:" + strings.Join(parts, ",")
	if len(parts) == 0 {
		c.tree = "syn:-"
	}
	// the root handed to Finalize is normally the last block; sometimes an earlier one or a foreign CID
	if len(sizes) > 0 && len(sizes) < 5000 {
		switch r.Intn(12) {
		case 0:
			c.tree += "@" + strconv.Itoa(r.Intn(len(sizes)))
		case 1:
			c.tree += "@x"
		}
	}
	c.allocs = genAllocs(r)
	tot, mx := 0, 0
	for _, s := range sizes {
		tot += s
		if s > mx {
			mx = s
		}
	}
	limit := pickLimit(r, sizes, tot, mx)
	if len(sizes) > 5000 {
		limit = uint64(len(sizes)*4 + 1 + r.Intn(3)*4)
		if r.Chance(1, 3) {
			limit = uint64(5985*4 + 1)
		}
	}
	c.opts = genOpts(r, limit, 0)
	genFaults(r, &c, len(sizes))
	return c
}

// synRoot says which block Finalize gets as root: -1 the last one, -2 a CID outside the stream, else the i-th distinct block.
func synRoot(spec string) (int, bool) {
	i := strings.IndexByte(spec, '@')
	if i < 0 {
		return -1, true
	}
	if spec[i+1:] == "x" {
		return -2, true
	}
	v, err := strconv.Atoi(spec[i+1:])
	if err != nil || v < 0 {
		return 0, false
	}
	return v, true
}

// synBlocks expands a stream spec into (content key, size) pairs.
func synBlocks(spec string) ([][2]int, bool) {
	spec = strings.TrimPrefix(spec, "syn:")
	if i := strings.IndexByte(spec, '@'); i >= 0 {
		spec = spec[:i]
	}
	var out [][2]int
	var distinct [][2]int
	if spec == "-" || spec == "" {
		return out, true
	}
	for _, p := range strings.Split(spec, ",") {
		if strings.HasPrefix(p, "r") {
			i, err := strconv.Atoi(p[1:])
			if err != nil || i < 0 || i >= len(distinct) {
				return nil, false
			}
			out = append(out, distinct[i])
			continue
		}
		q := strings.Split(p, "*")
		if len(q) != 2 {
			return nil, false
		}
		cnt, e1 := strconv.Atoi(q[0])
		sz, e2 := strconv.Atoi(q[1])
		if e1 != nil || e2 != nil || cnt < 0 || sz < 4 || cnt > 200000 || sz > 4<<20 {
			return nil, false
		}
		for j := 0; j < cnt; j++ {
			b := [2]int{len(distinct), sz}
			distinct = append(distinct, b)
			out = append(out, b)
		}
	}
	return out, true
}
