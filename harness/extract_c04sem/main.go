// extract_c04sem regenerates lean/ClusterVerif/Gen/C04Sem.lean: the statement SEQUENCES of
// Cluster.Pin, PinPath, UnpinPath, pin, setupPin, Unpin and PinUpdate (cluster.go) as constructors
// of CV.C04.Sem.Stmt, which the Lean model interprets (Model/C04Sem.lean).
//
// Per function: logging, tracing and error-message text are dropped, local variables and
// parameters are renamed to canonical names (by order of declaration), and every remaining
// statement is recognised by its go/ast shape. Conditions of the two compound guards of pin()
// are split into their conjuncts. A statement of no known shape becomes `.unknown "<source>"`,
// which the interpreters refuse (fail-closed). Standard output is the Lean file.
package main

import (
	"fmt"
	"go/ast"
	"go/token"
	"strings"

	"verifharness/skel"
)

const prog = "extract_c04sem"

// ---- canonical renaming -------------------------------------------------

// rename gives every parameter / local variable of fd a canonical name: the receiver is "c",
// parameters p0, p1, … in order, locals v0, v1, … in order of their first declaration.
func rename(fd *ast.FuncDecl) {
	m := map[*ast.Object]string{}
	if fd.Recv != nil && len(fd.Recv.List) == 1 && len(fd.Recv.List[0].Names) == 1 {
		if o := fd.Recv.List[0].Names[0].Obj; o != nil {
			m[o] = "c"
		}
	}
	np := 0
	for _, f := range fd.Type.Params.List {
		for _, n := range f.Names {
			if n.Obj != nil {
				m[n.Obj] = fmt.Sprintf("p%d", np)
			}
			np++
		}
	}
	nv := 0
	ast.Inspect(fd.Body, func(n ast.Node) bool {
		id, ok := n.(*ast.Ident)
		if !ok || id.Obj == nil || id.Obj.Kind != ast.Var || id.Obj.Pos() < fd.Pos() || id.Obj.Pos() > fd.End() {
			return true
		}
		if _, seen := m[id.Obj]; !seen {
			if id.Name == "_" {
				return true
			}
			// error variables keep one name: shadowing `err` is not a change of meaning here
			if id.Name == "err" {
				m[id.Obj] = "err"
			} else {
				m[id.Obj] = fmt.Sprintf("v%d", nv)
				nv++
			}
		}
		return true
	})
	ast.Inspect(fd, func(n ast.Node) bool {
		if id, ok := n.(*ast.Ident); ok && id.Obj != nil {
			if nn, ok := m[id.Obj]; ok {
				id.Name = nn
			}
		}
		return true
	})
}

// ---- statement filtering ------------------------------------------------

func isStringExpr(e ast.Expr) bool {
	switch x := e.(type) {
	case *ast.BasicLit:
		return x.Kind == token.STRING
	case *ast.BinaryExpr:
		return x.Op == token.ADD && isStringExpr(x.X) && isStringExpr(x.Y)
	}
	return false
}

// noise: logging, tracing, the context swap, and the construction of error-message strings.
func noise(s ast.Stmt) bool {
	t := flat(s)
	if strings.HasPrefix(t, "logger.") || strings.Contains(t, "trace.StartSpan(") || (strings.HasPrefix(t, "defer ") && strings.HasSuffix(t, ".End()")) ||
		strings.Contains(t, "= trace.NewContext(") {
		return true
	}
	if as, ok := s.(*ast.AssignStmt); ok && len(as.Rhs) == 1 && isStringExpr(as.Rhs[0]) {
		return true // msg := "…", msg += "…", err := "cannot unpin …"
	}
	if is, ok := s.(*ast.IfStmt); ok && is.Init == nil {
		// an if / else whose branches only log
		only := func(b *ast.BlockStmt) bool {
			for _, x := range b.List {
				if !noise(x) {
					return false
				}
			}
			return true
		}
		if only(is.Body) {
			if is.Else == nil {
				return true
			}
			if eb, ok := is.Else.(*ast.BlockStmt); ok && only(eb) {
				return true
			}
		}
	}
	return false
}

func clean(l []ast.Stmt) []ast.Stmt {
	var out []ast.Stmt
	for _, s := range l {
		if !noise(s) {
			out = append(out, s)
		}
	}
	return out
}

// an expression that is certainly a non-nil error: errors.New(…), fmt.Errorf(…), errXxx
func errExpr(e ast.Expr) bool {
	t := flat(e)
	return strings.HasPrefix(t, "errors.New(") || strings.HasPrefix(t, "fmt.Errorf(") || (strings.HasPrefix(t, "err") && len(t) > 3)
}

func conjuncts(e ast.Expr) []ast.Expr {
	if p, ok := e.(*ast.ParenExpr); ok {
		return conjuncts(p.X)
	}
	if b, ok := e.(*ast.BinaryExpr); ok && b.Op == token.LAND {
		return append(conjuncts(b.X), conjuncts(b.Y)...)
	}
	return []ast.Expr{e}
}

// single `return …` body of an if
func soleReturn(b *ast.BlockStmt) *ast.ReturnStmt {
	l := clean(b.List)
	if len(l) != 1 {
		return nil
	}
	r, _ := l[0].(*ast.ReturnStmt)
	return r
}

func lastIsErr(r *ast.ReturnStmt, want string) bool {
	if r == nil || len(r.Results) == 0 {
		return false
	}
	last := r.Results[len(r.Results)-1]
	if want == "err" {
		return flat(last) == "err"
	}
	return errExpr(last)
}


// flat prints a node on one line: go/printer keeps the source's line breaks inside call
// argument lists and conditions, which must not matter.
func flat(n ast.Node) string {
	t := strings.Join(strings.Fields(skel.Src(n)), " ")
	return strings.NewReplacer("( ", "(", ", )", ")", " )", ")").Replace(t)
}

// capture: t = "<name><suffix>" with <name> one identifier
func capture(t, suffix string) (string, bool) {
	if !strings.HasSuffix(t, suffix) {
		return "", false
	}
	n := strings.TrimSuffix(t, suffix)
	if n == "" || strings.ContainsAny(n, " ,.()") {
		return "", false
	}
	return n, true
}

func q(s string) string { return fmt.Sprintf("%q", s) }

func unknown(s ast.Node) string { return ".unknown " + q(flat(s)) }

// ---- recognisers ----------------------------------------------------------
//
// Names after renaming: receiver c; parameters p0 (ctx), p1, p2, …; locals v0, v1, …; err.

// atoms of pin()'s compound guards; `upd`, `pin`, `bl`, `ex` are the canonical names in use
func atom(e ast.Expr, upd, pin, bl, ex string) string {
	t := flat(e)
	switch t {
	case upd + " != cid.Undef":
		return ".updSet"
	case "!" + upd + ".Equals(" + pin + ".Cid)":
		return ".updOther"
	case "len(" + bl + ") == 0":
		return ".noBlacklist"
	case ex + " != nil":
		return ".existingSet"
	case pin + ".PinOptions.Equals(&" + ex + ".PinOptions)":
		return ".optsEqual"
	}
	return ".unknown " + q(t)
}

func atoms(e ast.Expr, upd, pin, bl, ex string) string {
	var l []string
	for _, c := range conjuncts(e) {
		l = append(l, atom(c, upd, pin, bl, ex))
	}
	return "[" + strings.Join(l, ", ") + "]"
}

func ifGuard(s ast.Stmt, cond string, want string) bool {
	is, ok := s.(*ast.IfStmt)
	if !ok || is.Init != nil || is.Else != nil || flat(is.Cond) != cond {
		return false
	}
	return lastIsErr(soleReturn(is.Body), want)
}

// the follower guard: if c.config.FollowerMode { return nil…, errFollowerMode }
func followerGuard(s ast.Stmt) bool { return ifGuard(s, "c.config.FollowerMode", "new") }

// Cluster.Pin: pin built from (p1 = cid, p2 = options), handed to c.pin, result returned
func entryStmt(s ast.Stmt, cidVar, optsVar string, st *entryState) string {
	t := flat(s)
	if v, ok := capture(t, " := api.PinWithOpts("+cidVar+", "+optsVar+")"); ok && st.pin == "" {
		st.pin = v
		return `.construct "PinWithOpts"`
	}
	if v, ok := capture(t, " := api.PinCid("+cidVar+")"); ok && st.pin == "" {
		st.pin = v
		return `.construct "PinCid"`
	}
	if st.pin == "" {
		return unknown(s)
	}
	if v, ok := capture(t, ", _, err := c.pin(p0, "+st.pin+", []peer.ID{})"); ok && st.res == "" {
		st.res = v
		return ".callPin"
	}
	switch {
	case t == st.pin+".PinOptions = "+optsVar:
		return ".setOpts"
	case t == st.pin+".MaxDepth = "+optsVar+".Mode.ToPinDepth()":
		return ".setDepthFromMode"
	case t == st.pin+".MaxDepth = "+st.pin+".Mode.ToPinDepth()" && st.optsSet:
		// reads the mode just assigned with the options
		return ".setDepthFromMode"
	case st.res != "" && t == "return "+st.res+", err":
		return ".retResult"
	}
	return unknown(s)
}

type entryState struct {
	pin, res string
	optsSet  bool
}

func progPinPublic(fd *ast.FuncDecl) []string {
	rename(fd)
	st := &entryState{}
	var out []string
	for _, s := range clean(fd.Body.List) {
		x := entryStmt(s, "p1", "p2", st)
		if x == ".setOpts" {
			st.optsSet = true
		}
		out = append(out, x)
	}
	return out
}

// PinPath / UnpinPath: v0, err := c.ipfs.Resolve(p0, p1); guard; tail call (or a pin built in place)
func progPath(fd *ast.FuncDecl, tail string) []string {
	rename(fd)
	st := &entryState{}
	ci := "?"
	var out []string
	for i, s := range clean(fd.Body.List) {
		t := flat(s)
		switch {
		case i == 0 && strings.HasSuffix(t, ", err := c.ipfs.Resolve(p0, p1)"):
			if v, ok := capture(t, ", err := c.ipfs.Resolve(p0, p1)"); ok {
				ci = v
				out = append(out, ".resolve")
			} else {
				out = append(out, unknown(s))
			}
		case ifGuard(s, "err != nil", "err"):
			out = append(out, ".guardErrNil")
		case tail == "Pin" && t == "return c.Pin(p0, "+ci+", p2)":
			out = append(out, ".tailPin")
		case tail == "Unpin" && t == "return c.Unpin(p0, "+ci+")":
			out = append(out, ".tailUnpin")
		case tail == "Pin":
			x := entryStmt(s, ci, "p2", st)
			if x == ".setOpts" {
				st.optsSet = true
			}
			out = append(out, x)
		default:
			out = append(out, unknown(s))
		}
	}
	return out
}

// pin(p0 ctx, p1 pin, p2 blacklist)
func progPin(fd *ast.FuncDecl) []string {
	rename(fd)
	var out []string
	ex := "?"
	for _, s := range clean(fd.Body.List) {
		t := flat(s)
		is, isIf := s.(*ast.IfStmt)
		switch {
		case followerGuard(s):
			out = append(out, ".guardFollower")
		case ifGuard(s, "p1.Cid == cid.Undef", "new"):
			out = append(out, ".guardUndef")
		case isIf && is.Init != nil && is.Else == nil && strings.HasSuffix(flat(is.Init), " := p1.PinUpdate"):
			upd := strings.TrimSuffix(flat(is.Init), " := p1.PinUpdate")
			b := clean(is.Body.List)
			if len(b) == 2 && strings.HasSuffix(flat(b[0]), ", err := c.PinUpdate(p0, "+upd+", p1.Cid, p1.PinOptions)") {
				v := strings.TrimSuffix(flat(b[0]), ", err := c.PinUpdate(p0, "+upd+", p1.Cid, p1.PinOptions)")
				if flat(b[1]) == "return "+v+", true, err" {
					out = append(out, ".updateBranch "+atoms(is.Cond, upd, "p1", "p2", ex))
					continue
				}
			}
			out = append(out, unknown(s))
		case strings.HasSuffix(t, ", err := c.PinGet(p0, p1.Cid)") && !strings.Contains(strings.TrimSuffix(t, ", err := c.PinGet(p0, p1.Cid)"), " "):
			ex = strings.TrimSuffix(t, ", err := c.PinGet(p0, p1.Cid)")
			out = append(out, ".getExisting")
		case ifGuard(s, "err != nil && err != state.ErrNotFound", "err"):
			out = append(out, ".guardErrNotFoundOk")
		case t == "err = c.setupPin(p0, p1, "+ex+")":
			out = append(out, ".setup")
		case ifGuard(s, "err != nil", "err"):
			out = append(out, ".guardErr")
		case isIf && is.Init == nil && is.Else == nil && flat(is.Cond) == "p1.Type == api.MetaType" &&
			soleReturn(is.Body) != nil && flat(soleReturn(is.Body)) == "return p1, true, c.consensus.LogPin(p0, p1)":
			out = append(out, ".metaShortcut")
		case isIf && is.Init == nil && is.Else == nil && len(clean(is.Body.List)) == 1 && flat(clean(is.Body.List)[0]) == "p1 = "+ex:
			out = append(out, ".keepExisting "+atoms(is.Cond, "?", "p1", "p2", ex))
		case isIf && is.Init == nil && is.Else == nil && flat(is.Cond) == "len(p1.Allocations) == 0":
			b := clean(is.Body.List)
			if len(b) == 3 && strings.HasSuffix(flat(b[0]),
				", err := c.allocate(p0, p1.Cid, "+ex+", p1.ReplicationFactorMin, p1.ReplicationFactorMax, p2, p1.UserAllocations)") &&
				ifGuard(b[1], "err != nil", "err") {
				v := strings.Split(flat(b[0]), ",")[0]
				if flat(b[2]) == "p1.Allocations = "+v {
					out = append(out, ".allocateIfNone")
					continue
				}
			}
			out = append(out, unknown(s))
		case t == "return p1, true, c.consensus.LogPin(p0, p1)":
			out = append(out, ".retLogPin")
		default:
			out = append(out, unknown(s))
		}
	}
	return out
}

// setupPin(p0 ctx, p1 pin, p2 existing)
func progSetup(fd *ast.FuncDecl) []string {
	rename(fd)
	var out []string
	for _, s := range clean(fd.Body.List) {
		t := flat(s)
		is, isIf := s.(*ast.IfStmt)
		switch {
		case t == "err := c.setupReplicationFactor(p1)":
			out = append(out, ".factors")
		case ifGuard(s, "err != nil", "err"):
			out = append(out, ".guardErr")
		case ifGuard(s, "!p1.ExpireAt.IsZero() && p1.ExpireAt.Before(time.Now())", "new"):
			out = append(out, ".expiry")
		case isIf && is.Init == nil && is.Else == nil && flat(is.Cond) == "p2 == nil" && soleReturn(is.Body) != nil &&
			flat(soleReturn(is.Body)) == "return nil":
			out = append(out, ".existingNilOk")
		case ifGuard(s, "p2.Type != p1.Type", "new"):
			out = append(out, ".typeDiffers")
		case ifGuard(s, "p2.Mode == api.PinModeRecursive && p1.Mode != api.PinModeRecursive", "new"):
			out = append(out, ".modeDowngrade")
		case t == "return checkPinType(p1)":
			out = append(out, ".retCheckType")
		default:
			out = append(out, unknown(s))
		}
	}
	return out
}

// Unpin(p0 ctx, p1 cid)
func progUnpin(fd *ast.FuncDecl) []string {
	rename(fd)
	var out []string
	pin := "?"
	body := func(l []ast.Stmt) {
		for _, s := range clean(l) {
			t := flat(s)
			r, isRet := s.(*ast.ReturnStmt)
			switch {
			case t == "return "+pin+", c.consensus.LogUnpin(p0, "+pin+")":
				out = append(out, ".retLogUnpin")
			case isRet && len(r.Results) == 2 && flat(r.Results[0]) == pin && errExpr(r.Results[1]):
				out = append(out, ".retErr")
			case isRet && len(r.Results) == 2 && flat(r.Results[0]) == pin && strings.HasPrefix(flat(r.Results[1]), "errors.New("):
				out = append(out, ".retErr")
			case t == "err := c.unpinClusterDag("+pin+")":
				out = append(out, ".unpinDag")
			case ifGuard(s, "err != nil", "err"):
				out = append(out, ".guardErr")
			default:
				out = append(out, unknown(s))
			}
		}
	}
	for _, s := range clean(fd.Body.List) {
		t := flat(s)
		sw, isSw := s.(*ast.SwitchStmt)
		switch {
		case followerGuard(s):
			out = append(out, ".guardFollower")
		case strings.HasSuffix(t, ", err := c.PinGet(p0, p1)") && !strings.Contains(strings.TrimSuffix(t, ", err := c.PinGet(p0, p1)"), " "):
			pin = strings.TrimSuffix(t, ", err := c.PinGet(p0, p1)")
			out = append(out, ".getPin")
		case ifGuard(s, "err != nil", "err"):
			out = append(out, ".guardErrNil")
		case isSw && sw.Init == nil && sw.Tag != nil && flat(sw.Tag) == pin+".Type":
			for _, cc := range sw.Body.List {
				c := cc.(*ast.CaseClause)
				switch {
				case c.List == nil:
					out = append(out, `.caseOf "default"`)
				case len(c.List) == 1 && strings.HasPrefix(flat(c.List[0]), "api."):
					out = append(out, ".caseOf "+q(strings.TrimPrefix(flat(c.List[0]), "api.")))
				default:
					out = append(out, unknown(c))
				}
				body(c.Body)
			}
		default:
			out = append(out, unknown(s))
		}
	}
	return out
}

// PinUpdate(p0 ctx, p1 from, p2 to, p3 opts)
func progUpdate(fd *ast.FuncDecl) []string {
	rename(fd)
	var out []string
	ex := "?"
	for _, s := range clean(fd.Body.List) {
		t := flat(s)
		is, isIf := s.(*ast.IfStmt)
		one := func() string {
			if isIf && is.Init == nil && is.Else == nil {
				if b := clean(is.Body.List); len(b) == 1 {
					return flat(b[0])
				}
			}
			return ""
		}
		switch {
		case followerGuard(s):
			out = append(out, ".guardFollower")
		case strings.HasSuffix(t, ", err := c.PinGet(p0, p1)") && !strings.Contains(strings.TrimSuffix(t, ", err := c.PinGet(p0, p1)"), " "):
			ex = strings.TrimSuffix(t, ", err := c.PinGet(p0, p1)")
			out = append(out, ".getSource")
		case ifGuard(s, "err != nil", "err"):
			out = append(out, ".guardErrNil")
		case ifGuard(s, ex+".Type != api.DataType", "new"):
			out = append(out, ".guardNotData")
		case t == ex+".Cid = p2":
			out = append(out, ".setCid")
		case t == ex+".PinUpdate = p1":
			out = append(out, ".setUpdate")
		case isIf && (flat(is.Cond) == `p3.Name != ""` || flat(is.Cond) == "p3.Name != S") && one() == ex+".Name = p3.Name":
			out = append(out, ".setNameIf")
		case isIf && flat(is.Cond) == "!p3.ExpireAt.IsZero() && p3.ExpireAt.After(time.Now())" && one() == ex+".ExpireAt = p3.ExpireAt":
			out = append(out, ".setExpireIf")
		case t == "return "+ex+", c.consensus.LogPin(p0, "+ex+")":
			out = append(out, ".retLogExisting")
		default:
			out = append(out, unknown(s))
		}
	}
	return out
}

func main() {
	get := func(name string) *ast.FuncDecl {
		// a fresh parse per function: renaming edits the tree in place
		return skel.Func(prog, skel.Parse(prog, "cluster.go"), "*Cluster", name)
	}
	var b strings.Builder
	b.WriteString("/- GENERATED by harness/extract_c04sem from cluster.go; do not edit. -/\nimport ClusterVerif.Model.C04Sem\nnamespace CV.C04.Gen\nopen CV.C04.Sem\n\n")
	b.WriteString("/-- statement sequences of Cluster.Pin / PinPath / UnpinPath / pin / setupPin / Unpin / PinUpdate -/\n")
	b.WriteString("def semProgs : Progs where\n")
	field := func(name string, l []string) {
		fmt.Fprintf(&b, "  %s := [\n    %s]\n", name, strings.Join(l, ",\n    "))
	}
	field("pinPublic", progPinPublic(get("Pin")))
	field("pinPath", progPath(get("PinPath"), "Pin"))
	field("unpinPath", progPath(get("UnpinPath"), "Unpin"))
	field("pinInternal", progPin(get("pin")))
	field("setupPin", progSetup(get("setupPin")))
	field("unpin", progUnpin(get("Unpin")))
	field("pinUpdate", progUpdate(get("PinUpdate")))
	b.WriteString("\nend CV.C04.Gen\n")
	fmt.Print(b.String())
}
