// Package skel prints Go functions as normalised one-line statements so that a
// translator can regenerate, on every run, the source text a hand-written Lean
// model was transcribed from.
package skel

import (
	"bytes"
	"fmt"
	"go/ast"
	"go/parser"
	"go/printer"
	"go/token"
	"os"
	"path/filepath"
	"regexp"
	"strings"
)

// Fset is shared by every file parsed through this package.
var Fset = token.NewFileSet()

var strLit = regexp.MustCompile(`"(\\.|[^"\\])*"`)

// Src prints a node on one line; string literals (log and error texts) are
// reduced to S so that rewording a message does not break the tie.
func Src(n ast.Node) string {
	var b bytes.Buffer
	printer.Fprint(&b, Fset, n)
	return strLit.ReplaceAllString(strings.Join(strings.Fields(b.String()), " "), "S")
}

// Fail reports a translator error and exits non-zero.
func Fail(prog, msg string) {
	fmt.Fprintln(os.Stderr, prog+":", msg)
	os.Exit(1)
}

// Repo is the source tree to read.
func Repo() string {
	if r := os.Getenv("VERIF_REPO"); r != "" {
		return r
	}
	return "/repo"
}

// Parse parses a file of the repository (comments dropped).
func Parse(prog, rel string) *ast.File {
	f, err := parser.ParseFile(Fset, filepath.Join(Repo(), rel), nil, 0)
	if err != nil {
		Fail(prog, err.Error())
	}
	return f
}

// Func finds a function; recv is the receiver type as written ("*Cluster"), "" for none.
func Func(prog string, f *ast.File, recv, name string) *ast.FuncDecl {
	for _, d := range f.Decls {
		fd, ok := d.(*ast.FuncDecl)
		if !ok || fd.Name.Name != name {
			continue
		}
		if recv == "" && fd.Recv == nil {
			return fd
		}
		if recv != "" && fd.Recv != nil && len(fd.Recv.List) == 1 && Src(fd.Recv.List[0].Type) == recv {
			return fd
		}
	}
	Fail(prog, "function not found: "+recv+"."+name)
	return nil
}

// noise: logging, tracing spans and their deferred End.
func noise(s ast.Stmt) bool {
	t := Src(s)
	return strings.HasPrefix(t, "logger.") || strings.Contains(t, "trace.StartSpan(") || t == "defer span.End()"
}

// Whole gives every top-level statement of the body on one line each (nested
// blocks included in the line), logging and tracing left out also inside blocks.
func Whole(fd *ast.FuncDecl) []string {
	strip(fd.Body)
	var l []string
	for _, st := range fd.Body.List {
		l = append(l, Src(st))
	}
	return l
}

// Lines gives the body as gofmt prints it, one entry per line (indentation and
// blank lines dropped), logging and tracing left out.
func Lines(fd *ast.FuncDecl) []string {
	strip(fd.Body)
	var b bytes.Buffer
	printer.Fprint(&b, Fset, fd.Body)
	var l []string
	for _, ln := range strings.Split(b.String(), "\n") {
		ln = strLit.ReplaceAllString(strings.Join(strings.Fields(ln), " "), "S")
		if ln != "" {
			l = append(l, ln)
		}
	}
	if len(l) >= 2 && l[0] == "{" && l[len(l)-1] == "}" {
		l = l[1 : len(l)-1]
	}
	return l
}

func strip(n ast.Node) {
	ast.Inspect(n, func(x ast.Node) bool {
		switch b := x.(type) {
		case *ast.BlockStmt:
			b.List = filter(b.List)
		case *ast.CaseClause:
			b.Body = filter(b.Body)
		case *ast.CommClause:
			b.Body = filter(b.Body)
		}
		return true
	})
}

func filter(l []ast.Stmt) []ast.Stmt {
	var out []ast.Stmt
	for _, s := range l {
		if !noise(s) {
			out = append(out, s)
		}
	}
	return out
}

func leanStr(s string) string {
	return `"` + strings.ReplaceAll(strings.ReplaceAll(s, `\`, `\\`), `"`, `\"`) + `"`
}

// LeanList renders a `def name : List String`.
func LeanList(name, doc string, l []string) string {
	var b strings.Builder
	fmt.Fprintf(&b, "/-- %s -/\ndef %s : List String := [\n", doc, name)
	for i, s := range l {
		sep := ","
		if i == len(l)-1 {
			sep = ""
		}
		fmt.Fprintf(&b, "  %s%s\n", leanStr(s), sep)
	}
	b.WriteString("]\n\n")
	return b.String()
}

// LeanName makes a Lean identifier out of a receiver type and a function name.
func LeanName(fd *ast.FuncDecl) string {
	n := fd.Name.Name
	if fd.Recv != nil && len(fd.Recv.List) == 1 {
		r := strings.TrimPrefix(Src(fd.Recv.List[0].Type), "*")
		n = r + "_" + n
	}
	return "f_" + n
}

// AllFuncs emits every function of a file that has a body (in source order).
func AllFuncs(f *ast.File, b *strings.Builder) {
	for _, d := range f.Decls {
		fd, ok := d.(*ast.FuncDecl)
		if !ok || fd.Body == nil {
			continue
		}
		b.WriteString(LeanList(LeanName(fd), strings.TrimPrefix(LeanName(fd), "f_"), Lines(fd)))
	}
}

// SomeFuncs emits the named functions (LeanName without the f_ prefix) of a file.
func SomeFuncs(prog string, f *ast.File, names []string, b *strings.Builder) {
	for _, want := range names {
		found := false
		for _, d := range f.Decls {
			fd, ok := d.(*ast.FuncDecl)
			if ok && fd.Body != nil && LeanName(fd) == "f_"+want {
				b.WriteString(LeanList(LeanName(fd), want, Lines(fd)))
				found = true
			}
		}
		if !found {
			Fail(prog, "function not found: "+want)
		}
	}
}
