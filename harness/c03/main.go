// C03 harness: drives the real Cluster.allocate (through the verif hook) with
// a monitor backed by the real metrics.Store and the real ascend/descend
// allocators, and prints one case line per call:
//
//   C03 <desc> <rmin> <rmax> <peer:state,...> <current> <blacklist> <priority> => ok <ids>|err|panic
//
// state: a absent | v<value> valid numeric | e expired | i invalid | n non-numeric
package main

import (
	"bufio"
	"context"
	"fmt"
	"os"
	"strconv"
	"strings"
	"time"

	ipfscluster "github.com/ipfs/ipfs-cluster"
	"github.com/ipfs/ipfs-cluster/allocator/ascendalloc"
	"github.com/ipfs/ipfs-cluster/allocator/descendalloc"
	"github.com/ipfs/ipfs-cluster/api"

	peer "github.com/libp2p/go-libp2p-core/peer"

	"verifharness/common"
)

const universe = 10 // peer ids 0..9; ids >= number of listed peers are "unknown" peers

type pstate struct {
	kind byte
	val  uint64
}

func (s pstate) String() string {
	if s.kind == 'v' {
		return "v" + strconv.FormatUint(s.val, 10)
	}
	return string(s.kind)
}

type tcase struct {
	desc                         bool
	rmin, rmax                   int
	peers                        []pstate
	current, blacklist, priority []int
	nilPin                       bool
}

func subset(r *common.Rng, n int, p int) []int {
	var l []int
	for i := 0; i < n; i++ {
		if r.Chance(p, 100) {
			l = append(l, i)
		}
	}
	// shuffle
	for i := len(l) - 1; i > 0; i-- {
		j := r.Intn(i + 1)
		l[i], l[j] = l[j], l[i]
	}
	return l
}

var vals = []uint64{0, 1, 1, 2, 2, 5, 5, 7, 100, 18446744073709551615}

func gen(r *common.Rng, k int, total int) tcase {
	var c tcase
	c.desc = r.Bool()
	maxPeers := 8
	if k < total/3 {
		maxPeers = 4
	}
	n := r.Intn(maxPeers + 1)
	c.peers = make([]pstate, n)
	healthyBias := r.Intn(3) // 0: mixed, 1: mostly healthy, 2: all kinds equally
	for i := range c.peers {
		var kind byte
		x := r.Intn(10)
		switch healthyBias {
		case 1:
			if x < 8 {
				kind = 'v'
			} else {
				kind = "aein"[r.Intn(4)]
			}
		default:
			if x < 5 {
				kind = 'v'
			} else {
				kind = "aeinn"[r.Intn(5)]
			}
		}
		c.peers[i] = pstate{kind: kind}
		if kind == 'v' {
			c.peers[i].val = vals[r.Intn(len(vals))]
		}
	}
	// factor pairs: mostly valid ones, some of every invalid shape.
	switch x := r.Intn(20); {
	case x == 0:
		c.rmin, c.rmax = -1, -1
	case x == 1:
		c.rmin, c.rmax = r.Range(-2, 9), r.Range(-2, 9)
	default:
		hi := n/2 + 1
		if r.Chance(1, 5) {
			hi = n + 1
		}
		c.rmin = r.Range(1, hi)
		c.rmax = c.rmin + r.Intn(n+2-c.rmin+1)
	}
	u := n + 2
	if u > universe {
		u = universe
	}
	c.current = subset(r, u, []int{0, 30, 60}[r.Intn(3)])
	c.blacklist = subset(r, u, []int{0, 0, 15, 40}[r.Intn(4)])
	c.priority = subset(r, u, []int{0, 0, 30, 60}[r.Intn(4)])
	c.nilPin = len(c.current) == 0 && r.Bool()
	return c
}

func (c tcase) input() string {
	ps := make([]string, len(c.peers))
	for i, s := range c.peers {
		ps[i] = fmt.Sprintf("%d:%s", i, s)
	}
	pl := "-"
	if len(ps) > 0 {
		pl = strings.Join(ps, ",")
	}
	d := 0
	if c.desc {
		d = 1
	}
	return fmt.Sprintf("C03 %d %d %d %s %s %s %s", d, c.rmin, c.rmax, pl,
		common.Ints(c.current), common.Ints(c.blacklist), common.Ints(c.priority))
}

func pids(l []int) []peer.ID {
	out := make([]peer.ID, len(l))
	for i, v := range l {
		out[i] = common.PeerN(v)
	}
	return out
}

func run(c tcase) (res string) {
	ctx := context.Background()
	mon := common.NewStoreMonitor()
	const name = "verifmetric"
	now := time.Now()
	for i, s := range c.peers {
		m := &api.Metric{Name: name, Peer: common.PeerN(i), Valid: true, Value: "3",
			Expire: now.Add(time.Hour).UnixNano(), ReceivedAt: now.UnixNano()}
		switch s.kind {
		case 'a':
			continue
		case 'v':
			m.Value = strconv.FormatUint(s.val, 10)
		case 'e':
			m.Expire = now.Add(-time.Hour).UnixNano()
		case 'i':
			m.Valid = false
		case 'n':
			m.Value = "12x"
		}
		mon.Store.Add(m)
	}
	var alloc ipfscluster.PinAllocator = ascendalloc.NewAllocator()
	if c.desc {
		alloc = descendalloc.NewAllocator()
	}
	cl := ipfscluster.VerifNewCluster(ctx, ipfscluster.VerifComponents{
		ID:        common.PeerN(0),
		Config:    &ipfscluster.Config{},
		Monitor:   mon,
		Allocator: alloc,
		Informers: []ipfscluster.Informer{&common.NamedInformer{N: name}},
	})
	defer cl.VerifCancel()
	var cur *api.Pin
	if !c.nilPin {
		cur = api.PinCid(common.CidN(0))
		cur.Allocations = pids(c.current)
	}
	defer func() {
		if r := recover(); r != nil {
			res = "panic"
		}
	}()
	out, err := cl.VerifAllocate(ctx, common.CidN(0), cur, c.rmin, c.rmax, pids(c.blacklist), pids(c.priority))
	if err != nil {
		return "err"
	}
	idx := make([]int, len(out))
	for i, p := range out {
		idx[i] = common.PeerIndex(p, universe)
	}
	return "ok " + common.Ints(idx)
}

func parseInts(s string) []int {
	if s == "-" || s == "" {
		return nil
	}
	var l []int
	for _, x := range strings.Split(s, ",") {
		v, _ := strconv.Atoi(x)
		l = append(l, v)
	}
	return l
}

// parse re-reads the input part of a case line (corpus / replay).
func parse(line string) (tcase, bool) {
	f := strings.Fields(line)
	if len(f) < 8 || f[0] != "C03" {
		return tcase{}, false
	}
	var c tcase
	c.desc = f[1] == "1"
	c.rmin, _ = strconv.Atoi(f[2])
	c.rmax, _ = strconv.Atoi(f[3])
	if f[4] != "-" {
		for _, ps := range strings.Split(f[4], ",") {
			kv := strings.SplitN(ps, ":", 2)
			if len(kv) != 2 || kv[1] == "" {
				return c, false
			}
			st := pstate{kind: kv[1][0]}
			if st.kind == 'v' {
				st.val, _ = strconv.ParseUint(kv[1][1:], 10, 64)
			}
			c.peers = append(c.peers, st)
		}
	}
	c.current, c.blacklist, c.priority = parseInts(f[5]), parseInts(f[6]), parseInts(f[7])
	return c, true
}

func validTok(mn, mx int) string {
	if ipfscluster.VerifIsReplicationFactorValid(mn, mx) == nil {
		return "ok"
	}
	return "err"
}

func main() {
	a := common.ParseArgs()
	if a.Extra["stdin"] != "" {
		out := common.NewOut()
		defer out.Flush()
		sc := bufio.NewScanner(os.Stdin)
		sc.Buffer(make([]byte, 1<<20), 1<<24)
		for sc.Scan() {
			if f := strings.Fields(sc.Text()); len(f) >= 4 && f[0] == "C03" && f[1] == "valid" {
				mn, _ := strconv.Atoi(f[2])
				mx, _ := strconv.Atoi(f[3])
				out.Line("C03 valid %d %d => %s", mn, mx, validTok(mn, mx))
				continue
			}
			if f := strings.Fields(sc.Text()); len(f) >= 2 && f[0] == "C03" && f[1] == "raw" {
				if c, ok := parseRaw(f); ok {
					out.Line("%s => %s", c.input(), runRaw(c))
				}
				continue
			}
			if f := strings.Fields(sc.Text()); len(f) >= 2 && f[0] == "C03" && f[1] == "seq" {
				if c, ok := parseSeq(f); ok {
					out.Line("%s => %s", c.input(), runSeq(c))
				}
				continue
			}
			if f := strings.Fields(sc.Text()); len(f) >= 2 && f[0] == "C03" && f[1] == "hist" {
				if c, ok := parseHist(f); ok {
					out.Line("%s => %s", c.input(), runHist(c))
				}
				continue
			}
			if f := strings.Fields(sc.Text()); len(f) >= 2 && f[0] == "C03" && f[1] == "block" {
				if c, ok := parseBlock(f); ok {
					out.Line("%s => %s", c.input(), runBlock(c))
				}
				continue
			}
			if c, ok := parse(sc.Text()); ok {
				out.Line("%s => %s", c.input(), run(c))
			}
		}
		return
	}
	if su := a.Extra["suite"]; su == "raw" || su == "block" || su == "seq" || su == "hist" {
		total := a.N
		if total < 0 {
			total = 1500
		}
		root := common.NewRng(common.Seed() + 7919)
		out := common.NewOut()
		defer out.Flush()
		for k := 0; k < total; k++ {
			if a.Only >= 0 && k != a.Only {
				continue
			}
			if su == "hist" {
				c := genHist(root.Fork(uint64(k)))
				out.Line("%s => %s", c.input(), runHist(c))
			} else if su == "seq" {
				c := genSeq(root.Fork(uint64(k)))
				out.Line("%s => %s", c.input(), runSeq(c))
			} else if su == "raw" {
				c := genRaw(root.Fork(uint64(k)))
				out.Line("%s => %s", c.input(), runRaw(c))
			} else {
				c := genBlock(root.Fork(uint64(k)))
				out.Line("%s => %s", c.input(), runBlock(c))
			}
		}
		return
	}
	total := a.N
	if total < 0 {
		total = 4000
		if a.Tier == "thorough" {
			total = 60000
		}
	}
	root := common.NewRng(common.Seed())
	out := common.NewOut()
	defer out.Flush()
	if a.Only < 0 {
		// tie of the Lean `factorsValid` to isReplicationFactorValid: exhaustive over a small square
		for mn := -4; mn <= 7; mn++ {
			for mx := -4; mx <= 7; mx++ {
				out.Line("C03 valid %d %d => %s", mn, mx, validTok(mn, mx))
			}
		}
	}
	for k := 0; k < total; k++ {
		if a.Only >= 0 && k != a.Only {
			continue
		}
		c := gen(root.Fork(uint64(k)), k, total)
		out.Line("%s => %s", c.input(), run(c))
	}
}
