// Suite seq (round 8): the CALLERS of allocate(), as a three-step history on one CID through the real Cluster.pin and
// the real vacatePeer -> repinFromPeer:
//
//	C03 seq <desc> <rmin> <rmax> <peer:state,...> <user allocations> <f> <state of f afterwards> => <s1> <s2> <s3>
//
// s1: Cluster.pin(new pin)                                   ok:<stored allocations> | err
// s2: Cluster.pin(same cid, another name) — re-allocation from the stored pin (current = stored allocations)
// s3: peer f's metric is replaced by <state>, vacatePeer(f)   the stored allocations afterwards (none if not pinned)
package main

import (
	"context"
	"fmt"
	"strconv"
	"strings"
	"time"

	ipfscluster "github.com/ipfs/ipfs-cluster"
	"github.com/ipfs/ipfs-cluster/allocator/ascendalloc"
	"github.com/ipfs/ipfs-cluster/allocator/descendalloc"
	"github.com/ipfs/ipfs-cluster/api"

	"verifharness/common"
)

type seqCase struct {
	desc       bool
	rmin, rmax int
	peers      []pstate
	pri        []int
	f          int
	fstate     pstate
}

func genSeq(r *common.Rng) seqCase {
	var c seqCase
	c.desc = r.Bool()
	n := 1 + r.Intn(7)
	c.peers = make([]pstate, n)
	for i := range c.peers {
		kind := byte('v')
		if r.Chance(1, 4) {
			kind = "aeinn"[r.Intn(5)]
		}
		c.peers[i] = pstate{kind: kind}
		if kind == 'v' {
			c.peers[i].val = vals[r.Intn(len(vals))]
		}
	}
	c.rmin = 1 + r.Intn(n/2+1)
	c.rmax = c.rmin + r.Intn(3)
	c.pri = subset(r, n+1, []int{0, 30, 60}[r.Intn(3)])
	c.f = r.Intn(n)
	c.fstate = pstate{kind: "veeiinv"[r.Intn(7)]}
	if c.fstate.kind == 'v' {
		c.fstate.val = vals[r.Intn(len(vals))]
	}
	return c
}

func (c seqCase) input() string {
	ps := make([]string, len(c.peers))
	for i, s := range c.peers {
		ps[i] = fmt.Sprintf("%d:%s", i, s)
	}
	d := 0
	if c.desc {
		d = 1
	}
	return fmt.Sprintf("C03 seq %d %d %d %s %s %d %s", d, c.rmin, c.rmax, strings.Join(ps, ","), common.Ints(c.pri), c.f, c.fstate)
}

func parseSeq(f []string) (seqCase, bool) {
	if len(f) < 9 {
		return seqCase{}, false
	}
	var c seqCase
	c.desc = f[2] == "1"
	c.rmin, _ = strconv.Atoi(f[3])
	c.rmax, _ = strconv.Atoi(f[4])
	for _, ps := range strings.Split(f[5], ",") {
		kv := strings.SplitN(ps, ":", 2)
		if len(kv) != 2 || kv[1] == "" {
			return c, false
		}
		st := pstate{kind: kv[1][0]}
		if st.kind == 'v' {
			st.val, _ = strconv.ParseUint(kv[1][1:], 10, 64)
		}
		c.peers = append(c.peers, st)
	}
	c.pri = parseInts(f[6])
	c.f, _ = strconv.Atoi(f[7])
	if f[8] == "" {
		return c, false
	}
	c.fstate = pstate{kind: f[8][0]}
	if c.fstate.kind == 'v' {
		c.fstate.val, _ = strconv.ParseUint(f[8][1:], 10, 64)
	}
	return c, true
}

func runSeq(c seqCase) (res string) {
	ctx := context.Background()
	cons := common.NewFakeConsensus()
	mon := common.NewStoreMonitor()
	const name = "verifmetric"
	now := time.Now()
	add := func(i int, s pstate) {
		m := &api.Metric{Name: name, Peer: common.PeerN(i), Valid: true, Value: "3",
			Expire: now.Add(time.Hour).UnixNano(), ReceivedAt: now.UnixNano()}
		switch s.kind {
		case 'a':
			return
		case 'v':
			m.Value = strconv.FormatUint(s.val, 10)
		case 'e':
			m.Expire = now.Add(-time.Hour).UnixNano()
		case 'i':
			m.Valid = false
		case 'n':
			m.Value = "12x"
		}
		mon.Store.Add(m)
	}
	for i, s := range c.peers {
		add(i, s)
	}
	var alloc ipfscluster.PinAllocator = ascendalloc.NewAllocator()
	if c.desc {
		alloc = descendalloc.NewAllocator()
	}
	cl := ipfscluster.VerifNewCluster(ctx, ipfscluster.VerifComponents{
		ID: common.PeerN(0), Config: &ipfscluster.Config{}, Consensus: cons, IPFS: common.NewFakeIPFS(), Monitor: mon, Allocator: alloc,
		Informers: []ipfscluster.Informer{&common.NamedInformer{N: name}},
	})
	defer cl.VerifCancel()
	defer func() {
		if r := recover(); r != nil {
			res += " panic"
		}
	}()
	stored := func() string {
		p, err := cons.St.Get(ctx, common.CidN(1))
		if err != nil || p == nil {
			return "none"
		}
		idx := make([]int, len(p.Allocations))
		for i, q := range p.Allocations {
			idx[i] = common.PeerIndex(q, universe)
		}
		return "ok:" + common.Ints(idx)
	}
	mk := func(nm string) *api.Pin {
		p := api.PinCid(common.CidN(1))
		p.ReplicationFactorMin, p.ReplicationFactorMax = c.rmin, c.rmax
		p.UserAllocations = pids(c.pri)
		p.Name = nm
		return p
	}
	step := func(nm string) string {
		if _, _, err := cl.VerifPin(ctx, mk(nm), nil); err != nil {
			return "err"
		}
		return stored()
	}
	res = step("one")
	res += " " + step("two")
	add(c.f, c.fstate)
	cl.VerifVacatePeer(ctx, common.PeerN(c.f))
	res += " " + stored()
	return res
}
