// Suites "raw" and "block" of the C03 harness.
//
// raw: allocate() behind the REAL pubsubmon.Monitor (its store, Window.Latest, LatestValid, PeersetFilter), fed
// with raw metric arrivals: several metrics per peer, any arrival order, other metric names, non-members.
//
//	C03 raw <desc> <rmin> <rmax> <arrivals> <view> <current> <blacklist> <priority> => lm=<peer:val,...> ok <ids>|err|panic
//	arrival  = <name>/<peer>/<valid01>/<expired01>/<value|x>   name 0 = the allocation informer's metric, 1 = ping, 2 = another
//	view     = n (no peerset provider) | f (provider fails) | m<id.id...> (members)
//
// block: the real ClusterRPCAPI.BlockAllocate through the cluster's own RPC server (for cid.Undef through
// adder.BlockAllocate, the call the adders make).
//
//	C03 block <cfg> <peers> <ping> <pre pinset> <undef01> <pin> => ok <ids>|err|panic
package main

import (
	"context"
	"errors"
	"fmt"
	"sort"
	"strconv"
	"strings"
	"time"

	ipfscluster "github.com/ipfs/ipfs-cluster"
	"github.com/ipfs/ipfs-cluster/adder"
	"github.com/ipfs/ipfs-cluster/allocator/ascendalloc"
	"github.com/ipfs/ipfs-cluster/allocator/descendalloc"
	"github.com/ipfs/ipfs-cluster/api"
	"github.com/ipfs/ipfs-cluster/monitor/pubsubmon"
	"github.com/ipfs/ipfs-cluster/version"

	cid "github.com/ipfs/go-cid"
	libp2p "github.com/libp2p/go-libp2p"
	peer "github.com/libp2p/go-libp2p-core/peer"
	rpc "github.com/libp2p/go-libp2p-gorpc"
	pubsub "github.com/libp2p/go-libp2p-pubsub"

	"verifharness/common"
)

type arrival struct {
	name, peer     int
	valid, expired bool
	val            string // decimal or "x"
}

type rawCase struct {
	desc                         bool
	rmin, rmax                   int
	arr                          []arrival
	view                         string // n | f | m<ids>
	current, blacklist, priority []int
}

func b01(x bool) int {
	if x {
		return 1
	}
	return 0
}

func (c rawCase) input() string {
	as := make([]string, len(c.arr))
	for i, a := range c.arr {
		as[i] = fmt.Sprintf("%d/%d/%d/%d/%s", a.name, a.peer, b01(a.valid), b01(a.expired), a.val)
	}
	al := "-"
	if len(as) > 0 {
		al = strings.Join(as, ",")
	}
	return fmt.Sprintf("C03 raw %d %d %d %s %s %s %s %s", b01(c.desc), c.rmin, c.rmax, al, c.view,
		common.Ints(c.current), common.Ints(c.blacklist), common.Ints(c.priority))
}

func viewMembers(v string) []int {
	var l []int
	if len(v) > 1 {
		for _, x := range strings.Split(v[1:], ".") {
			n, _ := strconv.Atoi(x)
			l = append(l, n)
		}
	}
	return l
}

// two process-wide real monitors: one without a peerset provider, one whose provider answers from curView
type monitors struct {
	noPeers, withPeers *pubsubmon.Monitor
	curView            string
	serial             int
}

var mons *monitors

func getMonitors() *monitors {
	if mons != nil {
		return mons
	}
	ctx := context.Background()
	ms := &monitors{}
	mk := func(pf pubsubmon.PeersFunc) *pubsubmon.Monitor {
		h, err := libp2p.New(ctx, libp2p.ListenAddrStrings("/ip4/127.0.0.1/tcp/0"))
		if err != nil {
			panic(err)
		}
		psub, err := pubsub.NewGossipSub(ctx, h)
		if err != nil {
			panic(err)
		}
		cfg := &pubsubmon.Config{}
		cfg.Default()
		m, err := pubsubmon.New(ctx, cfg, psub, pf)
		if err != nil {
			panic(err)
		}
		return m
	}
	ms.noPeers = mk(nil)
	ms.withPeers = mk(func(context.Context) ([]peer.ID, error) {
		if ms.curView == "f" {
			return nil, errors.New("no peerset")
		}
		return pids(viewMembers(ms.curView)), nil
	})
	mons = ms
	return ms
}

func (ms *monitors) pick(view string) *pubsubmon.Monitor {
	ms.curView = view
	if view == "n" {
		return ms.noPeers
	}
	return ms.withPeers
}

func genRaw(r *common.Rng) rawCase {
	var c rawCase
	c.desc = r.Bool()
	n := r.Range(1, 6) // peers 0..n-1 are "the cluster"; ids up to n+1 appear too
	na := r.Intn(15)
	for i := 0; i < na; i++ {
		a := arrival{peer: r.Intn(n + 2), valid: !r.Chance(1, 8), expired: r.Chance(1, 5)}
		switch x := r.Intn(10); {
		case x < 7:
			a.name = 0
		case x < 9:
			a.name = 1
		default:
			a.name = 2
		}
		if r.Chance(1, 8) {
			a.val = "x"
		} else {
			a.val = strconv.FormatUint(vals[r.Intn(len(vals))], 10)
		}
		c.arr = append(c.arr, a)
	}
	switch x := r.Intn(10); {
	case x < 3:
		c.view = "n"
	case x == 3:
		c.view = "f"
	default:
		m := subset(r, n+2, 75)
		sort.Ints(m)
		s := make([]string, len(m))
		for i, v := range m {
			s[i] = strconv.Itoa(v)
		}
		c.view = "m" + strings.Join(s, ".")
	}
	switch x := r.Intn(20); {
	case x == 0:
		c.rmin, c.rmax = -1, -1
	case x == 1:
		c.rmin, c.rmax = r.Range(-2, 6), r.Range(-2, 6)
	default:
		c.rmin = r.Range(1, n/2+1)
		c.rmax = c.rmin + r.Intn(3)
	}
	c.current = subset(r, n+2, []int{0, 30, 60}[r.Intn(3)])
	c.blacklist = subset(r, n+2, []int{0, 0, 15, 40}[r.Intn(4)])
	c.priority = subset(r, n+2, []int{0, 0, 30, 60}[r.Intn(4)])
	return c
}

func runRaw(c rawCase) (res string) {
	ctx := context.Background()
	ms := getMonitors()
	ms.serial++
	name := func(k int) string { return fmt.Sprintf("case%d-m%d", ms.serial, k) }
	mon := ms.pick(c.view)
	now := time.Now()
	for _, a := range c.arr {
		m := &api.Metric{Name: name(a.name), Peer: common.PeerN(a.peer), Valid: a.valid, Value: a.val,
			Expire: now.Add(time.Hour).UnixNano()}
		if a.val == "x" {
			m.Value = "12x"
		}
		if a.expired {
			m.Expire = now.Add(-time.Hour).UnixNano()
		}
		if err := mon.LogMetric(ctx, m); err != nil {
			return "lm=- harness-error"
		}
	}
	var alloc ipfscluster.PinAllocator = ascendalloc.NewAllocator()
	if c.desc {
		alloc = descendalloc.NewAllocator()
	}
	cl := ipfscluster.VerifNewCluster(ctx, ipfscluster.VerifComponents{
		ID: common.PeerN(0), Config: &ipfscluster.Config{}, Monitor: mon, Allocator: alloc,
		Informers: []ipfscluster.Informer{&common.NamedInformer{N: name(0)}},
	})
	defer cl.VerifCancel()
	var lmt []string
	for _, m := range mon.LatestMetrics(ctx, name(0)) {
		v := m.Value
		if _, err := strconv.ParseUint(v, 10, 64); err != nil {
			v = "x"
		}
		lmt = append(lmt, fmt.Sprintf("%d:%s", common.PeerIndex(m.Peer, universe), v))
	}
	lm := "lm=-"
	if len(lmt) > 0 {
		lm = "lm=" + strings.Join(lmt, ",")
	}
	cur := api.PinCid(common.CidN(0))
	cur.Allocations = pids(c.current)
	defer func() {
		if r := recover(); r != nil {
			res = lm + " panic"
		}
	}()
	out, err := cl.VerifAllocate(ctx, common.CidN(0), cur, c.rmin, c.rmax, pids(c.blacklist), pids(c.priority))
	if err != nil {
		return lm + " err"
	}
	idx := make([]int, len(out))
	for i, p := range out {
		idx[i] = common.PeerIndex(p, universe)
	}
	return lm + " ok " + common.Ints(idx)
}

func parseRaw(f []string) (rawCase, bool) {
	// f = ["C03","raw",d,rmin,rmax,arrivals,view,cur,bl,pri,...]
	if len(f) < 10 {
		return rawCase{}, false
	}
	var c rawCase
	c.desc = f[2] == "1"
	c.rmin, _ = strconv.Atoi(f[3])
	c.rmax, _ = strconv.Atoi(f[4])
	if f[5] != "-" {
		for _, t := range strings.Split(f[5], ",") {
			p := strings.Split(t, "/")
			if len(p) != 5 {
				return c, false
			}
			var a arrival
			a.name, _ = strconv.Atoi(p[0])
			a.peer, _ = strconv.Atoi(p[1])
			a.valid, a.expired, a.val = p[2] == "1", p[3] == "1", p[4]
			c.arr = append(c.arr, a)
		}
	}
	c.view = f[6]
	c.current, c.blacklist, c.priority = parseInts(f[7]), parseInts(f[8]), parseInts(f[9])
	return c, true
}

// ---------------- block ----------------

type blockCase struct {
	follower       bool
	defMin, defMax int
	desc           bool
	peers          []string // allocation metric state per peer: a|v<n>|e|i|n
	ping           []string // ping metric state per peer: a|v|e|i
	pre            string   // pinset token
	undef          bool
	pin            string // pin token
}

func stateList(l []string) string {
	if len(l) == 0 {
		return "-"
	}
	ps := make([]string, len(l))
	for i, s := range l {
		ps[i] = fmt.Sprintf("%d:%s", i, s)
	}
	return strings.Join(ps, ",")
}

func (c blockCase) input() string {
	return fmt.Sprintf("C03 block f%d/dm%d:%d/s%d %s %s %s %d %s", b01(c.follower), c.defMin, c.defMax, b01(c.desc),
		stateList(c.peers), stateList(c.ping), c.pre, b01(c.undef), c.pin)
}

var blockStates = []string{"v0", "v1", "v1", "v2", "v5", "v7", "e", "i", "n", "a"}

func genBlock(r *common.Rng) blockCase {
	var c blockCase
	c.follower = r.Chance(1, 15)
	switch r.Intn(5) {
	case 0:
		c.defMin, c.defMax = -1, -1
	case 1:
		c.defMin, c.defMax = 1, 1
	case 2:
		c.defMin, c.defMax = 2, 3
	case 3:
		c.defMin, c.defMax = 1, 2
	default:
		c.defMin, c.defMax = 1, 3
	}
	c.desc = r.Bool()
	n := r.Range(1, 6)
	for i := 0; i < n; i++ {
		if r.Chance(7, 10) {
			c.peers = append(c.peers, blockStates[r.Intn(6)])
		} else {
			c.peers = append(c.peers, blockStates[r.Intn(len(blockStates))])
		}
		c.ping = append(c.ping, []string{"v", "v", "v", "v", "e", "i", "a"}[r.Intn(7)])
	}
	ulist := func(pct int) string {
		l := subset(r, n+1, pct)
		return common.Ints(l)
	}
	factors := func() string {
		switch x := r.Intn(12); {
		case x < 4:
			return "0:0"
		case x == 4:
			return "-1:-1"
		case x == 5:
			return fmt.Sprintf("%d:%d", r.Range(-2, 4), r.Range(-2, 4))
		default:
			a := r.Range(1, 3)
			return fmt.Sprintf("%d:%d", a, a+r.Intn(3))
		}
	}
	c.undef = r.Chance(1, 2)
	// stored entry for the request's cid (only looked up when the cid is defined)
	c.pre = "-"
	cidn := r.Intn(4)
	if r.Chance(1, 2) {
		typ, depth, mode := "d", "-1", "r"
		switch r.Intn(6) {
		case 0:
			typ, depth = "s", "1"
		case 1:
			mode, depth = "d", "0"
		}
		al := ulist(50)
		c.pre = fmt.Sprintf("%d/%s/1:2/0/%s/%s/0/%s/z/-/-/-/-/-", cidn, typ, mode, depth, al)
	}
	mode, depth := "r", "-1"
	if r.Chance(1, 5) {
		mode, depth = "d", "0"
	}
	exp := []string{"z", "z", "z", "p", "f1", "u"}[r.Intn(6)]
	ua := "-"
	if r.Chance(1, 2) {
		ua = ulist(40)
	}
	typ := "d"
	if r.Chance(1, 8) {
		typ, depth = "s", "1"
	}
	c.pin = fmt.Sprintf("%d/%s/%s/0/%s/%s/0/-/%s/-/-/-/-/%s", cidn, typ, factors(), mode, depth, exp, ua)
	return c
}

func runBlock(c blockCase) (res string) {
	ctx := context.Background()
	cons := common.NewFakeConsensus()
	for _, p := range common.PinsetOf(c.pre) {
		if err := cons.St.Add(ctx, p); err != nil {
			panic(err)
		}
	}
	mon := common.NewStoreMonitor()
	const name = "verifmetric"
	now := time.Now()
	add := func(nm string, i int, s string) {
		m := &api.Metric{Name: nm, Peer: common.PeerN(i), Valid: true, Value: "3", Expire: now.Add(time.Hour).UnixNano()}
		switch s[0] {
		case 'a':
			return
		case 'v':
			if len(s) > 1 {
				m.Value = s[1:]
			}
		case 'e':
			m.Expire = now.Add(-time.Hour).UnixNano()
		case 'i':
			m.Valid = false
		case 'n':
			m.Value = "12x"
		}
		mon.Store.Add(m)
	}
	for i, s := range c.peers {
		add(name, i, s)
	}
	for i, s := range c.ping {
		add("ping", i, s)
	}
	var alloc ipfscluster.PinAllocator = ascendalloc.NewAllocator()
	if c.desc {
		alloc = descendalloc.NewAllocator()
	}
	cfg := &ipfscluster.Config{}
	cfg.FollowerMode = c.follower
	cfg.ReplicationFactorMin = c.defMin
	cfg.ReplicationFactorMax = c.defMax
	cl := ipfscluster.VerifNewCluster(ctx, ipfscluster.VerifComponents{
		ID: common.PeerN(0), Config: cfg, Consensus: cons, IPFS: common.NewFakeIPFS(), Monitor: mon, Allocator: alloc,
		Informers: []ipfscluster.Informer{&common.NamedInformer{N: name}},
	})
	defer cl.VerifCancel()
	srv, err := ipfscluster.VerifNewRPCServer(cl)
	if err != nil {
		return "harness-error"
	}
	client := rpc.NewClientWithServer(nil, version.RPCProtocol, srv)
	cl.VerifSetRPC(srv, client)
	defer func() {
		if r := recover(); r != nil {
			res = "panic"
		}
	}()
	pin := common.PinOf(c.pin)
	var out []peer.ID
	if c.undef {
		// the adders' call: api.PinWithOpts(cid.Undef, opts); only data pins with the options' mode
		if pin.Type != api.DataType {
			pin.Cid = cid.Undef
			err = client.CallContext(ctx, "", "Cluster", "BlockAllocate", pin, &out)
		} else {
			out, err = adder.BlockAllocate(ctx, client, pin.PinOptions)
		}
	} else {
		err = client.CallContext(ctx, "", "Cluster", "BlockAllocate", pin, &out)
	}
	if err != nil {
		return "err"
	}
	idx := make([]int, len(out))
	for i, p := range out {
		idx[i] = common.PeerIndex(p, universe)
	}
	return "ok " + common.Ints(idx)
}

func parseBlock(f []string) (blockCase, bool) {
	// f = ["C03","block",cfg,peers,ping,pre,undef,pin,...]
	if len(f) < 8 {
		return blockCase{}, false
	}
	var c blockCase
	cf := strings.Split(f[2], "/")
	if len(cf) != 3 {
		return c, false
	}
	c.follower = cf[0] == "f1"
	fmt.Sscanf(cf[1], "dm%d:%d", &c.defMin, &c.defMax)
	c.desc = cf[2] == "s1"
	states := func(s string) []string {
		var l []string
		if s != "-" {
			for _, ps := range strings.Split(s, ",") {
				kv := strings.SplitN(ps, ":", 2)
				if len(kv) == 2 {
					l = append(l, kv[1])
				}
			}
		}
		return l
	}
	c.peers, c.ping = states(f[3]), states(f[4])
	c.pre, c.undef, c.pin = f[5], f[6] == "1", f[7]
	return c, true
}
