// Suite hist (round 8b): WHOLE HISTORIES over several CIDs through the real Cluster.pin / vacatePeer -> repinFromPeer /
// unpin, with any number of metrics changing between the steps (values change, metrics expire / become invalid /
// non-numeric, new peers appear). The cluster is given TWO informers: the allocation informer first and a decoy whose
// metrics rank the peers the other way round and are valid for every peer — allocate() must read informers[0].
//
//	C03 hist <desc> <op> <op> … => <res> <res> …          (one result per op)
//
//	M<peer:state,…>            the listed peers' metrics are replaced            res: -
//	P<cid>:<rmin>:<rmax>:<ua>  Cluster.pin under a fresh name (re-allocation     res: ok:<stored allocations> | err
//	                           from the stored pin when there is one)
//	V<peer>                    vacatePeer(peer)                                  res: <cid>=<allocs>;… of all stored pins | -
//	U<cid>                     the pin is removed from the state                 res: -
package main

import (
	"context"
	"fmt"
	"sort"
	"strconv"
	"strings"
	"time"

	ipfscluster "github.com/ipfs/ipfs-cluster"
	"github.com/ipfs/ipfs-cluster/allocator/ascendalloc"
	"github.com/ipfs/ipfs-cluster/allocator/descendalloc"
	"github.com/ipfs/ipfs-cluster/api"

	"verifharness/common"
)

type histCase struct {
	desc bool
	ops  []string
}

func genState(r *common.Rng, everAbsent bool) pstate {
	kind := byte('v')
	if r.Chance(1, 3) {
		if everAbsent {
			kind = "aeinn"[r.Intn(5)]
		} else {
			kind = "eeinn"[r.Intn(5)]
		}
	}
	s := pstate{kind: kind}
	if kind == 'v' {
		s.val = vals[r.Intn(len(vals))]
	}
	return s
}

func genHist(r *common.Rng) histCase {
	var c histCase
	c.desc = r.Bool()
	n := 2 + r.Intn(6)
	has := make([]bool, n) // peer already has a metric in the store (cannot become absent again)
	metricsOp := func(all bool) string {
		var l []string
		for i := 0; i < n; i++ {
			if all || r.Chance(2, 5) {
				s := genState(r, !has[i])
				if s.kind != 'a' {
					has[i] = true
				}
				l = append(l, fmt.Sprintf("%d:%s", i, s))
			}
		}
		if len(l) == 0 {
			i := r.Intn(n)
			s := genState(r, false)
			has[i] = true
			l = append(l, fmt.Sprintf("%d:%s", i, s))
		}
		return "M" + strings.Join(l, ",")
	}
	c.ops = append(c.ops, metricsOp(true))
	pinOp := func() string {
		mn := 1 + r.Intn(n/2+1)
		return fmt.Sprintf("P%d:%d:%d:%s", 1+r.Intn(3), mn, mn+r.Intn(3), common.Ints(subset(r, n+1, []int{0, 0, 30, 60}[r.Intn(4)])))
	}
	for j := r.Intn(4); j > 0; j-- {
		c.ops = append(c.ops, pinOp())
	}
	steps := 3 + r.Intn(8)
	for k := 0; k < steps; k++ {
		switch x := r.Intn(10); {
		case x < 4:
			c.ops = append(c.ops, pinOp())
		case x < 7:
			c.ops = append(c.ops, metricsOp(false))
		case x < 9:
			// a peer fails (its metric expires / turns invalid) and is vacated — possibly together with other changes
			f := r.Intn(n)
			has[f] = true
			m := fmt.Sprintf("M%d:%s", f, pstate{kind: "eeiv"[r.Intn(4)], val: 2})
			if r.Chance(1, 3) {
				g := r.Intn(n)
				if g != f {
					has[g] = true
					m += fmt.Sprintf(",%d:%s", g, pstate{kind: "ein"[r.Intn(3)]})
				}
			}
			c.ops = append(c.ops, m, fmt.Sprintf("V%d", f))
		default:
			c.ops = append(c.ops, fmt.Sprintf("U%d", 1+r.Intn(3)))
		}
	}
	return c
}

func (c histCase) input() string {
	d := 0
	if c.desc {
		d = 1
	}
	return fmt.Sprintf("C03 hist %d %s", d, strings.Join(c.ops, " "))
}

func parseHist(f []string) (histCase, bool) {
	if len(f) < 4 {
		return histCase{}, false
	}
	c := histCase{desc: f[2] == "1"}
	for _, t := range f[3:] {
		if t == "=>" {
			break
		}
		c.ops = append(c.ops, t)
	}
	return c, len(c.ops) > 0
}

func runHist(c histCase) (res string) {
	ctx := context.Background()
	cons := common.NewFakeConsensus()
	mon := common.NewStoreMonitor()
	const name, decoy = "verifmetric", "verifdecoy"
	now := time.Now()
	add := func(i int, s pstate) {
		m := &api.Metric{Name: name, Peer: common.PeerN(i), Valid: true, Value: "3",
			Expire: now.Add(time.Hour).UnixNano(), ReceivedAt: now.UnixNano()}
		// the decoy informer's metric: valid for everybody, ranking reversed
		d := &api.Metric{Name: decoy, Peer: common.PeerN(i), Valid: true, Value: strconv.Itoa(1000 - i),
			Expire: now.Add(time.Hour).UnixNano(), ReceivedAt: now.UnixNano()}
		mon.Store.Add(d)
		switch s.kind {
		case 'a':
			return
		case 'v':
			m.Value = strconv.FormatUint(s.val, 10)
			if s.val < 1000 {
				d.Value = strconv.FormatUint(1000-s.val, 10)
			}
		case 'e':
			m.Expire = now.Add(-time.Hour).UnixNano()
		case 'i':
			m.Valid = false
		case 'n':
			m.Value = "12x"
		}
		mon.Store.Add(m)
	}
	var alloc ipfscluster.PinAllocator = ascendalloc.NewAllocator()
	if c.desc {
		alloc = descendalloc.NewAllocator()
	}
	cl := ipfscluster.VerifNewCluster(ctx, ipfscluster.VerifComponents{
		ID: common.PeerN(0), Config: &ipfscluster.Config{}, Consensus: cons, IPFS: common.NewFakeIPFS(), Monitor: mon, Allocator: alloc,
		Informers: []ipfscluster.Informer{&common.NamedInformer{N: name}, &common.NamedInformer{N: decoy}},
	})
	defer cl.VerifCancel()
	var out []string
	defer func() {
		if r := recover(); r != nil {
			res = strings.Join(append(out, "panic"), " ")
		}
	}()
	allocsOf := func(k int) (string, bool) {
		p, err := cons.St.Get(ctx, common.CidN(k))
		if err != nil || p == nil {
			return "", false
		}
		idx := make([]int, len(p.Allocations))
		for i, q := range p.Allocations {
			idx[i] = common.PeerIndex(q, universe)
		}
		return common.Ints(idx), true
	}
	for k, op := range c.ops {
		if op == "" {
			continue
		}
		arg := op[1:]
		switch op[0] {
		case 'M':
			for _, ps := range strings.Split(arg, ",") {
				kv := strings.SplitN(ps, ":", 2)
				if len(kv) != 2 || kv[1] == "" {
					continue
				}
				i, _ := strconv.Atoi(kv[0])
				st := pstate{kind: kv[1][0]}
				if st.kind == 'v' {
					st.val, _ = strconv.ParseUint(kv[1][1:], 10, 64)
				}
				add(i, st)
			}
			out = append(out, "-")
		case 'P':
			f := strings.Split(arg, ":")
			if len(f) != 4 {
				out = append(out, "bad")
				continue
			}
			id, _ := strconv.Atoi(f[0])
			p := api.PinCid(common.CidN(id))
			p.ReplicationFactorMin, _ = strconv.Atoi(f[1])
			p.ReplicationFactorMax, _ = strconv.Atoi(f[2])
			p.UserAllocations = pids(parseInts(f[3]))
			p.Name = fmt.Sprintf("n%d", k)
			if _, _, err := cl.VerifPin(ctx, p, nil); err != nil {
				out = append(out, "err")
			} else if s, ok := allocsOf(id); ok {
				out = append(out, "ok:"+s)
			} else {
				out = append(out, "lost")
			}
		case 'V':
			i, _ := strconv.Atoi(arg)
			cl.VerifVacatePeer(ctx, common.PeerN(i))
			var l []string
			for id := 1; id <= 3; id++ {
				if s, ok := allocsOf(id); ok {
					l = append(l, fmt.Sprintf("%d=%s", id, s))
				}
			}
			sort.Strings(l)
			if len(l) == 0 {
				out = append(out, "-")
			} else {
				out = append(out, strings.Join(l, ";"))
			}
		case 'U':
			id, _ := strconv.Atoi(arg)
			cons.LogUnpin(ctx, api.PinCid(common.CidN(id)))
			out = append(out, "-")
		default:
			out = append(out, "bad")
		}
	}
	return strings.Join(out, " ")
}
