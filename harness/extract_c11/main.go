// extract_c11: translator for property C11. Reads api/rest/restapi.go of the
// repository under $VERIF_REPO (default /repo) with go/ast and prints, as a Lean
// file (lean/ClusterVerif/Gen/C11.lean):
//
//   - the routes() table: name, method, pattern (also pre-split into pattern
//     segments), handler function;
//   - how addRoutes registers it (shape, NotFoundHandler, MethodNotAllowedHandler,
//     StrictSlash);
//   - the handler wrapping order built in NewAPIWithHost (outermost first), with
//     tracing off and on;
//   - for every handler function named in the table (and the helpers
//     parse*OrError it calls) the ("Service","Method") string pairs of its
//     rpcClient.CallContext calls, and which parse helper it uses.
//
// Every shape that is not recognised is an error (exit 1): fail closed.
package main

import (
	"fmt"
	"go/ast"
	"go/parser"
	"go/token"
	"os"
	"path/filepath"
	"sort"
	"strconv"
	"strings"
)

func die(format string, a ...interface{}) {
	fmt.Fprintf(os.Stderr, "extract_c11: "+format+"\n", a...)
	os.Exit(1)
}

func q(s string) string { return strconv.Quote(s) }

type route struct{ name, method, pattern, handler string }

func strLit(e ast.Expr) string {
	b, ok := e.(*ast.BasicLit)
	if !ok || b.Kind != token.STRING {
		die("expected a string literal, got %T", e)
	}
	s, err := strconv.Unquote(b.Value)
	if err != nil {
		die("bad string literal %s", b.Value)
	}
	return s
}

func apiSel(e ast.Expr) string {
	s, ok := e.(*ast.SelectorExpr)
	if !ok {
		die("handler is not a selector api.X: %T", e)
	}
	id, ok := s.X.(*ast.Ident)
	if !ok || id.Name != "api" {
		die("handler is not api.X")
	}
	return s.Sel.Name
}

// pattern segment as a Lean term
func patSegs(p string) string {
	if !strings.HasPrefix(p, "/") {
		die("pattern %q does not start with /", p)
	}
	if strings.HasSuffix(p, "/") {
		die("pattern %q ends with / (strict-slash semantics of such templates are not modelled)", p)
	}
	parts := strings.Split(p[1:], "/")
	var out []string
	for i, s := range parts {
		switch {
		case s == "":
			die("pattern %q has an empty segment", p)
		case !strings.ContainsAny(s, "{}"):
			out = append(out, ".lit "+q(s))
		case strings.HasPrefix(s, "{") && strings.HasSuffix(s, "}") && strings.Count(s, "{") == 1 && strings.Count(s, "}") == 1:
			in := s[1 : len(s)-1]
			nv := strings.SplitN(in, ":", 2)
			if len(nv) == 1 {
				out = append(out, ".var "+q(nv[0]))
				continue
			}
			re := nv[1]
			if re == ".*" {
				if i != len(parts)-1 {
					die("pattern %q: {..:.*} not in last position", p)
				}
				out = append(out, ".rest "+q(nv[0]))
				continue
			}
			alts := strings.Split(re, "|")
			var qa []string
			for _, a := range alts {
				if a == "" || strings.Trim(a, "abcdefghijklmnopqrstuvwxyzABCDEFGHIJKLMNOPQRSTUVWXYZ0123456789_-") != "" {
					die("pattern %q: unrecognised regular expression %q", p, re)
				}
				qa = append(qa, q(a))
			}
			out = append(out, ".alt "+q(nv[0])+" ["+strings.Join(qa, ", ")+"]")
		default:
			die("pattern %q: unrecognised segment %q", p, s)
		}
	}
	return "[" + strings.Join(out, ", ") + "]"
}

func findFunc(f *ast.File, name string, method bool) *ast.FuncDecl {
	for _, d := range f.Decls {
		fd, ok := d.(*ast.FuncDecl)
		if ok && fd.Name.Name == name && (fd.Recv != nil) == method {
			return fd
		}
	}
	return nil
}

func extractRoutes(f *ast.File) []route {
	fd := findFunc(f, "routes", true)
	if fd == nil {
		die("method routes() not found")
	}
	if len(fd.Body.List) != 1 {
		die("routes(): expected a single return statement")
	}
	ret, ok := fd.Body.List[0].(*ast.ReturnStmt)
	if !ok || len(ret.Results) != 1 {
		die("routes(): expected `return []route{...}`")
	}
	cl, ok := ret.Results[0].(*ast.CompositeLit)
	if !ok {
		die("routes(): result is not a composite literal")
	}
	at, ok := cl.Type.(*ast.ArrayType)
	if !ok || at.Len != nil {
		die("routes(): result is not a slice literal")
	}
	if id, ok := at.Elt.(*ast.Ident); !ok || id.Name != "route" {
		die("routes(): element type is not route")
	}
	var rs []route
	for _, e := range cl.Elts {
		el, ok := e.(*ast.CompositeLit)
		if !ok {
			die("routes(): element is not a composite literal")
		}
		var r route
		if len(el.Elts) != 4 {
			die("routes(): element with %d fields", len(el.Elts))
		}
		if _, keyed := el.Elts[0].(*ast.KeyValueExpr); keyed {
			seen := map[string]bool{}
			for _, kv := range el.Elts {
				k, ok := kv.(*ast.KeyValueExpr)
				if !ok {
					die("routes(): mixed keyed/unkeyed element")
				}
				key := k.Key.(*ast.Ident).Name
				seen[key] = true
				switch key {
				case "Name":
					r.name = strLit(k.Value)
				case "Method":
					r.method = strLit(k.Value)
				case "Pattern":
					r.pattern = strLit(k.Value)
				case "HandlerFunc":
					r.handler = apiSel(k.Value)
				default:
					die("routes(): unknown field %s", key)
				}
			}
			if len(seen) != 4 {
				die("routes(): repeated field in an element")
			}
		} else {
			r = route{strLit(el.Elts[0]), strLit(el.Elts[1]), strLit(el.Elts[2]), apiSel(el.Elts[3])}
		}
		rs = append(rs, r)
	}
	return rs
}

// render an expression compactly (only the shapes we compare against)
func render(e ast.Expr) string {
	switch x := e.(type) {
	case *ast.Ident:
		return x.Name
	case *ast.SelectorExpr:
		return render(x.X) + "." + x.Sel.Name
	case *ast.CallExpr:
		var a []string
		for _, y := range x.Args {
			a = append(a, render(y))
		}
		return render(x.Fun) + "(" + strings.Join(a, ",") + ")"
	case *ast.BasicLit:
		return x.Value
	case *ast.BinaryExpr:
		return render(x.X) + x.Op.String() + render(x.Y)
	case *ast.UnaryExpr:
		return x.Op.String() + render(x.X)
	case *ast.StarExpr:
		return "*" + render(x.X)
	case *ast.CompositeLit:
		return render(x.Type) + "{…}"
	}
	return fmt.Sprintf("<%T>", e)
}

// addRoutes must be: one range over api.routes() registering
// router.Methods(route.Method).Path(route.Pattern).Name(route.Name).Handler(ochttp.WithRouteTag(http.HandlerFunc(route.HandlerFunc), ...)),
// then router.NotFoundHandler = ochttp.WithRouteTag(http.HandlerFunc(api.X), ...), then api.router = router.
func extractAddRoutes(f *ast.File) (notFound string, methodNotAllowed string) {
	fd := findFunc(f, "addRoutes", true)
	if fd == nil {
		die("method addRoutes not found")
	}
	methodNotAllowed = ""
	sawLoop := false
	for _, st := range fd.Body.List {
		switch s := st.(type) {
		case *ast.RangeStmt:
			if sawLoop {
				die("addRoutes: more than one loop")
			}
			sawLoop = true
			if render(s.X) != "api.routes()" {
				die("addRoutes: loop is not over api.routes(): %s", render(s.X))
			}
			if len(s.Body.List) != 1 {
				die("addRoutes: loop body has %d statements", len(s.Body.List))
			}
			es, ok := s.Body.List[0].(*ast.ExprStmt)
			if !ok {
				die("addRoutes: loop body is not an expression statement")
			}
			got := render(es.X)
			want := `router.Methods(route.Method).Path(route.Pattern).Name(route.Name).Handler(ochttp.WithRouteTag(http.HandlerFunc(route.HandlerFunc),"/"+route.Name))`
			if got != want {
				die("addRoutes: unrecognised registration %s", got)
			}
		case *ast.AssignStmt:
			if len(s.Lhs) != 1 || len(s.Rhs) != 1 {
				die("addRoutes: unrecognised assignment")
			}
			lhs := render(s.Lhs[0])
			switch lhs {
			case "router.NotFoundHandler", "router.MethodNotAllowedHandler":
				rhs := render(s.Rhs[0])
				const pre = "ochttp.WithRouteTag(http.HandlerFunc(api."
				if !strings.HasPrefix(rhs, pre) {
					die("addRoutes: unrecognised %s = %s", lhs, rhs)
				}
				name := rhs[len(pre):]
				name = name[:strings.Index(name, ")")]
				if lhs == "router.NotFoundHandler" {
					notFound = name
				} else {
					methodNotAllowed = name
				}
			case "api.router":
				if render(s.Rhs[0]) != "router" {
					die("addRoutes: api.router = %s", render(s.Rhs[0]))
				}
			default:
				die("addRoutes: unrecognised assignment to %s", lhs)
			}
		default:
			die("addRoutes: unrecognised statement %T", st)
		}
	}
	if !sawLoop {
		die("addRoutes: no loop over api.routes()")
	}
	return
}

// ---- the handler chain of NewAPIWithHost, per value of cfg.Tracing ----
//
// NewAPIWithHost is executed symbolically, once with cfg.Tracing = false and once with true. Every variable
// whose value is a handler expression is tracked by name (so an intermediate handler may be given a name),
// `if cfg.Tracing {…} [else {…}]` is followed according to the run, any other conditional must not assign a
// handler variable, and the chain is what the Handler field of the http.Server literal evaluates to at the end.
// A handler expression is: the router variable, a tracked variable, basicAuthHandler(cfg.BasicAuthCredentials, h),
// cors.New(*cfg.corsOptions()).Handler(h), handlers.LoggingHandler(w, h), &ochttp.Handler{…, Handler: h, …}.
type env struct {
	vars   map[string][]string // handler-valued variables -> layers, outermost first
	router string              // name of the router variable
	server string              // name of the variable holding the http.Server
	strict bool
}

// layers evaluates a handler expression; ok=false when the expression is not one.
func (ev *env) layers(e ast.Expr) (l []string, ok bool) {
	switch x := e.(type) {
	case *ast.ParenExpr:
		return ev.layers(x.X)
	case *ast.Ident:
		if x.Name == ev.router && ev.router != "" {
			return []string{"router"}, true
		}
		if v, found := ev.vars[x.Name]; found {
			return append([]string{}, v...), true
		}
		return nil, false
	case *ast.CallExpr:
		fn := render(x.Fun)
		switch {
		case fn == "basicAuthHandler":
			if len(x.Args) != 2 || render(x.Args[0]) != "cfg.BasicAuthCredentials" {
				die("basicAuthHandler: unrecognised arguments %s", render(x))
			}
			in, ok := ev.layers(x.Args[1])
			if !ok {
				die("basicAuthHandler wraps something that is not a handler expression: %s", render(x.Args[1]))
			}
			return append([]string{"basicAuth"}, in...), true
		case fn == "cors.New(*cfg.corsOptions()).Handler":
			if len(x.Args) != 1 {
				die("cors Handler: arguments")
			}
			in, ok := ev.layers(x.Args[0])
			if !ok {
				die("cors Handler wraps something that is not a handler expression: %s", render(x.Args[0]))
			}
			return append([]string{"cors"}, in...), true
		case fn == "handlers.LoggingHandler":
			if len(x.Args) != 2 {
				die("LoggingHandler: arguments")
			}
			in, ok := ev.layers(x.Args[1])
			if !ok {
				die("LoggingHandler wraps something that is not a handler expression: %s", render(x.Args[1]))
			}
			return append([]string{"logging"}, in...), true
		}
		return nil, false
	case *ast.UnaryExpr:
		if x.Op == token.AND {
			if cl, ok := x.X.(*ast.CompositeLit); ok && render(cl.Type) == "ochttp.Handler" {
				for _, el := range cl.Elts {
					kv := el.(*ast.KeyValueExpr)
					if render(kv.Key) == "Handler" {
						in, ok := ev.layers(kv.Value)
						if !ok {
							die("ochttp.Handler wraps something that is not a handler expression: %s", render(kv.Value))
						}
						return append([]string{"ochttp"}, in...), true
					}
				}
				die("ochttp.Handler literal without Handler field")
			}
		}
		return nil, false
	}
	return nil, false
}

// mentionsHandler: does the expression mention the router or a tracked handler variable?
func (ev *env) mentionsHandler(e ast.Expr) bool {
	found := false
	ast.Inspect(e, func(n ast.Node) bool {
		if id, ok := n.(*ast.Ident); ok {
			if _, tracked := ev.vars[id.Name]; tracked || (id.Name == ev.router && ev.router != "") {
				found = true
			}
		}
		return true
	})
	return found
}

// exec runs a statement list for one value of cfg.Tracing; returns the chain of the http.Server literal if seen.
func (ev *env) exec(list []ast.Stmt, tracing bool, top bool, chain *[]string, routesAdded *bool) {
	for _, st := range list {
		switch s := st.(type) {
		case *ast.AssignStmt:
			if len(s.Lhs) != len(s.Rhs) {
				// multi-value call (x, err := f()): must not bind a handler variable
				for _, l := range s.Lhs {
					if _, tracked := ev.vars[render(l)]; tracked || render(l) == ev.router {
						die("handler variable %s assigned from a multi-value expression", render(l))
					}
				}
				continue
			}
			for i := range s.Lhs {
				name := render(s.Lhs[i])
				rhs := s.Rhs[i]
				r := render(rhs)
				switch {
				case strings.HasPrefix(r, "mux.NewRouter()"):
					switch r {
					case "mux.NewRouter().StrictSlash(true)":
						ev.strict = true
					case "mux.NewRouter()", "mux.NewRouter().StrictSlash(false)":
						ev.strict = false
					default:
						die("unrecognised router construction %s", r)
					}
					if ev.router != "" && ev.router != name {
						die("a second router %s", name)
					}
					ev.router = name
					continue
				}
				if u, ok := rhs.(*ast.UnaryExpr); ok && u.Op == token.AND {
					if cl, ok := u.X.(*ast.CompositeLit); ok && render(cl.Type) == "http.Server" {
						if !top {
							die("http.Server built inside a conditional")
						}
						if *chain != nil {
							die("a second http.Server literal")
						}
						for _, el := range cl.Elts {
							kv := el.(*ast.KeyValueExpr)
							if render(kv.Key) == "Handler" {
								l, ok := ev.layers(kv.Value)
								if !ok {
									die("http.Server Handler is not a handler expression: %s", render(kv.Value))
								}
								*chain = l
							}
						}
						if *chain == nil {
							die("http.Server literal without Handler")
						}
						ev.server = name
						continue
					}
				}
				if l, ok := ev.layers(rhs); ok {
					ev.vars[name] = l
					continue
				}
				if _, tracked := ev.vars[name]; tracked || name == ev.router {
					die("handler variable %s assigned something that is not a handler expression: %s", name, r)
				}
				if ev.mentionsHandler(rhs) {
					die("a handler is used in an expression the translator does not know: %s", r)
				}
			}
		case *ast.IfStmt:
			cond := render(s.Cond)
			switch cond {
			case "cfg.Tracing", "!cfg.Tracing":
				if s.Init != nil {
					die("if with init on cfg.Tracing")
				}
				takeBody := tracing == (cond == "cfg.Tracing")
				if takeBody {
					ev.exec(s.Body.List, tracing, false, chain, routesAdded)
				} else if s.Else != nil {
					blk, ok := s.Else.(*ast.BlockStmt)
					if !ok {
						die("else-if on cfg.Tracing")
					}
					ev.exec(blk.List, tracing, false, chain, routesAdded)
				}
			default:
				// any other conditional must not assign a handler variable, the router or a Handler field
				ast.Inspect(s, func(n ast.Node) bool {
					if as, ok := n.(*ast.AssignStmt); ok {
						for _, l := range as.Lhs {
							name := render(l)
							if _, tracked := ev.vars[name]; tracked || name == ev.router || strings.HasSuffix(name, ".Handler") {
								die("conditional (%s) assignment to %s", cond, name)
							}
						}
						for _, r := range as.Rhs {
							if _, ok := ev.layers(r); ok {
								die("conditional (%s) construction of a handler: %s", cond, render(r))
							}
						}
					}
					return true
				})
			}
		case *ast.ExprStmt:
			if ce, ok := s.X.(*ast.CallExpr); ok && render(ce.Fun) == "api.addRoutes" {
				if len(ce.Args) != 1 || render(ce.Args[0]) != ev.router {
					die("api.addRoutes is not given the router")
				}
				if !top {
					die("api.addRoutes called inside a conditional")
				}
				*routesAdded = true
			}
		case *ast.ForStmt, *ast.RangeStmt, *ast.SwitchStmt, *ast.TypeSwitchStmt, *ast.SelectStmt, *ast.GoStmt, *ast.DeferStmt:
			ast.Inspect(s, func(n ast.Node) bool {
				if as, ok := n.(*ast.AssignStmt); ok {
					for _, l := range as.Lhs {
						name := render(l)
						if _, tracked := ev.vars[name]; tracked || name == ev.router || strings.HasSuffix(name, ".Handler") {
							die("assignment to %s inside a loop / switch / goroutine", name)
						}
					}
				}
				return true
			})
		}
	}
}

// what serves which listener (filled by extractChain)
var (
	serveSites     [][3]string
	serverLiterals int
	routerValues   int
	serverWrites   int
	listenerBinds  [][3]string // (function, listener field, constructor)
	runStarts      [][2]string // (listener field guarding / ranged over in run, function started)
)

// extractListeners: where the listener fields of API get their value (setupHTTP / setupLibp2p) and which serving
// function `run` starts for which of them.
func extractListeners(f *ast.File) {
	for _, d := range f.Decls {
		fd, ok := d.(*ast.FuncDecl)
		if !ok || fd.Body == nil {
			continue
		}
		ast.Inspect(fd.Body, func(n ast.Node) bool {
			as, ok := n.(*ast.AssignStmt)
			if !ok || len(as.Lhs) != 1 || len(as.Rhs) != 1 {
				return true
			}
			lhs := render(as.Lhs[0])
			if lhs != "api.httpListeners" && lhs != "api.libp2pListener" {
				return true
			}
			// the value is a local bound by <pkg>.Listen(...) calls in the same function
			val := as.Rhs[0]
			if ce, ok := val.(*ast.CallExpr); ok && render(ce.Fun) == "append" && len(ce.Args) == 2 && render(ce.Args[0]) == lhs {
				val = ce.Args[1]
			}
			id, ok := val.(*ast.Ident)
			if !ok {
				die("%s: %s is given a value the translator does not know: %s", fd.Name.Name, lhs, render(as.Rhs[0]))
			}
			var ctors []string
			ast.Inspect(fd.Body, func(m ast.Node) bool {
				if bs, ok := m.(*ast.AssignStmt); ok && len(bs.Rhs) == 1 && len(bs.Lhs) >= 1 && render(bs.Lhs[0]) == id.Name {
					if ce, ok := bs.Rhs[0].(*ast.CallExpr); ok {
						ctors = append(ctors, render(ce.Fun))
					} else {
						die("%s: listener %s bound to %s", fd.Name.Name, id.Name, render(bs.Rhs[0]))
					}
				}
				return true
			})
			if len(ctors) == 0 {
				die("%s: no constructor for listener %s", fd.Name.Name, id.Name)
			}
			listenerBinds = append(listenerBinds, [3]string{fd.Name.Name, lhs, strings.Join(ctors, "|")})
			return true
		})
	}
	run := findFunc(f, "run", true)
	if run == nil {
		die("(*API).run not found")
	}
	started := func(body *ast.BlockStmt) string {
		name := ""
		ast.Inspect(body, func(n ast.Node) bool {
			if ce, ok := n.(*ast.CallExpr); ok {
				if fn := render(ce.Fun); strings.HasPrefix(fn, "api.run") {
					if name != "" {
						die("run: two serving functions started in one arm")
					}
					name = strings.TrimPrefix(fn, "api.")
				}
			}
			return true
		})
		return name
	}
	for _, st := range run.Body.List {
		switch s := st.(type) {
		case *ast.RangeStmt:
			runStarts = append(runStarts, [2]string{render(s.X), started(s.Body)})
		case *ast.IfStmt:
			c := strings.ReplaceAll(render(s.Cond), " ", "")
			if !strings.HasSuffix(c, "!=nil") || s.Else != nil {
				die("run: unrecognised condition %s", c)
			}
			runStarts = append(runStarts, [2]string{strings.TrimSuffix(c, "!=nil"), started(s.Body)})
		case *ast.ExprStmt:
			if fn := render(s.X.(*ast.CallExpr).Fun); fn != "api.wg.Add" {
				die("run: unrecognised statement %s", render(s.X))
			}
		default:
			die("run: unrecognised statement")
		}
	}
}

// extractChain: the chain served for cfg.Tracing = false and = true.
func extractChain(f *ast.File) (plain, tracing []string, strict bool) {
	fd := findFunc(f, "NewAPIWithHost", false)
	if fd == nil {
		die("NewAPIWithHost not found")
	}
	run := func(tr bool) ([]string, bool) {
		ev := &env{vars: map[string][]string{}}
		var chain []string
		added := false
		ev.exec(fd.Body.List, tr, true, &chain, &added)
		if chain == nil {
			die("http.Server Handler not found (Tracing=%v)", tr)
		}
		if !added {
			die("api.addRoutes(router) not called in NewAPIWithHost")
		}
		if chain[len(chain)-1] != "router" {
			die("the chain does not end at the router (Tracing=%v): %v", tr, chain)
		}
		// the API object must hold exactly this server
		held := false
		ast.Inspect(fd, func(n ast.Node) bool {
			if cl, ok := n.(*ast.CompositeLit); ok && render(cl.Type) == "API" {
				for _, el := range cl.Elts {
					if kv, ok := el.(*ast.KeyValueExpr); ok && render(kv.Key) == "server" {
						if render(kv.Value) != ev.server {
							die("API.server is %s, not the http.Server built with the chain (%s)", render(kv.Value), ev.server)
						}
						held = true
					}
				}
			}
			return true
		})
		if !held {
			die("the API literal does not set server")
		}
		return chain, ev.strict
	}
	plain, strict = run(false)
	tracing, _ = run(true)
	// the server built here is the one both listeners serve, and its Handler is assigned nowhere else
	ast.Inspect(f, func(n ast.Node) bool {
		if as, ok := n.(*ast.AssignStmt); ok {
			for _, l := range as.Lhs {
				r := render(l)
				if strings.HasSuffix(r, "server.Handler") || r == "s.Handler" {
					die("assignment to %s", r)
				}
			}
		}
		return true
	})
	// every call that serves a listener: (enclosing function, server expression, listener expression)
	for _, d := range f.Decls {
		fd, ok := d.(*ast.FuncDecl)
		if !ok || fd.Body == nil {
			continue
		}
		ast.Inspect(fd.Body, func(n ast.Node) bool {
			if ce, ok := n.(*ast.CallExpr); ok {
				fn := render(ce.Fun)
				if strings.HasSuffix(fn, ".Serve") || strings.HasSuffix(fn, ".ServeTLS") || fn == "http.Serve" || fn == "http.ListenAndServe" || fn == "http.ListenAndServeTLS" {
					if fn != "api.server.Serve" {
						die("something other than api.server serves: %s", fn)
					}
					if len(ce.Args) != 1 {
						die("api.server.Serve: arguments")
					}
					serveSites = append(serveSites, [3]string{fd.Name.Name, "api.server", render(ce.Args[0])})
				}
			}
			return true
		})
	}
	if len(serveSites) == 0 {
		die("api.server.Serve is never called")
	}
	// http.Server / mux router values built anywhere in the file, and writes to the server field after construction
	ast.Inspect(f, func(n ast.Node) bool {
		switch x := n.(type) {
		case *ast.CompositeLit:
			if render(x.Type) == "http.Server" {
				serverLiterals++
			}
		case *ast.CallExpr:
			if render(x.Fun) == "mux.NewRouter" {
				routerValues++
			}
		case *ast.AssignStmt:
			for _, l := range x.Lhs {
				if r := render(l); r == "api.server" || strings.HasSuffix(r, ".server") {
					serverWrites++
				}
			}
		}
		return true
	})
	extractListeners(f)
	return plain, tracing, strict
}

// RPC calls and helper uses of one function body
type finfo struct {
	calls   []string // "Svc.Method" in source order
	helpers []string // parseCidOrError, parsePinPathOrError, parsePidOrError, other api.* calls of interest
}

func inspectFunc(fd *ast.FuncDecl) finfo {
	var fi finfo
	ast.Inspect(fd.Body, func(n ast.Node) bool {
		ce, ok := n.(*ast.CallExpr)
		if !ok {
			return true
		}
		fn := render(ce.Fun)
		switch {
		case strings.HasSuffix(fn, "rpcClient.CallContext") || strings.HasSuffix(fn, "rpcClient.Call"):
			off := 0
			if strings.HasSuffix(fn, "CallContext") {
				off = 1
			}
			if len(ce.Args) < off+3 {
				die("%s: CallContext with %d args", fd.Name.Name, len(ce.Args))
			}
			if d := render(ce.Args[off]); d != `""` {
				die("%s: RPC destination is %s, not \"\"", fd.Name.Name, d)
			}
			fi.calls = append(fi.calls, strLit(ce.Args[off+1])+"."+strLit(ce.Args[off+2]))
		case strings.Contains(fn, "rpcClient."):
			die("%s: unrecognised rpcClient use %s", fd.Name.Name, fn)
		case strings.HasPrefix(fn, "api.parse"):
			fi.helpers = append(fi.helpers, strings.TrimPrefix(fn, "api."))
		case fn == "adderutils.AddMultipartHTTPHandler":
			fi.helpers = append(fi.helpers, "AddMultipartHTTPHandler")
		case fn == "types.AddParamsFromQuery":
			fi.helpers = append(fi.helpers, "AddParamsFromQuery")
		}
		return true
	})
	return fi
}


// ---- basicAuthHandler: the decision logic ----
//
// Recognised shape (anything else is an error):
//
//	func basicAuthHandler(credentials map[string]string, h http.Handler) http.Handler {
//		if credentials == nil { return h }
//		wrap := func(w http.ResponseWriter, r *http.Request) {
//			w.Header().Set(...)
//			username, password, ok := r.BasicAuth()
//			if !ok { <refusal> }
//			authorized := false
//			for u, p := range credentials { if <cond over u==username, p==password, &&, ||> { authorized = true } }
//			if !authorized { <refusal> }
//			h.ServeHTTP(w, r)
//		}
//		return http.HandlerFunc(wrap)
//	}
//
// <refusal> = resp, err := unauthorizedResp(); if err != nil { logger.Error(err); return }; http.Error(w, resp, http.StatusXxx); return

type authLogic struct {
	nilPass    bool
	okChecked  bool
	cond       string
	noHeader   int
	mismatch   int
}

var statusCodes = map[string]int{"http.StatusUnauthorized": 401, "http.StatusForbidden": 403}

func refusalStatus(b *ast.BlockStmt, where string) int {
	if len(b.List) != 4 {
		die("basicAuthHandler: %s: refusal block has %d statements", where, len(b.List))
	}
	as, ok := b.List[0].(*ast.AssignStmt)
	if !ok || len(as.Lhs) != 2 || render(as.Lhs[0]) != "resp" || render(as.Lhs[1]) != "err" || render(as.Rhs[0]) != "unauthorizedResp()" {
		die("basicAuthHandler: %s: refusal does not start with resp, err := unauthorizedResp()", where)
	}
	ifs, ok := b.List[1].(*ast.IfStmt)
	if !ok || render(ifs.Cond) != "err!=nil" || ifs.Else != nil || len(ifs.Body.List) != 2 || render(ifs.Body.List[0].(*ast.ExprStmt).X) != "logger.Error(err)" {
		die("basicAuthHandler: %s: unrecognised error branch in the refusal", where)
	}
	if _, ok := ifs.Body.List[1].(*ast.ReturnStmt); !ok {
		die("basicAuthHandler: %s: error branch does not return", where)
	}
	es, ok := b.List[2].(*ast.ExprStmt)
	if !ok {
		die("basicAuthHandler: %s: refusal does not call http.Error", where)
	}
	ce, ok := es.X.(*ast.CallExpr)
	if !ok || render(ce.Fun) != "http.Error" || len(ce.Args) != 3 || render(ce.Args[0]) != "w" || render(ce.Args[1]) != "resp" {
		die("basicAuthHandler: %s: refusal does not call http.Error(w, resp, status)", where)
	}
	code, ok := statusCodes[render(ce.Args[2])]
	if !ok {
		die("basicAuthHandler: %s: unrecognised refusal status %s", where, render(ce.Args[2]))
	}
	if _, ok := b.List[3].(*ast.ReturnStmt); !ok {
		die("basicAuthHandler: %s: refusal does not return", where)
	}
	return code
}

// authCond renders the loop condition as a Lean AuthCond term.
func authCond(e ast.Expr, key, val string) string {
	switch x := e.(type) {
	case *ast.ParenExpr:
		return authCond(x.X, key, val)
	case *ast.BinaryExpr:
		switch x.Op {
		case token.LAND:
			return "(.and " + authCond(x.X, key, val) + " " + authCond(x.Y, key, val) + ")"
		case token.LOR:
			return "(.or " + authCond(x.X, key, val) + " " + authCond(x.Y, key, val) + ")"
		case token.EQL:
			a, b := render(x.X), render(x.Y)
			switch {
			case a == key && b == "username", a == "username" && b == key:
				return "(.atom .userEq)"
			case a == val && b == "password", a == "password" && b == val:
				return "(.atom .passEq)"
			}
			die("basicAuthHandler: unrecognised comparison %s == %s", a, b)
		}
	}
	die("basicAuthHandler: unrecognised condition %s", render(e))
	return ""
}

func extractAuth(f *ast.File) authLogic {
	fd := findFunc(f, "basicAuthHandler", false)
	if fd == nil {
		die("basicAuthHandler not found")
	}
	var al authLogic
	if len(fd.Type.Params.List) != 2 || render(fd.Type.Params.List[0].Names[0]) != "credentials" || render(fd.Type.Params.List[1].Names[0]) != "h" {
		die("basicAuthHandler: unrecognised parameters")
	}
	if mt, ok := fd.Type.Params.List[0].Type.(*ast.MapType); !ok || render(mt.Key) != "string" || render(mt.Value) != "string" {
		die("basicAuthHandler: credentials is not a map[string]string")
	}
	body := fd.Body.List
	if len(body) != 3 {
		die("basicAuthHandler: %d top-level statements", len(body))
	}
	ifs, ok := body[0].(*ast.IfStmt)
	if !ok || render(ifs.Cond) != "credentials==nil" || ifs.Else != nil || len(ifs.Body.List) != 1 {
		die("basicAuthHandler: does not start with `if credentials == nil { return h }`")
	}
	if rs, ok := ifs.Body.List[0].(*ast.ReturnStmt); !ok || len(rs.Results) != 1 || render(rs.Results[0]) != "h" {
		die("basicAuthHandler: nil credentials do not return h")
	}
	al.nilPass = true
	as, ok := body[1].(*ast.AssignStmt)
	if !ok || render(as.Lhs[0]) != "wrap" {
		die("basicAuthHandler: second statement is not wrap := func…")
	}
	fl, ok := as.Rhs[0].(*ast.FuncLit)
	if !ok {
		die("basicAuthHandler: wrap is not a function literal")
	}
	if rs, ok := body[2].(*ast.ReturnStmt); !ok || render(rs.Results[0]) != "http.HandlerFunc(wrap)" {
		die("basicAuthHandler: does not return http.HandlerFunc(wrap)")
	}
	st := fl.Body.List
	if len(st) != 7 {
		die("basicAuthHandler: wrap has %d statements, expected 7", len(st))
	}
	if es, ok := st[0].(*ast.ExprStmt); !ok || !strings.HasPrefix(render(es.X), "w.Header().Set(") {
		die("basicAuthHandler: wrap[0] is not w.Header().Set(…)")
	}
	ba, ok := st[1].(*ast.AssignStmt)
	if !ok || len(ba.Lhs) != 3 || render(ba.Lhs[0]) != "username" || render(ba.Lhs[1]) != "password" || render(ba.Lhs[2]) != "ok" || render(ba.Rhs[0]) != "r.BasicAuth()" {
		die("basicAuthHandler: wrap[1] is not username, password, ok := r.BasicAuth()")
	}
	okIf, ok := st[2].(*ast.IfStmt)
	if !ok || render(okIf.Cond) != "!ok" || okIf.Else != nil {
		die("basicAuthHandler: wrap[2] is not `if !ok {…}`")
	}
	al.okChecked = true
	al.noHeader = refusalStatus(okIf.Body, "if !ok")
	az, ok := st[3].(*ast.AssignStmt)
	if !ok || render(az.Lhs[0]) != "authorized" || render(az.Rhs[0]) != "false" {
		die("basicAuthHandler: wrap[3] is not authorized := false")
	}
	rg, ok := st[4].(*ast.RangeStmt)
	if !ok || render(rg.X) != "credentials" || rg.Key == nil || rg.Value == nil {
		die("basicAuthHandler: wrap[4] is not `for u, p := range credentials`")
	}
	key, val := render(rg.Key), render(rg.Value)
	if len(rg.Body.List) != 1 {
		die("basicAuthHandler: loop body has %d statements", len(rg.Body.List))
	}
	li, ok := rg.Body.List[0].(*ast.IfStmt)
	if !ok || li.Else != nil || li.Init != nil || len(li.Body.List) != 1 {
		die("basicAuthHandler: loop body is not a single if")
	}
	if set, ok := li.Body.List[0].(*ast.AssignStmt); !ok || render(set.Lhs[0]) != "authorized" || render(set.Rhs[0]) != "true" || set.Tok != token.ASSIGN {
		die("basicAuthHandler: the loop does something other than authorized = true")
	}
	al.cond = authCond(li.Cond, key, val)
	na, ok := st[5].(*ast.IfStmt)
	if !ok || render(na.Cond) != "!authorized" || na.Else != nil {
		die("basicAuthHandler: wrap[5] is not `if !authorized {…}`")
	}
	al.mismatch = refusalStatus(na.Body, "if !authorized")
	if es, ok := st[6].(*ast.ExprStmt); !ok || render(es.X) != "h.ServeHTTP(w,r)" {
		die("basicAuthHandler: wrap does not end with h.ServeHTTP(w, r)")
	}
	// the wrapped handler is served nowhere else
	n := 0
	ast.Inspect(fd, func(x ast.Node) bool {
		if ce, ok := x.(*ast.CallExpr); ok && strings.HasSuffix(render(ce.Fun), ".ServeHTTP") {
			n++
		}
		return true
	})
	if n != 1 {
		die("basicAuthHandler: %d ServeHTTP calls", n)
	}
	return al
}

// refusalOnly: the body of notFoundHandler / methodNotAllowedHandler must be the single statement
// api.sendResponse(w, http.StatusXxx, errors.New("…"), nil); returns the status.
var httpStatus = map[string]int{"http.StatusNotFound": 404, "http.StatusMethodNotAllowed": 405, "http.StatusBadRequest": 400}

func refusalOnly(f *ast.File, name string) int {
	fd := findFunc(f, name, true)
	if fd == nil {
		die("handler function %s not found", name)
	}
	if len(fd.Body.List) != 1 {
		die("%s: %d statements, expected the single sendResponse", name, len(fd.Body.List))
	}
	es, ok := fd.Body.List[0].(*ast.ExprStmt)
	if !ok {
		die("%s: not an expression statement", name)
	}
	ce, ok := es.X.(*ast.CallExpr)
	if !ok || render(ce.Fun) != "api.sendResponse" || len(ce.Args) != 4 || render(ce.Args[0]) != "w" || render(ce.Args[3]) != "nil" ||
		!strings.HasPrefix(render(ce.Args[2]), "errors.New(") {
		die("%s: not api.sendResponse(w, status, errors.New(…), nil)", name)
	}
	st, ok := httpStatus[render(ce.Args[1])]
	if !ok {
		die("%s: unrecognised status %s", name, render(ce.Args[1]))
	}
	return st
}

func leanList(l []string) string {
	qs := make([]string, len(l))
	for i, s := range l {
		qs[i] = q(s)
	}
	return "[" + strings.Join(qs, ", ") + "]"
}

func main() {
	repo := os.Getenv("VERIF_REPO")
	if repo == "" {
		repo = "/repo"
	}
	src := filepath.Join(repo, "api/rest/restapi.go")
	fset := token.NewFileSet()
	f, err := parser.ParseFile(fset, src, nil, 0)
	if err != nil {
		die("parse %s: %v", src, err)
	}
	rs := extractRoutes(f)
	notFound, mna := extractAddRoutes(f)
	plain, tracing, strict := extractChain(f)
	al := extractAuth(f)

	// handlers
	names := map[string]bool{}
	for _, r := range rs {
		names[r.handler] = true
	}
	if notFound != "" {
		names[notFound] = true
	}
	if mna != "" {
		names[mna] = true
	}
	var hn []string
	for n := range names {
		hn = append(hn, n)
	}
	sort.Strings(hn)

	var b strings.Builder
	b.WriteString("import ClusterVerif.Model.C11\n")
	b.WriteString("/-! GENERATED by harness/extract_c11 from api/rest/restapi.go (routes(), addRoutes, NewAPIWithHost, handler bodies). Do not edit. -/\n")
	b.WriteString("namespace CV.C11.Gen\nopen CV.C11\n\n")
	b.WriteString("def routes : List Route := [\n")
	for i, r := range rs {
		sep := ","
		if i == len(rs)-1 {
			sep = ""
		}
		fmt.Fprintf(&b, "  { name := %s, method := %s, pattern := %s, pat := %s, handler := %s }%s\n",
			q(r.name), q(r.method), q(r.pattern), patSegs(r.pattern), q(r.handler), sep)
	}
	b.WriteString("]\n\n")
	fmt.Fprintf(&b, "def strictSlash : Bool := %v\n", strict)
	fmt.Fprintf(&b, "def notFoundHandler : String := %s\n", q(notFound))
	if mna == "" {
		b.WriteString("def methodNotAllowedHandler : Option String := none\n")
	} else {
		fmt.Fprintf(&b, "def methodNotAllowedHandler : Option String := some %s\n", q(mna))
	}
	if notFound == "" {
		die("no NotFoundHandler installed")
	}
	fmt.Fprintf(&b, "def notFoundStatus : Nat := %d\n", refusalOnly(f, notFound))
	if mna == "" {
		b.WriteString("def methodNotAllowedStatus : Option Nat := none\n")
	} else {
		fmt.Fprintf(&b, "def methodNotAllowedStatus : Option Nat := some %d\n", refusalOnly(f, mna))
	}
	b.WriteString("/-- handler wrapping order of NewAPIWithHost, outermost first, for cfg.Tracing = false / true -/\n")
	fmt.Fprintf(&b, "def chain : Bool → List Layer\n  | false => %s\n  | true => %s\n\n", leanList(plain), leanList(tracing))
	triples := func(l [][3]string) string {
		var o []string
		for _, t := range l {
			o = append(o, fmt.Sprintf("(%s, %s, %s)", q(t[0]), q(t[1]), q(t[2])))
		}
		return "[" + strings.Join(o, ", ") + "]"
	}
	b.WriteString("/-- every call serving a listener: (function, server value, listener expression) -/\n")
	fmt.Fprintf(&b, "def serveSites : List (String × String × String) := %s\n", triples(serveSites))
	b.WriteString("/-- http.Server literals / mux.NewRouter() calls / assignments to a `server` field in restapi.go -/\n")
	fmt.Fprintf(&b, "def serverLiterals : Nat := %d\ndef routerValues : Nat := %d\ndef serverWrites : Nat := %d\n", serverLiterals, routerValues, serverWrites)
	b.WriteString("/-- where the listener fields get their value: (function, field, constructors) -/\n")
	fmt.Fprintf(&b, "def listenerBinds : List (String × String × String) := %s\n", triples(listenerBinds))
	b.WriteString("/-- (*API).run: the serving function started for each listener field -/\n")
	var rsl []string
	for _, t := range runStarts {
		rsl = append(rsl, fmt.Sprintf("(%s, %s)", q(t[0]), q(t[1])))
	}
	fmt.Fprintf(&b, "def runStarts : List (String × String) := [%s]\n\n", strings.Join(rsl, ", "))
	b.WriteString("/-- the decision logic of basicAuthHandler -/\n")
	fmt.Fprintf(&b, "def authLogic : AuthLogic :=\n  { nilPassThrough := %v, okChecked := %v, cond := %s, noHeaderStatus := %d, mismatchStatus := %d }\n\n",
		al.nilPass, al.okChecked, al.cond, al.noHeader, al.mismatch)
	b.WriteString("/-- per handler function: the (\"Service.Method\") RPC calls in its body (source order) and the parse helpers it calls -/\n")
	b.WriteString("def handlerInfo : List (String × List String × List String) := [\n")
	for i, n := range hn {
		fd := findFunc(f, n, true)
		if fd == nil {
			die("handler function %s not found", n)
		}
		fi := inspectFunc(fd)
		sep := ","
		if i == len(hn)-1 {
			sep = ""
		}
		fmt.Fprintf(&b, "  (%s, %s, %s)%s\n", q(n), leanList(fi.calls), leanList(fi.helpers), sep)
	}
	b.WriteString("]\n\n")
	// the parse helpers must not call RPC themselves
	for _, h := range []string{"parseCidOrError", "parsePinPathOrError", "parsePidOrError", "sendResponse", "setHeaders", "basicAuthHandler"} {
		fd := findFunc(f, h, h != "basicAuthHandler")
		if fd == nil {
			die("helper %s not found", h)
		}
		if fi := inspectFunc(fd); len(fi.calls) != 0 {
			die("helper %s performs RPC calls %v", h, fi.calls)
		}
	}
	b.WriteString("end CV.C11.Gen\n")
	fmt.Print(b.String())
}
