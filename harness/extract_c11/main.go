// extract_c11: translator for property C11. Reads api/rest/restapi.go of the
// repository under $VERIF_REPO (default /repo) with go/ast and prints, as a Lean
// file (lean/ClusterVerif/Gen/C11.lean):
//
//   - the routes() table: name, method, pattern (also pre-split into pattern
//     segments), handler function;
//   - how addRoutes registers it (shape, NotFoundHandler, MethodNotAllowedHandler,
//     StrictSlash);
//   - the handler wrapping order built in NewAPIWithHost (outermost first), with
//     tracing off and on;
//   - for every handler function named in the table (and the helpers
//     parse*OrError it calls) the ("Service","Method") string pairs of its
//     rpcClient.CallContext calls, and which parse helper it uses.
//
// Every shape that is not recognised is an error (exit 1): fail closed.
package main

import (
	"fmt"
	"go/ast"
	"go/parser"
	"go/token"
	"os"
	"path/filepath"
	"sort"
	"strconv"
	"strings"
)

func die(format string, a ...interface{}) {
	fmt.Fprintf(os.Stderr, "extract_c11: "+format+"\n", a...)
	os.Exit(1)
}

func q(s string) string { return strconv.Quote(s) }

type route struct{ name, method, pattern, handler string }

func strLit(e ast.Expr) string {
	b, ok := e.(*ast.BasicLit)
	if !ok || b.Kind != token.STRING {
		die("expected a string literal, got %T", e)
	}
	s, err := strconv.Unquote(b.Value)
	if err != nil {
		die("bad string literal %s", b.Value)
	}
	return s
}

func apiSel(e ast.Expr) string {
	s, ok := e.(*ast.SelectorExpr)
	if !ok {
		die("handler is not a selector api.X: %T", e)
	}
	id, ok := s.X.(*ast.Ident)
	if !ok || id.Name != "api" {
		die("handler is not api.X")
	}
	return s.Sel.Name
}

// pattern segment as a Lean term
func patSegs(p string) string {
	if !strings.HasPrefix(p, "/") {
		die("pattern %q does not start with /", p)
	}
	if strings.HasSuffix(p, "/") {
		die("pattern %q ends with / (strict-slash semantics of such templates are not modelled)", p)
	}
	parts := strings.Split(p[1:], "/")
	var out []string
	for i, s := range parts {
		switch {
		case s == "":
			die("pattern %q has an empty segment", p)
		case !strings.ContainsAny(s, "{}"):
			out = append(out, ".lit "+q(s))
		case strings.HasPrefix(s, "{") && strings.HasSuffix(s, "}") && strings.Count(s, "{") == 1 && strings.Count(s, "}") == 1:
			in := s[1 : len(s)-1]
			nv := strings.SplitN(in, ":", 2)
			if len(nv) == 1 {
				out = append(out, ".var "+q(nv[0]))
				continue
			}
			re := nv[1]
			if re == ".*" {
				if i != len(parts)-1 {
					die("pattern %q: {..:.*} not in last position", p)
				}
				out = append(out, ".rest "+q(nv[0]))
				continue
			}
			alts := strings.Split(re, "|")
			var qa []string
			for _, a := range alts {
				if a == "" || strings.Trim(a, "abcdefghijklmnopqrstuvwxyzABCDEFGHIJKLMNOPQRSTUVWXYZ0123456789_-") != "" {
					die("pattern %q: unrecognised regular expression %q", p, re)
				}
				qa = append(qa, q(a))
			}
			out = append(out, ".alt "+q(nv[0])+" ["+strings.Join(qa, ", ")+"]")
		default:
			die("pattern %q: unrecognised segment %q", p, s)
		}
	}
	return "[" + strings.Join(out, ", ") + "]"
}

func findFunc(f *ast.File, name string, method bool) *ast.FuncDecl {
	for _, d := range f.Decls {
		fd, ok := d.(*ast.FuncDecl)
		if ok && fd.Name.Name == name && (fd.Recv != nil) == method {
			return fd
		}
	}
	return nil
}

func extractRoutes(f *ast.File) []route {
	fd := findFunc(f, "routes", true)
	if fd == nil {
		die("method routes() not found")
	}
	if len(fd.Body.List) != 1 {
		die("routes(): expected a single return statement")
	}
	ret, ok := fd.Body.List[0].(*ast.ReturnStmt)
	if !ok || len(ret.Results) != 1 {
		die("routes(): expected `return []route{...}`")
	}
	cl, ok := ret.Results[0].(*ast.CompositeLit)
	if !ok {
		die("routes(): result is not a composite literal")
	}
	at, ok := cl.Type.(*ast.ArrayType)
	if !ok || at.Len != nil {
		die("routes(): result is not a slice literal")
	}
	if id, ok := at.Elt.(*ast.Ident); !ok || id.Name != "route" {
		die("routes(): element type is not route")
	}
	var rs []route
	for _, e := range cl.Elts {
		el, ok := e.(*ast.CompositeLit)
		if !ok {
			die("routes(): element is not a composite literal")
		}
		var r route
		if len(el.Elts) != 4 {
			die("routes(): element with %d fields", len(el.Elts))
		}
		if _, keyed := el.Elts[0].(*ast.KeyValueExpr); keyed {
			seen := map[string]bool{}
			for _, kv := range el.Elts {
				k, ok := kv.(*ast.KeyValueExpr)
				if !ok {
					die("routes(): mixed keyed/unkeyed element")
				}
				key := k.Key.(*ast.Ident).Name
				seen[key] = true
				switch key {
				case "Name":
					r.name = strLit(k.Value)
				case "Method":
					r.method = strLit(k.Value)
				case "Pattern":
					r.pattern = strLit(k.Value)
				case "HandlerFunc":
					r.handler = apiSel(k.Value)
				default:
					die("routes(): unknown field %s", key)
				}
			}
			if len(seen) != 4 {
				die("routes(): repeated field in an element")
			}
		} else {
			r = route{strLit(el.Elts[0]), strLit(el.Elts[1]), strLit(el.Elts[2]), apiSel(el.Elts[3])}
		}
		rs = append(rs, r)
	}
	return rs
}

// render an expression compactly (only the shapes we compare against)
func render(e ast.Expr) string {
	switch x := e.(type) {
	case *ast.Ident:
		return x.Name
	case *ast.SelectorExpr:
		return render(x.X) + "." + x.Sel.Name
	case *ast.CallExpr:
		var a []string
		for _, y := range x.Args {
			a = append(a, render(y))
		}
		return render(x.Fun) + "(" + strings.Join(a, ",") + ")"
	case *ast.BasicLit:
		return x.Value
	case *ast.BinaryExpr:
		return render(x.X) + x.Op.String() + render(x.Y)
	case *ast.UnaryExpr:
		return x.Op.String() + render(x.X)
	case *ast.StarExpr:
		return "*" + render(x.X)
	case *ast.CompositeLit:
		return render(x.Type) + "{…}"
	}
	return fmt.Sprintf("<%T>", e)
}

// addRoutes must be: one range over api.routes() registering
// router.Methods(route.Method).Path(route.Pattern).Name(route.Name).Handler(ochttp.WithRouteTag(http.HandlerFunc(route.HandlerFunc), ...)),
// then router.NotFoundHandler = ochttp.WithRouteTag(http.HandlerFunc(api.X), ...), then api.router = router.
func extractAddRoutes(f *ast.File) (notFound string, methodNotAllowed string) {
	fd := findFunc(f, "addRoutes", true)
	if fd == nil {
		die("method addRoutes not found")
	}
	methodNotAllowed = ""
	sawLoop := false
	for _, st := range fd.Body.List {
		switch s := st.(type) {
		case *ast.RangeStmt:
			if sawLoop {
				die("addRoutes: more than one loop")
			}
			sawLoop = true
			if render(s.X) != "api.routes()" {
				die("addRoutes: loop is not over api.routes(): %s", render(s.X))
			}
			if len(s.Body.List) != 1 {
				die("addRoutes: loop body has %d statements", len(s.Body.List))
			}
			es, ok := s.Body.List[0].(*ast.ExprStmt)
			if !ok {
				die("addRoutes: loop body is not an expression statement")
			}
			got := render(es.X)
			want := `router.Methods(route.Method).Path(route.Pattern).Name(route.Name).Handler(ochttp.WithRouteTag(http.HandlerFunc(route.HandlerFunc),"/"+route.Name))`
			if got != want {
				die("addRoutes: unrecognised registration %s", got)
			}
		case *ast.AssignStmt:
			if len(s.Lhs) != 1 || len(s.Rhs) != 1 {
				die("addRoutes: unrecognised assignment")
			}
			lhs := render(s.Lhs[0])
			switch lhs {
			case "router.NotFoundHandler", "router.MethodNotAllowedHandler":
				rhs := render(s.Rhs[0])
				const pre = "ochttp.WithRouteTag(http.HandlerFunc(api."
				if !strings.HasPrefix(rhs, pre) {
					die("addRoutes: unrecognised %s = %s", lhs, rhs)
				}
				name := rhs[len(pre):]
				name = name[:strings.Index(name, ")")]
				if lhs == "router.NotFoundHandler" {
					notFound = name
				} else {
					methodNotAllowed = name
				}
			case "api.router":
				if render(s.Rhs[0]) != "router" {
					die("addRoutes: api.router = %s", render(s.Rhs[0]))
				}
			default:
				die("addRoutes: unrecognised assignment to %s", lhs)
			}
		default:
			die("addRoutes: unrecognised statement %T", st)
		}
	}
	if !sawLoop {
		die("addRoutes: no loop over api.routes()")
	}
	return
}

// layers of a handler expression, outermost first
type env struct {
	handler []string // current value of variable `handler`
	strict  bool
	sawRtr  bool
}

func (ev *env) layers(e ast.Expr) []string {
	switch x := e.(type) {
	case *ast.Ident:
		switch x.Name {
		case "router":
			if !ev.sawRtr {
				die("router used before its definition")
			}
			return []string{"router"}
		case "handler":
			if ev.handler == nil {
				die("handler used before its definition")
			}
			return append([]string{}, ev.handler...)
		}
		die("unrecognised handler identifier %s", x.Name)
	case *ast.CallExpr:
		fn := render(x.Fun)
		switch {
		case fn == "basicAuthHandler":
			if len(x.Args) != 2 || render(x.Args[0]) != "cfg.BasicAuthCredentials" {
				die("basicAuthHandler: unrecognised arguments %s", render(x))
			}
			return append([]string{"basicAuth"}, ev.layers(x.Args[1])...)
		case fn == "cors.New(*cfg.corsOptions()).Handler":
			if len(x.Args) != 1 {
				die("cors Handler: arguments")
			}
			return append([]string{"cors"}, ev.layers(x.Args[0])...)
		case fn == "handlers.LoggingHandler":
			if len(x.Args) != 2 {
				die("LoggingHandler: arguments")
			}
			return append([]string{"logging"}, ev.layers(x.Args[1])...)
		}
		die("unrecognised handler wrapper %s", fn)
	case *ast.UnaryExpr:
		if x.Op == token.AND {
			if cl, ok := x.X.(*ast.CompositeLit); ok && render(cl.Type) == "ochttp.Handler" {
				for _, el := range cl.Elts {
					kv := el.(*ast.KeyValueExpr)
					if render(kv.Key) == "Handler" {
						return append([]string{"ochttp"}, ev.layers(kv.Value)...)
					}
				}
				die("ochttp.Handler literal without Handler field")
			}
		}
		die("unrecognised handler expression %s", render(e))
	}
	die("unrecognised handler expression %s", render(e))
	return nil
}

// NewAPIWithHost: follow `router`, `handler`, and the http.Server literal.
func extractChain(f *ast.File) (plain, tracing []string, strict bool) {
	fd := findFunc(f, "NewAPIWithHost", false)
	if fd == nil {
		die("NewAPIWithHost not found")
	}
	ev := &env{}
	var handlerTracing []string
	serverSeen := false
	routesAdded := false
	for _, st := range fd.Body.List {
		switch s := st.(type) {
		case *ast.AssignStmt:
			if len(s.Lhs) == 1 && len(s.Rhs) == 1 {
				switch render(s.Lhs[0]) {
				case "router":
					r := render(s.Rhs[0])
					switch r {
					case "mux.NewRouter().StrictSlash(true)":
						ev.strict = true
					case "mux.NewRouter()", "mux.NewRouter().StrictSlash(false)":
						ev.strict = false
					default:
						die("unrecognised router construction %s", r)
					}
					ev.sawRtr = true
				case "handler":
					ev.handler = ev.layers(s.Rhs[0])
				case "s":
					u, ok := s.Rhs[0].(*ast.UnaryExpr)
					if !ok {
						die("s := is not &http.Server{...}")
					}
					cl, ok := u.X.(*ast.CompositeLit)
					if !ok || render(cl.Type) != "http.Server" {
						die("s := is not &http.Server{...}")
					}
					for _, el := range cl.Elts {
						kv := el.(*ast.KeyValueExpr)
						if render(kv.Key) == "Handler" {
							plain = ev.layers(kv.Value)
							if handlerTracing != nil {
								save := ev.handler
								ev.handler = handlerTracing
								tracing = ev.layers(kv.Value)
								ev.handler = save
							}
							serverSeen = true
						}
					}
				}
			}
		case *ast.IfStmt:
			if render(s.Cond) == "cfg.Tracing" {
				for _, b := range s.Body.List {
					as, ok := b.(*ast.AssignStmt)
					if !ok || len(as.Lhs) != 1 || render(as.Lhs[0]) != "handler" {
						die("if cfg.Tracing: unrecognised statement")
					}
					handlerTracing = ev.layers(as.Rhs[0])
				}
				if s.Else != nil {
					die("if cfg.Tracing has an else branch")
				}
			} else {
				// other ifs must not touch handler / router / s.Handler
				ast.Inspect(s, func(n ast.Node) bool {
					if as, ok := n.(*ast.AssignStmt); ok {
						for _, l := range as.Lhs {
							switch render(l) {
							case "handler", "router", "s.Handler", "api.server.Handler":
								die("conditional assignment to %s", render(l))
							}
						}
					}
					return true
				})
			}
		case *ast.ExprStmt:
			if render(s.X) == "api.addRoutes(router)" {
				routesAdded = true
			}
		}
	}
	// no later assignment to s.Handler anywhere in the file
	ast.Inspect(f, func(n ast.Node) bool {
		if as, ok := n.(*ast.AssignStmt); ok {
			for _, l := range as.Lhs {
				r := render(l)
				if strings.HasSuffix(r, "server.Handler") || r == "s.Handler" {
					die("assignment to %s", r)
				}
			}
		}
		return true
	})
	if !serverSeen || plain == nil {
		die("http.Server Handler not found")
	}
	if !routesAdded {
		die("api.addRoutes(router) not called in NewAPIWithHost")
	}
	if tracing == nil {
		tracing = plain
	}
	return plain, tracing, ev.strict
}

// RPC calls and helper uses of one function body
type finfo struct {
	calls   []string // "Svc.Method" in source order
	helpers []string // parseCidOrError, parsePinPathOrError, parsePidOrError, other api.* calls of interest
}

func inspectFunc(fd *ast.FuncDecl) finfo {
	var fi finfo
	ast.Inspect(fd.Body, func(n ast.Node) bool {
		ce, ok := n.(*ast.CallExpr)
		if !ok {
			return true
		}
		fn := render(ce.Fun)
		switch {
		case strings.HasSuffix(fn, "rpcClient.CallContext") || strings.HasSuffix(fn, "rpcClient.Call"):
			off := 0
			if strings.HasSuffix(fn, "CallContext") {
				off = 1
			}
			if len(ce.Args) < off+3 {
				die("%s: CallContext with %d args", fd.Name.Name, len(ce.Args))
			}
			if d := render(ce.Args[off]); d != `""` {
				die("%s: RPC destination is %s, not \"\"", fd.Name.Name, d)
			}
			fi.calls = append(fi.calls, strLit(ce.Args[off+1])+"."+strLit(ce.Args[off+2]))
		case strings.Contains(fn, "rpcClient."):
			die("%s: unrecognised rpcClient use %s", fd.Name.Name, fn)
		case strings.HasPrefix(fn, "api.parse"):
			fi.helpers = append(fi.helpers, strings.TrimPrefix(fn, "api."))
		case fn == "adderutils.AddMultipartHTTPHandler":
			fi.helpers = append(fi.helpers, "AddMultipartHTTPHandler")
		case fn == "types.AddParamsFromQuery":
			fi.helpers = append(fi.helpers, "AddParamsFromQuery")
		}
		return true
	})
	return fi
}

func leanList(l []string) string {
	qs := make([]string, len(l))
	for i, s := range l {
		qs[i] = q(s)
	}
	return "[" + strings.Join(qs, ", ") + "]"
}

func main() {
	repo := os.Getenv("VERIF_REPO")
	if repo == "" {
		repo = "/repo"
	}
	src := filepath.Join(repo, "api/rest/restapi.go")
	fset := token.NewFileSet()
	f, err := parser.ParseFile(fset, src, nil, 0)
	if err != nil {
		die("parse %s: %v", src, err)
	}
	rs := extractRoutes(f)
	notFound, mna := extractAddRoutes(f)
	plain, tracing, strict := extractChain(f)

	// handlers
	names := map[string]bool{}
	for _, r := range rs {
		names[r.handler] = true
	}
	if notFound != "" {
		names[notFound] = true
	}
	if mna != "" {
		names[mna] = true
	}
	var hn []string
	for n := range names {
		hn = append(hn, n)
	}
	sort.Strings(hn)

	var b strings.Builder
	b.WriteString("import ClusterVerif.Model.C11\n")
	b.WriteString("/-! GENERATED by harness/extract_c11 from api/rest/restapi.go (routes(), addRoutes, NewAPIWithHost, handler bodies). Do not edit. -/\n")
	b.WriteString("namespace CV.C11.Gen\nopen CV.C11\n\n")
	b.WriteString("def routes : List Route := [\n")
	for i, r := range rs {
		sep := ","
		if i == len(rs)-1 {
			sep = ""
		}
		fmt.Fprintf(&b, "  { name := %s, method := %s, pattern := %s, pat := %s, handler := %s }%s\n",
			q(r.name), q(r.method), q(r.pattern), patSegs(r.pattern), q(r.handler), sep)
	}
	b.WriteString("]\n\n")
	fmt.Fprintf(&b, "def strictSlash : Bool := %v\n", strict)
	fmt.Fprintf(&b, "def notFoundHandler : String := %s\n", q(notFound))
	if mna == "" {
		b.WriteString("def methodNotAllowedHandler : Option String := none\n")
	} else {
		fmt.Fprintf(&b, "def methodNotAllowedHandler : Option String := some %s\n", q(mna))
	}
	b.WriteString("/-- handler wrapping order of NewAPIWithHost, outermost first -/\n")
	fmt.Fprintf(&b, "def chain : List String := %s\n", leanList(plain))
	fmt.Fprintf(&b, "def chainTracing : List String := %s\n\n", leanList(tracing))
	b.WriteString("/-- per handler function: the (\"Service.Method\") RPC calls in its body (source order) and the parse helpers it calls -/\n")
	b.WriteString("def handlerInfo : List (String × List String × List String) := [\n")
	for i, n := range hn {
		fd := findFunc(f, n, true)
		if fd == nil {
			die("handler function %s not found", n)
		}
		fi := inspectFunc(fd)
		sep := ","
		if i == len(hn)-1 {
			sep = ""
		}
		fmt.Fprintf(&b, "  (%s, %s, %s)%s\n", q(n), leanList(fi.calls), leanList(fi.helpers), sep)
	}
	b.WriteString("]\n\n")
	// the parse helpers must not call RPC themselves
	for _, h := range []string{"parseCidOrError", "parsePinPathOrError", "parsePidOrError", "sendResponse", "setHeaders", "basicAuthHandler"} {
		fd := findFunc(f, h, h != "basicAuthHandler")
		if fd == nil {
			die("helper %s not found", h)
		}
		if fi := inspectFunc(fd); len(fi.calls) != 0 {
			die("helper %s performs RPC calls %v", h, fi.calls)
		}
	}
	b.WriteString("end CV.C11.Gen\n")
	fmt.Print(b.String())
}
