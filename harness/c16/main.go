// C16 harness: drives the real ipfshttp.Connector (Pin, Unpin, PinLsCid)
// against a scripted fake IPFS HTTP daemon on loopback and prints one case
// line per conversation:
//
//	C16 <op> <cid> <depth> <mode r|d> <src k|-> <norig> <unpinDisable> <table> <script> <swarm-beh> <wire>
//	    => <res> <trace> <swarm> <final table>
//
// The daemon keeps a pin table (cid index -> u|d|r|i) with go-ipfs' pinner
// semantics and answers the k-th sequential request in the wire form the
// script names (see lean/ClusterVerif/Model/C16.lean, `Beh`).  Nothing that
// depends on timing, ports or error texts is printed.
package main

import (
	"bufio"
	"context"
	"fmt"
	"net"
	"net/http"
	"net/http/httptest"
	"net/url"
	"os"
	"sort"
	"strconv"
	"strings"
	"sync"
	"sync/atomic"
	"time"

	"github.com/ipfs/ipfs-cluster/api"
	"github.com/ipfs/ipfs-cluster/ipfsconn/ipfshttp"

	cid "github.com/ipfs/go-cid"
	ma "github.com/multiformats/go-multiaddr"

	"verifharness/common"
)

// ---------------------------------------------------------------- case

type tcase struct {
	op      string // pin | unpin | ls
	cid     int
	depth   int
	modeRec bool
	src     int // -1: none
	norig   int
	ud      bool
	table   []byte
	script  []string
	sw      string
	wire    int
}

var allBeh = []string{"ok", "oka", "e", "np", "npx", "ap", "jnull", "nj", "empty", "nj4", "jarr",
	"d0", "dcl", "dch", "dchp", "st", "ps", "pss", "slow", "serr", "b200"}

// A behaviour is either one of the named wire forms above or a point of the product space
// h.<status>.<ctype j|t|n>.<body>.<transport>: see lean/ClusterVerif/Model/C16Http.lean.
type gwire struct {
	status   int
	ctype    string
	body, tr string
}

var gBodies = []string{"x", "xa", "enp", "enx", "eap", "eo", "nul", "obj", "bm", "bt", "arr", "nj", "em"}
var gTransports = []string{"f", "d0", "sh", "c0", "c1", "sb"}

func oneOf(s string, l []string) bool {
	for _, x := range l {
		if x == s {
			return true
		}
	}
	return false
}

func parseWire(s string) (gwire, bool) {
	f := strings.Split(s, ".")
	if len(f) != 5 || f[0] != "h" {
		return gwire{}, false
	}
	st, err := strconv.Atoi(f[1])
	if err != nil || st < 200 || st > 599 {
		return gwire{}, false
	}
	g := gwire{st, f[2], f[3], f[4]}
	if !oneOf(g.ctype, []string{"j", "t", "n"}) || !oneOf(g.body, gBodies) || !oneOf(g.tr, gTransports) {
		return g, false
	}
	// a filter-ignoring listing that gets lost after the work was done is not a form of its own
	if g.body == "xa" && g.tr == "c1" {
		return g, false
	}
	// 204 and 304 cannot carry a body: nothing to shape, cut or stall inside
	if (st == 204 || st == 304) && (g.body != "em" || g.tr == "c0" || g.tr == "c1" || g.tr == "sb") {
		return g, false
	}
	return g, true
}

func isErrObjBody(b string) bool { return b == "enp" || b == "enx" || b == "eap" || b == "eo" }

func isBeh(s string) bool {
	if _, ok := parseWire(s); ok {
		return true
	}
	for _, b := range allBeh {
		if b == s {
			return true
		}
	}
	return false
}

func (c tcase) input() string {
	mode := "d"
	if c.modeRec {
		mode = "r"
	}
	src := "-"
	if c.src >= 0 {
		src = strconv.Itoa(c.src)
	}
	ud := 0
	if c.ud {
		ud = 1
	}
	tab := make([]string, len(c.table))
	for i, s := range c.table {
		tab[i] = string(s)
	}
	return fmt.Sprintf("C16 %s %d %d %s %s %d %d %s %s %s %d", c.op, c.cid, c.depth, mode, src, c.norig, ud,
		strings.Join(tab, ","), strings.Join(c.script, ","), c.sw, c.wire)
}

func (c tcase) timing() bool {
	for _, b := range c.script {
		switch b {
		case "st", "ps", "pss", "slow":
			return true
		}
		if g, ok := parseWire(b); ok && (g.tr == "sh" || g.tr == "sb") {
			return true
		}
	}
	return c.sw == "st" || c.sw == "ps"
}

func parse(line string) (tcase, bool) {
	f := strings.Fields(line)
	if len(f) < 12 || f[0] != "C16" {
		return tcase{}, false
	}
	var c tcase
	var err error
	c.op = f[1]
	if c.op != "pin" && c.op != "unpin" && c.op != "ls" {
		return c, false
	}
	if c.cid, err = strconv.Atoi(f[2]); err != nil || c.cid < 0 {
		return c, false
	}
	if c.depth, err = strconv.Atoi(f[3]); err != nil {
		return c, false
	}
	c.modeRec = f[4] == "r"
	c.src = -1
	if f[5] != "-" {
		if c.src, err = strconv.Atoi(f[5]); err != nil || c.src < 0 {
			return c, false
		}
	}
	if c.norig, err = strconv.Atoi(f[6]); err != nil || c.norig < 0 || c.norig > 64 {
		return c, false
	}
	c.ud = f[7] == "1"
	for _, s := range strings.Split(f[8], ",") {
		if len(s) != 1 || !strings.Contains("udri", s) {
			return c, false
		}
		c.table = append(c.table, s[0])
	}
	if c.cid >= len(c.table) || c.src >= len(c.table) || len(c.table) > 16 {
		return c, false
	}
	for _, s := range strings.Split(f[9], ",") {
		if !isBeh(s) {
			return c, false
		}
		c.script = append(c.script, s)
	}
	if !isBeh(f[10]) {
		return c, false
	}
	c.sw = f[10]
	c.wire, _ = strconv.Atoi(f[11])
	return c, true
}

// ---------------------------------------------------------------- fake daemon

const (
	msgNotPinned = "not pinned or pinned indirectly" // dspinner.ErrNotPinned / ipldpinner.ErrNotPinned
)

type daemon struct {
	mu         sync.Mutex
	table      []byte
	script     []string
	sw         string
	wire       int
	seq        int
	trace      []string
	swarm      []int
	origins    []string
	pinTimeout time.Duration
	done       chan struct{}
	anomaly    bool // the daemon itself was too slow for a timing case to mean anything
	wg         sync.WaitGroup
}

func (d *daemon) cidIdx(s string) int {
	c, err := cid.Decode(s)
	if err != nil {
		return -1
	}
	return common.CidIndex(c, len(d.table))
}

func ipfsErrBody(msg string) string {
	return fmt.Sprintf(`{"Message":%s,"Code":0,"Type":"error"}`, strconv.Quote(msg))
}

// hold blocks like a daemon that never answers, until the client goes away.
func (d *daemon) hold(r *http.Request, max time.Duration) {
	t := time.NewTimer(max)
	defer t.Stop()
	select {
	case <-r.Context().Done():
	case <-d.done:
	case <-t.C:
	}
}

func drop(w http.ResponseWriter) {
	if hj, ok := w.(http.Hijacker); ok {
		if conn, _, err := hj.Hijack(); err == nil {
			conn.Close()
		}
	}
}

func flush(w http.ResponseWriter) {
	if f, ok := w.(http.Flusher); ok {
		f.Flush()
	}
}

// honest outcome of a state-changing request: ok (with the new table applied by apply()) or a refusal text.
type effect struct {
	refuse string
	apply  func()
	body   string
}

func (d *daemon) ServeHTTP(w http.ResponseWriter, r *http.Request) {
	d.wg.Add(1)
	defer d.wg.Done()
	ep := strings.TrimPrefix(r.URL.Path, "/api/v0/")
	q := r.URL.Query()
	args := q["arg"]
	arg := func(k int) string {
		if k < len(args) {
			return args[k]
		}
		return ""
	}
	meth := ""
	if r.Method != "POST" {
		meth = "!" + r.Method
	}

	// ---- swarm/connect: background requests, own behaviour, not part of the sequence
	if ep == "swarm/connect" {
		idx := 999
		for k, o := range d.origins {
			if o == arg(0) {
				idx = k
			}
		}
		d.mu.Lock()
		d.swarm = append(d.swarm, idx)
		d.mu.Unlock()
		switch d.sw {
		case "st", "ps":
			d.hold(r, 4*time.Second)
			drop(w)
		case "d0", "dcl", "dch", "dchp":
			drop(w)
		case "ok", "slow", "pss", "b200":
			w.Header().Set("Content-Type", "application/json")
			fmt.Fprintf(w, `{"Strings":["connect %d success"]}`, idx)
		default:
			w.WriteHeader(500)
			fmt.Fprint(w, ipfsErrBody("connect failure"))
		}
		return
	}

	// ---- sequential requests
	d.mu.Lock()
	k := d.seq
	d.seq++
	beh := "ok"
	if k < len(d.script) {
		beh = d.script[k]
	}
	var item string
	var eff effect
	isAdd := false
	c0 := d.cidIdx(arg(0))
	cs := func(i int) string {
		if i < 0 {
			return "x"
		}
		return strconv.Itoa(i)
	}
	switch ep {
	case "pin/ls":
		t := q.Get("type")
		tt := "x"
		var want byte
		switch t {
		case "recursive":
			tt, want = "r", 'r'
		case "direct":
			tt, want = "d", 'd'
		}
		item = fmt.Sprintf("ls:%s:%s", cs(c0), tt)
		if len(args) != 1 || q.Get("stream") != "" {
			item = "other:" + item
		}
		gw, isG := parseWire(beh)
		if (beh == "oka" || (isG && gw.body == "xa")) && c0 >= 0 {
			// truthful listing that does not honour the type filter
			ty := map[byte]string{'r': "recursive", 'd': "direct", 'i': "indirect through " + common.CidN(len(d.table)+6).String()}[d.table[c0]]
			if ty == "" {
				eff = effect{refuse: fmt.Sprintf("path '%s' is not pinned", arg(0))}
			} else {
				eff = effect{apply: func() {}, body: fmt.Sprintf(`{"Keys":{%s:{"Type":%s}}}`, strconv.Quote(arg(0)), strconv.Quote(ty))}
			}
		} else if c0 >= 0 && want != 0 && d.table[c0] == want {
			key := arg(0)
			body := fmt.Sprintf(`{"Keys":{%s:{"Type":%s}}}`, strconv.Quote(key), strconv.Quote(t))
			switch d.wire % 7 {
			case 3: // another key next to the right one, unknown fields
				body = fmt.Sprintf(`{"Keys":{%s:{"Type":"recursive"},%s:{"Type":%s,"Extra":1}},"More":null}`,
					strconv.Quote(common.CidN(len(d.table)+5).String()), strconv.Quote(key), strconv.Quote(t))
			case 5:
				body = "\n " + body + "\n"
			}
			eff = effect{apply: func() {}, body: body}
		} else {
			eff = effect{refuse: fmt.Sprintf("path '%s' is not pinned", arg(0))}
		}
	case "pin/add":
		isAdd = true
		rec := q.Get("recursive")
		tt := "x"
		switch rec {
		case "true", "":
			tt = "r"
		case "false":
			tt = "d"
		}
		md := "-"
		if q.Get("max-depth") != "" {
			md = q.Get("max-depth")
		}
		p := "n"
		if q.Get("progress") == "true" {
			p = "p"
		}
		item = fmt.Sprintf("add:%s:%s:%s:%s", cs(c0), tt, md, p)
		if len(args) != 1 {
			item = "other:" + item
		}
		switch {
		case c0 < 0:
			eff = effect{refuse: "invalid path"}
		case tt == "d" && d.table[c0] == 'r':
			eff = effect{refuse: arg(0) + " already pinned recursively"}
		default:
			st := byte('r')
			if tt == "d" {
				st = 'd'
			}
			eff = effect{apply: func() { d.table[c0] = st }, body: fmt.Sprintf(`{"Pins":[%s]}`, strconv.Quote(arg(0)))}
		}
	case "pin/update":
		c1 := d.cidIdx(arg(1))
		un := "1" // go-ipfs default: unpin=true
		switch q.Get("unpin") {
		case "false":
			un = "0"
		case "true", "":
		default:
			un = "x"
		}
		item = fmt.Sprintf("upd:%s:%s:%s", cs(c0), cs(c1), un)
		if len(args) != 2 {
			item = "other:" + item
		}
		switch {
		case c0 < 0 || c1 < 0:
			eff = effect{refuse: "invalid path"}
		case d.table[c0] != 'r':
			eff = effect{refuse: "'from' cid was not recursively pinned already"}
		case c0 == c1:
			eff = effect{apply: func() {}}
		case d.table[c1] == 'r':
			eff = effect{refuse: "'to' cid was already recursively pinned"}
		default:
			eff = effect{apply: func() {
				d.table[c1] = 'r'
				if un != "0" {
					d.table[c0] = 'u'
				}
			}}
		}
		eff.body = fmt.Sprintf(`{"Pins":[%s,%s]}`, strconv.Quote(arg(0)), strconv.Quote(arg(1)))
	case "pin/rm":
		item = fmt.Sprintf("rm:%s", cs(c0))
		if len(args) != 1 {
			item = "other:" + item
		}
		if c0 >= 0 && (d.table[c0] == 'd' || d.table[c0] == 'r') {
			eff = effect{apply: func() { d.table[c0] = 'u' }, body: fmt.Sprintf(`{"Pins":[%s]}`, strconv.Quote(arg(0)))}
		} else {
			eff = effect{refuse: msgNotPinned}
		}
	default:
		item = "other:" + strings.ReplaceAll(ep, ",", "_")
		eff = effect{refuse: "command not found"}
	}
	item += meth
	d.trace = append(d.trace, item)
	if g, ok := parseWire(beh); ok {
		d.serveGeneric(w, r, g, eff, isAdd, ep, arg(0)) // unlocks d.mu
		return
	}
	if beh == "oka" {
		beh = "ok"
	}
	// stream behaviours exist on pin/add only
	if !isAdd {
		switch beh {
		case "pss", "slow":
			beh = "ok"
		case "serr":
			beh = "e"
		}
	}
	// behaviours that do what was asked answer with go-ipfs' own refusal when it would refuse
	applies := beh == "ok" || beh == "slow" || beh == "b200" || beh == "dchp"
	if applies && eff.refuse != "" {
		d.mu.Unlock()
		w.Header().Set("Content-Type", "application/json")
		w.WriteHeader(500)
		fmt.Fprint(w, ipfsErrBody(eff.refuse))
		return
	}
	if applies && beh != "slow" {
		eff.apply()
	}
	wire := d.wire
	pt := d.pinTimeout
	d.mu.Unlock()

	jsonErr := func(code int, body string) {
		w.Header().Set("Content-Type", "application/json")
		w.WriteHeader(code)
		fmt.Fprint(w, body)
	}
	progress := func(n int) {
		fmt.Fprintf(w, "{\"Progress\":%d}\n", n)
		flush(w)
	}

	switch beh {
	case "ok":
		w.Header().Set("Content-Type", "application/json")
		if isAdd {
			w.Header().Set("Trailer", "X-Stream-Error")
			w.WriteHeader(200)
			flush(w)
			for n := 1; n <= wire%4; n++ {
				progress(n * (1 + wire%3))
			}
			if wire%5 == 4 {
				// go-ipfs without progress support: one object
				fmt.Fprint(w, eff.body)
			} else {
				fmt.Fprintf(w, "%s\n", eff.body)
			}
			return
		}
		fmt.Fprint(w, eff.body)
	case "e":
		jsonErr(500, ipfsErrBody([]string{"merkledag: not found", "context deadline exceeded", "some failure"}[wire%3]))
	case "np":
		jsonErr(500, ipfsErrBody(msgNotPinned))
	case "npx":
		jsonErr(500, ipfsErrBody([]string{"not pinned", "pin: " + msgNotPinned, msgNotPinned + " under Qm"}[wire%3]))
	case "ap":
		jsonErr(500, ipfsErrBody(arg(0)+" already pinned recursively"))
	case "jnull":
		jsonErr(500, "null")
	case "jarr":
		jsonErr(500, `["error"]`)
	case "nj":
		w.WriteHeader([]int{500, 502, 503}[wire%3])
		fmt.Fprint(w, "internal failure <html>")
	case "empty":
		w.WriteHeader([]int{500, 403, 400}[wire%3])
	case "nj4":
		w.WriteHeader(404)
		fmt.Fprint(w, "404 page not found")
	case "d0":
		drop(w)
	case "dcl":
		w.Header().Set("Content-Type", "application/json")
		w.Header().Set("Content-Length", "4096")
		w.WriteHeader(200)
		if isAdd {
			fmt.Fprint(w, "{\"Progress\":1}\n")
		} else if wire%2 == 0 {
			fmt.Fprint(w, `{"Keys":{`)
		}
		flush(w)
		drop(w)
	case "dch", "dchp":
		w.Header().Set("Content-Type", "application/json")
		w.WriteHeader(200)
		flush(w)
		if isAdd {
			for n := 1; n <= wire%3; n++ {
				progress(n)
			}
			if wire%2 == 1 {
				fmt.Fprint(w, `{"Progr`)
				flush(w)
			}
		} else if wire%2 == 1 {
			fmt.Fprint(w, `{"Pins":[`)
			flush(w)
		}
		drop(w)
	case "st":
		d.hold(r, 4*time.Second)
		drop(w)
	case "ps":
		w.Header().Set("Content-Type", "application/json")
		w.WriteHeader(200)
		flush(w)
		if isAdd {
			progress(1)
			progress(2)
		} else {
			fmt.Fprint(w, `{"Pi`)
			flush(w)
		}
		d.hold(r, 4*time.Second)
		drop(w)
	case "pss":
		// stream alive, progress number stuck: for at most 25 pin timeouts, then completes
		w.Header().Set("Content-Type", "application/json")
		w.WriteHeader(200)
		flush(w)
		iv := pt / 6
		deadline := time.Now().Add(25 * pt)
		stuck := wire % 3
		for time.Now().Before(deadline) {
			progress(stuck)
			select {
			case <-r.Context().Done():
				return
			case <-d.done:
				return
			case <-time.After(iv):
			}
		}
		if eff.apply == nil {
			drop(w)
			return
		}
		d.mu.Lock()
		eff.apply()
		d.mu.Unlock()
		fmt.Fprintf(w, "%s\n", eff.body)
	case "slow":
		w.Header().Set("Content-Type", "application/json")
		w.WriteHeader(200)
		flush(w)
		iv := pt / 6
		last := time.Now()
		for n := 1; n <= 18; n++ {
			progress(n)
			select {
			case <-r.Context().Done():
				return
			case <-d.done:
				return
			case <-time.After(iv):
			}
			if gap := time.Since(last); gap > pt/2 {
				d.mu.Lock()
				d.anomaly = true
				d.mu.Unlock()
			}
			last = time.Now()
		}
		d.mu.Lock()
		eff.apply()
		d.mu.Unlock()
		fmt.Fprintf(w, "%s\n", eff.body)
	case "serr":
		// what go-ipfs does when the pin fails after the first progress message: status 200 is
		// already out, the error travels inside the stream as an object and/or in the
		// X-Stream-Error trailer; nothing is pinned. Three forms: object only, trailer only, both.
		form := wire % 3
		w.Header().Set("Content-Type", "application/json")
		if form != 0 {
			w.Header().Set("Trailer", "X-Stream-Error")
		}
		w.WriteHeader(200)
		flush(w)
		for n := 1; n <= 1+(wire/3)%2; n++ {
			progress(n)
		}
		if form != 1 {
			fmt.Fprintf(w, "%s\n", ipfsErrBody("pin: merkledag: not found"))
		}
		if form != 0 {
			w.Header().Set("X-Stream-Error", "pin: merkledag: not found")
		}
	case "b200":
		w.WriteHeader(200)
		bodies := []string{"this is not json", "<html>ok</html>", "{\"Pins\":["}
		if isAdd {
			bodies = append(bodies, "{\"Progress\":\"many\"}\n", "{\"Progress\":1}\n[1,2]\n", "{\"Pins\":7}")
		} else if ep == "pin/ls" {
			// well-formed JSON that does not list the CID
			bodies = append(bodies, `{"Keys":{}}`, `{"Keys":{"`+common.CidN(len(d.table)+5).String()+`":{"Type":"recursive"}}}`,
				`{"Keys":{"not-a-cid":{"Type":"recursive"}}}`, `{"Keys":[]}`)
		}
		fmt.Fprint(w, bodies[wire%len(bodies)])
	}
}

// serveGeneric answers with a point of the product space. Called with d.mu held.
func (d *daemon) serveGeneric(w http.ResponseWriter, r *http.Request, g gwire, eff effect, isAdd bool, ep, key string) {
	// a daemon that answers 200 has done what was asked (an error object inside a pin/add stream says it has not);
	// `c1`: it had done it when the connection broke
	applies := g.status == 200 && (g.tr == "c1" || (g.tr == "f" && !(isAdd && isErrObjBody(g.body))))
	if applies && eff.refuse != "" {
		d.mu.Unlock()
		w.Header().Set("Content-Type", "application/json")
		w.WriteHeader(500)
		fmt.Fprint(w, ipfsErrBody(eff.refuse))
		return
	}
	if applies {
		eff.apply()
	}
	wire := d.wire
	d.mu.Unlock()

	own := eff.body
	if own == "" {
		if ep == "pin/ls" {
			own = `{"Keys":{}}`
		} else {
			own = `{"Pins":[]}`
		}
	}
	var body string
	switch g.body {
	case "x", "xa":
		body = own
		if isAdd {
			body = ""
			for n := 1; n <= wire%3; n++ {
				body += fmt.Sprintf("{\"Progress\":%d}\n", n)
			}
			body += own + "\n"
		}
	case "enp":
		body = ipfsErrBody(msgNotPinned)
	case "enx":
		body = ipfsErrBody([]string{"not pinned", "pin: " + msgNotPinned, msgNotPinned + " under Qm"}[wire%3])
	case "eap":
		body = ipfsErrBody(key + " already pinned recursively")
	case "eo":
		body = ipfsErrBody([]string{"merkledag: not found", "context deadline exceeded", "some failure"}[wire%3])
	case "nul":
		body = "null"
	case "obj":
		body = []string{`{"Foo":1,"Bar":[]}`, `{}`, ` {"Strings":["x"]} `}[wire%3]
	case "bm":
		body = []string{`{"Message":5,"Code":0,"Type":"error"}`, `{"Message":["a"]}`, `{"Message":{"x":1},"Type":"error"}`}[wire%3]
	case "bt":
		switch {
		case ep == "pin/ls":
			body = []string{`{"Keys":[]}`, `{"Keys":7}`, `{"Keys":{"a":5}}`}[wire%3]
		case isAdd:
			body = []string{`{"Pins":7,"Progress":"x"}`, `{"Progress":"many"}`, `{"Pins":"a"}`}[wire%3]
		default:
			body = `{"Pins":7}`
		}
	case "arr":
		body = []string{`["error"]`, `"error"`, `17`}[wire%3]
	case "nj":
		body = []string{"internal failure <html>", "404 page not found", `{"Message":"cut of`}[wire%3]
	case "em":
		body = ""
	}
	switch g.tr {
	case "d0":
		drop(w)
		return
	case "sh":
		d.hold(r, 4*time.Second)
		drop(w)
		return
	}
	switch g.ctype {
	case "j":
		w.Header().Set("Content-Type", "application/json")
	case "t":
		w.Header().Set("Content-Type", "text/plain; charset=utf-8")
	default:
		w.Header()["Content-Type"] = nil
	}
	w.WriteHeader(g.status)
	switch g.tr {
	case "f":
		fmt.Fprint(w, body)
	case "c0", "c1", "sb":
		flush(w)
		if len(body) >= 2 && wire%2 == 1 {
			fmt.Fprint(w, body[:len(body)/2])
			flush(w)
		}
		if g.tr == "sb" {
			d.hold(r, 4*time.Second)
		}
		drop(w)
	}
}

// ---------------------------------------------------------------- one run

func originAddr(k int) string {
	return fmt.Sprintf("/ip4/10.1.%d.%d/tcp/4001/p2p/%s", k/200, 1+k%200, common.PeerN(k).Pretty())
}

type result struct {
	out     string
	anomaly bool
}

var nextPort int64 = int64(20000 + (os.Getpid()*97)%10000)

func listen() net.Listener {
	for try := 0; try < 400; try++ {
		p := 20000 + int(atomic.AddInt64(&nextPort, 1)%12000)
		if l, err := net.Listen("tcp", fmt.Sprintf("127.0.0.1:%d", p)); err == nil {
			return l
		}
	}
	return nil
}

// heartbeat: a goroutine that sleeps 5 ms at a time and notes when it woke up much too late. A
// time-dependent run during which that happened says nothing about the connector (the process was
// starved of CPU) and is discarded.
type lateEv struct {
	at time.Time
	by time.Duration
}

var (
	lateMu sync.Mutex
	lateAt []lateEv
)

func heartbeat() {
	for {
		t0 := time.Now()
		time.Sleep(5 * time.Millisecond)
		if by := time.Since(t0) - 5*time.Millisecond; by > 10*time.Millisecond {
			lateMu.Lock()
			lateAt = append(lateAt, lateEv{time.Now(), by})
			if len(lateAt) > 8192 {
				lateAt = append([]lateEv(nil), lateAt[4096:]...)
			}
			lateMu.Unlock()
		}
	}
}

// starvedSince: did the heartbeat wake up more than `by` late at any time after t?
func starvedSince(t time.Time, by time.Duration) bool {
	lateMu.Lock()
	defer lateMu.Unlock()
	for i := len(lateAt) - 1; i >= 0 && lateAt[i].at.After(t); i-- {
		if lateAt[i].by > by {
			return true
		}
	}
	return false
}

func runOnce(c tcase) (res result) {
	timing := c.timing()
	started := time.Now()
	pinTimeout := 30 * time.Second
	defer func() {
		// the whole process stood still (CPU starvation, a paused VM): the run says nothing
		by := pinTimeout / 4
		if !timing {
			by = time.Second
		}
		if starvedSince(started, by) {
			res.anomaly = true
		}
	}()
	reqTimeout := 20 * time.Second
	parent := 25 * time.Second
	if timing {
		pinTimeout = 60 * time.Millisecond
		reqTimeout = 400 * time.Millisecond
		parent = 1500 * time.Millisecond
		for _, b := range c.script {
			if b == "slow" {
				// a stream that must NOT be timed out: leave room for scheduling noise
				pinTimeout = 240 * time.Millisecond
				reqTimeout = 800 * time.Millisecond
				parent = 3 * time.Second
			}
		}
	}
	d := &daemon{table: append([]byte(nil), c.table...), script: c.script, sw: c.sw, wire: c.wire,
		pinTimeout: pinTimeout, done: make(chan struct{})}
	for k := 0; k < c.norig; k++ {
		d.origins = append(d.origins, originAddr(k))
	}
	// own listener outside the kernel's ephemeral range: thousands of short-lived loopback
	// connections per minute otherwise leave no port for a fresh listener
	ln := listen()
	if ln == nil {
		return result{out: "# inconclusive no listener port"}
	}
	srv := httptest.NewUnstartedServer(d)
	srv.Listener.Close()
	srv.Listener = ln
	srv.Start()
	closed := false
	shut := func() {
		if closed {
			return
		}
		closed = true
		close(d.done)
		srv.CloseClientConnections()
		srv.Close()
	}
	defer shut()

	u, _ := url.Parse(srv.URL)
	host, port, _ := strings.Cut(u.Host, ":")
	addr, err := ma.NewMultiaddr(fmt.Sprintf("/ip4/%s/tcp/%s", host, port))
	if err != nil {
		return result{out: "# inconclusive listener " + err.Error()}
	}
	cfg := &ipfshttp.Config{}
	cfg.Default()
	cfg.NodeAddr = addr
	cfg.ConnectSwarmsDelay = 0
	cfg.IPFSRequestTimeout = reqTimeout
	cfg.PinTimeout = pinTimeout
	cfg.UnpinTimeout = reqTimeout
	cfg.UnpinDisable = c.ud
	conn, err := ipfshttp.NewConnector(cfg)
	if err != nil {
		return result{out: "# inconclusive connector " + err.Error()}
	}
	defer conn.Shutdown(context.Background())

	opts := api.PinOptions{}
	if c.modeRec {
		opts.Mode = api.PinModeRecursive
	} else {
		opts.Mode = api.PinModeDirect
	}
	for k := 0; k < c.norig; k++ {
		m, err := ma.NewMultiaddr(originAddr(k))
		if err != nil {
			return result{out: "# inconclusive origin " + err.Error()}
		}
		opts.Origins = append(opts.Origins, m)
	}
	if c.src >= 0 {
		opts.PinUpdate = common.CidN(c.src)
	}
	pin := api.PinWithOpts(common.CidN(c.cid), opts)
	pin.MaxDepth = api.PinDepth(c.depth)

	ctx, cancel := context.WithTimeout(context.Background(), parent)
	defer cancel()
	type ret struct {
		cls string
	}
	ch := make(chan ret, 1)
	go func() {
		defer func() {
			if r := recover(); r != nil {
				ch <- ret{"panic"}
			}
		}()
		var err error
		cls := "ok"
		switch c.op {
		case "pin":
			err = conn.Pin(ctx, pin)
		case "unpin":
			err = conn.Unpin(ctx, pin.Cid)
		case "ls":
			var st api.IPFSPinStatus
			st, err = conn.PinLsCid(ctx, pin)
			switch st {
			case api.IPFSPinStatusUnpinned:
				cls = "st:u"
			case api.IPFSPinStatusDirect:
				cls = "st:d"
			case api.IPFSPinStatusRecursive:
				cls = "st:r"
			case api.IPFSPinStatusIndirect:
				cls = "st:i"
			default:
				cls = "st:other"
			}
		}
		if err != nil {
			cls = "err"
			if ctx.Err() != nil {
				cls = "errctx" // returned only because the caller's own deadline passed
			}
		}
		ch <- ret{cls}
	}()
	var cls string
	select {
	case r := <-ch:
		cls = r.cls
	case <-time.After(parent + 3*time.Second):
		cls = "hang"
	}
	cancel()
	// let background swarm/connect requests that are already inside the daemon finish
	shut()
	waitc := make(chan struct{})
	go func() { d.wg.Wait(); close(waitc) }()
	select {
	case <-waitc:
	case <-time.After(2 * time.Second):
	}
	if tr, ok := http.DefaultTransport.(*http.Transport); ok {
		tr.CloseIdleConnections()
	}

	d.mu.Lock()
	defer d.mu.Unlock()
	trace := "-"
	if len(d.trace) > 0 {
		trace = strings.Join(d.trace, ",")
	}
	sw := append([]int(nil), d.swarm...)
	sort.Ints(sw)
	tab := make([]string, len(d.table))
	for i, s := range d.table {
		tab[i] = string(s)
	}
	return result{out: fmt.Sprintf("%s %s %s %s", cls, trace, common.Ints(sw), strings.Join(tab, ",")), anomaly: d.anomaly}
}

var timingRuns, discardedRuns int64

// run executes a case; time-dependent cases are repeated until two runs agree.
func run(c tcase) string {
	if !c.timing() {
		// deterministic conversation: one run, unless the process stood still during it or the call
		// did not come back (re-run before reporting)
		var r result
		for try := 0; try < 3; try++ {
			r = runOnce(c)
			if r.anomaly {
				atomic.AddInt64(&discardedRuns, 1)
				continue
			}
			if strings.HasPrefix(r.out, "hang") || strings.HasPrefix(r.out, "errctx") || strings.HasPrefix(r.out, "#") {
				continue
			}
			break
		}
		if r.anomaly {
			return "# inconclusive starved " + c.input()
		}
		if strings.HasPrefix(r.out, "#") {
			return r.out
		}
		return c.input() + " => " + r.out
	}
	seen := map[string]int{}
	for try := 0; try < 8; try++ {
		r := runOnce(c)
		atomic.AddInt64(&timingRuns, 1)
		if r.anomaly || strings.HasPrefix(r.out, "#") {
			atomic.AddInt64(&discardedRuns, 1)
			continue
		}
		// swarm requests received are legitimately variable: compare without them
		f := strings.Fields(r.out)
		key := r.out
		if len(f) == 4 {
			key = f[0] + " " + f[1] + " " + f[3]
		}
		seen[key]++
		if seen[key] == 2 {
			return c.input() + " => " + r.out
		}
	}
	return "# inconclusive timing " + c.input()
}

// ---------------------------------------------------------------- generator

func pick(r *common.Rng, l []string) string { return l[r.Intn(len(l))] }

var failFast = []string{"e", "np", "npx", "ap", "jnull", "nj", "empty", "nj4", "jarr", "d0", "dcl", "dch", "dchp", "b200", "serr"}
var failSlow = []string{"st", "ps", "pss", "slow"}

var gStatus = []int{200, 200, 200, 201, 202, 204, 206, 300, 301, 304, 400, 403, 404, 405, 500, 500, 500, 502, 503}

// genWire draws a point of the product space status x content type x body shape x transport.
func genWire(r *common.Rng, allowTiming bool) string {
	st := gStatus[r.Intn(len(gStatus))]
	ct := []string{"j", "j", "t", "n"}[r.Intn(4)]
	body := gBodies[r.Intn(len(gBodies))]
	tr := "f"
	switch x := r.Intn(20); {
	case x < 13:
	case x < 14:
		tr = "d0"
	case x < 16:
		tr = "c0"
	case x < 17:
		tr = "c1"
		if st != 200 {
			tr = "c0"
		}
	default:
		if allowTiming {
			tr = []string{"sh", "sb"}[r.Intn(2)]
		}
	}
	if body == "xa" && tr == "c1" {
		tr = "c0"
	}
	if st == 204 || st == 304 {
		body = "em"
		if tr == "c0" || tr == "c1" || tr == "sb" {
			tr = "f"
		}
	}
	return fmt.Sprintf("h.%d.%s.%s.%s", st, ct, body, tr)
}

func genBeh(r *common.Rng, allowTiming bool) string {
	if r.Chance(1, 3) {
		return genWire(r, allowTiming)
	}
	x := r.Intn(100)
	switch {
	case x < 45:
		return "ok"
	case x < 90 || !allowTiming:
		return pick(r, failFast)
	default:
		return pick(r, failSlow)
	}
}

// genFocused puts one arbitrary behaviour at a chosen step of the conversation and makes the
// steps before it succeed, so that every behaviour meets every endpoint in every prior state.
func genFocused(r *common.Rng) tcase {
	var c tcase
	c.table = []byte{"udri"[r.Intn(4)], "udri"[r.Intn(4)], "udri"[r.Intn(4)]}
	c.cid, c.src = 0, -1
	c.depth = []int{-1, 0, 1, 2}[r.Intn(4)]
	c.modeRec = c.depth != 0
	c.sw = "ok"
	c.wire = r.Intn(60)
	b := allBeh[r.Intn(len(allBeh))]
	if r.Chance(1, 2) {
		b = genWire(r, true)
	}
	notAsAsked := func() {
		asked := byte('r')
		if c.depth == 0 {
			asked = 'd'
		}
		for c.table[0] == asked {
			c.table[0] = "udri"[r.Intn(4)]
		}
	}
	switch shape := r.Intn(8); shape {
	case 0: // pin/add without source
		c.op = "pin"
		notAsAsked()
		c.script = []string{"ok", b, "ok"}
	case 1: // pin/add after a source lookup that does not lead to pin/update
		c.op = "pin"
		notAsAsked()
		c.src = 1
		if r.Bool() {
			c.table[1] = "udi"[r.Intn(3)]
		} else {
			c.modeRec = false
		}
		c.script = []string{"ok", "ok", b}
	case 2: // pin/update
		c.op = "pin"
		if c.depth == 0 {
			c.depth = -1
		}
		c.modeRec = true
		notAsAsked()
		c.src = 1
		c.table[1] = 'r'
		c.script = []string{"ok", "ok", b}
	case 3:
		c.op = "unpin"
		c.script = []string{b, "ok", "ok"}
	case 4:
		c.op = "ls"
		c.script = []string{b, "ok", "ok"}
	case 5: // first lookup of Pin
		c.op = "pin"
		c.script = []string{b, "ok", "ok"}
		if r.Bool() {
			c.src = 1
		}
	case 6: // source lookup
		c.op = "pin"
		notAsAsked()
		c.src = 1
		if r.Bool() {
			c.table[1] = 'r'
		}
		c.script = []string{"ok", b, "ok"}
	default: // source is the CID itself
		c.op = "pin"
		c.src = 0
		c.script = []string{genBeh(r, false), "ok", b}
	}
	if c.op == "pin" {
		c.norig = []int{0, 0, 1, 10, 12}[r.Intn(5)]
	}
	return c
}

func gen(r *common.Rng, k, total int) tcase {
	if k%4 == 1 {
		return genFocused(r)
	}
	var c tcase
	switch x := r.Intn(10); {
	case x < 7:
		c.op = "pin"
	case x < 9:
		c.op = "unpin"
	default:
		c.op = "ls"
	}
	n := 3
	if r.Chance(1, 8) {
		n = 2 + r.Intn(3)
	}
	c.table = make([]byte, n)
	for i := range c.table {
		c.table[i] = "udri"[r.Intn(4)]
	}
	c.cid = 0
	if r.Chance(1, 6) {
		c.cid = r.Intn(n)
	}
	c.depth = []int{-1, -1, -1, 0, 0, 1, 2, -2, 7}[r.Intn(9)]
	c.modeRec = c.depth != 0
	if r.Chance(1, 12) {
		c.modeRec = !c.modeRec // Mode and MaxDepth disagree (REST route leaves Mode direct with depth -1)
	}
	c.src = -1
	if c.op == "pin" && r.Chance(1, 2) {
		c.src = (c.cid + 1) % n
		if r.Chance(1, 10) {
			c.src = c.cid
		}
		// bias: a recursively pinned source, so that the update branch is reached
		if r.Chance(1, 2) {
			c.table[c.src] = 'r'
		}
	}
	if c.op == "pin" && r.Chance(1, 3) {
		// bias: not yet pinned as asked
		if c.src != c.cid {
			c.table[c.cid] = "ui"[r.Intn(2)]
		}
	}
	switch x := r.Intn(12); {
	case x < 6:
		c.norig = 0
	case x < 9:
		c.norig = 1 + r.Intn(3)
	case x < 10:
		c.norig = 10
	case x < 11:
		c.norig = 11 + r.Intn(3)
	default:
		c.norig = 9
	}
	if c.op != "pin" {
		c.norig = 0
	}
	c.ud = c.op == "unpin" && r.Chance(1, 8)
	// timing behaviours are expensive: a bounded share of the cases
	allowTiming := r.Chance(1, 4)
	c.script = []string{genBeh(r, allowTiming), genBeh(r, allowTiming), genBeh(r, allowTiming)}
	// the first lookup mostly succeeds so that the later steps are reached
	if c.op == "pin" && r.Chance(1, 2) {
		c.script[0] = "ok"
	}
	if c.op == "pin" && c.src >= 0 && r.Chance(1, 2) {
		c.script[1] = "ok"
	}
	if c.op != "unpin" && r.Chance(1, 12) {
		c.script[0] = "oka"
	}
	if c.op == "pin" && c.src >= 0 && r.Chance(1, 8) {
		c.script[1] = "oka" // the source lookup at a daemon that ignores the type filter
	}
	c.sw = "ok"
	if c.norig > 0 && r.Chance(1, 3) {
		c.sw = pick(r, []string{"e", "nj", "d0", "st", "dch"})
		if c.sw == "st" && !allowTiming {
			c.sw = "e"
		}
	}
	c.wire = r.Intn(60)
	return c
}

// ---------------------------------------------------------------- main

func main() {
	a := common.ParseArgs()
	var jobs []func() string
	if a.Extra["stdin"] != "" {
		sc := bufio.NewScanner(os.Stdin)
		sc.Buffer(make([]byte, 1<<20), 1<<24)
		for sc.Scan() {
			if ac, ok := parseAux(sc.Text()); ok {
				jobs = append(jobs, func() string { return runAux(ac) })
			} else if yc, ok := parseTypes(sc.Text()); ok {
				jobs = append(jobs, func() string { return runTypes(yc) })
			} else if c, ok := parse(sc.Text()); ok {
				jobs = append(jobs, func() string { return run(c) })
			}
		}
	} else {
		total := a.N
		if total < 0 {
			total = 1500
			if a.Tier == "thorough" {
				total = 20000
			}
		}
		root := common.NewRng(common.Seed())
		for k := 0; k < total; k++ {
			if a.Only >= 0 && k != a.Only {
				continue
			}
			if k%8 == 5 {
				ac := genAux(root.Fork(uint64(k)))
				jobs = append(jobs, func() string { return runAux(ac) })
				continue
			}
			if k%16 == 11 {
				// the tables of api/types.go, driven directly
				yc := genTypes(root.Fork(uint64(k)))
				jobs = append(jobs, func() string { return runTypes(yc) })
				continue
			}
			c := gen(root.Fork(uint64(k)), k, total)
			jobs = append(jobs, func() string { return run(c) })
		}
	}
	go heartbeat()
	// cases are independent (own daemon, own connector): a small worker pool, output in case order
	outs := make([]string, len(jobs))
	workers := 6
	if w, err := strconv.Atoi(os.Getenv("VERIF_C16_WORKERS")); err == nil && w > 0 {
		workers = w
	}
	var wg sync.WaitGroup
	next := make(chan int)
	for w := 0; w < workers; w++ {
		wg.Add(1)
		go func() {
			defer wg.Done()
			for k := range next {
				outs[k] = jobs[k]()
			}
		}()
	}
	for k := range jobs {
		next <- k
	}
	close(next)
	wg.Wait()
	fmt.Fprintf(os.Stderr, "timing runs %d, discarded as starved %d\n", atomic.LoadInt64(&timingRuns), atomic.LoadInt64(&discardedRuns))
	out := common.NewOut()
	defer out.Flush()
	for _, l := range outs {
		out.Line("%s", l)
	}
}
