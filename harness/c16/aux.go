package main

// The rest of the connector (BlockGet, BlockPut, Resolve, SwarmPeers, RepoGC, ConfigKey): one request
// against a daemon that answers with a point of the product space of lean/ClusterVerif/Model/C16Http.lean.
//
//	C16 aux <op> <beh h.<status>.<ctype>.<body>.<transport>> <variant> <wire> => ok:<a>:<b> | err | errctx | hang | panic

import (
	"bytes"
	"context"
	"fmt"
	"net/http"
	"net/http/httptest"
	"net/url"
	"strconv"
	"strings"
	"time"

	"github.com/ipfs/ipfs-cluster/api"
	"github.com/ipfs/ipfs-cluster/ipfsconn/ipfshttp"

	ma "github.com/multiformats/go-multiaddr"

	"verifharness/common"
)

var auxOps = []string{"blockGet", "blockPut", "resolve", "swarmPeers", "repoGC", "configKey"}

type acase struct {
	op      string
	beh     string
	variant int
	wire    int
}

func (c acase) input() string {
	return fmt.Sprintf("C16 aux %s %s %d %d", c.op, c.beh, c.variant, c.wire)
}

func parseAux(line string) (acase, bool) {
	f := strings.Fields(line)
	if len(f) < 6 || f[0] != "C16" || f[1] != "aux" || !oneOf(f[2], auxOps) {
		return acase{}, false
	}
	if _, ok := parseWire(f[3]); !ok {
		return acase{}, false
	}
	v, err1 := strconv.Atoi(f[4])
	w, err2 := strconv.Atoi(f[5])
	if err1 != nil || err2 != nil || v < 0 || w < 0 {
		return acase{}, false
	}
	return acase{f[2], f[3], v, w}, true
}

func (c acase) timing() bool {
	g, _ := parseWire(c.beh)
	return g.tr == "sh" || g.tr == "sb"
}

var auxBlock = []byte("verif block payload")

type auxDaemon struct {
	c    acase
	done chan struct{}
}

func (d *auxDaemon) hold(r *http.Request) {
	t := time.NewTimer(4 * time.Second)
	defer t.Stop()
	select {
	case <-r.Context().Done():
	case <-d.done:
	case <-t.C:
	}
}

// the endpoint's own well-formed reply
func (d *auxDaemon) own() string {
	v := d.c.variant % 3
	switch d.c.op {
	case "blockGet":
		return string(auxBlock)
	case "blockPut":
		k := common.CidN(0)
		if d.c.variant%2 == 1 {
			k = common.CidN(3)
		}
		return fmt.Sprintf(`{"Key":%s,"Size":%d}`, strconv.Quote(k.String()), len(auxBlock))
	case "resolve":
		p := "/ipfs/" + common.CidN(1).String()
		if d.c.variant%2 == 1 {
			p += "/some/sub/path"
		}
		return fmt.Sprintf(`{"Path":%s}`, strconv.Quote(p))
	case "swarmPeers":
		switch v {
		case 0:
			return fmt.Sprintf(`{"Peers":[{"Addr":"/ip4/10.0.0.1/tcp/4001","Peer":%s},{"Addr":"/ip4/10.0.0.2/tcp/4001","Peer":%s}]}`,
				strconv.Quote(common.PeerN(1).Pretty()), strconv.Quote(common.PeerN(2).Pretty()))
		case 1:
			return `{"Peers":null}`
		default:
			return fmt.Sprintf(`{"Peers":[{"Peer":%s},{"Peer":"not-a-peer-id"}]}`, strconv.Quote(common.PeerN(1).Pretty()))
		}
	case "repoGC":
		switch v {
		case 0:
			return fmt.Sprintf("{\"Key\":{\"/\":%s}}\n{\"Key\":{\"/\":%s}}\n", strconv.Quote(common.CidN(1).String()), strconv.Quote(common.CidN(2).String()))
		case 1:
			return fmt.Sprintf("{\"Key\":{\"/\":%s}}\n{\"Error\":\"could not remove a block\"}\n", strconv.Quote(common.CidN(1).String()))
		default:
			return ""
		}
	case "configKey":
		switch v {
		case 0:
			return `{"Datastore":{"StorageMax":"10GB","GCPeriod":"1h"},"Identity":{"PeerID":"x"}}`
		case 1:
			return `{"Datastore":{"GCPeriod":"1h"}}`
		default:
			return `{"Datastore":"flat"}`
		}
	}
	return "{}"
}

func (d *auxDaemon) ServeHTTP(w http.ResponseWriter, r *http.Request) {
	g, _ := parseWire(d.c.beh)
	wire := d.c.wire
	var body string
	switch g.body {
	case "x", "xa":
		body = d.own()
	case "enp":
		body = ipfsErrBody(msgNotPinned)
	case "enx":
		body = ipfsErrBody("not pinned")
	case "eap":
		body = ipfsErrBody("already pinned recursively")
	case "eo":
		body = ipfsErrBody([]string{"merkledag: not found", "context deadline exceeded", "cannot acquire lock"}[wire%3])
	case "nul":
		body = "null"
	case "obj":
		body = []string{`{"Foo":1,"Bar":[]}`, `{}`, ` {"Strings":["x"]} `}[wire%3]
	case "bm":
		body = []string{`{"Message":5,"Code":0,"Type":"error"}`, `{"Message":["a"]}`, `{"Message":{"x":1},"Type":"error"}`}[wire%3]
	case "bt":
		body = map[string]string{"blockGet": `{"Key":7}`, "blockPut": `{"Key":7}`, "resolve": `{"Path":7}`, "swarmPeers": `{"Peers":7}`,
			"repoGC": `{"Key":7}`, "configKey": `[{"Datastore":1}]`}[d.c.op]
	case "arr":
		body = []string{`["error"]`, `"error"`, `17`}[wire%3]
	case "nj":
		body = []string{"internal failure <html>", "404 page not found", `{"Message":"cut of`}[wire%3]
	case "em":
		body = ""
	}
	switch g.tr {
	case "d0":
		drop(w)
		return
	case "sh":
		d.hold(r)
		drop(w)
		return
	}
	switch g.ctype {
	case "j":
		w.Header().Set("Content-Type", "application/json")
	case "t":
		w.Header().Set("Content-Type", "text/plain; charset=utf-8")
	default:
		w.Header()["Content-Type"] = nil
	}
	w.WriteHeader(g.status)
	switch g.tr {
	case "f":
		fmt.Fprint(w, body)
	case "c0", "c1", "sb":
		flush(w)
		if len(body) >= 2 && wire%2 == 1 {
			fmt.Fprint(w, body[:len(body)/2])
			flush(w)
		}
		if g.tr == "sb" {
			d.hold(r)
		}
		drop(w)
	}
}

func runAuxOnce(c acase) (res result) {
	started := time.Now()
	timing := c.timing()
	defer func() {
		by := 100 * time.Millisecond
		if !timing {
			by = time.Second
		}
		if starvedSince(started, by) {
			res.anomaly = true
		}
	}()
	reqTimeout := 20 * time.Second
	parent := 25 * time.Second
	if timing {
		reqTimeout = 400 * time.Millisecond
		parent = 2500 * time.Millisecond
	}
	d := &auxDaemon{c: c, done: make(chan struct{})}
	ln := listen()
	if ln == nil {
		return result{out: "# inconclusive no listener port"}
	}
	srv := httptest.NewUnstartedServer(d)
	srv.Listener.Close()
	srv.Listener = ln
	srv.Start()
	defer func() {
		close(d.done)
		srv.CloseClientConnections()
		srv.Close()
	}()
	u, _ := url.Parse(srv.URL)
	host, port, _ := strings.Cut(u.Host, ":")
	addr, err := ma.NewMultiaddr(fmt.Sprintf("/ip4/%s/tcp/%s", host, port))
	if err != nil {
		return result{out: "# inconclusive listener " + err.Error()}
	}
	cfg := &ipfshttp.Config{}
	cfg.Default()
	cfg.NodeAddr = addr
	cfg.ConnectSwarmsDelay = 0
	cfg.IPFSRequestTimeout = reqTimeout
	cfg.RepoGCTimeout = reqTimeout
	conn, err := ipfshttp.NewConnector(cfg)
	if err != nil {
		return result{out: "# inconclusive connector " + err.Error()}
	}
	defer conn.Shutdown(context.Background())

	ctx, cancel := context.WithTimeout(context.Background(), parent)
	defer cancel()
	ch := make(chan string, 1)
	go func() {
		defer func() {
			if r := recover(); r != nil {
				ch <- "panic"
			}
		}()
		a, b := 0, 0
		var err error
		switch c.op {
		case "blockGet":
			var data []byte
			data, err = conn.BlockGet(ctx, common.CidN(0))
			if bytes.Equal(data, auxBlock) {
				a = 1
			}
		case "blockPut":
			err = conn.BlockPut(ctx, &api.NodeWithMeta{Cid: common.CidN(0), Data: auxBlock})
		case "resolve":
			// a path that has to be resolved by the daemon and whose own segments are CIDs, none of them the answer
			rp := "/ipns/example.verif/some/" + common.CidN(4).String()
			if c.variant%2 == 1 {
				rp = "/ipfs/" + common.CidN(2).String() + "/a/" + common.CidN(4).String()
			}
			ci, e := conn.Resolve(ctx, rp)
			err = e
			if ci.Equals(common.CidN(1)) {
				a = 1
			}
		case "swarmPeers":
			peers, e := conn.SwarmPeers(ctx)
			err = e
			a = len(peers)
		case "repoGC":
			gc, e := conn.RepoGC(ctx)
			err = e
			if gc != nil {
				a = len(gc.Keys)
				for _, k := range gc.Keys {
					if k.Error != "" {
						b++
					}
				}
			}
		case "configKey":
			_, err = conn.ConfigKey("Datastore/StorageMax")
		}
		cls := fmt.Sprintf("ok:%d:%d", a, b)
		if err != nil {
			cls = "err"
			if ctx.Err() != nil {
				cls = "errctx"
			}
		}
		ch <- cls
	}()
	select {
	case r := <-ch:
		return result{out: r}
	case <-time.After(parent + 3*time.Second):
		return result{out: "hang"}
	}
}

func runAux(c acase) string {
	seen := map[string]int{}
	need := 1
	if c.timing() {
		need = 2
	}
	for try := 0; try < 6; try++ {
		r := runAuxOnce(c)
		if r.anomaly || strings.HasPrefix(r.out, "#") {
			continue
		}
		if !c.timing() && (r.out == "hang" || r.out == "errctx") && try < 2 {
			continue
		}
		seen[r.out]++
		if seen[r.out] >= need {
			return c.input() + " => " + r.out
		}
	}
	return "# inconclusive aux " + c.input()
}

func genAux(r *common.Rng) acase {
	c := acase{op: auxOps[r.Intn(len(auxOps))], variant: r.Intn(6), wire: r.Intn(60)}
	c.beh = genWire(r, r.Chance(1, 6))
	if r.Chance(1, 3) {
		// the well-formed replies and their near misses, at status 200 and at the neighbouring codes
		st := []int{200, 200, 200, 201, 206, 500}[r.Intn(6)]
		c.beh = fmt.Sprintf("h.%d.j.%s.f", st, []string{"x", "x", "obj", "eo", "nul", "em", "bt"}[r.Intn(7)])
	}
	return c
}
