package main

// The tables of api/types.go the connector's short-cut rests on, driven DIRECTLY (round 8 final): no daemon, no connector.
//
//	C16 types <text> <status b|e|d|r|i|u> <depth> => <parsed b|e|d|r|i|u|?> <IsPinned of parsed 0|1> <IsPinned of status 0|1> <pin type> <round trip>
//
// <text> is the `Type` text handed to api.IPFSPinStatusFromString with `_` for a blank and `~` for the empty text;
// <pin type> = PinDepth(depth).ToPinMode().String(), <round trip> = PinModeFromString(<pin type>).String() (blank -> `_`, empty -> `~`).

import (
	"fmt"
	"strconv"
	"strings"

	"github.com/ipfs/ipfs-cluster/api"

	"verifharness/common"
)

type ycase struct {
	text   string // encoded
	status string
	depth  int
}

var typeStatuses = []string{"b", "e", "d", "r", "i", "u"}

func statusOf(s string) api.IPFSPinStatus {
	switch s {
	case "b":
		return api.IPFSPinStatusBug
	case "e":
		return api.IPFSPinStatusError
	case "d":
		return api.IPFSPinStatusDirect
	case "r":
		return api.IPFSPinStatusRecursive
	case "i":
		return api.IPFSPinStatusIndirect
	}
	return api.IPFSPinStatusUnpinned
}

func statusName(s api.IPFSPinStatus) string {
	switch s {
	case api.IPFSPinStatusBug:
		return "b"
	case api.IPFSPinStatusError:
		return "e"
	case api.IPFSPinStatusDirect:
		return "d"
	case api.IPFSPinStatusRecursive:
		return "r"
	case api.IPFSPinStatusIndirect:
		return "i"
	case api.IPFSPinStatusUnpinned:
		return "u"
	}
	return "?"
}

func encText(s string) string {
	if s == "" {
		return "~"
	}
	return strings.ReplaceAll(s, " ", "_")
}

func decText(s string) string {
	if s == "~" {
		return ""
	}
	return strings.ReplaceAll(s, "_", " ")
}

func (c ycase) input() string {
	return fmt.Sprintf("C16 types %s %s %d", c.text, c.status, c.depth)
}

func parseTypes(line string) (ycase, bool) {
	f := strings.Fields(line)
	if len(f) < 5 || f[0] != "C16" || f[1] != "types" || !oneOf(f[3], typeStatuses) {
		return ycase{}, false
	}
	d, err := strconv.Atoi(f[4])
	if err != nil || strings.ContainsAny(f[2], "=>#") {
		return ycase{}, false
	}
	return ycase{f[2], f[3], d}, true
}

func b01(b bool) string {
	if b {
		return "1"
	}
	return "0"
}

func runTypes(c ycase) (out string) {
	defer func() {
		if r := recover(); r != nil {
			out = c.input() + " => ? 0 0 panic panic"
		}
	}()
	parsed := api.IPFSPinStatusFromString(decText(c.text))
	d := api.PinDepth(c.depth)
	pt := d.ToPinMode().String()
	rt := api.PinModeFromString(pt).String()
	return fmt.Sprintf("%s => %s %s %s %s %s", c.input(), statusName(parsed), b01(parsed.IsPinned(d)),
		b01(statusOf(c.status).IsPinned(d)), encText(pt), encText(rt))
}

var typeTexts = []string{
	"recursive", "direct", "indirect", "indirect through QmVerifRoot", "indirect through ", "indirect through bafyverif x",
	"", "unpinned", "pinned", "bug", "error", "Direct", "Recursive", "INDIRECT", "direct ", " direct", "directx", "direct through Qm",
	"recursivex", "recursive through Qm", "recursiv", "indirec", "in", " indirect", " recursive", "indirectly", "all", "remote", "-", "0",
}

var typeDepths = []int{-3, -2, -1, 0, 1, 2, 3, 7, 100, 1 << 30, -(1 << 30)}

func genTypes(r *common.Rng) ycase {
	return ycase{encText(typeTexts[r.Intn(len(typeTexts))]), typeStatuses[r.Intn(len(typeStatuses))], typeDepths[r.Intn(len(typeDepths))]}
}
