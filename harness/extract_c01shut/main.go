// extract_c01shut: translator for the shutdown-snapshot / offline-read path of consensus/raft/raft.go
// (raftWrapper.Shutdown, snapshotOnShutdown, Snapshot, latestSnapshot, LastStateRaw) and OfflineState /
// Consensus.Shutdown of consensus.go. Prints (stdout) lean/ClusterVerif/Gen/C01Shutdown.lean: the shape
// Model/C01Shutdown.lean is parameterised by. go/ast only; every fact is about the shape of the code.
// Fail-closed: a statement shape that is not recognised gives `recognised := false`.
package main

import (
	"fmt"
	"go/ast"
	"go/parser"
	"go/token"
	"os"
	"path/filepath"
	"strings"
)

type fact struct {
	name string
	ok   bool
}

var facts []fact

func add(name string, ok bool) bool {
	facts = append(facts, fact{name, ok})
	return ok
}

func str(e ast.Expr) string {
	switch x := e.(type) {
	case nil:
		return ""
	case *ast.Ident:
		return x.Name
	case *ast.SelectorExpr:
		return str(x.X) + "." + x.Sel.Name
	case *ast.CallExpr:
		var a []string
		for _, y := range x.Args {
			a = append(a, str(y))
		}
		return str(x.Fun) + "(" + strings.Join(a, ", ") + ")"
	case *ast.BinaryExpr:
		return str(x.X) + " " + x.Op.String() + " " + str(x.Y)
	case *ast.BasicLit:
		return x.Value
	case *ast.ParenExpr:
		return "(" + str(x.X) + ")"
	case *ast.IndexExpr:
		return str(x.X) + "[" + str(x.Index) + "]"
	case *ast.UnaryExpr:
		return x.Op.String() + str(x.X)
	case *ast.StarExpr:
		return "*" + str(x.X)
	}
	return "?"
}

// callsIn: every call of the function named fun (printed form of the callee) inside n.
func callsIn(n ast.Node, fun string) []*ast.CallExpr {
	var l []*ast.CallExpr
	if n == nil {
		return l
	}
	ast.Inspect(n, func(x ast.Node) bool {
		if c, ok := x.(*ast.CallExpr); ok && str(c.Fun) == fun {
			l = append(l, c)
		}
		return true
	})
	return l
}

// assignIdx: index of the top-level statement of list that assigns (= or :=) the result of a call of fun.
func assignIdx(list []ast.Stmt, fun string, from int) (int, *ast.AssignStmt, *ast.CallExpr) {
	for i := from; i < len(list); i++ {
		as, ok := list[i].(*ast.AssignStmt)
		if !ok || len(as.Rhs) != 1 {
			continue
		}
		if c, ok := as.Rhs[0].(*ast.CallExpr); ok && str(c.Fun) == fun {
			return i, as, c
		}
	}
	return -1, nil, nil
}

func lastReturn(b *ast.BlockStmt) *ast.ReturnStmt {
	if b == nil || len(b.List) == 0 {
		return nil
	}
	r, _ := b.List[len(b.List)-1].(*ast.ReturnStmt)
	return r
}

func hasReturn(st ast.Stmt) bool {
	found := false
	ast.Inspect(st, func(x ast.Node) bool {
		if _, ok := x.(*ast.ReturnStmt); ok {
			found = true
		}
		if _, ok := x.(*ast.FuncLit); ok {
			return false
		}
		return true
	})
	return found
}

type shape struct {
	recognised, called, waitFromBackground bool
	arm                                    string
	armSnapshots, snapshotAfterWait        bool
	offlineNewest                          bool
}

func boolLean(b bool) string {
	if b {
		return "true"
	}
	return "false"
}

func parse(path string) (map[string]*ast.FuncDecl, error) {
	fset := token.NewFileSet()
	file, err := parser.ParseFile(fset, path, nil, 0)
	if err != nil {
		return nil, err
	}
	fns := map[string]*ast.FuncDecl{}
	for _, d := range file.Decls {
		if fd, ok := d.(*ast.FuncDecl); ok && fd.Body != nil {
			k := fd.Name.Name
			if fd.Recv != nil && len(fd.Recv.List) == 1 {
				k = str(fd.Recv.List[0].Type) + "." + k
			}
			fns[k] = fd
		}
	}
	return fns, nil
}

func main() {
	repo := os.Getenv("VERIF_REPO")
	if repo == "" {
		repo = "/repo"
	}
	rf, err := parse(filepath.Join(repo, "consensus", "raft", "raft.go"))
	if err != nil {
		fmt.Fprintln(os.Stderr, "parse raft.go:", err)
		os.Exit(1)
	}
	cf, err := parse(filepath.Join(repo, "consensus", "raft", "consensus.go"))
	if err != nil {
		fmt.Fprintln(os.Stderr, "parse consensus.go:", err)
		os.Exit(1)
	}
	sh := shape{arm: "absent"}
	rec := true

	// ---- raftWrapper.Shutdown ----
	sd := rf["*raftWrapper.Shutdown"]
	rec = add("Shutdown.found", sd != nil) && rec
	if sd != nil {
		l := sd.Body.List
		iSnap, _, _ := assignIdx(l, "rw.snapshotOnShutdown", 0)
		iStop, _, _ := assignIdx(l, "rw.raft.Shutdown", 0)
		all := callsIn(sd.Body, "rw.snapshotOnShutdown")
		sh.called = add("Shutdown.`err := rw.snapshotOnShutdown(..)` is a top-level (unconditional) statement, the only call, before `rw.raft.Shutdown()`",
			iSnap >= 0 && iStop > iSnap && len(all) == 1)
		early := false
		for i := 0; i < len(l) && (iStop < 0 || i <= iStop); i++ {
			if hasReturn(l[i]) {
				early = true
			}
		}
		rec = add("Shutdown.no return before `rw.raft.Shutdown()` (a failed snapshot does not keep Raft running)", iStop >= 0 && !early) && rec
		rec = add("Shutdown.`rw.boltdb.Close()` after `rw.raft.Shutdown()`", func() bool {
			j, _, _ := assignIdx(l, "rw.boltdb.Close", 0)
			return j > iStop && iStop >= 0
		}()) && rec
	}

	// ---- snapshotOnShutdown ----
	so := rf["*raftWrapper.snapshotOnShutdown"]
	rec = add("snapshotOnShutdown.found", so != nil) && rec
	if so != nil {
		var loop *ast.ForStmt
		nloops := 0
		for _, st := range so.Body.List {
			if f, ok := st.(*ast.ForStmt); ok {
				loop, nloops = f, nloops+1
			}
		}
		rec = add("snapshotOnShutdown.exactly one top-level retry loop", nloops == 1) && rec
		if loop != nil && nloops == 1 {
			l := loop.Body.List
			iCtx, ctxAs, ctxCall := assignIdx(l, "context.WithTimeout", 0)
			iWait, waitAs, waitCall := assignIdx(l, "rw.WaitForUpdates", 0)
			okWait := iCtx >= 0 && iWait > iCtx && len(callsIn(loop.Body, "rw.WaitForUpdates")) == 1 &&
				len(callsIn(loop.Body, "context.WithTimeout")) == 1 && len(ctxCall.Args) == 2 && len(waitCall.Args) == 1 &&
				len(ctxAs.Lhs) == 2 && len(waitAs.Lhs) == 1 && str(waitAs.Lhs[0]) == "err"
			// the context waited on is the one WithTimeout made (same object)
			if okWait {
				a, _ := waitCall.Args[0].(*ast.Ident)
				d, _ := ctxAs.Lhs[0].(*ast.Ident)
				okWait = a != nil && d != nil && a.Obj != nil && a.Obj == d.Obj
			}
			rec = add("snapshotOnShutdown.`wctx, cancel := context.WithTimeout(<parent>, <timeout>)` then `err = rw.WaitForUpdates(wctx)` on that very context", okWait) && rec
			if okWait {
				sh.waitFromBackground = add("snapshotOnShutdown.the parent of the wait context is `context.Background()` (the caller's context cannot end the wait)",
					str(ctxCall.Args[0]) == "context.Background()")
				rec = add("snapshotOnShutdown.the wait timeout is `waitForUpdatesShutdownTimeout`", str(ctxCall.Args[1]) == "waitForUpdatesShutdownTimeout") && rec
				// statements between the wait and the next assignment: `cancel()` and at most one `if` on err
				iNext := len(l)
				for i := iWait + 1; i < len(l); i++ {
					if _, ok := l[i].(*ast.AssignStmt); ok {
						iNext = i
						break
					}
				}
				var arms []*ast.IfStmt
				other := false
				for i := iWait + 1; i < iNext; i++ {
					switch x := l[i].(type) {
					case *ast.IfStmt:
						arms = append(arms, x)
					case *ast.ExprStmt:
						if str(x.X) != "cancel()" {
							other = true
						}
					default:
						other = true
					}
				}
				okArm := !other && len(arms) <= 2
				if okArm && len(arms) == 2 {
					// a second `if err != nil { …; return … }` after a deadline-only arm: the other errors
					// either snapshot as well (then every error does) or are returned (no snapshot)
					b := arms[1]
					r := lastReturn(b.Body)
					okArm = b.Init == nil && b.Else == nil && str(b.Cond) == "err != nil" && r != nil && len(r.Results) == 1
					if okArm && str(r.Results[0]) == "rw.Snapshot()" && str(arms[0].Cond) != "err != nil" {
						r0 := lastReturn(arms[0].Body)
						if r0 != nil && len(r0.Results) == 1 && str(r0.Results[0]) == "rw.Snapshot()" && arms[0].Init == nil && arms[0].Else == nil {
							arms[0] = &ast.IfStmt{Cond: b.Cond, Body: b.Body}
						}
					}
				}
				if okArm && len(arms) >= 1 {
					a := arms[0]
					switch c := str(a.Cond); {
					case a.Init != nil || a.Else != nil:
						okArm = false
					case c == "err != nil":
						sh.arm = "anyErr"
					case c == "err == context.DeadlineExceeded" || c == "errors.Is(err, context.DeadlineExceeded)" || c == "context.DeadlineExceeded == err":
						sh.arm = "deadlineOnly"
					default:
						okArm = false
					}
					if okArm {
						r := lastReturn(a.Body)
						sh.armSnapshots = add("snapshotOnShutdown.the arm taken when the wait fails ends in `return rw.Snapshot()`",
							r != nil && len(r.Results) == 1 && str(r.Results[0]) == "rw.Snapshot()")
					}
				}
				rec = add("snapshotOnShutdown.between the wait and the snapshot: `cancel()` and at most one recognised `if` on the wait's error", okArm) && rec
				add("snapshotOnShutdown.EVERY error of the wait takes the snapshot-anyway arm (`if err != nil`)", sh.arm == "anyErr")
				okSnap := false
				if iNext < len(l) {
					as := l[iNext].(*ast.AssignStmt)
					if len(as.Lhs) == 1 && str(as.Lhs[0]) == "err" && as.Tok == token.ASSIGN && len(as.Rhs) == 1 && str(as.Rhs[0]) == "rw.Snapshot()" && iNext+1 < len(l) {
						if f, ok := l[iNext+1].(*ast.IfStmt); ok && str(f.Cond) == "err == nil" {
							r := lastReturn(f.Body)
							okSnap = r != nil && len(r.Results) == 1 && str(r.Results[0]) == "nil"
						}
					}
				}
				sh.snapshotAfterWait = add("snapshotOnShutdown.after the wait `err = rw.Snapshot()`; `if err == nil { return nil }`", okSnap)
			}
		}
	}

	// ---- raftWrapper.Snapshot ----
	sn := rf["*raftWrapper.Snapshot"]
	okSn := false
	if sn != nil {
		c := callsIn(sn.Body, "rw.raft.Snapshot")
		i, _, _ := assignIdx(sn.Body.List, "rw.raft.Snapshot", 0)
		j, _, _ := assignIdx(sn.Body.List, "future.Error", 0)
		okSn = len(c) == 1 && i == 0 && j == 1
	}
	rec = add("Snapshot.`future := rw.raft.Snapshot()`; `err := future.Error()` (Raft is asked, the result awaited)", okSn) && rec

	// ---- latestSnapshot / LastStateRaw / OfflineState ----
	ls := rf["latestSnapshot"]
	okLs := false
	if ls != nil {
		i, _, c := assignIdx(ls.Body.List, "hraft.NewFileSnapshotStore", 0)
		j, as, _ := assignIdx(ls.Body.List, "store.List", 0)
		k, _, oc := assignIdx(ls.Body.List, "store.Open", 0)
		okLs = i == 0 && j > i && k > j && len(c.Args) == 3 && str(c.Args[0]) == "raftDataFolder" && len(as.Lhs) == 2 &&
			len(oc.Args) == 1 && str(oc.Args[0]) == str(as.Lhs[0])+"[0].ID" && len(callsIn(ls.Body, "store.Open")) == 1
	}
	sh.offlineNewest = add("latestSnapshot.opens `snapMetas[0]` of `FileSnapshotStore(raftDataFolder).List()` (newest first)", okLs)
	lr := rf["LastStateRaw"]
	okLr := false
	if lr != nil {
		c := callsIn(lr.Body, "latestSnapshot")
		okLr = len(c) == 1 && len(c[0].Args) == 1 && str(c[0].Args[0]) == "dataFolder" && len(callsIn(lr.Body, "cfg.GetDataFolder")) == 1
	}
	rec = add("LastStateRaw.reads `latestSnapshot(cfg.GetDataFolder())`", okLr) && rec
	of := cf["OfflineState"]
	okOf := false
	if of != nil {
		i, _, _ := assignIdx(of.Body.List, "LastStateRaw", 0)
		j, _, _ := assignIdx(of.Body.List, "dsstate.New", 0)
		k, _, u := assignIdx(of.Body.List, "st.Unmarshal", 0)
		okOf = i == 0 && j > i && k > j && len(u.Args) == 1 && str(u.Args[0]) == "r" && len(callsIn(of.Body, "st.Unmarshal")) == 1
	}
	rec = add("OfflineState.`r, snapExists, err := LastStateRaw(cfg)` … `st.Unmarshal(r)` — the snapshot and nothing else (no log replay)", okOf) && rec
	cs := cf["*Consensus.Shutdown"]
	okCs := false
	if cs != nil {
		i, _, c := assignIdx(cs.Body.List, "cc.raft.Shutdown", 0)
		okCs = i >= 0 && len(c.Args) == 1 && len(callsIn(cs.Body, "cc.raft.Shutdown")) == 1
		if okCs {
			r := lastReturn(cs.Body)
			okCs = r != nil && len(r.Results) == 1 && str(r.Results[0]) == "nil"
		}
	}
	rec = add("Consensus.Shutdown.`err := cc.raft.Shutdown(ctx)` top-level; the function ends in `return nil` (a failed snapshot is only logged)", okCs) && rec
	sh.recognised = rec

	var b strings.Builder
	b.WriteString("/- GENERATED by harness/extract_c01shut from consensus/raft/raft.go and consensus.go (go/ast). Do not edit. -/\n")
	b.WriteString("import ClusterVerif.Model.C01Shutdown\nnamespace CV.C01.Shut.Gen\nopen CV.C01.Shut\n\n")
	fmt.Fprintf(&b, "def shape : Shape :=\n  { recognised := %s, called := %s, waitFromBackground := %s, arm := .%s, armSnapshots := %s,\n    snapshotAfterWait := %s, offlineNewest := %s }\n",
		boolLean(sh.recognised), boolLean(sh.called), boolLean(sh.waitFromBackground), sh.arm, boolLean(sh.armSnapshots),
		boolLean(sh.snapshotAfterWait), boolLean(sh.offlineNewest))
	b.WriteString("\n/-- the individual observations behind the shape -/\ndef facts : List (String × Bool) := [\n")
	for i, f := range facts {
		sep := ","
		if i == len(facts)-1 {
			sep = ""
		}
		fmt.Fprintf(&b, "  (%q, %s)%s\n", f.name, boolLean(f.ok), sep)
	}
	b.WriteString("]\n\nend CV.C01.Shut.Gen\n")
	fmt.Print(b.String())
}
