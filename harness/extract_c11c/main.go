// extract_c11c: third translator of property C11 (round 8c). Reads
// api/rest/client/methods.go and request.go under $VERIF_REPO (default /repo)
// with go/ast and prints lean/ClusterVerif/Gen/C11Client.lean:
//
//   - `clientMethods`: one row per method of *defaultClient that sends a request
//     (exactly one c.do / c.doStream call): verb, path template piece by piece
//     (every %s hole classified by the expression that fills it and the escaping
//     applied to it), query template, body, result object, pre-send refusals;
//   - `noRequestMethods`: the methods of *defaultClient that send nothing;
//   - `decodeLogic`: the switch of handleResponse.
//
// Model/C11Client.lean INTERPRETS the rows; Props/C11.lean proves that the
// model's `build` is that interpretation for every call. Unknown shapes are
// errors (exit 1).
package main

import (
	"fmt"
	"go/ast"
	"go/parser"
	"go/token"
	"os"
	"path/filepath"
	"strconv"
	"strings"
)

func die(format string, a ...interface{}) {
	fmt.Fprintf(os.Stderr, "extract_c11c: "+format+"\n", a...)
	os.Exit(1)
}

func render(e ast.Expr) string {
	switch x := e.(type) {
	case nil:
		return "<nil>"
	case *ast.Ident:
		return x.Name
	case *ast.SelectorExpr:
		return render(x.X) + "." + x.Sel.Name
	case *ast.CallExpr:
		var a []string
		for _, y := range x.Args {
			a = append(a, render(y))
		}
		return render(x.Fun) + "(" + strings.Join(a, ",") + ")"
	case *ast.BasicLit:
		return x.Value
	case *ast.BinaryExpr:
		return render(x.X) + " " + x.Op.String() + " " + render(x.Y)
	case *ast.UnaryExpr:
		return x.Op.String() + render(x.X)
	case *ast.ParenExpr:
		return "(" + render(x.X) + ")"
	case *ast.StarExpr:
		return "*" + render(x.X)
	case *ast.KeyValueExpr:
		return render(x.Key) + ":" + render(x.Value)
	case *ast.CompositeLit:
		var a []string
		for _, y := range x.Elts {
			a = append(a, render(y))
		}
		return render(x.Type) + "{" + strings.Join(a, ",") + "}"
	}
	return fmt.Sprintf("<%T>", e)
}

type fn struct {
	fd     *ast.FuncDecl
	params map[string]string   // parameter name -> rendered type
	assign map[string][]string // local name -> rendered right-hand sides (every assignment)
}

func newFn(fd *ast.FuncDecl) *fn {
	f := &fn{fd: fd, params: map[string]string{}, assign: map[string][]string{}}
	for _, fl := range fd.Type.Params.List {
		for _, n := range fl.Names {
			f.params[n.Name] = render(fl.Type)
		}
	}
	ast.Inspect(fd.Body, func(n ast.Node) bool {
		as, ok := n.(*ast.AssignStmt)
		if !ok {
			return true
		}
		if len(as.Rhs) == 1 {
			for _, l := range as.Lhs {
				if id, ok := l.(*ast.Ident); ok && id.Name != "_" {
					f.assign[id.Name] = append(f.assign[id.Name], render(as.Rhs[0]))
				}
			}
		} else {
			for i, l := range as.Lhs {
				if id, ok := l.(*ast.Ident); ok && i < len(as.Rhs) {
					f.assign[id.Name] = append(f.assign[id.Name], render(as.Rhs[i]))
				}
			}
		}
		return true
	})
	return f
}

// the single right-hand side a local was assigned, "" if none or several
func (f *fn) single(name string) string {
	if a := f.assign[name]; len(a) == 1 {
		return a[0]
	}
	return ""
}

// is `x` a local assigned exactly once from gopath.ParsePath(<string parameter>)?
func (f *fn) parsedPath(x string) bool {
	r := f.single(x)
	if !strings.HasPrefix(r, "gopath.ParsePath(") {
		return false
	}
	arg := strings.TrimSuffix(strings.TrimPrefix(r, "gopath.ParsePath("), ")")
	return f.params[arg] == "string"
}

func (f *fn) pathArg(e ast.Expr) string {
	name := f.fd.Name.Name
	s := render(e)
	if id, ok := e.(*ast.Ident); ok {
		if r := f.single(id.Name); r != "" {
			s = r
		} else if f.params[id.Name] == "string" {
			return ".arg .rawString"
		}
	}
	switch {
	case strings.HasSuffix(s, ".String()") && f.params[strings.TrimSuffix(s, ".String()")] == "cid.Cid":
		return ".arg .cidStr"
	case strings.HasSuffix(s, ".Pretty()") && f.params[strings.TrimSuffix(s, ".Pretty()")] == "peer.ID":
		return ".arg .peerPretty"
	case strings.HasPrefix(s, "url.PathEscape(") && f.params[strings.TrimSuffix(strings.TrimPrefix(s, "url.PathEscape("), ")")] == "string":
		return ".arg .pathEscape"
	case strings.HasPrefix(s, "escapePath(") && strings.HasSuffix(s, ".String())") &&
		f.parsedPath(strings.TrimSuffix(strings.TrimPrefix(s, "escapePath("), ".String())")):
		return ".escPath"
	case strings.HasSuffix(s, ".String()") && f.parsedPath(strings.TrimSuffix(s, ".String()")):
		return ".rawPath"
	}
	die("%s: path argument %s not understood", name, s)
	return ""
}

func (f *fn) queryArg(e ast.Expr, verb string) string {
	name := f.fd.Name.Name
	s := render(e)
	if id, ok := e.(*ast.Ident); ok {
		if f.params[id.Name] == "bool" {
			if verb != "%t" {
				die("%s: bool %s written with %s", name, id.Name, verb)
			}
			return ".boolT"
		}
		if r := f.single(id.Name); r != "" {
			s = r
		}
	}
	if verb != "%s" {
		die("%s: %s written with %s", name, s, verb)
	}
	if strings.HasPrefix(s, "url.QueryEscape(") {
		return ".queryEscape"
	}
	return ".rawString"
}

// the whole query string: opts.ToQuery() / params.ToQueryString()
func (f *fn) wholeQuery(e ast.Expr) string {
	id, ok := e.(*ast.Ident)
	if !ok {
		die("%s: whole query %s is not a local", f.fd.Name.Name, render(e))
	}
	r := f.single(id.Name)
	if strings.HasSuffix(r, ".ToQuery()") && f.params[strings.TrimSuffix(r, ".ToQuery()")] == "api.PinOptions" {
		return ".pinQuery"
	}
	if strings.HasSuffix(r, ".ToQueryString()") && f.params[strings.TrimSuffix(r, ".ToQueryString()")] == "*api.AddParams" {
		return ".addQuery"
	}
	die("%s: whole query %s = %q not understood", f.fd.Name.Name, id.Name, r)
	return ""
}

func unq(e ast.Expr, what string) string {
	bl, ok := e.(*ast.BasicLit)
	if !ok || bl.Kind != token.STRING {
		die("%s is not a string literal: %s", what, render(e))
	}
	s, err := strconv.Unquote(bl.Value)
	if err != nil {
		die("%s: %v", what, err)
	}
	return s
}

// template + arguments -> path pieces, query pieces
func (f *fn) template(tpl string, args []ast.Expr) (string, string) {
	name := f.fd.Name.Name
	next := func() ast.Expr {
		if len(args) == 0 {
			die("%s: template %q has more holes than arguments", name, tpl)
		}
		a := args[0]
		args = args[1:]
		return a
	}
	pathT, queryT := tpl, ""
	hasQ := false
	if i := strings.Index(tpl, "?"); i >= 0 {
		pathT, queryT, hasQ = tpl[:i], tpl[i+1:], true
	}
	if !strings.HasPrefix(pathT, "/") {
		die("%s: path template %q does not start with /", name, pathT)
	}
	var pp []string
	for _, piece := range strings.Split(pathT[1:], "/") {
		switch {
		case piece == "%s":
			a := f.pathArg(next())
			if a == ".escPath" || a == ".rawPath" {
				die("%s: an IPFS path (leading slash) after a slash", name)
			}
			pp = append(pp, a)
		case strings.HasSuffix(piece, "%s") && !strings.Contains(strings.TrimSuffix(piece, "%s"), "%") && piece != "%s":
			a := f.pathArg(next())
			if a != ".escPath" && a != ".rawPath" {
				die("%s: %q glues an argument to a literal segment", name, piece)
			}
			pp = append(pp, ".lit "+strconv.Quote(strings.TrimSuffix(piece, "%s")), a)
		case !strings.Contains(piece, "%") && piece != "":
			pp = append(pp, ".lit "+strconv.Quote(piece))
		default:
			die("%s: path piece %q not understood", name, piece)
		}
	}
	var qp []string
	if hasQ {
		for _, piece := range strings.Split(queryT, "&") {
			if piece == "%s" {
				qp = append(qp, f.wholeQuery(next()))
				continue
			}
			kv := strings.SplitN(piece, "=", 2)
			if len(kv) != 2 || strings.Contains(kv[0], "%") || kv[0] == "" || (kv[1] != "%s" && kv[1] != "%t") {
				die("%s: query piece %q not understood", name, piece)
			}
			qp = append(qp, fmt.Sprintf(".kv %s %s", strconv.Quote(kv[0]), f.queryArg(next(), kv[1])))
		}
	}
	if len(args) != 0 {
		die("%s: template %q has fewer holes than arguments", name, tpl)
	}
	return "[" + strings.Join(pp, ", ") + "]", "[" + strings.Join(qp, ", ") + "]"
}

func (f *fn) pathExpr(e ast.Expr) (string, string) {
	switch x := e.(type) {
	case *ast.BasicLit:
		return f.template(unq(x, "path"), nil)
	case *ast.CallExpr:
		if render(x.Fun) == "fmt.Sprintf" && len(x.Args) >= 1 {
			return f.template(unq(x.Args[0], "format"), x.Args[1:])
		}
	case *ast.BinaryExpr:
		if x.Op == token.ADD {
			if bl, ok := x.X.(*ast.BasicLit); ok {
				return f.template(unq(bl, "path")+"%s", []ast.Expr{x.Y})
			}
		}
	}
	die("%s: path expression %s not understood", f.fd.Name.Name, render(e))
	return "", ""
}

func (f *fn) body(e ast.Expr) string {
	s := render(e)
	switch {
	case s == "nil":
		return ".none"
	case s == "&buf":
		// buf is filled by json.NewEncoder(&buf).Encode(peerAddBody{peer.Encode(<peer.ID parameter>)})
		if f.single("enc") != "json.NewEncoder(&buf)" || f.single("body") != "peerAddBody{pidStr}" {
			die("%s: body buffer not filled by the peerAddBody encoder", f.fd.Name.Name)
		}
		r := f.single("pidStr")
		if !strings.HasPrefix(r, "peer.Encode(") || f.params[strings.TrimSuffix(strings.TrimPrefix(r, "peer.Encode("), ")")] != "peer.ID" {
			die("%s: peer_id is %q", f.fd.Name.Name, r)
		}
		found := false
		ast.Inspect(f.fd.Body, func(n ast.Node) bool {
			if c, ok := n.(*ast.CallExpr); ok && render(c) == "enc.Encode(body)" {
				found = true
			}
			return true
		})
		if !found {
			die("%s: enc.Encode(body) missing", f.fd.Name.Name)
		}
		return ".peerAddJson"
	case f.params[s] == "*files.MultiFileReader":
		return ".multipart"
	}
	die("%s: body %s not understood", f.fd.Name.Name, s)
	return ""
}

// pre-send refusals: every `if cond { … return … }` that starts before the request call
func (f *fn) guards(callPos token.Pos) string {
	var gs []string
	lastErrSrc := ""
	ast.Inspect(f.fd.Body, func(n ast.Node) bool {
		if n == nil || n.Pos() >= callPos {
			return n == nil || n.Pos() < callPos
		}
		switch x := n.(type) {
		case *ast.FuncLit:
			return false
		case *ast.AssignStmt:
			for i, l := range x.Lhs {
				if id, ok := l.(*ast.Ident); ok && id.Name == "err" {
					r := x.Rhs[0]
					if len(x.Rhs) == len(x.Lhs) {
						r = x.Rhs[i]
					}
					lastErrSrc = render(r)
				}
			}
		case *ast.IfStmt:
			returns := false
			for _, st := range x.Body.List {
				if _, ok := st.(*ast.ReturnStmt); ok {
					returns = true
				}
			}
			if !returns {
				return true
			}
			c := render(x.Cond)
			switch {
			case c == "err != nil" && strings.HasPrefix(lastErrSrc, "gopath.ParsePath("):
				gs = append(gs, ".parsePath")
			case c == "err != nil" && strings.HasSuffix(lastErrSrc, ".ToQuery()"):
				gs = append(gs, ".toQuery")
			case c == "err != nil" && strings.HasSuffix(lastErrSrc, ".ToQueryString()"):
				gs = append(gs, ".toQueryString")
			case strings.HasSuffix(c, ` == ""`) && f.params[strings.TrimSuffix(c, ` == ""`)] == "string":
				gs = append(gs, ".emptyArg")
			case c == `filterStr == ""`:
				gs = append(gs, ".emptyFilterName")
			case c == "out == nil":
				// inside the stream handler only; not reached (FuncLit skipped)
			default:
				die("%s: refusal before the request on %q (err from %q) not understood", f.fd.Name.Name, c, lastErrSrc)
			}
		}
		return true
	})
	return "[" + strings.Join(gs, ", ") + "]"
}

func parse(fset *token.FileSet, p string) *ast.File {
	f, err := parser.ParseFile(fset, p, nil, 0)
	if err != nil {
		die("parse %s: %v", p, err)
	}
	return f
}

func recvIsClient(fd *ast.FuncDecl) bool {
	return fd.Recv != nil && len(fd.Recv.List) == 1 && render(fd.Recv.List[0].Type) == "*defaultClient"
}

func main() {
	repo := os.Getenv("VERIF_REPO")
	if repo == "" {
		repo = "/repo"
	}
	fset := token.NewFileSet()
	mf := parse(fset, filepath.Join(repo, "api/rest/client/methods.go"))
	rf := parse(fset, filepath.Join(repo, "api/rest/client/request.go"))

	var rows, silent []string
	escapeOK := false
	for _, d := range mf.Decls {
		fd, ok := d.(*ast.FuncDecl)
		if !ok || fd.Body == nil {
			continue
		}
		if fd.Recv == nil && fd.Name.Name == "escapePath" {
			if len(fd.Body.List) == 1 {
				if rs, ok := fd.Body.List[0].(*ast.ReturnStmt); ok && len(rs.Results) == 1 &&
					render(rs.Results[0]) == "(&url.URL{Path:p}).EscapedPath()" {
					escapeOK = true
				}
			}
			continue
		}
		var calls []*ast.CallExpr
		ast.Inspect(fd.Body, func(n ast.Node) bool {
			if c, ok := n.(*ast.CallExpr); ok {
				s := render(c.Fun)
				if s == "c.do" || s == "c.doStream" || s == "c.doRequest" || s == "c.client.Do" {
					calls = append(calls, c)
				}
			}
			return true
		})
		if !recvIsClient(fd) {
			if len(calls) > 0 {
				die("%s sends a request but is not a method of *defaultClient", fd.Name.Name)
			}
			continue
		}
		if len(calls) == 0 {
			silent = append(silent, strconv.Quote(fd.Name.Name))
			continue
		}
		if len(calls) != 1 || len(calls[0].Args) != 6 {
			die("%s: expected exactly one c.do / c.doStream call with 6 arguments", fd.Name.Name)
		}
		c := calls[0]
		kind := render(c.Fun)
		if kind != "c.do" && kind != "c.doStream" {
			die("%s: sends through %s", fd.Name.Name, kind)
		}
		f := newFn(fd)
		verb := unq(c.Args[1], fd.Name.Name+": verb")
		pp, qp := f.pathExpr(c.Args[2])
		if kind == "c.do" && render(c.Args[3]) != "nil" {
			die("%s: headers %s", fd.Name.Name, render(c.Args[3]))
		}
		body := f.body(c.Args[4])
		out := render(c.Args[5]) != "nil"
		if kind == "c.do" && out {
			if u, ok := c.Args[5].(*ast.UnaryExpr); !ok || u.Op != token.AND {
				die("%s: result object %s is not a pointer to a local", fd.Name.Name, render(c.Args[5]))
			}
		}
		rows = append(rows, fmt.Sprintf("  { name := %s, verb := %s, path := %s, query := %s, body := %s, out := %v, stream := %v, guards := %s }",
			strconv.Quote(fd.Name.Name), strconv.Quote(verb), pp, qp, body, out, kind == "c.doStream", f.guards(c.Pos())))
	}
	if !escapeOK {
		die("escapePath is not `return (&url.URL{Path: p}).EscapedPath()`")
	}

	// handleResponse
	var hr *ast.FuncDecl
	for _, d := range rf.Decls {
		if fd, ok := d.(*ast.FuncDecl); ok && fd.Name.Name == "handleResponse" && recvIsClient(fd) {
			hr = fd
		}
	}
	if hr == nil {
		die("handleResponse not found")
	}
	var sw *ast.SwitchStmt
	for _, st := range hr.Body.List {
		if s, ok := st.(*ast.SwitchStmt); ok {
			if sw != nil {
				die("handleResponse: two switches")
			}
			sw = s
		}
	}
	if sw == nil || sw.Tag != nil || sw.Init != nil {
		die("handleResponse: expected one tagless switch")
	}
	codes := map[string]int{"http.StatusAccepted": 202, "http.StatusNoContent": 204, "http.StatusOK": 200, "http.StatusCreated": 201}
	var sil []string
	lo, hi, errDec, objDec, sawDefault := -1, -1, false, false, false
	for _, cl := range sw.Body.List {
		cc := cl.(*ast.CaseClause)
		if cc.List != nil {
			if sawDefault {
				die("handleResponse: case after default")
			}
			for _, e := range cc.List {
				s := render(e)
				if !strings.HasPrefix(s, "resp.StatusCode == ") {
					die("handleResponse: case %s", s)
				}
				n, ok := codes[strings.TrimPrefix(s, "resp.StatusCode == ")]
				if !ok {
					die("handleResponse: case %s", s)
				}
				sil = append(sil, strconv.Itoa(n))
			}
			for _, st := range cc.Body {
				if es, ok := st.(*ast.ExprStmt); !ok || !strings.HasPrefix(render(es.X), "logger.") {
					die("handleResponse: a silent case does more than log")
				}
			}
			continue
		}
		sawDefault = true
		// default: if StatusCode > lo && StatusCode < hi { decode api.Error; return } ; decode obj
		if len(cc.Body) != 3 {
			die("handleResponse: default arm has %d statements", len(cc.Body))
		}
		ifs, ok := cc.Body[0].(*ast.IfStmt)
		if !ok {
			die("handleResponse: default arm does not start with the error range test")
		}
		var a, b int
		if n, _ := fmt.Sscanf(render(ifs.Cond), "resp.StatusCode > %d && resp.StatusCode < %d", &a, &b); n != 2 {
			die("handleResponse: error range %s", render(ifs.Cond))
		}
		lo, hi = a, b
		body := ""
		for _, st := range ifs.Body.List {
			switch y := st.(type) {
			case *ast.AssignStmt:
				body += render(y.Rhs[0]) + ";"
			case *ast.ReturnStmt:
				body += "return " + render(y.Results[0]) + ";"
			case *ast.IfStmt:
				body += "if " + render(y.Cond) + ";"
				if len(y.Body.List) != 1 {
					die("handleResponse: error arm")
				}
				if r, ok := y.Body.List[0].(*ast.ReturnStmt); !ok || !strings.HasPrefix(render(r.Results[0]), "&api.Error{Code:resp.StatusCode") {
					die("handleResponse: undecodable error body does not return the status code")
				}
			case *ast.DeclStmt:
			default:
				die("handleResponse: error arm statement %T", st)
			}
		}
		errDec = body == "json.Unmarshal(body,&apiErr);if err != nil;return &apiErr;"
		as, ok1 := cc.Body[1].(*ast.AssignStmt)
		if2, ok2 := cc.Body[2].(*ast.IfStmt)
		if ok1 && ok2 && render(as.Rhs[0]) == "json.Unmarshal(body,obj)" && render(if2.Cond) == "err != nil" && len(if2.Body.List) == 1 {
			if r, ok := if2.Body.List[0].(*ast.ReturnStmt); ok && strings.HasPrefix(render(r.Results[0]), "&api.Error{Code:resp.StatusCode") {
				objDec = true
			}
		}
	}
	if !sawDefault {
		die("handleResponse: no default arm")
	}
	// after the switch: return nil
	last, ok := hr.Body.List[len(hr.Body.List)-1].(*ast.ReturnStmt)
	if !ok || render(last.Results[0]) != "nil" {
		die("handleResponse does not end with return nil")
	}

	var b strings.Builder
	b.WriteString("import ClusterVerif.Model.C11Client\n")
	b.WriteString("/-! GENERATED by harness/extract_c11c from api/rest/client/methods.go and request.go. Do not edit. -/\n")
	b.WriteString("namespace CV.C11.Gen\nopen CV.C11\n\n")
	b.WriteString("/-- every method of *defaultClient that sends a request (source order) -/\n")
	b.WriteString("def clientMethods : List CRow := [\n" + strings.Join(rows, ",\n") + "\n]\n\n")
	b.WriteString("/-- the methods of *defaultClient in methods.go that send nothing themselves -/\n")
	b.WriteString("def noRequestMethods : List String := [" + strings.Join(silent, ", ") + "]\n\n")
	fmt.Fprintf(&b, "/-- the switch of handleResponse -/\ndef decodeLogic : DecodeLogic :=\n  { silent := [%s], errLo := %d, errHi := %d, errDecoded := %v, objDecoded := %v }\n\n",
		strings.Join(sil, ", "), lo, hi, errDec, objDec)
	b.WriteString("end CV.C11.Gen\n")
	fmt.Print(b.String())
}
