// C06 harness: the two status views of the real stateless pin tracker, and the
// cluster-wide status maps of the real Cluster.
//
//	C06 t  <self> <up01> <recs> <filters> => S=<cid:st,..> L<f>=<cid:st,..|-> ...
//	C06 gc <self> <follower01> <members> <pin|-> <replies> => <peer:st,..|-> | err
//	C06 gs <self> <follower01> <members> <pins> <replies> => c<cid>=<peer:st,..> ... | - | err
//
// t: a real stateless.Tracker over a real dsstate (in-memory datastore) filled
// with the pinset of the case; an in-process gorpc server with a scripted
// "IPFSConnector" (PinLs/PinLsCid answer from the case's table the way
// ipfshttp does; Pin/Unpin succeed, fail or block as the last operation of
// each CID requires). Operation-tracker entries are created by calling the real
// Track/Untrack and waiting for quiescence. Then Status(cid) for every CID and
// StatusAll(filter) for every filter of the case are recorded.
//
// gc/gs: the real Cluster.Status / Cluster.StatusAll (VerifNewCluster) with a
// fake consensus (Peers, State) and a real gorpc client on a real libp2p host;
// every member is a real loopback libp2p host with a gorpc server whose
// "PinTracker" service answers from the case's reply table (or returns an
// error, or refuses through the server's authorization function); unreachable
// peers are peer IDs nobody listens on.
package main

import (
	"bufio"
	"context"
	"errors"
	"fmt"
	"os"
	"sort"
	"strconv"
	"strings"
	"sync"
	"time"

	ipfscluster "github.com/ipfs/ipfs-cluster"
	"github.com/ipfs/ipfs-cluster/api"
	"github.com/ipfs/ipfs-cluster/datastore/inmem"
	"github.com/ipfs/ipfs-cluster/pintracker/stateless"
	"github.com/ipfs/ipfs-cluster/state"
	"github.com/ipfs/ipfs-cluster/state/dsstate"

	cid "github.com/ipfs/go-cid"
	libp2p "github.com/libp2p/go-libp2p"
	host "github.com/libp2p/go-libp2p-core/host"
	peer "github.com/libp2p/go-libp2p-core/peer"
	protocol "github.com/libp2p/go-libp2p-core/protocol"
	rpc "github.com/libp2p/go-libp2p-gorpc"

	"verifharness/common"
)

const waitFor = 20 * time.Second

/* ---------------------------------------------------------------- facts */

type pinFact struct {
	meta              bool
	rmin, rmax, depth int
	allocs            []int
}

func (p *pinFact) String() string {
	if p == nil {
		return "-"
	}
	al := "x"
	if len(p.allocs) > 0 {
		s := make([]string, len(p.allocs))
		for i, a := range p.allocs {
			s[i] = strconv.Itoa(a)
		}
		al = strings.Join(s, ".")
	}
	m := 0
	if p.meta {
		m = 1
	}
	return fmt.Sprintf("P%d,%d,%d,%d,%s", m, p.rmin, p.rmax, p.depth, al)
}

func parsePin(s string) (*pinFact, bool) {
	if s == "-" {
		return nil, true
	}
	if !strings.HasPrefix(s, "P") {
		return nil, false
	}
	f := strings.Split(s[1:], ",")
	if len(f) != 5 {
		return nil, false
	}
	p := &pinFact{meta: f[0] == "1"}
	var err error
	if p.rmin, err = strconv.Atoi(f[1]); err != nil {
		return nil, false
	}
	if p.rmax, err = strconv.Atoi(f[2]); err != nil {
		return nil, false
	}
	if p.depth, err = strconv.Atoi(f[3]); err != nil {
		return nil, false
	}
	if f[4] != "x" {
		for _, a := range strings.Split(f[4], ".") {
			v, err := strconv.Atoi(a)
			if err != nil || v < 0 {
				return nil, false
			}
			p.allocs = append(p.allocs, v)
		}
	}
	return p, true
}

func (p *pinFact) everywhere() bool { return p.rmin == -1 && p.rmax == -1 }
func (p *pinFact) here(self int) bool {
	if p.everywhere() {
		return true
	}
	for _, a := range p.allocs {
		if a == self {
			return true
		}
	}
	return false
}

func (p *pinFact) apiPin(c cid.Cid, peerOf func(int) peer.ID) *api.Pin {
	pin := api.PinCid(c)
	pin.Name = "n"
	pin.Type = api.DataType
	if p.meta {
		pin.Type = api.MetaType
	}
	pin.ReplicationFactorMin = p.rmin
	pin.ReplicationFactorMax = p.rmax
	pin.MaxDepth = api.PinDepth(p.depth)
	pin.Mode = pin.MaxDepth.ToPinMode()
	pin.Allocations = nil
	for _, a := range p.allocs {
		pin.Allocations = append(pin.Allocations, peerOf(a))
	}
	return pin
}

type rec struct {
	cid  int
	pin  *pinFact
	ipfs byte   // u d r i
	op   string // n | [pur][eqid]
}

type tcase struct {
	self    int
	up      bool
	recs    []rec
	filters []int
}

func (c tcase) input() string {
	rs := "-"
	if len(c.recs) > 0 {
		l := make([]string, len(c.recs))
		for i, r := range c.recs {
			l[i] = fmt.Sprintf("%d:%s:%c:%s", r.cid, r.pin, r.ipfs, r.op)
		}
		rs = strings.Join(l, "/")
	}
	up := 0
	if c.up {
		up = 1
	}
	return fmt.Sprintf("C06 t %d %d %s %s", c.self, up, rs, common.Ints(c.filters))
}

// realisable says whether the operation phases of the case can be produced on a
// real tracker at rest: queued pins need every pin worker busy, there is one
// unpin worker, the remote no-op is synchronous.
func (c tcase) realisable() (bool, string) {
	var pi, pq, ui, uq int
	seen := map[int]bool{}
	last := -1
	for _, r := range c.recs {
		if r.cid <= last || seen[r.cid] {
			return false, "cids not strictly increasing"
		}
		last = r.cid
		seen[r.cid] = true
		switch r.op {
		case "n", "pe", "pd", "ue", "ud", "re", "rd":
		case "pi":
			pi++
		case "pq":
			pq++
		case "ui":
			ui++
		case "uq":
			uq++
		default:
			return false, "operation phase cannot be held at rest: " + r.op
		}
		if strings.IndexByte("udri", r.ipfs) < 0 {
			return false, "bad ipfs code"
		}
	}
	if pq > 0 && pi == 0 {
		return false, "a queued pin needs a pin in progress"
	}
	if ui > 1 || (uq > 0 && ui == 0) {
		return false, "one unpin worker: at most one in progress, queued ones need it"
	}
	if pi > 64 {
		return false, "too many workers"
	}
	return true, ""
}

func parseT(f []string) (tcase, bool) {
	var c tcase
	if len(f) < 4 {
		return c, false
	}
	var err error
	if c.self, err = strconv.Atoi(f[0]); err != nil || c.self < 0 {
		return c, false
	}
	c.up = f[1] == "1"
	if f[2] != "-" {
		for _, rs := range strings.Split(f[2], "/") {
			p := strings.Split(rs, ":")
			if len(p) != 4 || len(p[2]) != 1 {
				return c, false
			}
			var r rec
			if r.cid, err = strconv.Atoi(p[0]); err != nil || r.cid < 0 {
				return c, false
			}
			var ok bool
			if r.pin, ok = parsePin(p[1]); !ok {
				return c, false
			}
			r.ipfs = p[2][0]
			r.op = p[3]
			c.recs = append(c.recs, r)
		}
	}
	if f[3] != "-" {
		for _, x := range strings.Split(f[3], ",") {
			v, err := strconv.Atoi(x)
			if err != nil || v < 0 {
				return c, false
			}
			c.filters = append(c.filters, v)
		}
	}
	return c, true
}

/* ------------------------------------------------ scripted IPFS connector */

type ipfsFake struct {
	mu      sync.Mutex
	up      bool
	table   map[string]byte   // cid string -> u d r i
	script  map[string]string // cid string -> "ok" | "fail" | "block"
	entered chan string       // cid strings of blocked calls, as they arrive
	release chan struct{}
	// round 7: scripted failures and arbitrary answers
	ans    map[string]string // cid string -> <lsD><lsR><lsCid> chars overriding the table
	idx    map[string]int    // cid string -> cid index (picks the type string variant)
	lsErr  map[string]bool   // "direct" / "recursive": that PinLs call fails
	cidErr map[string]bool   // cid string: PinLsCid fails
}

var errScripted = errors.New("scripted failure")

func (f *ipfsFake) act(ctx context.Context, in *api.Pin) error {
	f.mu.Lock()
	s := f.script[in.Cid.String()]
	f.mu.Unlock()
	switch s {
	case "fail":
		return errScripted
	case "block":
		f.entered <- in.Cid.String()
		select {
		case <-f.release:
		case <-ctx.Done():
		}
		return errScripted
	}
	return nil
}

func (f *ipfsFake) Pin(ctx context.Context, in *api.Pin, out *struct{}) error {
	return f.act(ctx, in)
}
func (f *ipfsFake) Unpin(ctx context.Context, in *api.Pin, out *struct{}) error {
	return f.act(ctx, in)
}

// typeString is the "Type" string the daemon's pin/ls answer carries for a
// class of answers; the connector turns it into an IPFSPinStatus with the real
// api.IPFSPinStatusFromString, like ipfshttp does.
var bugStrings = []string{"weird", "", "Direct", "direct ", "all", "recursiv", "in direct", "DIRECT", "indirec"}
var recStrings = []string{"recursive", "recursive", "recursive-ish", "recursive2"}
var indStrings = []string{"indirect through QmXyz", "indirect", "indirectly"}

func typeString(class byte, k int) string {
	if k < 0 {
		k = 0
	}
	switch class {
	case 'd':
		return "direct"
	case 'r':
		return recStrings[k%len(recStrings)]
	case 'i':
		return indStrings[k%len(indStrings)]
	}
	return bugStrings[k%len(bugStrings)]
}

// PinLsCid answers like ipfshttp: pin/ls?arg=<cid>&type=<mode of the pin>.
func (f *ipfsFake) PinLsCid(ctx context.Context, in *api.Pin, out *api.IPFSPinStatus) error {
	f.mu.Lock()
	defer f.mu.Unlock()
	key := in.Cid.String()
	if !f.up || f.cidErr[key] {
		*out = api.IPFSPinStatusError
		return errScripted
	}
	if a, ok := f.ans[key]; ok {
		if a[2] == 'u' {
			*out = api.IPFSPinStatusUnpinned
		} else {
			*out = api.IPFSPinStatusFromString(typeString(a[2], f.idx[key]))
		}
		return nil
	}
	direct := in.MaxDepth.ToPinMode() == api.PinModeDirect
	switch f.table[key] {
	case 'i':
		*out = api.IPFSPinStatusFromString(typeString('i', f.idx[key]))
	case 'd':
		if direct {
			*out = api.IPFSPinStatusFromString("direct")
		} else {
			*out = api.IPFSPinStatusUnpinned
		}
	case 'r':
		if direct {
			*out = api.IPFSPinStatusUnpinned
		} else {
			*out = api.IPFSPinStatusFromString(typeString('r', f.idx[key]))
		}
	default:
		*out = api.IPFSPinStatusUnpinned
	}
	return nil
}

// PinLs answers like pin/ls?type=<filter>.
func (f *ipfsFake) PinLs(ctx context.Context, in string, out *map[string]api.IPFSPinStatus) error {
	f.mu.Lock()
	defer f.mu.Unlock()
	if !f.up || f.lsErr[in] {
		return errScripted
	}
	m := make(map[string]api.IPFSPinStatus)
	for k, v := range f.table {
		if a, ok := f.ans[k]; ok {
			var ch byte = '-'
			switch in {
			case "direct":
				ch = a[0]
			case "recursive":
				ch = a[1]
			}
			if ch != '-' {
				m[k] = api.IPFSPinStatusFromString(typeString(ch, f.idx[k]))
			}
			continue
		}
		switch {
		case v == 'd' && (in == "direct" || in == "all"):
			m[k] = api.IPFSPinStatusFromString("direct")
		case v == 'r' && (in == "recursive" || in == "all"):
			m[k] = api.IPFSPinStatusFromString(typeString('r', f.idx[k]))
		case v == 'i' && (in == "indirect" || in == "all"):
			m[k] = api.IPFSPinStatusFromString(typeString('i', f.idx[k]))
		}
	}
	*out = m
	return nil
}

/* ------------------------------------------------------- tracker cases */

func peerN(i int) peer.ID { return common.PeerN(i) }

func sortedPairs(m map[int]int, extra []string) string {
	keys := make([]int, 0, len(m))
	for k := range m {
		keys = append(keys, k)
	}
	sort.Ints(keys)
	l := make([]string, 0, len(keys)+len(extra))
	for _, k := range keys {
		l = append(l, fmt.Sprintf("%d:%d", k, m[k]))
	}
	l = append(l, extra...)
	if len(l) == 0 {
		return "-"
	}
	return strings.Join(l, ",")
}

// runT returns the output part, or "" plus a reason when the infrastructure
// (not the code under test) failed.
func runT(c tcase) (res string, inconclusive string) { return runTO(c, nil) }

func runTO(c tcase, o *topts) (res string, inconclusive string) {
	ctx := context.Background()
	if o == nil {
		o = &topts{}
	}
	// round 8b: in the RPC-hop cases this peer is a real libp2p host
	peerN := peerN
	if o.hop != nil {
		self := c.self
		peerN = func(i int) peer.ID {
			if i == self {
				return o.hop.a.ID()
			}
			return common.PeerN(i)
		}
	}
	fds := &faultyDS{Datastore: inmem.New()}
	st, err := dsstate.New(fds, "", nil)
	if err != nil {
		return "", "dsstate: " + err.Error()
	}
	index := map[string]int{}
	fake := &ipfsFake{up: c.up, table: map[string]byte{}, script: map[string]string{},
		entered: make(chan string, 256), release: make(chan struct{}),
		ans: map[string]string{}, idx: map[string]int{}, lsErr: map[string]bool{}, cidErr: map[string]bool{}}
	getFails := map[string]bool{}
	for k, a := range o.ans {
		fake.ans[common.CidN(k).String()] = a
	}
	for _, k := range o.getE {
		getFails[common.CidN(k).String()] = true
	}
	for _, k := range o.cidE {
		fake.cidErr[common.CidN(k).String()] = true
	}
	fake.lsErr["direct"], fake.lsErr["recursive"] = o.lsDErr, o.lsRErr
	var pi, pq int
	for _, r := range c.recs {
		ci := common.CidN(r.cid)
		index[ci.String()] = r.cid
		fake.idx[ci.String()] = r.cid
		fake.table[ci.String()] = r.ipfs
		if r.pin != nil {
			if err := st.Add(ctx, r.pin.apiPin(ci, peerN)); err != nil {
				return "", "state add: " + err.Error()
			}
		}
		switch r.op {
		case "pi":
			pi++
		case "pq":
			pq++
		}
	}
	cfg := &stateless.Config{}
	cfg.Default()
	cfg.MaxPinQueueSize = 1000
	cfg.ConcurrentPins = pi + 2
	if pq > 0 {
		cfg.ConcurrentPins = pi // every worker is busy: queued pins stay queued
	}
	stateDown := false
	var ro state.ReadOnly = &faultyState{State: st, getFails: getFails}
	getState := func(ctx context.Context) (state.ReadOnly, error) {
		if stateDown {
			return nil, errScripted
		}
		return ro, nil
	}
	srv := rpc.NewServer(nil, "verif-c06")
	if err := srv.RegisterName("IPFSConnector", fake); err != nil {
		return "", "register: " + err.Error()
	}
	client := rpc.NewClientWithServer(nil, "verif-c06", srv)
	tr := stateless.New(cfg, peerN(c.self), "self", getState)
	tr.SetClient(client)
	released := false
	defer func() {
		if !released {
			close(fake.release)
		}
		tr.Shutdown(ctx)
	}()
	defer func() {
		if r := recover(); r != nil {
			res, inconclusive = "panic", ""
		}
	}()

	other := c.self + 1
	pinFor := func(r rec, local bool) *api.Pin {
		ci := common.CidN(r.cid)
		if r.pin != nil && !r.pin.meta && r.pin.here(c.self) == local {
			return r.pin.apiPin(ci, peerN)
		}
		syn := &pinFact{rmin: 1, rmax: 1, depth: -1, allocs: []int{c.self}}
		if !local {
			syn.allocs = []int{other}
		}
		if r.pin != nil {
			syn.depth = r.pin.depth
		}
		return syn.apiPin(ci, peerN)
	}
	issue := func(r rec) error {
		switch r.op[0] {
		case 'p':
			return tr.Track(ctx, pinFor(r, true))
		case 'u':
			return tr.Untrack(ctx, common.CidN(r.cid))
		default:
			return tr.Track(ctx, pinFor(r, false))
		}
	}
	// wait until the operation on a cid is settled in the given way
	settle := func(r rec, want string) bool {
		ci := common.CidN(r.cid)
		deadline := time.Now().Add(waitFor)
		for time.Now().Before(deadline) {
			oc := tr.OpContext(ctx, ci)
			switch want {
			case "gone":
				if oc == nil {
					return true
				}
			case "error":
				if oc != nil && oc.Err() != nil {
					return true
				}
			}
			time.Sleep(20 * time.Microsecond)
		}
		return false
	}
	// 1. operations that run to completion
	for _, r := range c.recs {
		if r.op == "n" || r.op[1] == 'i' || r.op[1] == 'q' {
			continue
		}
		key := common.CidN(r.cid).String()
		fake.mu.Lock()
		if r.op[1] == 'e' {
			fake.script[key] = "fail"
		} else {
			fake.script[key] = "ok"
		}
		fake.mu.Unlock()
		if err := issue(r); err != nil {
			return "", "track: " + err.Error()
		}
		want := "gone"
		if r.op[1] == 'e' {
			want = "error"
		}
		if !settle(r, want) {
			return "", "timeout: operation " + r.op + " did not settle"
		}
	}
	// 2. operations held in progress, then the queued ones behind them. Track and
	// Untrack only enqueue, but a changed tracker might call the daemon
	// synchronously: never wait for them on this goroutine without a timeout.
	for _, phase := range []byte{'i', 'q'} {
		for _, r := range c.recs {
			if r.op == "n" || r.op[1] != phase {
				continue
			}
			key := common.CidN(r.cid).String()
			fake.mu.Lock()
			fake.script[key] = "block"
			fake.mu.Unlock()
			done := make(chan error, 1)
			go func(r rec) { done <- issue(r) }(r)
			if phase == 'i' {
				select {
				case got := <-fake.entered:
					if got != key {
						return "", "timeout: another call entered the daemon"
					}
				case <-time.After(waitFor):
					return "", "timeout: operation did not start"
				}
			}
			select {
			case err := <-done:
				if err != nil {
					return "", "track: " + err.Error()
				}
			case <-time.After(waitFor):
				return "", "timeout: Track/Untrack did not return"
			}
		}
	}
	select {
	case <-fake.entered:
		return "", "a queued operation started"
	default:
	}

	// the scripted failures apply to the observations, not to the set-up
	stateDown = o.stateErr
	fds.mode = o.listMode
	if o.recoverMode != "" {
		return observeRecover(ctx, tr, c, fake, index, o.recoverMode, &released)
	}
	if o.hop != nil {
		return observeHop(tr, st, c, fake, index, o.hop, &released)
	}

	// observations
	self := peerN(c.self)
	infoBits := func(pi, again *api.PinInfo, want cid.Cid) int {
		b := 0
		if pi.Cid.Equals(want) {
			b |= 1
		}
		if pi.Peer == self {
			b |= 2
		}
		if pi.PeerName == "self" {
			b |= 4
		}
		if pi.Error != "" {
			b |= 8
		}
		if !pi.TS.IsZero() && again != nil && !again.TS.Before(pi.TS) {
			b |= 16
		}
		return b
	}
	each := map[int]int{}
	eachInfo := map[int]int{}
	for _, r := range c.recs {
		ci := common.CidN(r.cid)
		pi := tr.Status(ctx, ci)
		if pi == nil {
			each[r.cid] = 0
			eachInfo[r.cid] = 0
			continue
		}
		each[r.cid] = int(pi.Status)
		if o.info {
			eachInfo[r.cid] = infoBits(pi, tr.Status(ctx, ci), ci)
		}
	}
	var sb strings.Builder
	sb.WriteString("S=" + sortedPairs(each, nil))
	if o.info {
		sb.WriteString(" SI=" + sortedPairs(eachInfo, nil))
	}
	for _, f := range c.filters {
		l := tr.StatusAll(ctx, api.TrackerStatus(f))
		m := map[int]int{}
		var extra []string
		for _, pi := range l {
			k, ok := index[pi.Cid.String()]
			if _, dup := m[k]; !ok || dup {
				extra = append(extra, fmt.Sprintf("%d:%d", 99999, int(pi.Status)))
				continue
			}
			m[k] = int(pi.Status)
		}
		sort.Strings(extra)
		fmt.Fprintf(&sb, " L%d=%s", f, sortedPairs(m, extra))
		if f == 0 && o.info {
			again := map[string]*api.PinInfo{}
			for _, pi := range tr.StatusAll(ctx, api.TrackerStatus(0)) {
				again[pi.Cid.String()] = pi
			}
			li := map[int]int{}
			seen := map[int]int{}
			for _, pi := range l {
				if k, ok := index[pi.Cid.String()]; ok {
					seen[k]++
					li[k] = infoBits(pi, again[pi.Cid.String()], common.CidN(k))
					if seen[k] > 1 {
						li[k] &^= 1
					}
				}
			}
			fmt.Fprintf(&sb, " LI=%s", sortedPairs(li, nil))
		}
	}
	select {
	case <-fake.entered:
		return "", "a queued operation started during the observations"
	default:
	}
	released = true
	close(fake.release)
	return sb.String(), ""
}

/* ------------------------------------------------------ tracker generator */

var singleBits = []int{2, 4, 8, 16, 32, 64, 128, 256, 512, 1024, 2048, 4096}

func genPin(r *common.Rng, self int, kind int) *pinFact {
	p := &pinFact{depth: -1}
	switch x := r.Intn(20); {
	case x < 5:
		p.depth = 0
	case x == 5:
		p.depth = r.Range(1, 3)
	}
	others := []int{}
	for i := 0; i < 4; i++ {
		if i != self && r.Chance(1, 3) {
			others = append(others, i)
		}
	}
	switch kind {
	case 0: // meta
		p.meta = true
		p.depth = -1
		switch r.Intn(4) {
		case 0:
			p.rmin, p.rmax = -1, -1
		case 1:
			p.rmin, p.rmax = 2, 3
			if r.Bool() {
				p.allocs = append([]int{self}, others...)
			}
		}
	case 1: // allocated elsewhere
		if len(others) == 0 {
			others = []int{(self + 1 + r.Intn(3)) % 4}
			if others[0] == self {
				others[0] = self + 1
			}
		}
		p.allocs = others
		p.rmin, p.rmax = 1, len(others)+r.Intn(2)
		if r.Chance(1, 8) {
			p.rmin = -1 // only one factor -1: not "everywhere"
		}
		if r.Chance(1, 10) {
			p.allocs = nil // nobody allocated
			p.rmin, p.rmax = 0, 0
		}
	case 2: // allocated here
		p.allocs = append(others, self)
		if r.Bool() {
			p.allocs = append([]int{self}, others...)
		}
		p.rmin, p.rmax = 1, len(p.allocs)
		if r.Chance(1, 8) {
			p.rmax = -1
		}
	default: // everywhere
		p.rmin, p.rmax = -1, -1
		if r.Chance(1, 4) {
			p.allocs = others
		}
	}
	return p
}

func pick(r *common.Rng, opts ...string) string {
	// opts: value, weight, value, weight...
	tot := 0
	for i := 1; i < len(opts); i += 2 {
		w, _ := strconv.Atoi(opts[i])
		tot += w
	}
	x := r.Intn(tot)
	for i := 0; i < len(opts); i += 2 {
		w, _ := strconv.Atoi(opts[i+1])
		if x < w {
			return opts[i]
		}
		x -= w
	}
	return opts[0]
}

func genT(r *common.Rng, k, total int, thorough bool) tcase {
	c := tcase{self: r.Intn(3), up: !r.Chance(1, 40)}
	maxRecs := 6
	if k < total/4 {
		maxRecs = 3
	}
	if thorough && k > total/2 {
		maxRecs = 9
	}
	n := r.Intn(maxRecs + 1)
	avoidMissing := !r.Chance(3, 20) // mostly no "expected here, not held, no operation" record (K02 situation)
	allowMismatch := r.Chance(1, 5)  // pin mode differs from the IPFS pin type
	consistentOnly := r.Chance(3, 4)
	next := 0
	for j := 0; j < n; j++ {
		next += r.Intn(3)
		rc := rec{cid: next, ipfs: 'u', op: "n"}
		next++
		kindS := pick(r, "absent", "22", "meta", "8", "else", "15", "here", "40", "every", "15")
		var here, elsewhere, meta, absent bool
		switch kindS {
		case "absent":
			absent = true
		case "meta":
			rc.pin = genPin(r, c.self, 0)
			meta = true
		case "else":
			rc.pin = genPin(r, c.self, 1)
			elsewhere = true
		case "here":
			rc.pin = genPin(r, c.self, 2)
			here = true
		default:
			rc.pin = genPin(r, c.self, 3)
			here = true
		}
		// what the daemon holds
		if here {
			exp, oth := byte('r'), byte('d')
			if rc.pin.depth == 0 {
				exp, oth = 'd', 'r'
			}
			switch x := r.Intn(20); {
			case x < 11:
				rc.ipfs = exp
			case x < 16:
				rc.ipfs = 'u'
			case x < 17:
				rc.ipfs = 'i'
			default:
				if allowMismatch {
					rc.ipfs = oth
				} else {
					rc.ipfs = exp
				}
			}
		} else {
			rc.ipfs = pick(r, "u", "12", "r", "4", "d", "2", "i", "2")[0]
		}
		// last operation
		if consistentOnly || r.Chance(2, 3) {
			switch {
			case here:
				rc.op = pick(r, "n", "10", "pd", "4", "pe", "4", "pi", "2", "pq", "1")
			case elsewhere:
				rc.op = pick(r, "n", "10", "rd", "4", "re", "4")
			case absent:
				rc.op = pick(r, "n", "10", "ud", "4", "ue", "4", "ui", "1", "uq", "1")
			case meta:
				rc.op = "n"
			}
		} else {
			rc.op = pick(r, "n", "3", "pd", "2", "pe", "3", "pi", "1", "pq", "1", "ud", "2", "ue", "3", "ui", "1", "uq", "1", "rd", "1", "re", "2")
		}
		if here && avoidMissing && (rc.op == "n" || rc.op[1] == 'd') && (rc.ipfs == 'u' || rc.ipfs == 'i') {
			if rc.pin.depth == 0 {
				rc.ipfs = 'd'
			} else {
				rc.ipfs = 'r'
			}
		}
		c.recs = append(c.recs, rc)
	}
	// make the phases realisable
	var pi, ui int
	for _, rc := range c.recs {
		if rc.op == "pi" {
			pi++
		}
	}
	for j := range c.recs {
		switch c.recs[j].op {
		case "pq":
			if pi == 0 {
				c.recs[j].op = "pi"
				pi++
			}
		case "ui":
			if ui > 0 {
				c.recs[j].op = "ue"
			}
			ui++
		}
	}
	for j := range c.recs {
		if c.recs[j].op == "uq" && ui == 0 {
			c.recs[j].op = "ui"
			ui++
		}
	}
	// filters: all, every single status, the unnamed bit 0, the composites, random unions
	c.filters = append([]int{0}, singleBits...)
	c.filters = append(c.filters, 1, 14, 1536)
	nu := 3
	if thorough {
		nu = 8
	}
	for j := 0; j < nu; j++ {
		f := int(r.Next() & 0x1fff)
		if r.Chance(1, 6) {
			f |= 1 << uint(13+r.Intn(20))
		}
		c.filters = append(c.filters, f)
	}
	if r.Chance(1, 10) {
		c.filters = append(c.filters, 1<<uint(13+r.Intn(30)))
	}
	// no repeated filters (the driver looks lists up by filter)
	seen := map[int]bool{}
	out := c.filters[:0]
	for _, f := range c.filters {
		if !seen[f] {
			seen[f] = true
			out = append(out, f)
		}
	}
	c.filters = out
	return c
}

/* ------------------------------------------------------ cluster-wide cases */

const poolSize = 6 // peers 0..5 are real hosts; higher indices are peer IDs nobody listens on

type peerSvc struct {
	idx int
	net *gnet
}

type gnet struct {
	mu       sync.Mutex
	hosts    []host.Host
	cl       *rpc.Client
	status   map[int]string   // gc: peer -> "o<st>" | "e" | "a"
	statusAl map[int]string   // gs: peer -> "e" | "a" | "o..."
	lists    map[int][][2]int // gs: peer -> (cid, status)
	ids      map[peer.ID]int
	// round 7: members that never answer ("t"), members answering for another cid ("c<st>")
	blocked  chan int      // peers whose handler is blocked, as they arrive
	returned chan int      // peers whose handler returned
	release  chan struct{} // closed to let blocked handlers go
}

func (n *gnet) block(ctx context.Context, idx int) error {
	n.mu.Lock()
	rel := n.release
	n.mu.Unlock()
	n.blocked <- idx
	select {
	case <-rel:
	case <-ctx.Done():
	case <-time.After(waitFor):
	}
	return errScripted
}

func (n *gnet) peerOf(i int) peer.ID {
	if i < len(n.hosts) {
		return n.hosts[i].ID()
	}
	return common.PeerN(i)
}

func (n *gnet) indexOf(p peer.ID) int {
	if i, ok := n.ids[p]; ok {
		return i
	}
	for i := poolSize; i < 64; i++ {
		if common.PeerN(i) == p {
			return i
		}
	}
	return 99999
}

func (s *peerSvc) Status(ctx context.Context, in cid.Cid, out *api.PinInfo) error {
	s.net.mu.Lock()
	r := s.net.status[s.idx]
	s.net.mu.Unlock()
	defer func() { s.net.returned <- s.idx }()
	if r == "t" {
		return s.net.block(ctx, s.idx)
	}
	if strings.HasPrefix(r, "c") { // answers about a cid it was not asked about
		in = common.CidN(63)
		r = "o" + r[1:]
	}
	if !strings.HasPrefix(r, "o") {
		return errScripted
	}
	st, _ := strconv.Atoi(r[1:])
	*out = api.PinInfo{Cid: in, Peer: s.net.hosts[s.idx].ID(),
		PinInfoShort: api.PinInfoShort{PeerName: "p", Status: api.TrackerStatus(st), TS: time.Now()}}
	return nil
}

func (s *peerSvc) StatusAll(ctx context.Context, in api.TrackerStatus, out *[]*api.PinInfo) error {
	s.net.mu.Lock()
	r := s.net.statusAl[s.idx]
	l := s.net.lists[s.idx]
	s.net.mu.Unlock()
	defer func() { s.net.returned <- s.idx }()
	if r == "t" {
		return s.net.block(ctx, s.idx)
	}
	if !strings.HasPrefix(r, "o") {
		return errScripted
	}
	var res []*api.PinInfo
	for _, e := range l {
		res = append(res, &api.PinInfo{Cid: common.CidN(e[0]), Peer: s.net.hosts[s.idx].ID(),
			PinInfoShort: api.PinInfoShort{PeerName: "p", Status: api.TrackerStatus(e[1]), TS: time.Now()}})
	}
	*out = res
	return nil
}

var proto = protocol.ID("/verif/c06/rpc")

func newGnet(ctx context.Context) (*gnet, error) {
	n := &gnet{status: map[int]string{}, statusAl: map[int]string{}, lists: map[int][][2]int{}, ids: map[peer.ID]int{},
		blocked: make(chan int, 64), returned: make(chan int, 256), release: make(chan struct{})}
	for i := 0; i < poolSize; i++ {
		h, err := libp2p.New(ctx, libp2p.ListenAddrStrings("/ip4/127.0.0.1/tcp/0"))
		if err != nil {
			return nil, err
		}
		n.hosts = append(n.hosts, h)
		n.ids[h.ID()] = i
	}
	for i := 0; i < poolSize; i++ {
		idx := i
		srv := rpc.NewServer(n.hosts[i], proto, rpc.WithAuthorizeFunc(func(pid peer.ID, svc, method string) bool {
			n.mu.Lock()
			defer n.mu.Unlock()
			if method == "Status" {
				return n.status[idx] != "a"
			}
			return n.statusAl[idx] != "a"
		}))
		if err := srv.RegisterName("PinTracker", &peerSvc{idx: i, net: n}); err != nil {
			return nil, err
		}
		if i == 0 {
			n.cl = rpc.NewClientWithServer(n.hosts[0], proto, srv)
		} else {
			if err := n.hosts[0].Connect(ctx, peer.AddrInfo{ID: n.hosts[i].ID(), Addrs: n.hosts[i].Addrs()}); err != nil {
				return nil, err
			}
		}
	}
	return n, nil
}

type fakeConsensus struct {
	peers    []peer.ID
	st       state.State
	peersErr bool
	stateErr bool
}

func (f *fakeConsensus) SetClient(*rpc.Client)                         {}
func (f *fakeConsensus) Shutdown(context.Context) error                { return nil }
func (f *fakeConsensus) Ready(context.Context) <-chan struct{}         { return nil }
func (f *fakeConsensus) LogPin(context.Context, *api.Pin) error        { return nil }
func (f *fakeConsensus) LogUnpin(context.Context, *api.Pin) error      { return nil }
func (f *fakeConsensus) AddPeer(context.Context, peer.ID) error        { return nil }
func (f *fakeConsensus) RmPeer(context.Context, peer.ID) error         { return nil }
func (f *fakeConsensus) State(context.Context) (state.ReadOnly, error) {
	if f.stateErr {
		return nil, errScripted
	}
	return f.st, nil
}
func (f *fakeConsensus) Leader(context.Context) (peer.ID, error)       { return "", nil }
func (f *fakeConsensus) WaitForSync(context.Context) error             { return nil }
func (f *fakeConsensus) Clean(context.Context) error                   { return nil }
func (f *fakeConsensus) Peers(context.Context) ([]peer.ID, error) {
	if f.peersErr {
		return nil, errScripted
	}
	return f.peers, nil
}
func (f *fakeConsensus) IsTrustedPeer(context.Context, peer.ID) bool   { return true }
func (f *fakeConsensus) Trust(context.Context, peer.ID) error          { return nil }
func (f *fakeConsensus) Distrust(context.Context, peer.ID) error       { return nil }

// the self peer of the cluster-wide cases is always pool host 0
type gcase struct {
	kind     string // gc | gs
	follower bool
	members  []int
	pin      *pinFact         // gc
	replies  map[int]string   // gc: "o<st>" "e" "a"; gs: "e" "a" "o"
	order    []int            // peers of the reply table, in input order
	pins     map[int]*pinFact // gs
	pinOrder []int
	lists    map[int][][2]int // gs
	peersErr bool             // consensus.Peers fails (members printed as "!")
	stateErr bool             // gc: the state fails (pin printed as "!")
}

func (c gcase) input() string {
	fo := 0
	if c.follower {
		fo = 1
	}
	ms := common.Ints(c.members)
	if c.peersErr {
		ms = "!"
	}
	if c.kind == "gc" {
		ps := c.pin.String()
		if c.stateErr {
			ps = "!"
		}
		rs := "-"
		if len(c.order) > 0 {
			l := make([]string, len(c.order))
			for i, p := range c.order {
				l[i] = fmt.Sprintf("%d:%s", p, c.replies[p])
			}
			rs = strings.Join(l, ",")
		}
		return fmt.Sprintf("C06 gc 0 %d %s %s %s", fo, ms, ps, rs)
	}
	ps := "-"
	if len(c.pinOrder) > 0 {
		l := make([]string, len(c.pinOrder))
		for i, k := range c.pinOrder {
			l[i] = fmt.Sprintf("%d=%s", k, c.pins[k])
		}
		ps = strings.Join(l, "/")
	}
	rs := "-"
	if len(c.order) > 0 {
		l := make([]string, len(c.order))
		for i, p := range c.order {
			s := c.replies[p]
			if s == "o" {
				es := make([]string, len(c.lists[p]))
				for j, e := range c.lists[p] {
					es[j] = fmt.Sprintf("%d:%d", e[0], e[1])
				}
				s = "o" + strings.Join(es, ".")
			}
			l[i] = fmt.Sprintf("%d=%s", p, s)
		}
		rs = strings.Join(l, "/")
	}
	return fmt.Sprintf("C06 gs 0 %d %s %s %s", fo, ms, ps, rs)
}

func parseG(kind string, f []string) (gcase, bool) {
	c := gcase{kind: kind, replies: map[int]string{}, pins: map[int]*pinFact{}, lists: map[int][][2]int{}}
	if len(f) < 5 || f[0] != "0" {
		return c, false
	}
	c.follower = f[1] == "1"
	if f[2] == "!" {
		c.peersErr = true
	} else if f[2] != "-" {
		for _, x := range strings.Split(f[2], ",") {
			v, err := strconv.Atoi(x)
			if err != nil || v < 0 || v >= 64 {
				return c, false
			}
			c.members = append(c.members, v)
		}
	}
	if kind == "gc" {
		var ok bool
		if f[3] == "!" {
			c.stateErr = true
		} else if c.pin, ok = parsePin(f[3]); !ok {
			return c, false
		}
		if f[4] != "-" {
			for _, x := range strings.Split(f[4], ",") {
				kv := strings.SplitN(x, ":", 2)
				if len(kv) != 2 {
					return c, false
				}
				p, err := strconv.Atoi(kv[0])
				if err != nil || p < 0 {
					return c, false
				}
				if _, dup := c.replies[p]; dup {
					return c, false
				}
				if kv[1] != "e" && kv[1] != "a" && kv[1] != "t" {
					if !strings.HasPrefix(kv[1], "o") && !strings.HasPrefix(kv[1], "c") {
						return c, false
					}
					if _, err := strconv.Atoi(kv[1][1:]); err != nil {
						return c, false
					}
				}
				c.replies[p] = kv[1]
				c.order = append(c.order, p)
			}
		}
	} else {
		if f[3] != "-" {
			for _, x := range strings.Split(f[3], "/") {
				kv := strings.SplitN(x, "=", 2)
				if len(kv) != 2 {
					return c, false
				}
				k, err := strconv.Atoi(kv[0])
				p, ok := parsePin(kv[1])
				if err != nil || !ok || p == nil {
					return c, false
				}
				if _, dup := c.pins[k]; dup {
					return c, false
				}
				c.pins[k] = p
				c.pinOrder = append(c.pinOrder, k)
			}
		}
		if f[4] != "-" {
			for _, x := range strings.Split(f[4], "/") {
				kv := strings.SplitN(x, "=", 2)
				if len(kv) != 2 {
					return c, false
				}
				p, err := strconv.Atoi(kv[0])
				if err != nil || p < 0 {
					return c, false
				}
				if _, dup := c.replies[p]; dup {
					return c, false
				}
				c.order = append(c.order, p)
				switch {
				case kv[1] == "e" || kv[1] == "a" || kv[1] == "t":
					c.replies[p] = kv[1]
				case strings.HasPrefix(kv[1], "o"):
					c.replies[p] = "o"
					if len(kv[1]) > 1 {
						for _, e := range strings.Split(kv[1][1:], ".") {
							ab := strings.SplitN(e, ":", 2)
							if len(ab) != 2 {
								return c, false
							}
							a, err1 := strconv.Atoi(ab[0])
							b, err2 := strconv.Atoi(ab[1])
							if err1 != nil || err2 != nil {
								return c, false
							}
							c.lists[p] = append(c.lists[p], [2]int{a, b})
						}
					}
				default:
					return c, false
				}
			}
		}
	}
	// what a real network can produce: only pool hosts answer or refuse; the
	// local peer is called in-process and cannot refuse
	for p, r := range c.replies {
		if p >= poolSize && r != "e" {
			return c, false
		}
		if r == "t" && c.follower && p != 0 {
			continue
		}
		if p == 0 && r == "a" {
			return c, false
		}
	}
	return c, true
}

func runG(n *gnet, c gcase) (res string, inconclusive string) {
	ctx, cancel := context.WithTimeout(context.Background(), 60*time.Second)
	defer cancel()
	st, err := dsstate.New(inmem.New(), "", nil)
	if err != nil {
		return "", "dsstate: " + err.Error()
	}
	n.mu.Lock()
	for i := 0; i < poolSize; i++ {
		n.status[i], n.statusAl[i], n.lists[i] = "e", "e", nil
	}
	for p, r := range c.replies {
		if p < poolSize {
			if c.kind == "gc" {
				n.status[p] = r
			} else {
				n.statusAl[p] = r
				n.lists[p] = c.lists[p]
			}
		}
	}
	n.mu.Unlock()
	if c.kind == "gc" && c.pin != nil {
		if err := st.Add(ctx, c.pin.apiPin(common.CidN(0), n.peerOf)); err != nil {
			return "", "state add: " + err.Error()
		}
	}
	for k, p := range c.pins {
		if err := st.Add(ctx, p.apiPin(common.CidN(k), n.peerOf)); err != nil {
			return "", "state add: " + err.Error()
		}
	}
	cons := &fakeConsensus{st: st, peersErr: c.peersErr, stateErr: c.stateErr}
	for _, m := range c.members {
		cons.peers = append(cons.peers, n.peerOf(m))
	}
	cl := ipfscluster.VerifNewCluster(ctx, ipfscluster.VerifComponents{
		ID:        n.hosts[0].ID(),
		Config:    &ipfscluster.Config{FollowerMode: c.follower},
		Host:      n.hosts[0],
		Consensus: cons,
		RPCClient: n.cl,
	})
	defer cl.VerifCancel()
	defer func() {
		if r := recover(); r != nil {
			res, inconclusive = "panic", ""
		}
	}()
	showMap := func(pm map[string]*api.PinInfoShort) string {
		m := map[int]int{}
		var extra []string
		for ps, info := range pm {
			pid, err := peer.Decode(ps)
			k := 99999
			if err == nil {
				k = n.indexOf(pid)
			}
			if _, dup := m[k]; dup || k == 99999 {
				extra = append(extra, fmt.Sprintf("99999:%d", int(info.Status)))
				continue
			}
			m[k] = int(info.Status)
		}
		sort.Strings(extra)
		return sortedPairs(m, extra)
	}
	hasTimeout := false
	for _, r := range c.replies {
		if r == "t" {
			hasTimeout = true
		}
	}
	// drain what earlier cases left behind
	for drained := false; !drained; {
		select {
		case <-n.blocked:
		case <-n.returned:
		default:
			drained = true
		}
	}
	call := func() string {
		if c.kind == "gc" {
			gpi, err := cl.Status(ctx, common.CidN(0))
			if err != nil || gpi == nil {
				return "err"
			}
			return showMap(gpi.PeerMap)
		}
		l, err := cl.StatusAll(ctx, api.TrackerStatusUndefined)
		if err != nil {
			return "err"
		}
		type ent struct {
			k int
			s string
		}
		var ents []ent
		for _, g := range l {
			k := common.CidIndex(g.Cid, 64)
			if k < 0 {
				k = 99999
			}
			ents = append(ents, ent{k, fmt.Sprintf("c%d=%s", k, showMap(g.PeerMap))})
		}
		if len(ents) == 0 {
			return "-"
		}
		sort.Slice(ents, func(a, b int) bool {
			if ents[a].k != ents[b].k {
				return ents[a].k < ents[b].k
			}
			return ents[a].s < ents[b].s
		})
		ss := make([]string, len(ents))
		for i, e := range ents {
			ss[i] = e.s
		}
		return strings.Join(ss, " ")
	}
	if !hasTimeout {
		return call(), ""
	}
	// some member never answers: the request ends when the cluster context
	// does. Let every other member answer first (no handler activity for
	// `quiet`), then cancel.
	done := make(chan string, 1)
	go func() {
		defer func() {
			if r := recover(); r != nil {
				done <- "panic"
			}
		}()
		done <- call()
	}()
	nblocked := 0
	for {
		select {
		case out := <-done:
			n.finishBlocked(nblocked)
			return out, ""
		case <-n.blocked:
			nblocked++
		case <-n.returned:
		case <-time.After(quiet):
			cl.VerifCancel()
			select {
			case out := <-done:
				n.finishBlocked(nblocked)
				return out, ""
			case <-time.After(waitFor):
				n.finishBlocked(nblocked)
				return "", "timeout: the cluster-wide call did not end with its context"
			}
		}
	}
}

var quiet = 300 * time.Millisecond

// finishBlocked lets the blocked handlers go and arms a new release channel.
func (n *gnet) finishBlocked(nblocked int) {
	n.mu.Lock()
	close(n.release)
	n.release = make(chan struct{})
	n.mu.Unlock()
	deadline := time.After(2 * time.Second)
	for i := 0; i < nblocked; i++ {
		select {
		case <-n.returned:
		case <-deadline:
			return
		}
	}
}

func genMembers(r *common.Rng) []int {
	var m []int
	if !r.Chance(1, 12) {
		m = append(m, 0)
	}
	for i := 1; i < poolSize+3; i++ {
		p := 2
		if i >= poolSize {
			p = 5 // departed/unreachable members are rarer
		}
		if r.Chance(1, p) {
			m = append(m, i)
		}
	}
	for i := len(m) - 1; i > 0; i-- {
		j := r.Intn(i + 1)
		m[i], m[j] = m[j], m[i]
	}
	return m
}

var reportSt = []int{16, 16, 16, 4, 4096, 32, 512, 2, 8, 64, 1024, 128}

func genGc(r *common.Rng) gcase {
	c := gcase{kind: "gc", replies: map[int]string{}, follower: r.Chance(1, 15)}
	c.members = genMembers(r)
	switch x := r.Intn(10); {
	case x == 0:
		c.pin = nil
	case x == 1:
		c.pin = &pinFact{meta: true, depth: -1}
		if r.Bool() {
			c.pin.rmin, c.pin.rmax = -1, -1
		}
	case x == 2:
		c.pin = &pinFact{rmin: -1, rmax: -1, depth: -1}
		if r.Bool() {
			c.pin.allocs = []int{r.Intn(9)}
		}
	default:
		c.pin = &pinFact{depth: -1}
		for i := 0; i < poolSize+3; i++ {
			if r.Chance(1, 3) {
				c.pin.allocs = append(c.pin.allocs, i)
			}
		}
		if len(c.pin.allocs) > 0 && r.Chance(1, 10) {
			c.pin.allocs = append(c.pin.allocs, c.pin.allocs[0]) // repeated allocation
		}
		for i := len(c.pin.allocs) - 1; i > 0; i-- {
			j := r.Intn(i + 1)
			c.pin.allocs[i], c.pin.allocs[j] = c.pin.allocs[j], c.pin.allocs[i]
		}
		c.pin.rmin, c.pin.rmax = 1, len(c.pin.allocs)+1
		if r.Chance(1, 10) {
			c.pin.rmin = -1
		}
	}
	allAnswer := r.Bool()
	for i := 0; i < poolSize+3; i++ {
		if i >= poolSize {
			continue // nobody listens: unreachable
		}
		switch x := r.Intn(10); {
		case allAnswer || x < 6:
			c.replies[i] = "o" + strconv.Itoa(reportSt[r.Intn(len(reportSt))])
		case x < 8 || i == 0:
			c.replies[i] = "e"
		default:
			c.replies[i] = "a"
		}
		c.order = append(c.order, i)
	}
	genGFaults(r, &c)
	return c
}

// timeoutOneIn: one cluster-wide case in so many has a member that never answers (each costs about two seconds)
var timeoutOneIn = 500

// genGFaults is the fault stream of the cluster-wide cases; it draws from a
// fork so that the mostly-valid stream is the one of the earlier rounds.
func genGFaults(r0 *common.Rng, c *gcase) {
	r := r0.Fork(7)
	switch x := r.Intn(50); {
	case x == 0:
		c.peersErr = true
	case x == 1 && c.kind == "gc":
		c.stateErr = true
	}
	if r.Chance(1, timeoutOneIn) {
		p := r.Intn(poolSize)
		if _, ok := c.replies[p]; ok {
			c.replies[p] = "t"
			delete(c.lists, p)
		}
	}
	if c.kind == "gc" {
		for p, v := range c.replies {
			if strings.HasPrefix(v, "o") && r.Chance(1, 12) {
				c.replies[p] = "c" + v[1:] // a member answering about another cid
			}
		}
		return
	}
	// gs: a member's list with a repeated cid (two different statuses) or with an entry missing
	if r.Chance(1, 6) {
		for p := 0; p < poolSize; p++ {
			l := c.lists[p]
			if c.replies[p] != "o" || len(l) == 0 || !r.Chance(1, 2) {
				continue
			}
			e := l[r.Intn(len(l))]
			other := e[1] // what else this member may say about the cid, given the facts
			if pf := c.pins[e[0]]; pf != nil && !pf.meta && pf.here(p) {
				other = reportSt[r.Intn(len(reportSt))]
			}
			switch r.Intn(3) {
			case 0:
				c.lists[p] = append(l, [2]int{e[0], other})
			case 1:
				c.lists[p] = append([][2]int{{e[0], other}}, l...)
			default:
				c.lists[p] = l[:len(l)-1]
			}
		}
	}
}

func genGs(r *common.Rng) gcase {
	c := gcase{kind: "gs", replies: map[int]string{}, pins: map[int]*pinFact{}, lists: map[int][][2]int{}, follower: r.Chance(1, 15)}
	c.members = genMembers(r)
	ncid := r.Intn(5)
	type fact struct {
		k   int
		pin *pinFact
	}
	var facts []fact
	k := 0
	for j := 0; j < ncid; j++ {
		k += r.Intn(2)
		var p *pinFact
		switch x := r.Intn(10); {
		case x == 0:
			p = nil // reported by somebody but not in the pinset
		case x == 1:
			p = &pinFact{meta: true, depth: -1}
		case x == 2:
			p = &pinFact{rmin: -1, rmax: -1, depth: -1}
		default:
			p = &pinFact{depth: -1, rmin: 1}
			for i := 0; i < poolSize+2; i++ {
				if r.Chance(1, 3) {
					p.allocs = append(p.allocs, i)
				}
			}
			p.rmax = len(p.allocs) + 1
		}
		facts = append(facts, fact{k, p})
		if p != nil {
			c.pins[k] = p
			c.pinOrder = append(c.pinOrder, k)
		}
		k++
	}
	filter := 0
	if r.Chance(1, 3) {
		filter = []int{16, 256, 14, 4096 | 4, 2048}[r.Intn(5)]
	}
	allAnswer := r.Bool()
	for i := 0; i < poolSize; i++ {
		switch x := r.Intn(10); {
		case allAnswer || x < 6:
			c.replies[i] = "o"
			for _, f := range facts {
				st := 0
				switch {
				case f.pin == nil:
					if r.Chance(1, 3) {
						st = []int{8, 64, 1024}[r.Intn(3)]
					}
				case f.pin.meta:
					st = 2048
				case f.pin.here(i):
					st = reportSt[r.Intn(9)]
				default:
					st = 256
				}
				if st != 0 && (filter == 0 || st&filter != 0) {
					c.lists[i] = append(c.lists[i], [2]int{f.k, st})
				}
			}
		case x < 8 || i == 0:
			c.replies[i] = "e"
		default:
			c.replies[i] = "a"
		}
		c.order = append(c.order, i)
	}
	genGFaults(r, &c)
	return c
}

/* ------------------------------------------------------------------ main */

func main() {
	a := common.ParseArgs()
	mode := a.Extra["mode"]
	if mode == "" {
		mode = "t"
	}
	out := common.NewOut()
	defer out.Flush()
	var net *gnet
	getNet := func() *gnet {
		if net == nil {
			var err error
			net, err = newGnet(context.Background())
			if err != nil {
				out.Line("# inconclusive cannot set up loopback hosts: %s", strings.ReplaceAll(err.Error(), "\n", " "))
				out.Flush()
				os.Exit(0)
			}
		}
		return net
	}
	timeouts := 0
	var curOpts *topts
	guardedT := func(c tcase) (string, string) {
		type rr struct{ res, inc string }
		ch := make(chan rr, 1)
		o := curOpts
		go func() {
			res, inc := runTO(c, o)
			ch <- rr{res, inc}
		}()
		select {
		case r := <-ch:
			return r.res, r.inc
		case <-time.After(3 * waitFor):
			return "", "timeout: case did not finish"
		}
	}
	var curInput string
	emitT := func(c tcase) {
		input := c.input()
		if curInput != "" {
			input = curInput
		}
		if ok, why := c.realisable(); !ok {
			out.Line("# skipped %s (%s)", input, why)
			return
		}
		res, inc := guardedT(c)
		if inc != "" && !strings.HasPrefix(inc, "timeout") {
			// infrastructure trouble: try once more before giving up on the case
			res, inc = guardedT(c)
		}
		if inc != "" {
			out.Line("# inconclusive %s (%s)", input, strings.ReplaceAll(inc, "\n", " "))
			if strings.HasPrefix(inc, "timeout") {
				timeouts++
				if timeouts >= 8 {
					out.Line("# inconclusive giving up: %d cases timed out", timeouts)
					out.Flush()
					fmt.Fprintln(os.Stderr, "c06: too many cases timed out (operations do not reach the scripted phase)")
					os.Exit(3)
				}
			}
			return
		}
		out.Line("%s => %s", input, res)
	}
	emitTF := func(c tfcase) {
		o, ok := c.opts()
		if !ok {
			out.Line("# skipped unparsable %s", c.input())
			return
		}
		curOpts, curInput = o, c.input()
		emitT(c.t)
		curOpts, curInput = nil, ""
	}
	var hopN *hopNet
	emitTP := func(c tcase) {
		if hopN == nil {
			var err error
			if hopN, err = newHopNet(context.Background()); err != nil {
				out.Line("# inconclusive cannot set up loopback hosts: %s", strings.ReplaceAll(err.Error(), "\n", " "))
				out.Flush()
				os.Exit(0)
			}
		}
		curOpts, curInput = &topts{hop: hopN}, "C06 tp"+strings.TrimPrefix(c.input(), "C06 t")
		emitT(c)
		curOpts, curInput = nil, ""
	}
	emitTR := func(c trcase) {
		curOpts, curInput = &topts{recoverMode: c.mode}, c.input()
		emitT(c.t)
		curOpts, curInput = nil, ""
	}
	emitG := func(c gcase) {
		res, inc := runG(getNet(), c)
		for _, r := range c.replies {
			if r == "t" && inc == "" {
				quiet = 1500 * time.Millisecond
				res2, inc2 := runG(getNet(), c)
				quiet = 300 * time.Millisecond
				if inc2 != "" || res2 != res {
					inc = "timing: a never-answering member gave " + res + " then " + res2
				}
				break
			}
		}
		if inc != "" {
			out.Line("# inconclusive %s (%s)", c.input(), strings.ReplaceAll(inc, "\n", " "))
			return
		}
		out.Line("%s => %s", c.input(), res)
	}
	var fsSrv *fsServer
	emitFS := func(c fsCase) {
		if fsSrv == nil {
			var err error
			if fsSrv, err = newFsServer(); err != nil {
				out.Line("# inconclusive cannot set up the REST API: %s", strings.ReplaceAll(err.Error(), "\n", " "))
				out.Flush()
				os.Exit(0)
			}
		}
		res, inc := runFS(fsSrv, c)
		if inc != "" {
			out.Line("# inconclusive %s (%s)", c.input(), strings.ReplaceAll(inc, "\n", " "))
			return
		}
		out.Line("%s => %s", c.input(), res)
	}
	if a.Extra["stdin"] != "" {
		sc := bufio.NewScanner(os.Stdin)
		sc.Buffer(make([]byte, 1<<20), 1<<24)
		for sc.Scan() {
			line := sc.Text()
			if i := strings.Index(line, " => "); i >= 0 {
				line = line[:i]
			}
			f := strings.Fields(line)
			if len(f) < 2 || f[0] != "C06" {
				continue
			}
			switch f[1] {
			case "t":
				if c, ok := parseT(f[2:]); ok {
					emitT(c)
				} else {
					out.Line("# skipped unparsable %s", line)
				}
			case "tp":
				if c, ok := parseT(f[2:]); ok {
					emitTP(c)
				} else {
					out.Line("# skipped unparsable %s", line)
				}
			case "tf":
				if c, ok := parseTF(f[2:]); ok {
					emitTF(c)
				} else {
					out.Line("# skipped unparsable %s", line)
				}
			case "tr":
				if c, ok := parseTR(f[2:]); ok {
					emitTR(c)
				} else {
					out.Line("# skipped unparsable %s", line)
				}
			case "to":
				if c, ok := parseTO(f[2:]); ok {
					out.Line("%s => %s", c.input(), runTOp(c))
				} else {
					out.Line("# skipped unparsable %s", line)
				}
			case "fs":
				if c, ok := parseFS(f[2:]); ok {
					emitFS(c)
				} else {
					out.Line("# skipped unparsable %s", line)
				}
			case "gc", "gs":
				if c, ok := parseG(f[1], f[2:]); ok {
					emitG(c)
				} else {
					out.Line("# skipped unparsable or unrealisable %s", line)
				}
			}
		}
		return
	}
	total := a.N
	if total < 0 {
		total = 1000
	}
	root := common.NewRng(common.Seed())
	thorough := a.Tier == "thorough"
	if thorough {
		timeoutOneIn = 600
	}
	for k := 0; k < total; k++ {
		if a.Only >= 0 && k != a.Only {
			continue
		}
		r := root.Fork(uint64(k))
		if mode == "t" {
			emitT(genT(r, k, total, thorough))
		} else if mode == "tf" {
			emitTF(genTF(r, k, total, thorough))
		} else if mode == "tr" {
			emitTR(genTR(r, k, total, thorough))
		} else if mode == "fs" {
			emitFS(genFS(r))
		} else if mode == "to" {
			c := genTO(r)
			out.Line("%s => %s", c.input(), runTOp(c))
		} else if mode == "tp" {
			emitTP(genTP(r, k, total, thorough))
		} else if k%2 == 0 {
			emitG(genGc(r))
		} else {
			emitG(genGs(r))
		}
	}
}
