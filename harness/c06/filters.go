// Round 8, suite "filters" (mode fs): the status filter from its text form to the Cluster RPC.
//
//	C06 fs <text> <mask> <st> <local01> => P=<n> H=<acc|rej|code>:<A|L|->:<n> Q=<names|%> R=<n> M=<01> C=<err|A:<n>|L:<n>>
//
// text: the filter string with ' ' written '~' and the empty string written '%'.
// P  api.TrackerStatusFromString(text)
// H  GET /pins?filter=<text>&local=<local> on the real rest.API: accepted or 400, which Cluster RPC got which filter
// Q  the comma-separated names of api.TrackerStatus(mask).String(), sorted (Go's map order is open)
// R  api.TrackerStatusFromString(api.TrackerStatus(mask).String())
// M  api.TrackerStatus(st).Match(api.TrackerStatus(mask))
// C  the real REST client's StatusAll(mask, local) against the same server: refused, or the RPC and the filter it received
package main

import (
	"context"
	"fmt"
	"io/ioutil"
	"net/http"
	"net/url"
	"sort"
	"strconv"
	"strings"
	"sync"
	"time"

	"github.com/ipfs/ipfs-cluster/api"
	"github.com/ipfs/ipfs-cluster/api/rest"
	"github.com/ipfs/ipfs-cluster/api/rest/client"
	rpc "github.com/libp2p/go-libp2p-gorpc"
	ma "github.com/multiformats/go-multiaddr"

	"verifharness/common"
)

type fsCase struct {
	text  string
	mask  int
	st    int
	local bool
}

func encText(s string) string {
	if s == "" {
		return "%"
	}
	return strings.ReplaceAll(s, " ", "~")
}
func decText(s string) string {
	if s == "%" {
		return ""
	}
	return strings.ReplaceAll(s, "~", " ")
}

func (c fsCase) input() string {
	l := 0
	if c.local {
		l = 1
	}
	return fmt.Sprintf("C06 fs %s %d %d %d", encText(c.text), c.mask, c.st, l)
}

func parseFS(f []string) (fsCase, bool) {
	if len(f) != 4 {
		return fsCase{}, false
	}
	m, e1 := strconv.Atoi(f[1])
	s, e2 := strconv.Atoi(f[2])
	if e1 != nil || e2 != nil || m < 0 || s < 0 || (f[3] != "0" && f[3] != "1") {
		return fsCase{}, false
	}
	return fsCase{text: decText(f[0]), mask: m, st: s, local: f[3] == "1"}, true
}

// ---- the recording Cluster service behind the real REST API ----

type fsRec struct {
	mu     sync.Mutex
	method string
	filter int
}

func (r *fsRec) reset() { r.mu.Lock(); r.method, r.filter = "-", 0; r.mu.Unlock() }
func (r *fsRec) get() (string, int) {
	r.mu.Lock()
	defer r.mu.Unlock()
	return r.method, r.filter
}

type fsCluster struct{ r *fsRec }

func (c *fsCluster) StatusAll(ctx context.Context, in api.TrackerStatus, out *[]*api.GlobalPinInfo) error {
	c.r.mu.Lock()
	c.r.method, c.r.filter = "A", int(in)
	c.r.mu.Unlock()
	*out = []*api.GlobalPinInfo{}
	return nil
}
func (c *fsCluster) StatusAllLocal(ctx context.Context, in api.TrackerStatus, out *[]*api.PinInfo) error {
	c.r.mu.Lock()
	c.r.method, c.r.filter = "L", int(in)
	c.r.mu.Unlock()
	*out = []*api.PinInfo{}
	return nil
}

type fsServer struct {
	addr string
	rec  *fsRec
	cl   client.Client
	hc   *http.Client
}

func newFsServer() (*fsServer, error) {
	cfg := &rest.Config{}
	cfg.Default()
	laddr, _ := ma.NewMultiaddr("/ip4/127.0.0.1/tcp/0")
	cfg.HTTPListenAddr = []ma.Multiaddr{laddr}
	a, err := rest.NewAPI(context.Background(), cfg)
	if err != nil {
		return nil, err
	}
	rec := &fsRec{}
	s := rpc.NewServer(nil, "c06fs")
	if err := s.RegisterName("Cluster", &fsCluster{rec}); err != nil {
		return nil, err
	}
	a.SetClient(rpc.NewClientWithServer(nil, "c06fs", s))
	addrs, err := a.HTTPAddresses()
	if err != nil || len(addrs) == 0 {
		return nil, fmt.Errorf("no http address: %v", err)
	}
	hc := &http.Client{Timeout: 20 * time.Second}
	for i := 0; i < 200; i++ {
		resp, err := hc.Get("http://" + addrs[0] + "/nope-startup")
		if err == nil {
			ioutil.ReadAll(resp.Body)
			resp.Body.Close()
			break
		}
		time.Sleep(10 * time.Millisecond)
	}
	host, port, _ := strings.Cut(addrs[0], ":")
	maddr, err := ma.NewMultiaddr("/ip4/" + host + "/tcp/" + port)
	if err != nil {
		return nil, err
	}
	cl, err := client.NewDefaultClient(&client.Config{APIAddr: maddr, DisableKeepAlives: false, Timeout: 20 * time.Second})
	if err != nil {
		return nil, err
	}
	return &fsServer{addr: addrs[0], rec: rec, cl: cl, hc: hc}, nil
}

func runFS(sv *fsServer, c fsCase) (res string, inc string) {
	defer func() {
		if e := recover(); e != nil {
			res, inc = fmt.Sprintf("panic=%q", fmt.Sprint(e)), ""
		}
	}()
	p := int(api.TrackerStatusFromString(c.text))
	// the real handler
	sv.rec.reset()
	resp, err := sv.hc.Get(fmt.Sprintf("http://%s/pins?local=%t&filter=%s", sv.addr, c.local, url.QueryEscape(c.text)))
	if err != nil {
		return "", "http: " + err.Error()
	}
	ioutil.ReadAll(resp.Body)
	resp.Body.Close()
	m, f := sv.rec.get()
	code := strconv.Itoa(resp.StatusCode)
	if resp.StatusCode == 400 {
		code = "rej"
	} else if resp.StatusCode >= 200 && resp.StatusCode < 300 {
		code = "acc"
	}
	h := fmt.Sprintf("%s:%s:%d", code, m, f)
	// String and back
	str := api.TrackerStatus(c.mask).String()
	q := "%"
	if str != "" {
		toks := strings.Split(str, ",")
		sort.Strings(toks)
		q = strings.Join(toks, ",")
	}
	r := int(api.TrackerStatusFromString(str))
	mt := 0
	if api.TrackerStatus(c.st).Match(api.TrackerStatus(c.mask)) {
		mt = 1
	}
	// the real client against the real handler
	sv.rec.reset()
	_, cerr := sv.cl.StatusAll(context.Background(), api.TrackerStatus(c.mask), c.local)
	m2, f2 := sv.rec.get()
	cs := fmt.Sprintf("%s:%d", m2, f2)
	if cerr != nil {
		if m2 != "-" {
			cs = "err-after-" + cs
		} else {
			cs = "err"
		}
	} else if m2 == "-" {
		cs = "ok-without-rpc"
	}
	return fmt.Sprintf("P=%d H=%s Q=%s R=%d M=%d C=%s", p, h, q, r, mt, cs), ""
}

var fsNames = []string{"undefined", "cluster_error", "pin_error", "unpin_error", "error", "pinned", "pinning", "unpinning", "unpinned",
	"remote", "pin_queued", "unpin_queued", "queued", "sharded", "unexpectedly_unpinned"}

func genMask(r *common.Rng) int {
	switch r.Intn(10) {
	case 0:
		return 0
	case 1:
		return 1 << uint(r.Range(1, 12))
	case 2:
		return []int{14, 1536, 14 | 1536, 8190, 8191, 1, 8192, 6416, 4112}[r.Intn(9)]
	case 3, 4:
		m := 0
		for i := 0; i < r.Range(1, 4); i++ {
			m |= 1 << uint(r.Range(0, 13))
		}
		return m
	case 5:
		return r.Intn(1 << 13)
	case 6:
		return r.Intn(1<<13) | 1<<uint(r.Range(13, 40))
	case 7: // almost a composite
		return []int{6, 10, 12, 512, 1024, 14 | 512, 1536 | 2}[r.Intn(7)]
	case 8:
		return 1<<uint(r.Range(13, 40)) | r.Intn(2)
	}
	return r.Intn(1<<13) &^ 1
}

func genFS(r *common.Rng) fsCase {
	var toks []string
	n := r.Range(0, 4)
	for i := 0; i < n; i++ {
		t := fsNames[r.Intn(len(fsNames))]
		switch r.Intn(12) {
		case 0:
			t = t[:len(t)-1]
		case 1:
			t = strings.ToUpper(t[:1]) + t[1:]
		case 2:
			t = t + "x"
		case 3:
			t = ""
		case 4:
			t = []string{"all", "pin", "errors", "0", "16", "pinned|remote", "pinned;remote", "pin_error+unpin_error", "_", "queued."}[r.Intn(10)]
		case 5: // a space inside or around
			k := r.Intn(len(t) + 1)
			t = t[:k] + " " + t[k:]
		}
		if r.Chance(1, 6) {
			t = " " + t
		}
		if r.Chance(1, 6) {
			t = t + " "
		}
		toks = append(toks, t)
	}
	text := strings.Join(toks, ",")
	if r.Chance(1, 25) {
		text = []string{" ", ",", ", ,", "  ", ",,", "undefined", " undefined ", "undefined,"}[r.Intn(8)]
	}
	st := genMask(r)
	if r.Chance(1, 2) {
		st = 1 << uint(r.Range(1, 12))
	}
	return fsCase{text: text, mask: genMask(r), st: st, local: r.Bool()}
}
