// Round 7: tracker cases with failing resources and arbitrary daemon answers
// (tf), Recover / RecoverAll against the status views (tr).
//
//	C06 tf <self> <faults> <recs> <filters> => S=.. SI=<cid:bits,..> L<f>=.. LI=<cid:bits,..>
//	C06 tr <self> <e|a> <recs> => B=<cid:st,..> R=<cid:st,..> A=<cid:st,..> E=<cid:0|1,..>
//
// faults: "-" or a comma list of gs (getState fails), ls (State.List fails),
// lm (State.List fails mid-way: the real dsstate sees an error result after
// some entries), pd / pr (PinLs("direct") / PinLs("recursive") fail), g<cid>
// (State.Get of that cid fails), c<cid> (PinLsCid of that cid fails). The ipfs
// field of a record is u|d|r|i (a go-ipfs daemon holding that) or three
// characters <lsD><lsR><lsCid>: the class of the type string the daemon's
// answer carries for the cid in pin/ls?type=direct, in pin/ls?type=recursive
// ("-": no entry) and in pin/ls?arg=<cid> ("u": not pinned); b is a type string
// IPFSPinStatusFromString does not know.
package main

import (
	"context"
	"fmt"
	"sort"
	"strconv"
	"strings"

	"github.com/ipfs/ipfs-cluster/api"
	"github.com/ipfs/ipfs-cluster/pintracker/stateless"
	"github.com/ipfs/ipfs-cluster/state"

	cid "github.com/ipfs/go-cid"
	ds "github.com/ipfs/go-datastore"
	"github.com/ipfs/go-datastore/query"

	"verifharness/common"
)

type topts struct {
	stateErr       bool
	listMode       string // "" | "ls" | "lm"
	lsDErr, lsRErr bool
	getE, cidE     []int
	ans            map[int]string
	info           bool
	recoverMode    string // "" | "e" | "a"
	hop            *hopNet // round 8b: observe through the real RPC server of a Cluster
}

// faultyDS makes the real dsstate.List fail: at once, or with an error result
// after half of the entries.
type faultyDS struct {
	ds.Datastore
	mode string
}

func (d *faultyDS) Query(q query.Query) (query.Results, error) {
	switch d.mode {
	case "ls":
		return nil, errScripted
	case "lm":
		res, err := d.Datastore.Query(q)
		if err != nil {
			return nil, err
		}
		all, err := res.Rest()
		if err != nil {
			return nil, err
		}
		n := (len(all) + 1) / 2
		i := 0
		return query.ResultsFromIterator(q, query.Iterator{
			Next: func() (query.Result, bool) {
				if i < n {
					i++
					return query.Result{Entry: all[i-1]}, true
				}
				if i == n {
					i++
					return query.Result{Error: errScripted}, true
				}
				return query.Result{}, false
			},
			Close: func() error { return nil },
		}), nil
	}
	return d.Datastore.Query(q)
}

// faultyState makes State.Get fail for chosen cids.
type faultyState struct {
	state.State
	getFails map[string]bool
}

func (s *faultyState) Get(ctx context.Context, c cid.Cid) (*api.Pin, error) {
	if s.getFails[c.String()] {
		return nil, errScripted
	}
	return s.State.Get(ctx, c)
}

type tfcase struct {
	t      tcase
	faults []string
	ans    map[int]string
}

func (c tfcase) input() string {
	rs := "-"
	if len(c.t.recs) > 0 {
		l := make([]string, len(c.t.recs))
		for i, r := range c.t.recs {
			a := string(r.ipfs)
			if o, ok := c.ans[r.cid]; ok {
				a = o
			}
			l[i] = fmt.Sprintf("%d:%s:%s:%s", r.cid, r.pin, a, r.op)
		}
		rs = strings.Join(l, "/")
	}
	fs := "-"
	if len(c.faults) > 0 {
		fs = strings.Join(c.faults, ",")
	}
	return fmt.Sprintf("C06 tf %d %s %s %s", c.t.self, fs, rs, common.Ints(c.t.filters))
}

func (c tfcase) opts() (*topts, bool) {
	o := &topts{ans: c.ans, info: true}
	for _, f := range c.faults {
		switch {
		case f == "gs":
			o.stateErr = true
		case f == "ls" || f == "lm":
			if o.listMode != "" && o.listMode != f {
				return nil, false
			}
			o.listMode = f
		case f == "pd":
			o.lsDErr = true
		case f == "pr":
			o.lsRErr = true
		case len(f) > 1 && (f[0] == 'g' || f[0] == 'c'):
			k, err := strconv.Atoi(f[1:])
			if err != nil || k < 0 {
				return nil, false
			}
			found := false
			for _, r := range c.t.recs {
				if r.cid == k {
					found = true
				}
			}
			if !found {
				return nil, false
			}
			if f[0] == 'g' {
				o.getE = append(o.getE, k)
			} else {
				o.cidE = append(o.cidE, k)
			}
		default:
			return nil, false
		}
	}
	return o, true
}

func parseTF(f []string) (tfcase, bool) {
	c := tfcase{ans: map[int]string{}}
	if len(f) < 4 {
		return c, false
	}
	// the records carry 1- or 3-character answers: hand the one-character form
	// to parseT and keep the overrides aside
	recs := f[2]
	if recs != "-" {
		var out []string
		for _, rs := range strings.Split(recs, "/") {
			p := strings.Split(rs, ":")
			if len(p) != 4 {
				return c, false
			}
			if len(p[2]) == 3 {
				if strings.IndexByte("-drib", p[2][0]) < 0 || strings.IndexByte("-drib", p[2][1]) < 0 || strings.IndexByte("udrib", p[2][2]) < 0 {
					return c, false
				}
				k, err := strconv.Atoi(p[0])
				if err != nil {
					return c, false
				}
				c.ans[k] = p[2]
				p[2] = "u"
			} else if len(p[2]) != 1 {
				return c, false
			}
			out = append(out, strings.Join(p, ":"))
		}
		recs = strings.Join(out, "/")
	}
	t, ok := parseT([]string{f[0], "1", recs, f[3]})
	if !ok {
		return c, false
	}
	c.t = t
	if f[1] != "-" {
		c.faults = strings.Split(f[1], ",")
	}
	if _, ok := c.opts(); !ok {
		return c, false
	}
	return c, true
}

var ansChars = []string{"-", "d", "r", "i", "b"}

func genTF(r *common.Rng, k, total int, thorough bool) tfcase {
	t := genT(r.Fork(1), k, total, thorough)
	t.up = true
	// fewer filters than the fault-free suite: 0, the filters that need the
	// pinset / the daemon / neither, and what genT drew at random
	keep := map[int]bool{0: true, 16: true, 4096: true, 256: true, 2048: true, 4: true, 14: true, 1536: true, 128: true, 2: true}
	fl := t.filters[:0]
	for i, f := range t.filters {
		if keep[f] || i >= 16 {
			fl = append(fl, f)
		}
	}
	t.filters = fl
	c := tfcase{t: t, ans: map[int]string{}}
	gapped := false
	for _, rc := range t.recs {
		if rc.pin != nil && !rc.pin.meta && rc.pin.here(t.self) && (rc.op == "n" || rc.op[1] == 'd') {
			exp := byte('r')
			if rc.pin.depth == 0 {
				exp = 'd'
			}
			if rc.ipfs != exp {
				gapped = true
			}
		}
	}
	// the fault stream: half of the cases have none
	if len(t.recs) > 0 && r.Chance(1, 2) {
		n := 1
		if r.Chance(1, 4) {
			n = 2
		}
		for j := 0; j < n; j++ {
			rc := t.recs[r.Intn(len(t.recs))]
			f := pick(r, "gs", "2", "ls", "2", "lm", "3", "pd", "2", "pr", "2", "g", "4", "c", "4")
			switch f {
			case "g", "c":
				f += strconv.Itoa(rc.cid)
			case "ls":
				if has(c.faults, "lm") {
					continue
				}
			case "lm":
				if has(c.faults, "ls") {
					continue
				}
			}
			if !has(c.faults, f) {
				c.faults = append(c.faults, f)
			}
		}
	}
	// the answer stream: mostly a go-ipfs daemon; sometimes arbitrary answers
	if len(t.recs) > 0 && r.Chance(1, 6) {
		n := 1 + r.Intn(2)
		for j := 0; j < n; j++ {
			rc := t.recs[r.Intn(len(t.recs))]
			a := ansChars[r.Intn(5)] + ansChars[r.Intn(5)] + []string{"u", "d", "r", "i", "b"}[r.Intn(5)]
			c.ans[rc.cid] = a
		}
	}
	// keep the two recorded situations apart (K02 gap, failed remote no-op)
	if gapped || len(c.ans) > 0 {
		for j := range c.t.recs {
			if c.t.recs[j].op == "re" {
				c.t.recs[j].op = "rd"
			}
		}
	}
	return c
}

func has(l []string, x string) bool {
	for _, y := range l {
		if y == x {
			return true
		}
	}
	return false
}

/* ------------------------------------------------------------- recover */

type trcase struct {
	t    tcase
	mode string
}

func (c trcase) input() string {
	s := c.t.input() // C06 t <self> <up> <recs> <filters>
	f := strings.Fields(s)
	return fmt.Sprintf("C06 tr %s %s %s", f[2], c.mode, f[4])
}

func parseTR(f []string) (trcase, bool) {
	if len(f) < 3 || (f[1] != "e" && f[1] != "a") {
		return trcase{}, false
	}
	t, ok := parseT([]string{f[0], "1", f[2], "0"})
	return trcase{t: t, mode: f[1]}, ok
}

func genTR(r *common.Rng, k, total int, thorough bool) trcase {
	t := genT(r.Fork(2), k, total, thorough)
	t.up = true
	t.filters = []int{0}
	mode := "e"
	if r.Chance(1, 3) {
		mode = "a"
	}
	// more items in a recoverable error than the other suites have
	for j := range t.recs {
		rc := &t.recs[j]
		if rc.pin != nil && !rc.pin.meta && rc.pin.here(t.self) && rc.op == "n" && r.Chance(1, 3) {
			rc.ipfs = 'u'
		}
	}
	return trcase{t: t, mode: mode}
}

func observeRecover(ctx context.Context, tr *stateless.Tracker, c tcase, fake *ipfsFake, index map[string]int,
	mode string, released *bool) (string, string) {
	// whatever Recover starts must not finish while the views are read
	fake.mu.Lock()
	for _, r := range c.recs {
		fake.script[common.CidN(r.cid).String()] = "block"
	}
	fake.mu.Unlock()
	listing := func() map[int]int {
		m := map[int]int{}
		for _, pi := range tr.StatusAll(ctx, api.TrackerStatusUndefined) {
			if k, ok := index[pi.Cid.String()]; ok {
				m[k] = int(pi.Status)
			}
		}
		return m
	}
	before, answer, after, etext := map[int]int{}, map[int]int{}, map[int]int{}, map[int]int{}
	text := func(pi *api.PinInfo) int {
		if pi.Error != "" {
			return 1
		}
		return 0
	}
	var extra []string
	if mode == "e" {
		for _, r := range c.recs {
			ci := common.CidN(r.cid)
			if pi := tr.Status(ctx, ci); pi != nil {
				before[r.cid] = int(pi.Status)
			}
		}
		for _, r := range c.recs {
			ci := common.CidN(r.cid)
			pi, err := tr.Recover(ctx, ci)
			if err != nil || pi == nil {
				extra = append(extra, fmt.Sprintf("%d:%d", 99999, r.cid))
				continue
			}
			answer[r.cid] = int(pi.Status)
			etext[r.cid] = text(pi)
			if pi2 := tr.Status(ctx, ci); pi2 != nil {
				after[r.cid] = int(pi2.Status)
			}
		}
	} else {
		before = listing()
		l, err := tr.RecoverAll(ctx)
		if err != nil {
			extra = append(extra, "99999:0")
		}
		for _, pi := range l {
			k, ok := index[pi.Cid.String()]
			if _, dup := answer[k]; !ok || dup {
				extra = append(extra, fmt.Sprintf("99999:%d", int(pi.Status)))
				continue
			}
			answer[k] = int(pi.Status)
			etext[k] = text(pi)
		}
		after = listing()
	}
	sort.Strings(extra)
	*released = true
	close(fake.release)
	return fmt.Sprintf("B=%s R=%s A=%s E=%s", sortedPairs(before, nil), sortedPairs(answer, extra), sortedPairs(after, nil),
		sortedPairs(etext, nil)), ""
}
