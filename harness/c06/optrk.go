package main

// Mode `to` (round 8c): the REAL optracker.OperationTracker driven by a
// sequence of TrackNewOperation calls, read through GetAll, Status and the
// filtered getter Filter(filters...).
//
//	C06 to <cid.type.phase,...|-> <T<n>|P<n>,...|-> => A=<cid:status,..> F=<cid:status,..> S=<cid:status|cid:->
//
// type: 0 unknown 1 pin 2 unpin 3 remote 4 shard (5 = out of range); phase: 0 error
// 1 queued 2 in progress 3 done (4 = out of range).

import (
	"context"
	"fmt"
	"sort"
	"strconv"
	"strings"

	"github.com/ipfs/ipfs-cluster/api"
	"github.com/ipfs/ipfs-cluster/pintracker/optracker"
	"verifharness/common"
)

type toCase struct {
	ops  [][3]int
	flts [][2]int // kind (0 type, 1 phase), value
}

func (c toCase) input() string {
	var o, f []string
	for _, x := range c.ops {
		o = append(o, fmt.Sprintf("%d.%d.%d", x[0], x[1], x[2]))
	}
	for _, x := range c.flts {
		f = append(f, fmt.Sprintf("%s%d", []string{"T", "P"}[x[0]], x[1]))
	}
	os, fs := strings.Join(o, ","), strings.Join(f, ",")
	if os == "" {
		os = "-"
	}
	if fs == "" {
		fs = "-"
	}
	return "C06 to " + os + " " + fs
}

func parseTO(f []string) (toCase, bool) {
	var c toCase
	if len(f) != 2 {
		return c, false
	}
	if f[0] != "-" {
		for _, t := range strings.Split(f[0], ",") {
			p := strings.Split(t, ".")
			if len(p) != 3 {
				return c, false
			}
			var x [3]int
			for i := range p {
				v, err := strconv.Atoi(p[i])
				if err != nil || v < 0 || v > 63 {
					return c, false
				}
				x[i] = v
			}
			c.ops = append(c.ops, x)
		}
	}
	if f[1] != "-" {
		for _, t := range strings.Split(f[1], ",") {
			if len(t) < 2 || (t[0] != 'T' && t[0] != 'P') {
				return c, false
			}
			v, err := strconv.Atoi(t[1:])
			if err != nil || v < 0 || v > 63 {
				return c, false
			}
			k := 0
			if t[0] == 'P' {
				k = 1
			}
			c.flts = append(c.flts, [2]int{k, v})
		}
	}
	return c, true
}

func genTO(r *common.Rng) toCase {
	var c toCase
	n := r.Range(0, 9)
	u := r.Range(1, 5)
	for i := 0; i < n; i++ {
		t, ph := r.Range(1, 3), r.Range(0, 3)
		if r.Chance(1, 8) {
			t = r.Range(0, 5)
		}
		if r.Chance(1, 12) {
			ph = 4
		}
		c.ops = append(c.ops, [3]int{r.Intn(u), t, ph})
	}
	for i, k := 0, r.Range(0, 3); i < k; i++ {
		if r.Chance(1, 2) {
			c.flts = append(c.flts, [2]int{0, r.Range(0, 5)})
		} else {
			c.flts = append(c.flts, [2]int{1, r.Range(0, 4)})
		}
	}
	return c
}

func toPairs(l []*api.PinInfo) string {
	var s []string
	sort.Slice(l, func(i, j int) bool { return common.CidIndex(l[i].Cid, 64) < common.CidIndex(l[j].Cid, 64) })
	for _, p := range l {
		s = append(s, fmt.Sprintf("%d:%d", common.CidIndex(p.Cid, 64), int(p.Status)))
	}
	if len(s) == 0 {
		return "-"
	}
	return strings.Join(s, ",")
}

func runTOp(c toCase) (res string) {
	defer func() {
		if e := recover(); e != nil {
			res = "panic"
		}
	}()
	ctx, cancel := context.WithCancel(context.Background())
	defer cancel()
	opt := optracker.NewOperationTracker(ctx, common.PeerN(0), "p0")
	seen := map[int]bool{}
	var cids []int
	for _, x := range c.ops {
		opt.TrackNewOperation(ctx, api.PinCid(common.CidN(x[0])), optracker.OperationType(x[1]), optracker.Phase(x[2]))
		if !seen[x[0]] {
			seen[x[0]] = true
			cids = append(cids, x[0])
		}
	}
	sort.Ints(cids)
	var flts []interface{}
	for _, f := range c.flts {
		if f[0] == 0 {
			flts = append(flts, optracker.OperationType(f[1]))
		} else {
			flts = append(flts, optracker.Phase(f[1]))
		}
	}
	var st []string
	for _, k := range append(cids, 63) {
		if s, ok := opt.Status(ctx, common.CidN(k)); ok {
			st = append(st, fmt.Sprintf("%d:%d", k, int(s)))
		} else {
			st = append(st, fmt.Sprintf("%d:-", k))
		}
	}
	return "A=" + toPairs(opt.GetAll(ctx)) + " F=" + toPairs(opt.Filter(ctx, flts...)) + " S=" + strings.Join(st, ",")
}
