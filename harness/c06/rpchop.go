// Round 8b — suite "rpc" (mode tp): the tracker views as they come out of the
// REAL RPC layer of a Cluster (rpc_api.go) instead of the tracker's Go API.
//
// A tracker case (same input as mode t) is set up on the real stateless tracker;
// then a real *Cluster (VerifNewCluster: this peer = libp2p host A, the tracker,
// a one-member fake consensus over the real dsstate) gets its real RPC server
// (newRPCServer: ClusterRPCAPI, PinTrackerRPCAPI, the DefaultRPCPolicy
// authorization function) and the views are read
//   S / L<f>    Cluster.StatusLocal(cid) / Cluster.StatusAllLocal(f)   local RPC (dest "", what the REST API does)
//   PS / PL<f>  PinTracker.Status(cid) / PinTracker.StatusAll(f)       from host B over a libp2p stream
//                                                                      (what globalPinInfoCid/Slice of another member does)
//   GL<f>       Cluster.StatusAll(f)  local RPC -> globalPinInfoSlice -> MultiCall PinTracker.StatusAll on the one member
//   GS          Cluster.Status(cid)   local RPC -> globalPinInfoCid, for the cids allocated to this peer only or everywhere
//   X           1 when host B is refused Cluster.StatusAllLocal (RPCClosed), else 0
// S and L<f> go through the whole tracker Spec and the model like a t case; the
// others must show the same view (Spec clauses hop_*).
package main

import (
	"context"
	"fmt"
	"sort"
	"strings"
	"time"

	ipfscluster "github.com/ipfs/ipfs-cluster"
	"github.com/ipfs/ipfs-cluster/api"
	"github.com/ipfs/ipfs-cluster/pintracker/stateless"
	"github.com/ipfs/ipfs-cluster/state"
	"github.com/ipfs/ipfs-cluster/version"

	libp2p "github.com/libp2p/go-libp2p"
	host "github.com/libp2p/go-libp2p-core/host"
	peer "github.com/libp2p/go-libp2p-core/peer"
	rpc "github.com/libp2p/go-libp2p-gorpc"

	"verifharness/common"
)

type hopNet struct {
	a, b host.Host
}

func newHopNet(ctx context.Context) (*hopNet, error) {
	a, err := libp2p.New(ctx, libp2p.ListenAddrStrings("/ip4/127.0.0.1/tcp/0"))
	if err != nil {
		return nil, err
	}
	b, err := libp2p.New(ctx, libp2p.ListenAddrStrings("/ip4/127.0.0.1/tcp/0"))
	if err != nil {
		return nil, err
	}
	if err := b.Connect(ctx, peer.AddrInfo{ID: a.ID(), Addrs: a.Addrs()}); err != nil {
		return nil, err
	}
	return &hopNet{a: a, b: b}, nil
}

func observeHop(tr *stateless.Tracker, st state.State, c tcase, fake *ipfsFake, index map[string]int,
	hn *hopNet, released *bool) (string, string) {
	ctx, cancel := context.WithTimeout(context.Background(), 20*time.Second)
	defer cancel()
	cons := &fakeConsensus{st: st, peers: []peer.ID{hn.a.ID()}}
	cl := ipfscluster.VerifNewCluster(ctx, ipfscluster.VerifComponents{
		ID:        hn.a.ID(),
		Config:    &ipfscluster.Config{RPCPolicy: ipfscluster.DefaultRPCPolicy},
		Host:      hn.a,
		Consensus: cons,
		Tracker:   tr,
	})
	defer cl.VerifCancel()
	srv, err := ipfscluster.VerifNewRPCServer(cl)
	if err != nil {
		return "", "rpc server: " + err.Error()
	}
	local := rpc.NewClientWithServer(hn.a, version.RPCProtocol, srv)
	cl.VerifSetRPC(srv, local)
	remote := rpc.NewClient(hn.b, version.RPCProtocol)
	selfKey := peer.Encode(hn.a.ID())

	showList := func(l []*api.PinInfo, err error) string {
		if err != nil {
			return "99999:1"
		}
		m := map[int]int{}
		var extra []string
		for _, pi := range l {
			k, ok := index[pi.Cid.String()]
			if _, dup := m[k]; !ok || dup || pi.Peer != hn.a.ID() {
				extra = append(extra, fmt.Sprintf("%d:%d", 99999, int(pi.Status)))
				continue
			}
			m[k] = int(pi.Status)
		}
		sort.Strings(extra)
		return sortedPairs(m, extra)
	}
	// a one-member cluster: every GlobalPinInfo must carry exactly this peer
	gStatus := func(g *api.GlobalPinInfo) (int, bool) {
		if len(g.PeerMap) != 1 {
			return 0, false
		}
		info, ok := g.PeerMap[selfKey]
		if !ok || info == nil {
			return 0, false
		}
		return int(info.Status), true
	}

	each, pEach, gEach := map[int]int{}, map[int]int{}, map[int]int{}
	var eachX, pEachX, gEachX []string
	for _, r := range c.recs {
		ci := common.CidN(r.cid)
		var pi api.PinInfo
		if err := local.CallContext(ctx, "", "Cluster", "StatusLocal", ci, &pi); err != nil || !pi.Cid.Equals(ci) {
			eachX = append(eachX, "99999:1")
		} else {
			each[r.cid] = int(pi.Status)
		}
		var pp api.PinInfo
		if err := remote.CallContext(ctx, hn.a.ID(), "PinTracker", "Status", ci, &pp); err != nil || !pp.Cid.Equals(ci) {
			pEachX = append(pEachX, "99999:1")
		} else {
			pEach[r.cid] = int(pp.Status)
		}
		// Cluster.Status only where nobody else would be asked (no dialling of absent peers)
		if r.pin != nil && !r.pin.meta && r.pin.here(c.self) && (r.pin.everywhere() || len(r.pin.allocs) == 1) {
			var g api.GlobalPinInfo
			if err := local.CallContext(ctx, "", "Cluster", "Status", ci, &g); err != nil || !g.Cid.Equals(ci) {
				gEachX = append(gEachX, "99999:1")
			} else if s, ok := gStatus(&g); ok {
				gEach[r.cid] = s
			} else {
				gEachX = append(gEachX, "99999:2")
			}
		}
	}
	var sb strings.Builder
	sb.WriteString("S=" + sortedPairs(each, eachX))
	sb.WriteString(" PS=" + sortedPairs(pEach, pEachX))
	sb.WriteString(" GS=" + sortedPairs(gEach, gEachX))
	for _, f := range c.filters {
		var l, pl []*api.PinInfo
		e1 := local.CallContext(ctx, "", "Cluster", "StatusAllLocal", api.TrackerStatus(f), &l)
		fmt.Fprintf(&sb, " L%d=%s", f, showList(l, e1))
		e2 := remote.CallContext(ctx, hn.a.ID(), "PinTracker", "StatusAll", api.TrackerStatus(f), &pl)
		fmt.Fprintf(&sb, " PL%d=%s", f, showList(pl, e2))
		var gl []*api.GlobalPinInfo
		e3 := local.CallContext(ctx, "", "Cluster", "StatusAll", api.TrackerStatus(f), &gl)
		gm := map[int]int{}
		var gx []string
		if e3 != nil {
			gx = append(gx, "99999:1")
		}
		for _, g := range gl {
			k, ok := index[g.Cid.String()]
			s, ok2 := gStatus(g)
			if _, dup := gm[k]; !ok || dup || !ok2 {
				gx = append(gx, fmt.Sprintf("99999:%d", s))
				continue
			}
			gm[k] = s
		}
		sort.Strings(gx)
		fmt.Fprintf(&sb, " GL%d=%s", f, sortedPairs(gm, gx))
	}
	// the Cluster-level status endpoints are closed to other peers
	var xl []*api.PinInfo
	x := 0
	if err := remote.CallContext(ctx, hn.a.ID(), "Cluster", "StatusAllLocal", api.TrackerStatus(0), &xl); err != nil && rpc.IsAuthorizationError(err) {
		x = 1
	}
	fmt.Fprintf(&sb, " X=%d", x)
	select {
	case <-fake.entered:
		return "", "a queued operation started during the observations"
	default:
	}
	if ctx.Err() != nil {
		return "", "timeout: the RPC observations did not finish"
	}
	*released = true
	close(fake.release)
	return sb.String(), ""
}

// genTP: a tracker case with at most five filters (0 first), so that a case costs
// about as much as a t case although every view is read three times.
func genTP(r *common.Rng, k, total int, thorough bool) tcase {
	c := genT(r, k, total, thorough)
	if len(c.filters) > 5 {
		keep := []int{}
		for _, f := range c.filters {
			if f == 0 {
				keep = append(keep, 0)
				break
			}
		}
		rest := []int{}
		for _, f := range c.filters {
			if f != 0 {
				rest = append(rest, f)
			}
		}
		start := r.Intn(len(rest))
		for j := 0; j < 4 && j < len(rest); j++ {
			keep = append(keep, rest[(start+j*3)%len(rest)])
		}
		// no duplicates
		seen := map[int]bool{}
		out := []int{}
		for _, f := range keep {
			if !seen[f] {
				seen[f] = true
				out = append(out, f)
			}
		}
		c.filters = out
	}
	return c
}
