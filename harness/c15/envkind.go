package main

import (
	"encoding/json"
	"os"
	"sort"
	"strconv"
	"strings"

	"verifharness/common"
)

// Case kind `envk` (round 8 final): the raw TEXT of one variable against the envconfig decode kind of its field.
//	C15 envk <sec> <path> kind=<k> text=<code points> => res=<ok|err|panic> kept=<whole ToJSON unchanged> got=<saved value | ?>

func cps(s string) string {
	if s == "" {
		return "-"
	}
	var l []string
	for _, r := range s {
		l = append(l, strconv.Itoa(int(r)))
	}
	return strings.Join(l, ".")
}

func envkCanon(v interface{}) (string, bool) {
	switch x := v.(type) {
	case bool:
		return strconv.FormatBool(x), true
	case json.Number:
		return x.String(), true
	case float64:
		if x == float64(int64(x)) {
			return strconv.FormatInt(int64(x), 10), true
		}
	case []interface{}:
		var l []string
		for _, e := range x {
			s, ok := e.(string)
			if !ok {
				return "", false
			}
			l = append(l, s)
		}
		return strings.Join(l, ","), true
	case map[string]interface{}:
		var l []string
		for k, e := range x {
			switch y := e.(type) {
			case string:
				l = append(l, k+":"+y)
			case []interface{}:
				if len(y) == 1 {
					if s, ok := y[0].(string); ok {
						l = append(l, k+":"+s)
						continue
					}
				}
				return "", false
			default:
				return "", false
			}
		}
		sort.Strings(l)
		return strings.Join(l, ","), true
	}
	return "", false
}

var envkTexts = map[string][]string{
	"bool":       {"true", "false", "1", "0", "t", "F", "TRUE", "False", "T", "yes", "no", "tRuE", " true", "2", "on"},
	"int64":      {"7", "-1", "+3", "0", "9223372036854775807", "9223372036854775808", "-9223372036854775809", "12a", "1.5", "abc", "-", "1 2", "0x10", "010", "1_0"},
	"int32":      {"7", "2147483647", "2147483648", "abc"},
	"uint64":     {"7", "0", "-1", "+1", "18446744073709551615", "18446744073709551616", "x"},
	"uint32":     {"7", "4294967295", "4294967296", "-1", "x"},
	"strMap":     {"a:b", "a:b,c:d", " ", "a", "a:b:c", "a:b,c", ",", "a:b,", ":", "a:"},
	"strListMap": {"K:v", "A:b,C:d", " ", "a", "a:b:c", "a:b,c", "a:b,"},
}

func envkList(s *section, f *common.C15Field) []string {
	// well-formed pool values joined by commas (one, two, trailing comma, blank) - the codec of the field decides afterwards
	var wf []string
	for _, p := range pool(f) {
		if p.vc != "wf" {
			continue
		}
		v, err := decodeAny(p.json)
		if err != nil {
			continue
		}
		if l, ok := v.([]interface{}); ok {
			for _, e := range l {
				if sv, ok := e.(string); ok && !strings.Contains(sv, ",") && strings.TrimSpace(sv) != "" {
					wf = append(wf, sv)
				}
			}
		}
	}
	out := []string{" ", "  \t", ",", "x,,y"}
	if len(wf) > 0 {
		out = append(out, wf[0], wf[0]+","+wf[len(wf)-1], wf[0]+",", ","+wf[0], wf[0]+", "+wf[0])
	}
	return out
}

func runEnvK(s *section, f *common.C15Field, kind, text string) {
	obj := s.def.mk()
	if guard(func() error { return obj.LoadJSON([]byte(compact(s.base))) }) != "ok" {
		return
	}
	before, _ := obj.ToJSON()
	name := f.EnvName(s.schema.EnvPrefix)
	os.Setenv(name, text)
	res := guard(obj.ApplyEnvVars)
	os.Unsetenv(name)
	kept, got := 0, "?"
	if res != "panic" {
		after, err := obj.ToJSON()
		if err == nil && string(after) == string(before) {
			kept = 1
		}
		// the saved value equals the decoded one only on rows loaded and saved directly (SetIfNotDefault / mergo skip a zero,
		// lenient list codecs drop elements, codecs normalise): elsewhere only res / kept are compared
		if res == "ok" && err == nil && f.Load == "direct" && f.Save == "direct" && f.Codec == "" {
			var m map[string]interface{}
			if json.Unmarshal(after, &m) == nil {
				if c, ok := envkCanon(getPath(m, f.Path)); ok {
					got = cps(c)
				}
			}
		}
	}
	out.Line("C15 envk %s %s kind=%s text=%s => res=%s kept=%d got=%s", s.def.name, f.JSONPath(), kind, cps(text), res, kept, got)
}

func envkBoundary(fields []fref) {
	for _, fr := range fields {
		kind := common.C15EnvKind(fr.f.JType)
		texts := envkTexts[kind]
		if kind == "strList" {
			texts = envkList(fr.s, fr.f)
		}
		for _, t := range texts {
			if t == "" {
				continue
			}
			runEnvK(fr.s, fr.f, kind, t)
		}
	}
}
