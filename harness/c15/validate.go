// C15 suite "val": the real Validate() of every section against the conjunct model.
//
//   C15 val <section> sets=<json.path:=<escaped json>|DEL;...> wf=<0|1> conj=<enc;enc;…> env=<term=tok,…>
//       => res=<ok|err|panic> vres=<ok|err|panic>
//
// sets: keys of the section's default JSON replaced (DEL = key removed); res: LoadJSON on a fresh object;
// vres: Validate() called directly on that object afterwards (whatever LoadJSON said); env: the Config fields the
// conjuncts read, by reflection on the same object; conj: the translator's conjuncts (common.C15VConj.Encode).
package main

import (
	"fmt"
	"reflect"
	"sort"
	"strconv"
	"strings"

	"verifharness/common"
)

func fieldValue(c comp, path string) (reflect.Value, bool) {
	v := reflect.ValueOf(c)
	for _, p := range strings.Split(path, ".") {
		for v.Kind() == reflect.Ptr || v.Kind() == reflect.Interface {
			if v.IsNil() {
				return v, false
			}
			v = v.Elem()
		}
		if v.Kind() != reflect.Struct {
			return v, false
		}
		v = v.FieldByName(p)
		if !v.IsValid() {
			return v, false
		}
	}
	return v, true
}

func envTok(c comp, term string) string {
	v, ok := fieldValue(c, term[2:])
	if !ok {
		return "-"
	}
	switch term[:2] {
	case "l:":
		switch v.Kind() {
		case reflect.Slice, reflect.Map, reflect.String, reflect.Array:
			return "int:" + strconv.Itoa(v.Len())
		}
		return "-"
	case "s:":
		if v.CanInterface() {
			if s, ok := v.Interface().(fmt.Stringer); ok {
				return "str:" + esc(s.String())
			}
		}
		return "-"
	}
	switch v.Kind() {
	case reflect.Int, reflect.Int8, reflect.Int16, reflect.Int32, reflect.Int64:
		return "int:" + strconv.FormatInt(v.Int(), 10)
	case reflect.Uint, reflect.Uint8, reflect.Uint16, reflect.Uint32, reflect.Uint64:
		return "int:" + strconv.FormatUint(v.Uint(), 10)
	case reflect.Float32, reflect.Float64:
		lo, hi, _ := common.C15FracOf(v.Float())
		return fmt.Sprintf("frac:%d/%d", lo, hi)
	case reflect.Bool:
		if v.Bool() {
			return "bool:1"
		}
		return "bool:0"
	case reflect.String:
		return "str:" + esc(v.String())
	case reflect.Ptr, reflect.Slice, reflect.Map, reflect.Interface, reflect.Func, reflect.Chan:
		if v.IsNil() {
			return "nil"
		}
		return "nonnil"
	}
	return "-"
}

type valSet struct{ path, json string } // json == "DEL": remove the key

func runVal(s *section, sets []valSet, wf bool) {
	if s.bad {
		return
	}
	m := clone(s.base).(map[string]interface{})
	var desc []string
	for _, st := range sets {
		p := strings.Split(st.path, ".")
		if st.json == "DEL" {
			cur := m
			for _, k := range p[:len(p)-1] {
				nx, ok := cur[k].(map[string]interface{})
				if !ok {
					cur = nil
					break
				}
				cur = nx
			}
			if cur != nil {
				delete(cur, p[len(p)-1])
			}
			desc = append(desc, st.path+":=DEL")
			continue
		}
		v, err := decodeAny(st.json)
		if err != nil {
			out.Line("# bad-value %s", st.json)
			return
		}
		setPath(m, p, v)
		desc = append(desc, st.path+":="+esc(st.json))
	}
	obj := s.def.mk()
	res := guard(func() error { return obj.LoadJSON([]byte(compact(m))) })
	vres := guard(obj.Validate)
	terms := map[string]bool{}
	var conj []string
	for _, c := range s.schema.VConj {
		conj = append(conj, c.Encode())
		for _, t := range c.Terms() {
			terms[t] = true
		}
	}
	var tl []string
	for t := range terms {
		tl = append(tl, t)
	}
	sort.Strings(tl)
	var env []string
	for _, t := range tl {
		env = append(env, t+"="+envTok(obj, t))
	}
	w := 0
	if wf {
		w = 1
	}
	d := strings.Join(desc, ";")
	if d == "" {
		d = "-"
	}
	out.Line("C15 val %s sets=%s wf=%d conj=%s env=%s => res=%s vres=%s", s.def.name, d, w, strings.Join(conj, ";"), strings.Join(env, ","), res, vres)
}

// candidates: type-correct JSON values of a row around the constants of the conjuncts.
func valCandidates(s *section, f *common.C15Field) []string {
	if f.Load == "codecAlways" {
		return []string{"KEEP"} // an absent key is the empty text, which the parser refuses (swept by the set cases)
	}
	if f.Codec != "" || strings.HasPrefix(f.Load, "codec") || f.Load == "peerListStar" || f.Load == "tlsPath" {
		if f.Ty == "list" {
			return []string{"DEL", "[]", "KEEP"}
		}
		return []string{"DEL", "KEEP"}
	}
	switch f.Ty {
	case "int", "ptrint":
		return append([]string{"-2", "-1", "0", "1", "2", "5", "6", "7", "4095", "4096", "4097"}, constCands(s, "int")...)
	case "uint":
		return []string{"0", "1", "2", "7"}
	case "dur":
		return append([]string{`"-1s"`, `"-1ns"`, `"0s"`, `"1ns"`, `"5s"`, `"6s"`}, constCands(s, "dur")...)
	case "float", "ptrfloat":
		return []string{"-0.5", "0", "0.0000001", "0.5", "0.999999", "1", "1.0000001", "1.5"}
	case "bool":
		return []string{"true", "false"}
	case "str":
		return []string{`""`, `"x"`}
	case "map":
		return []string{"null", "{}", "KEEP"}
	case "list":
		return []string{"null", "[]", "KEEP"}
	}
	return []string{"KEEP"}
}

// rowsOfTerm: the JSON rows loaded into the Config field a term reads.
func rowsOfTerm(s *section, term string) []*common.C15Field {
	var l []*common.C15Field
	for i := range s.schema.Fields {
		f := &s.schema.Fields[i]
		d := f.Dest
		if d == "" {
			d = f.Src
		}
		if d != "" && d == term[2:] {
			l = append(l, f)
		}
	}
	return l
}

// constCands: type-correct JSON values on both sides of every constant of the section's conjuncts
// (hraft.ValidateConfig: 5ms / 1ms lower bounds, MaxAppendEntries 1..1024).
func constCands(s *section, ty string) []string {
	var l []string
	seen := map[string]bool{}
	for _, c := range s.schema.VConj {
		for _, t := range append(append([]string{}, c.Guard...), c.Cond...) {
			if !strings.HasPrefix(t, "c:") {
				continue
			}
			k := common.C15ParseToken(t[2:])
			for _, d := range []int64{-1, 0, 1} {
				v := ""
				if ty == "dur" && k.Kind == "dur" && k.I != 0 {
					v = strconv.Quote(strconv.FormatInt(k.I+d, 10) + "ns")
				}
				if ty == "int" && k.Kind == "int" && k.I > 7 {
					v = strconv.FormatInt(k.I+d, 10)
				}
				if v != "" && !seen[v] {
					seen[v] = true
					l = append(l, v)
				}
			}
		}
	}
	return l
}

// zero-value objects (round 8c): LoadJSON / Validate of a never-initialised section object, also after a refused
// unparsable load (those return before Default()), must return — never panic.
//   C15 zero <section> first=<-|garbage|null|arr|trunc> op=<V|L|Ld> => res=<ok|err|panic>
var zeroFirst = map[string]string{"-": "", "garbage": "%%%", "null": "null", "arr": "[]", "trunc": `{"x":`}

func runZero(s *section, first, op string) {
	if s.bad {
		return
	}
	raw, ok := zeroFirst[first]
	if !ok {
		return
	}
	obj, ok := reflect.New(reflect.TypeOf(s.def.mk()).Elem()).Interface().(comp)
	if !ok {
		return
	}
	if first != "-" {
		guard(func() error { return obj.LoadJSON([]byte(raw)) })
	}
	res := "-"
	switch op {
	case "V":
		res = guard(obj.Validate)
	case "L":
		res = guard(func() error { return obj.LoadJSON([]byte("{}")) })
	case "Ld":
		res = guard(func() error { return obj.LoadJSON(s.baseB) })
	default:
		return
	}
	out.Line("C15 zero %s first=%s op=%s => res=%s", s.def.name, first, op, res)
}

func valBoundary(tier string) {
	for _, s := range sections {
		for _, first := range []string{"-", "garbage", "null", "arr", "trunc"} {
			for _, op := range []string{"V", "L", "Ld"} {
				runZero(s, first, op)
			}
		}
	}
	for _, s := range sections {
		if s.bad {
			continue
		}
		runVal(s, nil, true)
		for _, c := range s.schema.VConj {
			seen := map[string]bool{}
			var rows []*common.C15Field
			for _, t := range c.Terms() {
				for _, f := range rowsOfTerm(s, t) {
					if !seen[f.JSONPath()] {
						seen[f.JSONPath()] = true
						rows = append(rows, f)
					}
				}
			}
			if len(rows) == 0 || len(rows) > 3 {
				continue
			}
			cands := make([][]string, len(rows))
			total := 1
			for i, f := range rows {
				cands[i] = valCandidates(s, f)
				total *= len(cands[i])
			}
			step := 1
			limit := 200
			if tier == "thorough" {
				limit = 2000
			}
			if total > limit {
				step = total/limit + 1
			}
			for k := 0; k < total; k += step {
				var sets []valSet
				x := k
				for i, f := range rows {
					v := cands[i][x%len(cands[i])]
					x /= len(cands[i])
					if v != "KEEP" {
						sets = append(sets, valSet{f.JSONPath(), v})
					}
				}
				runVal(s, sets, true)
			}
		}
	}
}

func valRandom(k int) {
	r := common.NewRng(common.Seed()).Fork(uint64(k) + 77)
	s := sections[r.Intn(len(sections))]
	if s.bad || len(s.schema.Fields) == 0 {
		return
	}
	n := 1 + r.Intn(3)
	var sets []valSet
	used := map[string]bool{}
	wf := true
	for i := 0; i < n; i++ {
		f := &s.schema.Fields[r.Intn(len(s.schema.Fields))]
		if used[f.JSONPath()] {
			continue
		}
		used[f.JSONPath()] = true
		if r.Chance(1, 2) {
			c := valCandidates(s, f)
			v := c[r.Intn(len(c))]
			if v != "KEEP" {
				sets = append(sets, valSet{f.JSONPath(), v})
			}
		} else {
			p := randomValue(f, r)
			if p.vc == "mal" || (f.Load == "codecAlways" && p.vc != "wf") {
				wf = false
			}
			if strings.Contains(p.json, scratchMark) {
				continue
			}
			sets = append(sets, valSet{f.JSONPath(), p.json})
		}
	}
	runVal(s, sets, wf)
}

func replayVal(w []string) {
	// val <section> sets=…
	s := byName[w[1]]
	if s == nil {
		return
	}
	var sets []valSet
	if d := kv(w, "sets"); d != "" && d != "-" {
		for _, e := range strings.Split(d, ";") {
			i := strings.Index(e, ":=")
			if i < 0 {
				continue
			}
			v := e[i+2:]
			if v != "DEL" {
				u, err := urlUnescape(v)
				if err != nil {
					continue
				}
				v = u
			}
			sets = append(sets, valSet{e[:i], v})
		}
	}
	runVal(s, sets, kv(w, "wf") != "0")
}
