// C15 harness: drives the real LoadJSON / ToJSON / Validate / ApplyEnvVars /
// ToDisplayJSON of every component configuration and of config.Manager.
//
// Case lines (one per case; the row tokens lk..rej are the translator's view of
// the field, read from the sources by harness/common/c15_schema.go):
//
//   C15 default <section> => res=.. valid=.. fix=.. leak=..
//   C15 set <mode> <section> <json.path> vc=<zero|wf|mal|unset> val=<json> noise=<-|path:=json>
//        lk=.. sk=.. ty=.. oe=.. dflt=.. omit=.. rej=.. want=<tok> cur=<tok> deff=<tok>
//        => res=<ok|err|panic> valid=<0|1> fix=<0|1> eff=<tok> eff2=<tok> got=<tok> leak=<0|1>
//   C15 shape <where> <section> <variant> => res=.. valid=.. fix=.. leak=..
//
// mode: alone  fresh object, LoadJSON(default JSON with the key set)
//       dirty  the object first loads an accepted non-default value of the same key
//       file   inside a full config.Manager file with all 14 sections registered
//       env    default loaded, then the value arrives in CLUSTER_<SECTION>_<FIELD>, ApplyEnvVars
//       envalt same, but the loaded value is an accepted non-default one
// tok:  int:N | dur:<ns> | bool:0/1 | str:<query-escaped> | float:<g> | json:<escaped compact JSON> | nil | absent | -
// eff/eff2: the Config struct field (reflection) after the load / after load-save-load; got: the key in ToJSON.
package main

import (
	"bufio"
	"bytes"
	"crypto/ecdsa"
	"crypto/elliptic"
	"crypto/rand"
	"crypto/x509"
	"crypto/x509/pkix"
	"encoding/pem"
	"math/big"
	"encoding/json"
	"fmt"
	"net/url"
	"os"
	"path/filepath"
	"reflect"
	"sort"
	"strconv"
	"strings"
	"time"

	ipfscluster "github.com/ipfs/ipfs-cluster"
	"github.com/ipfs/ipfs-cluster/api/ipfsproxy"
	"github.com/ipfs/ipfs-cluster/api/rest"
	"github.com/ipfs/ipfs-cluster/config"
	"github.com/ipfs/ipfs-cluster/consensus/crdt"
	"github.com/ipfs/ipfs-cluster/consensus/raft"
	"github.com/ipfs/ipfs-cluster/datastore/badger"
	"github.com/ipfs/ipfs-cluster/datastore/leveldb"
	"github.com/ipfs/ipfs-cluster/informer/disk"
	"github.com/ipfs/ipfs-cluster/informer/numpin"
	"github.com/ipfs/ipfs-cluster/ipfsconn/ipfshttp"
	"github.com/ipfs/ipfs-cluster/monitor/pubsubmon"
	"github.com/ipfs/ipfs-cluster/observations"
	"github.com/ipfs/ipfs-cluster/pintracker/stateless"

	"verifharness/common"
)

type comp interface {
	Default() error
	LoadJSON([]byte) error
	ToJSON() ([]byte, error)
	Validate() error
	ApplyEnvVars() error
}

type displayer interface {
	ToDisplayJSON() ([]byte, error)
}

type secdef struct {
	name    string
	typ     config.SectionType
	fileKey string // key of the section group in the configuration file ("" = top-level cluster)
	mk      func() comp
}

var secdefs = []secdef{
	{"cluster", config.Cluster, "", func() comp { return &ipfscluster.Config{} }},
	{"raft", config.Consensus, "consensus", func() comp { return &raft.Config{} }},
	{"crdt", config.Consensus, "consensus", func() comp { return &crdt.Config{} }},
	{"restapi", config.API, "api", func() comp { return &rest.Config{} }},
	{"ipfsproxy", config.API, "api", func() comp { return &ipfsproxy.Config{} }},
	{"ipfshttp", config.IPFSConn, "ipfs_connector", func() comp { return &ipfshttp.Config{} }},
	{"stateless", config.PinTracker, "pin_tracker", func() comp { return &stateless.Config{} }},
	{"pubsubmon", config.Monitor, "monitor", func() comp { return &pubsubmon.Config{} }},
	{"disk", config.Informer, "informer", func() comp { return &disk.Config{} }},
	{"numpin", config.Informer, "informer", func() comp { return &numpin.Config{} }},
	{"metrics", config.Observations, "observations", func() comp { return &observations.MetricsConfig{} }},
	{"tracing", config.Observations, "observations", func() comp { return &observations.TracingConfig{} }},
	{"badger", config.Datastore, "datastore", func() comp { return &badger.Config{} }},
	{"leveldb", config.Datastore, "datastore", func() comp { return &leveldb.Config{} }},
	{"identity", -1, "", func() comp { return &config.Identity{} }},
}

const fixedSecret = "5a1c3b7e9d2f4a6b8c0d1e2f3a4b5c6d7e8f9a0b1c2d3e4f5a6b7c8d9e0f1a2b"
const otherSecret = "00112233445566778899aabbccddeeff00112233445566778899aabbccddeeff"
const authPassword = "hunter2-verif-PASSWORD"
const fixedID = "12D3KooWGBHjxgnxTQqgmy8pg3AMy5taaYGYRAjRq38q2Zg9N7FA"
const fixedKey = "CAESQJl+YfbXdH+7Igux84Gk6ygDPGLbhGGMRUcYgWqij7MDXoJQBWHFomNptR2xHprDkpnpnWLolm/McAzsXsm6K7U="

type section struct {
	def    secdef
	schema common.C15Section
	base   map[string]interface{} // base JSON (default, secrets and host dependent values fixed)
	bad    bool                   // the default configuration could not be produced, saved or loaded
	baseB  []byte
}

var (
	sections []*section
	byName   = map[string]*section{}
	out      *common.Out
	idJSON   map[string]interface{} // a valid identity (id + private_key), generated once per process
)

func must(err error) {
	if err != nil {
		fmt.Fprintln(os.Stderr, "c15 harness:", err)
		os.Exit(3)
	}
}

// ---------- JSON helpers ----------

func decode(b []byte) (map[string]interface{}, error) {
	d := json.NewDecoder(bytes.NewReader(b))
	d.UseNumber()
	var m map[string]interface{}
	err := d.Decode(&m)
	return m, err
}

func decodeAny(s string) (interface{}, error) {
	d := json.NewDecoder(strings.NewReader(s))
	d.UseNumber()
	var v interface{}
	err := d.Decode(&v)
	return v, err
}

func clone(v interface{}) interface{} {
	switch x := v.(type) {
	case map[string]interface{}:
		m := make(map[string]interface{}, len(x))
		for k, e := range x {
			m[k] = clone(e)
		}
		return m
	case []interface{}:
		l := make([]interface{}, len(x))
		for i, e := range x {
			l[i] = clone(e)
		}
		return l
	}
	return v
}

type absentT struct{}

func getPath(m map[string]interface{}, path []string) interface{} {
	var cur interface{} = m
	for _, p := range path {
		mm, ok := cur.(map[string]interface{})
		if !ok {
			return absentT{}
		}
		cur, ok = mm[p]
		if !ok {
			return absentT{}
		}
	}
	return cur
}

func setPath(m map[string]interface{}, path []string, v interface{}) {
	cur := m
	for _, p := range path[:len(path)-1] {
		nx, ok := cur[p].(map[string]interface{})
		if !ok {
			nx = map[string]interface{}{}
			cur[p] = nx
		}
		cur = nx
	}
	cur[path[len(path)-1]] = v
}

func compact(v interface{}) string {
	b, err := json.Marshal(v) // map keys sorted
	if err != nil {
		return "!"
	}
	return string(b)
}

func esc(s string) string { return url.QueryEscape(s) }

func urlUnescape(s string) (string, error) { return url.QueryUnescape(s) }

func fmtFloat(f float64) string { return strconv.FormatFloat(f, 'g', -1, 64) }

// tok renders a JSON value as a typed token according to the field's abstract type.
func tok(f *common.C15Field, v interface{}) string {
	ty := f.Ty
	if s, ok := v.(string); ok && f.JType == "ipfsconfig.Strings" {
		v = []interface{}{s} // ipfsconfig.Strings reads and writes a one-element list as a bare string
	}
	switch x := v.(type) {
	case absentT:
		return "absent"
	case nil:
		return "nil"
	case json.Number:
		switch ty {
		case "int", "uint", "ptrint":
			if i, err := strconv.ParseInt(x.String(), 10, 64); err == nil {
				return "int:" + strconv.FormatInt(i, 10)
			}
		case "float", "ptrfloat":
			if f, err := x.Float64(); err == nil {
				return "float:" + fmtFloat(f)
			}
		}
	case bool:
		if ty == "bool" {
			if x {
				return "bool:1"
			}
			return "bool:0"
		}
	case string:
		switch ty {
		case "dur":
			if d, err := time.ParseDuration(x); err == nil {
				return "dur:" + strconv.FormatInt(int64(d), 10)
			}
			return "str:" + esc(x)
		case "str":
			return "str:" + esc(x)
		}
	}
	return "json:" + esc(compact(v))
}

// effOf: the Config field of a row, for the rows whose Config value is a plain scalar (a parse/print row holds
// a multiaddress, a peer ID, a key ...: its value is observed through the saved key only).
func rowEff(c comp, f *common.C15Field) string {
	if f.Codec != "" || strings.HasPrefix(f.Load, "codec") || f.Load == "peerListStar" {
		return "-"
	}
	return effTok(c, f.Dest)
}

// effTok reads the Config field named by the translator's Dest path with reflection.
func effTok(c comp, dest string) string {
	if dest == "" {
		return "-"
	}
	v := reflect.ValueOf(c)
	for _, p := range strings.Split(dest, ".") {
		for v.Kind() == reflect.Ptr || v.Kind() == reflect.Interface {
			if v.IsNil() {
				return "-"
			}
			v = v.Elem()
		}
		if v.Kind() != reflect.Struct {
			return "-"
		}
		v = v.FieldByName(p)
		if !v.IsValid() {
			return "-"
		}
	}
	if v.Type().PkgPath() == "time" && v.Type().Name() == "Duration" {
		return "dur:" + strconv.FormatInt(v.Int(), 10)
	}
	switch v.Kind() {
	case reflect.Int, reflect.Int8, reflect.Int16, reflect.Int32, reflect.Int64:
		return "int:" + strconv.FormatInt(v.Int(), 10)
	case reflect.Uint, reflect.Uint8, reflect.Uint16, reflect.Uint32, reflect.Uint64:
		return "int:" + strconv.FormatUint(v.Uint(), 10)
	case reflect.Float32, reflect.Float64:
		return "float:" + fmtFloat(v.Float())
	case reflect.Bool:
		if v.Bool() {
			return "bool:1"
		}
		return "bool:0"
	case reflect.String:
		return "str:" + esc(v.String())
	}
	return "-"
}

// ---------- guarded calls into the real code ----------

func guard(f func() error) (res string) {
	defer func() {
		if r := recover(); r != nil {
			res = "panic"
		}
	}()
	if err := f(); err != nil {
		return "err"
	}
	return "ok"
}

func toJSON(c comp) ([]byte, string) {
	var b []byte
	r := guard(func() error {
		var err error
		b, err = c.ToJSON()
		return err
	})
	return b, r
}

var secretKeys = []string{"secret", "private_key", "basic_auth_credentials"}

// secretsOf collects the secret strings a saved configuration contains.
func secretsOf(v interface{}, under bool, acc *[]string) {
	switch x := v.(type) {
	case map[string]interface{}:
		for k, e := range x {
			u := under
			for _, s := range secretKeys {
				if k == s {
					u = true
				}
			}
			secretsOf(e, u, acc)
		}
	case []interface{}:
		for _, e := range x {
			secretsOf(e, under, acc)
		}
	case string:
		if under && len(x) >= 6 {
			*acc = append(*acc, x)
		}
	}
}

func leaks(display []byte, saved []byte) bool {
	var v interface{}
	if json.Unmarshal(saved, &v) != nil {
		return false
	}
	var secrets []string
	secretsOf(v, false, &secrets)
	for _, s := range secrets {
		if bytes.Contains(display, []byte(s)) {
			return true
		}
	}
	return false
}

// ---------- one observation ----------

type obs struct {
	res               string
	valid, fix, leak  int
	eff, eff2, gotTok string
}

func (o obs) String() string {
	return fmt.Sprintf("res=%s valid=%d fix=%d eff=%s eff2=%s got=%s leak=%d", o.res, o.valid, o.fix, o.eff, o.eff2, o.gotTok, o.leak)
}

func (o obs) short() string {
	return fmt.Sprintf("res=%s valid=%d fix=%d leak=%d", o.res, o.valid, o.fix, o.leak)
}

// after inspects a component whose load was accepted.
func after(s *section, c comp, f *common.C15Field, o *obs) {
	o.valid, o.fix, o.leak = 0, 0, 0
	o.eff, o.eff2, o.gotTok = "-", "-", "-"
	if guard(c.Validate) == "ok" {
		o.valid = 1
	}
	if f != nil {
		o.eff = rowEff(c, f)
	}
	j1, r := toJSON(c)
	if r != "ok" {
		if r == "panic" {
			o.res = "panic"
		}
		return
	}
	if f != nil {
		if m, err := decode(j1); err == nil {
			o.gotTok = tok(f, getPath(m, f.Path))
		}
	}
	c2 := s.def.mk()
	setBase(c2, reloadBase)
	if guard(func() error { return c2.LoadJSON(j1) }) == "ok" {
		j2, r2 := toJSON(c2)
		if r2 == "ok" && bytes.Equal(j1, j2) {
			o.fix = 1
		}
		if f != nil {
			o.eff2 = rowEff(c2, f)
		}
	}
	if d, ok := c.(displayer); ok {
		var disp []byte
		if guard(func() error {
			var err error
			disp, err = d.ToDisplayJSON()
			return err
		}) == "panic" {
			o.res = "panic"
		} else if leaks(disp, j1) {
			o.leak = 1
		}
	}
}

// ---------- full configuration file ----------

func newManager() (*config.Manager, map[string]comp) {
	m := config.NewManager()
	comps := map[string]comp{}
	for _, sd := range secdefs {
		if sd.typ < 0 {
			continue
		}
		c := sd.mk()
		comps[sd.name] = c
		m.RegisterComponent(sd.typ, c.(config.ComponentConfig))
	}
	return m, comps
}

func fullFile(override map[string]interface{}) map[string]interface{} {
	file := map[string]interface{}{}
	for _, s := range sections {
		if s.def.typ < 0 {
			continue
		}
		var v interface{} = clone(s.base)
		if s.bad {
			v = absentT{}
		}
		if o, ok := override[s.def.name]; ok {
			v = o
		}
		if _, del := v.(absentT); del {
			continue
		}
		if s.def.fileKey == "" {
			file["cluster"] = v
			continue
		}
		g, ok := file[s.def.fileKey].(map[string]interface{})
		if !ok {
			g = map[string]interface{}{}
			file[s.def.fileKey] = g
		}
		g[s.def.name] = v
	}
	return file
}

// fileEnv: when set, loadFile applies this environment variable through the Manager (Manager.ApplyEnvVars after
// Manager.LoadJSON, or Manager.LoadJSONFileAndEnv when the file is on disk); the reload of the saved form runs without it
var fileEnv *struct{ name, val string }

// reloadBase: base directory given to the fresh object that re-loads a saved configuration ("" = none)
var reloadBase string

func setBase(c comp, dir string) {
	if b, ok := c.(interface{ SetBaseDir(string) }); ok && dir != "" {
		b.SetBaseDir(dir)
	}
}

// loadFile loads a full configuration file through config.Manager: from memory (at == "") or written to
// and read from the path `at` (the Manager then gives every component the file's directory as base dir;
// the saved form is written next to it and loaded from there by a second Manager).
func loadFile(raw []byte, s *section, f *common.C15Field, at string) obs {
	var o obs
	m, comps := newManager()
	defer m.Shutdown()
	if at != "" {
		if err := os.WriteFile(at, raw, 0600); err != nil {
			o.res = "infra"
			return o
		}
		if fileEnv != nil {
			// the daemon's loader: file, then environment, in one call
			os.Setenv(fileEnv.name, fileEnv.val)
			o.res = guard(func() error { return m.LoadJSONFileAndEnv(at) })
			os.Unsetenv(fileEnv.name)
		} else {
			o.res = guard(func() error { return m.LoadJSONFromFile(at) })
		}
	} else {
		o.res = guard(func() error { return m.LoadJSON(raw) })
		if fileEnv != nil && o.res == "ok" {
			os.Setenv(fileEnv.name, fileEnv.val)
			o.res = guard(m.ApplyEnvVars)
			os.Unsetenv(fileEnv.name)
		}
	}
	o.eff, o.eff2, o.gotTok = "-", "-", "-"
	if o.res != "ok" {
		return o
	}
	if guard(m.Validate) == "ok" {
		o.valid = 1
	}
	var c comp
	if s != nil {
		c = comps[s.def.name]
		if f != nil {
			o.eff = rowEff(c, f)
		}
	}
	var j1 []byte
	if r := guard(func() error {
		var err error
		j1, err = m.ToJSON()
		return err
	}); r != "ok" {
		if r == "panic" {
			o.res = "panic"
		}
		return o
	}
	if s != nil && f != nil {
		if cj, r := toJSON(c); r == "ok" {
			if mm, err := decode(cj); err == nil {
				o.gotTok = tok(f, getPath(mm, f.Path))
			}
		}
	}
	m2, comps2 := newManager()
	defer m2.Shutdown()
	reload := func() error { return m2.LoadJSON(j1) }
	if at != "" {
		at2 := filepath.Join(filepath.Dir(at), "resaved.json")
		if err := os.WriteFile(at2, j1, 0600); err != nil {
			o.res = "infra"
			return o
		}
		reload = func() error { return m2.LoadJSONFromFile(at2) }
	}
	if guard(reload) == "ok" {
		var j2 []byte
		if guard(func() error {
			var err error
			j2, err = m2.ToJSON()
			return err
		}) == "ok" && bytes.Equal(j1, j2) {
			o.fix = 1
		}
		if s != nil && f != nil {
			o.eff2 = rowEff(comps2[s.def.name], f)
		}
	}
	var disp []byte
	if guard(func() error {
		var err error
		disp, err = m.ToDisplayJSON()
		return err
	}) == "panic" {
		o.res = "panic"
	} else if leaks(disp, j1) {
		o.leak = 1
	}
	return o
}

// ---------- value pools ----------

type pv struct {
	json string
	vc   string // zero | wf | mal | unset
}

func subtype(f *common.C15Field) string {
	n := f.Path[len(f.Path)-1]
	switch {
	case strings.Contains(n, "multiaddress") || strings.HasSuffix(n, "_endpoint") || n == "peer_addresses":
		return "maddr"
	case n == "secret":
		return "secret"
	case n == "private_key":
		return "key"
	case n == "id":
		return "peerid"
	case n == "trusted_peers" || n == "init_peerset":
		return "peers"
	case n == "metric_type":
		return "enum"
	case n == "ssl_cert_file" || n == "ssl_key_file":
		return "file"
	}
	return ""
}

const peerA = "QmXZrtE5jQwXNqCJMfHUTQkvhQ4ZAnqMnmzFMJfLewuabc"
const peerB = "12D3KooWA6MkbUuUoq3nyFqKjwhQXQ1CmNRy62kQSb8NU5Yqfbbt"

// constJSON renders a constant of the translator as a JSON value for a field of type ty.
func constJSON(ty string, c common.C15Const) (string, bool) {
	switch {
	case ty == "dur" && (c.Kind == "dur" || c.Kind == "int"):
		return strconv.Quote(time.Duration(c.I).String()), true
	case (ty == "int" || ty == "uint" || ty == "ptrint") && c.Kind == "int":
		return strconv.FormatInt(c.I, 10), true
	case ty == "str" && c.Kind == "str":
		b, _ := json.Marshal(c.S)
		return string(b), true
	case (ty == "float" || ty == "ptrfloat") && c.Kind == "float":
		return c.S, true
	}
	return "", false
}

// pool = the fixed boundary values of the type plus every default / omit constant the translator saw for
// a setting of the same type in the same section (a save that compares with the wrong constant, or a load
// into a sibling's field, shows on exactly those values).
func pool(f *common.C15Field) []pv {
	p := typePool(f)
	if subtype(f) != "" {
		return p
	}
	seen := map[string]bool{}
	for _, e := range p {
		seen[e.json] = true
	}
	if s := byName[f.Section]; s != nil {
		for i := range s.schema.Fields {
			g := &s.schema.Fields[i]
			for _, c := range []common.C15Const{g.Default, g.OmitConst} {
				if js, ok := constJSON(f.Ty, c); ok && !seen[js] {
					seen[js] = true
					vc := "wf"
					if js == "0" || js == `"0s"` {
						vc = "zero"
					}
					p = append(p, pv{js, vc})
				}
			}
		}
	}
	return p
}

func typePool(f *common.C15Field) []pv {
	switch subtype(f) {
	case "maddr":
		if f.Ty == "list" {
			return []pv{{`["/ip4/127.0.0.1/tcp/10001"]`, "wf"}, {`["/ip4/127.0.0.1/tcp/10001","/ip6/::1/tcp/10002"]`, "wf"},
				{`"/ip4/127.0.0.1/tcp/10003"`, "wf"}, {`[]`, "wf"}, {`null`, "unset"}, {`["abc"]`, "mal"}, {`[7]`, "mal"}, {`7`, "mal"}, {`["/ip4/127.0.0.1/tcp/10001",""]`, "mal"}}
		}
		return []pv{{`"/ip4/127.0.0.1/tcp/10001"`, "wf"}, {`"/dns4/example.org/tcp/443"`, "wf"}, {`"/ip4/127.0.0.1/udp/7"`, "wf"},
			{`""`, "mal"}, {`"abc"`, "mal"}, {`"/ip4/999.0.0.1/tcp/1"`, "mal"}, {`7`, "mal"}, {`null`, "unset"}, {`["/ip4/127.0.0.1/tcp/1"]`, "mal"}}
	case "secret":
		return []pv{{`"` + otherSecret + `"`, "wf"}, {`""`, "wf"}, {`"zz"`, "mal"}, {`"0011"`, "mal"}, {`7`, "mal"}, {`null`, "unset"}}
	case "key", "peerid":
		return []pv{{`""`, "mal"}, {`"abc"`, "mal"}, {`"` + peerA + `"`, "mal"}, {`7`, "mal"}, {`null`, "unset"}}
	case "peers":
		return []pv{{`["` + peerA + `"]`, "wf"}, {`["` + peerA + `","` + peerB + `"]`, "wf"}, {`[]`, "wf"}, {`["*"]`, "mal"}, {`["abc"]`, "mal"}, {`null`, "unset"}, {`"x"`, "mal"}, {`[7]`, "mal"}}
	case "enum":
		return []pv{{`"reposize"`, "wf"}, {`"freespace"`, "wf"}, {`"vx"`, "mal"}, {`""`, "mal"}, {`7`, "mal"}, {`null`, "unset"}}
	case "file":
		return []pv{{`""`, "wf"}, {`"/nonexistent/verif.pem"`, "mal"}, {`7`, "mal"}, {`null`, "unset"}}
	}
	switch f.Ty {
	case "int", "ptrint":
		return []pv{{`0`, "zero"}, {`1`, "wf"}, {`2`, "wf"}, {`7`, "wf"}, {`4095`, "wf"}, {`4096`, "wf"}, {`4097`, "wf"}, {`100000`, "wf"}, {`-1`, "wf"}, {`-7`, "wf"},
			{`2147483648`, "wf"}, {`9223372036854775807`, "wf"}, {`1e30`, "mal"}, {`1.5`, "mal"}, {`"7"`, "mal"}, {`true`, "mal"}, {`[]`, "mal"}, {`{}`, "mal"}, {`null`, "unset"}}
	case "uint":
		return []pv{{`0`, "zero"}, {`1`, "wf"}, {`7`, "wf"}, {`10240`, "wf"}, {`4294967295`, "wf"}, {`4294967296`, "wf"}, {`-1`, "mal"}, {`1.5`, "mal"}, {`"7"`, "mal"}, {`null`, "unset"}}
	case "float", "ptrfloat":
		return []pv{{`0`, "zero"}, {`0.5`, "wf"}, {`0.25`, "wf"}, {`0.99`, "wf"}, {`1`, "wf"}, {`3`, "wf"}, {`7.5`, "wf"}, {`-1`, "wf"}, {`-0.5`, "wf"}, {`1e300`, "wf"},
			{`"x"`, "mal"}, {`true`, "mal"}, {`[]`, "mal"}, {`null`, "unset"}}
	case "bool":
		return []pv{{`true`, "wf"}, {`false`, "wf"}, {`"true"`, "mal"}, {`1`, "mal"}, {`0`, "mal"}, {`[]`, "mal"}, {`null`, "unset"}}
	case "dur":
		return []pv{{`"0s"`, "zero"}, {`"0"`, "zero"}, {`"1ns"`, "wf"}, {`"7s"`, "wf"}, {`"1m7s"`, "wf"}, {`"60s"`, "wf"}, {`"1.5h"`, "wf"}, {`"24h0m0s"`, "wf"}, {`"100ms"`, "wf"},
			{`"-1s"`, "wf"}, {`"-1ns"`, "wf"}, {`"2562047h47m16.854775807s"`, "wf"}, {`""`, "mal"}, {`"abc"`, "mal"}, {`"7"`, "mal"}, {`"9999999h"`, "mal"}, {`7`, "mal"}, {`true`, "mal"}, {`null`, "unset"}}
	case "str":
		return []pv{{`"vx"`, "wf"}, {`"/vx/y"`, "wf"}, {`"v x"`, "wf"}, {`"ünï"`, "wf"}, {`""`, "wf"}, {`7`, "mal"}, {`true`, "mal"}, {`[]`, "mal"}, {`null`, "unset"}}
	case "list":
		if f.JType == "[]float64" {
			return []pv{{`[1.5]`, "wf"}, {`[1,2.5]`, "wf"}, {`[]`, "wf"}, {`["x"]`, "mal"}, {`7`, "mal"}, {`null`, "unset"}}
		}
		return []pv{{`["vx"]`, "wf"}, {`["GET","POST"]`, "wf"}, {`[]`, "wf"}, {`[""]`, "wf"}, {`[7]`, "mal"}, {`"x"`, "mal"}, {`7`, "mal"}, {`null`, "unset"}}
	case "map":
		if f.JType == "map[string]string" {
			return []pv{{`{"user":"` + authPassword + `"}`, "wf"}, {`{"a":"bbbbbbbb","c":"dddddddd"}`, "wf"}, {`{}`, "wf"}, {`{"a":7}`, "mal"}, {`7`, "mal"}, {`null`, "unset"}}
		}
		return []pv{{`{"X-Verif":["a"]}`, "wf"}, {`{"X-Verif":["a","b"],"Y":[]}`, "wf"}, {`{}`, "wf"}, {`{"a":"b"}`, "mal"}, {`7`, "mal"}, {`null`, "unset"}}
	}
	return []pv{{`null`, "unset"}, {`7`, "mal"}, {`"vx"`, "mal"}}
}

// randomValue draws a mostly well-formed value of the field's type.
func randomValue(f *common.C15Field, r *common.Rng) pv {
	if subtype(f) != "" || r.Chance(1, 8) {
		p := pool(f)
		return p[r.Intn(len(p))]
	}
	mag := func() int64 {
		switch r.Intn(5) {
		case 0:
			return int64(r.Intn(10))
		case 1:
			return int64(r.Intn(10000))
		case 2:
			return int64(r.Intn(1 << 30))
		case 3:
			return int64(r.Next() >> 2)
		}
		return -int64(r.Intn(1000))
	}
	switch f.Ty {
	case "int", "ptrint":
		v := mag()
		vc := "wf"
		if v == 0 {
			vc = "zero"
		}
		return pv{strconv.FormatInt(v, 10), vc}
	case "uint":
		v := mag()
		if v < 0 {
			v = -v
		}
		vc := "wf"
		if v == 0 {
			vc = "zero"
		}
		return pv{strconv.FormatInt(v, 10), vc}
	case "float", "ptrfloat":
		v := float64(r.Intn(2000)-500) / float64(1+r.Intn(1000))
		vc := "wf"
		if v == 0 {
			vc = "zero"
		}
		return pv{fmtFloat(v), vc}
	case "bool":
		if r.Bool() {
			return pv{"true", "wf"}
		}
		return pv{"false", "wf"}
	case "dur":
		units := []time.Duration{time.Nanosecond, time.Millisecond, time.Second, time.Minute, time.Hour}
		d := time.Duration(r.Intn(5000)-200) * units[r.Intn(len(units))]
		vc := "wf"
		if d == 0 {
			vc = "zero"
		}
		return pv{strconv.Quote(d.String()), vc}
	case "str":
		al := "abcxyz/._-09 "
		n := r.Intn(12)
		b := make([]byte, n)
		for i := range b {
			b[i] = al[r.Intn(len(al))]
		}
		return pv{strconv.Quote(string(b)), "wf"}
	}
	p := pool(f)
	return p[r.Intn(len(p))]
}

// envString renders a JSON value the way it would be written into an environment variable.
func envString(v interface{}) (string, bool) {
	switch x := v.(type) {
	case json.Number:
		return x.String(), true
	case bool:
		return strconv.FormatBool(x), true
	case string:
		return x, true
	case []interface{}:
		var l []string
		for _, e := range x {
			s, ok := e.(string)
			if !ok || strings.Contains(s, ",") || strings.TrimSpace(s) == "" {
				return "", false
			}
			l = append(l, s)
		}
		return strings.Join(l, ","), true
	case map[string]interface{}:
		var l []string
		for k, e := range x {
			s, ok := e.(string)
			if !ok || strings.ContainsAny(k+s, ",:") {
				return "", false
			}
			l = append(l, k+":"+s)
		}
		sort.Strings(l)
		return strings.Join(l, ","), true
	}
	return "", false
}

// ---------- cases ----------

type setCase struct {
	mode    string
	s       *section
	f       *common.C15Field
	val     string // JSON text
	vc      string
	noise   string // "-" or "json.path:=<json>"
}

var altCache = map[string]string{} // section.path -> JSON text of an accepted non-default value ("" = none)

func altValue(s *section, f *common.C15Field) string {
	key := s.def.name + "." + f.JSONPath()
	if v, ok := altCache[key]; ok {
		return v
	}
	altCache[key] = ""
	def := s.def.mk()
	if guard(func() error { return def.LoadJSON(s.baseB) }) != "ok" {
		return ""
	}
	deff := rowEff(def, f)
	dgot := tok(f, getPath(s.base, f.Path))
	for _, p := range pool(f) {
		if p.vc != "wf" {
			continue
		}
		v, err := decodeAny(p.json)
		if err != nil {
			continue
		}
		m := clone(s.base).(map[string]interface{})
		setPath(m, f.Path, v)
		c := s.def.mk()
		if guard(func() error { return c.LoadJSON([]byte(compact(m))) }) != "ok" {
			continue
		}
		e := rowEff(c, f)
		if e != "-" && e != deff {
			altCache[key] = p.json
			return p.json
		}
		if e == "-" {
			if j, r := toJSON(c); r == "ok" {
				if mm, err := decode(j); err == nil && tok(f, getPath(mm, f.Path)) != dgot {
					altCache[key] = p.json
					return p.json
				}
			}
		}
	}
	return ""
}

func rowTokens(s *section, f *common.C15Field) string {
	opq := 0
	for _, c := range s.schema.Validate {
		if c.Opaque || c.Guard != "" {
			opq++
		}
	}
	oe := 0
	if f.OmitEmpty {
		oe = 1
	}
	return fmt.Sprintf("lk=%s sk=%s ty=%s oe=%d dflt=%s omit=%s rej=%s opq=%d", f.Load, f.Save, f.Ty, oe, f.Default.Token(), f.OmitConst.Token(), common.C15SortedRej(f.Rej), opq)
}

func applyNoise(m map[string]interface{}, s *section, noise string) bool {
	if noise == "-" {
		return true
	}
	i := strings.Index(noise, ":=")
	if i < 0 {
		return false
	}
	js, err := url.QueryUnescape(noise[i+2:])
	if err != nil {
		return false
	}
	v, err := decodeAny(js)
	if err != nil {
		return false
	}
	setPath(m, strings.Split(noise[:i], "."), v)
	return true
}

func runSet(c setCase) {
	s, f := c.s, c.f
	if s.bad {
		return
	}
	if strings.Contains(c.val, scratchMark) || strings.Contains(c.noise, scratchMark) {
		if _, ok := baseDir(true); !ok {
			out.Line("# inconclusive base directory under VERIF_SCRATCH could not be prepared")
			return
		}
		c.val = strings.ReplaceAll(c.val, scratchMark, scratchAbs)
		c.noise = strings.ReplaceAll(c.noise, scratchMark, esc(scratchAbs))
	}
	v, err := decodeAny(c.val)
	if err != nil {
		out.Line("# bad-value %s", c.val)
		return
	}
	want := tok(f, v)
	def := s.def.mk()
	deff := "-"
	if guard(func() error { return def.LoadJSON(s.baseB) }) == "ok" {
		deff = rowEff(def, f)
	}
	cur := deff
	m := clone(s.base).(map[string]interface{})
	if !applyNoise(m, s, c.noise) {
		out.Line("# bad-noise %s", c.noise)
		return
	}
	var o obs
	alt := ""
	if c.mode == "dirty" || c.mode == "envalt" {
		alt = altValue(s, f)
		if alt == "" {
			return // no accepted non-default value known for this field
		}
	}
	switch c.mode {
	case "alone", "dirty":
		setPath(m, f.Path, v)
		raw := []byte(compact(m))
		obj := s.def.mk()
		if c.mode == "dirty" {
			am := clone(s.base).(map[string]interface{})
			av, _ := decodeAny(alt)
			setPath(am, f.Path, av)
			if guard(func() error { return obj.LoadJSON([]byte(compact(am))) }) != "ok" {
				return
			}
			cur = rowEff(obj, f)
		}
		o.res = guard(func() error { return obj.LoadJSON(raw) })
		o.eff, o.eff2, o.gotTok = "-", "-", "-"
		if o.res == "ok" {
			after(s, obj, f, &o)
		}
	case "file":
		if s.def.typ < 0 {
			return
		}
		setPath(m, f.Path, v)
		file := fullFile(map[string]interface{}{s.def.name: m})
		o = loadFile([]byte(compact(file)), s, f, "")
	case "env", "envalt":
		ev, ok := envString(v)
		if !ok {
			return
		}
		if sv, isStr := v.(string); isStr && f.Ty == "list" {
			want = tok(f, []interface{}{sv}) // a list variable with one element
		}
		if ev == "" && c.vc != "mal" {
			c.vc = "unset" // an empty environment variable conventionally means "not set"
		}
		if c.mode == "envalt" {
			av, _ := decodeAny(alt)
			setPath(m, f.Path, av)
		}
		obj := s.def.mk()
		if guard(func() error { return obj.LoadJSON([]byte(compact(m))) }) != "ok" {
			return
		}
		cur = rowEff(obj, f)
		name := f.EnvName(s.schema.EnvPrefix)
		os.Setenv(name, ev)
		o.res = guard(obj.ApplyEnvVars)
		os.Unsetenv(name)
		o.eff, o.eff2, o.gotTok = "-", "-", "-"
		if o.res == "ok" {
			after(s, obj, f, &o)
		}
	case "menv", "menvfile":
		// the same through config.Manager with all 14 sections registered: `menv` = Manager.LoadJSON of the
		// default file, then Manager.ApplyEnvVars; `menvfile` = the file (holding another accepted value of the
		// field when one is known) written to disk, then Manager.LoadJSONFileAndEnv
		if s.def.typ < 0 {
			return
		}
		ev, ok := envString(v)
		if !ok {
			return
		}
		if sv, isStr := v.(string); isStr && f.Ty == "list" {
			want = tok(f, []interface{}{sv})
		}
		if ev == "" && c.vc != "mal" {
			c.vc = "unset"
		}
		if c.mode == "menvfile" {
			if alt = altValue(s, f); alt != "" {
				av, _ := decodeAny(alt)
				setPath(m, f.Path, av)
			}
		}
		raw := []byte(compact(fullFile(map[string]interface{}{s.def.name: m})))
		m0, comps0 := newManager()
		r0 := guard(func() error { return m0.LoadJSON(raw) })
		if r0 == "ok" {
			cur = rowEff(comps0[s.def.name], f)
		}
		m0.Shutdown()
		if r0 != "ok" {
			return
		}
		at := ""
		if c.mode == "menvfile" {
			dir, ok := baseDir(true)
			if !ok {
				out.Line("# inconclusive base directory under VERIF_SCRATCH could not be prepared")
				return
			}
			at = filepath.Join(dir, "service-env.json")
		}
		fileEnv = &struct{ name, val string }{f.EnvName(s.schema.EnvPrefix), ev}
		o = loadFile(raw, s, f, at)
		fileEnv = nil
		if o.res == "infra" {
			out.Line("# inconclusive configuration file could not be written under VERIF_SCRATCH")
			return
		}
	case "basealone-abs", "basealone-rel", "basefile-abs", "basefile-rel":
		dir, ok := baseDir(strings.HasSuffix(c.mode, "-abs"))
		if !ok {
			out.Line("# inconclusive base directory under VERIF_SCRATCH could not be prepared")
			return
		}
		setPath(m, f.Path, v)
		if strings.HasPrefix(c.mode, "basealone") {
			obj := s.def.mk()
			setBase(obj, dir)
			o.res = guard(func() error { return obj.LoadJSON([]byte(compact(m))) })
			o.eff, o.eff2, o.gotTok = "-", "-", "-"
			if o.res == "ok" {
				reloadBase = dir
				after(s, obj, f, &o)
				reloadBase = ""
			}
		} else {
			if s.def.typ < 0 {
				return
			}
			file := fullFile(map[string]interface{}{s.def.name: m})
			o = loadFile([]byte(compact(file)), s, f, filepath.Join(dir, "service.json"))
			if o.res == "infra" {
				out.Line("# inconclusive configuration file could not be written under VERIF_SCRATCH")
				return
			}
		}
	default:
		out.Line("# bad-mode %s", c.mode)
		return
	}
	line := fmt.Sprintf("C15 set %s %s %s vc=%s val=%s noise=%s %s want=%s cur=%s deff=%s => %s",
		c.mode, s.def.name, f.JSONPath(), c.vc, esc(c.val), c.noise, rowTokens(s, f), want, cur, deff, o.String())
	if scratchAbs != "" {
		line = strings.ReplaceAll(line, esc(scratchAbs), scratchMark) // keep case lines machine independent
	}
	out.Line("%s", line)
}

func runDefault(s *section) {
	c := s.def.mk()
	var o obs
	o.res = guard(c.Default)
	if o.res == "ok" {
		after(s, c, nil, &o)
		// the saved default must be loadable (after() checks the fixpoint through a fresh object)
	}
	out.Line("C15 default %s => %s", s.def.name, o.short())
}

// runDefaultFile: Manager.Default() over all registered sections, saved, loaded by a fresh Manager, saved again.
func runDefaultFile() {
	var o obs
	m, _ := newManager()
	defer m.Shutdown()
	o.res = guard(m.Default)
	if o.res == "ok" {
		if guard(m.Validate) == "ok" {
			o.valid = 1
		}
		var j1 []byte
		if r := guard(func() error {
			var err error
			j1, err = m.ToJSON()
			return err
		}); r == "panic" {
			o.res = "panic"
		} else if r == "ok" {
			m2, _ := newManager()
			defer m2.Shutdown()
			if guard(func() error { return m2.LoadJSON(j1) }) == "ok" {
				var j2 []byte
				if guard(func() error {
					var err error
					j2, err = m2.ToJSON()
					return err
				}) == "ok" && bytes.Equal(j1, j2) {
					o.fix = 1
				}
			}
			var disp []byte
			if guard(func() error {
				var err error
				disp, err = m.ToDisplayJSON()
				return err
			}) == "panic" {
				o.res = "panic"
			} else if leaks(disp, j1) {
				o.leak = 1
			}
		}
	}
	out.Line("C15 default file => %s", o.short())
}

var shapeVariants = []string{"null", "7", `"x"`, "[]", "{}", "true", `{"unknown_key_verif":1}`, `{"":null}`, "[{}]", `{"a":{"b":{"c":[1,2,{"d":null}]}}}`}
var rawVariants = map[string]string{"empty": "", "truncated": `{"cluster": {"peername": "x"`, "garbage": "\x00\x01{", "array": "[1,2]", "null": "null", "number": "7",
	"nulgroups": `{"cluster":null,"consensus":null,"api":null,"ipfs_connector":null,"pin_tracker":null,"monitor":null,"informer":null,"observations":null,"datastore":null}`,
	"badgroups": `{"consensus":7}`, "badgroups2": `{"api":[]}`, "badgroups3": `{"datastore":"x"}`, "source": `{"source":7}`, "emptyobj": `{}`, "allocator": `{"allocator":{"x":null}}`}

func runShape(where, secName, variant string) {
	s := byName[secName]
	var o obs
	switch where {
	case "alone":
		if s == nil {
			return
		}
		c := s.def.mk()
		o.res = guard(func() error { return c.LoadJSON([]byte(variant)) })
		if o.res == "ok" {
			after(s, c, nil, &o)
		}
	case "file":
		if s == nil || s.def.typ < 0 {
			return
		}
		v, err := decodeAny(variant)
		if err != nil {
			return
		}
		o = loadFile([]byte(compact(fullFile(map[string]interface{}{secName: v}))), s, nil, "")
	case "missing":
		if s == nil || s.def.typ < 0 {
			return
		}
		o = loadFile([]byte(compact(fullFile(map[string]interface{}{secName: absentT{}}))), s, nil, "")
	case "raw":
		raw, ok := rawVariants[variant]
		if !ok {
			return
		}
		o = loadFile([]byte(raw), nil, nil, "")
	case "rawbytes":
		o = loadFile([]byte(variant), nil, nil, "")
	case "group":
		// a whole section group ("consensus", "api", ..., or "cluster") of an otherwise default file replaced
		v, err := decodeAny(variant)
		if err != nil {
			return
		}
		file := fullFile(nil)
		file[secName] = v
		o = loadFile([]byte(compact(file)), nil, nil, "")
	default:
		return
	}
	out.Line("C15 shape %s %s v:%s => %s", where, secName, esc(variant), o.short())
}

// ---------- setup ----------

func setup() {
	config.ConfigSaveInterval = 2 * time.Millisecond
	schema, err := common.C15Schema(common.C15Repo())
	must(err)
	bySchema := map[string]common.C15Section{}
	for _, sc := range schema {
		bySchema[sc.Name] = sc
	}
	// a fixed identity (generated once with config.Identity.Default; the key is a throw-away test key)
	idJSON = map[string]interface{}{"id": fixedID, "private_key": fixedKey}
	for _, sd := range secdefs {
		s := &section{def: sd, schema: bySchema[sd.name]}
		if sd.name == "identity" {
			s.base = clone(idJSON).(map[string]interface{})
		} else {
			// a component whose default cannot be produced or saved is reported by its
			// `default` case; its value sweeps are skipped
			c := sd.mk()
			var b []byte
			if guard(c.Default) != "ok" {
				s.bad = true
			} else if b, _ = toJSON(c); b == nil {
				s.bad = true
			} else if s.base, err = decode(b); err != nil {
				s.bad = true
			}
			if s.bad {
				s.base = map[string]interface{}{}
			}
		}
		switch sd.name {
		case "cluster":
			s.base["secret"] = fixedSecret
			s.base["peername"] = "verif-peer"
		case "restapi":
			s.base["basic_auth_credentials"] = map[string]interface{}{"verif-user": authPassword}
			s.base["id"] = idJSON["id"]
			s.base["private_key"] = idJSON["private_key"]
			s.base["libp2p_listen_multiaddress"] = []interface{}{"/ip4/127.0.0.1/tcp/19096"}
		}
		s.baseB = []byte(compact(s.base))
		chk := sd.mk()
		if r := guard(func() error { return chk.LoadJSON(s.baseB) }); r != "ok" {
			s.bad = true
		}
		sections = append(sections, s)
		byName[sd.name] = s
	}
}

func fieldByPath(s *section, p string) *common.C15Field {
	for i := range s.schema.Fields {
		if s.schema.Fields[i].JSONPath() == p {
			return &s.schema.Fields[i]
		}
	}
	return nil
}

type fref struct {
	s *section
	f *common.C15Field
}

func allFields() []fref {
	var l []fref
	for _, s := range sections {
		if s.bad {
			continue
		}
		for i := range s.schema.Fields {
			l = append(l, fref{s, &s.schema.Fields[i]})
		}
	}
	return l
}

// ---------- base directories (paths of a configuration are resolved against the directory of its file) ----------

const scratchMark = "VERIFSCRATCH" // stands for the absolute scratch directory in case lines

var (
	scratchAbs     string // <VERIF_SCRATCH>/c15base, absolute
	baseAbs        string // scratchAbs/abs
	baseRel        string // scratchAbs/rel, relative to the working directory
	basePrepared   bool
	basePreparedOK bool
)

// writeKeyPair generates a self-signed ECDSA certificate and its key as PEM files.
func writeKeyPair(crt, key string) error {
	priv, err := ecdsa.GenerateKey(elliptic.P256(), rand.Reader)
	if err != nil {
		return err
	}
	tmpl := &x509.Certificate{SerialNumber: big.NewInt(15), Subject: pkix.Name{CommonName: "verif-c15"},
		NotBefore: time.Now().Add(-time.Hour), NotAfter: time.Now().Add(24 * 365 * time.Hour),
		KeyUsage: x509.KeyUsageDigitalSignature, ExtKeyUsage: []x509.ExtKeyUsage{x509.ExtKeyUsageServerAuth}}
	der, err := x509.CreateCertificate(rand.Reader, tmpl, tmpl, &priv.PublicKey, priv)
	if err != nil {
		return err
	}
	kb, err := x509.MarshalECPrivateKey(priv)
	if err != nil {
		return err
	}
	if err := os.WriteFile(crt, pem.EncodeToMemory(&pem.Block{Type: "CERTIFICATE", Bytes: der}), 0600); err != nil {
		return err
	}
	return os.WriteFile(key, pem.EncodeToMemory(&pem.Block{Type: "EC PRIVATE KEY", Bytes: kb}), 0600)
}

// baseDir prepares (once) two configuration directories under VERIF_SCRATCH, each with tls/server.{crt,key}
// on disk, and returns the absolute one or the one relative to the working directory.
func baseDir(abs bool) (string, bool) {
	if !basePrepared {
		basePrepared = true
		root := os.Getenv("VERIF_SCRATCH")
		if root == "" {
			root = "build/scratch/C15"
		}
		a, err := filepath.Abs(filepath.Join(root, "c15base"))
		cwd, err2 := os.Getwd()
		if err == nil && err2 == nil {
			scratchAbs = a
			baseAbs = filepath.Join(a, "abs")
			rel, err3 := filepath.Rel(cwd, filepath.Join(a, "rel"))
			ok := err3 == nil && !filepath.IsAbs(rel)
			baseRel = rel
			for _, d := range []string{baseAbs, filepath.Join(a, "rel")} {
				if os.MkdirAll(filepath.Join(d, "tls"), 0700) != nil || os.MkdirAll(filepath.Join(d, "sub"), 0700) != nil {
					ok = false
					continue
				}
				crt, key := filepath.Join(d, "tls", "server.crt"), filepath.Join(d, "tls", "server.key")
				if _, e := os.Stat(key); e != nil {
					if writeKeyPair(crt, key) != nil {
						ok = false
					}
				}
			}
			basePreparedOK = ok
		}
	}
	if !basePreparedOK {
		return "", false
	}
	if abs {
		return baseAbs, true
	}
	return baseRel, true
}

type pathField struct {
	sec, path, pair string // pair: the key that must be set alongside (TLS)
}

// settings whose value is a path resolved against the base directory (tlsOptions at load time; the
// getters getHTTPLogPath, getLogPath, GetPeerstorePath, GetDataFolder, GetFolder afterwards)
var pathFields = []pathField{
	{"restapi", "ssl_cert_file", "ssl_key_file"}, {"restapi", "ssl_key_file", "ssl_cert_file"}, {"restapi", "http_log_file", ""},
	{"ipfsproxy", "log_file", ""}, {"cluster", "peerstore_file", ""}, {"raft", "data_folder", ""},
	{"badger", "folder", ""}, {"leveldb", "folder", ""},
}

// baseCases: every path setting, relative and absolute values, under an absolute and a relative base
// directory, on a bare object (kind "basealone") or through a Manager file in that directory ("basefile").
func baseCases(kind string) {
	for _, pf := range pathFields {
		s := byName[pf.sec]
		if s == nil || s.bad {
			continue
		}
		f := fieldByPath(s, pf.path)
		if f == nil {
			continue
		}
		for _, b := range []string{"abs", "rel"} {
			mode := kind + "-" + b
			if pf.pair != "" {
				name := map[string]string{"ssl_cert_file": "server.crt", "ssl_key_file": "server.key"}
				relV := func(k string) string { return strconv.Quote("tls/" + name[k]) }
				absV := func(k string) string { return strconv.Quote(scratchMark + "/" + b + "/tls/" + name[k]) }
				dotV := func(k string) string { return strconv.Quote("./tls/../tls/" + name[k]) }
				for _, mk := range []func(string) string{relV, absV, dotV} {
					runSet(setCase{mode, s, f, mk(pf.path), "wf", pf.pair + ":=" + esc(mk(pf.pair))})
				}
				runSet(setCase{mode, s, f, relV(pf.path), "wf", pf.pair + ":=" + esc(absV(pf.pair))})
				runSet(setCase{mode, s, f, strconv.Quote("tls/missing.pem"), "mal", pf.pair + ":=" + esc(relV(pf.pair))})
				continue
			}
			for _, v := range []string{`"sub/verif.dat"`, `"` + scratchMark + `/abs/sub/verif.dat"`, `"./sub/../sub/verif.dat"`, `"../verif.dat"`, `"verif.dat"`} {
				runSet(setCase{mode, s, f, v, "wf", "-"})
			}
		}
	}
}

func tlsCases() {
	repo := common.C15Repo()
	crt, key := filepath.Join(repo, "api/rest/test/server.crt"), filepath.Join(repo, "api/rest/test/server.key")
	if _, err := os.Stat(crt); err != nil {
		out.Line("# inconclusive tls test files missing")
		return
	}
	s := byName["restapi"]
	for _, mode := range []string{"alone", "file"} {
		runSet(setCase{mode, s, fieldByPath(s, "ssl_cert_file"), strconv.Quote(crt), "wf", "ssl_key_file:=" + esc(strconv.Quote(key))})
		runSet(setCase{mode, s, fieldByPath(s, "ssl_key_file"), strconv.Quote(key), "wf", "ssl_cert_file:=" + esc(strconv.Quote(crt))})
		runSet(setCase{mode, s, fieldByPath(s, "ssl_cert_file"), strconv.Quote(crt), "mal", "-"})
	}
}

// boundary enumerates the fixed value pools in every mode (independent of -n and of the seed).
func boundary(suite string, tier string) {
	if suite == "ident" {
		identBoundary(tier)
		return
	}
	if suite == "src" {
		srcBoundary(tier)
		return
	}
	if suite == "val" {
		valBoundary(tier)
		return
	}
	fields := allFields()
	switch suite {
	case "sweep":
		for _, s := range sections {
			runDefault(s)
		}
		for _, fr := range fields {
			for _, p := range pool(fr.f) {
				runSet(setCase{"alone", fr.s, fr.f, p.json, p.vc, "-"})
				if p.vc != "mal" {
					runSet(setCase{"dirty", fr.s, fr.f, p.json, p.vc, "-"})
				}
			}
		}
		tlsCases()
		baseCases("basealone")
		// one malformed setting next to one well-formed setting of the same section
		for _, s := range sections {
			for i := range s.schema.Fields {
				nf := &s.schema.Fields[i]
				if nf.Ty != "dur" && tier != "thorough" {
					continue
				}
				var bad string
				for _, p := range pool(nf) {
					if p.vc == "mal" && p.json != `""` {
						bad = p.json
						break
					}
				}
				if bad == "" {
					continue
				}
				for k := range s.schema.Fields {
					of := &s.schema.Fields[k]
					if k == i || (of.Ty != "dur" && tier != "thorough") {
						continue
					}
					if alt := altValue(s, of); alt != "" {
						runSet(setCase{"alone", s, of, alt, "wf", nf.JSONPath() + ":=" + esc(bad)})
					}
				}
			}
		}
	case "file":
		runDefaultFile()
		runMgr("plain")
		runMgr("dup")
		baseCases("basefile")
		for _, fr := range fields {
			for _, p := range pool(fr.f) {
				runSet(setCase{"file", fr.s, fr.f, p.json, p.vc, "-"})
			}
		}
		for _, s := range sections {
			for _, v := range shapeVariants {
				runShape("alone", s.def.name, v)
				runShape("file", s.def.name, v)
			}
			runShape("missing", s.def.name, "-")
		}
		for _, g := range []string{"cluster", "consensus", "api", "ipfs_connector", "state", "pin_tracker", "monitor", "allocator", "informer", "observations", "datastore"} {
			for _, v := range []string{"null", "7", "[]", "{}", `"x"`, `{"unknown_component_verif":null}`, `{"unknown_component_verif":{}}`} {
				runShape("group", g, v)
			}
		}
		var names []string
		for n := range rawVariants {
			names = append(names, n)
		}
		sort.Strings(names)
		for _, n := range names {
			runShape("raw", "-", n)
		}
	case "env":
		for _, fr := range fields {
			for _, p := range pool(fr.f) {
				if p.vc == "unset" {
					continue
				}
				runSet(setCase{"env", fr.s, fr.f, p.json, p.vc, "-"})
				if p.vc != "mal" {
					runSet(setCase{"envalt", fr.s, fr.f, p.json, p.vc, "-"})
				}
			}
		}
		envkBoundary(fields) // raw texts per envconfig decode kind (envkind.go)
		// through config.Manager: per field the first two well-formed, the first zero and the first malformed pool value
		for _, fr := range fields {
			seen := map[string]int{}
			for _, p := range pool(fr.f) {
				if p.vc == "unset" {
					continue
				}
				lim := 1
				if p.vc == "wf" {
					lim = 2
				}
				if seen[p.vc] >= lim {
					continue
				}
				seen[p.vc]++
				runSet(setCase{"menv", fr.s, fr.f, p.json, p.vc, "-"})
				if p.vc != "mal" {
					runSet(setCase{"menvfile", fr.s, fr.f, p.json, p.vc, "-"})
				}
			}
		}
	}
}

// mangle applies a few byte edits to a JSON text (the malformed stream).
func mangle(b []byte, r *common.Rng) string {
	x := append([]byte{}, b...)
	for n := 1 + r.Intn(3); n > 0 && len(x) > 0; n-- {
		i := r.Intn(len(x))
		switch r.Intn(5) {
		case 0:
			x = append(x[:i], x[i+1:]...)
		case 1:
			x = x[:i]
		case 2:
			x[i] = byte(r.Intn(256))
		case 3:
			ins := []string{"null", "{", "}", "[", "]", "\"", ",", ":", "1e999", "-", "\\u0000", "{}"}[r.Intn(12)]
			x = append(x[:i], append([]byte(ins), x[i:]...)...)
		case 4:
			j := r.Intn(len(x))
			x[i], x[j] = x[j], x[i]
		}
	}
	return string(x)
}

func random(suite string, k int) {
	if suite == "ident" {
		identRandom(k)
		return
	}
	if suite == "src" {
		srcRandom(k)
		return
	}
	if suite == "val" {
		valRandom(k)
		return
	}
	fields := allFields()
	r := common.NewRng(common.Seed()).Fork(uint64(k))
	if len(fields) == 0 {
		return
	}
	if r.Chance(1, 12) {
		s := sections[r.Intn(len(sections))]
		if s.bad {
			return
		}
		if suite == "file" {
			runShape("rawbytes", "-", mangle([]byte(compact(fullFile(nil))), r))
		} else {
			runShape("alone", s.def.name, mangle(s.baseB, r))
		}
		return
	}
	fr := fields[r.Intn(len(fields))]
	p := randomValue(fr.f, r)
	noise := "-"
	var mode string
	switch suite {
	case "sweep":
		mode = []string{"alone", "alone", "dirty"}[r.Intn(3)]
		if mode == "alone" && r.Chance(1, 3) && len(fr.s.schema.Fields) > 1 {
			nf := &fr.s.schema.Fields[r.Intn(len(fr.s.schema.Fields))]
			if nf != fr.f && !strings.HasPrefix(fr.f.JSONPath(), nf.JSONPath()) && !strings.HasPrefix(nf.JSONPath(), fr.f.JSONPath()) {
				np := randomValue(nf, r)
				noise = nf.JSONPath() + ":=" + esc(np.json)
			}
		}
	case "file":
		mode = "file"
	case "env":
		// 1 in 6 through config.Manager (those cases cost ~10x a section case)
		mode = []string{"env", "envalt", "env", "envalt", "env", "envalt", "env", "envalt", "env", "envalt", "menv", "menvfile"}[r.Intn(12)]
	}
	runSet(setCase{mode, fr.s, fr.f, p.json, p.vc, noise})
}

func kv(tokens []string, key string) string {
	for _, t := range tokens {
		if strings.HasPrefix(t, key+"=") {
			return t[len(key)+1:]
		}
	}
	return ""
}

func replay(line string) {
	w := strings.Fields(line)
	if len(w) > 0 && w[0] == "C15" {
		w = w[1:]
	}
	if len(w) < 2 {
		return
	}
	switch w[0] {
	case "ident":
		if ops := kv(w, "ops"); ops != "" {
			runIdent(strings.Split(ops, ","))
		}
	case "disp":
		runDisp(w[1])
	case "rlib":
		runRlib(kv(w, "id"), kv(w, "key"), kv(w, "addr"))
	case "sind":
		runSind(w[1], kv(w, "src"), kv(w, "dest"))
	case "pdur":
		var cur []int64
		for _, c := range strings.Split(kv(w, "cur"), ",") {
			n, err := strconv.ParseInt(c, 10, 64)
			if err != nil {
				return
			}
			cur = append(cur, n)
		}
		runPdur(strings.Split(kv(w, "args"), ","), cur)
	case "mgr":
		runMgr(w[1])
	case "val":
		replayVal(w)
	case "zero":
		if s := byName[w[1]]; s != nil {
			runZero(s, kv(w, "first"), kv(w, "op"))
		}
	case "src":
		if ops := kv(w, "ops"); ops != "" {
			runSrc(strings.Split(ops, ","))
		}
	case "default":
		if w[1] == "file" {
			runDefaultFile()
		} else if s := byName[w[1]]; s != nil {
			runDefault(s)
		}
	case "shape":
		if len(w) >= 4 {
			v, _ := url.QueryUnescape(strings.TrimPrefix(w[3], "v:"))
			runShape(w[1], w[2], v)
		}
	case "set":
		if len(w) < 4 {
			return
		}
		s := byName[w[2]]
		if s == nil {
			out.Line("# unknown-section %s", w[2])
			return
		}
		f := fieldByPath(s, w[3])
		if f == nil {
			out.Line("# unknown-field %s.%s", w[2], w[3])
			return
		}
		val, err := url.QueryUnescape(kv(w, "val"))
		if err != nil {
			return
		}
		noise := kv(w, "noise")
		if noise == "" {
			noise = "-"
		}
		vc := kv(w, "vc")
		if vc == "" {
			vc = "mal"
		}
		runSet(setCase{w[1], s, f, val, vc, noise})
	}
}

func main() {
	args := common.ParseArgs()
	suite := args.Extra["suite"]
	if suite == "" {
		suite = "sweep"
	}
	out = common.NewOut()
	defer out.Flush()
	setup()
	if args.Extra["stdin"] == "1" {
		sc := bufio.NewScanner(os.Stdin)
		sc.Buffer(make([]byte, 1<<20), 1<<24)
		for sc.Scan() {
			l := strings.TrimSpace(sc.Text())
			if l == "" || strings.HasPrefix(l, "#") {
				continue
			}
			if i := strings.Index(l, " => "); i >= 0 {
				l = l[:i]
			}
			replay(l)
		}
		return
	}
	if args.Only >= 0 {
		random(suite, args.Only)
		return
	}
	boundary(suite, args.Tier)
	n := args.N
	if n < 0 {
		n = 500
	}
	for k := 0; k < n; k++ {
		random(suite, k)
	}
}
