// C15 suite "ident": config/identity.go and config.DisplayJSON driven directly.
//
// case kind `ident`: one config.Identity object used for a sequence of operations
//
//	L:<id>:<key>   LoadJSON of {"id": .., "private_key": ..}      Lf:<id>:<key>  the same through a file + LoadJSONFromFile
//	G              LoadJSON of unparsable bytes
//	E:<id>:<key>   ApplyEnvVars with CLUSTER_ID / CLUSTER_PRIVATEKEY ("-" = variable not set)
//
// id tokens:  i0 i1 i2 (peer ID of key pair 0/1/2), ibad (not a peer ID), iempty (""), iabs (key omitted)
// key tokens: k0 k1 k2 (base64 private key of pair 0/1/2), kb64 (not base64), kbytes (base64 of bytes that are no key),
//
//	kempty (""), kabs (key omitted)
//
//	C15 ident ops=L:i0:k0,E:i1:- => res=ok,err sid=1 skey=0 valid=0 saved=i1:k0 perm=600 rres=err rid=1 rkey=-
//
// sid/skey: which pair the Identity's ID / key belong to afterwards ("-" unset, "?" none of the three), valid: Validate(),
// saved: ToJSON decoded back to tokens, perm: mode of the file SaveJSON wrote, rres/rid/rkey: a fresh Identity loading that file.
// ApplyEnvVars / ToJSON on an Identity without a private key dereference nil (callers always load or Default() first):
// the harness does not call them in that state (a case whose E operation meets it is dropped; saved=- otherwise).
//
// case kind `disp`: config.DisplayJSON on synthetic struct types with hidden tags at several depths
//
//	C15 disp <type> => res=ok leaves=<seg.seg..=obs,...>      seg = <json name>[^] (^ = field tagged hidden:"true")
//
// obs: s (the leaf's value is shown), m (its top-level field shows the mask), a (absent), x (something else), with a
// trailing ! when the leaf's value occurs anywhere in the displayed text.
package main

import (
	"encoding/base64"
	"encoding/json"
	"fmt"
	"net/url"
	"os"
	"path/filepath"
	"strconv"
	"strings"
	"time"

	"github.com/ipfs/ipfs-cluster/api/rest"
	"github.com/ipfs/ipfs-cluster/config"
	crypto "github.com/libp2p/go-libp2p-core/crypto"
	peer "github.com/libp2p/go-libp2p-core/peer"
	"verifharness/common"
)

type keyPair struct {
	id   peer.ID
	priv crypto.PrivKey
	idS  string
	keyS string
}

var pairs []keyPair

func identSetup() bool {
	if pairs != nil {
		return len(pairs) == 3
	}
	pairs = []keyPair{}
	for _, typ := range []int{crypto.Ed25519, crypto.Ed25519, crypto.Secp256k1} {
		priv, pub, err := crypto.GenerateKeyPair(typ, -1)
		if err != nil {
			return false
		}
		pid, err := peer.IDFromPublicKey(pub)
		if err != nil {
			return false
		}
		b, err := crypto.MarshalPrivateKey(priv)
		if err != nil {
			return false
		}
		pairs = append(pairs, keyPair{pid, priv, pid.Pretty(), base64.StdEncoding.EncodeToString(b)})
	}
	return true
}

// text of an id / key token; present=false: the JSON key is omitted / the variable is not set
func idText(t string) (string, bool, bool) {
	switch t {
	case "i0", "i1", "i2":
		return pairs[int(t[1]-'0')].idS, true, true
	case "ibad":
		return "not-a-peer-id", true, true
	case "iempty":
		return "", true, true
	case "iabs", "-":
		return "", false, true
	}
	return "", false, false
}

func keyText(t string) (string, bool, bool) {
	switch t {
	case "k0", "k1", "k2":
		return pairs[int(t[1]-'0')].keyS, true, true
	case "kb64":
		return "!!not*base64!!", true, true
	case "kbytes":
		return base64.StdEncoding.EncodeToString([]byte("these bytes are not a private key")), true, true
	case "kempty":
		return "", true, true
	case "kabs", "-":
		return "", false, true
	}
	return "", false, false
}

func idIndex(id peer.ID) string {
	if id == "" {
		return "-"
	}
	for i, p := range pairs {
		if p.id == id {
			return strconv.Itoa(i)
		}
	}
	return "?"
}

func keyIndex(k crypto.PrivKey) string {
	if k == nil {
		return "-"
	}
	for i, p := range pairs {
		if p.priv.Equals(k) {
			return strconv.Itoa(i)
		}
	}
	return "?"
}

func identDir() (string, bool) {
	dir := filepath.Join(os.Getenv("VERIF_SCRATCH"), "c15ident")
	if os.Getenv("VERIF_SCRATCH") == "" {
		return "", false
	}
	if err := os.MkdirAll(dir, 0700); err != nil {
		return "", false
	}
	return dir, true
}

func runIdent(ops []string) {
	if !identSetup() {
		out.Line("# inconclusive key pairs could not be generated")
		return
	}
	dir, ok := identDir()
	if !ok {
		out.Line("# inconclusive scratch directory for identity files could not be prepared")
		return
	}
	ident := &config.Identity{}
	var res []string
	for _, op := range ops {
		w := strings.Split(op, ":")
		r := "bad"
		switch {
		case op == "G":
			r = guard(func() error { return ident.LoadJSON([]byte(`{"id": "x", "private_key"`)) })
		case (w[0] == "L" || w[0] == "Lf") && len(w) == 3:
			idS, idP, ok1 := idText(w[1])
			keyS, keyP, ok2 := keyText(w[2])
			if !ok1 || !ok2 || w[1] == "-" || w[2] == "-" {
				return
			}
			m := map[string]interface{}{}
			if idP {
				m["id"] = idS
			}
			if keyP {
				m["private_key"] = keyS
			}
			raw, _ := json.Marshal(m)
			if w[0] == "Lf" {
				p := filepath.Join(dir, "in.json")
				if os.WriteFile(p, raw, 0600) != nil {
					out.Line("# inconclusive identity file could not be written")
					return
				}
				r = guard(func() error { return ident.LoadJSONFromFile(p) })
			} else {
				r = guard(func() error { return ident.LoadJSON(raw) })
			}
		case w[0] == "E" && len(w) == 3:
			idS, idP, ok1 := idText(w[1])
			keyS, keyP, ok2 := keyText(w[2])
			if !ok1 || !ok2 || (idP && idS == "") || (keyP && keyS == "") {
				return // an empty variable conventionally means "not set": not generated
			}
			if ident.PrivateKey == nil {
				return // precondition of ApplyEnvVars (see the header)
			}
			if idP {
				os.Setenv("CLUSTER_ID", idS)
			}
			if keyP {
				os.Setenv("CLUSTER_PRIVATEKEY", keyS)
			}
			r = guard(ident.ApplyEnvVars)
			os.Unsetenv("CLUSTER_ID")
			os.Unsetenv("CLUSTER_PRIVATEKEY")
		default:
			return
		}
		res = append(res, r)
	}
	valid := 0
	if guard(ident.Validate) == "ok" {
		valid = 1
	}
	saved, perm, rres, rid, rkey := "-", "-", "-", "-", "-"
	if ident.PrivateKey != nil {
		var bs []byte
		r := guard(func() error {
			var err error
			bs, err = ident.ToJSON()
			return err
		})
		if r != "ok" {
			saved = r
		} else {
			var j struct {
				ID  string `json:"id"`
				Key string `json:"private_key"`
			}
			saved = "x:x"
			if json.Unmarshal(bs, &j) == nil {
				it, kt := "ibad", "kbad"
				if j.ID == "" {
					it = "iempty"
				}
				for i, p := range pairs {
					if p.idS == j.ID {
						it = "i" + strconv.Itoa(i)
					}
					if p.keyS == j.Key {
						kt = "k" + strconv.Itoa(i)
					}
				}
				saved = it + ":" + kt
			}
			p := filepath.Join(dir, "identity.json")
			os.Remove(p)
			if sr := guard(func() error { return ident.SaveJSON(p) }); sr != "ok" {
				saved = "save-" + sr
			} else {
				if st, err := os.Stat(p); err == nil {
					perm = fmt.Sprintf("%o", st.Mode().Perm())
				}
				fresh := &config.Identity{}
				rres = guard(func() error { return fresh.LoadJSONFromFile(p) })
				rid, rkey = idIndex(fresh.ID), keyIndex(fresh.PrivateKey)
			}
		}
	}
	out.Line("C15 ident ops=%s => res=%s sid=%s skey=%s valid=%d saved=%s perm=%s rres=%s rid=%s rkey=%s",
		strings.Join(ops, ","), strings.Join(res, ","), idIndex(ident.ID), keyIndex(ident.PrivateKey), valid, saved, perm, rres, rid, rkey)
}

var identIDs = []string{"i0", "i1", "i2", "ibad", "iempty", "iabs"}
var identKeys = []string{"k0", "k1", "k2", "kb64", "kbytes", "kempty", "kabs"}
var identEnvIDs = []string{"-", "i0", "i1", "ibad"}
var identEnvKeys = []string{"-", "k0", "k1", "kb64", "kbytes"}

func identBoundary(tier string) {
	var loads, envs []string
	for _, i := range identIDs {
		for _, k := range identKeys {
			loads = append(loads, "L:"+i+":"+k)
		}
	}
	for _, i := range identEnvIDs {
		for _, k := range identEnvKeys {
			envs = append(envs, "E:"+i+":"+k)
		}
	}
	runIdent([]string{"G"})
	for _, l := range loads {
		runIdent([]string{l})
		runIdent([]string{"Lf" + l[1:]})
	}
	for _, first := range []string{"L:i0:k0", "L:i2:k2"} {
		for _, l := range loads {
			runIdent([]string{first, l})
		}
		for _, e := range envs {
			runIdent([]string{first, e})
		}
		runIdent([]string{first, "G"})
	}
	// a refused load in the middle (half-updated object), then every environment / a good load
	for _, bad := range []string{"L:i1:kb64", "L:i1:kbytes", "L:i1:k2", "L:ibad:k1", "G"} {
		for _, e := range envs {
			runIdent([]string{"L:i0:k0", bad, e})
		}
		runIdent([]string{"L:i0:k0", bad, "L:i1:k1"})
		runIdent([]string{"L:i0:k0", bad, "Lf:i2:k2"})
	}
	if tier == "thorough" {
		for _, l := range loads {
			for _, e := range envs {
				runIdent([]string{l, e})
			}
		}
	}
	for _, t := range dispTypes {
		runDisp(t.name)
	}
	utilBoundary()
	rlibBoundary()
}

func identRandom(k int) {
	r := common.NewRng(common.Seed()).Fork(uint64(k) + 77000)
	if r.Chance(1, 4) {
		utilRandom(r)
		return
	}
	n := 1 + r.Intn(4)
	var ops []string
	haveKey := false
	for i := 0; i < n; i++ {
		switch c := r.Intn(10); {
		case c < 5 || !haveKey:
			kind := []string{"L", "L", "Lf"}[r.Intn(3)]
			id, key := identIDs[r.Intn(len(identIDs))], identKeys[r.Intn(len(identKeys))]
			if r.Chance(1, 2) {
				key = "k" + id[1:] // a matching pair half of the time
				if id[1] < '0' || id[1] > '2' {
					key = "k0"
				}
			}
			ops = append(ops, kind+":"+id+":"+key)
			if strings.HasPrefix(id, "i") && id[1] >= '0' && id[1] <= '2' && key[1] >= '0' && key[1] <= '2' {
				haveKey = true
			}
		case c < 9:
			ops = append(ops, "E:"+identEnvIDs[r.Intn(len(identEnvIDs))]+":"+identEnvKeys[r.Intn(len(identEnvKeys))])
		default:
			ops = append(ops, "G")
		}
	}
	runIdent(ops)
}

// ---------- config.DisplayJSON on synthetic types ----------

type dInner struct {
	Token string `json:"token" hidden:"true"`
	Plain string `json:"plain"`
	Opt   string `json:"opt,omitempty"`
}

type dFlat struct {
	Secret    string            `json:"secret" hidden:"true"`
	Name      string            `json:"name"`
	Opt       string            `json:"opt,omitempty"`
	HiddenOpt string            `json:"hidden_opt,omitempty" hidden:"true"`
	HNum      int               `json:"hnum" hidden:"true"`
	HMap      map[string]string `json:"hmap" hidden:"true"`
	HList     []string          `json:"hlist,omitempty" hidden:"true"`
	NotHidden string            `json:"not_hidden" hidden:"false"`
	private   string
}

type dNested struct {
	Secret  string            `json:"secret" hidden:"true"`
	Nested  dInner            `json:"nested"`
	PNested *dInner           `json:"pnested"`
	HNested dInner            `json:"hnested" hidden:"true"`
	HPtr    *dInner           `json:"hptr,omitempty" hidden:"true"`
	List    []dInner          `json:"list"`
	Map     map[string]dInner `json:"map"`
	Name    string            `json:"name"`
}

type dispLeaf struct {
	path []string // segments, "^" appended when the field is tagged hidden
	val  string
}

type dispType struct {
	name   string
	value  func() interface{}
	leaves []dispLeaf
}

var dispTypes = []dispType{
	{"flat", func() interface{} {
		return &dFlat{Secret: "v-SECRET-1", Name: "v-name", HiddenOpt: "", HNum: 987650123, HMap: map[string]string{"user": "v-PASSWORD-2"},
			HList: []string{"v-LISTED-3"}, NotHidden: "v-visible", private: "v-private"}
	}, []dispLeaf{
		{[]string{"secret^"}, "v-SECRET-1"}, {[]string{"name"}, "v-name"}, {[]string{"opt"}, ""}, {[]string{"hidden_opt^"}, ""},
		{[]string{"hnum^"}, "987650123"}, {[]string{"hmap^", "user"}, "v-PASSWORD-2"}, {[]string{"hlist^", "0"}, "v-LISTED-3"},
		{[]string{"not_hidden"}, "v-visible"},
	}},
	{"flatzero", func() interface{} { return &dFlat{Name: "v-name"} }, []dispLeaf{
		{[]string{"secret^"}, ""}, {[]string{"name"}, "v-name"}, {[]string{"hidden_opt^"}, ""}, {[]string{"hnum^"}, "0"},
	}},
	{"nested", func() interface{} {
		return &dNested{Secret: "v-SECRET-1", Nested: dInner{Token: "v-TOKEN-n", Plain: "v-plain-n"},
			PNested: &dInner{Token: "v-TOKEN-p", Plain: "v-plain-p", Opt: "v-opt-p"},
			HNested: dInner{Token: "v-TOKEN-h", Plain: "v-PLAIN-h"}, HPtr: &dInner{Token: "v-TOKEN-hp", Plain: "v-PLAIN-hp"},
			List: []dInner{{Token: "v-TOKEN-l0", Plain: "v-plain-l0"}, {Token: "v-TOKEN-l1", Plain: "v-plain-l1"}},
			Map:  map[string]dInner{"a": {Token: "v-TOKEN-ma", Plain: "v-plain-ma"}}, Name: "v-name"}
	}, []dispLeaf{
		{[]string{"secret^"}, "v-SECRET-1"},
		{[]string{"nested", "token^"}, "v-TOKEN-n"}, {[]string{"nested", "plain"}, "v-plain-n"},
		{[]string{"pnested", "token^"}, "v-TOKEN-p"}, {[]string{"pnested", "plain"}, "v-plain-p"}, {[]string{"pnested", "opt"}, "v-opt-p"},
		{[]string{"hnested^", "token^"}, "v-TOKEN-h"}, {[]string{"hnested^", "plain"}, "v-PLAIN-h"},
		{[]string{"hptr^", "token^"}, "v-TOKEN-hp"}, {[]string{"hptr^", "plain"}, "v-PLAIN-hp"},
		{[]string{"list", "0", "token^"}, "v-TOKEN-l0"}, {[]string{"list", "1", "plain"}, "v-plain-l1"},
		{[]string{"map", "a", "token^"}, "v-TOKEN-ma"}, {[]string{"map", "a", "plain"}, "v-plain-ma"},
		{[]string{"name"}, "v-name"},
	}},
	{"nestednil", func() interface{} { return &dNested{Secret: "v-SECRET-1", Name: "v-name"} }, []dispLeaf{
		{[]string{"secret^"}, "v-SECRET-1"}, {[]string{"hptr^", "token^"}, "v-never-set"}, {[]string{"name"}, "v-name"},
	}},
}

const dispMask = "XXX_hidden_XXX"

func runDisp(name string) {
	var t *dispType
	for i := range dispTypes {
		if dispTypes[i].name == name {
			t = &dispTypes[i]
		}
	}
	if t == nil {
		out.Line("# unknown-disp-type %s", name)
		return
	}
	var disp []byte
	res := guard(func() error {
		var err error
		disp, err = config.DisplayJSON(t.value())
		return err
	})
	var toks []string
	var top map[string]interface{}
	if res == "ok" {
		if json.Unmarshal(disp, &top) != nil {
			res = "err"
		}
	}
	for _, l := range t.leaves {
		obs := "-"
		if res == "ok" {
			obs = "x"
			var cur interface{} = top
			for i, seg := range l.path {
				key := strings.TrimSuffix(seg, "^")
				var next interface{}
				has := false
				switch c := cur.(type) {
				case map[string]interface{}:
					next, has = c[key]
				case []interface{}:
					if n, err := strconv.Atoi(key); err == nil && n < len(c) {
						next, has = c[n], true
					}
				}
				if !has {
					obs = "a"
					break
				}
				if i == 0 && next == dispMask {
					obs = "m"
					break
				}
				cur = next
				if i == len(l.path)-1 {
					switch v := cur.(type) {
					case string:
						if v == l.val {
							obs = "s"
						}
					case float64:
						if strconv.FormatFloat(v, 'f', -1, 64) == l.val {
							obs = "s"
						}
					}
				}
			}
			if l.val != "" && l.val != "0" && strings.Contains(string(disp), l.val) {
				obs += "!"
			}
		}
		toks = append(toks, strings.Join(l.path, ".")+"="+obs)
	}
	out.Line("C15 disp %s => res=%s leaves=%s", name, res, strings.Join(toks, ","))
}

// ---------- config.SetIfNotDefault and config.ParseDurations driven directly ----------
//
//	C15 sind <go type> guard=<arm of the regenerated type switch | none> z=<src is the zero value> src=<v> dest=<v> => out=<v>
//	C15 pdur args=<e | b | o<ns>, ...> cur=<ns,...> => res=<ok|err> out=<ns,...>
//
// sind types without an arm (int64, uint, float32, list) show what the missing default case means: nothing is assigned.

var sindGuards map[string]string

func sindGuard(ty string) string {
	if sindGuards == nil {
		sindGuards = map[string]string{}
		arms, err := common.C15SindArms(common.C15Repo())
		if err == nil {
			for _, a := range arms {
				sindGuards[a.Type] = a.Guard
			}
		}
	}
	if g, ok := sindGuards[ty]; ok {
		return g
	}
	return "none"
}

var sindValues = map[string][]string{
	"int":           {"0", "1", "-1", "4096", "9223372036854775807", "-9223372036854775808"},
	"uint64":        {"0", "1", "4096", "18446744073709551615"},
	"float64":       {"0", "1", "-1.5", "1e-300", "1.7976931348623157e+308"},
	"bool":          {"false", "true"},
	"string":        {"", "x", "0", "+", "a%2Fb"},
	"time.Duration": {"0", "1", "-1", "60000000000", "9223372036854775807"},
	"int64":         {"0", "7"},
	"uint":          {"0", "7"},
	"float32":       {"0", "2.5"},
	"list":          {"", "a"},
}

var sindOrder = []string{"int", "uint64", "float64", "bool", "string", "time.Duration", "int64", "uint", "float32", "list"}

func runSind(ty, src, dest string) {
	out := "bad"
	z := 0
	r := guard(func() error {
		switch ty {
		case "int":
			s, e1 := strconv.ParseInt(src, 10, 64)
			d, e2 := strconv.ParseInt(dest, 10, 64)
			if e1 != nil || e2 != nil {
				return fmt.Errorf("bad")
			}
			sv, dv := int(s), int(d)
			if sv == 0 {
				z = 1
			}
			config.SetIfNotDefault(sv, &dv)
			out = strconv.Itoa(dv)
		case "int64":
			s, e1 := strconv.ParseInt(src, 10, 64)
			d, e2 := strconv.ParseInt(dest, 10, 64)
			if e1 != nil || e2 != nil {
				return fmt.Errorf("bad")
			}
			if s == 0 {
				z = 1
			}
			config.SetIfNotDefault(s, &d)
			out = strconv.FormatInt(d, 10)
		case "time.Duration":
			s, e1 := strconv.ParseInt(src, 10, 64)
			d, e2 := strconv.ParseInt(dest, 10, 64)
			if e1 != nil || e2 != nil {
				return fmt.Errorf("bad")
			}
			sv, dv := time.Duration(s), time.Duration(d)
			if sv == 0 {
				z = 1
			}
			config.SetIfNotDefault(sv, &dv)
			out = strconv.FormatInt(int64(dv), 10)
		case "uint64":
			s, e1 := strconv.ParseUint(src, 10, 64)
			d, e2 := strconv.ParseUint(dest, 10, 64)
			if e1 != nil || e2 != nil {
				return fmt.Errorf("bad")
			}
			if s == 0 {
				z = 1
			}
			config.SetIfNotDefault(s, &d)
			out = strconv.FormatUint(d, 10)
		case "uint":
			s, e1 := strconv.ParseUint(src, 10, 64)
			d, e2 := strconv.ParseUint(dest, 10, 64)
			if e1 != nil || e2 != nil {
				return fmt.Errorf("bad")
			}
			sv, dv := uint(s), uint(d)
			if sv == 0 {
				z = 1
			}
			config.SetIfNotDefault(sv, &dv)
			out = strconv.FormatUint(uint64(dv), 10)
		case "float64":
			s, e1 := strconv.ParseFloat(src, 64)
			d, e2 := strconv.ParseFloat(dest, 64)
			if e1 != nil || e2 != nil {
				return fmt.Errorf("bad")
			}
			if s == 0 {
				z = 1
			}
			config.SetIfNotDefault(s, &d)
			out = fmtFloat(d)
		case "float32":
			s, e1 := strconv.ParseFloat(src, 32)
			d, e2 := strconv.ParseFloat(dest, 32)
			if e1 != nil || e2 != nil {
				return fmt.Errorf("bad")
			}
			sv, dv := float32(s), float32(d)
			if sv == 0 {
				z = 1
			}
			config.SetIfNotDefault(sv, &dv)
			out = fmtFloat(float64(dv))
		case "bool":
			sv, dv := src == "true", dest == "true"
			if !sv {
				z = 1
			}
			config.SetIfNotDefault(sv, &dv)
			out = strconv.FormatBool(dv)
		case "string":
			sv, e1 := url.QueryUnescape(src)
			dv, e2 := url.QueryUnescape(dest)
			if e1 != nil || e2 != nil {
				return fmt.Errorf("bad")
			}
			if sv == "" {
				z = 1
			}
			config.SetIfNotDefault(sv, &dv)
			out = esc(dv)
		case "list":
			var sv, dv []string
			if src != "" {
				sv = strings.Split(src, "+")
			} else {
				z = 1
			}
			if dest != "" {
				dv = strings.Split(dest, "+")
			}
			config.SetIfNotDefault(sv, &dv)
			out = strings.Join(dv, "+")
		default:
			return fmt.Errorf("bad")
		}
		return nil
	})
	if r == "panic" {
		out = "panic"
	} else if r != "ok" {
		return
	}
	common_out("C15 sind %s guard=%s z=%d src=%s dest=%s => out=%s", ty, sindGuard(ty), z, src, dest, out)
}

func common_out(f string, a ...interface{}) { out.Line(f, a...) }

func sindDest(ty string) string {
	switch ty {
	case "bool":
		return "true"
	case "string":
		return "dflt"
	case "list":
		return "d1+d2"
	case "float64", "float32":
		return "42.5"
	}
	return "42"
}

func runPdur(args []string, cur []int64) {
	if len(args) != len(cur) || len(args) == 0 {
		return
	}
	dst := make([]time.Duration, len(args))
	var opts []*config.DurationOpt
	for i, a := range args {
		dst[i] = time.Duration(cur[i])
		text := ""
		switch {
		case a == "e":
		case a == "b":
			text = "12parsecs"
		case strings.HasPrefix(a, "o"):
			n, err := strconv.ParseInt(a[1:], 10, 64)
			if err != nil {
				return
			}
			text = time.Duration(n).String()
		default:
			return
		}
		opts = append(opts, &config.DurationOpt{Duration: text, Dst: &dst[i], Name: "arg" + strconv.Itoa(i)})
	}
	res := guard(func() error { return config.ParseDurations("verif", opts...) })
	var o, c []string
	for i := range dst {
		o = append(o, strconv.FormatInt(int64(dst[i]), 10))
		c = append(c, strconv.FormatInt(cur[i], 10))
	}
	out.Line("C15 pdur args=%s cur=%s => res=%s out=%s", strings.Join(args, ","), strings.Join(c, ","), res, strings.Join(o, ","))
}

func utilBoundary() {
	for _, ty := range sindOrder {
		for _, v := range sindValues[ty] {
			runSind(ty, v, sindDest(ty))
		}
	}
	runSind("bool", "false", "false")
	runSind("bool", "true", "false")
	for _, a := range [][]string{{"e"}, {"b"}, {"o0"}, {"o1"}, {"o-1000000000"}, {"o9223372036854775807"}, {"o5000000000", "b", "o7"}, {"b", "o7"},
		{"o7", "e", "o8"}, {"e", "e"}, {"o3", "o0", "b", "b", "o4"}} {
		cur := make([]int64, len(a))
		for i := range cur {
			cur[i] = int64(100 + i)
		}
		runPdur(a, cur)
	}
}

func utilRandom(r *common.Rng) {
	if r.Chance(1, 2) {
		ty := sindOrder[r.Intn(6)]
		vs := sindValues[ty]
		v := vs[r.Intn(len(vs))]
		if (ty == "int" || ty == "time.Duration") && r.Chance(1, 2) {
			v = strconv.FormatInt(int64(r.Intn(2000000))-1000000, 10)
		}
		runSind(ty, v, sindDest(ty))
		return
	}
	n := 1 + r.Intn(5)
	var a []string
	var cur []int64
	for i := 0; i < n; i++ {
		switch c := r.Intn(6); {
		case c == 0:
			a = append(a, "e")
		case c == 1:
			a = append(a, "b")
		default:
			a = append(a, "o"+strconv.FormatInt(int64(r.Intn(4000000000))-1000000000, 10))
		}
		cur = append(cur, int64(r.Intn(1000)))
	}
	runPdur(a, cur)
}

// ---------- restapi's libp2p identity (id, private_key, libp2p_listen_multiaddress: all or none, ID must match the key) ----------
//
//	C15 rlib id=<-|i0|i1|ibad> key=<-|k0|k1|kb64|kbytes> addr=<0|1> => res=.. sid=.. skey=.. valid=.. saved=<id>:<key> rres=..
func runRlib(idT, keyT, addr string) {
	s := byName["restapi"]
	if s == nil || s.bad || !identSetup() {
		return
	}
	idS, idP, ok1 := idText(idT)
	keyS, keyP, ok2 := keyText(keyT)
	if !ok1 || !ok2 {
		return
	}
	m := clone(s.base).(map[string]interface{})
	delete(m, "id")
	delete(m, "private_key")
	delete(m, "libp2p_listen_multiaddress")
	if idP {
		m["id"] = idS
	}
	if keyP {
		m["private_key"] = keyS
	}
	if addr == "1" {
		m["libp2p_listen_multiaddress"] = []interface{}{"/ip4/127.0.0.1/tcp/19096"}
	}
	obj := &rest.Config{}
	res := guard(func() error { return obj.LoadJSON([]byte(compact(m))) })
	sid, skey, saved, rres := "-", "-", "-", "-"
	valid := 0
	if res == "ok" {
		sid, skey = idIndex(obj.ID), keyIndex(obj.PrivateKey)
		if guard(obj.Validate) == "ok" {
			valid = 1
		}
		if bs, r := toJSON(obj); r != "ok" {
			saved = r
		} else {
			var j struct {
				ID  string `json:"id"`
				Key string `json:"private_key"`
			}
			saved = "x:x"
			if json.Unmarshal(bs, &j) == nil {
				it, kt := "ibad", "kbad"
				if j.ID == "" {
					it = "-"
				}
				if j.Key == "" {
					kt = "-"
				}
				for i, p := range pairs {
					if p.idS == j.ID {
						it = "i" + strconv.Itoa(i)
					}
					if p.keyS == j.Key {
						kt = "k" + strconv.Itoa(i)
					}
				}
				saved = it + ":" + kt
			}
			fresh := &rest.Config{}
			rres = guard(func() error { return fresh.LoadJSON(bs) })
			if rres == "ok" && (fresh.ID != obj.ID || keyIndex(fresh.PrivateKey) != skey) {
				rres = "changed"
			}
		}
	}
	out.Line("C15 rlib id=%s key=%s addr=%s => res=%s sid=%s skey=%s valid=%d saved=%s rres=%s", idT, keyT, addr, res, sid, skey, valid, saved, rres)
}

func rlibBoundary() {
	for _, i := range []string{"-", "i0", "i1", "ibad"} {
		for _, k := range []string{"-", "k0", "k1", "kb64", "kbytes"} {
			runRlib(i, k, "0")
			runRlib(i, k, "1")
		}
	}
}
