// C15 case kind "mgr": a whole config.Manager file with unknown components / groups / top-level keys, a null
// unknown component, duplicate keys, an undefined registered component; what ToJSON and ToDisplayJSON do.
//
//   C15 mgr <variant> => res=.. unkcomp=<kept|dropped> unknull=<kept|dropped> unktop=<kept|dropped>
//        undef=<written|omitted> dup=<last|first|other> disp=<absent|shown> masked=<0|1> fix=<0|1> leak=<0|1>
package main

import (
	"bytes"
	"reflect"
	"strings"

	"github.com/ipfs/ipfs-cluster/config"
)

const unknownSecret = "S3CR3T-verif-unknown-component"

func runMgr(variant string) {
	file := fullFile(nil)
	cons, _ := file["consensus"].(map[string]interface{})
	if cons == nil {
		return
	}
	unk := map[string]interface{}{"secret": unknownSecret, "private_key": unknownSecret + "-key", "x": []interface{}{"a"}}
	cons["verif_unknown"] = unk
	cons["verif_null"] = nil
	file["verif_top"] = map[string]interface{}{"a": "b"}
	if inf, ok := file["informer"].(map[string]interface{}); ok {
		delete(inf, "numpin")
	}
	text := compact(file)
	if variant == "dup" || variant == "all" {
		text = strings.Replace(text, `"cluster_name":"ipfs-cluster"`, `"cluster_name":"dup-first","cluster_name":"dup-last"`, 1)
	}
	kept := func(b bool) string {
		if b {
			return "kept"
		}
		return "dropped"
	}
	m, _ := newManager()
	defer m.Shutdown()
	res := guard(func() error { return m.LoadJSON([]byte(text)) })
	unkcomp, unknull, unktop, undef, dup, disp := "-", "-", "-", "-", "-", "-"
	masked, fix, leak := 0, 0, 0
	if res == "ok" {
		var j1 []byte
		r := guard(func() error {
			var err error
			j1, err = m.ToJSON()
			return err
		})
		if r == "panic" {
			res = "panic"
		}
		if r == "ok" {
			sv, _ := decode(j1)
			sc, _ := sv["consensus"].(map[string]interface{})
			got, has := sc["verif_unknown"]
			unkcomp = kept(has && reflect.DeepEqual(got, clone(unk)))
			v, hasNull := sc["verif_null"]
			unknull = kept(hasNull && v == nil)
			_, hasTop := sv["verif_top"]
			unktop = kept(hasTop)
			undef = "omitted"
			if inf, ok := sv["informer"].(map[string]interface{}); ok {
				if _, ok := inf["numpin"]; ok {
					undef = "written"
				}
			}
			if crdt, ok := sc["crdt"].(map[string]interface{}); ok {
				switch crdt["cluster_name"] {
				case "dup-last":
					dup = "last"
				case "dup-first":
					dup = "first"
				default:
					dup = "other"
				}
			}
			m2, _ := newManager()
			defer m2.Shutdown()
			if guard(func() error { return m2.LoadJSON(j1) }) == "ok" {
				var j2 []byte
				if guard(func() error {
					var err error
					j2, err = m2.ToJSON()
					return err
				}) == "ok" && bytes.Equal(j1, j2) {
					fix = 1
				}
			}
			var d []byte
			if guard(func() error {
				var err error
				d, err = m.ToDisplayJSON()
				return err
			}) == "panic" {
				res = "panic"
			} else {
				disp = "absent"
				if bytes.Contains(d, []byte("verif_unknown")) {
					disp = "shown"
				}
				if leaks(d, j1) || bytes.Contains(d, []byte(unknownSecret)) {
					leak = 1
				}
				// every hidden row of every registered section shows the mask
				masked = 1
				dv, _ := decode(d)
				for _, s := range sections {
					if s.def.typ < 0 {
						continue
					}
					var secv map[string]interface{}
					if s.def.typ == config.Cluster {
						secv, _ = dv["cluster"].(map[string]interface{})
					} else if g, ok := dv[s.def.fileKey].(map[string]interface{}); ok {
						secv, _ = g[s.def.name].(map[string]interface{})
					}
					for i := range s.schema.Fields {
						f := &s.schema.Fields[i]
						if f.Hidden && secv != nil {
							if v := getPath(secv, f.Path[:1]); v != "XXX_hidden_XXX" {
								masked = 0
							}
						}
					}
				}
			}
		}
	}
	out.Line("C15 mgr %s => res=%s unkcomp=%s unknull=%s unktop=%s undef=%s dup=%s disp=%s masked=%d fix=%d leak=%d",
		variant, res, unkcomp, unknull, unktop, undef, dup, disp, masked, fix, leak)
}
