// C15 harness, suite "src": config.Manager and the remote "source" of a
// configuration, driven against an in-process HTTP server.
//
//   C15 src ops=<op,op,...> => res=<ok|err|panic,...> src=<rid|-|?> eff=<k|invalid>
//          saved=<err|panic|source:<rid>|mixed:<rid>|full:<k>> rres=<ok|err|panic|-> reff=<k|invalid|-> rsrc=<rid|-|?>
//
// One Manager (all 14 sections registered) performs the operations in order:
//   P<k>  LoadJSON of a plain full file whose cluster peername is "cfg<k>"      Pf<k>  the same through LoadJSONFromFile
//   I     LoadJSON of a plain file that does not validate                        G      LoadJSON of unparsable bytes
//   N     LoadJSONFromFile of a missing file
//   S:<rid>  LoadJSON of {"source": <url of rid>}     Sf:<rid>  through LoadJSONFromFile     H:<rid>  LoadJSONFromHTTPSource
//   D     Manager.Default()
// then: src = Manager.Source, eff = the configuration the sections hold (cluster peername number, 0 = default,
// "invalid" = Validate fails), saved = ToJSON (SaveJSON + read back when a file was used), and the saved bytes
// are loaded by a fresh Manager (rres, reff, rsrc).
//
// Remote ids (what GET <base>/r/<rid> answers): plain<k> 200 + plain file k; invalid 200 + invalid plain file;
// garbage / empty 200 + unparsable; sourced1 200 + {"source": plain1}; sourcedDown 200 + {"source": down};
// self 200 + {"source": self}; s404 / s500 that status + plain file 9; redir2 302 -> plain2; down: nothing listens.
package main

import (
	"encoding/json"
	"fmt"
	"net"
	"net/http"
	"net/http/httptest"
	"os"
	"path/filepath"
	"strconv"
	"strings"

	"github.com/ipfs/ipfs-cluster/config"

	"verifharness/common"
)

var (
	srcServer *httptest.Server
	srcBase   string // <server>/r/
	srcDown   string // URL on which nothing listens
	srcDir    string
	srcReady  bool
	srcTried  bool
)

var remoteIDs = []string{"plain1", "plain2", "plain3", "invalid", "garbage", "empty", "sourced1", "sourcedDown", "self", "s404", "s500", "redir2", "down"}

func plainFile(k int, valid bool) []byte {
	file := fullFile(nil)
	cl := file["cluster"].(map[string]interface{})
	cl["peername"] = "cfg" + strconv.Itoa(k)
	if !valid {
		g := file["pin_tracker"].(map[string]interface{})
		g["stateless"].(map[string]interface{})["concurrent_pins"] = -1
	}
	return []byte(compact(file))
}

func remoteURL(rid string) string {
	if rid == "down" {
		return srcDown
	}
	return srcBase + rid
}

func sourcedDoc(rid string) []byte {
	b, _ := json.Marshal(map[string]string{"source": remoteURL(rid)})
	return b
}

func srcSetup() bool {
	if srcTried {
		return srcReady
	}
	srcTried = true
	mux := http.NewServeMux()
	mux.HandleFunc("/r/", func(w http.ResponseWriter, r *http.Request) {
		rid := strings.TrimPrefix(r.URL.Path, "/r/")
		switch {
		case strings.HasPrefix(rid, "plain"):
			k, _ := strconv.Atoi(strings.TrimPrefix(rid, "plain"))
			w.Write(plainFile(k, true))
		case rid == "invalid":
			w.Write(plainFile(0, false))
		case rid == "garbage":
			w.Write([]byte("{{ not json"))
		case rid == "empty":
		case rid == "sourced1":
			w.Write(sourcedDoc("plain1"))
		case rid == "sourcedDown":
			w.Write(sourcedDoc("down"))
		case rid == "self":
			w.Write(sourcedDoc("self"))
		case rid == "s404":
			w.WriteHeader(404)
			w.Write(plainFile(9, true))
		case rid == "s500":
			w.WriteHeader(500)
			w.Write(plainFile(9, true))
		case rid == "redir2":
			http.Redirect(w, r, "/r/plain2", http.StatusFound)
		default:
			w.WriteHeader(404)
		}
	})
	defer func() {
		if r := recover(); r != nil {
			srcReady = false
		}
	}()
	srcServer = httptest.NewServer(mux)
	srcBase = srcServer.URL + "/r/"
	l, err := net.Listen("tcp", "127.0.0.1:0")
	if err != nil {
		return false
	}
	srcDown = "http://" + l.Addr().String() + "/r/down"
	l.Close()
	root := os.Getenv("VERIF_SCRATCH")
	if root == "" {
		root = "build/scratch/C15"
	}
	srcDir = filepath.Join(root, "c15src")
	if os.MkdirAll(srcDir, 0700) != nil {
		return false
	}
	srcReady = true
	return true
}

func ridOf(source string) string {
	switch {
	case source == "":
		return "-"
	case source == srcDown:
		return "down"
	case strings.HasPrefix(source, srcBase):
		return strings.TrimPrefix(source, srcBase)
	}
	return "?"
}

func cfgID(peername string) string {
	if strings.HasPrefix(peername, "cfg") {
		if _, err := strconv.Atoi(peername[3:]); err == nil {
			return peername[3:]
		}
	}
	return "0"
}

func effOf(m *config.Manager, comps map[string]comp) string {
	if guard(m.Validate) != "ok" {
		return "invalid"
	}
	b, r := toJSON(comps["cluster"])
	if r != "ok" {
		return "invalid"
	}
	mm, err := decode(b)
	if err != nil {
		return "invalid"
	}
	p, _ := mm["peername"].(string)
	return cfgID(p)
}

func savedClass(b []byte) string {
	mm, err := decode(b)
	if err != nil {
		return "err"
	}
	if s, ok := mm["source"].(string); ok && s != "" {
		if len(mm) == 1 {
			return "source:" + ridOf(s)
		}
		return "mixed:" + ridOf(s)
	}
	cl, _ := mm["cluster"].(map[string]interface{})
	p, _ := cl["peername"].(string)
	return "full:" + cfgID(p)
}

func runSrc(ops []string) {
	if !srcSetup() {
		out.Line("# inconclusive the in-process HTTP server or the scratch directory could not be set up")
		return
	}
	m, comps := newManager()
	defer m.Shutdown()
	var res []string
	usedFile := false
	path := filepath.Join(srcDir, "service.json")
	missing := filepath.Join(srcDir, "missing.json")
	os.Remove(missing)
	lastPath := path
	fromFile := func(content []byte) string {
		usedFile = true
		lastPath = path
		if err := os.WriteFile(path, content, 0600); err != nil {
			return "infra"
		}
		return guard(func() error { return m.LoadJSONFromFile(path) })
	}
	for _, op := range ops {
		var r string
		switch {
		case op == "D":
			r = guard(m.Default)
		case op == "G":
			r = guard(func() error { return m.LoadJSON([]byte("{{ not json")) })
		case op == "I":
			r = guard(func() error { return m.LoadJSON(plainFile(0, false)) })
		case op == "N":
			usedFile, lastPath = true, missing // LoadJSONFromFile records the path before reading
			r = guard(func() error { return m.LoadJSONFromFile(missing) })
		case strings.HasPrefix(op, "Pf"):
			k, err := strconv.Atoi(op[2:])
			if err != nil {
				out.Line("# bad-op %s", op)
				return
			}
			r = fromFile(plainFile(k, true))
		case strings.HasPrefix(op, "P"):
			k, err := strconv.Atoi(op[1:])
			if err != nil {
				out.Line("# bad-op %s", op)
				return
			}
			r = guard(func() error { return m.LoadJSON(plainFile(k, true)) })
		case strings.HasPrefix(op, "Sf:"):
			r = fromFile(sourcedDoc(op[3:]))
		case strings.HasPrefix(op, "S:"):
			r = guard(func() error { return m.LoadJSON(sourcedDoc(op[2:])) })
		case strings.HasPrefix(op, "H:"):
			u := remoteURL(op[2:])
			r = guard(func() error { return m.LoadJSONFromHTTPSource(u) })
		default:
			out.Line("# bad-op %s", op)
			return
		}
		if r == "infra" {
			out.Line("# inconclusive configuration file could not be written under VERIF_SCRATCH")
			return
		}
		res = append(res, r)
	}
	src := ridOf(m.Source)
	eff := effOf(m, comps)
	saved, rres, reff, rsrc := "err", "-", "-", "-"
	var sb []byte
	var r string
	if usedFile {
		r = guard(func() error { return m.SaveJSON("") })
		if r == "ok" {
			var err error
			if sb, err = os.ReadFile(lastPath); err != nil {
				r = "err"
			}
		}
	} else {
		r = guard(func() error {
			var err error
			sb, err = m.ToJSON()
			return err
		})
	}
	switch r {
	case "panic":
		saved = "panic"
	case "ok":
		saved = savedClass(sb)
		m2, comps2 := newManager()
		defer m2.Shutdown()
		rres = guard(func() error { return m2.LoadJSON(sb) })
		rsrc = ridOf(m2.Source)
		reff = effOf(m2, comps2)
	}
	out.Line("C15 src ops=%s => res=%s src=%s eff=%s saved=%s rres=%s reff=%s rsrc=%s",
		strings.Join(ops, ","), strings.Join(res, ","), src, eff, saved, rres, reff, rsrc)
}

func srcAtoms() []string {
	a := []string{"P1", "P2", "Pf3", "I", "G", "N", "D"}
	for _, rid := range remoteIDs {
		a = append(a, "S:"+rid, "H:"+rid)
	}
	a = append(a, "Sf:plain1", "Sf:down", "Sf:sourced1", "Sf:s404")
	return a
}

func srcBoundary(tier string) {
	atoms := srcAtoms()
	for _, a := range atoms {
		runSrc([]string{a})
	}
	// every operation followed by a plain load, a sourced load and Default (re-use of one Manager)
	for _, a := range atoms {
		for _, b := range []string{"P2", "Pf2", "S:plain2", "Sf:plain3", "H:plain3", "D", "G", "S:down"} {
			runSrc([]string{a, b})
		}
	}
	if tier == "thorough" {
		for _, a := range atoms {
			for _, b := range atoms {
				runSrc([]string{a, b})
			}
		}
	}
	for _, t := range [][]string{{"S:plain1", "P2", "S:plain3"}, {"S:plain1", "D", "P2"}, {"H:down", "D", "P1"}, {"P1", "S:plain2", "G", "P3"}, {"S:self", "S:plain1", "S:self"}, {"D", "S:sourced1", "H:plain1"}} {
		runSrc(t)
	}
}

func srcRandom(k int) {
	r := common.NewRng(common.Seed()).Fork(uint64(k))
	atoms := srcAtoms()
	n := 1 + r.Intn(4)
	var ops []string
	for i := 0; i < n; i++ {
		if r.Chance(1, 3) {
			ops = append(ops, fmt.Sprintf("P%d", 1+r.Intn(5)))
		} else {
			ops = append(ops, atoms[r.Intn(len(atoms))])
		}
	}
	runSrc(ops)
}
