// seq.go (round 8c): the STATEMENT ORDER of Connector.Pin and Connector.Unpin as a flat list of the few
// statement kinds the conversation model interprets (Dec.SeqStmt): look-up, test of its error, short-cut
// test, deferred metric update, origins loop, update-or-add branch, progress call, returns; for Unpin the
// disabled test, the request and the tolerated error texts. Tracing, logging, stats, context plumbing and
// the request-path locals are left out (they are covered by Gen.ctxSites / Gen.reqSites). Single-assignment
// locals bound to a field of the caller's pin are resolved (`hash` -> `pin.Cid`). Any other statement, and
// any recognised statement of another shape, is emitted as `.unknown "<text>"`: the interpreter then yields
// no output and every obligation over the sequence fails (fail closed).
package main

import (
	"fmt"
	"go/ast"
	"go/token"
	"strings"

	"verifharness/skel"
)

type seqTr struct {
	fd   *ast.FuncDecl
	bind map[string]string // locals resolved to what they were given
	cap  int               // `if bound > N { bound = N }`
	out  []string
}

func oneLine(n ast.Node) string { return strings.Join(strings.Fields(skel.Src(n)), " ") }

func (t *seqTr) unknown(n ast.Node) { t.out = append(t.out, ".unknown "+lq(oneLine(n))) }

func lq(s string) string {
	s = strings.ReplaceAll(s, "\\", "\\\\")
	s = strings.ReplaceAll(s, "\"", "\\\"")
	return "\"" + s + "\""
}

// expression text with the bound locals substituted (identifiers only)
func (t *seqTr) res(e ast.Expr) string {
	if id, ok := e.(*ast.Ident); ok {
		if v, ok := t.bind[id.Name]; ok {
			return v
		}
		return id.Name
	}
	if c, ok := e.(*ast.CallExpr); ok {
		var as []string
		for _, a := range c.Args {
			as = append(as, t.res(a))
		}
		return oneLine(c.Fun) + "(" + strings.Join(as, ", ") + ")"
	}
	return oneLine(e)
}

func stripLog(l []ast.Stmt) []ast.Stmt {
	var o []ast.Stmt
	for _, s := range l {
		if isLogging(s) {
			continue
		}
		if es, ok := s.(*ast.ExprStmt); ok && strings.HasPrefix(oneLine(es.X), "stats.Record(") {
			continue
		}
		o = append(o, s)
	}
	return o
}

func singleReturn(l []ast.Stmt) (ast.Expr, bool) {
	l = stripLog(l)
	if len(l) != 1 {
		return nil, false
	}
	r, ok := l[0].(*ast.ReturnStmt)
	if !ok || len(r.Results) != 1 {
		return nil, false
	}
	return r.Results[0], true
}

// `!ok || (ipfsErr.Message != A && ipfsErr.Message != B …)` -> [A, B]
func toleratedTexts(e ast.Expr) ([]string, bool) {
	b, ok := e.(*ast.BinaryExpr)
	if !ok || b.Op != token.LOR || oneLine(b.X) != "!ok" {
		return nil, false
	}
	y := b.Y
	if p, ok := y.(*ast.ParenExpr); ok {
		y = p.X
	}
	var texts []string
	var walk func(e ast.Expr) bool
	walk = func(e ast.Expr) bool {
		if p, ok := e.(*ast.ParenExpr); ok {
			e = p.X
		}
		b, ok := e.(*ast.BinaryExpr)
		if !ok {
			return false
		}
		if b.Op == token.LAND {
			return walk(b.X) && walk(b.Y)
		}
		if b.Op == token.NEQ && oneLine(b.X) == "ipfsErr.Message" {
			texts = append(texts, oneLine(b.Y))
			return true
		}
		return false
	}
	if !walk(y) {
		return nil, false
	}
	return texts, true
}

func (t *seqTr) ifStmt(x *ast.IfStmt) {
	cond := oneLine(x.Cond)
	if x.Init != nil {
		// `if from := pin.PinUpdate; from != cid.Undef { … }`
		as, ok := x.Init.(*ast.AssignStmt)
		if ok && x.Else == nil && as.Tok == token.DEFINE && len(as.Lhs) == 1 && len(as.Rhs) == 1 &&
			oneLine(as.Rhs[0]) == "pin.PinUpdate" && cond == oneLine(as.Lhs[0])+" != cid.Undef" {
			name := oneLine(as.Lhs[0])
			old, had := t.bind[name]
			t.bind[name] = "pin.PinUpdate"
			at := len(t.out)
			t.out = append(t.out, "")
			t.block(x.Body.List)
			t.out[at] = fmt.Sprintf(".ifSrc %d", len(t.out)-at-1)
			if had {
				t.bind[name] = old
			} else {
				delete(t.bind, name)
			}
			return
		}
		t.unknown(x)
		return
	}
	if x.Else != nil {
		t.unknown(x)
		return
	}
	switch {
	case cond == "err != nil":
		if r, ok := singleReturn(x.Body.List); ok && (oneLine(r) == "err" || oneLine(r) == "nil") {
			t.out = append(t.out, fmt.Sprintf(".ifErrReturn %v", oneLine(r) == "err"))
			return
		}
		// Unpin: `ipfsErr, ok := err.(ipfsError); if !ok || (…) { return err }; return nil`
		l := stripLog(x.Body.List)
		if len(l) == 3 && oneLine(l[0]) == "ipfsErr, ok := err.(ipfsError)" {
			in, ok1 := l[1].(*ast.IfStmt)
			last, ok2 := l[2].(*ast.ReturnStmt)
			if ok1 && ok2 && in.Init == nil && in.Else == nil && oneLine(last) == "return nil" {
				if r, ok := singleReturn(in.Body.List); ok && oneLine(r) == "err" {
					if texts, ok := toleratedTexts(in.Cond); ok {
						var q []string
						for _, s := range texts {
							q = append(q, lq(s))
						}
						t.out = append(t.out, ".ifErrTolerate ["+strings.Join(q, ", ")+"]")
						return
					}
				}
			}
		}
	case cond == "ipfs.config.UnpinDisable":
		if r, ok := singleReturn(x.Body.List); ok && strings.HasPrefix(oneLine(r), "errors.New(") {
			t.out = append(t.out, ".ifDisabledReturnErr")
			return
		}
	case strings.HasPrefix(cond, "bound > "):
		var n int
		if _, err := fmt.Sscanf(cond, "bound > %d", &n); err == nil && len(x.Body.List) == 1 &&
			oneLine(x.Body.List[0]) == fmt.Sprintf("bound = %d", n) {
			t.cap = n
			return
		}
	default:
		if c, ok := x.Cond.(*ast.CallExpr); ok && oneLine(c.Fun) == "pinStatus.IsPinned" && len(c.Args) == 1 {
			d := t.res(c.Args[0])
			if r, ok := singleReturn(x.Body.List); ok {
				if oneLine(r) == "nil" {
					t.out = append(t.out, ".ifPinnedReturnNil "+lq(d))
					return
				}
				if rc, ok := r.(*ast.CallExpr); ok && oneLine(rc.Fun) == "ipfs.pinUpdate" && len(rc.Args) == 3 && oneLine(rc.Args[0]) == "ctx" {
					t.out = append(t.out, ".ifPinnedReturnUpdate "+lq(d)+" "+lq(t.res(rc.Args[1]))+" "+lq(t.res(rc.Args[2])))
					return
				}
			}
		}
	}
	t.unknown(x)
}

func (t *seqTr) assign(x *ast.AssignStmt) {
	src := oneLine(x)
	lhs := make([]string, len(x.Lhs))
	for i, l := range x.Lhs {
		lhs[i] = oneLine(l)
	}
	if len(x.Rhs) != 1 {
		t.unknown(x)
		return
	}
	rhs := oneLine(x.Rhs[0])
	call, isCall := x.Rhs[0].(*ast.CallExpr)
	switch {
	case strings.HasPrefix(src, "ctx, span := trace.StartSpan(ctx, "),
		src == "ctx, cancelRequest := context.WithCancel(ctx)",
		strings.HasPrefix(src, "ctx, cancel := context.WithTimeout(ctx, ipfs.config."),
		src == "outPins := make(chan int)":
		return // context plumbing: Gen.ctxSites
	case src == "bound := len(pin.Origins)":
		return
	case x.Tok == token.DEFINE && len(lhs) == 1 && isCall && oneLine(call.Fun) == "fmt.Sprintf":
		return // a request path: Gen.reqSites
	case x.Tok == token.DEFINE && len(lhs) == 1 && (strings.HasPrefix(rhs, "pin.") || isCall && oneLine(call.Fun) == "api.PinWithOpts"):
		if uniqueAssign(t.fd, lhs[0]) == nil {
			t.unknown(x)
			return
		}
		t.bind[lhs[0]] = t.res(x.Rhs[0])
		return
	case isCall && oneLine(call.Fun) == "ipfs.PinLsCid" && len(call.Args) == 2 && oneLine(call.Args[0]) == "ctx" &&
		x.Tok == token.DEFINE && len(lhs) == 2 && lhs[0] == "pinStatus" && (lhs[1] == "err" || lhs[1] == "_"):
		t.out = append(t.out, fmt.Sprintf(".lookup %s %v", lq(t.res(call.Args[1])), lhs[1] == "err"))
		return
	case isCall && oneLine(call.Fun) == "ipfs.pinProgress" && len(call.Args) == 4 && oneLine(call.Args[0]) == "ctx" &&
		x.Tok == token.ASSIGN && len(lhs) == 1 && lhs[0] == "err":
		t.out = append(t.out, ".progress "+lq(t.res(call.Args[1]))+" "+lq(t.res(call.Args[2])))
		return
	case isCall && oneLine(call.Fun) == "ipfs.postCtx" && len(call.Args) == 4 && oneLine(call.Args[0]) == "ctx" &&
		x.Tok == token.DEFINE && len(lhs) == 2 && lhs[0] == "_" && lhs[1] == "err":
		ep := ""
		var p ast.Expr = call.Args[1]
		if id, ok := p.(*ast.Ident); ok {
			p = uniqueAssign(t.fd, id.Name)
		}
		if c, ok := p.(*ast.CallExpr); ok && oneLine(c.Fun) == "fmt.Sprintf" && len(c.Args) > 0 {
			p = c.Args[0]
		}
		if p != nil {
			if s, ok := strLitVal(p); ok {
				ep = strings.SplitN(s, "?", 2)[0]
			}
		}
		if ep != "" {
			t.out = append(t.out, ".post "+lq(ep))
			return
		}
	}
	t.unknown(x)
}

func (t *seqTr) block(l []ast.Stmt) {
	for _, s := range stripLog(l) {
		switch x := s.(type) {
		case *ast.AssignStmt:
			t.assign(x)
		case *ast.IfStmt:
			t.ifStmt(x)
		case *ast.DeferStmt:
			switch oneLine(x.Call) {
			case "span.End()", "cancelRequest()", "cancel()":
			case "ipfs.updateInformerMetric(ctx)":
				t.out = append(t.out, ".deferMetric")
			default:
				t.unknown(x)
			}
		case *ast.RangeStmt:
			// origins: every iteration only starts a goroutine (its failures cannot end Pin)
			if oneLine(x.X) == "pin.Origins[0:bound]" && len(x.Body.List) == 1 {
				if g, ok := x.Body.List[0].(*ast.GoStmt); ok {
					if _, ok := g.Call.Fun.(*ast.FuncLit); ok && t.cap > 0 {
						t.out = append(t.out, fmt.Sprintf(".origins %d", t.cap))
						continue
					}
				}
			}
			t.unknown(x)
		case *ast.GoStmt:
			// the progress watchdog: its bounds are in Gen.ctxSites; here only that it is a goroutine calling cancelRequest
			if fl, ok := x.Call.Fun.(*ast.FuncLit); ok && strings.Contains(skel.Src(fl), "cancelRequest()") {
				t.out = append(t.out, ".watchdog")
				continue
			}
			t.unknown(x)
		case *ast.ReturnStmt:
			switch oneLine(x) {
			case "return nil":
				t.out = append(t.out, ".returnNil")
			case "return err":
				t.out = append(t.out, ".returnErr")
			default:
				t.unknown(x)
			}
		default:
			t.unknown(s)
		}
	}
}

func seqBodies(f *ast.File) string {
	var b strings.Builder
	for _, nm := range [][2]string{{"Pin", "pinSeq"}, {"Unpin", "unpinSeq"}} {
		fd := skel.Func(prog, f, "*Connector", nm[0])
		t := &seqTr{fd: fd, bind: map[string]string{}}
		t.block(fd.Body.List)
		fmt.Fprintf(&b, "/-- Connector.%s: its statements in order, as the conversation model interprets them -/\ndef %s : List Dec.SeqStmt := [\n", nm[0], nm[1])
		for i, s := range t.out {
			sep := ","
			if i == len(t.out)-1 {
				sep = ""
			}
			fmt.Fprintf(&b, "  %s%s\n", s, sep)
		}
		b.WriteString("]\n\n")
	}
	return b.String()
}
