package main

// Semantic part of the C16 translator: decision tables of the HTTP helpers (every path through
// the function: the tests taken, what is returned) and the PinLsCid / PinLs call sites.
// Anything not recognised is written as `unknown "<text>"` so that the Lean side fails closed.

import (
	"fmt"
	"go/ast"
	"go/token"
	"strconv"
	"strings"

	"verifharness/skel"
)

// ---------------------------------------------------------------- symbolic scopes

type scope struct {
	vars map[string]string
	up   *scope
}

func newScope(up *scope) *scope { return &scope{vars: map[string]string{}, up: up} }

func (s *scope) clone() *scope {
	if s == nil {
		return nil
	}
	c := &scope{vars: map[string]string{}, up: s.up.clone()}
	for k, v := range s.vars {
		c.vars[k] = v
	}
	return c
}

func (s *scope) get(n string) string {
	for x := s; x != nil; x = x.up {
		if v, ok := x.vars[n]; ok {
			return v
		}
	}
	return ""
}

func (s *scope) set(n, v string) {
	for x := s; x != nil; x = x.up {
		if _, ok := x.vars[n]; ok {
			x.vars[n] = v
			return
		}
	}
	s.vars[n] = v
}

// ---------------------------------------------------------------- paths

type path struct {
	conds []string
	val   string
	err   string
}

type tabler struct {
	paths []path
}

func lstr(s string) string {
	return `"` + strings.ReplaceAll(strings.ReplaceAll(s, `\`, `\\`), `"`, `\"`) + `"`
}

var httpStatus = map[string]int{
	"http.StatusContinue": 100, "http.StatusOK": 200, "http.StatusCreated": 201, "http.StatusAccepted": 202,
	"http.StatusNoContent": 204, "http.StatusPartialContent": 206, "http.StatusMultipleChoices": 300,
	"http.StatusMovedPermanently": 301, "http.StatusFound": 302, "http.StatusNotModified": 304,
	"http.StatusBadRequest": 400, "http.StatusUnauthorized": 401, "http.StatusForbidden": 403,
	"http.StatusNotFound": 404, "http.StatusInternalServerError": 500, "http.StatusBadGateway": 502,
	"http.StatusServiceUnavailable": 503,
}

func constInt(e ast.Expr) (int, bool) {
	t := skel.Src(e)
	if v, ok := httpStatus[t]; ok {
		return v, true
	}
	if n, err := strconv.Atoi(t); err == nil && n >= 0 {
		return n, true
	}
	return 0, false
}

var cmpName = map[token.Token]string{token.EQL: ".eq", token.NEQ: ".ne", token.LSS: ".lt", token.LEQ: ".le", token.GTR: ".gt", token.GEQ: ".ge"}
var cmpFlip = map[token.Token]token.Token{token.EQL: token.EQL, token.NEQ: token.NEQ, token.LSS: token.GTR, token.LEQ: token.GEQ, token.GTR: token.LSS, token.GEQ: token.LEQ}

func cond(e ast.Expr, s *scope) string {
	unk := func() string { return "(.unknown " + lstr(skel.Src(e)) + ")" }
	switch x := e.(type) {
	case *ast.ParenExpr:
		return cond(x.X, s)
	case *ast.UnaryExpr:
		if x.Op == token.NOT {
			return "(.not " + cond(x.X, s) + ")"
		}
	case *ast.BinaryExpr:
		switch x.Op {
		case token.LAND:
			return "(.and " + cond(x.X, s) + " " + cond(x.Y, s) + ")"
		case token.LOR:
			return "(.or " + cond(x.X, s) + " " + cond(x.Y, s) + ")"
		}
		if c, ok := cmpName[x.Op]; ok {
			if skel.Src(x.X) == "res.StatusCode" {
				if n, ok := constInt(x.Y); ok {
					return fmt.Sprintf("(.status %s %d)", c, n)
				}
			}
			if skel.Src(x.Y) == "res.StatusCode" {
				if n, ok := constInt(x.X); ok {
					return fmt.Sprintf("(.status %s %d)", cmpName[cmpFlip[x.Op]], n)
				}
			}
			if x.Op == token.EQL || x.Op == token.NEQ {
				a, b := x.X, x.Y
				if skel.Src(a) == "nil" {
					a, b = b, a
				}
				if id, ok := a.(*ast.Ident); ok && skel.Src(b) == "nil" {
					if v := s.get(id.Name); strings.HasPrefix(v, "ev:") {
						if x.Op == token.EQL {
							return "(.isNil ." + v[3:] + ")"
						}
						return "(.notNil ." + v[3:] + ")"
					}
				}
			}
		}
	}
	return unk()
}

// what a call binds, by its normalised text
func callResults(t string, s *scope) []string {
	switch {
	case t == "ioutil.ReadAll(res.Body)" || t == "io.ReadAll(res.Body)":
		return []string{"val:readBody", "ev:readErr"}
	case t == "json.Unmarshal(body, &ipfsErr)" && s.get("body") == "val:readBody" && s.get("ipfsErr") == "ipfsErrVar":
		return []string{"ev:decodeErr"}
	case t == "checkResponse(path, res)":
		return []string{"val:checkBody", "ev:checkErr"}
	case t == "ipfs.doPostCtx(ctx, ipfs.client, ipfs.apiURL(), path, contentType, postBody)":
		return []string{"val:response", "ev:doErr"}
	case t == "ipfs.client.Do(req)" || t == "client.Do(req)":
		return []string{"val:response", "ev:doErr"}
	case t == "http.NewRequest(S, urlstr, postBody)":
		return []string{"req", "ev:newReqErr"}
	case strings.HasPrefix(t, "fmt.Sprintf("):
		return []string{"opaque"}
	case t == "req.WithContext(ctx)":
		return []string{"req"}
	}
	return nil
}

func (tb *tabler) ret(r *ast.ReturnStmt, s *scope, conds []string) {
	p := path{conds: append([]string(nil), conds...), val: ".nil", err: ".nil"}
	if len(r.Results) != 2 {
		p.val = "(.unknown " + lstr(skel.Src(r)) + ")"
		p.err = "(.unknown " + lstr(skel.Src(r)) + ")"
		tb.paths = append(tb.paths, p)
		return
	}
	v, e := r.Results[0], r.Results[1]
	vt := skel.Src(v)
	switch {
	case vt == "nil":
		p.val = ".nil"
	case s.get(vt) == "val:readBody":
		p.val = ".readBody"
	case s.get(vt) == "val:checkBody":
		p.val = ".checkBody"
	case s.get(vt) == "val:response":
		p.val = ".response"
	default:
		p.val = "(.unknown " + lstr(vt) + ")"
	}
	et := skel.Src(e)
	switch {
	case et == "nil":
		p.err = ".nil"
	case strings.HasPrefix(s.get(et), "ev:"):
		p.err = "(.ev ." + s.get(et)[3:] + ")"
	case s.get(et) == "ipfsErrVar":
		p.err = ".ipfsError"
	case strings.HasPrefix(et, "fmt.Errorf(") || strings.HasPrefix(et, "errors.New("):
		p.err = ".generic"
	default:
		p.err = "(.unknown " + lstr(et) + ")"
	}
	tb.paths = append(tb.paths, p)
}

// run executes the statements symbolically; k continues after the list when no path returned.
func (tb *tabler) run(list []ast.Stmt, s *scope, conds []string, k func(*scope, []string)) {
	if len(list) == 0 {
		k(s, conds)
		return
	}
	st, rest := list[0], list[1:]
	unknown := func() {
		tb.run(rest, s, append(append([]string(nil), conds...), "(.unknown "+lstr(skel.Src(st))+")"), k)
	}
	switch x := st.(type) {
	case *ast.ReturnStmt:
		tb.ret(x, s, conds)
	case *ast.IfStmt:
		inner := newScope(s)
		after := func(s2 *scope, c2 []string) { tb.run(rest, s2.up, c2, k) }
		body := func(s1 *scope, c1 []string) {
			c := cond(x.Cond, s1)
			// then
			st1 := s1.clone()
			tb.run(x.Body.List, newScope(st1), append(append([]string(nil), c1...), c), func(s3 *scope, c3 []string) { after(s3.up, c3) })
			// else
			se := s1.clone()
			ce := append(append([]string(nil), c1...), "(.not "+c+")")
			switch el := x.Else.(type) {
			case nil:
				after(se, ce)
			case *ast.BlockStmt:
				tb.run(el.List, newScope(se), ce, func(s3 *scope, c3 []string) { after(s3.up, c3) })
			default:
				tb.run([]ast.Stmt{el}, newScope(se), ce, func(s3 *scope, c3 []string) { after(s3.up, c3) })
			}
		}
		if x.Init != nil {
			tb.run([]ast.Stmt{x.Init}, inner, conds, body)
		} else {
			body(inner, conds)
		}
	case *ast.DeclStmt:
		t := skel.Src(x)
		if t == "var ipfsErr ipfsError" {
			s.vars["ipfsErr"] = "ipfsErrVar"
			tb.run(rest, s, conds, k)
		} else {
			unknown()
		}
	case *ast.DeferStmt:
		if skel.Src(x) == "defer res.Body.Close()" {
			tb.run(rest, s, conds, k)
		} else {
			unknown()
		}
	case *ast.ExprStmt:
		if strings.HasPrefix(skel.Src(x), "req.Header.Set(") {
			tb.run(rest, s, conds, k)
		} else {
			unknown()
		}
	case *ast.AssignStmt:
		// filling in the fields of the decoded error object
		allField := true
		for _, l := range x.Lhs {
			if !strings.HasPrefix(skel.Src(l), "ipfsErr.") {
				allField = false
			}
		}
		if allField && x.Tok == token.ASSIGN {
			tb.run(rest, s, conds, k)
			return
		}
		if len(x.Rhs) != 1 {
			unknown()
			return
		}
		res := callResults(skel.Src(x.Rhs[0]), s)
		if res == nil || len(res) != len(x.Lhs) {
			unknown()
			return
		}
		for i, l := range x.Lhs {
			id, ok := l.(*ast.Ident)
			if !ok {
				unknown()
				return
			}
			if id.Name == "_" {
				continue
			}
			if x.Tok == token.DEFINE {
				s.vars[id.Name] = res[i]
			} else {
				s.set(id.Name, res[i])
			}
		}
		tb.run(rest, s, conds, k)
	default:
		unknown()
	}
}

func decisionTable(fd *ast.FuncDecl, params map[string]string) []path {
	tb := &tabler{}
	s := newScope(nil)
	for k, v := range params {
		s.vars[k] = v
	}
	// skel.Lines has already stripped logging from the body (same *ast.FuncDecl)
	tb.run(fd.Body.List, s, nil, func(_ *scope, conds []string) {
		tb.paths = append(tb.paths, path{conds: conds, val: `(.unknown "falls off the end")`, err: `(.unknown "falls off the end")`})
	})
	return tb.paths
}

func leanTable(name, doc string, ps []path) string {
	var b strings.Builder
	fmt.Fprintf(&b, "/-- %s -/\ndef %s : List Dec.Path := [\n", doc, name)
	for i, p := range ps {
		sep := ","
		if i == len(ps)-1 {
			sep = ""
		}
		fmt.Fprintf(&b, "  ⟨[%s], %s, %s⟩%s\n", strings.Join(p.conds, ", "), p.val, p.err, sep)
	}
	b.WriteString("]\n\n")
	return b.String()
}

// ---------------------------------------------------------------- lookup sites

type site struct {
	fn, callee, arg, argDef, test, onTrue string
	errUsed                              bool
}

func lookupCall(e ast.Expr) (*ast.CallExpr, string) {
	c, ok := e.(*ast.CallExpr)
	if !ok {
		return nil, ""
	}
	sel, ok := c.Fun.(*ast.SelectorExpr)
	if !ok || (sel.Sel.Name != "PinLsCid" && sel.Sel.Name != "PinLs") {
		return nil, ""
	}
	return c, sel.Sel.Name
}

func firstStmt(b *ast.BlockStmt) string {
	if b == nil || len(b.List) == 0 {
		return "{}"
	}
	return skel.Src(b.List[0])
}

func lookupSites(f *ast.File) []site {
	var out []site
	for _, d := range f.Decls {
		fd, ok := d.(*ast.FuncDecl)
		if !ok || fd.Body == nil {
			continue
		}
		skel.Lines(fd) // strips logging / tracing in place
		seen := map[*ast.CallExpr]bool{}
		ast.Inspect(fd.Body, func(n ast.Node) bool {
			blk, ok := n.(*ast.BlockStmt)
			if !ok {
				return true
			}
			for i, st := range blk.List {
				as, ok := st.(*ast.AssignStmt)
				if !ok || len(as.Rhs) != 1 {
					continue
				}
				call, callee := lookupCall(as.Rhs[0])
				if call == nil {
					continue
				}
				seen[call] = true
				s := site{fn: fd.Name.Name, callee: callee}
				if len(call.Args) >= 2 {
					s.arg = skel.Src(call.Args[1])
				}
				// how the pin passed was built
				for j := i - 1; j >= 0; j-- {
					if p, ok := blk.List[j].(*ast.AssignStmt); ok && len(p.Lhs) == 1 && len(p.Rhs) == 1 && skel.Src(p.Lhs[0]) == s.arg {
						s.argDef = skel.Src(p.Rhs[0])
						break
					}
				}
				stVar, errVar := "", ""
				if len(as.Lhs) == 2 {
					stVar, errVar = skel.Src(as.Lhs[0]), skel.Src(as.Lhs[1])
				}
				for _, nx := range blk.List[i+1:] {
					if r, ok := nx.(*ast.AssignStmt); ok {
						re := false
						for _, l := range r.Lhs {
							if skel.Src(l) == stVar {
								re = true
							}
						}
						if re {
							break
						}
					}
					is, ok := nx.(*ast.IfStmt)
					if !ok {
						continue
					}
					ct := skel.Src(is.Cond)
					if errVar != "_" && errVar != "" && ct == errVar+" != nil" && is.Init == nil && len(is.Body.List) > 0 {
						if _, ok := is.Body.List[len(is.Body.List)-1].(*ast.ReturnStmt); ok && s.test == "" {
							s.errUsed = true
						}
					}
					if stVar != "" && strings.Contains(ct, stVar+".IsPinned(") && s.test == "" {
						s.test = strings.ReplaceAll(ct, stVar+".", "status.")
						s.onTrue = firstStmt(is.Body)
					}
				}
				out = append(out, s)
			}
			return true
		})
		// calls in any other position (returned directly, passed on, inside a condition …)
		ast.Inspect(fd.Body, func(n ast.Node) bool {
			if e, ok := n.(ast.Expr); ok {
				if call, callee := lookupCall(e); call != nil && !seen[call] {
					seen[call] = true
					arg := ""
					if len(call.Args) >= 2 {
						arg = skel.Src(call.Args[1])
					}
					out = append(out, site{fn: fd.Name.Name, callee: callee, arg: arg, test: "?", onTrue: "?"})
				}
			}
			return true
		})
	}
	return out
}

func leanSites(ss []site) string {
	var b strings.Builder
	b.WriteString("/-- every call of PinLsCid / PinLs inside ipfshttp.go -/\ndef lookupSites : List Dec.LookupSite := [\n")
	for i, s := range ss {
		sep := ","
		if i == len(ss)-1 {
			sep = ""
		}
		fmt.Fprintf(&b, "  ⟨%s, %s, %s, %s, %v, %s, %s⟩%s\n", lstr(s.fn), lstr(s.callee), lstr(s.arg), lstr(s.argDef), s.errUsed, lstr(s.test), lstr(s.onTrue), sep)
	}
	b.WriteString("]\n\n")
	return b.String()
}
