// Round 8b: how the connector BUILDS its daemon requests, and the small switch tables of api/types.go.
//
//   - reqSites: every request path handed to postCtx / doPostCtx inside ipfshttp.go whose endpoint is pin/* or
//     swarm/connect (and every path of Pin, pinProgress, pinUpdate, Unpin, PinLs, PinLsCid whatever it is): the endpoint and
//     the query as an ordered list key = literal | expression. Expressions are resolved through single-assignment locals
//     and, for parameters of unexported helpers with exactly one call site in the file, through that call's arguments, so
//     that pinUpdate's `from` reads `pin.PinUpdate`. A path that is not a literal, a Sprintf with %s verbs or `literal + e`
//     (e.g. a helper that assembles the query) is written as `unknown` and the Lean side fails closed.
//   - pinArgsTable, isPinnedTable, fromStringTable, toPinModeTable, pinModeStringTable: the arms of those switches.
package main

import (
	"fmt"
	"go/ast"
	"go/token"
	"strconv"
	"strings"

	"verifharness/skel"
)

type qparam struct{ key, val string } // val already in Lean syntax

type reqSite struct {
	fn, endpoint string
	params       []qparam
}

type resolver struct {
	file *ast.File
}

func (r *resolver) funcByName(name string) *ast.FuncDecl {
	var out *ast.FuncDecl
	for _, d := range r.file.Decls {
		if fd, ok := d.(*ast.FuncDecl); ok && fd.Name.Name == name && fd.Recv != nil {
			out = fd
		}
	}
	return out
}

// the unique `x := rhs` / `x = rhs` of the function, nil when there is none or more than one
func uniqueAssign(fd *ast.FuncDecl, name string) ast.Expr {
	var rhs ast.Expr
	n := 0
	ast.Inspect(fd.Body, func(nd ast.Node) bool {
		if as, ok := nd.(*ast.AssignStmt); ok {
			for _, l := range as.Lhs {
				if id, ok := l.(*ast.Ident); ok && id.Name == name {
					n++
					if len(as.Lhs) == 1 && len(as.Rhs) == 1 {
						rhs = as.Rhs[0]
					} else {
						rhs = nil
						n += 10
					}
				}
			}
		}
		return true
	})
	if n == 1 {
		return rhs
	}
	return nil
}

func paramIndex(fd *ast.FuncDecl, name string) int {
	k := 0
	for _, f := range fd.Type.Params.List {
		for _, id := range f.Names {
			if id.Name == name {
				return k
			}
			k++
		}
	}
	return -1
}

// the unique call ipfs.<name>(…) in the file and its enclosing function
func (r *resolver) uniqueCall(name string) (*ast.CallExpr, *ast.FuncDecl) {
	var call *ast.CallExpr
	var in *ast.FuncDecl
	n := 0
	for _, d := range r.file.Decls {
		fd, ok := d.(*ast.FuncDecl)
		if !ok || fd.Body == nil {
			continue
		}
		ast.Inspect(fd.Body, func(nd ast.Node) bool {
			if c, ok := nd.(*ast.CallExpr); ok {
				if s, ok := c.Fun.(*ast.SelectorExpr); ok && s.Sel.Name == name && skel.Src(s.X) == "ipfs" {
					n++
					call, in = c, fd
				}
			}
			return true
		})
	}
	if n == 1 {
		return call, in
	}
	return nil, nil
}

// an expression as the exported method's caller would write it
func (r *resolver) resolve(e ast.Expr, fd *ast.FuncDecl, hops int) string {
	if hops > 6 {
		return "?" + skel.Src(e)
	}
	switch x := e.(type) {
	case *ast.Ident:
		if rhs := uniqueAssign(fd, x.Name); rhs != nil {
			return r.resolve(rhs, fd, hops+1)
		}
		if k := paramIndex(fd, x.Name); k >= 0 && !ast.IsExported(fd.Name.Name) {
			if call, in := r.uniqueCall(fd.Name.Name); call != nil && k < len(call.Args) {
				return r.resolve(call.Args[k], in, hops+1)
			}
			return "?" + x.Name
		}
		return x.Name
	case *ast.CallExpr:
		args := make([]string, len(x.Args))
		for i, a := range x.Args {
			args[i] = r.resolve(a, fd, hops+1)
		}
		fun := skel.Src(x.Fun)
		if sel, ok := x.Fun.(*ast.SelectorExpr); ok {
			fun = r.resolve(sel.X, fd, hops+1) + "." + sel.Sel.Name
		}
		return fun + "(" + strings.Join(args, ", ") + ")"
	case *ast.SelectorExpr:
		return r.resolve(x.X, fd, hops+1) + "." + x.Sel.Name
	}
	return skel.Src(e)
}

func strLitVal(e ast.Expr) (string, bool) {
	if b, ok := e.(*ast.BasicLit); ok && b.Kind == token.STRING {
		if s, err := strconv.Unquote(b.Value); err == nil {
			return s, true
		}
	}
	return "", false
}

// format string and arguments of a path expression
func (r *resolver) pathExpr(e ast.Expr, fd *ast.FuncDecl, hops int) (string, []ast.Expr, bool) {
	if hops > 3 {
		return "", nil, false
	}
	if s, ok := strLitVal(e); ok {
		return s, nil, true
	}
	switch x := e.(type) {
	case *ast.Ident:
		if rhs := uniqueAssign(fd, x.Name); rhs != nil {
			return r.pathExpr(rhs, fd, hops+1)
		}
	case *ast.CallExpr:
		if skel.Src(x.Fun) == "fmt.Sprintf" && len(x.Args) > 0 {
			if s, ok := strLitVal(x.Args[0]); ok {
				return s, x.Args[1:], true
			}
		}
	case *ast.BinaryExpr:
		if x.Op == token.ADD {
			if s, ok := strLitVal(x.X); ok && !strings.Contains(s, "%") {
				return s + "%s", []ast.Expr{x.Y}, true
			}
		}
	}
	return "", nil, false
}

func (r *resolver) site(fd *ast.FuncDecl, path ast.Expr) reqSite {
	format, args, ok := r.pathExpr(path, fd, 0)
	if !ok {
		return reqSite{fd.Name.Name, "?", []qparam{{"?", ".unknown " + lstr(skel.Src(path))}}}
	}
	ep, query := format, ""
	if i := strings.Index(format, "?"); i >= 0 {
		ep, query = format[:i], format[i+1:]
	}
	s := reqSite{fn: fd.Name.Name, endpoint: ep}
	if strings.Contains(ep, "%") {
		s.endpoint = "?"
	}
	next := 0
	take := func() string {
		if next < len(args) {
			next++
			return ".var " + lstr(r.resolve(args[next-1], fd, 0))
		}
		next++
		return ".unknown \"missing argument\""
	}
	if query != "" {
		for _, piece := range strings.Split(query, "&") {
			switch {
			case piece == "%s":
				s.params = append(s.params, qparam{"", take()})
			case strings.Contains(piece, "="):
				k, v, _ := strings.Cut(piece, "=")
				switch {
				case strings.Contains(k, "%"):
					s.params = append(s.params, qparam{"?", ".unknown " + lstr(piece)})
				case v == "%s":
					s.params = append(s.params, qparam{k, take()})
				case !strings.Contains(v, "%"):
					s.params = append(s.params, qparam{k, ".lit " + lstr(v)})
				default:
					s.params = append(s.params, qparam{k, ".unknown " + lstr(piece)})
				}
			default:
				s.params = append(s.params, qparam{"?", ".unknown " + lstr(piece)})
			}
		}
	}
	if next != len(args) {
		s.params = append(s.params, qparam{"?", ".unknown \"argument count\""})
	}
	return s
}

var reqFns = map[string]bool{"Pin": true, "pinProgress": true, "pinUpdate": true, "Unpin": true, "PinLs": true, "PinLsCid": true}

func reqSites(f *ast.File) []reqSite {
	r := &resolver{file: f}
	var out []reqSite
	for _, d := range f.Decls {
		fd, ok := d.(*ast.FuncDecl)
		if !ok || fd.Body == nil || fd.Recv == nil {
			continue
		}
		ast.Inspect(fd.Body, func(nd ast.Node) bool {
			c, ok := nd.(*ast.CallExpr)
			if !ok {
				return true
			}
			sel, ok := c.Fun.(*ast.SelectorExpr)
			if !ok || skel.Src(sel.X) != "ipfs" {
				return true
			}
			k := -1
			switch sel.Sel.Name {
			case "postCtx":
				k = 1
			case "doPostCtx":
				k = 3
			}
			if k < 0 || k >= len(c.Args) || fd.Name.Name == "postCtx" {
				return true
			}
			s := r.site(fd, c.Args[k])
			if reqFns[fd.Name.Name] || strings.HasPrefix(s.endpoint, "pin/") {
				out = append(out, s)
			}
			return true
		})
	}
	return out
}

func leanReqSites(ss []reqSite) string {
	var b strings.Builder
	b.WriteString("/-- every request path of the pin conversation as built in ipfshttp.go: enclosing function, endpoint, query (key, literal | expression) -/\ndef reqSites : List Dec.ReqSite := [\n")
	for i, s := range ss {
		ps := make([]string, len(s.params))
		for j, p := range s.params {
			ps[j] = fmt.Sprintf("⟨%s, %s⟩", lstr(p.key), p.val)
		}
		sep := ","
		if i == len(ss)-1 {
			sep = ""
		}
		fmt.Fprintf(&b, "  ⟨%s, %s, [%s]⟩%s\n", lstr(s.fn), lstr(s.endpoint), strings.Join(ps, ", "), sep)
	}
	b.WriteString("]\n\n")
	return b.String()
}

// ---- switch tables ----

type arm struct{ guard, out string }

func cmpLean(op token.Token) string {
	switch op {
	case token.EQL:
		return ".eq"
	case token.NEQ:
		return ".ne"
	case token.LSS:
		return ".lt"
	case token.LEQ:
		return ".le"
	case token.GTR:
		return ".gt"
	case token.GEQ:
		return ".ge"
	}
	return ""
}

func sInt(e ast.Expr) (int, bool) {
	if u, ok := e.(*ast.UnaryExpr); ok && u.Op == token.SUB {
		if n, ok := constInt(u.X); ok {
			return -n, true
		}
	}
	return constInt(e)
}

func leanInt(n int) string {
	if n < 0 {
		return fmt.Sprintf("(%d)", n)
	}
	return strconv.Itoa(n)
}

// guard of a case expression; `subject` is the name compared (tagless switch) or the tag
func guardOf(e ast.Expr, tag string, subject string) string {
	if tag != "" {
		if n, ok := sInt(e); ok {
			return fmt.Sprintf(".cmp .eq %s", leanInt(n))
		}
		if id, ok := e.(*ast.Ident); ok {
			return ".name " + lstr(id.Name)
		}
		return ".unknown " + lstr(skel.Src(e))
	}
	switch x := e.(type) {
	case *ast.BinaryExpr:
		if id, ok := x.X.(*ast.Ident); ok && id.Name == subject {
			if n, ok := sInt(x.Y); ok && cmpLean(x.Op) != "" {
				return fmt.Sprintf(".cmp %s %s", cmpLean(x.Op), leanInt(n))
			}
			if s, ok := strLitVal(x.Y); ok && x.Op == token.EQL {
				return ".strEq " + lstr(s)
			}
		}
	case *ast.CallExpr:
		if skel.Src(x.Fun) == "strings.HasPrefix" && len(x.Args) == 2 {
			if id, ok := x.Args[0].(*ast.Ident); ok && id.Name == subject {
				if s, ok := strLitVal(x.Args[1]); ok {
					return ".hasPrefix " + lstr(s)
				}
			}
		}
	}
	return ".unknown " + lstr(skel.Src(e))
}

func isLogging(s ast.Stmt) bool {
	if es, ok := s.(*ast.ExprStmt); ok {
		return strings.HasPrefix(skel.Src(es.X), "logger.")
	}
	return false
}

// a function whose body is one switch of `return <constant>` arms (+ an optional trailing return = default arm).
// `retOut` renders the returned expression.
func switchTable(fd *ast.FuncDecl, subject string, retOut func(ast.Expr) string) []arm {
	var out []arm
	bad := func(t string) []arm { return append(out, arm{".unknown " + lstr(t), lstr("?")}) }
	for idx, st := range fd.Body.List {
		switch x := st.(type) {
		case *ast.SwitchStmt:
			if x.Init != nil {
				return bad(skel.Src(x.Init))
			}
			tag := ""
			if x.Tag != nil {
				tag = skel.Src(x.Tag)
				if tag != subject {
					return bad("switch " + tag)
				}
			}
			for _, c := range x.Body.List {
				cc := c.(*ast.CaseClause)
				var body []ast.Stmt
				for _, s := range cc.Body {
					if !isLogging(s) {
						body = append(body, s)
					}
				}
				o := lstr("?")
				if len(body) == 1 {
					if r, ok := body[0].(*ast.ReturnStmt); ok && len(r.Results) == 1 {
						o = retOut(r.Results[0])
					}
				}
				if len(cc.List) == 0 {
					out = append(out, arm{".default", o})
				}
				for _, e := range cc.List {
					out = append(out, arm{guardOf(e, tag, subject), o})
				}
			}
		case *ast.ReturnStmt:
			if idx != len(fd.Body.List)-1 || len(x.Results) != 1 {
				return bad(skel.Src(x))
			}
			out = append(out, arm{".default", retOut(x.Results[0])})
		default:
			if !isLogging(st) {
				return bad(skel.Src(st))
			}
		}
	}
	return out
}

func constOut(e ast.Expr) string {
	if s, ok := strLitVal(e); ok {
		return lstr(s)
	}
	if id, ok := e.(*ast.Ident); ok {
		return lstr(id.Name)
	}
	return lstr("?" + skel.Src(e))
}

// `ips == IPFSPinStatusX` ⇒ "IPFSPinStatusX"; `false` ⇒ "false"
func isPinnedOut(recv string) func(ast.Expr) string {
	return func(e ast.Expr) string {
		if b, ok := e.(*ast.BinaryExpr); ok && b.Op == token.EQL {
			if id, ok := b.X.(*ast.Ident); ok && id.Name == recv {
				if c, ok := b.Y.(*ast.Ident); ok {
					return lstr(c.Name)
				}
			}
		}
		if id, ok := e.(*ast.Ident); ok && id.Name == "false" {
			return lstr("false")
		}
		return lstr("?" + skel.Src(e))
	}
}

func leanArms(name, doc string, as []arm) string {
	var b strings.Builder
	fmt.Fprintf(&b, "/-- %s -/\ndef %s : List (Dec.Arm String) := [\n", doc, name)
	for i, a := range as {
		sep := ","
		if i == len(as)-1 {
			sep = ""
		}
		fmt.Fprintf(&b, "  ⟨%s, %s⟩%s\n", a.guard, a.out, sep)
	}
	b.WriteString("]\n\n")
	return b.String()
}

// pinArgs: `q := url.Values{}` · one tagless switch over maxDepth whose arms are q.Set(lit, lit | strconv.Itoa(int(maxDepth))) · `return q.Encode()`
func pinArgsTable(fd *ast.FuncDecl) string {
	type parm struct {
		guard string
		sets  []string
	}
	var arms []parm
	bad := func(t string) { arms = append(arms, parm{".unknown " + lstr(t), nil}) }
	param := ""
	if fd.Type.Params != nil && len(fd.Type.Params.List) == 1 && len(fd.Type.Params.List[0].Names) == 1 {
		param = fd.Type.Params.List[0].Names[0].Name
	}
	for idx, st := range fd.Body.List {
		src := skel.Src(st)
		switch x := st.(type) {
		case *ast.SwitchStmt:
			if x.Init != nil || x.Tag != nil {
				bad(src)
				continue
			}
			for _, c := range x.Body.List {
				cc := c.(*ast.CaseClause)
				var sets []string
				for _, s := range cc.Body {
					ok := false
					if es, isE := s.(*ast.ExprStmt); isE {
						if call, isC := es.X.(*ast.CallExpr); isC && skel.Src(call.Fun) == "q.Set" && len(call.Args) == 2 {
							if k, isK := strLitVal(call.Args[0]); isK {
								if v, isV := strLitVal(call.Args[1]); isV {
									sets = append(sets, fmt.Sprintf("(%s, .lit %s)", lstr(k), lstr(v)))
									ok = true
								} else if skel.Src(call.Args[1]) == "strconv.Itoa(int("+param+"))" {
									sets = append(sets, fmt.Sprintf("(%s, .depth)", lstr(k)))
									ok = true
								}
							}
						}
					}
					if !ok {
						sets = append(sets, fmt.Sprintf("(\"?\", .unknown %s)", lstr(skel.Src(s))))
					}
				}
				if len(cc.List) == 0 {
					arms = append(arms, parm{".default", sets})
				}
				for _, e := range cc.List {
					arms = append(arms, parm{guardOf(e, "", param), sets})
				}
			}
		default:
			if !(idx == 0 && src == "q := url.Values{}") && !(idx == len(fd.Body.List)-1 && src == "return q.Encode()") {
				bad(src)
			}
		}
	}
	var b strings.Builder
	b.WriteString("/-- pinArgs: per arm of its switch over maxDepth the q.Set calls -/\ndef pinArgsTable : List (Dec.Arm (List (String × Dec.ArgVal))) := [\n")
	for i, a := range arms {
		sep := ","
		if i == len(arms)-1 {
			sep = ""
		}
		fmt.Fprintf(&b, "  ⟨%s, [%s]⟩%s\n", a.guard, strings.Join(a.sets, ", "), sep)
	}
	b.WriteString("]\n\n")
	return b.String()
}

func recvName(fd *ast.FuncDecl) string {
	if fd.Recv != nil && len(fd.Recv.List) == 1 && len(fd.Recv.List[0].Names) == 1 {
		return fd.Recv.List[0].Names[0].Name
	}
	return ""
}

func firstParam(fd *ast.FuncDecl) string {
	if fd.Type.Params != nil && len(fd.Type.Params.List) > 0 && len(fd.Type.Params.List[0].Names) > 0 {
		return fd.Type.Params.List[0].Names[0].Name
	}
	return ""
}

func reqAndTables(ih, ty *ast.File) string {
	var b strings.Builder
	b.WriteString(leanReqSites(reqSites(ih)))
	b.WriteString(pinArgsTable(skel.Func(prog, ih, "", "pinArgs")))
	ip := skel.Func(prog, ty, "IPFSPinStatus", "IsPinned")
	b.WriteString(leanArms("isPinnedTable", "IPFSPinStatus.IsPinned: guard on maxDepth, the status the receiver must equal (\"false\" = never)", switchTable(ip, firstParam(ip), isPinnedOut(recvName(ip)))))
	fs := skel.Func(prog, ty, "", "IPFSPinStatusFromString")
	b.WriteString(leanArms("fromStringTable", "IPFSPinStatusFromString: guard on the type string, the constant returned", switchTable(fs, firstParam(fs), constOut)))
	tp := skel.Func(prog, ty, "PinDepth", "ToPinMode")
	b.WriteString(leanArms("toPinModeTable", "PinDepth.ToPinMode: case on the depth, the mode returned", switchTable(tp, recvName(tp), constOut)))
	ms := skel.Func(prog, ty, "PinMode", "String")
	b.WriteString(leanArms("pinModeStringTable", "PinMode.String: case on the mode, the text returned", switchTable(ms, recvName(ms), constOut)))
	return b.String()
}
