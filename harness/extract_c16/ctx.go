package main

// Context governance of the connector (round 8): for every call inside ipfshttp.go of a Connector
// method that takes a context, which deadlines / cancellations the context handed over carries at
// that point: `context.WithTimeout(ctx, ipfs.config.F)` adds the bound "F", `context.WithCancel(ctx)` adds
// "cancel", and a `go` statement whose body calls that cancel function (not deferred) under a condition adds
// "watchdog:<condition>" for the statements after it. Scoping of `:=` is followed; anything else that touches `ctx` (another
// constructor, a plain `=` inside a nested block, a parameter shadowing it, a context expression
// other than the identifier `ctx`) is written as a bound starting with `?`, which is no bound for
// the Lean side (fail closed).

import (
	"fmt"
	"go/ast"
	"go/token"
	"strings"

	"verifharness/skel"
)

type ctxSite struct {
	fn, callee, endpoint string
	bounds               []string
}

type ctxWalker struct {
	fd      *ast.FuncDecl
	methods map[string]bool // Connector methods (and functions) whose first parameter is a context
	out     []ctxSite
	depth   int
	poison  string
	cancels []string // cancel functions of context.WithCancel seen so far
}

func isCtxParam(fd *ast.FuncDecl) bool {
	if fd.Type.Params == nil || len(fd.Type.Params.List) == 0 {
		return false
	}
	return skel.Src(fd.Type.Params.List[0].Type) == "context.Context"
}

// the literal prefix of an endpoint expression up to the first `?` or `%`
func (w *ctxWalker) endpoint(e ast.Expr, hops int) string {
	switch x := e.(type) {
	case *ast.BasicLit:
		if x.Kind == token.STRING {
			s := strings.Trim(x.Value, "\"`")
			if i := strings.IndexAny(s, "?%"); i >= 0 {
				s = s[:i]
			}
			return s
		}
	case *ast.BinaryExpr:
		return w.endpoint(x.X, hops)
	case *ast.CallExpr:
		if skel.Src(x.Fun) == "fmt.Sprintf" && len(x.Args) > 0 {
			return w.endpoint(x.Args[0], hops)
		}
	case *ast.Ident:
		if hops > 2 {
			return ""
		}
		found := ""
		n := 0
		ast.Inspect(w.fd.Body, func(nd ast.Node) bool {
			if as, ok := nd.(*ast.AssignStmt); ok && len(as.Lhs) == 1 && len(as.Rhs) == 1 && skel.Src(as.Lhs[0]) == x.Name {
				n++
				found = w.endpoint(as.Rhs[0], hops+1)
			}
			return true
		})
		if n == 1 {
			return found
		}
	}
	return ""
}

// conditions under which the cancel function `name` is called inside `root`, other than in a defer
func (w *ctxWalker) cancelConds(root ast.Node, name string) []string {
	var conds []string
	var stack []ast.Node
	ast.Inspect(root, func(n ast.Node) bool {
		if n == nil {
			stack = stack[:len(stack)-1]
			return true
		}
		stack = append(stack, n)
		c, ok := n.(*ast.CallExpr)
		if !ok || skel.Src(c.Fun) != name {
			return true
		}
		if len(stack) >= 2 {
			if _, isDefer := stack[len(stack)-2].(*ast.DeferStmt); isDefer {
				return true
			}
		}
		cond := "always"
		for k := len(stack) - 2; k >= 0; k-- {
			if is, ok := stack[k].(*ast.IfStmt); ok {
				cond = skel.Src(is.Cond)
				break
			}
		}
		conds = append(conds, cond)
		return true
	})
	return conds
}

func lhsHasCtx(l []ast.Expr) bool {
	for _, e := range l {
		if id, ok := e.(*ast.Ident); ok && id.Name == "ctx" {
			return true
		}
	}
	return false
}

func (w *ctxWalker) rebind(x *ast.AssignStmt, st []string) []string {
	if x.Tok == token.ASSIGN && w.depth > 0 {
		w.poison = "?" + skel.Src(x)
	}
	add := func(b ...string) []string { return append(append([]string{}, st...), b...) }
	if len(x.Rhs) != 1 || len(x.Lhs) < 1 || skel.Src(x.Lhs[0]) != "ctx" {
		return add("?" + skel.Src(x))
	}
	c, ok := x.Rhs[0].(*ast.CallExpr)
	if ok && len(c.Args) >= 1 && skel.Src(c.Args[0]) == "ipfs.ctx" {
		// derived from the connector's own lifetime context instead of the caller's: earlier bounds are gone
		st = []string{"connector"}
	} else if !ok || len(c.Args) < 1 || skel.Src(c.Args[0]) != "ctx" {
		return []string{"?" + skel.Src(x)}
	}
	switch skel.Src(c.Fun) {
	case "trace.StartSpan":
		return st
	case "context.WithTimeout":
		if len(c.Args) == 2 {
			a := skel.Src(c.Args[1])
			if strings.HasPrefix(a, "ipfs.config.") && !strings.ContainsAny(a[len("ipfs.config."):], ".()+-*/ ") {
				return add(a[len("ipfs.config."):])
			}
			return add("?" + a)
		}
	case "context.WithCancel":
		if len(x.Lhs) == 2 {
			// a watchdog counts from the `go` statement that starts it (see GoStmt)
			w.cancels = append(w.cancels, skel.Src(x.Lhs[1]))
			return add("cancel")
		}
	}
	return []string{"?" + skel.Src(x)}
}

func (w *ctxWalker) block(list []ast.Stmt, st []string) {
	w.depth++
	cur := st
	for _, s := range list {
		cur = w.stmt(s, cur)
	}
	w.depth--
}

func (w *ctxWalker) stmt(s ast.Stmt, st []string) []string {
	switch x := s.(type) {
	case nil:
		return st
	case *ast.AssignStmt:
		for _, r := range x.Rhs {
			w.expr(r, st)
		}
		if lhsHasCtx(x.Lhs) {
			return w.rebind(x, st)
		}
	case *ast.BlockStmt:
		w.block(x.List, st)
	case *ast.IfStmt:
		in := st
		if x.Init != nil {
			w.depth++
			in = w.stmt(x.Init, in)
			w.depth--
		}
		w.expr(x.Cond, in)
		w.block(x.Body.List, in)
		if x.Else != nil {
			w.depth++
			w.stmt(x.Else, in)
			w.depth--
		}
	case *ast.ForStmt:
		in := st
		if x.Init != nil {
			w.depth++
			in = w.stmt(x.Init, in)
			w.depth--
		}
		if x.Cond != nil {
			w.expr(x.Cond, in)
		}
		w.block(x.Body.List, in)
	case *ast.RangeStmt:
		w.expr(x.X, st)
		w.block(x.Body.List, st)
	case *ast.SwitchStmt:
		if x.Tag != nil {
			w.expr(x.Tag, st)
		}
		w.block(x.Body.List, st)
	case *ast.TypeSwitchStmt:
		w.block(x.Body.List, st)
	case *ast.SelectStmt:
		w.block(x.Body.List, st)
	case *ast.CaseClause:
		for _, e := range x.List {
			w.expr(e, st)
		}
		w.block(x.Body, st)
	case *ast.CommClause:
		in := st
		if x.Comm != nil {
			w.depth++
			in = w.stmt(x.Comm, in)
			w.depth--
		}
		w.block(x.Body, in)
	case *ast.GoStmt:
		w.expr(x.Call, st)
		// a goroutine that calls a cancel function under a condition: from here on the context is watched
		out := st
		for _, name := range w.cancels {
			for _, c := range w.cancelConds(x.Call, name) {
				out = append(append([]string{}, out...), "watchdog:"+c)
			}
		}
		return out
	case *ast.DeferStmt:
		w.expr(x.Call, st)
	case *ast.ExprStmt:
		w.expr(x.X, st)
	case *ast.SendStmt:
		w.expr(x.Value, st)
	case *ast.ReturnStmt:
		for _, r := range x.Results {
			w.expr(r, st)
		}
	case *ast.LabeledStmt:
		return w.stmt(x.Stmt, st)
	case *ast.DeclStmt:
		if gd, ok := x.Decl.(*ast.GenDecl); ok {
			for _, sp := range gd.Specs {
				if vs, ok := sp.(*ast.ValueSpec); ok {
					for _, v := range vs.Values {
						w.expr(v, st)
					}
					for _, n := range vs.Names {
						if n.Name == "ctx" {
							return []string{"?" + skel.Src(x)}
						}
					}
				}
			}
		}
	case *ast.IncDecStmt, *ast.BranchStmt, *ast.EmptyStmt:
	default:
		w.poison = "?stmt " + fmt.Sprintf("%T", s)
	}
	return st
}

func (w *ctxWalker) expr(e ast.Expr, st []string) {
	ast.Inspect(e, func(n ast.Node) bool {
		switch x := n.(type) {
		case *ast.FuncLit:
			in := st
			if x.Type.Params != nil {
				for _, f := range x.Type.Params.List {
					for _, nm := range f.Names {
						if nm.Name == "ctx" {
							in = []string{"?parameter ctx of a function literal"}
						}
					}
				}
			}
			w.block(x.Body.List, in)
			return false
		case *ast.CallExpr:
			sel, ok := x.Fun.(*ast.SelectorExpr)
			if !ok || skel.Src(sel.X) != "ipfs" || !w.methods[sel.Sel.Name] || len(x.Args) == 0 {
				return true
			}
			s := ctxSite{fn: w.fd.Name.Name, callee: sel.Sel.Name}
			if a := skel.Src(x.Args[0]); a == "ctx" {
				s.bounds = append([]string{}, st...)
			} else if a == "ipfs.ctx" {
				s.bounds = []string{"connector"}
			} else {
				s.bounds = []string{"?" + a}
			}
			switch sel.Sel.Name {
			case "postCtx":
				if len(x.Args) > 1 {
					s.endpoint = w.endpoint(x.Args[1], 0)
				}
			case "doPostCtx":
				if len(x.Args) > 3 {
					s.endpoint = w.endpoint(x.Args[3], 0)
				}
			}
			w.out = append(w.out, s)
		}
		return true
	})
}

func ctxSites(f *ast.File) []ctxSite {
	methods := map[string]bool{}
	for _, d := range f.Decls {
		if fd, ok := d.(*ast.FuncDecl); ok && fd.Recv != nil && isCtxParam(fd) {
			methods[fd.Name.Name] = true
		}
	}
	var out []ctxSite
	for _, d := range f.Decls {
		fd, ok := d.(*ast.FuncDecl)
		if !ok || fd.Body == nil {
			continue
		}
		w := &ctxWalker{fd: fd, methods: methods, depth: -1}
		st := []string{}
		if !isCtxParam(fd) {
			// no context parameter: whatever `ctx` is here, it is not the caller's
			st = []string{"?no context parameter"}
		} else if len(fd.Type.Params.List[0].Names) != 1 || fd.Type.Params.List[0].Names[0].Name != "ctx" {
			st = []string{"?context parameter not named ctx"}
		}
		w.block(fd.Body.List, st)
		for _, s := range w.out {
			if w.poison != "" {
				s.bounds = []string{w.poison}
			}
			out = append(out, s)
		}
	}
	return out
}

func leanCtxSites(ss []ctxSite) string {
	var b strings.Builder
	b.WriteString("/-- every call, inside ipfshttp.go, of a Connector method that takes a context: enclosing function, callee,\nendpoint literal (requests only), and the deadlines / cancellations the context handed over carries there -/\ndef ctxSites : List Dec.CtxSite := [\n")
	for i, s := range ss {
		sep := ","
		if i == len(ss)-1 {
			sep = ""
		}
		var bs []string
		for _, x := range s.bounds {
			switch {
			case strings.HasPrefix(x, "?"):
				bs = append(bs, ".unknown "+lstr(x[1:]))
			case strings.HasPrefix(x, "watchdog:"):
				bs = append(bs, ".watchdog "+lstr(x[len("watchdog:"):]))
			case x == "cancel":
				bs = append(bs, ".cancel")
			case x == "connector":
				bs = append(bs, ".connector")
			default:
				bs = append(bs, ".timeout "+lstr(x))
			}
		}
		fmt.Fprintf(&b, "  ⟨%s, %s, %s, [%s]⟩%s\n", lstr(s.fn), lstr(s.callee), lstr(s.endpoint), strings.Join(bs, ", "), sep)
	}
	b.WriteString("]\n\n")
	return b.String()
}
