// C10 harness: one case = one round over a shared pinset:
//   alert  — a ping alert for <failed> is delivered to the real alertsHandler of every other member in turn.
//            alert@<w>: the same handler has already seen an earlier alert about <failed> that could do nothing
//            (pinset not served or empty at the time): w = m<ids> (the peerset was <ids> then), d (same peerset),
//            es / ep (consensus State() / Peers() failed then), n (non-ping alerts only)
//   remove — one member calls the real Cluster.PeerRemove(<failed>)
//   sync   — every member runs the real Cluster.StateSync
//   expat  — Pin.ExpiredAt on a concrete clock:  C10 expat <z|unix seconds> <now unix seconds> => <0|1>
//
// The actors act in the order listed (any order: the schedule). Flags after the kind, separated by '/':
//   snap<k> — snapshot discipline: every member acts on its own copy of the pre-state, the logged operations are
//             then committed to the shared pinset in a pseudo-random order derived from k
//   x2      — the whole round is run twice (a repeated alert / a second sweep); the output then has four tokens:
//             pinset and logs after the first round, pinset and logs after the second
//   np      — the alert names another metric than "ping"
//   rf      — (remove) consensus.RmPeer fails
// An actor may carry its own view of the peerset: id:f:r:v<id.id.id> (members that do not agree).
// In a remove round the log of the acting member ends with R (RmPeer was called), and err is the expected
// outcome of PeerRemove when RmPeer fails.
//
//   C10 <kind> <members id:hash,..> <cidhashes cid:hash,..> <untrusted> <actors id:f:r,..> <failed|-> <dm/s> <metrics> <pre pinset>
//       => <final pinset> <id=log|id=log...>
package main

import (
	"bufio"
	"context"
	"fmt"
	"math/big"
	"os"
	"strconv"
	"strings"
	"time"

	ipfscluster "github.com/ipfs/ipfs-cluster"
	"github.com/ipfs/ipfs-cluster/allocator/ascendalloc"
	"github.com/ipfs/ipfs-cluster/allocator/descendalloc"
	"github.com/ipfs/ipfs-cluster/api"

	peer "github.com/libp2p/go-libp2p-core/peer"

	"verifharness/common"
)

type actor struct {
	id        int
	follower  bool
	disableRP bool
	view      []int // nil: sees the shared peerset
}

type round struct {
	kind      string
	warm      string // "" or the <w> of alert@<w>
	members   []int
	untrusted []int
	actors    []actor
	failed    int // -1 none
	defMin    int
	defMax    int
	desc      bool
	metrics   []string // per peer id 0..len-1 : a|v<n>|e|i|n
	pre       []*api.Pin
	preTok    string
	snap      int  // -1 serial discipline, else the commit-order seed of the snapshot discipline
	twice     bool // x2
	nonPing   bool // np
	rmFail    bool // rf
}

func hashDec(b [32]byte) string { return new(big.Int).SetBytes(b[:]).String() }

func (r *round) input() string {
	ms := make([]string, len(r.members))
	for i, m := range r.members {
		ms[i] = fmt.Sprintf("%d:%s", m, hashDec(ipfscluster.VerifConvertKey(string(common.PeerN(m)))))
	}
	var cs []string
	for _, p := range r.pre {
		c := common.CidIndex(p.Cid, common.PinUniverse)
		cs = append(cs, fmt.Sprintf("%d:%s", c, hashDec(ipfscluster.VerifConvertKey(p.Cid.KeyString()))))
	}
	ct := "-"
	if len(cs) > 0 {
		ct = strings.Join(cs, ",")
	}
	as := make([]string, len(r.actors))
	b := func(x bool) int {
		if x {
			return 1
		}
		return 0
	}
	for i, a := range r.actors {
		as[i] = fmt.Sprintf("%d:%d:%d", a.id, b(a.follower), b(a.disableRP))
		if a.view != nil {
			vs := make([]string, len(a.view))
			for j, v := range a.view {
				vs[j] = strconv.Itoa(v)
			}
			as[i] += ":v" + strings.Join(vs, ".")
		}
	}
	at := "-"
	if len(as) > 0 {
		at = strings.Join(as, ",")
	}
	f := "-"
	if r.failed >= 0 {
		f = strconv.Itoa(r.failed)
	}
	mt := make([]string, len(r.metrics))
	for i, s := range r.metrics {
		mt[i] = fmt.Sprintf("%d:%s", i, s)
	}
	mtk := "-"
	if len(mt) > 0 {
		mtk = strings.Join(mt, ",")
	}
	kind := r.kind
	if r.warm != "" {
		kind += "@" + r.warm
	}
	if r.snap >= 0 {
		kind += "/snap" + strconv.Itoa(r.snap)
	}
	if r.twice {
		kind += "/x2"
	}
	if r.nonPing {
		kind += "/np"
	}
	if r.rmFail {
		kind += "/rf"
	}
	return fmt.Sprintf("C10 %s %s %s %s %s %s dm%d:%d/s%d %s %s", kind, strings.Join(ms, ","), ct,
		common.Ints(r.untrusted), at, f, r.defMin, r.defMax, b(r.desc), mtk, r.preTok)
}

func logTok(l []string) string {
	if len(l) == 0 {
		return "-"
	}
	out := make([]string, len(l))
	for i, s := range l {
		if s == "rmpeer" {
			out[i] = "R"
		} else if strings.HasPrefix(s, "pin ") {
			out[i] = "P" + s[4:]
		} else {
			out[i] = "U" + strings.TrimPrefix(s, "unpin ")
		}
	}
	return strings.Join(out, ";")
}

func (r *round) newBase() *common.FakeConsensus {
	ctx := context.Background()
	cons := common.NewFakeConsensus()
	for _, m := range r.members {
		cons.Members = append(cons.Members, common.PeerN(m))
	}
	untr := map[peer.ID]bool{}
	for _, u := range r.untrusted {
		untr[common.PeerN(u)] = true
	}
	cons.Trusted = func(p peer.ID) bool { return !untr[p] }
	for _, p := range r.pre {
		if err := cons.St.Add(ctx, p); err != nil {
			panic(err)
		}
	}
	return cons
}

// runActor lets one member handle the round's event against the consensus component `cons`.
func (r *round) runActor(a actor, base *common.FakeConsensus) (string, []c10op) {
	ctx := context.Background()
	cons := &c10Cons{FakeConsensus: base, rmFail: r.rmFail}
	if a.view != nil {
		cons.view = []peer.ID{}
		for _, v := range a.view {
			cons.view = append(cons.view, common.PeerN(v))
		}
	}
	mon := common.NewStoreMonitor()
	const name = "verifmetric"
	now := time.Now()
	for i, s := range r.metrics {
		m := &api.Metric{Name: name, Peer: common.PeerN(i), Valid: true, Value: "3",
			Expire: now.Add(time.Hour).UnixNano(), ReceivedAt: now.UnixNano()}
		switch s[0] {
		case 'a':
			continue
		case 'v':
			m.Value = s[1:]
		case 'e':
			m.Expire = now.Add(-time.Hour).UnixNano()
		case 'i':
			m.Valid = false
		case 'n':
			m.Value = "12x"
		}
		mon.Store.Add(m)
	}
	// PRIVATE ping view (round 8b): which members THIS member's monitor holds a valid ping metric for is a function
	// of the pair (member, peer) only — every member sees another subset (none / expired / invalid / valid), self
	// included. It is not part of the agreed peerset, the model never sees it (sem_candidates_agreed_only), so the
	// unchanged code must behave as if it were not there; a closest-peer test that consults the local monitor
	// (seeded change C10g) makes members that agree on the peerset disagree on who is closest.
	for _, m := range r.members {
		pm := &api.Metric{Name: "ping", Peer: common.PeerN(m), Valid: true, Value: "",
			Expire: now.Add(time.Hour).UnixNano(), ReceivedAt: now.UnixNano()}
		switch (a.id*7 + m*13 + a.id*m + len(r.members)) % 5 {
		case 0:
			continue
		case 1:
			pm.Expire = now.Add(-time.Hour).UnixNano()
		case 2:
			pm.Valid = false
		}
		mon.Store.Add(pm)
	}
	var alloc ipfscluster.PinAllocator = ascendalloc.NewAllocator()
	if r.desc {
		alloc = descendalloc.NewAllocator()
	}
	cfg := &ipfscluster.Config{}
	cfg.FollowerMode = a.follower
	cfg.DisableRepinning = a.disableRP
	cfg.ReplicationFactorMin = r.defMin
	cfg.ReplicationFactorMax = r.defMax
	cl := ipfscluster.VerifNewCluster(ctx, ipfscluster.VerifComponents{
		ID: common.PeerN(a.id), Config: cfg, Consensus: cons, IPFS: common.NewFakeIPFS(), Monitor: mon, Allocator: alloc,
		Informers: []ipfscluster.Informer{&common.NamedInformer{N: name}},
	})
	base.TakeLog()
	res := ""
	func() {
		defer func() {
			if rec := recover(); rec != nil {
				res = "panic"
			}
		}()
		switch r.kind {
		case "alert":
			done := make(chan struct{})
			go func() { defer close(done); cl.VerifAlertsHandler() }()
			send := func(al *api.Alert) bool {
				select {
				case mon.AlertsCh <- al:
					return true
				case <-done:
					return false
				case <-time.After(10 * time.Second):
					res = "hang"
					return false
				}
			}
			pm := api.Metric{Name: "ping", Peer: common.PeerN(r.failed)}
			if r.nonPing {
				pm.Name = "freespace"
			}
			sentinel := &api.Alert{Metric: api.Metric{Name: "sentinel", Peer: common.PeerN(r.failed)}, TriggeredAt: now}
			alive := true
			if r.warm != "" {
				// an earlier alert about the same peer, at a time when nothing could be done
				st, members := base.St, base.Members
				base.St = common.NewFakeConsensus().St
				switch {
				case r.warm[0] == 'm':
					base.Members = nil
					for _, x := range strings.Split(r.warm[1:], ".") {
						v, _ := strconv.Atoi(x)
						base.Members = append(base.Members, common.PeerN(v))
					}
				case r.warm == "es":
					base.FailState = 1
				case r.warm == "ep":
					base.FailPeers = 1
				}
				view := cons.view
				if r.warm[0] == 'm' {
					cons.view = nil
				}
				if r.warm == "n" {
					alive = send(sentinel)
				} else {
					alive = send(&api.Alert{Metric: api.Metric{Name: "ping", Peer: common.PeerN(r.failed)}, TriggeredAt: now.Add(-time.Minute)})
				}
				// the sentinel is only consumed once the earlier alert has been fully handled
				alive = alive && send(sentinel)
				base.St, base.Members, base.FailState, base.FailPeers = st, members, 0, 0
				cons.view = view
			}
			if alive && send(&api.Alert{Metric: pm, TriggeredAt: now}) {
				// a second, non-ping alert is only consumed once the first one has been fully handled
				send(&api.Alert{Metric: api.Metric{Name: "sentinel", Peer: common.PeerN(r.failed)}, TriggeredAt: now})
			}
			cl.VerifCancel()
			select {
			case <-done:
			case <-time.After(10 * time.Second):
				res = "hang"
			}
		case "remove":
			err := cl.PeerRemove(ctx, common.PeerN(r.failed))
			if (err != nil) != r.rmFail {
				res = "err"
			}
			cl.VerifCancel()
		case "sync":
			if err := cl.StateSync(ctx); err != nil {
				res = "err"
			}
			cl.VerifCancel()
		}
	}()
	l := logTok(cons.takeCalls())
	if res != "" {
		l = res
	}
	return fmt.Sprintf("%d=%s", a.id, l), cons.ops
}

// once runs the round once from the pinset `from` holds; returns the pinset afterwards and the logs token.
func (r *round) once(pre []*api.Pin) ([]*api.Pin, string) {
	ctx := context.Background()
	saved := r.pre
	r.pre = pre
	defer func() { r.pre = saved }()
	var logs []string
	var final *common.FakeConsensus
	if r.snap < 0 {
		final = r.newBase()
		for _, a := range r.actors {
			l, _ := r.runActor(a, final)
			logs = append(logs, l)
		}
	} else {
		var all []c10op
		for _, a := range r.actors {
			l, ops := r.runActor(a, r.newBase())
			logs = append(logs, l)
			all = append(all, ops...)
		}
		// commit everything that was logged, in an order derived from the seed
		rg := common.NewRng(uint64(r.snap) + 77)
		for i := len(all) - 1; i > 0; i-- {
			j := rg.Intn(i + 1)
			all[i], all[j] = all[j], all[i]
		}
		final = r.newBase()
		for _, o := range all {
			if o.pin != nil {
				if err := final.St.Add(ctx, o.pin); err != nil {
					panic(err)
				}
			} else if err := final.St.Rm(ctx, o.unpin); err != nil {
				panic(err)
			}
		}
	}
	lt := "-"
	if len(logs) > 0 {
		lt = strings.Join(logs, "|")
	}
	return final.Pins(), lt
}

func (r *round) run() string {
	post, lt := r.once(r.pre)
	out := common.PinsetTok(post) + " " + lt
	if r.twice {
		post2, lt2 := r.once(post)
		out += " " + common.PinsetTok(post2) + " " + lt2
	}
	return out
}

// storedForm passes pins through a real state so that the pre-state token is what the state holds.
func storedForm(l []*api.Pin) []*api.Pin {
	cons := common.NewFakeConsensus()
	for _, p := range l {
		if err := cons.St.Add(context.Background(), p); err != nil {
			panic(err)
		}
	}
	return cons.Pins()
}

// ---------- generation ----------
var stateToks = []string{"v0", "v1", "v1", "v2", "v5", "v7", "e", "i", "n", "a"}

func randAllocs(r *common.Rng, members []int, must int, pct int) string {
	var l []int
	for _, m := range members {
		if m == must || r.Chance(pct, 100) {
			l = append(l, m)
		}
	}
	for i := len(l) - 1; i > 0; i-- {
		j := r.Intn(i + 1)
		l[i], l[j] = l[j], l[i]
	}
	return common.Ints(l)
}

func gen(r *common.Rng) *round {
	rd := &round{failed: -1, snap: -1}
	rd.kind = []string{"alert", "alert", "alert", "remove", "sync", "sync"}[r.Intn(6)]
	n := r.Range(1, 8)
	for i := 0; i < n; i++ {
		rd.members = append(rd.members, i)
	}
	if r.Chance(1, 6) && n > 2 {
		rd.untrusted = []int{r.Intn(n)}
	}
	switch r.Intn(4) {
	case 0:
		rd.defMin, rd.defMax = -1, -1
	case 1:
		rd.defMin, rd.defMax = 1, 2
	default:
		rd.defMin, rd.defMax = 2, 3
	}
	rd.desc = r.Bool()
	if rd.kind != "sync" {
		rd.failed = r.Intn(n)
	}
	for i := 0; i < n; i++ {
		s := stateToks[r.Intn(6)]
		if r.Chance(1, 6) {
			s = stateToks[r.Intn(len(stateToks))]
		}
		if i == rd.failed && r.Chance(4, 5) {
			s = "e" // the failed peer's metric has expired
		}
		rd.metrics = append(rd.metrics, s)
	}
	dim := r.Fork(777)
	holdsNothing := rd.failed >= 0 && dim.Chance(1, 10)
	onlyFailed := rd.failed >= 0 && !holdsNothing && dim.Chance(1, 10)
	if onlyFailed || (rd.kind == "remove" && dim.Chance(1, 3)) {
		// too few healthy peers: some or all re-pins cannot be allocated
		for i := range rd.metrics {
			if i != rd.failed && (onlyFailed || dim.Chance(3, 5)) {
				rd.metrics[i] = []string{"e", "a", "i"}[dim.Intn(3)]
			}
		}
	}
	disable := r.Chance(1, 8)
	isUntrusted := func(m int) bool {
		for _, u := range rd.untrusted {
			if u == m {
				return true
			}
		}
		return false
	}
	switch rd.kind {
	case "alert":
		for _, m := range rd.members {
			// untrusted members do not act: their writes would not be accepted by the others
			if m != rd.failed && !isUntrusted(m) {
				rd.actors = append(rd.actors, actor{id: m, follower: r.Chance(1, 8), disableRP: disable})
			}
		}
	case "remove":
		a := r.Intn(n)
		for isUntrusted(a) {
			a = (a + 1) % n
		}
		rd.actors = []actor{{id: a, follower: r.Chance(1, 10), disableRP: disable}}
	case "sync":
		for _, m := range rd.members {
			if !isUntrusted(m) {
				rd.actors = append(rd.actors, actor{id: m, follower: r.Chance(1, 8)})
			}
		}
	}
	// pinset
	np := r.Range(1, 6)
	used := map[int]bool{}
	var toks []string
	for i := 0; i < np; i++ {
		c := r.Intn(8)
		if used[c] {
			continue
		}
		used[c] = true
		fac := []string{"1:1", "1:2", "2:2", "2:3", "3:3", "-1:-1", "1:3"}[r.Intn(7)]
		mode, depth := "r", "-1"
		if r.Chance(1, 5) {
			mode, depth = "d", "0"
		}
		exp := "z"
		if rd.kind == "sync" {
			exp = []string{"z", "p", "p", "f2", "u"}[r.Intn(5)]
		} else if r.Chance(1, 5) {
			exp = []string{"f1", "f2", "p"}[r.Intn(3)]
		}
		al := "-"
		if fac != "-1:-1" {
			must := -1
			if rd.failed >= 0 && r.Chance(2, 3) {
				must = rd.failed
			}
			al = randAllocs(r, rd.members, must, 35)
			// mostly keep the allocation count within the factors (over-allocated pins are a known finding)
			if r.Chance(5, 6) {
				var mx int
				fmt.Sscanf(strings.SplitN(fac, ":", 2)[1], "%d", &mx)
				l := strings.Split(al, ",")
				if al != "-" && len(l) > mx {
					al = strings.Join(l[:mx], ",")
				}
			}
		}
		meta := "-"
		if r.Chance(1, 3) {
			meta = fmt.Sprintf("1:%d,2:%d", r.Intn(3), r.Intn(3))
		}
		upd := "-"
		if r.Chance(1, 4) {
			upd = strconv.Itoa(8 + r.Intn(3)) // created by pin-update from another cid
		}
		org := "-"
		if r.Chance(1, 5) {
			org = "1,2"
		}
		typ := "d"
		ref := "-"
		if r.Chance(1, 10) {
			typ, depth, mode = "s", "1", "r"
		}
		toks = append(toks, strings.Join([]string{strconv.Itoa(c), typ, fac, strconv.Itoa(r.Intn(3)), mode, depth,
			strconv.Itoa(r.Intn(2) * 100), al, exp, meta, upd, org, ref, "-"}, "/"))
	}
	rd.pre = storedForm(common.PinsetOf(strings.Join(toks, "|")))
	rd.preTok = common.PinsetTok(rd.pre)
	// ---- round-level dimensions (independent stream so that older dimensions keep their distribution)
	q := r.Fork(4242)
	if q.Chance(2, 3) { // any order of the members
		for i := len(rd.actors) - 1; i > 0; i-- {
			j := q.Intn(i + 1)
			rd.actors[i], rd.actors[j] = rd.actors[j], rd.actors[i]
		}
	}
	if rd.kind != "remove" && q.Chance(1, 3) {
		rd.snap = q.Intn(1000)
	}
	if rd.kind != "remove" && q.Chance(1, 6) {
		rd.twice = true
	}
	if rd.kind == "remove" && q.Chance(1, 5) {
		rd.rmFail = true
	}
	if rd.kind != "remove" && n >= 3 && q.Chance(1, 8) {
		// members that do not agree on the peerset: one or two of them miss one other member
		for k := 0; k < 1+q.Intn(2) && len(rd.actors) > 0; k++ {
			ai := q.Intn(len(rd.actors))
			miss := q.Intn(n)
			if miss == rd.actors[ai].id {
				continue
			}
			var v []int
			for _, m := range rd.members {
				if m != miss {
					v = append(v, m)
				}
			}
			rd.actors[ai].view = v
		}
	}
	if rd.kind == "alert" && q.Chance(1, 12) {
		rd.nonPing = true
		return rd
	}
	if rd.kind == "alert" && !rd.twice && r.Chance(2, 5) {
		switch r.Intn(6) {
		case 0, 1, 2:
			// another peerset at the time of the earlier alert: members left and/or joined since
			var l []string
			for i := 0; i < 9; i++ {
				in := i < n
				if r.Chance(1, 3) {
					in = !in
				}
				if in || i == rd.failed {
					l = append(l, strconv.Itoa(i))
				}
			}
			rd.warm = "m" + strings.Join(l, ".")
		case 3:
			rd.warm = "d"
		case 4:
			rd.warm = []string{"es", "ep"}[r.Intn(2)]
		default:
			rd.warm = "n"
		}
	}
	return rd
}

func parse(line string) (*round, bool) {
	f := strings.Fields(line)
	if len(f) < 10 || f[0] != "C10" {
		return nil, false
	}
	rd := &round{kind: f[1], failed: -1, snap: -1}
	if fl := strings.Split(f[1], "/"); len(fl) > 1 {
		f[1], rd.kind = fl[0], fl[0]
		for _, x := range fl[1:] {
			switch {
			case strings.HasPrefix(x, "snap"):
				rd.snap, _ = strconv.Atoi(x[4:])
			case x == "x2":
				rd.twice = true
			case x == "np":
				rd.nonPing = true
			case x == "rf":
				rd.rmFail = true
			}
		}
	}
	if i := strings.Index(f[1], "@"); i >= 0 {
		rd.kind, rd.warm = f[1][:i], f[1][i+1:]
		if rd.kind != "alert" || rd.warm == "" {
			return nil, false
		}
	}
	for _, m := range strings.Split(f[2], ",") {
		v, _ := strconv.Atoi(strings.SplitN(m, ":", 2)[0])
		rd.members = append(rd.members, v)
	}
	if f[4] != "-" {
		for _, u := range strings.Split(f[4], ",") {
			v, _ := strconv.Atoi(u)
			rd.untrusted = append(rd.untrusted, v)
		}
	}
	if f[5] != "-" {
		for _, a := range strings.Split(f[5], ",") {
			p := strings.Split(a, ":")
			id, _ := strconv.Atoi(p[0])
			ac := actor{id: id, follower: p[1] == "1", disableRP: p[2] == "1"}
			if len(p) > 3 && strings.HasPrefix(p[3], "v") {
				ac.view = []int{}
				for _, x := range strings.Split(p[3][1:], ".") {
					if v, err := strconv.Atoi(x); err == nil {
						ac.view = append(ac.view, v)
					}
				}
			}
			rd.actors = append(rd.actors, ac)
		}
	}
	if f[6] != "-" {
		rd.failed, _ = strconv.Atoi(f[6])
	}
	var s int
	fmt.Sscanf(f[7], "dm%d:%d/s%d", &rd.defMin, &rd.defMax, &s)
	rd.desc = s == 1
	if f[8] != "-" {
		for _, ps := range strings.Split(f[8], ",") {
			rd.metrics = append(rd.metrics, strings.SplitN(ps, ":", 2)[1])
		}
	}
	rd.pre = storedForm(common.PinsetOf(f[9]))
	rd.preTok = common.PinsetTok(rd.pre)
	return rd, true
}

// expat evaluates the real Pin.ExpiredAt: stamp "z" is the zero time, else unix seconds.
func expat(stamp, now string) string {
	p := &api.Pin{}
	if stamp != "z" {
		v, _ := strconv.ParseInt(stamp, 10, 64)
		p.ExpireAt = time.Unix(v, 0)
	}
	n, _ := strconv.ParseInt(now, 10, 64)
	r := 0
	if p.ExpiredAt(time.Unix(n, 0)) {
		r = 1
	}
	return fmt.Sprintf("C10 expat %s %s => %d", stamp, now, r)
}

func main() {
	a := common.ParseArgs()
	out := common.NewOut()
	defer out.Flush()
	if a.Extra["stdin"] != "" {
		sc := bufio.NewScanner(os.Stdin)
		sc.Buffer(make([]byte, 1<<20), 1<<24)
		for sc.Scan() {
			if ff := strings.Fields(sc.Text()); len(ff) >= 4 && ff[0] == "C10" && ff[1] == "expat" {
				out.Line("%s", expat(ff[2], ff[3]))
				continue
			}
			if rd, ok := parse(sc.Text()); ok {
				out.Line("%s => %s", rd.input(), rd.run())
			}
		}
		return
	}
	total := a.N
	if total < 0 {
		total = 1500
		if a.Tier == "thorough" {
			total = 30000
		}
	}
	root := common.NewRng(common.Seed())
	for k := 0; k < total; k++ {
		if a.Only >= 0 && k != a.Only {
			continue
		}
		if k%25 == 24 {
			// the clock: Pin.ExpiredAt around the boundary expire == now, the zero time and the unix epoch
			g := root.Fork(uint64(k))
			now := int64(g.Intn(2000)) - 1000
			if g.Chance(1, 2) {
				now = time.Now().Unix() + int64(g.Intn(7)) - 3
			}
			st := "z"
			if !g.Chance(1, 8) {
				st = strconv.FormatInt(now+[]int64{-2, -1, 0, 0, 1, 2, -now, 1 - now}[g.Intn(8)], 10)
			}
			out.Line("%s", expat(st, strconv.FormatInt(now, 10)))
			continue
		}
		rd := gen(root.Fork(uint64(k)))
		out.Line("%s => %s", rd.input(), rd.run())
	}
}
