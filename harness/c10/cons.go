package main

import (
	"context"
	"errors"
	"sync"

	"github.com/ipfs/ipfs-cluster/api"

	cid "github.com/ipfs/go-cid"
	peer "github.com/libp2p/go-libp2p-core/peer"

	"verifharness/common"
)

// c10op is one committed operation, kept so that the harness can replay commits in another order.
type c10op struct {
	pin   *api.Pin // nil for an unpin
	unpin cid.Cid
}

// c10Cons is the consensus component one member of a round sees: the (shared or private) FakeConsensus,
// with this member's own view of the peerset, a record of every call in order (LogPin, LogUnpin, RmPeer),
// and an RmPeer that can be made to fail.
type c10Cons struct {
	*common.FakeConsensus
	mu     sync.Mutex
	view   []peer.ID // nil: the shared peerset
	calls  []string  // "pin <tok>" | "unpin <cid>" | "rmpeer <idx>"
	ops    []c10op
	rmFail bool
}

func (c *c10Cons) LogPin(ctx context.Context, p *api.Pin) error {
	c.mu.Lock()
	defer c.mu.Unlock()
	err := c.FakeConsensus.LogPin(ctx, p)
	if err == nil {
		c.calls = append(c.calls, c.lastBase())
		cp := *p
		c.ops = append(c.ops, c10op{pin: &cp})
	}
	return err
}

func (c *c10Cons) LogUnpin(ctx context.Context, p *api.Pin) error {
	c.mu.Lock()
	defer c.mu.Unlock()
	err := c.FakeConsensus.LogUnpin(ctx, p)
	if err == nil {
		c.calls = append(c.calls, c.lastBase())
		c.ops = append(c.ops, c10op{unpin: p.Cid})
	}
	return err
}

// lastBase is the entry the underlying FakeConsensus recorded for the call just made.
func (c *c10Cons) lastBase() string {
	l := c.FakeConsensus.Log
	return l[len(l)-1]
}

func (c *c10Cons) RmPeer(ctx context.Context, p peer.ID) error {
	c.mu.Lock()
	defer c.mu.Unlock()
	c.calls = append(c.calls, "rmpeer")
	if c.rmFail {
		return errors.New("rmpeer failed")
	}
	return nil
}

func (c *c10Cons) Peers(ctx context.Context) ([]peer.ID, error) {
	l, err := c.FakeConsensus.Peers(ctx)
	if err != nil || c.view == nil {
		return l, err
	}
	return append([]peer.ID{}, c.view...), nil
}

func (c *c10Cons) takeCalls() []string {
	c.mu.Lock()
	defer c.mu.Unlock()
	c.FakeConsensus.TakeLog()
	l := c.calls
	c.calls = nil
	return l
}
