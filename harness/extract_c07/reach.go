package main

// Round 8b: what the handlers behind the RPC endpoints reach.
//
// For every exported method of the five *RPCAPI types (rpc_api.go): the calls it makes through its receiver
// (`rpcapi.c.PeerAdd(…)` -> ("c","PeerAdd"); `rpcapi.tracker.Track(…)` -> ("tracker","Track")).
// For the endpoints that are RPCOpen in DefaultRPCPolicy - reachable by ANY peer - the calls are followed through the
// methods of *Cluster (root package, non-test files, transitively) down to
//   * calls on a field of the Cluster (`c.consensus.AddPeer` -> ("consensus","AddPeer")),
//   * RPC calls the serving peer makes with ITS OWN credentials (`c.rpcClient.CallContext(ctx, pid, "Cluster", "ID", …)`
//     -> forward "Cluster.ID"; service or method not a string literal -> "?"),
//   * anything the Cluster itself is handed to (`f(c)`, a method value `c.X`) -> opaque.
// Fails closed: a handler that is not found, or an endpoint list that differs from the reflected one, is an
// unrecognised shape.

import (
	"go/ast"
	"go/token"
	"os"
	"path/filepath"
	"sort"
	"strconv"
	"strings"
)

type reach struct {
	svc      string
	ep       string
	calls    [][2]string
	forwards []string
	opaque   []string
}

var apiField = map[string]struct{ svc, field, comp string }{
	"ClusterRPCAPI":       {"Cluster", "c", "c"},
	"PinTrackerRPCAPI":    {"PinTracker", "tracker", "tracker"},
	"IPFSConnectorRPCAPI": {"IPFSConnector", "ipfs", "ipfs"},
	"ConsensusRPCAPI":     {"Consensus", "cons", "consensus"},
	"PeerMonitorRPCAPI":   {"PeerMonitor", "mon", "monitor"},
}

func selChain(e ast.Expr) []string {
	switch x := e.(type) {
	case *ast.Ident:
		return []string{x.Name}
	case *ast.SelectorExpr:
		p := selChain(x.X)
		if p == nil {
			return nil
		}
		return append(p, x.Sel.Name)
	case *ast.ParenExpr:
		return selChain(x.X)
	}
	return nil
}

// rootFiles parses the non-test, non-hook files of the root package.
func rootFiles(repo string) []*ast.File {
	names, err := filepath.Glob(filepath.Join(repo, "*.go"))
	if err != nil {
		die("glob: %v", err)
	}
	sort.Strings(names)
	var out []*ast.File
	for _, n := range names {
		b := filepath.Base(n)
		if strings.HasSuffix(b, "_test.go") || strings.HasPrefix(b, "verif_export") {
			continue
		}
		if _, err := os.Stat(n); err != nil {
			continue
		}
		out = append(out, parseFile(n))
	}
	return out
}

type callSet struct {
	own      []string    // methods of the same receiver type that are called or referred to
	calls    [][2]string // (field, method)
	forwards []string
	opaque   []string
}

// rpcTarget reads the service and method of a gorpc client call: the first two adjacent string literals.
func rpcTarget(args []ast.Expr) string {
	for i := 0; i+1 < len(args); i++ {
		a, ok1 := args[i].(*ast.BasicLit)
		b, ok2 := args[i+1].(*ast.BasicLit)
		if ok1 && ok2 && a.Kind == token.STRING && b.Kind == token.STRING {
			s, _ := strconv.Unquote(a.Value)
			m, _ := strconv.Unquote(b.Value)
			return s + "." + m
		}
	}
	return "?"
}

// callsThrough lists what body does through the identifier recv. prefix: selector names to strip after recv
// (handlers: the field of the API struct). own: the method set of the type behind recv+prefix.
func callsThrough(body ast.Node, recv string, prefix []string, own map[string]bool) callSet {
	var cs callSet
	inCall := map[ast.Expr]bool{}
	strip := func(ch []string) []string {
		if len(ch) == 0 || ch[0] != recv {
			return nil
		}
		ch = ch[1:]
		for _, p := range prefix {
			if len(ch) == 0 || ch[0] != p {
				return nil
			}
			ch = ch[1:]
		}
		return ch
	}
	ast.Inspect(body, func(n ast.Node) bool {
		call, ok := n.(*ast.CallExpr)
		if !ok {
			return true
		}
		inCall[call.Fun] = true
		ch := strip(selChain(call.Fun))
		switch {
		case len(ch) == 1:
			cs.own = append(cs.own, ch[0])
		case len(ch) >= 2 && ch[0] == "rpcClient":
			cs.forwards = append(cs.forwards, rpcTarget(call.Args))
		case len(ch) >= 2:
			cs.calls = append(cs.calls, [2]string{ch[0], strings.Join(ch[1:], ".")})
		}
		// the receiver (or what is behind the prefix) handed to somebody else
		for _, a := range call.Args {
			if ach := selChain(a); ach != nil && len(ach) == 1+len(prefix) && strip(ach) != nil && len(strip(ach)) == 0 {
				cs.opaque = append(cs.opaque, str(call.Fun)+"(…"+str(a)+"…)")
			}
		}
		return true
	})
	// method values: `c.X` mentioned without being called
	ast.Inspect(body, func(n ast.Node) bool {
		se, ok := n.(*ast.SelectorExpr)
		if !ok || inCall[se] {
			return true
		}
		if ch := strip(selChain(se)); len(ch) == 1 && own[ch[0]] {
			cs.opaque = append(cs.opaque, "method value "+str(se))
		}
		return true
	})
	return cs
}

func uniq2(l [][2]string) [][2]string {
	sort.Slice(l, func(i, j int) bool {
		if l[i][0] != l[j][0] {
			return l[i][0] < l[j][0]
		}
		return l[i][1] < l[j][1]
	})
	var out [][2]string
	for i, x := range l {
		if i == 0 || x != l[i-1] {
			out = append(out, x)
		}
	}
	return out
}

func uniq1(l []string) []string {
	sort.Strings(l)
	var out []string
	for i, x := range l {
		if i == 0 || x != l[i-1] {
			out = append(out, x)
		}
	}
	return out
}

// handlerReach returns the direct calls of every handler and the transitive reach of the open ones.
func handlerReach(repo string, rpcAPI *ast.File, methods []string, open map[string]bool) (direct []reach, openReach []reach) {
	files := rootFiles(repo)
	clusterMethods := map[string]*ast.FuncDecl{}
	for _, f := range files {
		for _, d := range f.Decls {
			fd, ok := d.(*ast.FuncDecl)
			if !ok || fd.Recv == nil || len(fd.Recv.List) != 1 || fd.Body == nil {
				continue
			}
			if strings.TrimPrefix(str(fd.Recv.List[0].Type), "*") == "Cluster" {
				if clusterMethods[fd.Name.Name] != nil {
					die("two declarations of Cluster.%s", fd.Name.Name)
				}
				clusterMethods[fd.Name.Name] = fd
			}
		}
	}
	ownCluster := map[string]bool{}
	for n := range clusterMethods {
		ownCluster[n] = true
	}
	seen := map[string]bool{}
	for _, d := range rpcAPI.Decls {
		fd, ok := d.(*ast.FuncDecl)
		if !ok || fd.Recv == nil || len(fd.Recv.List) != 1 || !fd.Name.IsExported() {
			continue
		}
		tn := strings.TrimPrefix(str(fd.Recv.List[0].Type), "*")
		af, ok := apiField[tn]
		if !ok {
			continue
		}
		ep := af.svc + "." + fd.Name.Name
		seen[ep] = true
		r := recvName(fd)
		var own map[string]bool
		if af.comp == "c" {
			own = ownCluster
		}
		cs := callsThrough(fd.Body, r, []string{af.field}, own)
		d := reach{svc: af.svc, ep: ep, opaque: cs.opaque, forwards: cs.forwards}
		for _, m := range cs.own {
			d.calls = append(d.calls, [2]string{af.comp, m})
		}
		d.calls = append(d.calls, cs.calls...)
		// a handler that uses its receiver in any other way (rpcapi.x where x is not the one field)
		ast.Inspect(fd.Body, func(n ast.Node) bool {
			if se, ok := n.(*ast.SelectorExpr); ok {
				if id, ok := se.X.(*ast.Ident); ok && id.Name == r && se.Sel.Name != af.field {
					d.opaque = append(d.opaque, "receiver field "+str(se))
				}
			}
			return true
		})
		d.calls, d.forwards, d.opaque = uniq2(d.calls), uniq1(d.forwards), uniq1(d.opaque)
		direct = append(direct, d)
		if !open[ep] {
			continue
		}
		// follow the methods of *Cluster
		o := reach{svc: af.svc, ep: ep, forwards: d.forwards, opaque: d.opaque}
		visited := map[string]bool{}
		var todo []string
		for _, c := range d.calls {
			if c[0] == "c" {
				todo = append(todo, c[1])
			} else {
				o.calls = append(o.calls, c)
			}
		}
		for len(todo) > 0 {
			m := todo[0]
			todo = todo[1:]
			if visited[m] {
				continue
			}
			visited[m] = true
			mfd := clusterMethods[m]
			if mfd == nil {
				o.opaque = append(o.opaque, "unknown Cluster."+m)
				continue
			}
			mcs := callsThrough(mfd.Body, recvName(mfd), nil, ownCluster)
			for _, x := range mcs.own {
				if ownCluster[x] {
					todo = append(todo, x)
				} else {
					o.calls = append(o.calls, [2]string{"c", x}) // a function-typed field
				}
			}
			o.calls = append(o.calls, mcs.calls...)
			o.forwards = append(o.forwards, mcs.forwards...)
			o.opaque = append(o.opaque, mcs.opaque...)
		}
		o.calls, o.forwards, o.opaque = uniq2(o.calls), uniq1(o.forwards), uniq1(o.opaque)
		openReach = append(openReach, o)
	}
	for _, m := range methods {
		if !seen[m] {
			die("no handler found in rpc_api.go for the reflected endpoint %s", m)
		}
	}
	if len(seen) != len(methods) {
		die("rpc_api.go declares %d handlers, reflection sees %d endpoints", len(seen), len(methods))
	}
	sort.Slice(direct, func(i, j int) bool { return direct[i].ep < direct[j].ep })
	sort.Slice(openReach, func(i, j int) bool { return openReach[i].ep < openReach[j].ep })
	return direct, openReach
}

func leanPairs(l [][2]string) string {
	q := make([]string, len(l))
	for i, p := range l {
		q[i] = "(" + strconv.Quote(p[0]) + ", " + strconv.Quote(p[1]) + ")"
	}
	return "[" + strings.Join(q, ", ") + "]"
}

func leanReach(rs []reach) string {
	var b strings.Builder
	b.WriteString("[\n")
	for i, r := range rs {
		sep := ","
		if i == len(rs)-1 {
			sep = ""
		}
		b.WriteString("  { svc := " + strconv.Quote(r.svc) + ", ep := " + strconv.Quote(r.ep) + ", calls := " + leanPairs(r.calls) + ", forwards := " + leanStrList(r.forwards) +
			", unread := " + leanStrList(r.opaque) + " }" + sep + "\n")
	}
	b.WriteString("]")
	return b.String()
}
