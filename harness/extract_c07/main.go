// extract_c07 is the C07 translator: it regenerates lean/ClusterVerif/Gen/C07.lean
// (stdout) from today's source.
//
//	(i)  linked against the repository (build tag verif, quic overlay) it evaluates
//	     ipfscluster.DefaultRPCPolicy, the RPCClosed/RPCTrusted/RPCOpen constants and
//	     reflects the method sets of the RPC API types exactly as isRPCPolicyValid
//	     (cluster_config.go) does;
//	(ii) with go/ast it pattern-matches, in $VERIF_REPO (default /repo):
//	     - the authorization closure inside newRPCServer (rpc_api.go) and that every
//	       rpc.NewServer call in it installs the closure, and which API types are registered;
//	     - the component list of isRPCPolicyValid (cluster_config.go);
//	     - IsTrustedPeer / Trust / Distrust of consensus/crdt and consensus/raft, the trust
//	       loop of crdt setup() and its pubsub topic validator;
//	     - how consensus/crdt/config.go turns its sources into TrustAll/TrustedPeers: Default (evaluated),
//	       LoadJSON, ApplyEnvVars, applyJSONConfig, toJSONConfig.
//
// It fails closed: any shape it does not recognise makes it exit non-zero (a
// failed translator obligation), it never guesses.
package main

import (
	"bytes"
	"fmt"
	"go/ast"
	"go/parser"
	"go/printer"
	"go/token"
	"os"
	"path/filepath"
	"reflect"
	"sort"
	"strconv"
	"strings"

	ipfscluster "github.com/ipfs/ipfs-cluster"
	crdtcfg "github.com/ipfs/ipfs-cluster/consensus/crdt"
)

var fset = token.NewFileSet()

func die(format string, a ...interface{}) {
	fmt.Fprintf(os.Stderr, "extract_c07: unrecognised shape: "+format+"\n", a...)
	os.Exit(3)
}

func str(n ast.Node) string {
	var b bytes.Buffer
	if err := printer.Fprint(&b, fset, n); err != nil {
		die("cannot print node: %v", err)
	}
	return strings.Join(strings.Fields(b.String()), " ")
}

func parseFile(path string) *ast.File {
	f, err := parser.ParseFile(fset, path, nil, 0)
	if err != nil {
		die("cannot parse %s: %v", path, err)
	}
	return f
}

// funcDecl finds a top-level function (recv == "") or method (recv = receiver type name).
func funcDecl(f *ast.File, recv, name string) *ast.FuncDecl {
	var found *ast.FuncDecl
	for _, d := range f.Decls {
		fd, ok := d.(*ast.FuncDecl)
		if !ok || fd.Name.Name != name {
			continue
		}
		r := ""
		if fd.Recv != nil && len(fd.Recv.List) == 1 {
			r = strings.TrimPrefix(str(fd.Recv.List[0].Type), "*")
		}
		if r != recv {
			continue
		}
		if found != nil {
			die("two declarations of %s.%s", recv, name)
		}
		found = fd
	}
	if found == nil {
		die("no declaration of %s.%s", recv, name)
	}
	return found
}

func recvName(fd *ast.FuncDecl) string {
	if fd.Recv == nil || len(fd.Recv.List) != 1 || len(fd.Recv.List[0].Names) != 1 {
		die("%s: receiver without a name", fd.Name.Name)
	}
	return fd.Recv.List[0].Names[0].Name
}

// paramNames flattens the parameter names of a function type.
func paramNames(ft *ast.FuncType) []string {
	var out []string
	for _, f := range ft.Params.List {
		if len(f.Names) == 0 {
			out = append(out, "_")
		}
		for _, n := range f.Names {
			out = append(out, n.Name)
		}
	}
	return out
}

// ---------------------------------------------------------------- (i) linked facts

var apiTypes = map[string]interface{}{
	"ClusterRPCAPI":       &ipfscluster.ClusterRPCAPI{},
	"PinTrackerRPCAPI":    &ipfscluster.PinTrackerRPCAPI{},
	"IPFSConnectorRPCAPI": &ipfscluster.IPFSConnectorRPCAPI{},
	"ConsensusRPCAPI":     &ipfscluster.ConsensusRPCAPI{},
	"PeerMonitorRPCAPI":   &ipfscluster.PeerMonitorRPCAPI{},
}

var constNames = map[string]int{
	"RPCClosed":  int(ipfscluster.RPCClosed),
	"RPCTrusted": int(ipfscluster.RPCTrusted),
	"RPCOpen":    int(ipfscluster.RPCOpen),
}

// methodsOf reflects the endpoints of the named API types, as isRPCPolicyValid does.
func methodsOf(typeNames []string) []string {
	var out []string
	for _, tn := range typeNames {
		c, ok := apiTypes[tn]
		if !ok {
			die("RPC API type %s is not known to the extractor", tn)
		}
		svc := ipfscluster.RPCServiceID(c)
		if svc == "" {
			die("RPCServiceID of %s is empty", tn)
		}
		t := reflect.TypeOf(c)
		for i := 0; i < t.NumMethod(); i++ {
			out = append(out, fmt.Sprintf("%s.%s", svc, t.Method(i).Name))
		}
	}
	sort.Strings(out)
	return out
}

// ---------------------------------------------------------------- (ii) rpc_api.go

type closure struct {
	missing string
	cases   [][2]string // value, verdict
	dflt    string
}

// verdictOf recognises the three return expressions of the closure.
func verdictOf(e ast.Expr, c, pid string) string {
	s := str(e)
	switch s {
	case "true":
		return ".allow"
	case "false":
		return ".deny"
	case c + ".consensus.IsTrustedPeer(" + c + ".ctx, " + pid + ")":
		return ".askTrust"
	}
	die("closure returns %q", s)
	return ""
}

func singleReturn(stmts []ast.Stmt, what string) ast.Expr {
	if len(stmts) != 1 {
		die("%s: %d statements, want a single return", what, len(stmts))
	}
	r, ok := stmts[0].(*ast.ReturnStmt)
	if !ok || len(r.Results) != 1 {
		die("%s: not a single-value return: %s", what, str(stmts[0]))
	}
	return r.Results[0]
}

func extractClosure(fd *ast.FuncDecl) (closure, string) {
	cl := closure{}
	params := paramNames(fd.Type)
	if len(params) != 1 {
		die("newRPCServer has %d parameters", len(params))
	}
	c := params[0]
	// authF := func(pid peer.ID, svc, method string) bool { ... }
	var lit *ast.FuncLit
	name := ""
	for _, st := range fd.Body.List {
		as, ok := st.(*ast.AssignStmt)
		if !ok || len(as.Rhs) != 1 || len(as.Lhs) != 1 {
			continue
		}
		fl, ok := as.Rhs[0].(*ast.FuncLit)
		if !ok {
			continue
		}
		if lit != nil {
			die("newRPCServer defines two function literals")
		}
		lit = fl
		name = str(as.Lhs[0])
	}
	if lit == nil {
		die("newRPCServer defines no authorization closure")
	}
	if got := str(lit.Type); got != "func(pid peer.ID, svc, method string) bool" {
		// names may change; the types and arity may not
		ps := paramNames(lit.Type)
		if len(ps) != 3 || lit.Type.Results == nil || str(lit.Type.Results) != "bool" {
			die("closure signature %q", got)
		}
	}
	ps := paramNames(lit.Type)
	pid, svc, method := ps[0], ps[1], ps[2]
	body := lit.Body.List
	if len(body) != 3 && len(body) != 4 {
		die("closure body has %d statements", len(body))
	}
	// endpointType, ok := c.config.RPCPolicy[svc+"."+method]
	as, ok := body[0].(*ast.AssignStmt)
	if !ok || as.Tok != token.DEFINE || len(as.Lhs) != 2 || len(as.Rhs) != 1 {
		die("closure statement 1: %s", str(body[0]))
	}
	v, okName := str(as.Lhs[0]), str(as.Lhs[1])
	wantIdx := c + ".config.RPCPolicy[" + svc + "+\".\"+" + method + "]"
	if strings.ReplaceAll(str(as.Rhs[0]), " ", "") != wantIdx {
		die("closure looks up %s, want %s", str(as.Rhs[0]), wantIdx)
	}
	// if !ok { return X }
	ifs, ok := body[1].(*ast.IfStmt)
	if !ok || ifs.Init != nil || ifs.Else != nil || str(ifs.Cond) != "!"+okName {
		die("closure statement 2: %s", str(body[1]))
	}
	cl.missing = verdictOf(singleReturn(ifs.Body.List, "missing-entry arm"), c, pid)
	// switch endpointType { case K: return X ... default: return X }
	sw, ok := body[2].(*ast.SwitchStmt)
	if !ok || sw.Init != nil || sw.Tag == nil || str(sw.Tag) != v {
		die("closure statement 3: %s", str(body[2]))
	}
	haveDefault := false
	for _, s := range sw.Body.List {
		cc := s.(*ast.CaseClause)
		vd := verdictOf(singleReturn(cc.Body, "switch arm"), c, pid)
		if cc.List == nil {
			if haveDefault {
				die("two default arms")
			}
			haveDefault = true
			cl.dflt = vd
			continue
		}
		for _, e := range cc.List {
			val := ""
			if k, ok := constNames[str(e)]; ok {
				val = strconv.Itoa(k)
			} else if bl, ok := e.(*ast.BasicLit); ok && bl.Kind == token.INT {
				n, err := strconv.ParseInt(bl.Value, 0, 64)
				if err != nil {
					die("case value %s", bl.Value)
				}
				val = strconv.FormatInt(n, 10)
			} else {
				die("case value %s", str(e))
			}
			cl.cases = append(cl.cases, [2]string{val, vd})
		}
	}
	if len(body) == 4 {
		if haveDefault {
			die("closure has a default arm and a trailing statement")
		}
		cl.dflt = verdictOf(singleReturn(body[3:], "trailing return"), c, pid)
	} else if !haveDefault {
		die("closure switch has no default arm")
	}
	return cl, name
}

// serverOptions interprets the straight-line part of newRPCServer once for each value of
// c.config.Tracing (the only configuration field besides RPCPolicy that the function reads) and
// returns the host and option expressions of the one rpc.NewServer call that is reached.
// Understood: option slices (`opts := []rpc.ServerOption{…}`, `opts = append(opts, …)`,
// `opts = []rpc.ServerOption{…}`), `if c.config.Tracing {…} else {…}` (also negated), and
// `s = rpc.NewServer(host, proto, o1, o2, opts...)`. Anything else that touches an option slice
// or creates a server is an unrecognised shape.
func serverOptions(fd *ast.FuncDecl, c string, tracing bool) (host string, opts []string) {
	env := map[string][]string{}
	tracked := map[string]bool{}
	type server struct {
		host string
		opts []string
	}
	var servers []server
	sensitive := func(n ast.Node) bool {
		hit := false
		ast.Inspect(n, func(x ast.Node) bool {
			switch y := x.(type) {
			case *ast.CallExpr:
				if str(y.Fun) == "rpc.NewServer" {
					hit = true
				}
			case *ast.Ident:
				if tracked[y.Name] {
					hit = true
				}
			}
			return !hit
		})
		return hit
	}
	isOptSlice := func(e ast.Expr) bool { return strings.ReplaceAll(str(e), " ", "") == "[]rpc.ServerOption" }
	expand := func(args []ast.Expr, ellipsis bool) []string {
		var out []string
		for i, a := range args {
			if ellipsis && i == len(args)-1 {
				v, ok := env[str(a)]
				if !ok || !tracked[str(a)] {
					die("spread of %s, which is not a known option slice", str(a))
				}
				out = append(out, v...)
				continue
			}
			if sensitive(a) {
				die("option expression %s", str(a))
			}
			out = append(out, str(a))
		}
		return out
	}
	var interp func(stmts []ast.Stmt)
	interp = func(stmts []ast.Stmt) {
		for _, st := range stmts {
			switch x := st.(type) {
			case *ast.BlockStmt:
				interp(x.List)
				continue
			case *ast.DeclStmt:
				gd, ok := x.Decl.(*ast.GenDecl)
				if ok && gd.Tok == token.VAR && len(gd.Specs) == 1 {
					vs := gd.Specs[0].(*ast.ValueSpec)
					if vs.Type != nil && isOptSlice(vs.Type) && len(vs.Names) == 1 && len(vs.Values) == 0 {
						tracked[vs.Names[0].Name] = true
						env[vs.Names[0].Name] = nil
						continue
					}
				}
			case *ast.AssignStmt:
				if len(x.Lhs) == 1 && len(x.Rhs) == 1 {
					lhs := str(x.Lhs[0])
					switch r := x.Rhs[0].(type) {
					case *ast.CompositeLit:
						if r.Type != nil && isOptSlice(r.Type) {
							if !tracked[lhs] && x.Tok != token.DEFINE {
								die("assignment of an option slice to %s", lhs)
							}
							vals := expand(r.Elts, false)
							tracked[lhs] = true
							env[lhs] = vals
							continue
						}
					case *ast.CallExpr:
						switch str(r.Fun) {
						case "append":
							if len(r.Args) >= 1 && tracked[str(r.Args[0])] {
								if lhs != str(r.Args[0]) {
									die("append into another variable: %s", str(x))
								}
								env[lhs] = append(append([]string{}, env[lhs]...), expand(r.Args[1:], r.Ellipsis.IsValid())...)
								continue
							}
						case "rpc.NewServer":
							if len(r.Args) < 2 {
								die("server creation %s", str(r))
							}
							servers = append(servers, server{str(r.Args[0]), expand(r.Args[2:], r.Ellipsis.IsValid())})
							continue
						}
					}
				}
			case *ast.IfStmt:
				if x.Init == nil {
					cond := str(x.Cond)
					pos, neg := cond == c+".config.Tracing", cond == "!"+c+".config.Tracing"
					if pos || neg {
						if pos == tracing {
							interp(x.Body.List)
						} else if x.Else != nil {
							interp([]ast.Stmt{x.Else})
						}
						continue
					}
				}
			}
			if sensitive(st) {
				die("newRPCServer: statement touches the server options in a way the extractor does not follow: %s", str(st))
			}
		}
	}
	interp(fd.Body.List)
	if len(servers) != 1 {
		die("newRPCServer creates %d rpc servers when Tracing=%v", len(servers), tracing)
	}
	return servers[0].host, servers[0].opts
}

// registeredTypes lists the API types registered with s.RegisterName(RPCServiceID(x), x).
func registeredTypes(fd *ast.FuncDecl) []string {
	vars := map[string]string{}
	var out []string
	ast.Inspect(fd.Body, func(n ast.Node) bool {
		switch x := n.(type) {
		case *ast.AssignStmt:
			if len(x.Lhs) == 1 && len(x.Rhs) == 1 {
				if u, ok := x.Rhs[0].(*ast.UnaryExpr); ok && u.Op == token.AND {
					if cl, ok := u.X.(*ast.CompositeLit); ok {
						vars[str(x.Lhs[0])] = str(cl.Type)
					}
				}
			}
		case *ast.CallExpr:
			if sel, ok := x.Fun.(*ast.SelectorExpr); ok && strings.HasPrefix(sel.Sel.Name, "Register") {
				if sel.Sel.Name != "RegisterName" || len(x.Args) != 2 {
					die("registration call %s", str(x))
				}
				v := str(x.Args[1])
				t, ok := vars[v]
				if !ok || str(x.Args[0]) != "RPCServiceID("+v+")" {
					die("registration call %s", str(x))
				}
				out = append(out, t)
			}
		}
		return true
	})
	if len(out) == 0 {
		die("newRPCServer registers nothing")
	}
	return out
}

// validatedTypes lists the rpcComponents of isRPCPolicyValid.
func validatedTypes(fd *ast.FuncDecl) []string {
	var out []string
	ast.Inspect(fd.Body, func(n ast.Node) bool {
		as, ok := n.(*ast.AssignStmt)
		if !ok || len(as.Lhs) != 1 || str(as.Lhs[0]) != "rpcComponents" {
			return true
		}
		cl, ok := as.Rhs[0].(*ast.CompositeLit)
		if !ok {
			die("rpcComponents is %s", str(as.Rhs[0]))
		}
		for _, e := range cl.Elts {
			u, ok := e.(*ast.UnaryExpr)
			if !ok || u.Op != token.AND {
				die("rpcComponents element %s", str(e))
			}
			c, ok := u.X.(*ast.CompositeLit)
			if !ok {
				die("rpcComponents element %s", str(e))
			}
			out = append(out, str(c.Type))
		}
		return false
	})
	if len(out) == 0 {
		die("isRPCPolicyValid has no rpcComponents list")
	}
	return out
}

// ---------------------------------------------------------------- (ii) consensus

type shape struct {
	guards     []string
	final      string
	trustOp    string
	distrustOp string
	addPeerOp  string
	setup      bool
	validator  string
}

func isTracing(st ast.Stmt) bool {
	switch x := st.(type) {
	case *ast.AssignStmt:
		return len(x.Rhs) == 1 && strings.HasPrefix(str(x.Rhs[0]), "trace.StartSpan(")
	case *ast.DeferStmt:
		return str(x.Call) == "span.End()"
	}
	return false
}

func stripTracing(l []ast.Stmt) []ast.Stmt {
	var out []ast.Stmt
	for _, s := range l {
		if !isTracing(s) {
			out = append(out, s)
		}
	}
	return out
}

func extractIsTrusted(fd *ast.FuncDecl, cache string) ([]string, string) {
	r := recvName(fd)
	ps := paramNames(fd.Type)
	if len(ps) != 2 {
		die("IsTrustedPeer has %d parameters", len(ps))
	}
	pid := ps[1]
	body := stripTracing(fd.Body.List)
	var guards []string
	i := 0
	for ; i < len(body); i++ {
		ifs, ok := body[i].(*ast.IfStmt)
		if !ok {
			break
		}
		if ifs.Init != nil || ifs.Else != nil || str(singleReturn(ifs.Body.List, "IsTrustedPeer guard")) != "true" {
			die("IsTrustedPeer guard %s", str(ifs))
		}
		switch str(ifs.Cond) {
		case r + ".config.TrustAll":
			guards = append(guards, ".trustAll")
		case pid + " == " + r + ".host.ID()", r + ".host.ID() == " + pid:
			guards = append(guards, ".isSelf")
		default:
			die("IsTrustedPeer guard condition %s", str(ifs.Cond))
		}
	}
	rest := body[i:]
	switch len(rest) {
	case 1:
		switch str(singleReturn(rest, "IsTrustedPeer final")) {
		case "true":
			return guards, ".always"
		case "false":
			return guards, ".never"
		}
	case 2:
		as, ok := rest[0].(*ast.AssignStmt)
		if ok && cache != "" && as.Tok == token.DEFINE && len(as.Lhs) == 2 && str(as.Lhs[0]) == "_" &&
			len(as.Rhs) == 1 && str(as.Rhs[0]) == r+"."+cache+".Load("+pid+")" &&
			str(singleReturn(rest[1:], "IsTrustedPeer final")) == str(as.Lhs[1]) {
			return guards, ".inSet"
		}
	}
	die("IsTrustedPeer tail %v", func() []string {
		var l []string
		for _, s := range rest {
			l = append(l, str(s))
		}
		return l
	}())
	return nil, ""
}

// cacheOp recognises what Trust/Distrust do to the trusted-peer cache: exactly one
// unconditional call on it (Store(pid, …) / Delete(pid)), or none at all.
func cacheOp(fd *ast.FuncDecl, cache string) string {
	ps := paramNames(fd.Type)
	if len(ps) != 2 {
		die("%s has %d parameters", fd.Name.Name, len(ps))
	}
	pid := ps[1]
	if cache == "" {
		body := stripTracing(fd.Body.List)
		if str(singleReturn(body, fd.Name.Name)) != "nil" {
			die("%s is not a no-op", fd.Name.Name)
		}
		return ".noop"
	}
	r := recvName(fd)
	all := 0
	ast.Inspect(fd.Body, func(n ast.Node) bool {
		if sel, ok := n.(*ast.SelectorExpr); ok && str(sel) == r+"."+cache {
			all++
		}
		return true
	})
	op := ""
	top := 0
	for _, st := range fd.Body.List {
		es, ok := st.(*ast.ExprStmt)
		if !ok {
			continue
		}
		call, ok := es.X.(*ast.CallExpr)
		if !ok {
			continue
		}
		s := str(call)
		switch {
		case s == r+"."+cache+".Store("+pid+", struct{}{})":
			op = ".insert"
			top++
		case s == r+"."+cache+".Delete("+pid+")":
			op = ".delete"
			top++
		}
	}
	if all == 0 && top == 0 {
		return ".noop"
	}
	if all != 1 || top != 1 {
		die("%s touches the trust cache %d times (%d recognised unconditional calls)", fd.Name.Name, all, top)
	}
	// the function must not return before reaching the call, and must report success
	for _, st := range fd.Body.List {
		if rs, ok := st.(*ast.ReturnStmt); ok {
			if len(rs.Results) != 1 || str(rs.Results[0]) != "nil" {
				die("%s returns %s", fd.Name.Name, str(rs))
			}
		}
	}
	if _, ok := fd.Body.List[len(fd.Body.List)-1].(*ast.ReturnStmt); !ok {
		die("%s does not end in a return", fd.Name.Name)
	}
	for i, st := range fd.Body.List {
		if _, ok := st.(*ast.ReturnStmt); ok && i != len(fd.Body.List)-1 {
			die("%s returns early", fd.Name.Name)
		}
	}
	return op
}

// countCacheRefs counts selector references to the cache field in a package directory.
func countCacheRefs(dir, cache string) int {
	n := 0
	files, _ := filepath.Glob(filepath.Join(dir, "*.go"))
	for _, p := range files {
		if strings.HasSuffix(p, "_test.go") {
			continue
		}
		f := parseFile(p)
		ast.Inspect(f, func(nd ast.Node) bool {
			if sel, ok := nd.(*ast.SelectorExpr); ok && sel.Sel.Name == cache {
				n++
			}
			return true
		})
	}
	return n
}

// trustCallers lists every call of a method named Trust or Distrust in the non-test sources of the given
// directories, as "<dir>.<enclosing function>:<method>" (sorted). Who can change the trusted set is part of the
// property: today only setup() (the configured list) does.
func trustCallers(repo string, dirs []string) []string {
	var out []string
	for _, d := range dirs {
		files, _ := filepath.Glob(filepath.Join(repo, d, "*.go"))
		for _, p := range files {
			if strings.HasSuffix(p, "_test.go") || strings.HasPrefix(filepath.Base(p), "verif_export") {
				continue
			}
			f := parseFile(p)
			for _, decl := range f.Decls {
				fd, ok := decl.(*ast.FuncDecl)
				if !ok || fd.Body == nil {
					continue
				}
				ast.Inspect(fd.Body, func(n ast.Node) bool {
					call, ok := n.(*ast.CallExpr)
					if !ok {
						return true
					}
					if sel, ok := call.Fun.(*ast.SelectorExpr); ok && (sel.Sel.Name == "Trust" || sel.Sel.Name == "Distrust") {
						dn := d
						if dn == "." {
							dn = "root"
						}
						out = append(out, dn+"."+fd.Name.Name+":"+sel.Sel.Name)
					}
					return true
				})
			}
		}
	}
	sort.Strings(out)
	return out
}

// addPeerEffect reads what Consensus.AddPeer - reached from the OPEN endpoint Cluster.PeerAdd - does to the
// trusted-peer cache: `return nil` is a no-op, `return <recv>.Trust(ctx, pid)` is whatever Trust does; any other
// body must not mention the cache or Trust/Distrust (raft: membership only).
func addPeerEffect(fd *ast.FuncDecl, cache, trustOp string) string {
	r := recvName(fd)
	ps := paramNames(fd.Type)
	body := stripTracing(fd.Body.List)
	if len(body) == 1 {
		if ret, ok := body[0].(*ast.ReturnStmt); ok && len(ret.Results) == 1 {
			switch str(ret.Results[0]) {
			case "nil":
				return ".noop"
			case r + ".Trust(" + strings.Join(ps, ", ") + ")":
				return trustOp
			}
		}
	}
	bad := false
	ast.Inspect(fd.Body, func(n ast.Node) bool {
		if sel, ok := n.(*ast.SelectorExpr); ok && (sel.Sel.Name == "Trust" || sel.Sel.Name == "Distrust" || (cache != "" && sel.Sel.Name == cache)) {
			bad = true
		}
		return true
	})
	if bad {
		die("AddPeer touches the trusted set in an unrecognised way")
	}
	return ".noop"
}

func extractSetup(fd *ast.FuncDecl) (bool, string) {
	r := recvName(fd)
	setup := false
	validator := ""
	for _, st := range fd.Body.List {
		if rg, ok := st.(*ast.RangeStmt); ok && str(rg.X) == r+".config.TrustedPeers" {
			if len(rg.Body.List) != 1 || str(rg.Body.List[0]) != r+".Trust("+r+".ctx, "+str(rg.Value)+")" {
				die("setup trust loop body %s", str(rg.Body))
			}
			setup = true
		}
	}
	topic := ""
	ast.Inspect(fd.Body, func(n ast.Node) bool {
		call, ok := n.(*ast.CallExpr)
		if !ok {
			return true
		}
		switch str(call.Fun) {
		case r + ".pubsub.RegisterTopicValidator":
			if validator != "" || len(call.Args) != 2 {
				die("topic validator registration %s", str(call))
			}
			topic = str(call.Args[0])
			fl, ok := call.Args[1].(*ast.FuncLit)
			if !ok {
				die("topic validator is %s", str(call.Args[1]))
			}
			ps := paramNames(fl.Type)
			if len(ps) != 3 {
				die("topic validator has %d parameters", len(ps))
			}
			ctx, msg := ps[0], ps[2]
			b := fl.Body.List
			// signer := msg.GetFrom(); trusted := css.IsTrustedPeer(ctx, signer); [if !trusted {log}]; return trusted
			if len(b) < 3 || len(b) > 4 {
				die("topic validator body has %d statements", len(b))
			}
			a0, ok0 := b[0].(*ast.AssignStmt)
			a1, ok1 := b[1].(*ast.AssignStmt)
			if !ok0 || !ok1 || len(a0.Lhs) != 1 || len(a1.Lhs) != 1 || str(a0.Rhs[0]) != msg+".GetFrom()" ||
				str(a1.Rhs[0]) != r+".IsTrustedPeer("+ctx+", "+str(a0.Lhs[0])+")" {
				die("topic validator head %s ; %s", str(b[0]), str(b[1]))
			}
			tv := str(a1.Lhs[0])
			if len(b) == 4 {
				ifs, ok := b[2].(*ast.IfStmt)
				if !ok || ifs.Else != nil || ifs.Init != nil || str(ifs.Cond) != "!"+tv {
					die("topic validator statement 3: %s", str(b[2]))
				}
				for _, s := range ifs.Body.List {
					es, ok := s.(*ast.ExprStmt)
					if !ok || !strings.HasPrefix(str(es.X), "logger.") {
						die("topic validator: non-logging statement %s", str(s))
					}
				}
			}
			if str(singleReturn(b[len(b)-1:], "topic validator")) != tv {
				die("topic validator returns %s", str(b[len(b)-1]))
			}
			validator = ".trustedSigner"
		case "crdt.NewPubSubBroadcaster":
			if len(call.Args) != 3 || str(call.Args[1]) != r+".pubsub" || topic == "" || str(call.Args[2]) != topic {
				die("broadcaster %s does not use the validated topic %q", str(call), topic)
			}
		}
		return true
	})
	if validator == "" {
		die("crdt setup registers no topic validator")
	}
	return setup, validator
}

// ---------------------------------------------------------------- (ii) consensus/crdt/config.go

type cfgShape struct {
	defaultTrustAll, loadDefaults, loadResetsTrustAll, applyResetsTrustAll, applyResetsPeers bool
}

func stmtStrs(l []ast.Stmt) []string {
	out := make([]string, len(l))
	for i, s := range l {
		out[i] = str(s)
	}
	return out
}

// mentionsTrust: does the node refer to the TrustAll / TrustedPeers fields of the receiver
func mentionsTrust(n ast.Node, r string) bool {
	hit := false
	ast.Inspect(n, func(x ast.Node) bool {
		if sel, ok := x.(*ast.SelectorExpr); ok && str(sel.X) == r && (sel.Sel.Name == "TrustAll" || sel.Sel.Name == "TrustedPeers") {
			hit = true
		}
		return !hit
	})
	return hit
}

func extractCfgShape(f *ast.File) cfgShape {
	var sh cfgShape
	// --- applyJSONConfig: [resets] ; for _, p := range jcfg.TrustedPeers { "*" => TrustAll, empty list, break ; decode ; append }
	ap := funcDecl(f, "Config", "applyJSONConfig")
	r := recvName(ap)
	j := paramNames(ap.Type)[0]
	loopAt := -1
	for i, st := range ap.Body.List {
		if rg, ok := st.(*ast.RangeStmt); ok && str(rg.X) == j+".TrustedPeers" {
			if loopAt >= 0 {
				die("applyJSONConfig ranges over the trusted peers twice")
			}
			loopAt = i
			v := str(rg.Value)
			want := []string{
				"if " + v + " == \"*\" { " + r + ".TrustAll = true " + r + ".TrustedPeers = []peer.ID{} break }",
				"pid, err := peer.Decode(" + v + ")",
				"",
				r + ".TrustedPeers = append(" + r + ".TrustedPeers, pid)",
			}
			got := stmtStrs(rg.Body.List)
			if len(got) != 4 {
				die("trusted-peers loop has %d statements", len(got))
			}
			for k := range want {
				if want[k] != "" && got[k] != want[k] {
					die("trusted-peers loop statement %d: %s", k+1, got[k])
				}
			}
			ifs, ok := rg.Body.List[2].(*ast.IfStmt)
			if !ok || str(ifs.Cond) != "err != nil" || len(ifs.Body.List) != 1 || mentionsTrust(ifs, r) {
				die("trusted-peers loop statement 3: %s", got[2])
			}
			if _, ok := ifs.Body.List[0].(*ast.ReturnStmt); !ok {
				die("trusted-peers loop statement 3: %s", got[2])
			}
			continue
		}
		switch {
		case loopAt < 0 && str(st) == r+".TrustAll = false":
			sh.applyResetsTrustAll = true
		case loopAt < 0 && str(st) == r+".TrustedPeers = []peer.ID{}":
			sh.applyResetsPeers = true
		case mentionsTrust(st, r):
			die("applyJSONConfig: statement touches the trust fields: %s", str(st))
		}
	}
	if loopAt < 0 {
		die("applyJSONConfig has no loop over the trusted peers")
	}
	// --- LoadJSON: …; cfg.Default(); [cfg.TrustAll = false]; return cfg.applyJSONConfig(jcfg)
	lj := funcDecl(f, "Config", "LoadJSON")
	r = recvName(lj)
	body := lj.Body.List
	if len(body) < 2 || !strings.HasPrefix(str(body[len(body)-1]), "return "+r+".applyJSONConfig(") {
		die("LoadJSON does not end in applyJSONConfig")
	}
	for _, st := range body[:len(body)-1] {
		switch {
		case str(st) == r+".Default()":
			sh.loadDefaults = true
		case str(st) == r+".TrustAll = false":
			if !sh.loadDefaults {
				die("LoadJSON resets TrustAll before Default()")
			}
			sh.loadResetsTrustAll = true
		case mentionsTrust(st, r):
			die("LoadJSON: statement touches the trust fields: %s", str(st))
		}
	}
	// --- ApplyEnvVars: jcfg := cfg.toJSONConfig(); err := envconfig.Process(envConfigKey, jcfg); if err …; return cfg.applyJSONConfig(jcfg)
	ev := funcDecl(f, "Config", "ApplyEnvVars")
	r = recvName(ev)
	got := stmtStrs(ev.Body.List)
	if len(got) != 4 || got[0] != "jcfg := "+r+".toJSONConfig()" || got[1] != "err := envconfig.Process(envConfigKey, jcfg)" ||
		!strings.HasPrefix(got[2], "if err != nil { return err") || got[3] != "return "+r+".applyJSONConfig(jcfg)" {
		die("ApplyEnvVars: %v", got)
	}
	// --- toJSONConfig: if cfg.TrustAll { ["*"] } else { PeersToStrings(cfg.TrustedPeers) }
	tj := funcDecl(f, "Config", "toJSONConfig")
	r = recvName(tj)
	found := 0
	for _, st := range tj.Body.List {
		if str(st) == "if "+r+".TrustAll { jcfg.TrustedPeers = []string{\"*\"} } else { jcfg.TrustedPeers = api.PeersToStrings("+r+".TrustedPeers) }" {
			found++
			continue
		}
		if mentionsTrust(st, r) || strings.Contains(str(st), "TrustedPeers") {
			die("toJSONConfig: statement touches the trust fields: %s", str(st))
		}
	}
	if found != 1 {
		die("toJSONConfig does not render the trust fields in the known way")
	}
	// --- nothing else in the file assigns the trust fields (Default is evaluated, not read)
	assigns := 0
	ast.Inspect(f, func(n ast.Node) bool {
		if as, ok := n.(*ast.AssignStmt); ok {
			for _, l := range as.Lhs {
				if sel, ok := l.(*ast.SelectorExpr); ok && (sel.Sel.Name == "TrustAll" || sel.Sel.Name == "TrustedPeers") {
					assigns++
				}
			}
		}
		return true
	})
	want := 2 /* Default */ + 3 /* loop */ + 2 /* toJSONConfig writes jcfg.TrustedPeers */
	for _, b := range []bool{sh.applyResetsTrustAll, sh.applyResetsPeers, sh.loadResetsTrustAll} {
		if b {
			want++
		}
	}
	if assigns != want {
		die("config.go assigns the trust fields %d times, %d of them recognised", assigns, want)
	}
	// --- Default(), evaluated
	c := &crdtcfg.Config{}
	c.TrustedPeers = nil
	if err := c.Default(); err != nil {
		die("crdt Config.Default: %v", err)
	}
	if len(c.TrustedPeers) != 0 {
		die("crdt default configuration lists %d trusted peers", len(c.TrustedPeers))
	}
	sh.defaultTrustAll = c.TrustAll
	return sh
}

// ---------------------------------------------------------------- output

// ---------------------------------------------------------------- where the policy table comes from

type polWrite struct {
	site, key string
	value     int
}

type polShape struct {
	setDefaultsInstalls, defaultCalls, loadCalls, applyWrites bool
	jsonKeys                                                   []string
	keyed                                                      []polWrite
	unknown                                                    []string
}

func mentions(n ast.Node, what string) bool {
	found := false
	ast.Inspect(n, func(x ast.Node) bool {
		switch v := x.(type) {
		case *ast.Ident:
			if v.Name == what {
				found = true
			}
		}
		return !found
	})
	return found
}

// callsOwn reports whether the body contains the statement `<recv>.<name>()`.
func callsOwn(fd *ast.FuncDecl, name string) bool {
	r := recvName(fd)
	for _, st := range fd.Body.List {
		if es, ok := st.(*ast.ExprStmt); ok && str(es.X) == r+"."+name+"()" {
			return true
		}
	}
	return false
}

func jsonTag(f *ast.Field) string {
	if f.Tag == nil {
		return ""
	}
	t, err := strconv.Unquote(f.Tag.Value)
	if err != nil {
		die("struct tag %s", f.Tag.Value)
	}
	v := reflect.StructTag(t).Get("json")
	if i := strings.Index(v, ","); i >= 0 {
		v = v[:i]
	}
	return v
}

// policyFields lists the JSON keys of the fields of the named struct (and of struct types of the same file it
// points to) that could carry a policy table: map-typed, or named like the policy.
func policyFields(f *ast.File, name string, seen map[string]bool) []string {
	if seen[name] {
		return nil
	}
	seen[name] = true
	var out []string
	for _, d := range f.Decls {
		gd, ok := d.(*ast.GenDecl)
		if !ok {
			continue
		}
		for _, sp := range gd.Specs {
			ts, ok := sp.(*ast.TypeSpec)
			if !ok || ts.Name.Name != name {
				continue
			}
			st, ok := ts.Type.(*ast.StructType)
			if !ok {
				continue
			}
			for _, fl := range st.Fields.List {
				key := jsonTag(fl)
				names := ""
				for _, n := range fl.Names {
					names += n.Name
				}
				if len(fl.Names) == 0 {
					// embedded field: its own fields are promoted
					out = append(out, policyFields(f, strings.TrimPrefix(str(fl.Type), "*"), seen)...)
					continue
				}
				if key == "" {
					key = names
				}
				_, isMap := fl.Type.(*ast.MapType)
				if isMap || strings.Contains(strings.ToLower(names+key), "policy") {
					out = append(out, key)
					continue
				}
				out = append(out, policyFields(f, strings.TrimPrefix(str(fl.Type), "*"), seen)...)
			}
		}
	}
	return out
}

// policyWriters walks every non-test Go file of the repository and classifies each place that writes the table:
// an assignment whose left side mentions RPCPolicy / DefaultRPCPolicy, a delete() on it, a composite-literal field.
func policyWriters(repo string, sh *polShape) {
	filepath.Walk(repo, func(p string, info os.FileInfo, err error) error {
		if err != nil {
			return nil
		}
		if info.IsDir() {
			b := info.Name()
			if b == "vendor" || b == "sharness" || b == "testdata" || (strings.HasPrefix(b, ".") && p != repo) {
				return filepath.SkipDir
			}
			return nil
		}
		if !strings.HasSuffix(p, ".go") || strings.HasSuffix(p, "_test.go") || strings.HasPrefix(filepath.Base(p), "verif_export") {
			return nil
		}
		src, rerr := os.ReadFile(p)
		if rerr != nil || !bytes.Contains(src, []byte("RPCPolicy")) {
			return nil
		}
		f := parseFile(p)
		dir, _ := filepath.Rel(repo, filepath.Dir(p))
		if dir == "." {
			dir = "root"
		}
		for _, decl := range f.Decls {
			fd, ok := decl.(*ast.FuncDecl)
			if !ok || fd.Body == nil {
				continue
			}
			site := dir + "." + fd.Name.Name
			ast.Inspect(fd.Body, func(n ast.Node) bool {
				switch v := n.(type) {
				case *ast.AssignStmt:
					for i, l := range v.Lhs {
						if !mentions(l, "RPCPolicy") && !mentions(l, "DefaultRPCPolicy") {
							continue
						}
						if dir == "root" && fd.Name.Name == "setDefaults" && len(v.Lhs) == 1 && len(v.Rhs) == 1 && v.Tok == token.ASSIGN &&
							str(l) == recvName(fd)+".RPCPolicy" && str(v.Rhs[0]) == "DefaultRPCPolicy" {
							sh.setDefaultsInstalls = true
							continue
						}
						if ix, ok := l.(*ast.IndexExpr); ok && len(v.Lhs) == len(v.Rhs) && v.Tok == token.ASSIGN {
							if sel, ok := ix.X.(*ast.SelectorExpr); ok && sel.Sel.Name == "RPCPolicy" {
								if lit, ok := ix.Index.(*ast.BasicLit); ok && lit.Kind == token.STRING {
									key, _ := strconv.Unquote(lit.Value)
									rhs := str(v.Rhs[i])
									if j := strings.LastIndex(rhs, "."); j >= 0 {
										rhs = rhs[j+1:]
									}
									if val, ok := constNames[rhs]; ok {
										sh.keyed = append(sh.keyed, polWrite{site, key, val})
										continue
									}
								}
							}
						}
						sh.unknown = append(sh.unknown, site+": "+str(v))
					}
				case *ast.IncDecStmt:
					if mentions(v.X, "RPCPolicy") || mentions(v.X, "DefaultRPCPolicy") {
						sh.unknown = append(sh.unknown, site+": "+str(v))
					}
				case *ast.CallExpr:
					if id, ok := v.Fun.(*ast.Ident); ok && id.Name == "delete" && len(v.Args) > 0 &&
						(mentions(v.Args[0], "RPCPolicy") || mentions(v.Args[0], "DefaultRPCPolicy")) {
						sh.unknown = append(sh.unknown, site+": "+str(v))
					}
				case *ast.KeyValueExpr:
					if id, ok := v.Key.(*ast.Ident); ok && id.Name == "RPCPolicy" {
						sh.unknown = append(sh.unknown, site+": "+str(v))
					}
				case *ast.UnaryExpr:
					// &cfg.RPCPolicy handed to something that may fill it
					if v.Op == token.AND && (mentions(v.X, "RPCPolicy") || mentions(v.X, "DefaultRPCPolicy")) {
						sh.unknown = append(sh.unknown, site+": "+str(v))
					}
				}
				return true
			})
		}
		return nil
	})
	sort.Slice(sh.keyed, func(i, j int) bool {
		return sh.keyed[i].site+sh.keyed[i].key < sh.keyed[j].site+sh.keyed[j].key
	})
	sort.Strings(sh.unknown)
}

func extractPolShape(repo string) polShape {
	var sh polShape
	f := parseFile(filepath.Join(repo, "cluster_config.go"))
	sh.defaultCalls = callsOwn(funcDecl(f, "Config", "Default"), "setDefaults")
	sh.loadCalls = callsOwn(funcDecl(f, "Config", "LoadJSON"), "setDefaults")
	ac := funcDecl(f, "Config", "applyConfigJSON")
	sh.applyWrites = mentions(ac.Body, "RPCPolicy")
	sh.jsonKeys = policyFields(f, "configJSON", map[string]bool{})
	// LoadJSON and ApplyEnvVars must end in applyConfigJSON, the only place that copies configJSON into Config
	for _, n := range []string{"LoadJSON", "ApplyEnvVars"} {
		fd := funcDecl(f, "Config", n)
		last := fd.Body.List[len(fd.Body.List)-1]
		if str(last) != "return "+recvName(fd)+".applyConfigJSON(jcfg)" {
			die("%s does not end in applyConfigJSON: %s", n, str(last))
		}
		if mentions(fd.Body, "RPCPolicy") {
			sh.applyWrites = true
		}
	}
	policyWriters(repo, &sh)
	return sh
}

func leanStrList(l []string) string {
	q := make([]string, len(l))
	for i, s := range l {
		q[i] = strconv.Quote(s)
	}
	return "[" + strings.Join(q, ", ") + "]"
}

func main() {
	repo := os.Getenv("VERIF_REPO")
	if repo == "" {
		repo = "/repo"
	}
	// --- rpc_api.go / cluster_config.go
	rpcAPI := parseFile(filepath.Join(repo, "rpc_api.go"))
	nrs := funcDecl(rpcAPI, "", "newRPCServer")
	cl, authF := extractClosure(nrs)
	cName := paramNames(nrs.Type)[0]
	guardedBy := func(tracing bool) (bool, []string) {
		host, opts := serverOptions(nrs, cName, tracing)
		ok := false
		for _, o := range opts {
			if o == "rpc.WithAuthorizeFunc("+authF+")" {
				ok = true
			}
		}
		return ok && host == cName+".host", append([]string{host}, opts...)
	}
	guardedPlain, descPlain := guardedBy(false)
	guardedTracing, descTracing := guardedBy(true)
	registered := registeredTypes(nrs)
	validated := validatedTypes(funcDecl(parseFile(filepath.Join(repo, "cluster_config.go")), "", "isRPCPolicyValid"))

	// --- linked facts
	methods := methodsOf(registered)
	validatedMethods := methodsOf(validated)
	var keys []string
	for k := range ipfscluster.DefaultRPCPolicy {
		keys = append(keys, k)
	}
	sort.Strings(keys)
	cfg := &ipfscluster.Config{}
	if err := cfg.Default(); err != nil {
		die("Config.Default: %v", err)
	}
	cfgIsDefault := reflect.DeepEqual(map[string]ipfscluster.RPCEndpointType(cfg.RPCPolicy), ipfscluster.DefaultRPCPolicy)

	// --- consensus
	crdtFile := parseFile(filepath.Join(repo, "consensus/crdt/consensus.go"))
	raftFile := parseFile(filepath.Join(repo, "consensus/raft/consensus.go"))
	const cache = "trustedPeers"
	var crdt, raft shape
	crdt.guards, crdt.final = extractIsTrusted(funcDecl(crdtFile, "Consensus", "IsTrustedPeer"), cache)
	crdt.trustOp = cacheOp(funcDecl(crdtFile, "Consensus", "Trust"), cache)
	crdt.distrustOp = cacheOp(funcDecl(crdtFile, "Consensus", "Distrust"), cache)
	crdt.setup, crdt.validator = extractSetup(funcDecl(crdtFile, "Consensus", "setup"))
	crdt.addPeerOp = addPeerEffect(funcDecl(crdtFile, "Consensus", "AddPeer"), cache, crdt.trustOp)
	refs := countCacheRefs(filepath.Join(repo, "consensus/crdt"), cache)
	wantRefs := 0
	if crdt.final == ".inSet" {
		wantRefs++
	}
	for _, o := range []string{crdt.trustOp, crdt.distrustOp} {
		if o != ".noop" {
			wantRefs++
		}
	}
	if refs != wantRefs {
		die("consensus/crdt refers to %s %d times, %d of them recognised", cache, refs, wantRefs)
	}
	raft.guards, raft.final = extractIsTrusted(funcDecl(raftFile, "Consensus", "IsTrustedPeer"), "")
	raft.trustOp = cacheOp(funcDecl(raftFile, "Consensus", "Trust"), "")
	raft.distrustOp = cacheOp(funcDecl(raftFile, "Consensus", "Distrust"), "")
	raft.validator = ".acceptAll"
	raft.addPeerOp = addPeerEffect(funcDecl(raftFile, "Consensus", "AddPeer"), "", raft.trustOp)
	callers := trustCallers(repo, []string{".", "consensus/crdt", "consensus/raft", "api/rest", "api/ipfsproxy", "pstoremgr", "cmdutils"})
	cs := extractCfgShape(parseFile(filepath.Join(repo, "consensus/crdt/config.go")))
	ps := extractPolShape(repo)
	openEps := map[string]bool{}
	for k, v := range ipfscluster.DefaultRPCPolicy {
		if v == ipfscluster.RPCOpen {
			openEps[k] = true
		}
	}
	direct, openReach := handlerReach(repo, rpcAPI, methods, openEps)

	// --- emit
	var b strings.Builder
	w := func(format string, a ...interface{}) { fmt.Fprintf(&b, format, a...) }
	w("import ClusterVerif.Model.C07\n")
	w("/-! GENERATED by harness/extract_c07 from rpc_policy.go, rpc_api.go, cluster_config.go,\n")
	w("consensus/crdt/consensus.go and consensus/raft/consensus.go. Do not edit: regenerated on every ./check C07. -/\n")
	w("namespace CV.C07.Gen\n\n")
	w("/-- integer values of RPCClosed, RPCTrusted, RPCOpen -/\n")
	w("def constClosed : Int := %d\ndef constTrusted : Int := %d\ndef constOpen : Int := %d\n\n",
		constNames["RPCClosed"], constNames["RPCTrusted"], constNames["RPCOpen"])
	w("/-- API types registered by newRPCServer -/\ndef registeredTypes : List String := %s\n", leanStrList(registered))
	w("/-- API types walked by isRPCPolicyValid -/\ndef validatedTypes : List String := %s\n\n", leanStrList(validated))
	w("/-- endpoints (service.method) of the registered types, by reflection -/\ndef methods : List String := [\n")
	for i, m := range methods {
		sep := ","
		if i == len(methods)-1 {
			sep = ""
		}
		w("  %s%s\n", strconv.Quote(m), sep)
	}
	w("]\n\n/-- endpoints isRPCPolicyValid insists on -/\ndef validatedMethods : List String := %s\n\n", leanStrList(validatedMethods))
	w("/-- DefaultRPCPolicy -/\ndef policy : Policy := [\n")
	for i, k := range keys {
		sep := ","
		if i == len(keys)-1 {
			sep = ""
		}
		w("  (%s, %d)%s\n", strconv.Quote(k), int(ipfscluster.DefaultRPCPolicy[k]), sep)
	}
	w("]\n\n/-- Config.Default() installs DefaultRPCPolicy -/\ndef configPolicyIsDefault : Bool := %v\n\n", cfgIsDefault)
	w("/-- the authorization closure of newRPCServer -/\ndef closure : Closure := {\n  missing := %s,\n  cases := [", cl.missing)
	for i, c := range cl.cases {
		if i > 0 {
			w(", ")
		}
		w("(%s, %s)", c[0], c[1])
	}
	w("],\n  dflt := %s }\n\n", cl.dflt)
	w("/-- host and options of the rpc.NewServer call newRPCServer reaches when Config.Tracing is false / true -/\n")
	w("def serverPlain : List String := %s\ndef serverTracing : List String := %s\n", leanStrList(descPlain), leanStrList(descTracing))
	w("/-- does that server serve c.host with rpc.WithAuthorizeFunc(<the closure>) installed -/\n")
	w("def serverGuarded : Bool → Bool\n  | false => %v\n  | true => %v\n\n", guardedPlain, guardedTracing)
	emitShape := func(name string, s shape) {
		w("def %s : ConsensusShape := {\n  guards := [%s],\n  final := %s,\n  trustOp := %s,\n  distrustOp := %s,\n  addPeerOp := %s,\n  setupTrustsConfigured := %v,\n  validator := %s }\n\n",
			name, strings.Join(s.guards, ", "), s.final, s.trustOp, s.distrustOp, s.addPeerOp, s.setup, s.validator)
	}
	w("/-- consensus/crdt: IsTrustedPeer, Trust, Distrust, setup() -/\n")
	emitShape("crdt", crdt)
	w("/-- consensus/raft: IsTrustedPeer, Trust, Distrust -/\n")
	emitShape("raft", raft)
	w("/-- every call of a method named Trust / Distrust in the non-test sources (root, consensus, api, pstoremgr, cmdutils) -/\n")
	w("def trustCallers : List String := %s\n\n", leanStrList(callers))
	w("/-- consensus/crdt/config.go: Default, LoadJSON, ApplyEnvVars, applyJSONConfig (toJSONConfig is the known shape) -/\n")
	w("def cfgShape : CfgShape := {\n  defaultTrustAll := %v,\n  loadDefaults := %v,\n  loadResetsTrustAll := %v,\n  applyResetsTrustAll := %v,\n  applyResetsPeers := %v }\n\n",
		cs.defaultTrustAll, cs.loadDefaults, cs.loadResetsTrustAll, cs.applyResetsTrustAll, cs.applyResetsPeers)
	w("/-- cluster_config.go (Default, LoadJSON, ApplyEnvVars, applyConfigJSON, setDefaults, configJSON) and every other\n")
	w("    non-test place of the repository that writes RPCPolicy / DefaultRPCPolicy -/\n")
	w("def polShape : PolShape := {\n  setDefaultsInstalls := %v,\n  defaultCallsSetDefaults := %v,\n  loadCallsSetDefaults := %v,\n  jsonPolicyKeys := %s,\n  applyWritesPolicy := %v,\n  keyedWrites := [",
		ps.setDefaultsInstalls, ps.defaultCalls, ps.loadCalls, leanStrList(ps.jsonKeys), ps.applyWrites)
	for i, k := range ps.keyed {
		if i > 0 {
			w(", ")
		}
		w("{ dir := %s, fn := %s, key := %s, value := %d }", strconv.Quote(k.site[:strings.LastIndex(k.site, ".")]), strconv.Quote(k.site[strings.LastIndex(k.site, ".")+1:]), strconv.Quote(k.key), k.value)
	}
	w("],\n  unknownWrites := %s }\n\n", leanStrList(ps.unknown))
	w("/-- rpc_api.go: what every handler calls through its receiver (component, method) -/\n")
	w("def handlerCalls : List Reach := %s\n\n", leanReach(direct))
	w("/-- the endpoints that are RPCOpen today: what their handlers reach through the methods of *Cluster (transitively):\n")
	w("    calls on fields of the Cluster, RPC calls made with the serving peer's own credentials, opaque uses -/\n")
	w("def openReach : List Reach := %s\n\n", leanReach(openReach))
	w("%s", leanDaemon(repo))
	w("end CV.C07.Gen\n")
	fmt.Print(b.String())
}
