package main

// Round 8c: how the daemons assemble the REST API and the consensus component (reader: harness/common/c07_daemon.go,
// shared with the harness suite `dmn`). Emits `Gen.daemonShape`.

import (
	"fmt"
	"strconv"
	"strings"

	"verifharness/common"
)

func leanDaemon(repo string) string {
	d, err := common.C07DaemonFacts(repo)
	if err != nil {
		die("daemon facts: %v", err)
	}
	q := strconv.Quote
	guard := func(g string) string {
		switch {
		case g == "always":
			return ".always"
		case g == "other":
			return ".other"
		case strings.HasPrefix(g, "not-"):
			return "(.unless " + q(g[4:]) + ")"
		}
		return "(.only " + q(g) + ")"
	}
	host := func(h string) string {
		switch h {
		case "nil":
			return ".none"
		case "clusterhost":
			return ".cluster"
		}
		return ".other"
	}
	source := func(x string) string {
		switch {
		case x == "raft" || x == "crdt":
			return "(.direct " + q(x) + ")"
		case strings.HasPrefix(x, "via:"):
			return "(.via " + q(x[4:]) + ")"
		}
		return ".unknown"
	}
	var rest, cons, cl []string
	for _, s := range d.Rest {
		rest = append(rest, fmt.Sprintf("{ dir := %s, fn := %s, ctor := %s, host := %s, guard := %s }", q(s.Dir), q(s.Fn), q(s.Ctor), host(s.Host), guard(s.Guard)))
	}
	for _, s := range d.Cons {
		cons = append(cons, fmt.Sprintf("{ dir := %s, fn := %s, ctor := %s, guard := %s }", q(s.Dir), q(s.Fn), q(s.Ctor), guard(s.Guard)))
	}
	for _, s := range d.Cluster {
		cl = append(cl, fmt.Sprintf("{ dir := %s, fn := %s, source := %s }", q(s.Dir), q(s.Fn), source(s.Source)))
	}
	p := d.Pkg
	var b strings.Builder
	fmt.Fprintf(&b, "/-- cmd/*: every call of rest.NewAPI / rest.NewAPIWithHost, raft.NewConsensus / crdt.New with its consensus guard, where the\n")
	fmt.Fprintf(&b, "    consensus argument of every NewCluster call comes from; api/rest/restapi.go: what NewAPI / NewAPIWithHost / setupLibp2p do with the host -/\n")
	fmt.Fprintf(&b, "def daemonShape : DaemonShape := {\n  restSites := [%s],\n  consSites := [%s],\n  clusterSites := [%s],\n", strings.Join(rest, ",\n    "), strings.Join(cons, ",\n    "), strings.Join(cl, ", "))
	fmt.Fprintf(&b, "  newAPINilHost := %v,\n  storesHostParam := %v,\n  ownHostWhenAddr := %v,\n  noHostNoListener := %v,\n  listensOn := %s,\n  hostWriters := %s,\n  authWrapsHandler := %v,\n  libp2pServer := %s }\n\n",
		p.NewAPINilHost, p.StoresHostParam, p.OwnHostWhenAddr, p.NoHostNoListener, q(p.ListensOn), leanStrList(p.HostWriters), p.AuthWrapsHandler, q(p.Libp2pServer))
	return b.String()
}
