// extract_c01: translator for the commit path of consensus/raft/consensus.go.
// Parses redirectToLeader, commit, AddPeer and RmPeer with go/ast and prints (stdout) the Lean file
// lean/ClusterVerif/Gen/C01Commit.lean: the statement skeleton the model Model/C01Commit.lean is
// parameterised by. Every fact is about the shape of the code, none about its run-time behaviour.
package main

import (
	"fmt"
	"go/ast"
	"go/parser"
	"go/token"
	"os"
	"path/filepath"
	"strings"
)

type fact struct {
	name string
	ok   bool
}

type facts struct {
	l []fact
}

func (f *facts) add(name string, ok bool) bool {
	f.l = append(f.l, fact{name, ok})
	return ok
}

func exprStr(fset *token.FileSet, e ast.Expr) string {
	switch x := e.(type) {
	case *ast.Ident:
		return x.Name
	case *ast.SelectorExpr:
		return exprStr(fset, x.X) + "." + x.Sel.Name
	case *ast.CallExpr:
		return exprStr(fset, x.Fun) + "()"
	case *ast.BinaryExpr:
		return exprStr(fset, x.X) + " " + x.Op.String() + " " + exprStr(fset, x.Y)
	case *ast.BasicLit:
		return x.Value
	case *ast.ParenExpr:
		return "(" + exprStr(fset, x.X) + ")"
	}
	return "?"
}

// topVar finds `var <name> error` among the top-level statements of a body.
func topVar(body *ast.BlockStmt, name string) *ast.Object {
	for _, st := range body.List {
		ds, ok := st.(*ast.DeclStmt)
		if !ok {
			continue
		}
		gd, ok := ds.Decl.(*ast.GenDecl)
		if !ok || gd.Tok != token.VAR {
			continue
		}
		for _, sp := range gd.Specs {
			vs := sp.(*ast.ValueSpec)
			for _, id := range vs.Names {
				if id.Name == name && len(vs.Values) == 0 {
					return id.Obj
				}
			}
		}
	}
	return nil
}

func retryLoop(body *ast.BlockStmt) (*ast.ForStmt, int) {
	var loop *ast.ForStmt
	n := 0
	for _, st := range body.List {
		if f, ok := st.(*ast.ForStmt); ok {
			loop = f
			n++
		}
	}
	return loop, n
}

// loopHeader checks `for i := 0; i <op> cc.config.CommitRetries; i++` and returns whether op is <=.
func loopHeader(fset *token.FileSet, f *ast.ForStmt) (recognised, inclusive bool) {
	if f == nil || f.Init == nil || f.Cond == nil || f.Post == nil {
		return false, false
	}
	init, ok := f.Init.(*ast.AssignStmt)
	if !ok || init.Tok != token.DEFINE || len(init.Lhs) != 1 || len(init.Rhs) != 1 || exprStr(fset, init.Rhs[0]) != "0" {
		return false, false
	}
	v := exprStr(fset, init.Lhs[0])
	cond, ok := f.Cond.(*ast.BinaryExpr)
	if !ok || exprStr(fset, cond.X) != v || exprStr(fset, cond.Y) != "cc.config.CommitRetries" {
		return false, false
	}
	post, ok := f.Post.(*ast.IncDecStmt)
	if !ok || post.Tok != token.INC || exprStr(fset, post.X) != v {
		return false, false
	}
	switch cond.Op {
	case token.LEQ:
		return true, true
	case token.LSS:
		return true, false
	}
	return false, false
}

// assignOfCall finds, among the top-level statements of the loop body, the assignment whose right
// hand side is a call of fun (e.g. "cc.rpcClient.CallContext"); returns it and its index.
func assignOfCall(fset *token.FileSet, body *ast.BlockStmt, funs ...string) (*ast.AssignStmt, int) {
	for i, st := range body.List {
		as, ok := st.(*ast.AssignStmt)
		if !ok || len(as.Rhs) != 1 {
			continue
		}
		call, ok := as.Rhs[0].(*ast.CallExpr)
		if !ok {
			continue
		}
		for _, fn := range funs {
			if exprStr(fset, call.Fun) == fn {
				return as, i
			}
		}
	}
	return nil, -1
}

func lhsIdent(as *ast.AssignStmt, name string) *ast.Ident {
	for _, l := range as.Lhs {
		if id, ok := l.(*ast.Ident); ok && id.Name == name {
			return id
		}
	}
	return nil
}

func lastStmt(b *ast.BlockStmt) ast.Stmt {
	if len(b.List) == 0 {
		return nil
	}
	return b.List[len(b.List)-1]
}

func isBranch(st ast.Stmt, toks ...token.Token) bool {
	b, ok := st.(*ast.BranchStmt)
	if !ok {
		return false
	}
	for _, t := range toks {
		if b.Tok == t {
			return true
		}
	}
	return false
}

func returnsOf(st ast.Stmt) []ast.Expr {
	r, ok := st.(*ast.ReturnStmt)
	if !ok {
		return nil
	}
	return r.Results
}

// hasReturn reports whether block contains (at any depth) a return whose results print as want
// ("*" matches any non-nil expression).
func hasReturn(fset *token.FileSet, n ast.Node, want ...string) bool {
	found := false
	ast.Inspect(n, func(x ast.Node) bool {
		r, ok := x.(*ast.ReturnStmt)
		if !ok || len(r.Results) != len(want) {
			return true
		}
		all := true
		for i, w := range want {
			s := exprStr(fset, r.Results[i])
			if w == "*" {
				if s == "nil" {
					all = false
				}
			} else if s != w {
				all = false
			}
		}
		if all {
			found = true
		}
		return true
	})
	return found
}

// everyReturn reports whether every return below n has one of the given shapes.
func everyReturn(fset *token.FileSet, n ast.Node, shapes ...[]string) bool {
	all := true
	ast.Inspect(n, func(x ast.Node) bool {
		r, ok := x.(*ast.ReturnStmt)
		if !ok {
			return true
		}
		match := false
		for _, want := range shapes {
			if len(r.Results) != len(want) {
				continue
			}
			m := true
			for i, w := range want {
				s := exprStr(fset, r.Results[i])
				if w == "*" {
					if s == "nil" {
						m = false
					}
				} else if s != w {
					m = false
				}
			}
			if m {
				match = true
			}
		}
		if !match {
			all = false
		}
		return true
	})
	return all
}

func boolLean(b bool) string {
	if b {
		return "true"
	}
	return "false"
}

type redirShape struct{ recognised, inclusive, fwdKept bool }
type outerShape struct{ recognised, inclusive, applyKept bool }

func redirect(fset *token.FileSet, fn *ast.FuncDecl, fs *facts) redirShape {
	p := "redirectToLeader."
	rec := true
	if fn == nil || fn.Body == nil {
		fs.add(p+"found", false)
		return redirShape{}
	}
	outerFE := topVar(fn.Body, "finalErr")
	rec = fs.add(p+"var finalErr error declared at function level", outerFE != nil) && rec
	loop, nloops := retryLoop(fn.Body)
	rec = fs.add(p+"exactly one retry loop", nloops == 1) && rec
	hdr, incl := loopHeader(fset, loop)
	rec = fs.add(p+"loop header is `for i := 0; i <=|< cc.config.CommitRetries; i++`", hdr) && rec
	fs.add(p+"loop bound is inclusive (CommitRetries+1 attempts)", incl)
	kept := false
	if loop != nil {
		body := loop.Body
		// the leader is determined first; no leader in time => (false, err)
		leaderAs, li := assignOfCall(fset, body, "cc.Leader")
		rec = fs.add(p+"`leader, err := cc.Leader(ctx)` opens the attempt", leaderAs != nil && li >= 0) && rec
		noLeaderOK := false
		selfIdx := -1
		for i, st := range body.List {
			ifs, ok := st.(*ast.IfStmt)
			if !ok {
				continue
			}
			c := exprStr(fset, ifs.Cond)
			if c == "err != nil" && i > li && selfIdx < 0 {
				noLeaderOK = hasReturn(fset, ifs.Body, "false", "*") &&
					everyReturn(fset, ifs.Body, []string{"false", "*"})
			}
			if c == "leader == cc.host.ID()" {
				selfIdx = i
				rec = fs.add(p+"this peer leads => `return false, nil`",
					len(ifs.Body.List) == 1 && len(returnsOf(ifs.Body.List[0])) == 2 &&
						exprStr(fset, returnsOf(ifs.Body.List[0])[0]) == "false" &&
						exprStr(fset, returnsOf(ifs.Body.List[0])[1]) == "nil") && rec
			}
		}
		rec = fs.add(p+"no leader within the timeout => `return false, <error>` (never nil)", noLeaderOK) && rec
		rec = fs.add(p+"self check present", selfIdx >= 0) && rec
		fwd, fi := assignOfCall(fset, body, "cc.rpcClient.CallContext")
		rec = fs.add(p+"one forwarding RPC `cc.rpcClient.CallContext(...)` after the self check", fwd != nil && fi > selfIdx && selfIdx >= 0) && rec
		var fwdObj *ast.Object
		if fwd != nil {
			id := lhsIdent(fwd, "finalErr")
			rec = fs.add(p+"the RPC result goes to a variable named finalErr", id != nil && len(fwd.Lhs) == 1) && rec
			if id != nil {
				fwdObj = id.Obj
			}
			// next: if finalErr != nil { ...; continue } ; then break
			okRetry, okBreak := false, false
			if fi+1 < len(body.List) {
				if ifs, ok := body.List[fi+1].(*ast.IfStmt); ok && exprStr(fset, ifs.Cond) == "finalErr != nil" &&
					ifs.Else == nil && isBranch(lastStmt(ifs.Body), token.CONTINUE) {
					okRetry = true
				}
			}
			if fi+2 == len(body.List)-1 && isBranch(body.List[fi+2], token.BREAK) {
				okBreak = true
			}
			rec = fs.add(p+"a failed forward is retried (`if finalErr != nil { ...; continue }`)", okRetry) && rec
			rec = fs.add(p+"a successful forward ends the loop (`break`)", okBreak) && rec
			kept = fwd.Tok == token.ASSIGN && fwdObj != nil && fwdObj == outerFE
		}
		fs.add(p+"the RPC result is ASSIGNED (`=`) to the function-level finalErr", kept)
	}
	// after the loop: return true, finalErr (the function-level one)
	last := lastStmt(fn.Body)
	res := returnsOf(last)
	retOK := len(res) == 2 && exprStr(fset, res[0]) == "true"
	if retOK {
		id, ok := res[1].(*ast.Ident)
		retOK = ok && id.Name == "finalErr" && id.Obj == outerFE && outerFE != nil
	}
	rec = fs.add(p+"ends with `return true, finalErr` (function-level variable)", retOK) && rec
	return redirShape{rec, incl, kept}
}

func outer(fset *token.FileSet, name string, fn *ast.FuncDecl, applyFuns []string, fs *facts) outerShape {
	p := name + "."
	rec := true
	if fn == nil || fn.Body == nil {
		fs.add(p+"found", false)
		return outerShape{}
	}
	outerFE := topVar(fn.Body, "finalErr")
	rec = fs.add(p+"var finalErr error declared at function level", outerFE != nil) && rec
	loop, nloops := retryLoop(fn.Body)
	rec = fs.add(p+"exactly one retry loop", nloops == 1) && rec
	hdr, incl := loopHeader(fset, loop)
	rec = fs.add(p+"loop header is `for i := 0; i <=|< cc.config.CommitRetries; i++`", hdr) && rec
	fs.add(p+"loop bound is inclusive (CommitRetries+1 attempts)", incl)
	kept := false
	if loop != nil {
		body := loop.Body
		red, ri := assignOfCall(fset, body, "cc.redirectToLeader")
		rec = fs.add(p+"`ok, err := cc.redirectToLeader(...)`", red != nil && red.Tok == token.DEFINE && len(red.Lhs) == 2 &&
			exprStr(fset, red.Lhs[0]) == "ok" && exprStr(fset, red.Lhs[1]) == "err") && rec
		retOK := false
		if ri >= 0 && ri+1 < len(body.List) {
			if ifs, ok := body.List[ri+1].(*ast.IfStmt); ok && exprStr(fset, ifs.Cond) == "err != nil || ok" &&
				len(ifs.Body.List) == 1 && len(returnsOf(ifs.Body.List[0])) == 1 &&
				exprStr(fset, returnsOf(ifs.Body.List[0])[0]) == "err" {
				retOK = true
			}
		}
		rec = fs.add(p+"redirected or failed to find a leader => `return err`", retOK) && rec
		app, ai := assignOfCall(fset, body, applyFuns...)
		rec = fs.add(p+"one local apply ("+strings.Join(applyFuns, "|")+") after the redirect", app != nil && ai > ri && ri >= 0) && rec
		if app != nil {
			id := lhsIdent(app, "finalErr")
			rec = fs.add(p+"the apply result goes to a variable named finalErr", id != nil) && rec
			okRetry := false
			// the check follows the apply; only plain calls (releasing the shutdown lock) may stand between
			ci := ai + 1
			for ci < len(body.List) {
				if _, ok := body.List[ci].(*ast.ExprStmt); !ok {
					break
				}
				ci++
			}
			if ci < len(body.List) {
				if ifs, ok := body.List[ci].(*ast.IfStmt); ok && exprStr(fset, ifs.Cond) == "finalErr != nil" && ifs.Else == nil {
					l := lastStmt(ifs.Body)
					if isBranch(l, token.CONTINUE) {
						okRetry = true
					}
					if isBranch(l, token.GOTO) {
						// goto RETRY: the label must be the last statement of the loop body (sleep, then next iteration)
						if ls, ok := lastStmt(body).(*ast.LabeledStmt); ok && ls.Label.Name == l.(*ast.BranchStmt).Label.Name {
							okRetry = true
						}
					}
				}
			}
			rec = fs.add(p+"a failed apply is retried (continue / goto the trailing RETRY label)", okRetry) && rec
			// success: a break at the top level of the loop body after the apply
			okBreak := false
			for i := ai + 2; i < len(body.List); i++ {
				if isBranch(body.List[i], token.BREAK) {
					okBreak = true
				}
			}
			rec = fs.add(p+"a successful apply ends the loop (`break`)", okBreak) && rec
			kept = app.Tok == token.ASSIGN && id != nil && id.Obj == outerFE && outerFE != nil
		}
		fs.add(p+"the apply result is ASSIGNED (`=`) to the function-level finalErr", kept)
	}
	last := lastStmt(fn.Body)
	res := returnsOf(last)
	retOK := len(res) == 1
	if retOK {
		id, ok := res[0].(*ast.Ident)
		retOK = ok && id.Name == "finalErr" && id.Obj == outerFE && outerFE != nil
	}
	rec = fs.add(p+"ends with `return finalErr` (function-level variable)", retOK) && rec
	return outerShape{rec, incl, kept}
}

// ---------- the decodability gate of commit (3d753d4) ----------

type gateShape struct {
	recognised  bool
	pos         string // absent | beforeLoop | afterLoop
	errReturned bool
}

func paramObj(fn *ast.FuncDecl, name string) *ast.Object {
	if fn == nil || fn.Type.Params == nil {
		return nil
	}
	for _, f := range fn.Type.Params.List {
		for _, id := range f.Names {
			if id.Name == name {
				return id.Obj
			}
		}
	}
	return nil
}

func callsOf(fset *token.FileSet, n ast.Node, fun string) []*ast.CallExpr {
	var l []*ast.CallExpr
	ast.Inspect(n, func(x ast.Node) bool {
		if c, ok := x.(*ast.CallExpr); ok && exprStr(fset, c.Fun) == fun {
			l = append(l, c)
		}
		return true
	})
	return l
}

func argObj(c *ast.CallExpr, i int) *ast.Object {
	if c == nil || i >= len(c.Args) {
		return nil
	}
	if id, ok := c.Args[i].(*ast.Ident); ok {
		return id.Obj
	}
	return nil
}

// gateIf recognises `if err := checkDecodable(<x>); err != nil { ... }` (no else).
func gateIf(fset *token.FileSet, st ast.Stmt) (*ast.IfStmt, *ast.CallExpr) {
	ifs, ok := st.(*ast.IfStmt)
	if !ok || ifs.Init == nil || ifs.Else != nil || exprStr(fset, ifs.Cond) != "err != nil" {
		return nil, nil
	}
	as, ok := ifs.Init.(*ast.AssignStmt)
	if !ok || as.Tok != token.DEFINE || len(as.Lhs) != 1 || len(as.Rhs) != 1 || exprStr(fset, as.Lhs[0]) != "err" {
		return nil, nil
	}
	call, ok := as.Rhs[0].(*ast.CallExpr)
	if !ok || exprStr(fset, call.Fun) != "checkDecodable" {
		return nil, nil
	}
	return ifs, call
}

// submitter checks LogPin / LogUnpin: op := cc.op(ctx, pin, <typ>); err := cc.commit(ctx, op, ...);
// if err != nil { return err }.
func submitter(fset *token.FileSet, fn *ast.FuncDecl, typ string) bool {
	if fn == nil || fn.Body == nil {
		return false
	}
	var opObj *ast.Object
	okOp, okCommit, okRet := false, false, false
	for i, st := range fn.Body.List {
		as, ok := st.(*ast.AssignStmt)
		if !ok || len(as.Rhs) != 1 || len(as.Lhs) != 1 {
			continue
		}
		call, ok := as.Rhs[0].(*ast.CallExpr)
		if !ok {
			continue
		}
		switch exprStr(fset, call.Fun) {
		case "cc.op":
			if id, ok := as.Lhs[0].(*ast.Ident); ok && len(call.Args) == 3 && exprStr(fset, call.Args[2]) == typ {
				opObj, okOp = id.Obj, true
			}
		case "cc.commit":
			if exprStr(fset, as.Lhs[0]) == "err" && opObj != nil && argObj(call, 1) == opObj {
				okCommit = true
				if i+1 < len(fn.Body.List) {
					if ifs, ok := fn.Body.List[i+1].(*ast.IfStmt); ok && exprStr(fset, ifs.Cond) == "err != nil" &&
						len(ifs.Body.List) == 1 && len(returnsOf(ifs.Body.List[0])) == 1 &&
						exprStr(fset, returnsOf(ifs.Body.List[0])[0]) == "err" {
						okRet = true
					}
				}
			}
		}
	}
	return okOp && okCommit && okRet
}

func gate(fset *token.FileSet, fn *ast.FuncDecl, fns, top map[string]*ast.FuncDecl, fs *facts) gateShape {
	p := "commit.gate."
	if fn == nil || fn.Body == nil {
		fs.add(p+"commit found", false)
		return gateShape{pos: "absent"}
	}
	rec := true
	opObj := paramObj(fn, "op")
	rec = fs.add(p+"commit has a parameter `op`", opObj != nil) && rec
	all := callsOf(fset, fn.Body, "checkDecodable")
	rec = fs.add(p+"`checkDecodable` is called exactly once in commit", len(all) == 1) && rec
	loopIdx, gateIdx, ngates := -1, -1, 0
	var gif *ast.IfStmt
	var gcall *ast.CallExpr
	for i, st := range fn.Body.List {
		if _, ok := st.(*ast.ForStmt); ok && loopIdx < 0 {
			loopIdx = i
		}
		if ifs, call := gateIf(fset, st); ifs != nil {
			gif, gcall, gateIdx = ifs, call, i
			ngates++
		}
	}
	rec = fs.add(p+"the call is the init of a top-level, unconditional `if err := checkDecodable(...); err != nil { ... }`", ngates == 1) && rec
	rec = fs.add(p+"its argument is commit's `op` parameter", gcall != nil && opObj != nil && argObj(gcall, 0) == opObj) && rec
	applies := callsOf(fset, fn.Body, "cc.consensus.CommitOp")
	rec = fs.add(p+"the loop's CommitOp applies that same `op`", len(applies) == 1 && opObj != nil && argObj(applies[0], 0) == opObj) && rec
	reassigned := false
	ast.Inspect(fn.Body, func(x ast.Node) bool {
		if as, ok := x.(*ast.AssignStmt); ok {
			for _, l := range as.Lhs {
				if id, ok := l.(*ast.Ident); ok && id.Obj == opObj && opObj != nil {
					reassigned = true
				}
			}
		}
		return true
	})
	rec = fs.add(p+"`op` is never reassigned in commit", !reassigned) && rec
	pos := "absent"
	if gif != nil && loopIdx >= 0 {
		if gateIdx < loopIdx {
			pos = "beforeLoop"
		} else {
			pos = "afterLoop"
		}
	}
	fs.add(p+"it stands before the retry loop (nothing is attempted for a refused operation)", pos == "beforeLoop")
	errRet := false
	if gif != nil {
		errRet = len(gif.Body.List) > 0 && len(returnsOf(lastStmt(gif.Body))) == 1 &&
			everyReturn(fset, gif.Body, []string{"*"})
	}
	fs.add(p+"its body ends in `return <non-nil error>`", errRet)
	rec = fs.add("LogPin.`op := cc.op(ctx, pin, LogOpPin); err := cc.commit(ctx, op, ...); if err != nil { return err }`", submitter(fset, fns["LogPin"], "LogOpPin")) && rec
	rec = fs.add("LogUnpin.`op := cc.op(ctx, pin, LogOpUnpin); err := cc.commit(ctx, op, ...); if err != nil { return err }`", submitter(fset, fns["LogUnpin"], "LogOpUnpin")) && rec
	// checkDecodable itself: encode with a msgpack handle, decode into a fresh LogOp, return the decoder's error
	cd := top["checkDecodable"]
	cdOK := false
	if cd != nil && cd.Body != nil {
		enc := callsOf(fset, cd.Body, "codec.NewEncoder")
		dec := callsOf(fset, cd.Body, "codec.NewDecoder")
		res := returnsOf(lastStmt(cd.Body))
		if len(enc) == 1 && len(dec) == 1 && len(res) == 1 {
			if c, ok := res[0].(*ast.CallExpr); ok {
				if sel, ok := c.Fun.(*ast.SelectorExpr); ok && sel.Sel.Name == "Decode" && len(c.Args) == 1 {
					if inner, ok := sel.X.(*ast.CallExpr); ok && inner == dec[0] {
						if u, ok := c.Args[0].(*ast.UnaryExpr); ok && u.Op == token.AND {
							if cl, ok := u.X.(*ast.CompositeLit); ok && exprStr(fset, cl.Type) == "LogOp" && len(cl.Elts) == 0 {
								cdOK = true
							}
						}
					}
				}
			}
		}
		// the encoder's error is returned too, and it encodes the parameter
		encOK := false
		for i, st := range cd.Body.List {
			as, ok := st.(*ast.AssignStmt)
			if !ok || len(as.Rhs) != 1 {
				continue
			}
			if c, ok := as.Rhs[0].(*ast.CallExpr); ok {
				if sel, ok := c.Fun.(*ast.SelectorExpr); ok && sel.Sel.Name == "Encode" && argObj(c, 0) == paramObj(cd, "op") && paramObj(cd, "op") != nil {
					if i+1 < len(cd.Body.List) {
						if ifs, ok := cd.Body.List[i+1].(*ast.IfStmt); ok && exprStr(fset, ifs.Cond) == "err != nil" &&
							len(ifs.Body.List) == 1 && len(returnsOf(ifs.Body.List[0])) == 1 && exprStr(fset, returnsOf(ifs.Body.List[0])[0]) == "err" {
							encOK = true
						}
					}
				}
			}
		}
		cdOK = cdOK && encOK
	}
	rec = fs.add("checkDecodable.encodes its `op` with codec (error returned) and returns `codec.NewDecoder(...).Decode(&LogOp{})`", cdOK) && rec
	return gateShape{rec, pos, errRet}
}

func main() {
	repo := os.Getenv("VERIF_REPO")
	if repo == "" {
		repo = "/repo"
	}
	path := filepath.Join(repo, "consensus", "raft", "consensus.go")
	fset := token.NewFileSet()
	file, err := parser.ParseFile(fset, path, nil, 0)
	if err != nil {
		fmt.Fprintln(os.Stderr, "parse:", err)
		os.Exit(1)
	}
	fns := map[string]*ast.FuncDecl{}
	top := map[string]*ast.FuncDecl{}
	for _, d := range file.Decls {
		if fd, ok := d.(*ast.FuncDecl); ok && fd.Recv != nil {
			fns[fd.Name.Name] = fd
		} else if ok {
			top[fd.Name.Name] = fd
		}
	}
	fs := &facts{}
	r := redirect(fset, fns["redirectToLeader"], fs)
	c := outer(fset, "commit", fns["commit"], []string{"cc.consensus.CommitOp"}, fs)
	a := outer(fset, "AddPeer", fns["AddPeer"], []string{"cc.raft.AddPeer"}, fs)
	m := outer(fset, "RmPeer", fns["RmPeer"], []string{"cc.raft.RemovePeer"}, fs)
	g := gate(fset, fns["commit"], fns, top, fs)

	var b strings.Builder
	b.WriteString("/- GENERATED by harness/extract_c01 from consensus/raft/consensus.go (go/ast). Do not edit. -/\n")
	b.WriteString("import ClusterVerif.Model.C01Commit\nnamespace CV.C01.Commit.Gen\nopen CV.C01.Commit\n\n")
	fmt.Fprintf(&b, "def redirectShape : RedirShape := { recognised := %s, inclusive := %s, fwdKept := %s }\n", boolLean(r.recognised), boolLean(r.inclusive), boolLean(r.fwdKept))
	for _, x := range []struct {
		n string
		s outerShape
	}{{"commitShape", c}, {"addPeerShape", a}, {"rmPeerShape", m}} {
		fmt.Fprintf(&b, "def %s : OuterShape := { recognised := %s, inclusive := %s, applyKept := %s }\n", x.n, boolLean(x.s.recognised), boolLean(x.s.inclusive), boolLean(x.s.applyKept))
	}
	fmt.Fprintf(&b, "def gateShape : GateShape := { recognised := %s, pos := .%s, errReturned := %s }\n", boolLean(g.recognised), g.pos, boolLean(g.errReturned))
	b.WriteString("\n/-- the individual observations behind the shapes -/\ndef facts : List (String × Bool) := [\n")
	for i, f := range fs.l {
		sep := ","
		if i == len(fs.l)-1 {
			sep = ""
		}
		fmt.Fprintf(&b, "  (%q, %s)%s\n", f.name, boolLean(f.ok), sep)
	}
	b.WriteString("]\n\nend CV.C01.Commit.Gen\n")
	fmt.Print(b.String())
}
