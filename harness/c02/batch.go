package main

// Suite "batch": one real crdt.Consensus peer (no other peers), LogPin/LogUnpin
// driven by a script, the datastore under it controllable (gate, one-shot write
// failure by class), a recording PinTracker.
//
//   C02 batch <cfg> <script> => vals=<..> tr=<executed trace> fired=<classes>
//
// cfg:   N (batching disabled) | Z<maxSize>.<queue> (age limit far away: 1h)
//        | S<maxSize>.<queue> (age limit 60ms)
// script steps (';' separated):
//   P<pin token>   LogPin            U<cid>   LogUnpin
//   cP.. / cU..    the same, submitted with a REQUEST-SCOPED context that is cancelled as soon as LogPin/LogUnpin has
//                  returned (what an API request's context does); kP.. / kU..: with a context that is already done
//                  when the call is made; xP.. / xU..: with a context whose deadline passes 1ms after the call
//                  returned. An operation ACCEPTED with such a context must still be committed.
//   h              close the datastore gate (writers are held)
//   w              wait until a writer (the batch worker inside Commit) is held
//   g<c..>         open the gate; c = o | b | t | e | x : fail the next write of that class once; several
//                  letters: one failure per publish attempt, in that order (gbe: the first attempt fails at
//                  the DAG node, the next one at the element batch, the third succeeds)
//   !<c..>         arm such failures without touching the gate
//   f              observation at a moment where every accepted operation must have been
//                  committed: N: now; Z: after padding the batch with filler pins (cids 20..)
//                  until it is full (at least one filler: the last operation of the last batch is
//                  then visible in the pinset); S: one filler, then after the age limit has passed
// executed trace (';' separated, one per step):
//   o | r | e      LogPin/LogUnpin returned nil | ErrMaxQueueSizeReached | another error
//   h, g, !        done ; w1 / w0   held / not held within the timeout
//   f/<fillers>/<pinset>/<tracker calls since the previous observation>[/<commit attempts>]
//        commit attempts (S mode): <taken><o|b|t|e|x>,... : how many operations the worker had taken when
//        each publish attempt since the previous observation started (accepted minus queued, read under
//        the submission lock when the attempt's DAG node write reaches the datastore), and how it ended
//        fillers: <cid>.<val>o,... (submitted again after a short pause while the queue is full;
//        only the accepted submission is listed) ; pinset: <cid>.<val>,... ; calls: T<cid>.<val> | N<cid>

import (
	"context"
	"errors"
	"fmt"
	"strconv"
	"strings"
	"sync"
	"time"

	"github.com/ipfs/ipfs-cluster/api"
	ccrdt "github.com/ipfs/ipfs-cluster/consensus/crdt"

	"verifharness/common"
)

const (
	shortAge   = 60 * time.Millisecond
	longAge    = time.Hour
	fillerBase = 20
	nFillers   = 44
)

type batchCfg struct {
	mode    byte // N Z S
	maxSize int
	queue   int
}

func parseBatchCfg(s string) (batchCfg, bool) {
	if s == "N" {
		return batchCfg{mode: 'N'}, true
	}
	if len(s) < 2 || (s[0] != 'Z' && s[0] != 'S') {
		return batchCfg{}, false
	}
	var a, b int
	if n, _ := fmt.Sscanf(s[1:], "%d.%d", &a, &b); n != 2 || a < 1 || b < 1 {
		return batchCfg{}, false
	}
	return batchCfg{mode: s[0], maxSize: a, queue: b}, true
}

func classesOf(s string) []wclass {
	var l []wclass
	for i := 0; i < len(s); i++ {
		if c := classOf(s[i]); c != clNone {
			l = append(l, c)
		}
	}
	return l
}

func classOf(c byte) wclass {
	switch c {
	case 'b':
		return clBlock
	case 't':
		return clTombs
	case 'e':
		return clElems
	case 'x':
		return clHeads
	}
	return clNone
}

type accOp struct {
	pin bool
	cid int
	val int
}

// expected pinset if every accepted op has taken effect, in submission order (only used to
// decide how long to wait; the verdict is Lean's)
func oracle(ops []accOp) string {
	m := map[int]int{}
	for _, o := range ops {
		if o.pin {
			m[o.cid] = o.val
		} else {
			delete(m, o.cid)
		}
	}
	var l []string
	for c := 0; c < common.PinUniverse; c++ {
		if v, ok := m[c]; ok {
			l = append(l, fmt.Sprintf("%d.%d", c, v))
		}
	}
	if len(l) == 0 {
		return "-"
	}
	return strings.Join(l, ",")
}

func waitState(p *cpeer, vt *valTable, want string, timeout time.Duration) (string, bool) {
	deadline := time.Now().Add(timeout)
	for {
		s := p.state(vt)
		if s == want {
			return s, true
		}
		if time.Now().After(deadline) {
			return s, false
		}
		time.Sleep(2 * time.Millisecond)
	}
}

// runBatch executes one script; returns false when the infrastructure failed (inconclusive).
// ctxMode splits the context marker off a P/U step: 0 (background context), 'c', 'k' or 'x'
func ctxMode(st string) (byte, string) {
	if len(st) >= 2 && (st[0] == 'c' || st[0] == 'k' || st[0] == 'x') && (st[1] == 'P' || st[1] == 'U') {
		return st[0], st[1:]
	}
	return 0, st
}

func validBatchStep(st string) bool {
	_, st = ctxMode(st)
	switch {
	case st == "h" || st == "w" || st == "f":
		return true
	case strings.HasPrefix(st, "g"):
		return st == "go" || (len(st) >= 2 && len(st) <= 5 && strings.Trim(st[1:], "btex") == "")
	case strings.HasPrefix(st, "!"):
		return len(st) >= 2 && len(st) <= 5 && strings.Trim(st[1:], "btex") == ""
	case strings.HasPrefix(st, "U"):
		c, err := strconv.Atoi(st[1:])
		return err == nil && c >= 0 && c < fillerBase && strconv.Itoa(c) == st[1:]
	case strings.HasPrefix(st, "P"):
		f := strings.Split(st[1:], "/")
		if len(f) != 14 {
			return false
		}
		c, err := strconv.Atoi(f[0])
		return err == nil && c >= 0 && c < fillerBase && strconv.Itoa(c) == f[0]
	}
	return false
}

func runBatch(emit func(string), cfgTok, script string) {
	bc, ok := parseBatchCfg(cfgTok)
	if !ok {
		emit("# malformed batch case: cfg " + cfgTok)
		return
	}
	steps := strings.Split(script, ";")
	for _, st := range steps {
		if st != "" && !validBatchStep(st) {
			emit("# malformed batch case: step " + st)
			return
		}
	}
	var pins []*api.Pin
	for _, st := range steps {
		if _, st := ctxMode(st); strings.HasPrefix(st, "P") {
			pins = append(pins, common.PinOf(st[1:]))
		}
	}
	fill := make([]*api.Pin, nFillers)
	for i := range fill {
		fill[i] = api.PinCid(common.CidN(fillerBase + i))
		fill[i].Name = common.NameN(60 + i)
	}
	vt := newValTable(append(append([]*api.Pin{}, pins...), fill...))

	pc := peerCfg{seed: "batch", trustAll: true, queue: bc.queue}
	switch bc.mode {
	case 'Z':
		pc.maxSize, pc.maxAge = bc.maxSize, longAge
	case 'S':
		pc.maxSize, pc.maxAge = bc.maxSize, shortAge
	}
	p, err := newPeer(pc, vt)
	if err != nil {
		emit(fmt.Sprintf("# inconclusive batch peer setup: %v", err))
		return
	}
	defer p.close()
	ctx := context.Background()

	var acc []accOp
	var subMu sync.Mutex // held around LogPin/LogUnpin + bookkeeping, and by the commit-attempt callback
	if bc.mode == 'S' {
		p.store.onAttempt = func() int {
			subMu.Lock()
			defer subMu.Unlock()
			return len(acc) - p.cc.VerifQueueLen()
		}
	}
	sinceFlush := 0
	nextFill := 0
	var tr, vals []string
	var reqCancels []context.CancelFunc
	defer func() {
		for _, c := range reqCancels {
			c()
		}
	}()
	submit := func(pin *api.Pin, isPin bool, cm byte) string {
		// LogPin/LogUnpin must return at once (enqueue or refuse); a call that blocks is reported as 'e'
		done := make(chan error, 1)
		go func() {
			var err error
			defer func() {
				if r := recover(); r != nil {
					err = fmt.Errorf("panic: %v", r)
				}
				done <- err
			}()
			subMu.Lock()
			defer subMu.Unlock()
			ctx := ctx
			switch cm {
			case 'c': // request-scoped: cancelled when the call has returned
				c, cancel := context.WithCancel(ctx)
				defer cancel()
				ctx = c
			case 'k': // already done
				c, cancel := context.WithCancel(ctx)
				cancel()
				ctx = c
			case 'x': // deadline passes shortly after the call returned
				c, cancel := context.WithTimeout(ctx, time.Millisecond)
				reqCancels = append(reqCancels, cancel)
				defer time.Sleep(2 * time.Millisecond)
				ctx = c
			}
			if isPin {
				err = p.cc.LogPin(ctx, pin)
			} else {
				err = p.cc.LogUnpin(ctx, pin)
			}
			if err == nil {
				o := accOp{pin: isPin, cid: common.CidIndex(pin.Cid, common.PinUniverse)}
				if isPin {
					o.val = vt.val(pin)
				}
				acc = append(acc, o)
			}
		}()
		var err error
		select {
		case err = <-done:
		case <-time.After(4 * time.Second):
			err = errors.New("blocked")
		}
		switch {
		case err == nil:
			sinceFlush++
			return "o"
		case errors.Is(err, ccrdt.ErrMaxQueueSizeReached):
			return "r"
		default:
			return "e"
		}
	}
	firedAtFlush := 0
	npin := 0
	for _, st := range steps {
		if st == "" {
			continue
		}
		cm, st := ctxMode(st)
		switch st[0] {
		case 'P':
			pin := pins[npin]
			npin++
			vals = append(vals, strconv.Itoa(vt.val(pin)))
			tr = append(tr, submit(pin, true, cm))
		case 'U':
			c, err := strconv.Atoi(st[1:])
			if err != nil {
				tr = append(tr, "bad")
				continue
			}
			tr = append(tr, submit(api.PinCid(common.CidN(c)), false, cm))
		case 'h':
			p.store.closeGate()
			tr = append(tr, "h")
		case 'w':
			if p.store.waitBlocked(5 * time.Second) {
				tr = append(tr, "w1")
			} else {
				tr = append(tr, "w0")
			}
		case 'g':
			p.store.openGate(classesOf(st[1:])...)
			tr = append(tr, "g")
		case '!':
			p.store.arm(classesOf(st[1:])...)
			tr = append(tr, "!")
		case 'f':
			var fl []string
			addFiller := func() {
				if nextFill >= nFillers {
					return
				}
				f := fill[nextFill]
				nextFill++
				res := submit(f, true, 0)
				for i := 0; res == "r" && i < 3000; i++ {
					time.Sleep(time.Millisecond)
					res = submit(f, true, 0)
				}
				fl = append(fl, fmt.Sprintf("%d.%d%s", common.CidIndex(f.Cid, common.PinUniverse), vt.val(f), res))
			}
			var state string
			switch bc.mode {
			case 'N':
				state = p.state(vt)
			case 'S':
				addFiller()
				subMu.Lock()
				want := oracle(acc)
				subMu.Unlock()
				state, _ = waitState(p, vt, want, 6*time.Second)
			case 'Z':
				// fill the current batch; the last filler is the last operation of the last batch
				for pad := bc.maxSize - sinceFlush%bc.maxSize; pad > 0; pad-- {
					addFiller()
				}
				var done bool
				state, done = waitState(p, vt, oracle(acc), 3*time.Second)
				// only an injected commit failure leaves a full batch waiting for the next item:
				// then, and only then, one more filler at a time
				if fired := len(p.store.firedStr()); p.store.firedStr() != "-" && fired > firedAtFlush {
					for i := 0; !done && i <= bc.maxSize+1 && nextFill < nFillers; i++ {
						addFiller()
						state, done = waitState(p, vt, oracle(acc), 500*time.Millisecond)
					}
					if !done {
						state, _ = waitState(p, vt, oracle(acc), 5*time.Second)
					}
				}
			}
			p.store.waitQuiet(3*time.Millisecond, 2*time.Second)
			sinceFlush = 0
			if f := p.store.firedStr(); f != "-" {
				firedAtFlush = len(f)
			}
			j := "-"
			if len(fl) > 0 {
				j = strings.Join(fl, ",")
			}
			if bc.mode == 'S' {
				var al []string
				for _, a := range p.store.takeAttempts() {
					al = append(al, fmt.Sprintf("%d%c", a.taken, a.out))
				}
				aj := "-"
				if len(al) > 0 {
					aj = strings.Join(al, ",")
				}
				tr = append(tr, fmt.Sprintf("f/%s/%s/%s/%s", j, state, p.trk.take(), aj))
			} else {
				tr = append(tr, fmt.Sprintf("f/%s/%s/%s", j, state, p.trk.take()))
			}
		default:
			tr = append(tr, "bad")
		}
	}
	p.store.openGate(clNone)
	v := "-"
	if len(vals) > 0 {
		v = strings.Join(vals, ",")
	}
	emit(fmt.Sprintf("C02 batch %s %s => vals=%s tr=%s fired=%s", cfgTok, script, v, strings.Join(tr, ";"), p.store.firedStr()))
}

// ---- generator ----

func randPinTok(r *common.Rng, cid int) string {
	// cid/type/rmin:rmax/name/mode/depth/shard/allocs/expire/meta/update/origins/ref/ualloc
	mode, depth := "r", "-1"
	if r.Chance(1, 4) {
		mode, depth = "d", "0"
	}
	fac := []string{"-1:-1", "1:2", "2:3", "1:1"}[r.Intn(4)]
	al := "-"
	if fac != "-1:-1" {
		al = []string{"0", "1", "0,1", "2,1"}[r.Intn(4)]
	}
	meta := "-"
	if r.Chance(1, 3) {
		meta = fmt.Sprintf("%d:%d", 1+r.Intn(2), 1+r.Intn(3))
	}
	exp := []string{"z", "z", "z", "f1", "f2"}[r.Intn(5)]
	org := "-"
	if r.Chance(1, 6) {
		org = strconv.Itoa(1 + r.Intn(3))
	}
	return fmt.Sprintf("%d/d/%s/%d/%s/%s/0/%s/%s/%s/-/%s/-/-", cid, fac, r.Intn(4), mode, depth, al, exp, meta, org)
}

func genBatchScript(r *common.Rng, thorough bool) (string, string) {
	if r.Chance(1, 60) { // malformed stream: must be skipped with a comment line, never crash the harness
		return []string{"Z0.0", "Q", "Z2.50", "S3.1"}[r.Intn(4)], []string{"P;f", "U99;f", "gq;f", "P0/d;f", ";;;"}[r.Intn(5)]
	}
	ncid := 1 + r.Intn(4)
	// half of the cases submit (some of) their operations with request-scoped / done / expiring contexts
	ctxCase := r.Chance(1, 2)
	op := func() string {
		c := r.Intn(ncid)
		pre := ""
		if ctxCase && r.Chance(2, 3) {
			pre = []string{"c", "c", "k", "x"}[r.Intn(4)]
		}
		if r.Chance(2, 3) {
			return pre + "P" + randPinTok(r, c)
		}
		return pre + "U" + strconv.Itoa(c)
	}
	ops := func(n int) []string {
		l := make([]string, n)
		for i := range l {
			l[i] = op()
		}
		return l
	}
	classes := "btex"
	// a failure script: mostly one failure, otherwise two or three, one per publish attempt
	fails := func(from string) string {
		n := 1
		if r.Chance(2, 5) {
			n = 2 + r.Intn(2)
		}
		b := make([]byte, n)
		for i := range b {
			b[i] = from[r.Intn(len(from))]
		}
		return string(b)
	}
	switch x := r.Intn(100); {
	case x < 15: // batching disabled
		var st []string
		n := r.Range(2, 8)
		failAt := -1
		if r.Chance(1, 2) {
			failAt = r.Intn(n)
		}
		for i := 0; i < n; i++ {
			if i == failAt {
				st = append(st, "!"+fails(classes))
			}
			st = append(st, op(), "f")
		}
		return "N", strings.Join(st, ";")
	case x < 45: // size-triggered, plain
		size := []int{1, 2, 5, 3}[r.Intn(4)]
		var st []string
		segs := r.Range(1, 3)
		failSeg := -1
		if r.Chance(2, 5) {
			failSeg = r.Intn(segs)
		}
		for s := 0; s < segs; s++ {
			n := size * r.Range(1, 3)
			if r.Chance(1, 3) {
				n = r.Range(1, 2*size+1)
			}
			if s == failSeg {
				// armed while the worker is idle (start, or right after a flush)
				st = append(st, "!"+fails(classes))
			}
			st = append(st, ops(n)...)
			st = append(st, "f")
		}
		return fmt.Sprintf("Z%d.%d", size, 50), strings.Join(st, ";")
	case x < 75: // queue smaller than the burst, worker held inside Commit
		// the queue holds at least one batch, and no more operations than the queue holds are
		// submitted while the worker runs free: refusals happen only while it is held
		size := []int{1, 2, 5, 3}[r.Intn(4)]
		q := size + r.Intn(3)
		var st []string
		if r.Chance(1, 2) {
			st = append(st, ops(r.Range(1, q))...)
			st = append(st, "f")
		}
		st = append(st, "h")
		st = append(st, ops(size)...)
		st = append(st, "w")
		st = append(st, ops(q+r.Range(0, 4))...) // exactly the queue's capacity up to 4 more
		g := "go"
		if r.Chance(1, 3) {
			g = "g" + fails(classes)
		}
		st = append(st, g, "f")
		if r.Chance(1, 2) {
			st = append(st, ops(r.Range(1, q))...)
			st = append(st, "f")
		}
		return fmt.Sprintf("Z%d.%d", size, q), strings.Join(st, ";")
	default: // age-triggered (pure: size limit out of reach; mixed: small size limit)
		size := 99
		if r.Chance(1, 3) {
			size = []int{2, 3, 5}[r.Intn(3)]
		}
		var st []string
		segs := r.Range(1, 2)
		failSeg := -1
		if r.Chance(1, 2) {
			failSeg = r.Intn(segs)
		}
		for s := 0; s < segs; s++ {
			if s == failSeg {
				st = append(st, "!"+fails("bte"))
			}
			st = append(st, ops(r.Range(1, 7))...)
			st = append(st, "f")
		}
		return fmt.Sprintf("S%d.%d", size, 50), strings.Join(st, ";")
	}
}
