package main

// Suite "val": the REAL topic validator closure that crdt.Consensus.setup() registers on its pubsub
// instance, called in-process (no network). The closure is anonymous and only reachable through the
// pubsub object: it is read out of pubsub's (unexported) validator table by reflection. Messages are
// built with an arbitrary signer (`From`, what msg.GetFrom() returns once pubsub has verified the
// signature) and an arbitrary forwarder (the validator's peer.ID argument / ReceivedFrom).
//
//   C02 val <A|L> <history> => v=<verdicts> it=<IsTrustedPeer(signer) at that moment>
//
// A: trust_all = true; L: trust_all = false, no configured trusted peer.
// history (';' separated), peers 0..5, peer 0 is the replica itself:
//   T<p>  Consensus.Trust(p)     D<p>  Consensus.Distrust(p)
//   M<signer>.<forwarder>        a message reaches the validator
// verdicts / it: one character 0|1 per M step. Every case starts from an empty trusted set
// (everything distrusted first).

import (
	"context"
	"fmt"
	"reflect"
	"strconv"
	"strings"
	"sync"
	"unsafe"

	peer "github.com/libp2p/go-libp2p-core/peer"
	pubsub "github.com/libp2p/go-libp2p-pubsub"
	pubsubpb "github.com/libp2p/go-libp2p-pubsub/pb"

	"verifharness/common"
)

const valPeers = 6

type valWorld struct {
	mu  sync.Mutex
	p   *cpeer
	fn  pubsub.ValidatorEx
	ids []peer.ID
	err error
}

var (
	valWorlds   = map[string]*valWorld{}
	valWorldsMu sync.Mutex
)

// topicValidator digs the single registered topic validator out of a pubsub instance.
func topicValidator(ps *pubsub.PubSub) (fn pubsub.ValidatorEx, err error) {
	defer func() {
		if r := recover(); r != nil {
			err = fmt.Errorf("reflection on pubsub failed: %v", r)
		}
	}()
	open := func(v reflect.Value) reflect.Value {
		return reflect.NewAt(v.Type(), unsafe.Pointer(v.UnsafeAddr())).Elem()
	}
	val := open(reflect.ValueOf(ps).Elem().FieldByName("val")) // *validation
	tvs := open(val.Elem().FieldByName("topicVals"))             // map[string]*topicVal
	keys := tvs.MapKeys()
	if len(keys) != 1 {
		return nil, fmt.Errorf("%d topic validators registered, expected 1", len(keys))
	}
	f := open(tvs.MapIndex(keys[0]).Elem().FieldByName("validate"))
	fn, ok := f.Interface().(pubsub.ValidatorEx)
	if !ok || fn == nil {
		return nil, fmt.Errorf("validate field has type %s", f.Type())
	}
	return fn, nil
}

func getValWorld(mode string) *valWorld {
	valWorldsMu.Lock()
	defer valWorldsMu.Unlock()
	if w, ok := valWorlds[mode]; ok {
		return w
	}
	w := &valWorld{}
	valWorlds[mode] = w
	seed := func(i int) string {
		if i == 0 {
			return "val-self-" + mode
		}
		return fmt.Sprintf("val-peer-%d", i)
	}
	p, err := newPeer(peerCfg{seed: seed(0), trustAll: mode == "A", queue: 10, idOf: seed}, newValTable(nil))
	if err != nil {
		w.err = err
		return w
	}
	w.p = p
	for i := 0; i < valPeers; i++ {
		id, err := peerIDOf(seed(i))
		if err != nil {
			w.err = err
			return w
		}
		w.ids = append(w.ids, id)
	}
	if w.ids[0] != p.h.ID() {
		w.err = fmt.Errorf("identity table: peer 0 is not the replica")
		return w
	}
	w.fn, w.err = topicValidator(p.ps)
	return w
}

func closeValWorlds() {
	valWorldsMu.Lock()
	defer valWorldsMu.Unlock()
	for _, w := range valWorlds {
		if w.p != nil {
			w.p.close()
		}
	}
}

func validValStep(st string) bool {
	if len(st) < 2 {
		return false
	}
	num := func(s string) bool {
		n, err := strconv.Atoi(s)
		return err == nil && n >= 0 && n < valPeers && strconv.Itoa(n) == s
	}
	switch st[0] {
	case 'T', 'D':
		return num(st[1:])
	case 'M':
		f := strings.Split(st[1:], ".")
		return len(f) == 2 && num(f[0]) && num(f[1])
	}
	return false
}

func runVal(emit func(string), mode, hist string) {
	if mode != "A" && mode != "L" {
		emit("# malformed val case: mode " + mode)
		return
	}
	steps := strings.Split(hist, ";")
	for _, st := range steps {
		if st != "" && !validValStep(st) {
			emit("# malformed val case: step " + st)
			return
		}
	}
	w := getValWorld(mode)
	if w.err != nil {
		emit(fmt.Sprintf("# inconclusive val setup: %v", w.err))
		return
	}
	w.mu.Lock()
	defer w.mu.Unlock()
	ctx := context.Background()
	for _, id := range w.ids {
		w.p.cc.Distrust(ctx, id)
	}
	var v, it []byte
	bit := func(b bool) byte {
		if b {
			return '1'
		}
		return '0'
	}
	for _, st := range steps {
		if st == "" {
			continue
		}
		func() {
			defer func() {
				if r := recover(); r != nil {
					v = append(v, 'p')
				}
			}()
			switch st[0] {
			case 'T':
				n, _ := strconv.Atoi(st[1:])
				w.p.cc.Trust(ctx, w.ids[n])
			case 'D':
				n, _ := strconv.Atoi(st[1:])
				w.p.cc.Distrust(ctx, w.ids[n])
			case 'M':
				f := strings.Split(st[1:], ".")
				s, _ := strconv.Atoi(f[0])
				fw, _ := strconv.Atoi(f[1])
				msg := &pubsub.Message{
					Message:      &pubsubpb.Message{From: []byte(w.ids[s]), Data: []byte("x"), Seqno: []byte{1}},
					ReceivedFrom: w.ids[fw],
				}
				res := w.fn(ctx, w.ids[fw], msg)
				v = append(v, bit(res == pubsub.ValidationAccept))
				it = append(it, bit(w.p.cc.IsTrustedPeer(ctx, w.ids[s])))
			}
		}()
	}
	j := func(b []byte) string {
		if len(b) == 0 {
			return "-"
		}
		return string(b)
	}
	emit(fmt.Sprintf("C02 val %s %s => v=%s it=%s", mode, hist, j(v), j(it)))
}

func genValScript(r *common.Rng) (string, string) {
	if r.Chance(1, 80) {
		return []string{"Q", "A", "L"}[r.Intn(3)], []string{"M9.0", "T", "M1", "X1;M0.0"}[r.Intn(4)]
	}
	mode := "L"
	if r.Chance(1, 5) {
		mode = "A"
	}
	np := 2 + r.Intn(valPeers-1) // peers 0..np-1 take part
	n := r.Range(1, 14)
	var st []string
	for i := 0; i < n; i++ {
		switch x := r.Intn(10); {
		case x < 3:
			st = append(st, fmt.Sprintf("T%d", r.Intn(np)))
		case x < 5:
			st = append(st, fmt.Sprintf("D%d", r.Intn(np)))
		default:
			st = append(st, fmt.Sprintf("M%d.%d", r.Intn(np), r.Intn(np)))
		}
	}
	return mode, strings.Join(st, ";")
}
