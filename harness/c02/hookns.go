package main

// Suite "hook", key-namespace modes K and Q (round 8 final): the tie of the dsstate key namespace model
// (Model/C02Keys.lean part N: stKey, unkey, underPrefix, stList, stGet, delHookK) to the real code. Line format in
// hookcfg.go.

import (
	"context"
	"fmt"
	"sort"
	"strconv"
	"strings"
	"sync"
	"time"

	ds "github.com/ipfs/go-datastore"
	dshelp "github.com/ipfs/go-ipfs-ds-help"
	"github.com/ipfs/ipfs-cluster/datastore/inmem"
	"github.com/ipfs/ipfs-cluster/state"
	"github.com/ipfs/ipfs-cluster/state/dsstate"

	"verifharness/common"
)

const hookNsName = "/s0" // namespace of the standalone state of mode Q

var (
	hookNsMu      sync.Mutex
	hookNsWritten = map[string]ds.Key{}
)

// hookNsReset deletes every multi-component key an earlier K case wrote to the shared consensus.
func hookNsReset(cc interface{ VerifRawDelete(ds.Key) error }) {
	hookNsMu.Lock()
	defer hookNsMu.Unlock()
	for s, k := range hookNsWritten {
		cc.VerifRawDelete(k)
		delete(hookNsWritten, s)
	}
}

func nsComp(t string) (string, bool) {
	if len(t) < 2 {
		return "", false
	}
	n, ok := small(t[1:])
	if !ok {
		return "", false
	}
	switch t[0] {
	case 'c':
		return hookKey(n).String(), true
	case 'b':
		return fmt.Sprintf("/not-base32!%d", n), true
	case 'q':
		return dshelp.NewKeyFromBinary([]byte{0xff, 0xfe, byte(n)}).String(), true
	case 's':
		return fmt.Sprintf("/s%d", n), true
	}
	return "", false
}

func nsKey(w string) (ds.Key, bool) {
	var s string
	cs := strings.Split(w, ":")
	if len(cs) == 0 || len(cs) > 4 {
		return ds.Key{}, false
	}
	for _, t := range cs {
		c, ok := nsComp(t)
		if !ok {
			return ds.Key{}, false
		}
		s += c
	}
	return ds.NewKey(s), true
}

func runHookNs(emit func(string), mode, script string) {
	ctx, cancel := context.WithTimeout(context.Background(), 60*time.Second)
	defer cancel()
	var (
		put   func(ds.Key, []byte) error
		del   func(ds.Key) error
		st    state.ReadOnly
		calls = func() string { return "-" }
	)
	switch mode {
	case "K":
		w := hookWorld()
		if w.err != nil {
			emit(fmt.Sprintf("# inconclusive hook setup: %v", w.err))
			return
		}
		w.mu.Lock()
		defer w.mu.Unlock()
		cc := w.p.cc
		for i := 0; i < hookU; i++ {
			cc.VerifRawDelete(hookKey(i))
			cc.VerifRawDelete(foreignKey(i))
		}
		hookNsReset(cc)
		defer hookNsReset(cc)
		put = func(k ds.Key, v []byte) error {
			hookNsMu.Lock()
			hookNsWritten[k.String()] = k
			hookNsMu.Unlock()
			return cc.VerifRawPut(k, v)
		}
		del = cc.VerifRawDelete
		s, err := cc.State(ctx)
		if err != nil {
			emit(fmt.Sprintf("# inconclusive hook state: %v", err))
			return
		}
		st = s
		calls = func() string {
			hookMu.Lock()
			defer hookMu.Unlock()
			c := hookCalls
			hookCalls = nil
			if len(c) == 0 {
				return "-"
			}
			return strings.Join(c, ",")
		}
	case "Q":
		store := inmem.New()
		s, err := dsstate.New(store, hookNsName, dsstate.DefaultHandle())
		if err != nil {
			emit(fmt.Sprintf("# inconclusive hook state: %v", err))
			return
		}
		st = s
		put = store.Put
		del = func(k ds.Key) error {
			if e := store.Delete(k); e != nil && e != ds.ErrNotFound {
				return e
			}
			return nil
		}
	default:
		emit("# malformed hook case: mode " + mode)
		return
	}
	view := func() string {
		list := "-"
		pins, err := st.List(ctx)
		if err != nil {
			list = "listerr"
		} else {
			var l []string
			for _, p := range pins {
				l = append(l, hookCid(p.Cid)+"."+hookName(p))
			}
			sort.Strings(l)
			if len(l) > 0 {
				list = strings.Join(l, ",")
			}
		}
		var g []string
		has := ""
		for c := 0; c < hookU; c++ {
			p, err := st.Get(ctx, common.CidN(c))
			switch {
			case err == nil:
				g = append(g, hookCid(p.Cid)+"."+hookName(p))
			case err != state.ErrNotFound:
				g = append(g, "E"+strconv.Itoa(c))
			}
			ok, err := st.Has(ctx, common.CidN(c))
			switch {
			case err != nil:
				has += "e"
			case ok:
				has += "1"
			default:
				has += "0"
			}
		}
		get := "-"
		if len(g) > 0 {
			get = strings.Join(g, ",")
		}
		return list + "/" + get + "/" + has
	}
	calls()
	if v := view(); v != "-/-/0000" {
		emit("# inconclusive hook reset left " + v)
		return
	}
	var outs []string
	for _, step := range strings.Split(script, ";") {
		if step == "" {
			continue
		}
		bad := func() { emit("# malformed hook case: step " + step) }
		var err error
		switch step[0] {
		case '+':
			kv := strings.Split(step[1:], "=")
			if len(kv) != 2 {
				bad()
				return
			}
			k, ok := nsKey(kv[0])
			if !ok {
				bad()
				return
			}
			var b []byte
			if strings.HasPrefix(kv[1], "g") {
				if kv[1] != "g0" && kv[1] != "g1" {
					bad()
					return
				}
				b = []byte{0xff, 0xff, 0xff}
				if kv[1] == "g1" {
					b = []byte{0x0a, 0x05, 0x01}
				}
			} else {
				f := strings.Split(kv[1], ".")
				if len(f) != 2 {
					bad()
					return
				}
				_, ok2 := small(f[0])
				v, e3 := strconv.Atoi(f[1])
				if (!ok2 && f[0] != "u") || e3 != nil || v < 0 || v > 9 {
					bad()
					return
				}
				var e error
				if b, e = hookVal(f[0], v); e != nil {
					bad()
					return
				}
			}
			if e := put(k, b); e != nil {
				err = fmt.Errorf("puterr")
			}
		case '-':
			k, ok := nsKey(step[1:])
			if !ok {
				bad()
				return
			}
			if e := del(k); e != nil {
				err = fmt.Errorf("delerr")
			}
		default:
			bad()
			return
		}
		if err != nil {
			calls()
			outs = append(outs, err.Error()+"/"+view())
			continue
		}
		outs = append(outs, calls()+"/"+view())
	}
	o := strings.Join(outs, ";")
	if o == "" {
		o = "-"
	}
	emit("C02 hook " + mode + " " + script + " => " + o)
}

// genHookNsScript: state keys, keys nested under the prefix (`/x/<cid>`, deeper), keys whose last component is not a
// cid, and (underNs: mode Q) keys outside the namespace /s0 or only string-prefixed by it.
func genHookNsScript(r *common.Rng, underNs bool) string {
	n := r.Range(1, 8)
	var st []string
	var used []string
	for i := 0; i < n; i++ {
		c := r.Intn(hookU)
		mid := []string{"s1", "b0", "q1", "s0", "b2"}[r.Intn(5)]
		var key string
		switch x := r.Intn(16); {
		case x < 5:
			key = fmt.Sprintf("c%d", c)
		case x < 9:
			key = fmt.Sprintf("%s:c%d", mid, c)
		case x < 11:
			key = fmt.Sprintf("%s:s2:c%d", mid, c)
		case x < 13:
			key = fmt.Sprintf("c%d:%s", c, mid)
		case x < 15:
			key = fmt.Sprintf("%s:%s", mid, []string{"b1", "q3", "s3"}[r.Intn(3)])
		default:
			key = []string{"b1", "q3", "s0", "s1"}[r.Intn(4)]
		}
		if underNs && r.Chance(2, 3) {
			key = "s0:" + key
		}
		if len(used) > 0 && r.Chance(1, 3) {
			key = used[r.Intn(len(used))]
		}
		used = append(used, key)
		switch x := r.Intn(10); {
		case x < 5:
			st = append(st, fmt.Sprintf("+%s=%d.%d", key, c, r.Intn(10)))
		case x < 6:
			st = append(st, fmt.Sprintf("+%s=%s.%d", key, []string{"u", strconv.Itoa(r.Intn(hookU))}[r.Intn(2)], r.Intn(10)))
		case x < 7:
			st = append(st, fmt.Sprintf("+%s=g%d", key, r.Intn(2)))
		default:
			st = append(st, "-"+key)
		}
	}
	return strings.Join(st, ";")
}
