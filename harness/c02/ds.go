package main

// ctlDS wraps the datastore handed to crdt.New (consensus). It classifies the
// writes of a publish (DAG node, tombstone batch, element batch, heads), can
// hold writers at a gate (so that the harness knows the batch worker is inside
// Commit and the queue fills deterministically) and can fail the first write
// of a chosen class once.

import (
	"errors"
	"runtime"
	"strings"
	"sync"
	"time"

	ds "github.com/ipfs/go-datastore"
)

type wclass byte

const (
	clNone  wclass = 0
	clBlock wclass = 'b'
	clTombs wclass = 't'
	clElems wclass = 'e'
	clHeads wclass = 'x'
)

var errInjected = errors.New("injected datastore failure")

type ctlDS struct {
	ds.Datastore
	ns string // datastore namespace of the consensus component, e.g. "/c"

	mu      sync.Mutex
	cond    *sync.Cond
	closed  bool   // gate
	waiting int    // writers held at the gate
	armedQ  []wclass // fail the next write of the first class, then of the second, ... (one failure per publish attempt)
	fired   []byte
	// localOnly: gate, failures and attempts concern the writes of a local publish (addDAGNode) only;
	// writes of remote merges (DAG workers, bitswap) pass and are counted in remoteHeads
	localOnly   bool
	remoteHeads int
	// every local publish attempt (its DAG node write): what onAttempt returned, and how it ended
	onAttempt func() int
	attempts  []attempt
	onBlock   func(key string, val []byte, local bool)
	onHeadPut func(key string, local bool)
	writes  int
	lastW   time.Time
	inPub   bool // a publish has started writing and has not reached its heads write (or failed)
}

type attempt struct {
	taken int
	out   byte // 'o' or the class of the write that failed
}

// isLocalPublish: is the calling goroutine inside go-ds-crdt's addDAGNode (publish of a local delta)?
func isLocalPublish() bool {
	pc := make([]uintptr, 96)
	n := runtime.Callers(2, pc)
	fr := runtime.CallersFrames(pc[:n])
	for {
		f, more := fr.Next()
		if strings.HasSuffix(f.Function, "go-ds-crdt.(*Datastore).addDAGNode") {
			return true
		}
		if !more {
			return false
		}
	}
}

func newCtlDS(inner ds.Datastore, ns string) *ctlDS {
	d := &ctlDS{Datastore: inner, ns: ns}
	d.cond = sync.NewCond(&d.mu)
	return d
}

func (d *ctlDS) classify(keys []string) wclass {
	for _, k := range keys {
		switch {
		case strings.HasPrefix(k, d.ns+"/s/t/"):
			return clTombs
		case strings.HasPrefix(k, d.ns+"/s/s/"), strings.HasPrefix(k, d.ns+"/s/k/"):
			return clElems
		case strings.HasPrefix(k, d.ns+"/h/"):
			return clHeads
		case strings.HasPrefix(k, d.ns+"/b/") && !strings.Contains(k, "repro"):
			return clBlock
		}
	}
	return clNone
}

// before is called ahead of every write; returns an error when the write must fail.
func (d *ctlDS) before(keys []string) (wclass, error) {
	cl := d.classify(keys)
	if cl == clNone {
		return cl, nil
	}
	if d.localOnly && !isLocalPublish() {
		d.mu.Lock()
		d.lastW = time.Now()
		if cl == clHeads {
			d.remoteHeads++
		}
		d.mu.Unlock()
		return clNone, nil
	}
	if d.onAttempt != nil {
		// a publish attempt starts with its first write (the DAG node, unless an identical node is
		// already stored: the retry of an unchanged batch); only the worker goroutine publishes
		d.mu.Lock()
		starts := !d.inPub
		d.mu.Unlock()
		if starts {
			t := d.onAttempt() // outside d.mu: the callback takes the harness's submission lock
			d.mu.Lock()
			d.attempts = append(d.attempts, attempt{taken: t, out: 'o'})
			d.mu.Unlock()
		}
	}
	d.mu.Lock()
	defer d.mu.Unlock()
	for d.closed {
		d.waiting++
		d.cond.Broadcast()
		d.cond.Wait()
		d.waiting--
	}
	d.writes++
	d.lastW = time.Now()
	d.inPub = true
	if len(d.armedQ) > 0 && d.armedQ[0] == cl {
		d.armedQ = d.armedQ[1:]
		d.fired = append(d.fired, byte(cl))
		d.inPub = false
		if n := len(d.attempts); n > 0 {
			d.attempts[n-1].out = byte(cl)
		}
		return cl, errInjected
	}
	return cl, nil
}

// after is called when a classified write has returned.
func (d *ctlDS) after(cl wclass) {
	if cl == clHeads {
		d.mu.Lock()
		d.inPub = false
		d.lastW = time.Now()
		d.mu.Unlock()
	}
}

func (d *ctlDS) Put(k ds.Key, v []byte) error {
	if d.onBlock != nil && d.classify([]string{k.String()}) == clBlock {
		d.onBlock(k.String(), v, isLocalPublish())
	}
	cl, err := d.before([]string{k.String()})
	if err != nil {
		return err
	}
	defer d.after(cl)
	if d.onHeadPut != nil && d.classify([]string{k.String()}) == clHeads {
		d.onHeadPut(k.String(), isLocalPublish())
	}
	return d.Datastore.Put(k, v)
}

func (d *ctlDS) Delete(k ds.Key) error {
	cl, err := d.before([]string{k.String()})
	if err != nil {
		return err
	}
	defer d.after(cl)
	return d.Datastore.Delete(k)
}

type ctlBatch struct {
	ds.Batch
	d    *ctlDS
	keys []string
	puts []string
}

func (b *ctlBatch) Put(k ds.Key, v []byte) error {
	if b.d.onBlock != nil && b.d.classify([]string{k.String()}) == clBlock {
		b.d.onBlock(k.String(), v, isLocalPublish())
	}
	b.keys = append(b.keys, k.String())
	b.puts = append(b.puts, k.String())
	return b.Batch.Put(k, v)
}
func (b *ctlBatch) Delete(k ds.Key) error {
	b.keys = append(b.keys, k.String())
	return b.Batch.Delete(k)
}
func (b *ctlBatch) Commit() error {
	cl, err := b.d.before(b.keys)
	if err != nil {
		return err
	}
	defer b.d.after(cl)
	if b.d.onHeadPut != nil && b.d.classify(b.keys) == clHeads {
		local := isLocalPublish()
		for _, k := range b.puts {
			b.d.onHeadPut(k, local)
		}
	}
	return b.Batch.Commit()
}

func (d *ctlDS) Batch() (ds.Batch, error) {
	bt, ok := d.Datastore.(ds.Batching)
	if !ok {
		return nil, ds.ErrBatchUnsupported
	}
	b, err := bt.Batch()
	if err != nil {
		return nil, err
	}
	return &ctlBatch{Batch: b, d: d}, nil
}

func (d *ctlDS) closeGate() {
	d.mu.Lock()
	d.closed = true
	d.mu.Unlock()
}

func (d *ctlDS) openGate(arm ...wclass) {
	d.mu.Lock()
	d.closed = false
	for _, a := range arm {
		if a != clNone {
			d.armedQ = append(d.armedQ, a)
		}
	}
	d.cond.Broadcast()
	d.mu.Unlock()
}

func (d *ctlDS) arm(cls ...wclass) {
	d.mu.Lock()
	for _, c := range cls {
		if c != clNone {
			d.armedQ = append(d.armedQ, c)
		}
	}
	d.mu.Unlock()
}

// takeAttempts returns the publish attempts recorded since the last call: <taken><outcome>,...
func (d *ctlDS) takeAttempts() []attempt {
	d.mu.Lock()
	defer d.mu.Unlock()
	a := d.attempts
	d.attempts = nil
	return a
}

// attemptsCount: publish attempts started so far (only counted while nobody calls takeAttempts)
func (d *ctlDS) attemptsCount() int {
	d.mu.Lock()
	defer d.mu.Unlock()
	return len(d.attempts)
}

func (d *ctlDS) remoteHeadWrites() int {
	d.mu.Lock()
	defer d.mu.Unlock()
	return d.remoteHeads
}

// waitBlocked waits until a writer is held at the gate.
func (d *ctlDS) waitBlocked(timeout time.Duration) bool {
	deadline := time.Now().Add(timeout)
	d.mu.Lock()
	defer d.mu.Unlock()
	for d.waiting == 0 {
		if time.Now().After(deadline) {
			return false
		}
		// cond has no timed wait: poll
		d.mu.Unlock()
		time.Sleep(200 * time.Microsecond)
		d.mu.Lock()
	}
	return true
}

func (d *ctlDS) firedStr() string {
	d.mu.Lock()
	defer d.mu.Unlock()
	if len(d.fired) == 0 {
		return "-"
	}
	return string(d.fired)
}

// quietFor reports whether no publish is in progress and no classified write happened during the last dur.
func (d *ctlDS) quietFor(dur time.Duration) bool {
	d.mu.Lock()
	defer d.mu.Unlock()
	return d.waiting == 0 && !d.inPub && time.Since(d.lastW) >= dur
}

// waitQuiet waits (bounded) for quietFor(dur).
func (d *ctlDS) waitQuiet(dur, timeout time.Duration) bool {
	deadline := time.Now().Add(timeout)
	for !d.quietFor(dur) {
		if time.Now().After(deadline) {
			return false
		}
		time.Sleep(time.Millisecond)
	}
	return true
}
