package main

// ctlDS wraps the datastore handed to crdt.New (consensus). It classifies the
// writes of a publish (DAG node, tombstone batch, element batch, heads), can
// hold writers at a gate (so that the harness knows the batch worker is inside
// Commit and the queue fills deterministically) and can fail the first write
// of a chosen class once.

import (
	"errors"
	"strings"
	"sync"
	"time"

	ds "github.com/ipfs/go-datastore"
)

type wclass byte

const (
	clNone  wclass = 0
	clBlock wclass = 'b'
	clTombs wclass = 't'
	clElems wclass = 'e'
	clHeads wclass = 'x'
)

var errInjected = errors.New("injected datastore failure")

type ctlDS struct {
	ds.Datastore
	ns string // datastore namespace of the consensus component, e.g. "/c"

	mu      sync.Mutex
	cond    *sync.Cond
	closed  bool   // gate
	waiting int    // writers held at the gate
	armed   wclass // fail the next write of this class
	fired   []byte
	writes  int
	lastW   time.Time
	inPub   bool // a publish has started writing and has not reached its heads write (or failed)
}

func newCtlDS(inner ds.Datastore, ns string) *ctlDS {
	d := &ctlDS{Datastore: inner, ns: ns}
	d.cond = sync.NewCond(&d.mu)
	return d
}

func (d *ctlDS) classify(keys []string) wclass {
	for _, k := range keys {
		switch {
		case strings.HasPrefix(k, d.ns+"/s/t/"):
			return clTombs
		case strings.HasPrefix(k, d.ns+"/s/s/"), strings.HasPrefix(k, d.ns+"/s/k/"):
			return clElems
		case strings.HasPrefix(k, d.ns+"/h/"):
			return clHeads
		case strings.HasPrefix(k, d.ns+"/b/") && !strings.Contains(k, "repro"):
			return clBlock
		}
	}
	return clNone
}

// before is called ahead of every write; returns an error when the write must fail.
func (d *ctlDS) before(keys []string) (wclass, error) {
	cl := d.classify(keys)
	if cl == clNone {
		return cl, nil
	}
	d.mu.Lock()
	defer d.mu.Unlock()
	for d.closed {
		d.waiting++
		d.cond.Broadcast()
		d.cond.Wait()
		d.waiting--
	}
	d.writes++
	d.lastW = time.Now()
	d.inPub = true
	if d.armed != clNone && d.armed == cl {
		d.armed = clNone
		d.fired = append(d.fired, byte(cl))
		d.inPub = false
		return cl, errInjected
	}
	return cl, nil
}

// after is called when a classified write has returned.
func (d *ctlDS) after(cl wclass) {
	if cl == clHeads {
		d.mu.Lock()
		d.inPub = false
		d.lastW = time.Now()
		d.mu.Unlock()
	}
}

func (d *ctlDS) Put(k ds.Key, v []byte) error {
	cl, err := d.before([]string{k.String()})
	if err != nil {
		return err
	}
	defer d.after(cl)
	return d.Datastore.Put(k, v)
}

func (d *ctlDS) Delete(k ds.Key) error {
	cl, err := d.before([]string{k.String()})
	if err != nil {
		return err
	}
	defer d.after(cl)
	return d.Datastore.Delete(k)
}

type ctlBatch struct {
	ds.Batch
	d    *ctlDS
	keys []string
}

func (b *ctlBatch) Put(k ds.Key, v []byte) error {
	b.keys = append(b.keys, k.String())
	return b.Batch.Put(k, v)
}
func (b *ctlBatch) Delete(k ds.Key) error {
	b.keys = append(b.keys, k.String())
	return b.Batch.Delete(k)
}
func (b *ctlBatch) Commit() error {
	cl, err := b.d.before(b.keys)
	if err != nil {
		return err
	}
	defer b.d.after(cl)
	return b.Batch.Commit()
}

func (d *ctlDS) Batch() (ds.Batch, error) {
	bt, ok := d.Datastore.(ds.Batching)
	if !ok {
		return nil, ds.ErrBatchUnsupported
	}
	b, err := bt.Batch()
	if err != nil {
		return nil, err
	}
	return &ctlBatch{Batch: b, d: d}, nil
}

func (d *ctlDS) closeGate() {
	d.mu.Lock()
	d.closed = true
	d.mu.Unlock()
}

func (d *ctlDS) openGate(arm wclass) {
	d.mu.Lock()
	d.closed = false
	if arm != clNone {
		d.armed = arm
	}
	d.cond.Broadcast()
	d.mu.Unlock()
}

func (d *ctlDS) arm(cl wclass) {
	d.mu.Lock()
	d.armed = cl
	d.mu.Unlock()
}

// waitBlocked waits until a writer is held at the gate.
func (d *ctlDS) waitBlocked(timeout time.Duration) bool {
	deadline := time.Now().Add(timeout)
	d.mu.Lock()
	defer d.mu.Unlock()
	for d.waiting == 0 {
		if time.Now().After(deadline) {
			return false
		}
		// cond has no timed wait: poll
		d.mu.Unlock()
		time.Sleep(200 * time.Microsecond)
		d.mu.Lock()
	}
	return true
}

func (d *ctlDS) firedStr() string {
	d.mu.Lock()
	defer d.mu.Unlock()
	if len(d.fired) == 0 {
		return "-"
	}
	return string(d.fired)
}

// quietFor reports whether no publish is in progress and no classified write happened during the last dur.
func (d *ctlDS) quietFor(dur time.Duration) bool {
	d.mu.Lock()
	defer d.mu.Unlock()
	return d.waiting == 0 && !d.inPub && time.Since(d.lastW) >= dur
}

// waitQuiet waits (bounded) for quietFor(dur).
func (d *ctlDS) waitQuiet(dur, timeout time.Duration) bool {
	deadline := time.Now().Add(timeout)
	for !d.quietFor(dur) {
		if time.Now().After(deadline) {
			return false
		}
		time.Sleep(time.Millisecond)
	}
	return true
}
